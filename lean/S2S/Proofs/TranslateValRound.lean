import S2S.Proofs.TranslateValId
import S2S.Proofs.TranslateValShape
/-! C13 (value level): translating back with a matcher that undoes the first one on the visited names restores the
    object (up to the re-encoded marks). -/
set_option linter.unusedSectionVars false
namespace S2S.TranslateVal
open S2S.Translate S2S.NameMap
variable {α : Type} [DecidableEq α] (g : Graph) (tb : Tables) (X : Ext α) (mt mt' : α → α × Bool)

theorem unflagL_cons (v : Val α) (vs : List (Val α)) : unflagL (v :: vs) = unflag v :: unflagL vs := rfl
theorem unflag_msg (ty : Nat) (fs : List (Val α)) : unflag (.msg ty fs) = .msg ty (unflagL fs) := rfl
theorem unflag_list (l : List (Val α)) : unflag (.list l) = .list (unflagL l) := rfl
theorem unflag_map (l : List (Val α)) : unflag (.map l) = .map (unflagL l) := rfl
theorem unflag_kv (k : α) (v : Val α) : unflag (.kv k v) = .kv k (unflag v) := rfl
theorem unflag_blobEv (re : Bool) (l : List (Val α)) : unflag (.blobEv re l) = .blobEv false (unflagL l) := rfl

def Val.isStr : Val α → Bool
  | .str _ => true
  | _ => false

theorem visitNs_isStr (fc : Option FieldD) (v : Val α) : (visitNs g tb X mt fc v).1.isStr = v.isStr := by
  cases v <;> try rfl
  case str s =>
    cases fc with
    | none => rfl
    | some f => rw [visitNs_str_some]; rfl
  case blobEv re evs =>
    rw [visitNs_blobEv]
    split
    · unfold nsBlobStep
      rcases blobResult_cases re evs (listSkippable g tb X evs) (visitNsItems g tb X mt .plain evs) with ⟨h, _⟩ | ⟨h, _⟩ <;> rw [h] <;> rfl
    · rfl

theorem nsFieldStep_nsInfo_nonstr (f : FieldD) (v : Val α) (h : v.isStr = false) :
    nsFieldStep g tb X mt .nsInfo f v = visitNs g tb X mt (some f) v := by
  cases v <;> first | rfl | cases h

/-- `Name` is not itself one of the namespace field names: NamespaceInfo.Name is handled once (by type) -/
def NameOnce : Prop := ∀ f : FieldD, (f.go == g.nameField) = true → isNsLeafField tb f = false

theorem strStep_roundtrip (hN : NameOnce g tb) (ni : Bool) (f : FieldD) (s : α)
    (h : nsLeafOf g tb ni f = true → (app mt' (app mt s).1).1 = s) :
    (nsStrStep g tb mt' ni f (nsStrStep g tb mt ni f s).1).1 = s := by
  unfold nsStrStep
  unfold nsLeafOf at h
  by_cases h1 : (ni && f.go == g.nameField && f.goString) = true
  · have hl : isNsLeafField tb f = false := by
      simp only [Bool.and_eq_true] at h1
      exact hN f h1.1.2
    have := h (by simp [h1])
    simp [h1, hl, this]
  · by_cases h2 : isNsLeafField tb f = true
    · have := h (by simp [h2])
      simp [h1, h2, this]
    · simp [h1, h2]

/-- the blob step, given the round trip of its events -/
theorem blob_roundtrip (hE : KeepsEmpty mt X.empty) (re : Bool) (evs : List (Val α))
    (ih : listSkippable g tb X evs = false →
      unflagL (visitNsItems g tb X mt' .plain (visitNsItems g tb X mt .plain evs).1).1 = unflagL evs) :
    ∃ re' evs', (nsBlobStep g tb X mt re evs).1 = .blobEv re' evs' ∧
      unflag (nsBlobStep g tb X mt' re' evs').1 = unflag (.blobEv re evs) := by
  unfold nsBlobStep
  rcases blobResult_cases re evs (listSkippable g tb X evs) (visitNsItems g tb X mt .plain evs) with ⟨h1, hs⟩ | ⟨h1, hs, hm⟩
  · rw [h1]
    refine ⟨re, evs, rfl, ?_⟩
    rcases blobResult_cases re evs (listSkippable g tb X evs) (visitNsItems g tb X mt' .plain evs) with ⟨h2, _⟩ | ⟨h2, hs2, _⟩
    · rw [h2]
    · rw [h2, unflag_blobEv, unflag_blobEv]
      congr 1
      rcases hs with hs | hs
      · rw [hs] at hs2; cases hs2
      · have e := ((unmatched_unchanged g tb X mt).2 evs).2 .plain hs
        have := ih hs2
        rw [e] at this
        exact this
  · rw [h1]
    refine ⟨true, _, rfl, ?_⟩
    have hsk : listSkippable g tb X (visitNsItems g tb X mt .plain evs).1 = false := by
      rw [listSkippable_visit g tb X mt hE]; exact hs
    rcases blobResult_cases true (visitNsItems g tb X mt .plain evs).1 (listSkippable g tb X (visitNsItems g tb X mt .plain evs).1)
        (visitNsItems g tb X mt' .plain (visitNsItems g tb X mt .plain evs).1) with ⟨h2, hs2⟩ | ⟨h2, _, _⟩
    · rw [h2, unflag_blobEv, unflag_blobEv]
      congr 1
      rcases hs2 with hs2 | hs2
      · rw [hsk] at hs2; cases hs2
      · have e := ((unmatched_unchanged g tb X mt').2 _).2 .plain hs2
        have := ih hs
        rw [e] at this
        exact this
    · rw [h2, unflag_blobEv, unflag_blobEv]
      congr 1
      exact ih hs

theorem roundtrip (hE : KeepsEmpty mt X.empty) (hN : NameOnce g tb) :
    (∀ v : Val α, ∀ fc, (∀ s ∈ namesV g tb X fc v, (app mt' (app mt s).1).1 = s) →
        unflag (visitNs g tb X mt' fc (visitNs g tb X mt fc v).1).1 = unflag v) ∧
    (∀ l : List (Val α),
      (∀ mode fds, (∀ s ∈ namesFields g tb X mode fds l, (app mt' (app mt s).1).1 = s) →
        unflagL (visitNsFields g tb X mt' mode fds (visitNsFields g tb X mt mode fds l).1).1 = unflagL l) ∧
      (∀ mode, (∀ s ∈ namesItems g tb X mode l, (app mt' (app mt s).1).1 = s) →
        unflagL (visitNsItems g tb X mt' mode (visitNsItems g tb X mt mode l).1).1 = unflagL l)) := by
  apply Val.ind2
  · intro s fc h
    cases fc with
    | none => rfl
    | some f =>
      rw [visitNs_str_some, visitNs_str_some]
      show Val.str _ = Val.str s
      congr 1
      apply strStep_roundtrip g tb mt mt' hN
      intro hl
      apply h
      rw [namesV_str_some]
      unfold nsLeafOf at hl
      simp only [Bool.false_and, Bool.false_or] at hl
      simp [hl]
  · intro t fc _; rfl
  · intro t fc _; rfl
  · intro k fc _; rfl
  · intro ty fs ih fc h
    rw [visitNs_msg, visitNs_msg, unflag_msg, unflag_msg]
    congr 1
    exact ih.1 _ _ h
  · intro l ih fc h
    rw [visitNs_list, visitNs_list, unflag_list, unflag_list]
    congr 1
    exact ih.2 _ h
  · intro l ih fc h
    rw [visitNs_map, visitNs_map, unflag_map, unflag_map]
    congr 1
    exact ih.2 _ h
  · intro k v ih fc h
    rw [visitNs_kv, visitNs_kv, unflag_kv, unflag_kv]
    congr 1
    exact ih none h
  · intro e t fc _; rfl
  · intro re evs ih fc h
    rw [visitNs_blobEv]
    by_cases hb : blobCtx tb fc = true
    · rw [if_pos hb]
      obtain ⟨re', evs', e1, e2⟩ := blob_roundtrip g tb X mt mt' hE re evs (by
        intro hs
        apply ih.2 .plain
        rw [namesV_blobEv, hb, hs] at h
        exact h)
      rw [e1, visitNs_blobEv, if_pos hb]
      exact e2
    · rw [if_neg hb, visitNs_blobEv, if_neg hb]
  · refine ⟨fun mode fds _ => ?_, fun mode _ => rfl⟩
    cases fds with
    | nil => rw [visitNsFields_nil, visitNsFields_nil]
    | cons f fds => rw [visitNsFields_nil', visitNsFields_nil']
  · intro v vs ihv ihk ihvs
    refine ⟨?_, ?_⟩
    · intro mode fds h
      cases fds with
      | nil => rw [visitNsFields_nil, visitNsFields_nil]
      | cons f fds =>
        rw [namesFields_cons] at h
        rw [visitNsFields_cons, visitNsFields_cons, unflagL_cons, unflagL_cons]
        have h1 : ∀ s ∈ namesFieldStep g tb X mode f v, (app mt' (app mt s).1).1 = s := fun s hs => h s (List.mem_append_left _ hs)
        rw [ihvs.1 mode fds (fun s hs => h s (List.mem_append_right _ hs))]
        congr 1
        cases mode with
        | plain => exact ihv (some f) h1
        | nsInfo =>
          cases hv : v.isStr with
          | true =>
            cases v with
            | str s =>
              rw [nsFieldStep_nsInfo_str g tb X mt f s, nsFieldStep_nsInfo_str]
              show Val.str _ = Val.str s
              congr 1
              apply strStep_roundtrip g tb mt mt' hN
              intro hl
              apply h1
              show s ∈ (if nsLeafOf g tb true f then [s] else [])
              simp [hl]
            | _ => cases hv
          | false =>
            rw [nsFieldStep_nsInfo_nonstr g tb X mt f v hv,
              nsFieldStep_nsInfo_nonstr g tb X mt' f _ (by rw [visitNs_isStr]; exact hv)]
            apply ihv (some f)
            intro s hs
            apply h1
            cases v <;> first | exact hs | cases hv
        | hist =>
          cases v with
          | list items =>
            rw [nsFieldStep_hist_list g tb X mt f items]
            by_cases he : (f.go == X.eventsField) = true
            · rw [if_pos he, nsFieldStep_hist_list, if_pos he, unflag_list, unflag_list]
              congr 1
              apply ihk.2 .events
              intro s hs
              apply h1
              show s ∈ (if f.go == X.eventsField then namesItems g tb X .events items else [])
              rw [if_pos he]; exact hs
            · rw [if_neg he, nsFieldStep_hist_list, if_neg he]
          | _ => rfl
    · intro mode h
      rw [namesItems_cons] at h
      rw [visitNsItems_cons, visitNsItems_cons, unflagL_cons, unflagL_cons]
      have h1 : ∀ s ∈ namesItemStep g tb X mode v, (app mt' (app mt s).1).1 = s := fun s hs => h s (List.mem_append_left _ hs)
      rw [ihvs.2 mode (fun s hs => h s (List.mem_append_right _ hs))]
      congr 1
      cases mode with
      | plain => exact ihv none h1
      | events =>
        rw [nsItemStep_events g tb X mt v]
        by_cases he : evSkippable g tb X v = true
        · rw [if_pos he, nsItemStep_events, if_pos he]
        · rw [if_neg he, nsItemStep_events, evSkippable_visit g tb X mt hE, if_neg he]
          apply ihv none
          intro s hs
          apply h1
          show s ∈ (if evSkippable g tb X v then [] else namesV g tb X none v)
          rw [if_neg he]; exact hs
      | blobs =>
        cases v with
        | blobEv re evs =>
          rw [nsItemStep_blobs_blobEv g tb X mt re evs]
          obtain ⟨re', evs', e1, e2⟩ := blob_roundtrip g tb X mt mt' hE re evs (by
            intro hs
            apply ihk.2 .plain
            intro s hs'
            apply h1
            show s ∈ (if listSkippable g tb X evs then [] else namesItems g tb X .plain evs)
            rw [hs]; exact hs')
          rw [e1, nsItemStep_blobs_blobEv]
          exact e2
        | str s => exact ihv none h1
        | tok s => exact ihv none h1
        | payload s => exact ihv none h1
        | nil s => exact ihv none h1
        | blobRaw e t => exact ihv none h1
        | kv k w => exact ihv none h1
        | msg ty fs => exact ihv none h1
        | list l => exact ihv none h1
        | map l => exact ihv none h1

end S2S.TranslateVal
