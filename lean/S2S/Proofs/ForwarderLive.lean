import S2S.Proofs.ForwarderCtl
/-!
C06 "ends together": (1) every internal action strictly decreases the measure `mu` (every
schedule of the proxy's goroutines terminates); (2) `Ending` is stable; (3) under `GrpcStreamEnv`
a reachable quiescent state is either `Done` (everything gone) or `Calm` (nothing ended);
(4) hence every maximal internal run from a state with an ending finishes `Done`, and so does
the deterministic scheduler `settle` with fuel `mu σ`.
-/
namespace S2S.Forwarder

/-! ### (1) termination measure -/

theorem muL_has_le (v : Ev) : 1 ≤ muL (.has v) ∧ muL (.has v) ≤ 6 := by
  cases v <;> simp [muL, Ev.sticky]

theorem muR_holding (v : Ev) : 4 ≤ muR (.holding v) ∧ muR (.holding v) ≤ 11 := by
  cases v <;> simp [muR, Ev.isData]

theorem mu_setDir (σ : State) (d : D) (x : Dir) : mu (σ.setDir d x) + muD (σ.dir d) = mu σ + muD x := by
  cases d <;> simp only [mu, State.setDir, State.dir] <;> omega

theorem mu_decreases {σ σ' : State} {a : Act} (hc : σ.cs = .idle ∨ σ.i.loop ≠ .finished) (ha : a.isInternal = true) (hs : step σ a = some σ') :
    mu σ' < mu σ := by
  cases a with
  | push d v => cases ha
  | sendFail d => cases ha
  | stall d => cases ha
  | unstall d => cases ha
  | iniCancel => cases ha
  | shutdown => cases ha
  | tick => cases ha
  | lCheck d =>
    obtain ⟨h1, e⟩ := step_lCheck hs; subst e
    have := mu_setDir σ d { σ.dir d with lis := if σ.latch then .exited else .inRecv }
    suffices muD { σ.dir d with lis := if σ.latch then .exited else .inRecv } < muD (σ.dir d) by omega
    simp only [muD, h1]
    split <;> simp only [muL] <;> omega
  | lRecv d =>
    obtain ⟨h1, v, q, h2, e⟩ := step_lRecv hs; subst e
    have := mu_setDir σ d { σ.dir d with lis := .has v, queue := q, delivered := (σ.dir d).delivered ++ v.ids }
    suffices muD { σ.dir d with lis := .has v, queue := q, delivered := (σ.dir d).delivered ++ v.ids } < muD (σ.dir d) by omega
    simp only [muD, h1]
    rcases recvResult_some h2 with ⟨h3, h4⟩ | ⟨h3, h4⟩
    · simp only [muL, h3, h4, if_true]; omega
    · simp only [muL, h3, h4, List.length_cons]; simp; omega
  | lHand d =>
    obtain ⟨v, h1, h2, e⟩ := step_lHand hs; subst e
    have := mu_setDir σ d { σ.dir d with lis := .top, loop := .holding v }
    suffices muD { σ.dir d with lis := .top, loop := .holding v } < muD (σ.dir d) by omega
    simp only [muD, h1, h2]
    cases v <;> simp [muL, muR, Ev.sticky, Ev.isData]
  | lQuit d =>
    obtain ⟨v, h1, h2, e⟩ := step_lQuit hs; subst e
    have hv := muL_has_le v
    have := mu_setDir σ d { σ.dir d with lis := .exited }
    suffices muD { σ.dir d with lis := .exited } < muD (σ.dir d) by omega
    simp only [muD, h1]
    simp only [muL] at hv ⊢; omega
  | rLatch d =>
    obtain ⟨h1, h2, e⟩ := step_rLatch hs; subst e
    have := mu_setDir σ d { σ.dir d with loop := .finished }
    suffices muD { σ.dir d with loop := .finished } < muD (σ.dir d) by omega
    simp only [muD, h1, muR]; omega
  | rClosed d =>
    obtain ⟨h1, h2, e⟩ := step_rClosed hs; subst e
    have := mu_setDir σ d { σ.dir d with loop := .finished }
    suffices muD { σ.dir d with loop := .finished } < muD (σ.dir d) by omega
    simp only [muD, h1, muR]; omega
  | rProc d =>
    rcases step_rProc hs with ⟨i, h1, h2, e⟩ | ⟨v, h1, h2, e⟩ <;> subst e
    · have := mu_setDir σ d { σ.dir d with loop := .waiting, out := (σ.dir d).out ++ [i] }
      suffices muD { σ.dir d with loop := .waiting, out := (σ.dir d).out ++ [i] } < muD (σ.dir d) by omega
      simp [muD, h1, muR, Ev.isData]
    · have hv := muR_holding v
      have := mu_setDir σ d { σ.dir d with loop := .finished }
      suffices muD { σ.dir d with loop := .finished } < muD (σ.dir d) by omega
      simp only [muD, h1]
      simp only [muR] at hv ⊢; omega
  | rDefer d =>
    cases d with
    | s => obtain ⟨h1, e⟩ := step_rDefer_s hs; subst e; simp only [mu, muD, h1, muR]; omega
    | i =>
      obtain ⟨h1, e⟩ := step_rDefer_i hs; subst e
      have : σ.cs = .idle := by rcases hc with h | h; exact h; exact absurd h1 h
      simp only [mu, muD, h1, muR, this, muC]; omega
  | csReturn =>
    obtain ⟨h1, h2⟩ := step_csReturn hs
    rcases h2 with ⟨h3, h4, e⟩ | ⟨h3, e⟩ <;> subst e
    · simp only [mu, h1, muC]; omega
    · rcases halfClosed_queue σ with hq | hq <;> simp only [mu, muD, h1, muC, hq, halfClosed_lis, halfClosed_loop, List.length_append, List.length_singleton] <;> omega
  | guardRecv => obtain ⟨h1, h2, e⟩ := step_guardRecv hs; subst e; simp only [mu, muD, h1, h2, muC, muR]; omega
  | hCancel => obtain ⟨h1, h2, h3, e⟩ := step_hCancel hs; subst e; simp only [mu, h1, muH]; omega
  | hReturn => obtain ⟨h1, e⟩ := step_hReturn hs; subst e; simp only [mu, h1, muH]; omega



theorem mu_decreases_ctl {σ σ' : State} {a : Act} (hc : Ctl σ) (ha : a.isInternal = true)
    (hs : step σ a = some σ') : mu σ' < mu σ := by
  refine mu_decreases ?_ ha hs
  by_cases h : σ.i.loop = .finished
  · exact Or.inl (hc.c3a.2 (by simp [h]))
  · exact Or.inr h

/-! ### (2) `Ending` is stable -/

/-- a change confined to direction `d` that keeps that direction ending keeps the stream ending -/
theorem ending_setDir {σ : State} {d : D} {x : Dir} (h : ending σ = true)
    (hx : (σ.dir d).ending = true → x.ending = true) : ending (σ.setDir d x) = true := by
  cases d <;> simp only [ending, State.setDir, State.dir, Bool.or_eq_true] at h hx ⊢
  · rcases h with ((((h | h) | h) | h) | h) | h <;> simp [h, hx]
  · rcases h with ((((h | h) | h) | h) | h) | h <;> simp [h, hx]

theorem ending_step {σ σ' : State} {a : Act} (h : ending σ = true) (hs : step σ a = some σ') : ending σ' = true := by
  cases a with
  | push d v =>
    have e := step_push hs; subst e
    apply ending_setDir h
    simp only [Dir.ending, Dir.pendingData, List.any_append]
    grind
  | sendFail d =>
    have e := step_sendFail hs; subst e
    apply ending_setDir h
    simp only [Dir.ending, Dir.pendingData]
    grind
  | stall d =>
    have e := step_stall hs; subst e
    apply ending_setDir h
    simp only [Dir.ending, Dir.pendingData]
    grind
  | unstall d =>
    have e := step_unstall hs; subst e
    apply ending_setDir h
    simp only [Dir.ending, Dir.pendingData]
    grind
  | iniCancel => have e := step_iniCancel hs; subst e; simp [ending]
  | shutdown => have e := step_shutdown hs; subst e; simp only [ending] at h ⊢; grind
  | tick => obtain ⟨h1, h2, h3, h4, e⟩ := step_tick hs; subst e; simp [ending, Dir.ending, RPc.alive]
  | lCheck d =>
    obtain ⟨h1, e⟩ := step_lCheck hs; subst e
    apply ending_setDir h
    simp only [Dir.ending, Dir.pendingData, h1]
    split <;> grind
  | lRecv d =>
    obtain ⟨h1, v, q, h2, e⟩ := step_lRecv hs; subst e
    apply ending_setDir h
    simp only [Dir.ending, Dir.pendingData, h1]
    rcases recvResult_some h2 with ⟨h3, h4⟩ | ⟨h3, h4⟩
    · have := sticky_not_data h3; simp [this]
    · rw [h4]; simp only [List.any_cons]; grind
  | lHand d =>
    obtain ⟨v, h1, h2, e⟩ := step_lHand hs; subst e
    apply ending_setDir h
    simp only [Dir.ending, Dir.pendingData, h1, h2, RPc.alive]
    grind
  | lQuit d =>
    obtain ⟨v, h1, h2, e⟩ := step_lQuit hs; subst e
    apply ending_setDir h
    simp [Dir.ending]
  | rLatch d =>
    obtain ⟨h1, h2, e⟩ := step_rLatch hs; subst e
    apply ending_setDir h
    simp [Dir.ending, RPc.alive]
  | rClosed d =>
    obtain ⟨h1, h2, e⟩ := step_rClosed hs; subst e
    apply ending_setDir h
    simp [Dir.ending, RPc.alive]
  | rProc d =>
    rcases step_rProc hs with ⟨i, h1, h2, e⟩ | ⟨v, h1, h2, e⟩ <;> subst e <;> apply ending_setDir h
    · have hsf : (σ.dir d).sendFails = false := by
        cases d <;> simp only [sendOk, State.dir] at h2 ⊢ <;> grind
      simp only [Dir.ending, Dir.pendingData, h1, hsf, RPc.alive, Ev.isData]
      grind
    · simp [Dir.ending, RPc.alive]
  | rDefer d =>
    cases d with
    | s => obtain ⟨h1, e⟩ := step_rDefer_s hs; subst e; simp [ending]
    | i => obtain ⟨h1, e⟩ := step_rDefer_i hs; subst e; simp [ending]
  | csReturn =>
    obtain ⟨h1, h2⟩ := step_csReturn hs
    rcases h2 with ⟨h3, h4, e⟩ | ⟨h3, e⟩ <;> subst e
    · simpa [ending] using h
    · have hd : σ.s.ending = true → (halfClosed σ).ending = true := by
        rcases halfClosed_queue σ with hq | hq <;>
          simp only [Dir.ending, Dir.pendingData, hq, halfClosed_lis, halfClosed_loop, halfClosed_sendFails, List.any_append] <;> grind
      simp only [ending] at h ⊢
      grind
  | guardRecv => obtain ⟨h1, h2, e⟩ := step_guardRecv hs; subst e; simp [ending, Dir.ending, RPc.alive]
  | hCancel => obtain ⟨h1, h2, h3, e⟩ := step_hCancel hs; subst e; simp [ending]
  | hReturn => obtain ⟨h1, e⟩ := step_hReturn hs; subst e; simp only [ending] at h ⊢; grind



theorem ending_run {σ : State} (h : ending σ = true) (acts : List Act) : ending (run σ acts) = true :=
  run_induct h (fun _ _ _ h hs => ending_step h hs) acts

/-! ### (3) quiescent states -/

/-- nothing has ended and nothing is pending: every worker is parked where it waits for the peers -/
def Calm (σ : State) : Prop :=
  σ.latch = false ∧ σ.s.loop = .waiting ∧ σ.i.loop = .waiting ∧ σ.s.lis = .inRecv ∧ σ.i.lis = .inRecv ∧
  σ.s.queue = [] ∧ σ.i.queue = [] ∧ σ.srvCtx = false ∧ σ.connClosed = false ∧ σ.outCtx = false

theorem calm_not_ending {σ : State} (h : Calm σ) : ending σ = false := by
  obtain ⟨h1, h2, h3, h4, h5, h6, h7, h8, h9, h10⟩ := h
  simp [ending, Dir.ending, Dir.pendingData, RPc.alive, h1, h2, h3, h4, h5, h6, h7, h8, h9, h10]

/-! enabledness: what a disabled internal action tells about the state -/

theorem lCheck_none {σ : State} {d : D} (h : step σ (.lCheck d) = none) : (σ.dir d).lis ≠ .top := by
  intro hc; simp [step, hc] at h

theorem lRecv_none {σ : State} {d : D} (h : step σ (.lRecv d) = none) (hl : (σ.dir d).lis = .inRecv) :
    recvResult σ d = none := by
  simp only [step, hl, if_true] at h
  split at h
  · assumption
  · cases h

theorem lHand_none {σ : State} {d : D} {v : Ev} (h : step σ (.lHand d) = none) (hl : (σ.dir d).lis = .has v) :
    (σ.dir d).loop ≠ .waiting := by
  intro hc; simp [step, hl, hc] at h

theorem lQuit_none {σ : State} {d : D} {v : Ev} (h : step σ (.lQuit d) = none) (hl : (σ.dir d).lis = .has v) :
    σ.latch = false := by
  cases hb : σ.latch with
  | false => rfl
  | true => simp [step, hl, hb] at h

theorem rLatch_none {σ : State} {d : D} (h : step σ (.rLatch d) = none) (hl : (σ.dir d).loop = .waiting) :
    σ.latch = false := by
  cases hb : σ.latch with
  | false => rfl
  | true => simp [step, hl, hb] at h

/-- a loop that holds a value and cannot move is blocked in `Send` -/
theorem rProc_none {σ : State} {d : D} (h : step σ (.rProc d) = none) {v : Ev} (hc : (σ.dir d).loop = .holding v) :
    blockedInSend σ d = true := by
  cases v with
  | data i =>
    simp only [step, hc] at h
    split at h
    · rename_i hok
      split at h
      · rename_i hst
        simp [blockedInSend, hc, hok, hst, Ev.isData]
      · cases h
    · cases h
  | unknown => simp [step, hc] at h
  | eof => simp [step, hc] at h
  | err => simp [step, hc] at h

theorem rDefer_none {σ : State} {d : D} (h : step σ (.rDefer d) = none) : (σ.dir d).loop ≠ .finished := by
  intro hc; cases d <;> simp [step, hc] at h

theorem csReturn_none {σ : State} (h : step σ .csReturn = none) (hc : σ.cs = .calling) :
    σ.env.closeSendHangs = true := by
  cases hb : σ.env.closeSendHangs with
  | true => rfl
  | false => simp [step, hc, hb] at h

theorem guardRecv_none {σ : State} (h : step σ .guardRecv = none) (hc : σ.cs = .signalling) : σ.i.loop ≠ .guard := by
  intro hg; simp [step, hc, hg] at h

theorem hCancel_none {σ : State} (h : step σ .hCancel = none) (h1 : σ.s.loop = .done) (h2 : σ.i.loop = .done) :
    σ.h ≠ .waiting := by
  intro hw; simp [step, hw, h1, h2] at h

theorem hReturn_none {σ : State} (h : step σ .hReturn = none) : σ.h ≠ .cancelled := by
  intro hw; simp [step, hw] at h

theorem quiescent_cases {σ : State} (hc : Ctl σ) (henv : GrpcStreamEnv σ.env) (hq : Quiescent σ)
    (hb : ∀ d, blockedInSend σ d = false) : Done σ ∨ Calm σ := by
  obtain ⟨c1, c2, c3a, c3b, c3c, c4, c5, c6s, c6i⟩ := hc
  obtain ⟨e1, e2, e3⟩ := henv
  have q (a : Act) (ha : a.isInternal = true := by rfl) := hq a ha
  cases hl : σ.latch with
  | true =>
    left
    -- the loops
    have s1 : σ.s.loop = .done := by
      cases hs : σ.s.loop with
      | waiting => have := rLatch_none (q (.rLatch .s)) hs; simp [hl] at this
      | holding v => have := rProc_none (q (.rProc .s)) hs; rw [hb] at this; cases this
      | finished => exact absurd hs (rDefer_none (q (.rDefer .s)))
      | guard => exact absurd hs c1
      | done => rfl
    have i1 : σ.i.loop = .done := by
      cases hs : σ.i.loop with
      | waiting => have := rLatch_none (q (.rLatch .i)) hs; simp [hl] at this
      | holding v => have := rProc_none (q (.rProc .i)) hs; rw [hb] at this; cases this
      | finished => exact absurd hs (rDefer_none (q (.rDefer .i)))
      | guard =>
        rcases c3b hs with h | h
        · have := csReturn_none (q .csReturn) h; simp [e3] at this
        · exact absurd hs (guardRecv_none (q .guardRecv) h)
      | done => rfl
    have cse : σ.cs = .exited := c3c i1 e3
    have hh : σ.h = .returned := by
      cases hs : σ.h with
      | waiting => exact absurd hs (hCancel_none (q .hCancel) s1 i1)
      | cancelled => exact absurd hs (hReturn_none (q .hReturn))
      | returned => rfl
    have ho : σ.outCtx = true := (c4 (by simp [hh])).1
    have hsrv : σ.srvCtx = true := c5 hh e2
    have ls : σ.s.lis = .exited := by
      cases hs : σ.s.lis with
      | top => exact absurd hs (lCheck_none (q (.lCheck .s)))
      | inRecv =>
        have := (recvResult_none (lRecv_none (q (.lRecv .s)) hs)).1
        simp [cut, ho, e1] at this
      | has v => have := lQuit_none (q (.lQuit .s)) hs; simp [hl] at this
      | exited => rfl
    have li : σ.i.lis = .exited := by
      cases hs : σ.i.lis with
      | top => exact absurd hs (lCheck_none (q (.lCheck .i)))
      | inRecv =>
        have := (recvResult_none (lRecv_none (q (.lRecv .i)) hs)).1
        simp [cut, hsrv] at this
      | has v => have := lQuit_none (q (.lQuit .i)) hs; simp [hl] at this
      | exited => rfl
    exact ⟨s1, i1, hl, by simp [cse], ho, hh, ls, li, cse⟩
  | false =>
    right
    have nl : ¬ (σ.s.loop = .done ∨ σ.i.loop = .guard ∨ σ.i.loop = .done) := by
      intro h; have := c2.2 h; simp [hl] at this
    have s1 : σ.s.loop = .waiting := by
      cases hs : σ.s.loop with
      | waiting => rfl
      | holding v => have := rProc_none (q (.rProc .s)) hs; rw [hb] at this; cases this
      | finished => exact absurd hs (rDefer_none (q (.rDefer .s)))
      | guard => exact absurd hs c1
      | done => exact absurd (Or.inl hs) nl
    have i1 : σ.i.loop = .waiting := by
      cases hs : σ.i.loop with
      | waiting => rfl
      | holding v => have := rProc_none (q (.rProc .i)) hs; rw [hb] at this; cases this
      | finished => exact absurd hs (rDefer_none (q (.rDefer .i)))
      | guard => exact absurd (Or.inr (Or.inl hs)) nl
      | done => exact absurd (Or.inr (Or.inr hs)) nl
    have ls : σ.s.lis = .inRecv := by
      cases hs : σ.s.lis with
      | top => exact absurd hs (lCheck_none (q (.lCheck .s)))
      | inRecv => rfl
      | has v => exact absurd s1 (lHand_none (q (.lHand .s)) hs)
      | exited => have := c6s hs; simp [hl] at this
    have li : σ.i.lis = .inRecv := by
      cases hs : σ.i.lis with
      | top => exact absurd hs (lCheck_none (q (.lCheck .i)))
      | inRecv => rfl
      | has v => exact absurd i1 (lHand_none (q (.lHand .i)) hs)
      | exited => have := c6i hs; simp [hl] at this
    have rs := recvResult_none (lRecv_none (q (.lRecv .s)) ls)
    have ri := recvResult_none (lRecv_none (q (.lRecv .i)) li)
    have cs := rs.1
    have ci := ri.1
    simp only [cut, e1, Bool.and_true, Bool.or_eq_false_iff] at cs ci
    exact ⟨hl, s1, i1, ls, li, rs.2, ri.2, ci, cs.1, cs.2.1⟩



/-- a quiescent state with an ending is `Done` unless a relay loop is blocked in `Send` -/
theorem quiescent_ending_done_of_not_blocked {σ : State} (hc : Ctl σ) (henv : GrpcStreamEnv σ.env) (he : Ending σ)
    (hq : Quiescent σ) (hb : ∀ d, blockedInSend σ d = false) : Done σ := by
  rcases quiescent_cases hc henv hq hb with h | h
  · exact h
  · have := calm_not_ending h
    unfold Ending at he
    rw [this] at he; cases he

/-- `Done` and "a loop is blocked in `Send`" exclude each other -/
theorem done_not_blocked {σ : State} (h : Done σ) (d : D) : blockedInSend σ d = false := by
  obtain ⟨h1, h2, _⟩ := h
  cases d <;> simp [blockedInSend, State.dir, h1, h2]

/-- the exact characterisation: a quiescent state with an ending is `Done` iff no relay loop is blocked in `Send` -/
theorem quiescent_ending_done_iff {σ : State} (hc : Ctl σ) (henv : GrpcStreamEnv σ.env) (he : Ending σ)
    (hq : Quiescent σ) : Done σ ↔ ∀ d, blockedInSend σ d = false :=
  ⟨done_not_blocked, quiescent_ending_done_of_not_blocked hc henv he hq⟩

/-! ### stalled peers -/

theorem noSendCanBlock_not_blocked {σ : State} (h : NoSendCanBlock σ) (d : D) : blockedInSend σ d = false := by
  obtain ⟨h1, h2⟩ := h
  cases d <;> simp only [blockedInSend, State.dir]
  · cases hs : σ.s.stalled with
    | false => simp
    | true => simp [h1 hs]
  · cases hs : σ.i.stalled with
    | false => simp
    | true => simp [h2 hs]

theorem unstalled_noSendCanBlock {σ : State} (h : Unstalled σ) : NoSendCanBlock σ := by
  obtain ⟨h1, h2⟩ := h
  constructor <;> intro hs <;> simp_all

theorem unstalled_not_blocked {σ : State} (h : Unstalled σ) (d : D) : blockedInSend σ d = false :=
  noSendCanBlock_not_blocked (unstalled_noSendCanBlock h) d

/-- only `stall` makes a peer stalled -/
theorem stalled_step {σ σ' : State} {a : Act} (hs : step σ a = some σ') (ha : ∀ d, a ≠ .stall d) (d' : D)
    (h : (σ'.dir d').stalled = true) : (σ.dir d').stalled = true := by
  cases a with
  | push d v => have e := step_push hs; subst e; cases d <;> cases d' <;> exact h
  | sendFail d => have e := step_sendFail hs; subst e; cases d <;> cases d' <;> exact h
  | stall d => exact absurd rfl (ha d)
  | unstall d => have e := step_unstall hs; subst e; cases d <;> cases d' <;> first | exact h | cases h
  | iniCancel => have e := step_iniCancel hs; subst e; cases d' <;> exact h
  | shutdown => have e := step_shutdown hs; subst e; cases d' <;> exact h
  | tick => obtain ⟨_, _, _, _, e⟩ := step_tick hs; subst e; cases d' <;> exact h
  | lCheck d => obtain ⟨_, e⟩ := step_lCheck hs; subst e; cases d <;> cases d' <;> exact h
  | lRecv d => obtain ⟨_, v, q, _, e⟩ := step_lRecv hs; subst e; cases d <;> cases d' <;> exact h
  | lHand d => obtain ⟨v, _, _, e⟩ := step_lHand hs; subst e; cases d <;> cases d' <;> exact h
  | lQuit d => obtain ⟨v, _, _, e⟩ := step_lQuit hs; subst e; cases d <;> cases d' <;> exact h
  | rLatch d => obtain ⟨_, _, e⟩ := step_rLatch hs; subst e; cases d <;> cases d' <;> exact h
  | rClosed d => obtain ⟨_, _, e⟩ := step_rClosed hs; subst e; cases d <;> cases d' <;> exact h
  | rProc d =>
    rcases step_rProc hs with ⟨i, _, _, e⟩ | ⟨v, _, _, e⟩ <;> subst e <;> cases d <;> cases d' <;> exact h
  | rDefer d =>
    cases d with
    | s => obtain ⟨_, e⟩ := step_rDefer_s hs; subst e; cases d' <;> exact h
    | i => obtain ⟨_, e⟩ := step_rDefer_i hs; subst e; cases d' <;> exact h
  | csReturn =>
    obtain ⟨_, h2⟩ := step_csReturn hs
    rcases h2 with ⟨_, _, e⟩ | ⟨_, e⟩ <;> subst e
    · cases d' <;> exact h
    · cases d'
      · simpa [State.dir] using h
      · exact h
  | guardRecv => obtain ⟨_, _, e⟩ := step_guardRecv hs; subst e; cases d' <;> exact h
  | hCancel => obtain ⟨_, _, _, e⟩ := step_hCancel hs; subst e; cases d' <;> exact h
  | hReturn => obtain ⟨_, e⟩ := step_hReturn hs; subst e; cases d' <;> exact h

/-- a stream that is done / broken / cancelled stays so: `Send` keeps failing -/
theorem sendOk_false_step {σ σ' : State} {a : Act} (hs : step σ a = some σ') (d' : D)
    (h : sendOk σ d' = false) : sendOk σ' d' = false := by
  cases a with
  | push d v => have e := step_push hs; subst e; cases d <;> cases d' <;> exact h
  | sendFail d =>
    have e := step_sendFail hs; subst e
    cases d <;> cases d' <;> simp_all [sendOk, State.dir, State.setDir]
  | stall d => have e := step_stall hs; subst e; cases d <;> cases d' <;> exact h
  | unstall d => have e := step_unstall hs; subst e; cases d <;> cases d' <;> exact h
  | iniCancel => have e := step_iniCancel hs; subst e; cases d' <;> simp [sendOk]
  | shutdown => have e := step_shutdown hs; subst e; cases d' <;> simp_all [sendOk] <;> grind
  | tick => obtain ⟨_, _, _, _, e⟩ := step_tick hs; subst e; cases d' <;> exact h
  | lCheck d => obtain ⟨_, e⟩ := step_lCheck hs; subst e; cases d <;> cases d' <;> exact h
  | lRecv d => obtain ⟨_, v, q, _, e⟩ := step_lRecv hs; subst e; cases d <;> cases d' <;> exact h
  | lHand d => obtain ⟨v, _, _, e⟩ := step_lHand hs; subst e; cases d <;> cases d' <;> exact h
  | lQuit d => obtain ⟨v, _, _, e⟩ := step_lQuit hs; subst e; cases d <;> cases d' <;> exact h
  | rLatch d => obtain ⟨_, _, e⟩ := step_rLatch hs; subst e; cases d <;> cases d' <;> exact h
  | rClosed d => obtain ⟨_, _, e⟩ := step_rClosed hs; subst e; cases d <;> cases d' <;> exact h
  | rProc d =>
    rcases step_rProc hs with ⟨i, _, _, e⟩ | ⟨v, _, _, e⟩ <;> subst e <;> cases d <;> cases d' <;> exact h
  | rDefer d =>
    cases d with
    | s => obtain ⟨_, e⟩ := step_rDefer_s hs; subst e; cases d' <;> exact h
    | i => obtain ⟨_, e⟩ := step_rDefer_i hs; subst e; cases d' <;> exact h
  | csReturn =>
    obtain ⟨_, h2⟩ := step_csReturn hs
    rcases h2 with ⟨_, _, e⟩ | ⟨_, e⟩ <;> subst e
    · cases d' <;> exact h
    · cases d'
      · simpa [sendOk] using h
      · exact h
  | guardRecv => obtain ⟨_, _, e⟩ := step_guardRecv hs; subst e; cases d' <;> exact h
  | hCancel => obtain ⟨_, _, _, e⟩ := step_hCancel hs; subst e; cases d' <;> simp_all [sendOk]
  | hReturn => obtain ⟨_, e⟩ := step_hReturn hs; subst e; cases d' <;> simp_all [sendOk] <;> grind

theorem noSendCanBlock_step {σ σ' : State} {a : Act} (h : NoSendCanBlock σ) (hs : step σ a = some σ')
    (ha : ∀ d, a ≠ .stall d) : NoSendCanBlock σ' :=
  ⟨fun hst => sendOk_false_step hs .s (h.1 (stalled_step hs ha .s hst)),
   fun hst => sendOk_false_step hs .i (h.2 (stalled_step hs ha .i hst))⟩

theorem unstalled_step {σ σ' : State} {a : Act} (h : Unstalled σ) (hs : step σ a = some σ')
    (ha : ∀ d, a ≠ .stall d) : Unstalled σ' := by
  obtain ⟨u1, u2⟩ := h
  constructor
  · cases hb : σ'.s.stalled with
    | false => rfl
    | true => have := stalled_step hs ha .s hb; simp only [State.dir] at this; rw [u1] at this; cases this
  · cases hb : σ'.i.stalled with
    | false => rfl
    | true => have := stalled_step hs ha .i hb; simp only [State.dir] at this; rw [u2] at this; cases this

theorem internal_ne_stall {a : Act} (ha : a.isInternal = true) (d : D) : a ≠ .stall d := by
  rintro rfl; cases ha

/-- a predicate preserved by every action but `stall` holds after every run without a `stall` -/
theorem run_induct_no_stall {P : State → Prop} {σ : State} (h : P σ)
    (hstep : ∀ σ σ' a, P σ → step σ a = some σ' → (∀ d, a ≠ .stall d) → P σ')
    (acts : List Act) (ha : ∀ d, Act.stall d ∉ acts) : P (run σ acts) := by
  induction acts generalizing σ with
  | nil => exact h
  | cons a r ih =>
    rw [run_cons]
    have hr : ∀ d, Act.stall d ∉ r := fun d hm => ha d (List.mem_cons_of_mem _ hm)
    cases hs : step σ a with
    | none => exact ih h hr
    | some σ' =>
      refine ih (hstep σ σ' a h hs ?_) hr
      intro d e; subst e; exact ha d List.mem_cons_self

theorem unstalled_run {σ : State} (h : Unstalled σ) (acts : List Act) (ha : ∀ d, Act.stall d ∉ acts) :
    Unstalled (run σ acts) :=
  run_induct_no_stall h (fun _ _ _ h hs ha => unstalled_step h hs ha) acts ha

theorem noSendCanBlock_run {σ : State} (h : NoSendCanBlock σ) (acts : List Act) (ha : ∀ d, Act.stall d ∉ acts) :
    NoSendCanBlock (run σ acts) :=
  run_induct_no_stall h (fun _ _ _ h hs ha => noSendCanBlock_step h hs ha) acts ha

theorem quiescent_ending_done {σ : State} (hc : Ctl σ) (henv : GrpcStreamEnv σ.env) (he : Ending σ)
    (hq : Quiescent σ) (hu : NoSendCanBlock σ) : Done σ :=
  quiescent_ending_done_of_not_blocked hc henv he hq (noSendCanBlock_not_blocked hu)

/-! ### (4) `settle` -/

theorem settle_done : ∀ (fuel : Nat) (σ : State), Ctl σ → GrpcStreamEnv σ.env → Ending σ → NoSendCanBlock σ → mu σ ≤ fuel →
    Done (settle fuel σ)
  | 0, σ, hc, henv, he, hu, hm => by
    apply quiescent_ending_done hc henv he _ hu
    intro a ha
    cases hs : step σ a with
    | none => rfl
    | some σ' => have := mu_decreases_ctl hc ha hs; omega
  | fuel + 1, σ, hc, henv, he, hu, hm => by
    simp only [settle]
    cases hf : firstEnabled σ internalActs with
    | none => exact quiescent_ending_done hc henv he (quiescent_of_firstEnabled_none hf) hu
    | some σ' =>
      obtain ⟨a, ha, hs⟩ := firstEnabled_some hf
      have hd := mu_decreases_ctl hc (internalActs_internal ha) hs
      have henv' : GrpcStreamEnv σ'.env := by rw [step_env hs]; exact henv
      exact settle_done fuel σ' (ctl_step hc hs) henv' (ending_step he hs)
        (noSendCanBlock_step hu hs (internal_ne_stall (internalActs_internal ha))) (by omega)

/-- `settle` only ever applies internal actions: its result is a fine-step run -/
theorem settle_is_run : ∀ (fuel : Nat) (σ : State),
    ∃ sched : List Act, (∀ a ∈ sched, a.isInternal = true) ∧ settle fuel σ = run σ sched
  | 0, σ => ⟨[], by simp, rfl⟩
  | fuel + 1, σ => by
    simp only [settle]
    cases hf : firstEnabled σ internalActs with
    | none => exact ⟨[], by simp, rfl⟩
    | some σ' =>
      obtain ⟨a, ha, hs⟩ := firstEnabled_some hf
      obtain ⟨sched, h1, h2⟩ := settle_is_run fuel σ'
      refine ⟨a :: sched, ?_, ?_⟩
      · intro b hb
        rcases List.mem_cons.1 hb with rfl | hb
        · exact internalActs_internal ha
        · exact h1 b hb
      · rw [run_cons, hs]; exact h2

end S2S.Forwarder
