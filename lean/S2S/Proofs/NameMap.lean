import S2S.Model.NameMap
namespace S2S.NameMap
variable {α : Type} [DecidableEq α]

theorem lookup_cons (p : α × α) (m : List (α × α)) (k : α) :
    lookup (p :: m) k = if p.1 = k then some p.2 else lookup m k := by
  unfold lookup
  rw [List.find?_cons]
  by_cases h : p.1 = k <;> simp [h]

theorem lookup_none (m : List (α × α)) (s : α) (h : ∀ p ∈ m, p.1 ≠ s) : lookup m s = none := by
  induction m with
  | nil => rfl
  | cons p m ih =>
    rw [lookup_cons, if_neg (h p (List.mem_cons_self ..))]
    exact ih (fun q hq => h q (List.mem_cons_of_mem _ hq))

theorem lookup_mem (m : List (α × α)) (a b : α) (hm : (a, b) ∈ m) (hk : (m.map (·.1)).Nodup) :
    lookup m a = some b := by
  induction m with
  | nil => cases hm
  | cons p m ih =>
    rw [List.map_cons, List.nodup_cons] at hk
    rw [lookup_cons]
    rcases List.mem_cons.1 hm with h | h
    · subst h; simp
    · have hne : p.1 ≠ a := by
        intro he
        apply hk.1
        rw [he]
        exact List.mem_map.2 ⟨(a, b), h, rfl⟩
      rw [if_neg hne]
      exact ih h hk.2

theorem translateName_unmapped (m : List (α × α)) (s : α) (h : ∀ p ∈ m, p.1 ≠ s) : translateName m s = s := by
  unfold translateName
  rw [lookup_none m s h]
  rfl
theorem translateName_mapped (m : List (α × α)) (a b : α) (hm : (a, b) ∈ m) (hk : (m.map (·.1)).Nodup) :
    translateName m a = b := by
  unfold translateName
  rw [lookup_mem m a b hm hk]
  rfl
theorem newBiMap_eq (pairs m : List (α × α)) (h : newBiMap pairs = some m) : m = pairs := by
  induction pairs generalizing m with
  | nil => simp [newBiMap] at h; exact h
  | cons p rest ih =>
    obtain ⟨k, v⟩ := p
    simp only [newBiMap] at h
    split at h
    · cases h
    · rename_i m' hm'
      split at h
      · cases h
      · cases h
        rw [ih m' hm']
theorem newBiMap_isSome_iff (pairs : List (α × α)) :
    (newBiMap pairs).isSome = true ↔ (pairs.map (·.1)).Nodup ∧ (pairs.map (·.2)).Nodup := by
  induction pairs with
  | nil => simp [newBiMap]
  | cons p rest ih =>
    obtain ⟨k, v⟩ := p
    cases hr : newBiMap rest with
    | none =>
      rw [hr] at ih
      simp only [newBiMap, hr, List.map_cons, List.nodup_cons]
      constructor
      · intro h; cases h
      · intro h
        exact absurd (ih.2 ⟨h.1.2, h.2.2⟩) (by simp)
    | some m' =>
      have hm := newBiMap_eq rest m' hr
      subst hm
      rw [hr] at ih
      have ih' := ih.1 rfl
      simp only [newBiMap, hr, List.map_cons, List.nodup_cons]
      by_cases hc : (m'.any (fun p => p.1 = k) || m'.any (fun p => p.2 = v)) = true
      · rw [if_pos hc]
        constructor
        · intro h; cases h
        · intro h
          exfalso
          rw [Bool.or_eq_true, List.any_eq_true, List.any_eq_true] at hc
          rcases hc with ⟨q, hq, he⟩ | ⟨q, hq, he⟩
          · exact h.1.1 (List.mem_map.2 ⟨q, hq, of_decide_eq_true he⟩)
          · exact h.2.1 (List.mem_map.2 ⟨q, hq, of_decide_eq_true he⟩)
      · rw [if_neg hc]
        refine ⟨fun _ => ?_, fun _ => rfl⟩
        rw [Bool.or_eq_true, List.any_eq_true, List.any_eq_true] at hc
        refine ⟨⟨?_, ih'.1⟩, ⟨?_, ih'.2⟩⟩
        · intro hmem
          obtain ⟨q, hq, he⟩ := List.mem_map.1 hmem
          exact hc (Or.inl ⟨q, hq, decide_eq_true he⟩)
        · intro hmem
          obtain ⟨q, hq, he⟩ := List.mem_map.1 hmem
          exact hc (Or.inr ⟨q, hq, decide_eq_true he⟩)
theorem roundtrip (m : List (α × α)) (hk : (m.map (·.1)).Nodup) (hv : (m.map (·.2)).Nodup) (s : α)
    (hs : (∃ p ∈ m, p.1 = s) ∨ (∀ p ∈ m, p.2 ≠ s)) :
    translateName (inverse m) (translateName m s) = s := by
  by_cases hex : ∃ p ∈ m, p.1 = s
  · obtain ⟨⟨a, b⟩, hp, rfl⟩ := hex
    rw [translateName_mapped m a b hp hk]
    apply translateName_mapped
    · exact List.mem_map.2 ⟨(a, b), hp, rfl⟩
    · have : (inverse m).map (·.1) = m.map (·.2) := by
        unfold inverse; rw [List.map_map]; rfl
      rw [this]; exact hv
  · have hs2 : ∀ p ∈ m, p.2 ≠ s := by
      rcases hs with h | h
      · exact absurd h hex
      · exact h
    have hs1 : ∀ p ∈ m, p.1 ≠ s := fun p hp he => hex ⟨p, hp, he⟩
    rw [translateName_unmapped m s hs1]
    apply translateName_unmapped
    intro p hp
    obtain ⟨q, hq, rfl⟩ := List.mem_map.1 hp
    exact hs2 q hq
/-- C14: keys are renamed by the mapping, values untouched, order and size preserved -/
theorem renameKeys_spec {β : Type} (m : List (α × α)) (fields : List (α × β)) :
    (renameKeys m fields).map (·.2) = fields.map (·.2) ∧
    (renameKeys m fields).map (·.1) = fields.map (fun p => translateName m p.1) ∧
    (renameKeys m fields).length = fields.length := by
  unfold renameKeys
  refine ⟨?_, ?_, ?_⟩
  · rw [List.map_map]; rfl
  · rw [List.map_map]; rfl
  · rw [List.length_map]
/-- C14: with an injective mapping and keys that do not collide with mapping targets, distinct keys stay distinct
    (so the Go map built from them has the same size and loses nothing) -/
theorem renameKeys_nodup {β : Type} (m : List (α × α)) (hk : (m.map (·.1)).Nodup) (hv : (m.map (·.2)).Nodup)
    (fields : List (α × β)) (hf : (fields.map (·.1)).Nodup)
    (hcol : ∀ p ∈ fields, (∃ q ∈ m, q.1 = p.1) ∨ (∀ q ∈ m, q.2 ≠ p.1)) :
    ((renameKeys m fields).map (·.1)).Nodup := by
  rw [(renameKeys_spec m fields).2.1]
  unfold List.Nodup at hf ⊢
  rw [List.pairwise_map] at hf ⊢
  refine List.Pairwise.imp_of_mem ?_ hf
  intro p q hp _ hne heq
  apply hne
  have h1 := roundtrip m hk hv p.1 (hcol p hp)
  have h2 := roundtrip m hk hv q.1 (hcol q ‹q ∈ fields›)
  rw [← h1, ← h2, heq]
end S2S.NameMap
