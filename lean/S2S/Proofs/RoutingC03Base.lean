import S2S.Spec.Routing
/-!
Base lemmas for C03: frame lemmas for `setSrc/setTgt`, assoc-list helpers, and the safety
invariant `Inv` ("every value associated with source `s` anywhere is `≤ lastHigh s`").
-/
namespace S2S.Routing

/-! ### frame lemmas -/

theorem src_setSrc (σ : State) (s s0 : SId) (x : Source) :
    (σ.setSrc s x).src s0 = if s0 = s ∧ s < σ.sources.length then x else σ.src s0 := by
  unfold State.setSrc State.src
  simp only [List.getD_eq_getElem?_getD, List.getElem?_set]
  by_cases h : s = s0
  · subst h
    by_cases h2 : s < σ.sources.length
    · simp [h2]
    · simp [h2]
  · have : ¬ (s0 = s) := fun e => h e.symm
    simp [h, this]

theorem tgt_setTgt (σ : State) (t t0 : TId) (y : Target) :
    (σ.setTgt t y).tgt t0 = if t0 = t ∧ t < σ.targets.length then y else σ.tgt t0 := by
  unfold State.setTgt State.tgt
  simp only [List.getD_eq_getElem?_getD, List.getElem?_set]
  by_cases h : t = t0
  · subst h
    by_cases h2 : t < σ.targets.length
    · simp [h2]
    · simp [h2]
  · have : ¬ (t0 = t) := fun e => h e.symm
    simp [h, this]

@[simp] theorem src_setTgt (σ : State) (t : TId) (y : Target) (s : SId) : (σ.setTgt t y).src s = σ.src s := rfl
@[simp] theorem tgt_setSrc (σ : State) (s : SId) (x : Source) (t : TId) : (σ.setSrc s x).tgt t = σ.tgt t := rfl

@[simp] theorem sources_length_setSrc (σ : State) (s : SId) (x : Source) :
    (σ.setSrc s x).sources.length = σ.sources.length := by simp [State.setSrc]
@[simp] theorem targets_length_setSrc (σ : State) (s : SId) (x : Source) :
    (σ.setSrc s x).targets.length = σ.targets.length := rfl
@[simp] theorem sources_length_setTgt (σ : State) (t : TId) (y : Target) :
    (σ.setTgt t y).sources.length = σ.sources.length := rfl
@[simp] theorem targets_length_setTgt (σ : State) (t : TId) (y : Target) :
    (σ.setTgt t y).targets.length = σ.targets.length := by simp [State.setTgt]

theorem src_of_ge (σ : State) (s : SId) (h : σ.sources.length ≤ s) : σ.src s = {} := by
  unfold State.src; simp [List.getD_eq_getElem?_getD, List.getElem?_eq_none h]

theorem tgt_of_ge (σ : State) (t : TId) (h : σ.targets.length ≤ t) : σ.tgt t = {} := by
  unfold State.tgt; simp [List.getD_eq_getElem?_getD, List.getElem?_eq_none h]

theorem src_init (ns nt : Nat) (s : SId) : (State.init ns nt).src s = {} := by
  unfold State.init State.src
  simp only [List.getD_eq_getElem?_getD, List.getElem?_replicate]
  split <;> rfl

theorem tgt_init (ns nt : Nat) (t : TId) : (State.init ns nt).tgt t = {} := by
  unfold State.init State.tgt
  simp only [List.getD_eq_getElem?_getD, List.getElem?_replicate]
  split <;> rfl

/-- `src` of a state whose sources are mapped by a function fixing the default source -/
theorem src_map (srcs : List Source) (tgts : List Target) (f : Source → Source) (hf : f {} = {}) (s : SId) :
    (State.mk (srcs.map f) tgts).src s = f ((State.mk srcs tgts).src s) := by
  unfold State.src
  simp only [List.getD_eq_getElem?_getD, List.getElem?_map]
  cases h : srcs[s]? <;> simp [hf]

theorem tgt_map (srcs : List Source) (tgts : List Target) (g : Target → Target) (hg : g {} = {}) (t : TId) :
    (State.mk srcs (tgts.map g)).tgt t = g ((State.mk srcs tgts).tgt t) := by
  unfold State.tgt
  simp only [List.getD_eq_getElem?_getD, List.getElem?_map]
  cases h : tgts[t]? <;> simp [hg]

/-! ### assoc-list helpers -/

theorem aget_mem {α} {l : List (Nat × α)} {k : Nat} {v : α} (h : aget l k = some v) : (k, v) ∈ l := by
  unfold aget at h
  cases hf : l.find? (fun p => p.1 == k) with
  | none => simp [hf] at h
  | some p =>
    simp [hf] at h
    have h1 := List.find?_some hf
    have h2 := List.mem_of_find?_eq_some hf
    simp at h1
    cases p with
    | mk a b => simp at h1 h; subst h1; subst h; exact h2

theorem mem_aset {α} {l : List (Nat × α)} {k : Nat} {v : α} {p : Nat × α} (h : p ∈ aset l k v) :
    p ∈ l ∨ p = (k, v) := by
  induction l with
  | nil => simp [aset] at h; exact Or.inr h
  | cons a r ih =>
    obtain ⟨k', v'⟩ := a
    simp only [aset] at h
    split at h
    · rename_i hk
      have hk' : k' = k := by simpa using hk
      rcases List.mem_cons.1 h with h | h
      · right; rw [h, hk']
      · left; exact List.mem_cons_of_mem _ h
    · rcases List.mem_cons.1 h with h | h
      · left; rw [h]; exact List.mem_cons_self
      · rcases ih h with h | h
        · left; exact List.mem_cons_of_mem _ h
        · right; exact h

theorem minVal_mem {l : List (TId × Int)} {m : Int} (h : minVal l = some m) : ∃ t, (t, m) ∈ l := by
  induction l generalizing m with
  | nil => simp [minVal] at h
  | cons a r ih =>
    obtain ⟨t, v⟩ := a
    simp only [minVal] at h
    split at h
    · cases h; exact ⟨t, List.mem_cons_self⟩
    · rename_i m' hm'
      cases h
      split
      · exact ⟨t, List.mem_cons_self⟩
      · obtain ⟨t', ht'⟩ := ih hm'
        exact ⟨t', List.mem_cons_of_mem _ ht'⟩

theorem mem_seed {m : List (TId × Int)} {groups : List (TId × List Int)} {p : TId × Int}
    (h : p ∈ seed m groups) : p ∈ m ∨ ∃ g ∈ groups, p = (g.1, g.2.headD 0) := by
  induction groups generalizing m with
  | nil => exact Or.inl h
  | cons g rest ih =>
    obtain ⟨t, ids⟩ := g
    simp only [seed] at h
    rcases ih h with h | ⟨g, hg, hp⟩
    · split at h
      · exact Or.inl h
      · rcases mem_aset h with h | h
        · exact Or.inl h
        · exact Or.inr ⟨(t, ids), List.mem_cons_self, h⟩
    · exact Or.inr ⟨g, List.mem_cons_of_mem _ hg, hp⟩

theorem mem_groupByOwner {tasks : List (Int × TId)} {t : TId} {ids : List Int}
    (h : (t, ids) ∈ groupByOwner tasks) : ∀ id ∈ ids, (id, t) ∈ tasks := by
  induction tasks generalizing t ids with
  | nil => simp [groupByOwner] at h
  | cons a rest ih =>
    obtain ⟨id0, t0⟩ := a
    simp only [groupByOwner] at h
    split at h
    · rename_i ids0 hg
      rcases mem_aset h with h | h
      · intro id hid; exact List.mem_cons_of_mem _ (ih h id hid)
      · cases h
        intro id hid
        rcases List.mem_cons.1 hid with hid | hid
        · subst hid; exact List.mem_cons_self
        · exact List.mem_cons_of_mem _ (ih (aget_mem hg) id hid)
    · rcases List.mem_cons.1 h with h | h
      · cases h
        intro id hid
        simp at hid; subst hid; exact List.mem_cons_self
      · intro id hid; exact List.mem_cons_of_mem _ (ih h id hid)

theorem mem_aggInsert {acc : List (SId × Int)} {s : SId} {v : Int} {p : SId × Int}
    (h : p ∈ aggInsert acc s v) : p ∈ acc ∨ p = (s, v) := by
  induction acc with
  | nil => simp [aggInsert] at h; exact Or.inr h
  | cons a r ih =>
    obtain ⟨s', v'⟩ := a
    simp only [aggInsert] at h
    split at h
    · rename_i hs
      have hs' : s' = s := by simpa using hs
      rcases List.mem_cons.1 h with h | h
      · split at h
        · right; rw [h, hs']
        · left; rw [h]; exact List.mem_cons_self
      · left; exact List.mem_cons_of_mem _ h
    · rcases List.mem_cons.1 h with h | h
      · left; rw [h]; exact List.mem_cons_self
      · rcases ih h with h | h
        · left; exact List.mem_cons_of_mem _ h
        · right; exact h

theorem mem_foldl_aggInsert {l : List (Int × SId × Int)} {acc : List (SId × Int)} {p : SId × Int}
    (h : p ∈ l.foldl (fun acc e => aggInsert acc e.2.1 e.2.2) acc) :
    p ∈ acc ∨ ∃ e ∈ l, p = (e.2.1, e.2.2) := by
  induction l generalizing acc with
  | nil => exact Or.inl h
  | cons e r ih =>
    simp only [List.foldl_cons] at h
    rcases ih h with h | ⟨e', he', hp⟩
    · rcases mem_aggInsert h with h | h
      · exact Or.inl h
      · exact Or.inr ⟨e, List.mem_cons_self, h⟩
    · exact Or.inr ⟨e', List.mem_cons_of_mem _ he', hp⟩

theorem mem_aggregate {ring : List (Int × SId × Int)} {w : Int} {p : SId × Int}
    (h : p ∈ (aggregate ring w).1) : ∃ e ∈ ring, p = (e.2.1, e.2.2) := by
  unfold aggregate at h
  rcases mem_foldl_aggInsert h with h | ⟨e, he, hp⟩
  · simp at h
  · exact ⟨e, (List.takeWhile_sublist _).subset he, hp⟩

/-! ### the safety invariant -/

def PcOK (L : Int) : RecvPc → Prop
  | .idle => True
  | .bcast high _ => high ≤ L
  | .deliver pending => ∀ p ∈ pending, ∀ id ∈ p.2, id ≤ L

structure SrcOK (x : Source) : Prop where
  inact : x.active = false → x = {}
  nonneg : 0 ≤ x.lastHigh
  acks : ∀ u ∈ x.acksSent, u ≤ x.lastSentMin
  lsa : ∀ a, x.lastSentAck = some a → a = x.lastSentMin
  lsm : x.lastSentMin ≤ x.lastHigh
  abt : ∀ p ∈ x.ackByTarget, p.2 ≤ x.lastHigh
  ach : ∀ p ∈ x.ackChan, p.2 ≤ x.lastHigh
  lwm : ∀ h, x.lastWatermark = some h → h ≤ x.lastHigh
  pcb : PcOK x.lastHigh x.pc
  grave : x.graveyard = []

def MsgOK (hi : SId → Int) : Msg → Prop
  | .tasks s ids => ∀ id ∈ ids, id ≤ hi s
  | .wm s h => h ≤ hi s

def AckPcOK (hi : SId → Int) : AckPc → Prop
  | .idle => True
  | .forwarding todo _ _ => ∀ p ∈ todo, p.2 ≤ hi p.1

structure TgtOK (hi : SId → Int) (tg : Target) : Prop where
  ring : ∀ e ∈ tg.ring, e.2.2 ≤ hi e.2.1
  chan : ∀ m ∈ tg.sendChan, MsgOK hi m
  prev : ∀ p ∈ tg.prevAck, p.2 ≤ hi p.1
  apc : AckPcOK hi tg.ackPc

def State.hi (σ : State) : SId → Int := fun s => (σ.src s).lastHigh

structure Inv (σ : State) : Prop where
  srcs : ∀ s, SrcOK (σ.src s)
  tgts : ∀ t, TgtOK σ.hi (σ.tgt t)

theorem MsgOK.mono {hi hi' : SId → Int} (h : ∀ s, hi s ≤ hi' s) {m : Msg} (hm : MsgOK hi m) : MsgOK hi' m := by
  cases m with
  | tasks s ids => exact fun id hid => Int.le_trans (hm id hid) (h s)
  | wm s v => exact Int.le_trans hm (h s)

theorem AckPcOK.mono {hi hi' : SId → Int} (h : ∀ s, hi s ≤ hi' s) {a : AckPc} (ha : AckPcOK hi a) : AckPcOK hi' a := by
  cases a with
  | idle => trivial
  | forwarding todo d r => exact fun p hp => Int.le_trans (ha p hp) (h _)

theorem TgtOK.mono {hi hi' : SId → Int} (h : ∀ s, hi s ≤ hi' s) {tg : Target} (ht : TgtOK hi tg) : TgtOK hi' tg :=
  ⟨fun e he => Int.le_trans (ht.ring e he) (h _), fun m hm => (ht.chan m hm).mono h,
   fun p hp => Int.le_trans (ht.prev p hp) (h _), ht.apc.mono h⟩

theorem SrcOK.default : SrcOK {} := by
  refine ⟨fun _ => rfl, Int.le_refl _, ?_, ?_, Int.le_refl _, ?_, ?_, ?_, trivial, rfl⟩ <;> simp

theorem TgtOK.default (hi : SId → Int) : TgtOK hi {} := by
  refine ⟨?_, ?_, ?_, trivial⟩ <;> simp

theorem Inv.init (ns nt : Nat) : Inv (State.init ns nt) :=
  ⟨fun s => by rw [src_init]; exact SrcOK.default, fun t => by rw [tgt_init]; exact TgtOK.default _⟩

theorem Inv.setSrc {σ : State} (hI : Inv σ) {s : SId} {x : Source} (hx : SrcOK x)
    (hm : (σ.src s).lastHigh ≤ x.lastHigh) : Inv (σ.setSrc s x) := by
  refine ⟨fun s0 => ?_, fun t => ?_⟩
  · rw [src_setSrc]; split
    · exact hx
    · exact hI.srcs s0
  · rw [tgt_setSrc]
    refine (hI.tgts t).mono fun s0 => ?_
    show (σ.src s0).lastHigh ≤ ((σ.setSrc s x).src s0).lastHigh
    rw [src_setSrc]; split
    · rename_i h; rw [h.1]; exact hm
    · exact Int.le_refl _

theorem hi_setSrc {σ : State} {s : SId} {x : Source} (hm : x.lastHigh = (σ.src s).lastHigh) :
    (σ.setSrc s x).hi = σ.hi := by
  funext s0
  show ((σ.setSrc s x).src s0).lastHigh = (σ.src s0).lastHigh
  rw [src_setSrc]; split
  · rename_i h; rw [h.1]; exact hm
  · rfl

theorem Inv.setTgt {σ : State} (hI : Inv σ) {t : TId} {y : Target} (hy : TgtOK σ.hi y) : Inv (σ.setTgt t y) := by
  refine ⟨fun s0 => hI.srcs s0, fun t0 => ?_⟩
  show TgtOK σ.hi _
  rw [tgt_setTgt]; split
  · exact hy
  · exact hI.tgts t0

/-! ### acks unchanged ⇒ step statement trivial -/

theorem amb_of_acks_eq {σ σ' : State} (h : ∀ s, (σ'.src s).acksSent = (σ.src s).acksSent) :
    AckStepMonoBounded σ σ' := by
  intro s _ v hv
  simp [newAcks, h s] at hv

theorem acks_setSrc {σ : State} {s : SId} {x : Source} (h : x.acksSent = (σ.src s).acksSent) (s0 : SId) :
    ((σ.setSrc s x).src s0).acksSent = (σ.src s0).acksSent := by
  rw [src_setSrc]; split
  · rename_i h'; rw [h'.1]; exact h
  · rfl

end S2S.Routing
