import S2S.Proofs.MuxPoolProgress
/-! Shutdown (C10): after `Cancel` every execution is finite, and a maximal one ends with everything
closed — provided no step abandoned an open resource (`leakStep`), which the `fixed` defects exclude. -/
namespace S2S.MuxPool

/-- every connection that is still open (conn or session) is still owned by someone who will close it -/
def CleanL (l : List Conn) : Prop := ∀ x ∈ l, x.isOpen = true → x.stage.isOwned = true

theorem cleanL_set {l : List Conn} {c : Nat} {x' : Conn} (h : CleanL l) (hx : x'.isOpen = true → x'.stage.isOwned = true) :
    CleanL (l.set c x') := by
  intro y hy
  rcases List.mem_or_eq_of_mem_set hy with hy | rfl
  · exact h y hy
  · exact hx

theorem cleanL_push {l : List Conn} (h : CleanL l) : CleanL (l ++ [({} : Conn)]) := by
  intro y hy
  simp only [List.mem_append, List.mem_singleton] at hy
  rcases hy with hy | rfl
  · exact h y hy
  · intro _; rfl

macro "cl_simp" : tactic => `(tactic|
  (simp_all [leakStep, Conn.isOpen, Conn.closeBoth, Stage.isOwned, St.setConn] <;> try (split <;> simp_all)))

theorem clean_step (d : Defects) (σ σ' : St) (a : Act) (hi : Inv σ) (hc : CleanL σ.conns)
    (hs : step d σ a = some σ') (hnl : leakStep d σ a = false) : CleanL σ'.conns := by
  cases a with
  | acquire => simp only [step] at hs; (repeat' split at hs) <;> simp_all <;> (subst hs; exact hc)
  | acquireFail => simp only [step] at hs; (repeat' split at hs) <;> simp_all <;> (subst hs; exact hc)
  | connErr => simp only [step] at hs; (repeat' split at hs) <;> simp_all <;> (subst hs; exact hc)
  | pingOk => simp only [step] at hs; (repeat' split at hs) <;> simp_all <;> (subst hs; exact hc)
  | cancel => simp only [step] at hs; (repeat' split at hs) <;> simp_all <;> (subst hs; exact hc)
  | onClose => simp only [step] at hs; (repeat' split at hs) <;> simp_all <;> (subst hs; exact hc)
  | connOk =>
    simp only [step] at hs
    split at hs
    · cases hs; exact cleanL_push hc
    · cases hs
  | sessErr =>
    simp only [step] at hs
    split at hs
    · rename_i c hph
      obtain ⟨hlen, hst⟩ := hi.pRaw c hph
      split at hs <;> cases hs
      · apply cleanL_set hc; cl_simp
      · apply cleanL_set hc; cl_simp
    · cases hs
  | sessOk =>
    simp only [step] at hs
    split at hs
    · cases hs; apply cleanL_set hc; cl_simp
    · cases hs
  | pingErr k =>
    simp only [step] at hs
    split at hs
    · rename_i c hph
      split at hs <;> cases hs
      · apply cleanL_set hc; cl_simp
      · apply cleanL_set hc; cl_simp
    · cases hs
  | add =>
    simp only [step] at hs
    split at hs
    · rename_i c hph
      split at hs <;> cases hs
      · apply cleanL_set hc; cl_simp
      · apply cleanL_set hc; cl_simp
    · cases hs
  | peerClose c =>
    simp only [step] at hs
    split at hs <;> cases hs
    apply cleanL_set hc; cl_simp
  | localClose c =>
    simp only [step] at hs
    split at hs
    · split at hs <;> cases hs
      apply cleanL_set hc; cl_simp
    · cases hs
  | cleanup c =>
    simp only [step] at hs
    split at hs
    · split at hs <;> cases hs
      apply cleanL_set hc; cl_simp
    · cases hs
  | release c =>
    simp only [step] at hs
    split at hs
    · rename_i mid hst
      split at hs <;> cases hs
      rename_i hlen
      have hcl : (σ.conn c).isOpen = false := by
        cases h : (σ.conn c).isOpen
        · rfl
        · have := hc _ (conn_mem σ c hlen) h
          simp [hst, Stage.isOwned] at this
      apply cleanL_set hc; cl_simp
    · cases hs


theorem leakStep_fixed (σ : St) (a : Act) : leakStep Defects.fixed σ a = false := by
  cases a <;> simp [leakStep, Defects.fixed] <;> split <;> simp

theorem noLeakAlong_fixed (acts : List Act) (σ : St) : noLeakAlong Defects.fixed σ acts = true := by
  induction acts generalizing σ with
  | nil => rfl
  | cons a r ih => simp [noLeakAlong, leakStep_fixed, ih]

/-- `Inv` and `CleanL` along a run without leaking steps -/
theorem clean_run (d : Defects) (acts : List Act) (σ : St) (hi : Inv σ) (hc : CleanL σ.conns)
    (hnl : noLeakAlong d σ acts = true) : CleanL (run d σ acts).conns := by
  induction acts generalizing σ with
  | nil => exact hc
  | cons a r ih =>
    simp only [noLeakAlong, Bool.and_eq_true, Bool.not_eq_true'] at hnl
    rw [run_cons]
    cases hs : step d σ a with
    | none => simp only [hs, Option.getD_none] at hnl ⊢; exact ih σ hi hc hnl.2
    | some σ' =>
      simp only [hs, Option.getD_some] at hnl ⊢
      exact ih σ' (inv_step d σ σ' a hi hs) (clean_step d σ σ' a hi hc hs hnl.1) hnl.2

/-- what a maximal execution after `Cancel` looks like -/
theorem maximal_terminal (d : Defects) (σ : St) (hi : Inv σ) (hl : σ.live = false) (hmax : Maximal d σ) :
    σ.phase = .exited ∧ σ.mgrClosed = true ∧ ∀ x ∈ σ.conns, x.stage.isRegistered = false ∧ x.stage.isCleaned = false := by
  have hph : σ.phase = .exited := by
    cases hp : σ.phase with
    | idle => have := hmax .acquireFail rfl; simp [step, hp, hl] at this
    | acquired => have := hmax .connErr rfl; simp [step, hp, hl] at this
    | haveConn c => have := hmax .sessOk rfl; simp [step, hp] at this
    | haveSession c => have := hmax (.pingErr .other) rfl; simp [step, hp, hl] at this
    | pinged c => have := hmax .add rfl; simp [step, hp, hl] at this
    | exited => rfl
  refine ⟨hph, ?_, ?_⟩
  · have := hmax .onClose rfl
    simp [step, hph, hl] at this
    exact this
  · intro x hx
    obtain ⟨c, hc, rfl⟩ := exists_index_of_mem hx
    cases hst : (σ.conn c).stage with
    | registered mid => have := hmax (.cleanup c) rfl; simp [step, hst, hc, Conn.dying, hl] at this
    | cleaned mid => have := hmax (.release c) rfl; simp [step, hst, hc] at this
    | _ => simp [Stage.isRegistered, Stage.isCleaned]

/-- clean + terminal ⇒ everything closed -/
theorem terminal_allClosed (σ : St) (hi : Inv σ) (hc : CleanL σ.conns) (hph : σ.phase = .exited)
    (hnr : ∀ x ∈ σ.conns, x.stage.isRegistered = false ∧ x.stage.isCleaned = false) :
    σ.allClosed = true ∧ σ.registered = [] := by
  have hraw := hi.nRaw
  have hsess := hi.nSess
  simp only [St.cntS, hph, Phase.rawInflight, Phase.sessInflight, List.countP_eq_zero] at hraw hsess
  constructor
  · simp only [St.allClosed, List.all_eq_true]
    intro x hx
    cases ho : x.isOpen with
    | false => simp [Conn.isOpen] at ho; simp [ho]
    | true =>
      have hown := hc x hx ho
      have h1 := hraw x hx
      have h2 := hsess x hx
      have h3 := (hnr x hx).1
      cases hst : x.stage <;> simp [hst, Stage.isOwned, Stage.isRaw, Stage.isSessioned, Stage.isRegistered] at hown h1 h2 h3
  · simp only [St.registered, List.filterMap_eq_nil_iff]
    intro x hx
    have h3 := (hnr x hx).1
    cases hst : x.stage <;> simp [hst, Stage.isRegistered] at h3 ⊢

/-- the shutdown theorem in its general form: any defects, but no leaking step along the run -/
theorem shutdown_clean (d : Defects) (n : Nat) (r : Role) (acts : List Act)
    (hnl : noLeakAlong d (St.init n r) acts = true)
    (hl : (run d (St.init n r) acts).live = false) (hmax : Maximal d (run d (St.init n r) acts)) :
    (run d (St.init n r) acts).allClosed = true ∧ (run d (St.init n r) acts).registered = [] ∧
    (run d (St.init n r) acts).mgrClosed = true ∧ (run d (St.init n r) acts).phase = .exited := by
  have hi := inv_reach d n r acts
  have hc : CleanL (run d (St.init n r) acts).conns :=
    clean_run d acts _ (inv_init n r) (by intro x hx; simp [St.init] at hx) hnl
  obtain ⟨h1, h2, h3⟩ := maximal_terminal d _ hi hl hmax
  obtain ⟨h4, h5⟩ := terminal_allClosed _ hi hc h1 h3
  exact ⟨h4, h5, h2, h1⟩

theorem maximal_of_terminal (d : Defects) (σ : St) (h : σ.terminal = true) : Maximal d σ := by
  simp only [St.terminal, Bool.and_eq_true, beq_iff_eq, Bool.not_eq_true', List.all_eq_true] at h
  obtain ⟨⟨⟨hph, hmc⟩, hl⟩, hall⟩ := h
  have hstage : ∀ c, (σ.conn c).stage.isRegistered = false ∧ (σ.conn c).stage.isCleaned = false := by
    intro c
    by_cases hc : c < σ.conns.length
    · have := hall _ (conn_mem σ c hc); simpa using this
    · have : σ.conn c = {} := by simp [St.conn, List.getD, Nat.not_lt.mp hc]
      simp [this, Stage.isRegistered, Stage.isCleaned]
  intro a ha
  cases a with
  | cleanup c =>
    have := (hstage c).1
    simp only [step]; split <;> simp_all [Stage.isRegistered]
  | release c =>
    have := (hstage c).2
    simp only [step]; split <;> simp_all [Stage.isCleaned]
  | peerClose c => simp [obligatory] at ha
  | localClose c => simp [obligatory] at ha
  | cancel => simp [obligatory] at ha
  | _ => simp [step, hph, hl, hmc]

macro "sm_simp" : tactic => `(tactic|
  (simp_all [shutMeasure, Phase.shutRank, shutWeight, St.setConn, Conn.closeBoth, Conn.dying, wsum_append, wsum]))

macro "sm_fin" : tactic => `(tactic|
  (first
   | (simp_all; done)
   | (refine ⟨?_, by simp_all [St.setConn]⟩; sm_simp <;> (repeat' split) <;> (try simp_all) <;> omega)))

theorem shut_decrease (d : Defects) (σ σ' : St) (a : Act) (hi : Inv σ) (hl : σ.live = false)
    (hs : step d σ a = some σ') : shutMeasure σ' < shutMeasure σ ∧ σ'.live = false := by
  cases a with
  | acquire => simp [step, hl] at hs; split at hs <;> cases hs
  | cancel => simp [step, hl] at hs
  | acquireFail =>
    simp only [step] at hs
    split at hs
    · split at hs <;> cases hs <;> sm_fin
    · cases hs
  | connErr =>
    simp only [step] at hs
    split at hs
    · split at hs <;> cases hs <;> sm_fin
    · cases hs
  | connOk =>
    simp only [step] at hs
    split at hs
    · cases hs; sm_fin
    · cases hs
  | sessErr =>
    simp only [step] at hs
    split at hs
    · rename_i c hph
      obtain ⟨hlen, hst⟩ := hi.pRaw c hph
      split at hs <;> cases hs
      · have hw := wsum_setConn shutWeight σ c { (if d.exitLeaksAttempt then σ.conn c else (σ.conn c).closeBoth) with stage := .abandoned } hlen
        cases hd : d.exitLeaksAttempt <;> sm_fin
      · simp_all
    · cases hs
  | sessOk =>
    simp only [step] at hs
    split at hs
    · rename_i c hph
      obtain ⟨hlen, hst⟩ := hi.pRaw c hph
      cases hs
      have hw := wsum_setConn shutWeight σ c { σ.conn c with sessOpen := true, stage := .sessioned } hlen
      sm_fin
    · cases hs
  | pingOk =>
    simp only [step] at hs
    split at hs
    · split at hs <;> cases hs
      sm_fin
    · cases hs
  | pingErr k =>
    simp only [step] at hs
    split at hs
    · rename_i c hph
      obtain ⟨hlen, hst⟩ := hi.pSess c (.inl hph)
      split at hs <;> cases hs
      · have hw := wsum_setConn shutWeight σ c { (if d.exitLeaksAttempt then σ.conn c else (σ.conn c).closeBoth) with stage := .abandoned } hlen
        cases hd : d.exitLeaksAttempt <;> sm_fin
      · simp_all
    · cases hs
  | add =>
    simp only [step] at hs
    split at hs
    · rename_i c hph
      obtain ⟨hlen, hst⟩ := hi.pSess c (.inr hph)
      split at hs <;> cases hs
      · have hw := wsum_setConn shutWeight σ c { (if d.lateAddLeaks then σ.conn c else (σ.conn c).closeBoth) with stage := .dropped } hlen
        cases hd : d.lateAddLeaks <;> sm_fin
      · simp_all
    · cases hs
  | peerClose c =>
    simp only [step] at hs
    split at hs <;> cases hs
    rename_i hc
    obtain ⟨hlen, hso⟩ := hc
    have hw := wsum_setConn shutWeight σ c (σ.conn c).closeBoth hlen
    cases hst : (σ.conn c).stage <;> sm_fin
  | localClose c =>
    simp only [step] at hs
    split at hs
    · rename_i mid hst
      split at hs <;> cases hs
      rename_i hc
      obtain ⟨hlen, hcd⟩ := hc
      have hw := wsum_setConn shutWeight σ c { σ.conn c with ctxDone := true } hlen
      sm_fin
    · cases hs
  | cleanup c =>
    simp only [step] at hs
    split at hs
    · rename_i mid hst
      split at hs <;> cases hs
      rename_i hc
      obtain ⟨hlen, hcd⟩ := hc
      have hw := wsum_setConn shutWeight σ c { (σ.conn c).closeBoth with ctxDone := true, stage := .cleaned mid } hlen
      sm_fin
    · cases hs
  | release c =>
    simp only [step] at hs
    split at hs
    · rename_i mid hst
      split at hs <;> cases hs
      rename_i hlen
      have hw := wsum_setConn shutWeight σ c { σ.conn c with stage := .released mid } hlen
      sm_fin
    · cases hs
  | onClose =>
    simp only [step] at hs
    split at hs
    · split at hs <;> cases hs
      sm_fin
    · cases hs

/-- after `Cancel` every execution is finite: at most `shutMeasure σ` steps can still happen -/
theorem shutdown_bounded (d : Defects) (acts : List Act) (σ : St) (hi : Inv σ) (hl : σ.live = false) :
    effectiveSteps d σ acts ≤ shutMeasure σ := by
  induction acts generalizing σ with
  | nil => simp [effectiveSteps]
  | cons a r ih =>
    simp only [effectiveSteps]
    cases hs : step d σ a with
    | none => exact ih σ hi hl
    | some σ' =>
      obtain ⟨hlt, hl'⟩ := shut_decrease d σ σ' a hi hl hs
      have := ih σ' (inv_step d σ σ' a hi hs) hl'
      simp only; omega

end S2S.MuxPool
