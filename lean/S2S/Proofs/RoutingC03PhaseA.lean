import S2S.Proofs.RoutingC03Lists
/-! Round 2, phase A: after `recv s [] H` from an idle state, settling delivers the watermark `H`
of `s` into every target's ring and emits it. -/
namespace S2S.Routing

theorem src_proj_setSrc {α} (f : Source → α) {σ : State} {s : SId} {x : Source} (h : f x = f (σ.src s))
    (s0 : SId) : f ((σ.setSrc s x).src s0) = f (σ.src s0) := by
  rw [src_setSrc]; split
  · rename_i h'; rw [h'.1]; exact h
  · rfl

theorem tgt_proj_setTgt {α} (f : Target → α) {σ : State} {t : TId} {y : Target} (h : f y = f (σ.tgt t))
    (t0 : TId) : f ((σ.setTgt t y).tgt t0) = f (σ.tgt t0) := by
  rw [tgt_setTgt]; split
  · rename_i h'; rw [h'.1]; exact h
  · rfl

theorem src_setSrc_ne {σ : State} {s s0 : SId} (x : Source) (h : s0 ≠ s) : (σ.setSrc s x).src s0 = σ.src s0 := by
  rw [src_setSrc, if_neg (fun h' => h h'.1)]

theorem tgt_setTgt_ne {σ : State} {t t0 : TId} (y : Target) (h : t0 ≠ t) : (σ.setTgt t y).tgt t0 = σ.tgt t0 := by
  rw [tgt_setTgt, if_neg (fun h' => h h'.1)]

theorem src_setSrc_self {σ : State} {s : SId} (x : Source) (h : s < σ.sources.length) : (σ.setSrc s x).src s = x := by
  rw [src_setSrc, if_pos ⟨rfl, h⟩]

theorem tgt_setTgt_self {σ : State} {t : TId} (y : Target) (h : t < σ.targets.length) : (σ.setTgt t y).tgt t = y := by
  rw [tgt_setTgt, if_pos ⟨rfl, h⟩]

theorem lt_of_active {σ : State} {s : SId} (h : (σ.src s).active = true) : s < σ.sources.length := by
  apply Nat.lt_of_not_le
  intro hge
  rw [src_of_ge σ s hge] at h
  cases h

def TodoHas (H : Int) (pc : RecvPc) (t : TId) (inc : Nat) : Prop :=
  ∃ todo, pc = .bcast H todo ∧ aget todo t = some inc

def TodoNot (pc : RecvPc) (t : TId) : Prop := ∀ high todo, pc = .bcast high todo → aget todo t = none

/-- target has taken and emitted the watermark `(s, H)` -/
def Done (s : SId) (H : Int) (tg : Target) : Prop :=
  tg.sendChan = [] ∧ tg.holding = none ∧ (∃ e, tg.stream.getLast? = some e ∧ tg.nextProxyId ≤ e.high) ∧
    ∃ p, (p, s, H) ∈ tg.ring

def WA (s : SId) (H : Int) (pc : RecvPc) (t : TId) (tg : Target) : Prop :=
  (TodoHas H pc t tg.inc ∧ tg.sendChan = [] ∧ tg.holding = none) ∨
  (TodoNot pc t ∧ ((tg.sendChan = [.wm s H] ∧ tg.holding = none) ∨
     (tg.sendChan = [] ∧ (∃ e, tg.holding = some e ∧ e.keepalive = false ∧ tg.nextProxyId ≤ e.high) ∧
        ∃ p, (p, s, H) ∈ tg.ring) ∨
     Done s H tg))

structure PhA (nt : Nat) (s : SId) (H : Int) (σ : State) : Prop where
  good : Good nt σ
  hs : (σ.src s).lastHigh = H
  act : (σ.src s).active = true
  pcs : ∀ s', s' ≠ s → (σ.src s').pc = .idle
  pcS : ∀ pend, (σ.src s).pc ≠ .deliver pend
  pcH : ∀ high todo, (σ.src s).pc = .bcast high todo → high = H ∧ ∀ p ∈ todo, p.1 < nt
  ach : ∀ s', (σ.src s').ackChan = []
  apc : ∀ t, (σ.tgt t).ackPc = .idle
  rep : ∀ t, (σ.tgt t).replayTodo = none
  wa : ∀ t, t < nt → WA s H (σ.src s).pc t (σ.tgt t)

theorem WA_pc_filter {s : SId} {H : Int} {todo : List (TId × Nat)} {t t' : TId} {tg : Target} (hne : t ≠ t')
    (h : WA s H (.bcast H todo) t tg) :
    WA s H (if (todo.filter (fun p => p.1 != t')).isEmpty then .idle else .bcast H (todo.filter (fun p => p.1 != t'))) t tg := by
  rcases h with ⟨⟨todo0, h0, hget⟩, h2⟩ | ⟨hnot, h2⟩
  · left
    cases h0
    refine ⟨⟨todo.filter (fun p => p.1 != t'), ?_, ?_⟩, h2⟩
    · have hg : aget (todo.filter (fun p => p.1 != t')) t = some tg.inc := by
        rw [aget_filter_ne _ hne]; exact hget
      rw [if_neg]
      intro he
      have : todo.filter (fun p => p.1 != t') = [] := by simpa using he
      rw [this] at hg; cases hg
    · rw [aget_filter_ne _ hne]; exact hget
  · right
    refine ⟨?_, h2⟩
    intro high' todo' hpc
    split at hpc
    · cases hpc
    · cases hpc
      rw [aget_filter_ne _ hne]; exact hnot _ _ rfl

theorem TodoNot_filter (H : Int) (todo : List (TId × Nat)) (t' : TId) :
    TodoNot (if (todo.filter (fun p => p.1 != t')).isEmpty then .idle else .bcast H (todo.filter (fun p => p.1 != t'))) t' := by
  intro high' todo' hpc
  split at hpc
  · cases hpc
  · cases hpc
    exact aget_filter_self _ _

theorem PhA.eager {nt : Nat} {s : SId} {H : Int} {σ σ' : State} {a : Act} (hA : PhA nt s H σ)
    (ha : a.isEager = true) (h : step Cfg.cur σ a = some σ') : PhA nt s H σ' := by
  have hG' := hA.good.eager ha h
  have hlen := hA.good.inv2.j.len
  have hslt := lt_of_active hA.act
  cases a with
  | bcastStep s' t' =>
    simp only [step] at h
    split at h
    · rename_i high todo hpc
      have hs' : s' = s := by
        apply Classical.byContradiction
        intro hne
        have := hA.pcs s' hne
        rw [this] at hpc; cases hpc
      subst hs'
      obtain ⟨hH, htodolt⟩ := hA.pcH _ _ hpc
      have hH' : H = high := hH.symm
      subst hH'
      split at h
      · cases h
      · rename_i inc hinc
        have ht'lt : t' < nt := htodolt _ (aget_mem hinc)
        have hwa' := hA.wa t' ht'lt
        rw [hpc] at hwa'
        have hcond : ((σ.tgt t').registered && (σ.tgt t').inc == inc && hasRoom Cfg.cur (σ.tgt t').sendChan) = true := by
          rcases hwa' with ⟨⟨todo0, h0, hget⟩, hch, _⟩ | ⟨hnot, _⟩
          · cases h0
            rw [hinc] at hget
            cases hget
            rw [hA.good.registered ht'lt, hch]
            simp [hasRoom, Cfg.cur]
          · rw [hnot _ _ rfl] at hinc; cases hinc
        rw [if_pos hcond] at h
        cases h
        have hch' : (σ.tgt t').sendChan = [] ∧ (σ.tgt t').holding = none := by
          rcases hwa' with ⟨_, hch, hh⟩ | ⟨hnot, _⟩
          · exact ⟨hch, hh⟩
          · rw [hnot _ _ rfl] at hinc; cases hinc
        refine ⟨hG', ?_, ?_, ?_, ?_, ?_, ?_, ?_, ?_, ?_⟩
        · rw [src_setTgt, src_setSrc_self _ hslt]; exact hA.hs
        · rw [src_setTgt, src_setSrc_self _ hslt]; exact hA.act
        · intro s0 hne; rw [src_setTgt, src_setSrc_ne _ hne]; exact hA.pcs s0 hne
        · intro pend
          rw [src_setTgt, src_setSrc_self _ hslt]
          show (if _ then RecvPc.idle else _) ≠ _
          split <;> exact fun e => by cases e
        · intro high' todo' hpc'
          rw [src_setTgt, src_setSrc_self _ hslt] at hpc'
          simp only at hpc'
          split at hpc'
          · cases hpc'
          · cases hpc'
            exact ⟨rfl, fun p hp => htodolt p (List.mem_filter.1 hp).1⟩
        · intro s0; rw [src_setTgt]; exact (src_proj_setSrc Source.ackChan (by rfl) s0).trans (hA.ach s0)
        · intro t0; rw [tgt_proj_setTgt Target.ackPc (by rfl) t0, tgt_setSrc]; exact hA.apc t0
        · intro t0; rw [tgt_proj_setTgt Target.replayTodo (by rfl) t0, tgt_setSrc]; exact hA.rep t0
        · intro t0 ht0
          rw [src_setTgt, src_setSrc_self _ hslt]
          by_cases hne : t0 = t'
          · subst hne
            rw [tgt_setTgt_self _ (by rw [targets_length_setSrc, hlen]; exact ht0)]
            right
            refine ⟨TodoNot_filter H todo t0, Or.inl ⟨?_, hch'.2⟩⟩
            simp only [hch'.1, List.nil_append]
          · rw [tgt_setTgt_ne _ hne, tgt_setSrc]
            have := hA.wa t0 ht0
            rw [hpc] at this
            exact WA_pc_filter hne this
    · cases h
  | deliver s' t' =>
    exfalso
    simp only [step] at h
    split at h
    · rename_i pend hpc
      by_cases hne : s' = s
      · subst hne; exact hA.pcS _ hpc
      · rw [hA.pcs s' hne] at hpc; cases hpc
    · cases h
  | take t' =>
    simp only [step] at h
    split at h
    · cases h
    · split at h
      · cases h
      · rename_i m rest hch
        cases h
        have ht'lt : t' < nt := by
          rw [← hlen]; apply Nat.lt_of_not_le; intro hge
          rw [tgt_of_ge σ t' hge] at hch; cases hch
        have hwa' := hA.wa t' ht'lt
        have hm : m = .wm s H ∧ rest = [] ∧ TodoNot (σ.src s).pc t' ∧ (σ.tgt t').holding = none := by
          rcases hwa' with ⟨_, hch', _⟩ | ⟨hnot, ⟨hch', hh⟩ | ⟨hch', _⟩ | ⟨hch', _⟩⟩
          · rw [hch'] at hch; cases hch
          · rw [hch'] at hch; cases hch; exact ⟨rfl, rfl, hnot, hh⟩
          · rw [hch'] at hch; cases hch
          · rw [hch'] at hch; cases hch
        obtain ⟨rfl, rfl, hnot, hh⟩ := hm
        refine ⟨hG', hA.hs, hA.act, hA.pcs, hA.pcS, hA.pcH, hA.ach, ?_, ?_, ?_⟩
        · intro t0; rw [tgt_proj_setTgt Target.ackPc (by rfl) t0]; exact hA.apc t0
        · intro t0; rw [tgt_proj_setTgt Target.replayTodo (by rfl) t0]; exact hA.rep t0
        · intro t0 ht0
          rw [src_setTgt]
          by_cases hne : t0 = t'
          · subst hne
            rw [tgt_setTgt_self _ (by rw [hlen]; exact ht0)]
            right
            refine ⟨hnot, Or.inr (Or.inl ⟨rfl, ⟨_, rfl, rfl, Int.le_refl _⟩, (σ.tgt t0).nextProxyId + 1, ?_⟩)⟩
            simp [process]
          · rw [tgt_setTgt_ne _ hne]; exact hA.wa t0 ht0
  | emit t' =>
    simp only [step] at h
    split at h
    · cases h
    · rename_i e he
      cases h
      have ht'lt : t' < nt := by
        rw [← hlen]; apply Nat.lt_of_not_le; intro hge
        rw [tgt_of_ge σ t' hge] at he; cases he
      have hwa' := hA.wa t' ht'lt
      refine ⟨hG', hA.hs, hA.act, hA.pcs, hA.pcS, hA.pcH, hA.ach, ?_, ?_, ?_⟩
      · intro t0; rw [tgt_proj_setTgt Target.ackPc (by rfl) t0]; exact hA.apc t0
      · intro t0; rw [tgt_proj_setTgt Target.replayTodo (by rfl) t0]; exact hA.rep t0
      · intro t0 ht0
        rw [src_setTgt]
        by_cases hne : t0 = t'
        · subst hne
          rw [tgt_setTgt_self _ (by rw [hlen]; exact ht0)]
          rcases hwa' with ⟨_, _, hh⟩ | ⟨hnot, ⟨_, hh⟩ | ⟨hch', ⟨e', he', hka, hle⟩, hring⟩ | ⟨_, hh, _⟩⟩
          · rw [hh] at he; cases he
          · rw [hh] at he; cases he
          · rw [he'] at he; cases he
            right
            refine ⟨hnot, Or.inr (Or.inr ⟨hch', rfl, ⟨e, ?_, hle⟩, hring⟩)⟩
            show (((σ.tgt t0).emitted ++ [e]).filter (fun e => !e.keepalive)).getLast? = some e
            rw [List.filter_append]
            simp [hka]
          · rw [hh] at he; cases he
        · rw [tgt_setTgt_ne _ hne]; exact hA.wa t0 ht0
  | ackFwd t' s' =>
    exfalso
    simp only [step, hA.apc t'] at h
    cases h
  | ackFin t' =>
    exfalso
    simp only [step, hA.apc t'] at h
    cases h
  | rack s' =>
    exfalso
    simp only [step, hA.ach s'] at h
    split at h <;> cases h
  | replayStep t' s' =>
    exfalso
    simp only [step, hA.rep t'] at h
    cases h
  | replayDone t' =>
    exfalso
    simp only [step, hA.rep t'] at h
    cases h
  | _ => cases ha

theorem PhA.enter {nt : Nat} {s : SId} {H : Int} {σ : State} (hK : Keep nt s H σ) (hI : Idle σ)
    (hnt : 0 < nt) (h1 : 1 ≤ H) :
    ∃ σa, step Cfg.cur σ (.recv s [] H) = some σa ∧ PhA nt s H σa := by
  have hlen := hK.good.inv2.j.len
  have hslt := lt_of_active hK.act
  have hpc := (hI.srcs s).1
  cases hs : step Cfg.cur σ (.recv s [] H) with
  | none =>
    exfalso
    simp [step, hK.act, hpc] at hs
  | some σa =>
    refine ⟨σa, rfl, ?_⟩
    have hG : Good nt σa := hK.good.next hs rfl rfl (by
      intro s' tasks high e
      cases e
      exact ⟨trivial, by simp, h1, hK.le⟩)
    simp only [step] at hs
    split at hs
    · cases hs
    · simp only [List.isEmpty_nil, if_true] at hs
      have hget : ∀ t, t < nt → aget (((List.range σ.targets.length).filter (fun t => (σ.tgt t).registered)).map
          (fun t => (t, (σ.tgt t).inc))) t = some (σ.tgt t).inc := by
        intro t ht
        exact aget_snapshot (fun t => (σ.tgt t).inc) (fun t => (σ.tgt t).registered) _ t
          (by rw [List.mem_range, hlen]; exact ht) (hK.good.registered ht)
      have hne : ¬ (((List.range σ.targets.length).filter (fun t => (σ.tgt t).registered)).map
          (fun t => (t, (σ.tgt t).inc))).isEmpty = true := by
        intro he
        have h0 := hget 0 hnt
        have : ((List.range σ.targets.length).filter (fun t => (σ.tgt t).registered)).map
          (fun t => (t, (σ.tgt t).inc)) = [] := by simpa using he
        rw [this] at h0; cases h0
      rw [if_neg hne] at hs
      cases hs
      refine ⟨hG, ?_, ?_, ?_, ?_, ?_, ?_, ?_, ?_, ?_⟩
      · rw [src_setSrc_self _ hslt]
      · rw [src_setSrc_self _ hslt]; exact hK.act
      · intro s0 hne0; rw [src_setSrc_ne _ hne0]; exact (hI.srcs s0).1
      · intro pend; rw [src_setSrc_self _ hslt]; exact fun e => by cases e
      · intro high todo hpc'
        rw [src_setSrc_self _ hslt] at hpc'
        cases hpc'
        refine ⟨rfl, ?_⟩
        intro p hp
        simp only [List.mem_map, List.mem_filter, List.mem_range] at hp
        obtain ⟨t, ⟨ht, _⟩, rfl⟩ := hp
        rw [← hlen]; exact ht
      · intro s0; exact (src_proj_setSrc Source.ackChan (by rfl) s0).trans (hI.srcs s0).2
      · intro t0; rw [tgt_setSrc]; exact (hI.tgts t0).2.2.1
      · intro t0; rw [tgt_setSrc]; exact (hI.tgts t0).2.2.2
      · intro t0 ht0
        rw [src_setSrc_self _ hslt, tgt_setSrc]
        exact Or.inl ⟨⟨_, rfl, hget t0 ht0⟩, (hI.tgts t0).1, (hI.tgts t0).2.1⟩

theorem PhA.done {nt : Nat} {s : SId} {H : Int} {σ : State} (hA : PhA nt s H σ) (hI : Idle σ) :
    ∀ t, t < nt → Done s H (σ.tgt t) := by
  intro t ht
  rcases hA.wa t ht with ⟨⟨todo, hpc, _⟩, _⟩ | ⟨_, ⟨hch, _⟩ | ⟨_, ⟨e, he, _⟩, _⟩ | hd⟩
  · rw [(hI.srcs s).1] at hpc; cases hpc
  · rw [(hI.tgts t).1] at hch; cases hch
  · rw [(hI.tgts t).2.1] at he; cases he
  · exact hd

theorem PhA.settled {nt : Nat} {s : SId} {H : Int} {σ : State} (hA : PhA nt s H σ) :
    PhA nt s H (settleQ Cfg.cur σ) ∧ Idle (settleQ Cfg.cur σ) := by
  have h := settleQ_ind (c := Cfg.cur) (PhA nt s H) (fun σ a σ' hP ha hs => hP.eager ha hs) hA
  exact ⟨h, idle_of_quiescent h.good (settleQ_quiescent _ _)⟩

end S2S.Routing
