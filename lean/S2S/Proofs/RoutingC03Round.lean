import S2S.Proofs.RoutingC03Quiet
/-! Preservation of `Good` along rounds; the first round leaves an idle state. -/
namespace S2S.Routing

theorem Good.next {nt : Nat} {σ σ' : State} {a : Act} (hG : Good nt σ) (h : step Cfg.cur σ a = some σ')
    (hf : a.isFault = false) (hk : a.keepsStarted = true)
    (hr : ∀ s tasks high, a = .recv s tasks high → RecvOK σ.targets.length (σ.src s) tasks high) :
    Good nt σ' :=
  ⟨step_Inv2 hG.inv2 h hf hr, fun t ht => step_started hk h t (hG.started t ht)⟩

theorem eager_flags {a : Act} (h : a.isEager = true) :
    a.isFault = false ∧ a.keepsStarted = true ∧ a.keepsHigh = true ∧ (∀ s tasks high, a ≠ .recv s tasks high) := by
  cases a <;> first | (cases h; done) | exact ⟨rfl, rfl, rfl, fun _ _ _ e => by cases e⟩

theorem Good.eager {nt : Nat} {σ σ' : State} {a : Act} (hG : Good nt σ) (ha : a.isEager = true)
    (h : step Cfg.cur σ a = some σ') : Good nt σ' := by
  obtain ⟨h1, h2, _, h4⟩ := eager_flags ha
  exact hG.next h h1 h2 (fun s tasks high e => absurd e (h4 s tasks high))

theorem Good.afterTack {nt : Nat} {σ σ' : State} {t : TId} {w : Int} (hG : Good nt σ)
    (h : step Cfg.cur σ (.tack t w) = some σ') : Good nt σ' :=
  hG.next (a := Act.tack t w) h rfl rfl (fun s tasks high e => by cases e)

/-- what every action of a round keeps for the distinguished source `s` -/
structure Keep (nt : Nat) (s : SId) (H : Int) (σ : State) : Prop where
  good : Good nt σ
  act : (σ.src s).active = true
  le : (σ.src s).lastHigh ≤ H

theorem Keep.eager {nt : Nat} {s : SId} {H : Int} {σ σ' : State} {a : Act} (hK : Keep nt s H σ)
    (ha : a.isEager = true) (h : step Cfg.cur σ a = some σ') : Keep nt s H σ' := by
  obtain ⟨_, _, h3, _⟩ := eager_flags ha
  have := step_src_frame h3 h s
  exact ⟨hK.good.eager ha h, by rw [this.2]; exact hK.act, by rw [this.1]; exact hK.le⟩

theorem Keep.afterTack {nt : Nat} {s : SId} {H : Int} {σ σ' : State} {t : TId} {w : Int} (hK : Keep nt s H σ)
    (h : step Cfg.cur σ (.tack t w) = some σ') : Keep nt s H σ' := by
  have := step_src_frame (a := .tack t w) rfl h s
  exact ⟨hK.good.afterTack h, by rw [this.2]; exact hK.act, by rw [this.1]; exact hK.le⟩

theorem Keep.settled {nt : Nat} {s : SId} {H : Int} {σ : State} (hK : Keep nt s H σ) :
    Keep nt s H (settleQ Cfg.cur σ) ∧ Idle (settleQ Cfg.cur σ) := by
  have h := settleQ_ind (c := Cfg.cur) (Keep nt s H) (fun σ a σ' hP ha hs => hP.eager ha hs) hK
  exact ⟨h, idle_of_quiescent h.good (settleQ_quiescent _ _)⟩

theorem Keep.ackStepped {nt : Nat} {s : SId} {H : Int} {σ : State} (hK : Keep nt s H σ) (hI : Idle σ) (t : TId) :
    Keep nt s H (ackStepQ Cfg.cur σ t) ∧ Idle (ackStepQ Cfg.cur σ t) := by
  unfold S2S.Routing.ackStepQ
  split
  · rename_i e _
    cases hs : step Cfg.cur σ (.tack t e.high) with
    | none => simp only [Option.getD_none]; exact hK.settled
    | some σ' => simp only [Option.getD_some]; exact (hK.afterTack hs).settled
  · exact ⟨hK, hI⟩

theorem Keep.folded {nt : Nat} {s : SId} {H : Int} (l : List TId) : ∀ {σ : State}, Keep nt s H σ → Idle σ →
    Keep nt s H (l.foldl (ackStepQ Cfg.cur) σ) ∧ Idle (l.foldl (ackStepQ Cfg.cur) σ) := by
  induction l with
  | nil => intro σ hK hI; exact ⟨hK, hI⟩
  | cons t r ih =>
    intro σ hK hI
    have := hK.ackStepped hI t
    exact ih this.1 this.2

theorem Keep.rounded {nt : Nat} {s : SId} {H : Int} {σ : State} (hK : Keep nt s H σ) (h1 : 1 ≤ H) :
    Keep nt s H (roundQ Cfg.cur s H σ) ∧ Idle (roundQ Cfg.cur s H σ) := by
  unfold S2S.Routing.roundQ ackEvQ
  have hK' : Keep nt s H ((step Cfg.cur σ (.recv s [] H)).getD σ) := by
    cases hs : step Cfg.cur σ (.recv s [] H) with
    | none => exact hK
    | some σ' =>
      simp only [Option.getD_some]
      have hG : Good nt σ' := hK.good.next hs rfl rfl (by
        intro s' tasks high e
        cases e
        exact ⟨trivial, by simp, h1, hK.le⟩)
      simp only [step] at hs
      split at hs
      · cases hs
      · rename_i hen
        simp at hen
        have hlen : s < σ.sources.length := by
          apply Nat.lt_of_not_le
          intro hge
          have := hK.act
          rw [src_of_ge σ s hge] at this
          cases this
        simp only [List.isEmpty_nil, if_true] at hs
        cases hs
        refine ⟨hG, ?_, ?_⟩
        · rw [src_setSrc, if_pos ⟨rfl, hlen⟩]; exact hK.act
        · rw [src_setSrc, if_pos ⟨rfl, hlen⟩]; exact Int.le_refl _
  have h2 := hK'.settled
  exact Keep.folded _ h2.1 h2.2

end S2S.Routing
