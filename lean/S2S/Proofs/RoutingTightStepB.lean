import S2S.Proofs.RoutingTightStepA
/-! Preservation of `InvT`: hand-off into the send channels (`bcastStep`, `deliver`, `replayStep`), the fault steps
    and the (re-)opens. -/
namespace S2S.Routing

theorem tgtS_push_wm {tg : Target} (h : TgtS tg) (s : SId) (hv : Int) (tg' : Target)
    (hc : tg'.sendChan = tg.sendChan ++ [.wm s hv]) : TgtS tg' := by
  intro s' ids hm
  rw [hc] at hm
  rcases List.mem_append.1 hm with hm | hm
  · exact h s' ids hm
  · simp only [List.mem_singleton] at hm; cases hm

theorem tgtS_push_tasks {tg : Target} (h : TgtS tg) (s : SId) (ids0 : List Int) (h0 : LastMax ids0) (tg' : Target)
    (hc : tg'.sendChan = tg.sendChan ++ [.tasks s ids0]) : TgtS tg' := by
  intro s' ids hm
  rw [hc] at hm
  rcases List.mem_append.1 hm with hm | hm
  · exact h s' ids hm
  · simp only [List.mem_singleton] at hm; cases hm; exact h0

/-- the source record changed only in fields `Lost` / `PairT` do not read -/
theorem PairT.src_pc {γ : GhostT} {s : SId} {t : TId} {x x' : Source} {tg tg' : Target}
    (h : PairT (Lost γ s t x) s t x tg)
    (hr : x'.received = x.received) (ha : x'.active = x.active)
    (h1 : tg'.ring = tg.ring) (h2 : tg'.ackPc = tg.ackPc) (h3 : tg'.prevAck = tg.prevAck)
    (h4 : tg'.confirmed = tg.confirmed) (h5 : x'.ackChan = x.ackChan) (h6 : x'.ackByTarget = x.ackByTarget)
    (h7 : x'.lastSentAck = x.lastSentAck) : PairT (Lost γ s t x') s t x' tg' :=
  (h.congr h1 h2 h3 h4 h5 h6 h7).mono (fun _ hl => lost_rack hr ha hl)

/-! bcastStep -/

theorem step_invT_bcastStep {σ σ' : State} {γ : GhostT} (hI : InvT σ γ) (s : SId) (t : TId)
    (h : step Cfg.cur σ (.bcastStep s t) = some σ') (hF' : InvF σ' γ.g) : InvT σ' γ := by
  simp only [step] at h
  split at h
  · rename_i high todo hpc
    split at h
    · cases h
    · rename_i inc hinc
      have hne : σ.src s ≠ {} := by intro e; rw [e] at hpc; cases hpc
      have hsl := src_lt_of_ne σ hne
      have hS' : ∀ x' : Source, x'.pc = (if (todo.filter (fun p => p.1 != t)).isEmpty = true then RecvPc.idle else RecvPc.bcast high (todo.filter (fun p => p.1 != t))) → SrcS x' := by
        intro x' hx' pending e
        rw [hx'] at e
        split at e <;> cases e
      split at h
      · rename_i hg
        simp only [Bool.and_eq_true, beq_iff_eq] at hg
        simp only [Option.some.injEq] at h
        subst h
        apply invT_setBoth hI s t _ _ hF' hsl (tgt_registered_lt σ hg.1.1) (hS' _ rfl)
        · exact tgtS_push_wm (hI.tgtS t) s high _ rfl
        · exact (hI.pair s t).src_pc rfl rfl rfl rfl rfl rfl rfl rfl rfl
        · intro t' _; exact (hI.pair s t').src_pc rfl rfl rfl rfl rfl rfl rfl rfl rfl
        · intro s' _; exact (hI.pair s' t).congr rfl rfl rfl rfl rfl rfl rfl
      · simp only [Option.some.injEq] at h
        subst h
        refine invT_setSrc hI γ s _ hF' (hS' _ rfl) (fun _ _ _ _ hl => hl) ?_
        intro t'; exact (hI.pair s t').src_pc rfl rfl rfl rfl rfl rfl rfl rfl rfl
  · cases h

/-! deliver -/

theorem step_invT_deliver {σ σ' : State} {γ : GhostT} (hI : InvT σ γ) (s : SId) (t : TId)
    (h : step Cfg.cur σ (.deliver s t) = some σ') (hF' : InvF σ' γ.g) : InvT σ' γ := by
  simp only [step] at h
  split at h
  · rename_i pending hpc
    split at h
    · cases h
    · rename_i ids hids
      split at h
      · cases h
      · rename_i hg
        simp only [Bool.not_eq_true', Bool.and_eq_false_iff, not_or, Bool.not_eq_false] at hg
        simp only [Option.some.injEq] at h
        subst h
        have hne : σ.src s ≠ {} := by intro e; rw [e] at hpc; cases hpc
        have hsl := src_lt_of_ne σ hne
        apply invT_setBoth hI s t _ _ hF' hsl (tgt_registered_lt σ hg.1)
        · intro pending' e t' ids' hag
          have e : (if (pending.filter (fun p => p.1 != t)).isEmpty = true then RecvPc.idle
            else RecvPc.deliver (pending.filter (fun p => p.1 != t))) = RecvPc.deliver pending' := e
          split at e
          · cases e
          · cases e
            rw [aget_filter_ne] at hag
            split at hag
            · cases hag
            · exact hI.srcS s pending hpc t' ids' hag
        · exact tgtS_push_tasks (hI.tgtS t) s ids (hI.srcS s pending hpc t ids hids) _ rfl
        · exact (hI.pair s t).src_pc rfl rfl rfl rfl rfl rfl rfl rfl rfl
        · intro t' _; exact (hI.pair s t').src_pc rfl rfl rfl rfl rfl rfl rfl rfl rfl
        · intro s' _; exact (hI.pair s' t).congr rfl rfl rfl rfl rfl rfl rfl
  · cases h

/-! replayStep -/

theorem step_invT_replayStep {σ σ' : State} {γ : GhostT} (hI : InvT σ γ) (t : TId) (s : SId)
    (h : step Cfg.cur σ (.replayStep t s) = some σ') (hF' : InvF σ' γ.g) : InvT σ' γ := by
  simp only [step] at h
  split at h
  · cases h
  · split at h
    · cases h
    · split at h
      · rename_i wm hwm
        split at h
        · simp only [Option.some.injEq] at h
          subst h
          exact invT_setTgt hI γ t _ hF' (tgtS_push_wm (hI.tgtS t) s wm _ rfl) (fun _ _ _ _ hl => hl)
            (fun s' => (hI.pair s' t).congr rfl rfl rfl rfl rfl rfl rfl)
        · simp only [Option.some.injEq] at h
          subst h
          exact invT_setTgt hI γ t _ hF' (hI.tgtS t) (fun _ _ _ _ hl => hl)
            (fun s' => (hI.pair s' t).congr rfl rfl rfl rfl rfl rfl rfl)
      · simp only [Option.some.injEq] at h
        subst h
        exact invT_setTgt hI γ t _ hF' (hI.tgtS t) (fun _ _ _ _ hl => hl)
          (fun s' => (hI.pair s' t).congr rfl rfl rfl rfl rfl rfl rfl)

/-! breakSrc / openSrc : nothing of the stream is lost-and-unpassed any more (everything is excused by (b)) -/

theorem step_invT_breakSrc {σ σ' : State} {γ : GhostT} (hI : InvT σ γ) (s : SId)
    (h : step Cfg.cur σ (.breakSrc s) = some σ') (hF' : InvF σ' γ.g) : InvT σ' γ := by
  simp only [step] at h
  split at h
  · cases h
  · simp only [Option.some.injEq] at h
    subst h
    refine invT_setSrc hI γ s _ hF' ?_ (fun _ _ _ _ hl => hl) ?_
    · intro pending e; cases e
    · intro t; exact pairT_empty (lost_inactive rfl) s t _ _

theorem step_invT_openSrc {σ σ' : State} {γ : GhostT} (hI : InvT σ γ) (s : SId)
    (h : step Cfg.cur σ (.openSrc s) = some σ')
    (hF' : InvF σ' (γ.g.upd σ (.openSrc s))) :
    InvT σ' { g := γ.g.upd σ (.openSrc s), passed := γ.passed } := by
  simp only [step] at h
  split at h
  · cases h
  · rename_i hg
    simp only [Option.some.injEq] at h
    subst h
    simp only [Bool.or_eq_true, not_or, Bool.not_eq_true, decide_eq_true_eq, Nat.not_le] at hg
    refine invT_setSrc hI _ s _ hF' ?_ ?_ ?_
    · intro pending e; cases e
    · intro s' t hs' id hl
      rcases hs' with e | e
      · refine hl.of_eq rfl ?_ rfl (fun _ ha => ha)
        unfold ebase
        simp only [Ghost.upd, Ghost.baseOf, getD_aget_aset, e, if_false]
      · exact absurd hg.2 e
    · intro t
      refine pairT_empty (lost_base_full ?_) s t _ _
      simp only [ebase, Ghost.upd, Ghost.baseOf, getD_aget_aset, if_true]

/-! breakTgt : the newly lost tasks were needed tasks, for which `InvF` holds the same clauses -/

theorem step_invT_breakTgt {σ σ' : State} {γ : GhostT} (hI : InvT σ γ) (t : TId)
    (h : step Cfg.cur σ (.breakTgt t) = some σ')
    (hF' : InvF σ' (γ.g.upd σ (.breakTgt t))) :
    InvT σ' { g := γ.g.upd σ (.breakTgt t), passed := γ.passed } := by
  simp only [step] at h
  split at h
  · cases h
  · rename_i hg
    simp only [Bool.not_eq_true', Bool.not_eq_false] at hg
    simp only [Option.some.injEq] at h
    subst h
    have htl := tgt_registered_lt σ hg
    refine invT_setTgt hI _ t _ hF' ?_ ?_ ?_
    · intro s ids e; cases e
    · intro s t' ht' id hl
      rcases ht' with e | e
      · refine hl.of_eq rfl rfl ?_ (fun _ ha => ha)
        simp only [Ghost.upd, Ghost.lostOf, getD_aget_aset, e, if_false]
      · exact absurd htl e
    · intro s
      have hp := hI.pair s t
      have hf := hI.f.pair s t
      have hl : (γ.g.upd σ (.breakTgt t)).lostOf t = γ.g.lostOf t ++ tasksOf (σ.tgt t).handed := by
        simp only [Ghost.upd, Ghost.lostOf, getD_aget_aset, if_true]
      have hsplit : ∀ id, Lost { g := γ.g.upd σ (.breakTgt t), passed := γ.passed } s t (σ.src s) id →
          Lost γ s t (σ.src s) id ∨ Need γ.g s t (σ.src s) id := by
        intro id hn
        unfold Lost at hn
        by_cases hc : (s, id) ∈ γ.g.lostOf t
        · left; exact ⟨hn.1, hn.2.1, hc, hn.2.2.2⟩
        · right; exact ⟨hn.1, hn.2.1, hc⟩
      have hs : ∀ v, SafeN (Lost γ s t (σ.src s)) s (σ.tgt t) v → SafeN (Need γ.g s t (σ.src s)) s (σ.tgt t) v →
          SafeN (Lost { g := γ.g.upd σ (.breakTgt t), passed := γ.passed } s t (σ.src s)) s
            { inc := (σ.tgt t).inc, emitted := (σ.tgt t).emitted, confirmed := (σ.tgt t).confirmed } v := by
        intro v h1 h2 id hn hlt
        rcases hsplit id hn with hn | hn
        · exact h1 id hn hlt
        · exact h2 id hn hlt
      refine ⟨?_, ?_, ?_, ?_, ?_, ?_, ?_⟩
      · intro p o hm; cases hm
      · intro todo d r e; cases e
      · intro v hv; cases hv
      · intro v hv; exact hs v (hp.chan_safe v hv) (hf.chan_safe v hv).1
      · intro v hv; exact hs v (hp.abt_safe v hv) (hf.abt_safe v hv).1
      · intro a ha; exact hs a (hp.last_safe a ha) (hf.last_safe a ha)
      · intro id hn
        rcases hsplit id hn with hn | hn
        · exact hp.seeded id hn
        · exact hf.seeded id hn

/-! openTgt : the new incarnation holds nothing -/

theorem step_invT_openTgt {σ σ' : State} {γ : GhostT} (hI : InvT σ γ) (t : TId)
    (h : step Cfg.cur σ (.openTgt t) = some σ') (hF' : InvF σ' γ.g) : InvT σ' γ := by
  simp only [step] at h
  split at h
  · cases h
  · simp only [Option.some.injEq] at h
    subst h
    refine invT_setTgt hI γ t _ hF' ?_ (fun _ _ _ _ hl => hl) ?_
    · intro s ids e; cases e
    · intro s
      have hp := hI.pair s t
      refine ⟨?_, ?_, ?_, ?_, ?_, ?_, hp.seeded⟩
      · intro p o hm; cases hm
      · intro todo d r e; cases e
      · intro v hv; cases hv
      · intro v hv; exact hp.chan_safe v hv
      · intro v hv; exact hp.abt_safe v hv
      · intro a ha; exact hp.last_safe a ha

end S2S.Routing
