import S2S.Proofs.Utf8Valid
/-! `repairInvalidUTF8InFailure` (chain repair) and the codec's decision logic. Core Lean only. -/
namespace S2S.Utf8

theorem toValidUtf8_of_valid {s : Bytes} (h : validUtf8 s = true) : toValidUtf8 s = s := tv_of_valid s false h

theorem validUtf8_toValidUtf8 (s : Bytes) : validUtf8 (toValidUtf8 s) = true := tv_valid s false

/-- closed form of the repair loop: the first `budget` messages are sanitised, the rest untouched -/
theorem repairLoop_eq : ∀ (budget : Nat) (chain : List Bytes),
    repairLoop budget chain =
      ((chain.take budget).any (fun m => !validUtf8 m),
       (chain.take budget).map toValidUtf8 ++ chain.drop budget,
       decide (budget < chain.length)) := by
  intro budget
  induction budget with
  | zero =>
    intro chain
    cases chain <;> simp [repairLoop]
  | succ n ih =>
    intro chain
    cases chain with
    | nil => simp [repairLoop]
    | cons m rest =>
      simp only [repairLoop, ih rest]
      by_cases hv : validUtf8 m = true
      · simp [hv, toValidUtf8_of_valid hv]
      · simp [hv]

theorem repairFull_eq (chain : List Bytes) (bound : Nat) :
    repairFailureChainFull chain bound =
      { changed := (chain.take bound).any (fun m => !validUtf8 m),
        chain := (chain.take bound).map toValidUtf8 ++ chain.drop bound,
        err := if bound < chain.length then some .maxDepth else none } := by
  simp [repairFailureChainFull, repairLoop_eq]

theorem repair_ok_of_le (chain : List Bytes) (bound : Nat) (h : chain.length ≤ bound) :
    repairFailureChain chain bound = .ok (chain.any (fun m => !validUtf8 m), chain.map toValidUtf8) := by
  have h1 : ¬ bound < chain.length := by omega
  simp [repairFailureChain, repairFull_eq, h1, List.take_of_length_le h, List.drop_of_length_le h]

theorem repair_err_of_gt (chain : List Bytes) (bound : Nat) (h : bound < chain.length) :
    repairFailureChain chain bound = .error .maxDepth := by
  simp [repairFailureChain, repairFull_eq, h]

end S2S.Utf8
