import S2S.Proofs.TranslateValEq
/-! C13 (value level): nothing matched ⇒ nothing changed (exactly, including the re-encoded marks); no visited name
    in the mapping ⇒ nothing matched. -/
set_option linter.unusedSectionVars false
namespace S2S.TranslateVal
open S2S.Translate S2S.NameMap
variable {α : Type} [DecidableEq α] (g : Graph) (tb : Tables) (X : Ext α) (mt : α → α × Bool)

theorem nsStrStep_unmatched (ni : Bool) (f : FieldD) (s : α) (h : (nsStrStep g tb mt ni f s).2 = false) :
    (nsStrStep g tb mt ni f s).1 = s := by
  unfold nsStrStep at h ⊢
  by_cases h1 : (ni && f.go == g.nameField && f.goString) = true
  · simp only [h1, if_true, Bool.or_eq_false_iff] at h ⊢
    have e1 := app_fst_of_unmatched mt s h.1
    rw [e1] at h ⊢
    by_cases h2 : isNsLeafField tb f = true
    · simp only [h2, if_true] at h ⊢
      exact app_fst_of_unmatched mt s h.2
    · simp only [h2]; rfl
  · simp only [h1] at h ⊢
    by_cases h2 : isNsLeafField tb f = true
    · simp only [h2, if_true] at h ⊢
      exact app_fst_of_unmatched mt s h
    · simp only [h2]; rfl

theorem nsBlobStep_unmatched (re : Bool) (evs : List (Val α)) (h : (nsBlobStep g tb X mt re evs).2 = false) :
    (nsBlobStep g tb X mt re evs).1 = .blobEv re evs := by
  unfold nsBlobStep at h ⊢
  rcases blobResult_cases re evs (listSkippable g tb X evs) (visitNsItems g tb X mt .plain evs) with ⟨e, _⟩ | ⟨e, _⟩
  · rw [e]
  · rw [e] at h; cases h

theorem unmatched_unchanged :
    (∀ v : Val α, ∀ fc, (visitNs g tb X mt fc v).2 = false → (visitNs g tb X mt fc v).1 = v) ∧
    (∀ l : List (Val α),
      (∀ mode fds, (visitNsFields g tb X mt mode fds l).2 = false → (visitNsFields g tb X mt mode fds l).1 = l) ∧
      (∀ mode, (visitNsItems g tb X mt mode l).2 = false → (visitNsItems g tb X mt mode l).1 = l)) := by
  apply Val.ind2
  · intro s fc h
    cases fc with
    | none => rfl
    | some f =>
      rw [visitNs_str_some] at h ⊢
      rw [nsStrStep_unmatched g tb mt false f s h]
  · intro t fc _; rfl
  · intro t fc _; rfl
  · intro k fc _; rfl
  · intro ty fs ih fc h
    rw [visitNs_msg] at h ⊢
    simp only at h ⊢
    rw [ih.1 _ _ h]
  · intro l ih fc h
    rw [visitNs_list] at h ⊢
    simp only at h ⊢
    rw [ih.2 _ h]
  · intro l ih fc h
    rw [visitNs_map] at h ⊢
    simp only at h ⊢
    rw [ih.2 _ h]
  · intro k v ih fc h
    rw [visitNs_kv] at h ⊢
    simp only at h ⊢
    rw [ih none h]
  · intro e t fc _; rfl
  · intro re evs _ fc h
    rw [visitNs_blobEv] at h ⊢
    split at h
    · rename_i hb
      rw [if_pos hb]
      exact nsBlobStep_unmatched g tb X mt re evs h
    · rename_i hb
      rw [if_neg hb]
  · refine ⟨fun mode fds _ => ?_, fun mode _ => rfl⟩
    cases fds with
    | nil => rw [visitNsFields_nil]
    | cons f fds => rw [visitNsFields_nil']
  · intro v vs ihv ihk ihvs
    refine ⟨?_, ?_⟩
    · intro mode fds h
      cases fds with
      | nil => rw [visitNsFields_nil]
      | cons f fds =>
        rw [visitNsFields_cons] at h ⊢
        simp only [Bool.or_eq_false_iff] at h ⊢
        rw [ihvs.1 mode fds h.2]
        congr 1
        have h1 := h.1
        cases mode with
        | plain => exact ihv (some f) h1
        | nsInfo =>
          cases v with
          | str s =>
            rw [nsFieldStep_nsInfo_str] at h1 ⊢
            simp only at h1 ⊢
            rw [nsStrStep_unmatched g tb mt true f s h1]
          | _ => exact ihv (some f) h1
        | hist =>
          cases v with
          | list items =>
            rw [nsFieldStep_hist_list] at h1 ⊢
            split at h1
            · rename_i he
              rw [if_pos he]
              simp only at h1 ⊢
              have := ihk.2 .events h1
              simp only [Val.kids] at this
              rw [this]
            · rename_i he
              rw [if_neg he]
          | _ => rfl
    · intro mode h
      rw [visitNsItems_cons] at h ⊢
      simp only [Bool.or_eq_false_iff] at h ⊢
      rw [ihvs.2 mode h.2]
      congr 1
      have h1 := h.1
      cases mode with
      | plain => exact ihv none h1
      | events =>
        rw [nsItemStep_events] at h1 ⊢
        split at h1
        · rename_i he; rw [if_pos he]
        · rename_i he; rw [if_neg he]; exact ihv none h1
      | blobs =>
        cases v with
        | blobEv re evs => exact nsBlobStep_unmatched g tb X mt re evs h1
        | _ => exact ihv none h1


/-! names offered to the matcher -/
def namesFieldStep (mode : FMode) (f : FieldD) (v : Val α) : List α :=
  match mode with
  | .hist => (match v with
              | .list items => if f.go == X.eventsField then namesItems g tb X .events items else []
              | _ => [])
  | .nsInfo => (match v with
                | .str s => if nsLeafOf g tb true f then [s] else []
                | w => namesV g tb X (some f) w)
  | .plain => namesV g tb X (some f) v

def namesItemStep (mode : IMode) (v : Val α) : List α :=
  match mode with
  | .events => if evSkippable g tb X v then [] else namesV g tb X none v
  | .blobs => (match v with
               | .blobEv _ evs => if listSkippable g tb X evs then [] else namesItems g tb X .plain evs
               | w => namesV g tb X none w)
  | .plain => namesV g tb X none v

theorem namesFields_cons (mode : FMode) (f : FieldD) (fds : List FieldD) (v : Val α) (vs : List (Val α)) :
    namesFields g tb X mode (f :: fds) (v :: vs) = namesFieldStep g tb X mode f v ++ namesFields g tb X mode fds vs := by
  cases mode <;> cases v <;> rfl
theorem namesItems_cons (mode : IMode) (v : Val α) (vs : List (Val α)) :
    namesItems g tb X mode (v :: vs) = namesItemStep g tb X mode v ++ namesItems g tb X mode vs := by
  cases mode <;> cases v <;> rfl
theorem namesV_msg (fc : Option FieldD) (ty : Nat) (fs : List (Val α)) :
    namesV g tb X fc (.msg ty fs) = namesFields g tb X (nsMode g ty) (g.typeD ty).fields fs := rfl
theorem namesV_list (fc : Option FieldD) (l : List (Val α)) :
    namesV g tb X fc (.list l) = namesItems g tb X (if blobCtx tb fc then .blobs else .plain) l := rfl
theorem namesV_map (fc : Option FieldD) (l : List (Val α)) : namesV g tb X fc (.map l) = namesItems g tb X .plain l := rfl
theorem namesV_kv (fc : Option FieldD) (k : α) (v : Val α) : namesV g tb X fc (.kv k v) = namesV g tb X none v := rfl
theorem namesV_blobEv (fc : Option FieldD) (re : Bool) (evs : List (Val α)) :
    namesV g tb X fc (.blobEv re evs) =
      if blobCtx tb fc && !listSkippable g tb X evs then namesItems g tb X .plain evs else [] := rfl
theorem namesV_str_some (f : FieldD) (s : α) :
    namesV g tb X (some f) (.str s) = if isNsLeafField tb f then [s] else [] := rfl

theorem nsStrStep_of_names (ni : Bool) (f : FieldD) (s : α)
    (h : nsLeafOf g tb ni f = true → (app mt s).2 = false) : (nsStrStep g tb mt ni f s).2 = false := by
  unfold nsStrStep
  unfold nsLeafOf at h
  by_cases h1 : (ni && f.go == g.nameField && f.goString) = true
  · have hs := h (by simp [h1])
    have e1 := app_fst_of_unmatched mt s hs
    simp only [h1, if_true, e1, hs, Bool.false_or]
    by_cases h2 : isNsLeafField tb f = true
    · simp only [h2, if_true, hs]
    · simp only [h2]; rfl
  · by_cases h2 : isNsLeafField tb f = true
    · have hs := h (by simp [h2])
      simp [h1, h2, hs]
    · simp [h1, h2]

theorem nsBlobStep_of_items (re : Bool) (evs : List (Val α))
    (h : listSkippable g tb X evs = false → (visitNsItems g tb X mt .plain evs).2 = false) :
    (nsBlobStep g tb X mt re evs).2 = false := by
  unfold nsBlobStep
  rcases blobResult_cases re evs (listSkippable g tb X evs) (visitNsItems g tb X mt .plain evs) with ⟨e, _⟩ | ⟨e, h1, h2⟩
  · rw [e]
  · rw [h h1] at h2; cases h2

theorem names_unmatched :
    (∀ v : Val α, ∀ fc, (∀ s ∈ namesV g tb X fc v, (app mt s).2 = false) → (visitNs g tb X mt fc v).2 = false) ∧
    (∀ l : List (Val α),
      (∀ mode fds, (∀ s ∈ namesFields g tb X mode fds l, (app mt s).2 = false) → (visitNsFields g tb X mt mode fds l).2 = false) ∧
      (∀ mode, (∀ s ∈ namesItems g tb X mode l, (app mt s).2 = false) → (visitNsItems g tb X mt mode l).2 = false)) := by
  apply Val.ind2
  · intro s fc h
    cases fc with
    | none => rfl
    | some f =>
      rw [visitNs_str_some]
      show (nsStrStep g tb mt false f s).2 = false
      apply nsStrStep_of_names
      intro hl
      apply h
      rw [namesV_str_some]
      unfold nsLeafOf at hl
      simp only [Bool.false_and, Bool.false_or] at hl
      simp [hl]
  · intro t fc _; rfl
  · intro t fc _; rfl
  · intro k fc _; rfl
  · intro ty fs ih fc h
    rw [visitNs_msg]
    exact ih.1 _ _ h
  · intro l ih fc h
    rw [visitNs_list]
    exact ih.2 _ h
  · intro l ih fc h
    rw [visitNs_map]
    exact ih.2 _ h
  · intro k v ih fc h
    rw [visitNs_kv]
    exact ih none h
  · intro e t fc _; rfl
  · intro re evs ih fc h
    rw [visitNs_blobEv]
    split
    · rename_i hb
      apply nsBlobStep_of_items
      intro hs
      apply ih.2
      rw [namesV_blobEv, hb, hs] at h
      exact h
    · rfl
  · refine ⟨fun mode fds _ => ?_, fun mode _ => rfl⟩
    cases fds with
    | nil => rw [visitNsFields_nil]
    | cons f fds => rw [visitNsFields_nil']
  · intro v vs ihv ihk ihvs
    refine ⟨?_, ?_⟩
    · intro mode fds h
      cases fds with
      | nil => rw [visitNsFields_nil]
      | cons f fds =>
        rw [visitNsFields_cons]
        rw [namesFields_cons] at h
        simp only [Bool.or_eq_false_iff]
        refine ⟨?_, ihvs.1 mode fds (fun s hs => h s (List.mem_append_right _ hs))⟩
        have h1 : ∀ s ∈ namesFieldStep g tb X mode f v, (app mt s).2 = false := fun s hs => h s (List.mem_append_left _ hs)
        cases mode with
        | plain => exact ihv (some f) h1
        | nsInfo =>
          cases v with
          | str s =>
            rw [nsFieldStep_nsInfo_str]
            show (nsStrStep g tb mt true f s).2 = false
            apply nsStrStep_of_names
            intro hl
            apply h1
            show s ∈ (if nsLeafOf g tb true f then [s] else [])
            simp [hl]
          | _ => exact ihv (some f) h1
        | hist =>
          cases v with
          | list items =>
            rw [nsFieldStep_hist_list]
            split
            · rename_i he
              apply ihk.2 .events
              intro s hs
              apply h1
              show s ∈ (if f.go == X.eventsField then namesItems g tb X .events items else [])
              rw [if_pos he]; exact hs
            · rfl
          | _ => rfl
    · intro mode h
      rw [visitNsItems_cons]
      rw [namesItems_cons] at h
      simp only [Bool.or_eq_false_iff]
      refine ⟨?_, ihvs.2 mode (fun s hs => h s (List.mem_append_right _ hs))⟩
      have h1 : ∀ s ∈ namesItemStep g tb X mode v, (app mt s).2 = false := fun s hs => h s (List.mem_append_left _ hs)
      cases mode with
      | plain => exact ihv none h1
      | events =>
        rw [nsItemStep_events]
        split
        · rfl
        · rename_i he
          apply ihv none
          intro s hs
          apply h1
          show s ∈ (if evSkippable g tb X v then [] else namesV g tb X none v)
          rw [if_neg he]; exact hs
      | blobs =>
        cases v with
        | blobEv re evs =>
          rw [nsItemStep_blobs_blobEv]
          apply nsBlobStep_of_items
          intro hs
          apply ihk.2 .plain
          intro s hs'
          apply h1
          show s ∈ (if listSkippable g tb X evs then [] else namesItems g tb X .plain evs)
          rw [hs]; exact hs'
        | _ => exact ihv none h1

/-- no visited name is matched ⇒ the visitor returns the object itself, unmatched -/
theorem visitNs_identity (v : Val α) (fc : Option FieldD) (h : ∀ s ∈ namesV g tb X fc v, (app mt s).2 = false) :
    visitNs g tb X mt fc v = (v, false) := by
  have h2 := (names_unmatched g tb X mt).1 v fc h
  have h1 := (unmatched_unchanged g tb X mt).1 v fc h2
  exact Prod.ext h1 h2

end S2S.TranslateVal
