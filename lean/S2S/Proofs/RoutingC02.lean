import S2S.Proofs.RoutingC02Step
namespace S2S.Routing

theorem getD_replicate_default {α} (n : Nat) (d : α) (i : Nat) : (List.replicate n d).getD i d = d := by
  simp only [List.getD_eq_getElem?_getD, List.getElem?_replicate]
  split <;> rfl

theorem srcInv_default : SrcInv {} := by
  constructor
  · intro _; exact ⟨rfl, rfl⟩
  · intro p hp; cases hp
  · exact List.Pairwise.nil

theorem tgtInv_default : TgtInv {} := by
  constructor
  · intro _; exact ⟨rfl, rfl, rfl, rfl, rfl⟩
  · intro e he; cases he
  · intro e he; cases he
  · trivial
  · show (0 : Int) ≤ 0; decide
  · show (0 : Int) ≤ 0 + 1; decide

theorem inv_init (ns nt : Nat) : Inv (State.init ns nt) := by
  have hs : ∀ s, (State.init ns nt).src s = {} := fun s => getD_replicate_default ns ({} : Source) s
  have ht : ∀ t, (State.init ns nt).tgt t = {} := fun t => getD_replicate_default nt ({} : Target) t
  constructor
  · intro s; rw [hs]; exact srcInv_default
  · intro t; rw [ht]; exact tgtInv_default
  · intro s t; rw [hs, ht]; rfl

def RecvPre (σ : State) : Act → Prop
  | .recv s tasks high => RecvOK σ.targets.length (σ.src s) tasks high
  | _ => True

theorem envOK_cons (σ : State) (a : Act) (rest : List Act) (h : EnvOK Cfg.cur σ (a :: rest)) :
    RecvPre σ a ∧ EnvOK Cfg.cur ((step Cfg.cur σ a).getD σ) rest := by
  cases a <;> exact h

theorem inv_step {σ σ' : State} {a : Act} (h : Inv σ)
    (hok : RecvPre σ a)
    (hnf : a.isFault = false) (hstep : step Cfg.cur σ a = some σ') : Inv σ' := by
  cases a with
  | recv s tasks high => exact inv_recv h hok hstep
  | bcastStep s t => exact inv_bcastStep h hstep
  | deliver s t => exact inv_deliver h hstep
  | take t => exact inv_take h hstep
  | emit t => exact inv_emit h hstep
  | tack t w => exact inv_tack h hstep
  | ackFwd t s => exact inv_ackFwd h hstep
  | ackFin t => exact inv_ackFin h hstep
  | rack s => exact inv_rack h hstep
  | openSrc s => exact inv_openSrc h hstep
  | openTgt t => exact inv_openTgt h hstep
  | startTgt t => exact inv_startTgt h hstep
  | replayStep t s => exact inv_replayStep h hstep
  | replayDone t => exact inv_replayDone h hstep
  | tick => exact inv_tick h hstep
  | breakTgt t => cases hnf
  | breakSrc s => cases hnf

theorem inv_run {σ : State} (acts : List Act) (h : Inv σ) (henv : EnvOK Cfg.cur σ acts)
    (hnf : NoFaults acts) : Inv (run Cfg.cur σ acts) := by
  induction acts generalizing σ with
  | nil => exact h
  | cons a rest ih =>
    have hrun : run Cfg.cur σ (a :: rest) = run Cfg.cur ((step Cfg.cur σ a).getD σ) rest := rfl
    rw [hrun]
    have henv := envOK_cons σ a rest henv
    apply ih
    · cases hst : step Cfg.cur σ a with
      | none => exact h
      | some σ' => exact inv_step h henv.1 (hnf a (List.mem_cons_self)) hst
    · exact henv.2
    · intro b hb; exact hnf b (List.mem_cons_of_mem _ hb)

theorem inv_reach (ns nt : Nat) (acts : List Act)
    (henv : EnvOK Cfg.cur (State.init ns nt) acts) (hnf : NoFaults acts) :
    Inv (run Cfg.cur (State.init ns nt) acts) :=
  inv_run acts (inv_init ns nt) henv hnf

theorem pipe_split {σ : State} (h : Inv σ) (s : SId) (t : TId) :
    (σ.src s).sentTo t = (σ.tgt t).deliveredOf s ++
      (delOf s (σ.tgt t).holding.toList ++ ofS s (σ.tgt t).sendChan ++ pendSeg (σ.src s).pc t) := by
  have hp := h.pipe s t
  unfold Pipe at hp
  rw [hp, Target.full, delOf_append, deliveredOf_eq]
  simp only [List.append_assoc]

theorem delivery_prefix (ns nt : Nat) (acts : List Act)
    (henv : EnvOK Cfg.cur (State.init ns nt) acts) (hnf : NoFaults acts) (s : SId) (t : TId) :
    ((run Cfg.cur (State.init ns nt) acts).tgt t).deliveredOf s <+:
      ((run Cfg.cur (State.init ns nt) acts).src s).sentTo t := by
  have h := inv_reach ns nt acts henv hnf
  exact ⟨_, (pipe_split h s t).symm⟩

theorem delivery_complete (ns nt : Nat) (acts : List Act)
    (henv : EnvOK Cfg.cur (State.init ns nt) acts) (hnf : NoFaults acts) (s : SId) (t : TId)
    (hd : Drained (run Cfg.cur (State.init ns nt) acts) s t) :
    ((run Cfg.cur (State.init ns nt) acts).tgt t).deliveredOf s =
      ((run Cfg.cur (State.init ns nt) acts).src s).sentTo t := by
  have h := inv_reach ns nt acts henv hnf
  generalize run Cfg.cur (State.init ns nt) acts = σ at h hd ⊢
  rw [pipe_split h s t]
  unfold Drained drained at hd
  simp only [Bool.and_eq_true] at hd
  obtain ⟨⟨hpend, hchan⟩, hhold⟩ := hd
  have h1 : pendSeg (σ.src s).pc t = [] := by
    cases hpc : (σ.src s).pc with
    | idle => rfl
    | bcast hh todo => rfl
    | deliver pending =>
      rw [hpc] at hpend
      simp only [Option.isNone_iff_eq_none] at hpend
      simp only [pendSeg, hpend, Option.getD_none]
  have h2 : ofS s (σ.tgt t).sendChan = [] := ofS_eq_nil_of_all s _ hchan
  have h3 : delOf s (σ.tgt t).holding.toList = [] := by
    cases hh : (σ.tgt t).holding with
    | none => rfl
    | some e =>
      rw [hh] at hhold
      simp only [Option.toList_some, delOf_singleton]
      split
      · rename_i hsrc
        simp only [hsrc, bne_self_eq_false, Bool.false_or, List.isEmpty_iff] at hhold
        have hl := (h.tgt t).lens e (by simp [Target.full, hh])
        rw [hhold] at hl
        exact List.eq_nil_of_length_eq_zero hl.symm
      · rfl
  rw [h1, h2, h3]
  simp

theorem sent_ids_increasing (ns nt : Nat) (acts : List Act)
    (henv : EnvOK Cfg.cur (State.init ns nt) acts) (hnf : NoFaults acts) (s : SId) (t : TId) :
    StrictInc (((run Cfg.cur (State.init ns nt) acts).src s).sentTo t) := by
  have h := inv_reach ns nt acts henv hnf
  rw [strictInc_iff_pairwise]
  exact List.Pairwise.sublist (List.Sublist.map _ List.filter_sublist) (h.src s).pw

theorem stream_wellformed (ns nt : Nat) (acts : List Act)
    (henv : EnvOK Cfg.cur (State.init ns nt) acts) (hnf : NoFaults acts) (t : TId) :
    StreamWF 0 0 ((run Cfg.cur (State.init ns nt) acts).tgt t).stream := by
  have h := inv_reach ns nt acts henv hnf
  exact ((streamWF_append _ _ _ _).1 (h.tgt t).wf).1

theorem payload_positions (ns nt : Nat) (acts : List Act)
    (henv : EnvOK Cfg.cur (State.init ns nt) acts) (hnf : NoFaults acts) (t : TId) :
    ∀ e ∈ ((run Cfg.cur (State.init ns nt) acts).tgt t).stream, e.ids.length = e.orig.length := by
  have h := inv_reach ns nt acts henv hnf
  intro e he
  exact (h.tgt t).lens e (List.mem_append_left _ he)

end S2S.Routing
