import S2S.Spec.Routing
namespace S2S.Routing
theorem delivery_prefix (ns nt : Nat) (acts : List Act)
    (henv : EnvOK Cfg.cur (State.init ns nt) acts) (hnf : NoFaults acts) (s : SId) (t : TId) :
    ((run Cfg.cur (State.init ns nt) acts).tgt t).deliveredOf s <+:
      ((run Cfg.cur (State.init ns nt) acts).src s).sentTo t := sorry
theorem delivery_complete (ns nt : Nat) (acts : List Act)
    (henv : EnvOK Cfg.cur (State.init ns nt) acts) (hnf : NoFaults acts) (s : SId) (t : TId)
    (hd : Drained (run Cfg.cur (State.init ns nt) acts) s t) :
    ((run Cfg.cur (State.init ns nt) acts).tgt t).deliveredOf s =
      ((run Cfg.cur (State.init ns nt) acts).src s).sentTo t := sorry
theorem sent_ids_increasing (ns nt : Nat) (acts : List Act)
    (henv : EnvOK Cfg.cur (State.init ns nt) acts) (hnf : NoFaults acts) (s : SId) (t : TId) :
    StrictInc (((run Cfg.cur (State.init ns nt) acts).src s).sentTo t) := sorry
theorem stream_wellformed (ns nt : Nat) (acts : List Act)
    (henv : EnvOK Cfg.cur (State.init ns nt) acts) (hnf : NoFaults acts) (t : TId) :
    StreamWF 0 0 ((run Cfg.cur (State.init ns nt) acts).tgt t).stream := sorry
theorem payload_positions (ns nt : Nat) (acts : List Act)
    (henv : EnvOK Cfg.cur (State.init ns nt) acts) (hnf : NoFaults acts) (t : TId) :
    ∀ e ∈ ((run Cfg.cur (State.init ns nt) acts).tgt t).stream, e.ids.length = e.orig.length := sorry
end S2S.Routing
