import S2S.Proofs.RoutingFaultStepF
import S2S.Proofs.RoutingFaultStepC
/-! Invariant preservation (with faults): `recv` (uses the environment hypotheses `RecvOK` and `RecvFresh`). -/
namespace S2S.Routing

theorem upd_recv_maxHigh_self (σ : State) (γ : Ghost) (s : SId) (tasks : List (Int × TId)) (high : Int) :
    (γ.upd σ (.recv s tasks high)).maxHighOf s = if high > γ.maxHighOf s then high else γ.maxHighOf s := by
  simp only [Ghost.upd, Ghost.maxHighOf, getD_aget_aset, if_true]

theorem upd_recv_maxHigh_ne (σ : State) (γ : Ghost) (s : SId) (tasks : List (Int × TId)) (high : Int)
    {s' : SId} (e : s' ≠ s) : (γ.upd σ (.recv s tasks high)).maxHighOf s' = γ.maxHighOf s' := by
  simp only [Ghost.upd, Ghost.maxHighOf, getD_aget_aset, e, if_false]

theorem mem_take_append {α} {a : α} {l l' : List α} {n : Nat} (h : a ∈ l.take n) : a ∈ (l ++ l').take n := by
  rw [List.take_append]; exact List.mem_append_left _ h

/-- a task needed after a `recv` was needed before, or is new and at/above every announced watermark -/
theorem need_recv {σ : State} {γ : Ghost} {s : SId} {tasks : List (Int × TId)} {high : Int} {t : TId} {id : Int}
    (x' : Source) (hr : x'.received = (σ.src s).received ++ tasks) (ha : x'.active = (σ.src s).active)
    (hfresh : RecvFresh σ γ s tasks)
    (hn : Need (γ.upd σ (.recv s tasks high)) s t x' id) :
    Need γ s t (σ.src s) id ∨ ((id, t) ∈ tasks ∧ γ.maxHighOf s ≤ id) := by
  unfold Need at hn ⊢
  obtain ⟨h1, h2, h3⟩ := hn
  have hb : ebase (γ.upd σ (.recv s tasks high)) s x' = if (σ.src s).active then γ.baseOf s else x'.received.length := by
    unfold ebase; rw [ha]; rfl
  rw [hr] at h1
  by_cases hin : (id, t) ∈ (σ.src s).received
  · left
    refine ⟨hin, ?_, h3⟩
    intro hc
    apply h2
    rw [hb, hr]
    unfold ebase at hc
    split
    · rename_i hact; rw [if_pos hact] at hc; exact mem_take_append hc
    · rw [List.take_length]; exact List.mem_append_left _ hin
  · right
    rcases List.mem_append.1 h1 with h1 | h1
    · exact absurd h1 hin
    · rcases hfresh _ h1 with hf | hf
      · exact absurd hf hin
      · exact ⟨h1, hf⟩

/-- transfer of `PairF` along a `recv` -/
theorem PairF.of_recv {N N' : Int → Prop} {M M' : Int} {s : SId} {t : TId} {x : Source} {tg : Target}
    (h : PairF N M s t x tg) {x' : Source}
    (hM : M ≤ M') (hle : x.lastHigh ≤ x'.lastHigh)
    (hN : ∀ id, N' id → N id ∨ (M ≤ id ∧ id < x'.lastHigh ∧ (id, true) ∈ flat s t x' tg))
    (hsub : ∀ y, y ∈ flat s t x tg → y ∈ flat s t x' tg)
    (hsorted : (flat s t x' tg).Pairwise (FlatRelN N'))
    (hfle : ∀ y ∈ flat s t x' tg, y.1 ≤ M')
    (h7 : x'.ackChan = x.ackChan) (h9 : x'.lastSentAck = x.lastSentAck)
    (hlast : ∀ a, x.lastSentAck = some a → a ≤ M)
    (habt : ∀ v, (t, v) ∈ x'.ackByTarget → (t, v) ∈ x.ackByTarget ∨ (SafeN N' s tg v ∧ v ≤ M'))
    (hseed : ∀ id, N' id → (aget x'.ackByTarget t).isSome = true)
    (hgl : ∀ i g, (i, some g) ∈ x.graveyard → g ≤ M) (h11 : x'.graveyard = x.graveyard) :
    PairF N' M' s t x' tg := by
  have hsafe : ∀ v, SafeN N s tg v → v ≤ M → SafeN N' s tg v := by
    intro v hv hvl id hr hlt
    rcases hN id hr with hr | ⟨hr, _⟩
    · exact hv id hr hlt
    · omega
  refine ⟨?_, hsorted, hfle, ?_, ?_, ?_, ?_, ?_, ?_, ?_, hseed, ?_, ?_⟩
  · intro id hr
    rcases hN id hr with hr | ⟨_, _, hr⟩
    · rcases h.cover id hr with hc | hc
      · exact Or.inl hc
      · exact Or.inr (hsub _ hc)
    · exact Or.inr hr
  · intro p o hm id hr hlt
    rcases hN id hr with hr | ⟨hr, _⟩
    · exact h.ring_ok p o hm id hr hlt
    · have := h.ring_le p o hm; omega
  · intro p o hm; have := h.ring_le p o hm; omega
  · intro todo d r e v hv
    have := h.todo_safe todo d r e v hv
    exact ⟨hsafe v this.1 this.2, by omega⟩
  · intro v hv
    have := h.prev_safe v hv
    exact ⟨hsafe v this.1 this.2, by omega⟩
  · rw [h7]; intro v hv
    have := h.chan_safe v hv
    exact ⟨hsafe v this.1 this.2, by omega⟩
  · intro v hv
    rcases habt v hv with hv | hv
    · have := h.abt_safe v hv
      exact ⟨hsafe v this.1 this.2, by omega⟩
    · exact hv
  · rw [h9]; intro a ha
    exact hsafe a (h.last_safe a ha) (hlast a ha)
  · intro id hr
    rcases hN id hr with hr | ⟨_, hr, _⟩
    · have := h.cur_lt id hr; omega
    · exact hr
  · rw [h11]; intro i g hg id hr
    rcases hN id hr with hr | ⟨hr, _⟩
    · exact h.grave_low i g hg id hr
    · have := hgl i g hg; omega

theorem step_invF_recv {σ σ' : State} {γ : Ghost} (hI : InvF σ γ) (s : SId) (tasks : List (Int × TId)) (high : Int)
    (hok : RecvOK σ.targets.length (σ.src s) tasks high) (hfresh : RecvFresh σ γ s tasks)
    (h : step Cfg.cur σ (.recv s tasks high) = some σ') : InvF σ' (γ.upd σ (.recv s tasks high)) := by
  obtain ⟨hinc, htasks, _, hhigh⟩ := hok
  simp only [step] at h
  split at h
  · cases h
  · rename_i hg
    simp only [Bool.or_eq_true, Bool.not_eq_true', not_or, Bool.not_eq_false, bne_iff_ne, ne_eq,
      Decidable.not_not] at hg
    obtain ⟨hact, hidle⟩ := hg
    have hS := hI.src s
    have hsl := src_active_lt σ hact
    have hMM : γ.maxHighOf s ≤ (γ.upd σ (.recv s tasks high)).maxHighOf s := by
      rw [upd_recv_maxHigh_self]; split <;> omega
    have hhM : high ≤ (γ.upd σ (.recv s tasks high)).maxHighOf s := by
      rw [upd_recv_maxHigh_self]; split <;> omega
    split at h
    · rename_i hemp
      have htn : tasks = [] := by cases tasks with | nil => rfl | cons _ _ => simp at hemp
      subst htn
      simp only [Option.some.injEq] at h
      subst h
      apply invF_setSrc_ghost hI _ s _ hsl
      · intro s' e; exact upd_recv_maxHigh_ne σ γ s [] high e
      · intro s' _; rfl
      · intro t; rfl
      · refine ⟨?_, ?_, ?_, hhM, ?_, fun _ _ => hact, ?_, Int.le_trans hS.m_nonneg hMM⟩
        · intro h' e; cases e; exact Int.le_refl _
        · intro h' e t y hy
          simp only [pendVals_ite_bcast] at hy; cases hy
        · intro high' todo' e
          simp only at e
          split at e
          · cases e
          · cases e; exact Int.le_refl _
        · intro a ha; exact Int.le_trans (hS.last_le a ha) hMM
        · intro i g hg; exact Int.le_trans (hS.grave_le i g hg) hMM
      · intro t
        have hfe : ∀ x' : Source, pendVals x'.pc t = [] → flat s t x' (σ.tgt t) = flat s t (σ.src s) (σ.tgt t) := by
          intro x' hp
          simp only [flat, hp, hidle, pendVals_idle]
        have hp := hI.pair s t
        have hNold : ∀ (x' : Source) id, Need (γ.upd σ (.recv s [] high)) s t x' id →
            x'.received = (σ.src s).received ++ [] → x'.active = (σ.src s).active → Need γ s t (σ.src s) id := by
          intro x' id hn e1 e2
          rcases need_recv x' e1 e2 hfresh hn with hn | ⟨hn, _⟩
          · exact hn
          · cases hn
        refine hp.of_recv hMM hhigh ?_ ?_ ?_ ?_ rfl rfl hS.last_le ?_ ?_ hS.grave_le rfl
        · intro id hn; exact Or.inl (hNold _ id hn rfl rfl)
        · intro y hy; rw [hfe _ (pendVals_ite_bcast _ _ _)]; exact hy
        · rw [hfe _ (pendVals_ite_bcast _ _ _)]
          refine hp.sorted.imp ?_
          intro a b hr hz hn
          exact hr hz (hNold _ _ hn rfl rfl)
        · intro y hy; rw [hfe _ (pendVals_ite_bcast _ _ _)] at hy
          exact Int.le_trans (hp.flat_le y hy) hMM
        · intro v hv; exact Or.inl hv
        · intro id hn; exact hp.seeded id (hNold _ id hn rfl rfl)
    · rename_i hemp
      simp only [cur_seedAcks, if_true, Option.some.injEq] at h
      subst h
      have hown : ∀ t id, id ∈ ownedIds tasks t → (σ.src s).lastHigh ≤ id ∧ id < high := by
        intro t id hid
        have := htasks (id, t) (mem_ownedIds.1 hid)
        exact ⟨this.2.1, this.2.2.1⟩
      apply invF_setSrc_ghost hI _ s _ hsl
      · intro s' e; exact upd_recv_maxHigh_ne σ γ s tasks high e
      · intro s' _; rfl
      · intro t; rfl
      · refine ⟨?_, ?_, ?_, hhM, ?_, fun _ _ => hact, ?_, Int.le_trans hS.m_nonneg hMM⟩
        · intro h' e; have := hS.wm_le h' e; exact Int.le_trans this hhigh
        · intro h' e t y hy
          have hy : y ∈ pendVals (.deliver (groupByOwner tasks)) t := hy
          rw [pendVals_groups, List.mem_map] at hy
          obtain ⟨id, hid, e'⟩ := hy
          subst e'
          have := hS.wm_le h' e
          have := (hown t id hid).1
          show h' ≤ id
          omega
        · intro high' todo' e; cases e
        · intro a ha; exact Int.le_trans (hS.last_le a ha) hMM
        · intro i g hg; exact Int.le_trans (hS.grave_le i g hg) hMM
      · intro t
        have hfn : ∀ x' : Source, x'.pc = .deliver (groupByOwner tasks) → flat s t x' (σ.tgt t) =
            chanVals s (σ.tgt t).sendChan ++ (ownedIds tasks t).map (fun i => (i, true)) := by
          intro x' e; simp only [flat, e, pendVals_groups]
        have hfo : flat s t (σ.src s) (σ.tgt t) = chanVals s (σ.tgt t).sendChan := by
          simp only [flat, hidle, pendVals_idle, List.append_nil]
        have hp := hI.pair s t
        -- the needed tasks after the step
        have hNn' : ∀ (x' : Source) id, Need (γ.upd σ (.recv s tasks high)) s t x' id →
            x'.received = (σ.src s).received ++ tasks → x'.active = (σ.src s).active →
            Need γ s t (σ.src s) id ∨ ((id, t) ∈ tasks ∧ γ.maxHighOf s ≤ id) :=
          fun x' id hn e1 e2 => need_recv x' e1 e2 hfresh hn
        -- a task of this batch was not needed before
        have hnot : ∀ id, id ∈ ownedIds tasks t → ¬ Need γ s t (σ.src s) id := by
          intro id hid hn
          have := hp.cur_lt id hn
          have := (hown t id hid).1
          omega
        refine hp.of_recv hMM hhigh ?_ ?_ ?_ ?_ rfl rfl hS.last_le ?_ ?_ hS.grave_le rfl
        · intro id hn
          rcases hNn' _ id hn rfl rfl with hn | ⟨hn, hm⟩
          · exact Or.inl hn
          · right
            refine ⟨hm, (htasks _ hn).2.2.1, ?_⟩
            rw [hfn _ rfl]; apply List.mem_append_right
            rw [List.mem_map]; exact ⟨id, mem_ownedIds.2 hn, rfl⟩
        · intro y hy; rw [hfn _ rfl]; rw [hfo] at hy; exact List.mem_append_left _ hy
        · rw [hfn _ rfl, List.pairwise_append]
          refine ⟨?_, ?_, ?_⟩
          · have := hp.sorted; rw [hfo] at this
            refine this.imp_of_mem ?_
            intro a b ha _ hr hz hn
            rcases hNn' _ _ hn rfl rfl with hn | ⟨_, hm⟩
            · exact hr hz hn
            · have := hp.flat_le a (by rw [hfo]; exact ha)
              omega
          · rw [List.pairwise_map]
            exact (ownedIds_pairwise hinc t).imp (fun {a b} hab _ _ => by show a ≤ b; omega)
          · intro a ha b hb _ hn
            rw [List.mem_map] at hb
            obtain ⟨id, hid, e⟩ := hb
            subst e
            have hle := hp.flat_le a (by rw [hfo]; exact ha)
            rcases hNn' _ _ hn rfl rfl with hn | ⟨_, hm⟩
            · exact absurd hn (hnot id hid)
            · show a.1 ≤ id
              omega
        · intro y hy
          rw [hfn _ rfl] at hy
          rcases List.mem_append.1 hy with hy | hy
          · have := hp.flat_le y (by rw [hfo]; exact hy); omega
          · rw [List.mem_map] at hy
            obtain ⟨id, hid, e⟩ := hy
            subst e
            have := (hown t id hid).2
            show id ≤ _
            omega
        · intro v hv
          have hv : (t, v) ∈ seed (σ.src s).ackByTarget (groupByOwner tasks) := hv
          rcases mem_seed hv with hv | ⟨hnone, ids, hids, hvd⟩
          · exact Or.inl hv
          · right
            rw [aget_groupByOwner] at hids
            split at hids
            · cases hids
            · rename_i hne
              simp only [Option.some.injEq] at hids
              subst hids
              have hvmem : v ∈ ownedIds tasks t := by
                rw [hvd]
                cases ho : ownedIds tasks t with
                | nil => exact absurd ho hne
                | cons a r => simp
              refine ⟨?_, ?_⟩
              · intro id hn hlt
                rcases hNn' _ id hn rfl rfl with hn | ⟨hn, _⟩
                · have := hp.seeded id hn; rw [hnone] at this; cases this
                · have := ownedIds_head_le hinc t (mem_ownedIds.2 hn)
                  rw [← hvd] at this; omega
              · have := (hown t v hvmem).2
                omega
        · intro id hn
          show (aget (seed (σ.src s).ackByTarget (groupByOwner tasks)) t).isSome = true
          rw [aget_seed]
          cases hag : aget (σ.src s).ackByTarget t with
          | some v => rfl
          | none =>
            simp only
            rcases hNn' _ id hn rfl rfl with hn | ⟨hn, _⟩
            · have := hp.seeded id hn; rw [hag] at this; cases this
            · rw [aget_groupByOwner]
              have : ownedIds tasks t ≠ [] := by
                intro e; have := mem_ownedIds.2 hn; rw [e] at this; cases this
              simp [this]

end S2S.Routing
