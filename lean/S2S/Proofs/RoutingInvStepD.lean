import S2S.Proofs.RoutingInvStepC
/-! Invariant preservation: `take` (the sender dequeues a message and assigns proxy ids). -/
namespace S2S.Routing

theorem mem_zip_pids {ids : List Int} {first : Int} {o p : Int} :
    (o, p) ∈ ids.zip ((List.range ids.length).map (fun (i : Nat) => first + (i : Int))) ↔
      ∃ i, ∃ h : i < ids.length, ids[i] = o ∧ p = first + (i : Int) := by
  rw [List.mem_iff_getElem]
  constructor
  · rintro ⟨i, hi, e⟩
    simp only [List.length_zip, List.length_map, List.length_range, Nat.min_self] at hi
    simp only [List.getElem_zip, List.getElem_map, List.getElem_range, Prod.mk.injEq] at e
    exact ⟨i, hi, e.1, e.2.symm⟩
  · rintro ⟨i, hi, e1, e2⟩
    refine ⟨i, by simpa using hi, ?_⟩
    simp only [List.getElem_zip, List.getElem_map, List.getElem_range, Prod.mk.injEq]
    exact ⟨e1, e2.symm⟩

/-- the wm case -/
theorem pairOK_take_wm {s : SId} {t : TId} {x : Source} {tg : Target} (h : PairOK s t x tg) (hT : TgtOK tg)
    (s0 : SId) (hv : Int) (rest : List Msg) (hch : tg.sendChan = Msg.wm s0 hv :: rest)
    (hold : Option Emitted) :
    PairOK s t x { tg with
      sendChan := rest
      nextProxyId := tg.nextProxyId + 1
      ring := tg.ring ++ [(tg.nextProxyId + 1, s0, hv)]
      holding := hold } := by
  by_cases hs : s = s0
  · subst hs
    have hfo : flat s t x tg = (hv, false) :: (chanVals s rest ++ pendVals x.pc t) := by
      simp only [flat, hch, chanVals_cons, msgVals_wm_self, List.cons_append, List.nil_append]
    have hsorted := h.sorted
    rw [hfo] at hsorted
    have hcov : ∀ id, (id, t) ∈ x.received → (∃ p, (s, id, p) ∈ tg.assigned) ∨
        (id, true) ∈ chanVals s rest ++ pendVals x.pc t := by
      intro id hr
      rcases h.cover id hr with hc | hc
      · exact Or.inl hc
      · rw [hfo] at hc
        rcases List.mem_cons.1 hc with hc | hc
        · cases hc
        · exact Or.inr hc
    refine ⟨hcov, (List.pairwise_cons.1 hsorted).2, ?_, ?_, ?_, h.todo_safe, h.prev_safe, h.chan_safe,
      h.abt_safe, h.last_safe⟩
    · intro y hy
      apply h.flat_le; rw [hfo]; exact List.mem_cons_of_mem _ hy
    · intro p o hm id hr hlt
      rcases List.mem_append.1 hm with hm | hm
      · exact h.ring_ok p o hm id hr hlt
      · simp only [List.mem_singleton, Prod.mk.injEq, true_and] at hm
        obtain ⟨e1, e2⟩ := hm
        subst e1; subst e2
        rcases hcov id hr with ⟨p', hp'⟩ | hc
        · have := hT.asg_le s id p' hp'
          exact ⟨p', by omega, hp'⟩
        · have := (List.pairwise_cons.1 hsorted).1 _ hc rfl
          simp only at this; omega
    · intro p o hm
      rcases List.mem_append.1 hm with hm | hm
      · exact h.ring_le p o hm
      · simp only [List.mem_singleton, Prod.mk.injEq, true_and] at hm
        obtain ⟨e1, e2⟩ := hm
        subst e2
        have := h.flat_le (o, false) (by rw [hfo]; exact List.mem_cons_self)
        exact this
  · have hfo : flat s t x tg = chanVals s rest ++ pendVals x.pc t := by
      simp only [flat, hch, chanVals_cons, msgVals_wm_ne hs, List.nil_append]
    have h1 := h.cover; have h2 := h.sorted; have h3 := h.flat_le
    rw [hfo] at h1 h2 h3
    refine ⟨h1, h2, h3, ?_, ?_, h.todo_safe, h.prev_safe, h.chan_safe, h.abt_safe, h.last_safe⟩
    · intro p o hm
      rcases List.mem_append.1 hm with hm | hm
      · exact h.ring_ok p o hm
      · simp only [List.mem_singleton, Prod.mk.injEq] at hm
        exact absurd hm.2.1 hs
    · intro p o hm
      rcases List.mem_append.1 hm with hm | hm
      · exact h.ring_le p o hm
      · simp only [List.mem_singleton, Prod.mk.injEq] at hm
        exact absurd hm.2.1 hs

/-- the tasks case -/
theorem pairOK_take_tasks {s : SId} {t : TId} {x : Source} {tg : Target} (h : PairOK s t x tg) (hT : TgtOK tg)
    (s0 : SId) (ids : List Int) (rest : List Msg) (hch : tg.sendChan = Msg.tasks s0 ids :: rest)
    (hold : Option Emitted) :
    PairOK s t x { tg with
      sendChan := rest
      nextProxyId := tg.nextProxyId + (ids.length : Int)
      ring := tg.ring ++ List.map (fun x => (x.snd, s0, x.fst))
                (ids.zip (List.map (fun (i : Nat) => tg.nextProxyId + 1 + (i : Int)) (List.range ids.length)))
      assigned := tg.assigned ++ List.map (fun x => (s0, x.fst, x.snd))
                (ids.zip (List.map (fun (i : Nat) => tg.nextProxyId + 1 + (i : Int)) (List.range ids.length)))
      holding := hold } := by
  by_cases hs : s = s0
  · subst hs
    have hfo : flat s t x tg = ids.map (fun i => (i, true)) ++ (chanVals s rest ++ pendVals x.pc t) := by
      simp only [flat, hch, chanVals_cons, msgVals_tasks_self, List.append_assoc]
    have hsorted := h.sorted
    rw [hfo, List.pairwise_append] at hsorted
    obtain ⟨hsI, hsR, hsIR⟩ := hsorted
    -- new assigned entries
    have hnew : ∀ i (hi : i < ids.length), (s, ids[i], tg.nextProxyId + 1 + (i : Int)) ∈
        tg.assigned ++ List.map (fun x => (s, x.fst, x.snd))
          (ids.zip (List.map (fun (i : Nat) => tg.nextProxyId + 1 + (i : Int)) (List.range ids.length))) := by
      intro i hi
      apply List.mem_append_right
      rw [List.mem_map]
      exact ⟨(ids[i], tg.nextProxyId + 1 + (i : Int)), mem_zip_pids.2 ⟨i, hi, rfl, rfl⟩, rfl⟩
    have hcov : ∀ id, (id, t) ∈ x.received → (∃ p, (s, id, p) ∈ tg.assigned) ∨ id ∈ ids ∨
        (id, true) ∈ chanVals s rest ++ pendVals x.pc t := by
      intro id hr
      rcases h.cover id hr with hc | hc
      · exact Or.inl hc
      · rw [hfo] at hc
        rcases List.mem_append.1 hc with hc | hc
        · right; left
          simp only [List.mem_map, Prod.mk.injEq, and_true, exists_eq_right] at hc
          exact hc
        · exact Or.inr (Or.inr hc)
    refine ⟨?_, hsR, ?_, ?_, ?_, h.todo_safe, h.prev_safe, h.chan_safe, h.abt_safe, h.last_safe⟩
    · intro id hr
      rcases hcov id hr with ⟨p, hp⟩ | hc | hc
      · exact Or.inl ⟨p, List.mem_append_left _ hp⟩
      · obtain ⟨i, hi, e⟩ := List.mem_iff_getElem.1 hc
        left; refine ⟨tg.nextProxyId + 1 + (i : Int), ?_⟩; rw [← e]; exact hnew i hi
      · exact Or.inr hc
    · intro y hy
      apply h.flat_le; rw [hfo]; exact List.mem_append_right _ hy
    · intro p o hm id hr hlt
      rcases List.mem_append.1 hm with hm | hm
      · obtain ⟨p', h1, h2⟩ := h.ring_ok p o hm id hr hlt
        exact ⟨p', h1, List.mem_append_left _ h2⟩
      · rw [List.mem_map] at hm
        obtain ⟨⟨o', p''⟩, hz, e⟩ := hm
        simp only [Prod.mk.injEq, true_and] at e
        obtain ⟨e1, e2⟩ := e
        subst e1; subst e2
        obtain ⟨i, hi, ei, ep⟩ := mem_zip_pids.1 hz
        rcases hcov id hr with ⟨p', hp'⟩ | hc | hc
        · have := hT.asg_le s id p' hp'
          exact ⟨p', by omega, List.mem_append_left _ hp'⟩
        · obtain ⟨j, hj, ej⟩ := List.mem_iff_getElem.1 hc
          have hji : j < i := by
            apply Classical.byContradiction; intro hn
            rcases Nat.lt_or_ge i j with hlt' | hge
            · have := (List.pairwise_iff_getElem.1 hsI) i j (by simpa using hi) (by simpa using hj) hlt'
              simp only [List.getElem_map, FlatRel] at this
              have := this trivial
              omega
            · have : i = j := by omega
              subst this; omega
          refine ⟨tg.nextProxyId + 1 + (j : Int), by omega, ?_⟩
          rw [← ej]; exact hnew j hj
        · have := hsIR (o', true) (by
            rw [List.mem_map]; exact ⟨o', by rw [← ei]; exact List.getElem_mem _, rfl⟩) _ hc rfl
          simp only at this; omega
    · intro p o hm
      rcases List.mem_append.1 hm with hm | hm
      · exact h.ring_le p o hm
      · rw [List.mem_map] at hm
        obtain ⟨⟨o', p''⟩, hz, e⟩ := hm
        simp only [Prod.mk.injEq, true_and] at e
        obtain ⟨e1, e2⟩ := e
        subst e1; subst e2
        have hmem : o' ∈ ids := (List.of_mem_zip hz).1
        exact h.flat_le (o', true) (by
          rw [hfo]; apply List.mem_append_left; rw [List.mem_map]; exact ⟨o', hmem, rfl⟩)
  · have hfo : flat s t x tg = chanVals s rest ++ pendVals x.pc t := by
      simp only [flat, hch, chanVals_cons, msgVals_tasks_ne hs, List.nil_append]
    have h1 := h.cover; have h2 := h.sorted; have h3 := h.flat_le
    rw [hfo] at h1 h2 h3
    refine ⟨?_, h2, h3, ?_, ?_, h.todo_safe, h.prev_safe, h.chan_safe, h.abt_safe, h.last_safe⟩
    · intro id hr
      rcases h1 id hr with ⟨p, hp⟩ | hc
      · exact Or.inl ⟨p, List.mem_append_left _ hp⟩
      · exact Or.inr hc
    · intro p o hm id hr hlt
      rcases List.mem_append.1 hm with hm | hm
      · obtain ⟨p', h1, h2⟩ := h.ring_ok p o hm id hr hlt
        exact ⟨p', h1, List.mem_append_left _ h2⟩
      · rw [List.mem_map] at hm
        obtain ⟨⟨o', p''⟩, hz, e⟩ := hm
        simp only [Prod.mk.injEq] at e
        exact absurd e.2.1.symm hs
    · intro p o hm
      rcases List.mem_append.1 hm with hm | hm
      · exact h.ring_le p o hm
      · rw [List.mem_map] at hm
        obtain ⟨⟨o', p''⟩, hz, e⟩ := hm
        simp only [Prod.mk.injEq] at e
        exact absurd e.2.1.symm hs

theorem step_inv_take {σ σ' : State} (hI : Inv σ) (t : TId)
    (h : step Cfg.cur σ (.take t) = some σ') : Inv σ' := by
  simp only [step] at h
  split at h
  · cases h
  · rename_i hg
    simp only [Bool.or_eq_true, Bool.not_eq_true', not_or] at hg
    have hT := hI.tgt t
    have hreg : ¬ (σ.tgt t).registered = false := by
      intro e; have := hT.unreg e; rw [this] at hg; simp at hg
    split at h
    · cases h
    · rename_i m rest hch
      cases m with
      | tasks s0 ids =>
        simp only [process, Option.some.injEq] at h
        subst h
        apply inv_setTgt hI
        · refine ⟨fun e => absurd e hreg, ?_⟩
          intro s id p hm
          show p ≤ (σ.tgt t).nextProxyId + (ids.length : Int)
          rcases List.mem_append.1 hm with hm | hm
          · have := hT.asg_le s id p hm; omega
          · rw [List.mem_map] at hm
            obtain ⟨⟨o', p''⟩, hz, e⟩ := hm
            simp only [Prod.mk.injEq] at e
            obtain ⟨i, hi, _, ep⟩ := mem_zip_pids.1 hz
            omega
        · intro s
          exact pairOK_take_tasks (hI.pair s t) hT s0 ids rest hch _
      | wm s0 hv =>
        simp only [process, Option.some.injEq] at h
        subst h
        apply inv_setTgt hI
        · refine ⟨fun e => absurd e hreg, ?_⟩
          intro s id p hm
          show p ≤ (σ.tgt t).nextProxyId + 1
          have := hT.asg_le s id p hm; omega
        · intro s
          exact pairOK_take_wm (hI.pair s t) hT s0 hv rest hch _

end S2S.Routing
