import S2S.Proofs.GossipInv
/-! Preservation of the gossip invariant by every action (C09). -/
namespace S2S.Gossip

theorem mem_erase_or {α} [DecidableEq α] {l : List α} {x it : α} (h : x ∈ l) : x = it ∨ x ∈ l.erase it := by
  by_cases e : x = it
  · exact Or.inl e
  · exact Or.inr ((List.mem_erase_of_ne e).2 h)

/-- the bookkeeping half of a delivery: the item leaves the net (unless kept) and is recorded -/
theorem Inv.book {σ : State} (i : Inv σ) (it : Item) (keep : Bool) (hin : it ∈ σ.net)
    (hseen : ∀ src s t m c, it = Item.ann .register src s t m → aget (σ.node m).locals s = some c → t ≤ c) :
    Inv { σ with net := if keep then σ.net else σ.net.erase it, delivered := it :: σ.delivered } := by
  have hsub : ∀ x, x ∈ (if keep then σ.net else σ.net.erase it) → x ∈ σ.net := by
    intro x hx; cases keep
    · exact List.mem_of_mem_erase hx
    · exact hx
  have hor : ∀ x, x ∈ σ.net → x = it ∨ x ∈ (if keep then σ.net else σ.net.erase it) := by
    intro x hx; cases keep
    · exact mem_erase_or hx
    · exact Or.inr hx
  constructor
  · exact i.addsClock
  · exact i.localAdds
  · exact i.pendAdds
  · intro a b c d h; exact i.netClock a b c d (hsub _ h)
  · intro a b c d h
    dsimp only at h
    simp only [List.mem_cons] at h
    rcases h with h | h
    · exact i.netClock a b c d (by rw [h]; exact hin)
    · exact i.delClock a b c d h
  · intro m s c src t hl h
    dsimp only at h
    simp only [List.mem_cons] at h
    rcases h with h | h
    · exact hseen src s t m c h.symm hl
    · exact i.seen m s c src t hl h
  · exact i.accounted
  · intro n s c t h0
    obtain ⟨h1, src, h2⟩ := i.evictedWhy n s c t h0
    refine ⟨h1, src, ?_⟩
    dsimp only
    simp only [List.mem_cons]
    rcases h2 with h2 | h2
    · rcases hor _ h2 with e | e
      · exact Or.inr (Or.inl e)
      · exact Or.inl e
    · exact Or.inr (Or.inr h2)
  · intro a b c d h
    dsimp only at h
    simp only [List.mem_cons] at h
    rcases h with h | h | h
    · exact i.regFrom a b c d (Or.inl (hsub _ h))
    · exact i.regFrom a b c d (Or.inl (by rw [h]; exact hin))
    · exact i.regFrom a b c d (Or.inr h)
  · exact i.claimWf
  · intro x h
    rcases h with h | h
    · exact i.netEmitted x (Or.inl (hsub _ h))
    · rcases List.mem_cons.1 h with h | h
      · exact i.netEmitted x (Or.inl (by rw [h]; exact hin))
      · exact i.netEmitted x (Or.inr h)

theorem emit_unregister_ok (σ : State) (n s t x) :
    ∀ src s' t' dst, Item.ann .register src s' t' dst ∈ emit .unregister n s t x →
      t' ≤ σ.clock ∧ src ≠ dst ∧ ∃ c, Claim.mk src s' c t' ∈ σ.claims := by
  intro src s' t' dst h
  obtain ⟨d, _, e⟩ := mem_emit h
  cases e

/-- `UnregisterShard(s, c)` hitting its entry, with the reason recorded -/
theorem Inv.unregisterWith {σ : State} (i : Inv σ) (n : NodeId) (s : ShardId) (c : Time)
    (hc : aget (σ.node n).locals s = some c)
    (ev : List (NodeId × ShardId × Time × Time)) (en : List (NodeId × ShardId × Time))
    (hsub1 : ∀ e ∈ σ.evicted, e ∈ ev) (hsub2 : ∀ e ∈ σ.ended, e ∈ en)
    (hwhy : ∀ n s c t, (n, s, c, t) ∈ ev → c < t ∧ ∃ src, (Item.ann .register src s t n ∈ σ.net ∨ Item.ann .register src s t n ∈ σ.delivered))
    (hacc : (∃ t, (n, s, c, t) ∈ ev) ∨ (n, s, c) ∈ en) :
    Inv { unregister σ n s c with evicted := ev, ended := en } := by
  have e : ({ unregister σ n s c with evicted := ev, ended := en } : State) =
      ({ σ.setNode n { (σ.node n) with locals := aerase (σ.node n).locals s } with evicted := ev, ended := en } : State).send
        (emit .unregister n s σ.clock (σ.node n)) := by
    simp only [unregister, hc, if_true]; rfl
  rw [e]
  exact Inv.send (i.eraseLocal n s c hc ev en hsub1 hsub2 hwhy hacc) _ (emit_unregister_ok _ n s σ.clock (σ.node n))

def addNode (x : Node) (s : ShardId) (c : Time) (id : Nat) : Node :=
  { x with locals := aset x.locals s c, pending := x.pending ++ [(s, c)], streams := aset x.streams s id }
def pendNode (x : Node) (p : ShardId × Time) : Node := { x with pending := x.pending.erase p }
def streamNode (x : Node) (s : ShardId) : Node := { x with streams := aerase x.streams s }

@[simp] theorem addNode_locals (x s c id) : (addNode x s c id).locals = aset x.locals s c := rfl
@[simp] theorem addNode_pending (x s c id) : (addNode x s c id).pending = x.pending ++ [(s, c)] := rfl
@[simp] theorem pendNode_locals (x p) : (pendNode x p).locals = x.locals := rfl
@[simp] theorem pendNode_pending (x p) : (pendNode x p).pending = x.pending.erase p := rfl
@[simp] theorem streamNode_locals (x s) : (streamNode x s).locals = x.locals := rfl
@[simp] theorem streamNode_pending (x s) : (streamNode x s).pending = x.pending := rfl

theorem step_add (cfg : Cfg) (σ : State) (n s) :
    step cfg σ (.add n s) = { σ.setNode n (addNode (σ.node n) s σ.clock σ.adds.length) with adds := (n, s, σ.clock) :: σ.adds } := rfl

theorem Inv.add {σ : State} (i : Inv σ) (n : NodeId) (s : ShardId) : Inv (step cfg σ (.add n s)) := by
  rw [step_add]
  have hloc : ∀ m s' c', aget ((σ.setNode n (addNode (σ.node n) s σ.clock σ.adds.length)).node m).locals s' = some c' →
      (m = n ∧ s' = s ∧ c' = σ.clock) ∨ (¬ (m = n ∧ s' = s) ∧ aget (σ.node m).locals s' = some c') := by
    intro m s' c' h
    simp only [setNode_node] at h
    by_cases hm : m = n
    · subst hm
      simp only [if_true, addNode_locals, aget_aset] at h
      by_cases hs : s' = s
      · simp only [hs, if_true] at h; exact Or.inl ⟨rfl, hs, (Option.some.inj h).symm⟩
      · simp only [hs, if_false] at h; exact Or.inr ⟨fun x => hs x.2, h⟩
    · simp only [hm, if_false] at h; exact Or.inr ⟨fun x => hm x.1, h⟩
  have hnew : aget ((σ.setNode n (addNode (σ.node n) s σ.clock σ.adds.length)).node n).locals s = some σ.clock := by
    simp [aget_aset]
  constructor
  · intro n' s' c' h
    rcases List.mem_cons.1 h with h | h
    · cases h; exact Nat.le_refl _
    · exact i.addsClock n' s' c' h
  · intro m s' c' h
    rcases hloc m s' c' h with ⟨rfl, rfl, rfl⟩ | ⟨_, h⟩
    · exact List.mem_cons_self
    · exact List.mem_cons_of_mem _ (i.localAdds m s' c' h)
  · intro m p h
    dsimp only at h
    simp only [setNode_node] at h
    by_cases hm : m = n
    · subst hm
      simp only [if_true, addNode_pending, List.mem_append, List.mem_singleton] at h
      rcases h with h | h
      · exact List.mem_cons_of_mem _ (i.pendAdds m p h)
      · subst h; exact List.mem_cons_self
    · simp only [hm, if_false] at h; exact List.mem_cons_of_mem _ (i.pendAdds m p h)
  · exact i.netClock
  · exact i.delClock
  · intro m s' c' src t h hd
    rcases hloc m s' c' h with ⟨rfl, rfl, rfl⟩ | ⟨_, h⟩
    · exact i.delClock src s' t m hd
    · exact i.seen m s' c' src t h hd
  · intro n' s' c' ha
    rcases List.mem_cons.1 ha with ha0 | ha0
    · cases ha0; exact Or.inl hnew
    · rcases i.accounted n' s' c' ha0 with h | ⟨t, h⟩ | h | ⟨c2, h, hlt⟩
      · by_cases hx : n' = n ∧ s' = s
        · obtain ⟨rfl, rfl⟩ := hx
          by_cases hcc : c' = σ.clock
          · subst hcc; exact Or.inl hnew
          · have hle := i.addsClock n' s' c' ha0
            exact Or.inr (Or.inr (Or.inr ⟨σ.clock, List.mem_cons_self, Nat.lt_of_le_of_ne hle hcc⟩))
        · left
          dsimp only
          simp only [setNode_node]
          by_cases hm : n' = n
          · subst hm
            have hs : ¬ s' = s := fun e => hx ⟨rfl, e⟩
            simp only [if_true, addNode_locals, aget_aset, hs, if_false]; exact h
          · simp only [hm, if_false]; exact h
      · exact Or.inr (Or.inl ⟨t, h⟩)
      · exact Or.inr (Or.inr (Or.inl h))
      · exact Or.inr (Or.inr (Or.inr ⟨c2, List.mem_cons_of_mem _ h, hlt⟩))
  · exact i.evictedWhy
  · exact i.regFrom
  · intro k hk
    obtain ⟨a, b, c⟩ := i.claimWf k hk
    exact ⟨a, b, List.mem_cons_of_mem _ c⟩
  · exact i.netEmitted

theorem locals_setNode_pend (σ : State) (n p m) :
    ((σ.setNode n (pendNode (σ.node n) p)).node m).locals = (σ.node m).locals := by
  simp only [setNode_node]; by_cases hm : m = n <;> simp [hm]

theorem Inv.announce {σ : State} (i : Inv σ) (n : NodeId) (s : ShardId) : Inv (step cfg σ (.announce n s)) := by
  simp only [step]
  cases hf : (σ.node n).pending.find? (fun p => p.1 == s) with
  | none => exact i
  | some p =>
    dsimp only
    have hp : p ∈ (σ.node n).pending := List.mem_of_find?_eq_some hf
    have hps : p.1 = s := by simpa using List.find?_some hf
    have hadd : (n, s, p.2) ∈ σ.adds := hps ▸ i.pendAdds n p hp
    have hclk : p.2 ≤ σ.clock := i.addsClock n s p.2 hadd
    generalize ht : (if cfg.stampAtBroadcast = true then σ.clock else p.2) = t
    have ht1 : p.2 ≤ t := by
      rw [← ht]; split
      · exact hclk
      · exact Nat.le_refl _
    have ht2 : t ≤ σ.clock := by
      rw [← ht]; split
      · exact Nat.le_refl _
      · exact hclk
    -- first the local bookkeeping (pending entry consumed, claim recorded), then the send
    have ia : Inv ({ σ.setNode n (pendNode (σ.node n) p) with claims := ⟨n, s, p.2, t⟩ :: σ.claims } : State) := by
      constructor
      · exact i.addsClock
      · intro m s' c' h
        dsimp only at h
        rw [locals_setNode_pend] at h; exact i.localAdds m s' c' h
      · intro m q h
        dsimp only at h
        simp only [setNode_node] at h
        by_cases hm : m = n
        · subst hm
          simp only [if_true, pendNode_pending] at h
          exact i.pendAdds m q (List.mem_of_mem_erase h)
        · simp only [hm, if_false] at h; exact i.pendAdds m q h
      · exact i.netClock
      · exact i.delClock
      · intro m s' c' src t' h hd
        dsimp only at h
        rw [locals_setNode_pend] at h; exact i.seen m s' c' src t' h hd
      · intro n' s' c' ha
        dsimp only
        rw [locals_setNode_pend]; exact i.accounted n' s' c' ha
      · exact i.evictedWhy
      · intro a b c d h
        obtain ⟨h1, c', h2⟩ := i.regFrom a b c d h
        exact ⟨h1, c', List.mem_cons_of_mem _ h2⟩
      · intro k hk
        rcases List.mem_cons.1 hk with hk | hk
        · subst hk; exact ⟨ht1, ht2, hadd⟩
        · exact i.claimWf k hk
      · exact i.netEmitted
    have e : ({ (σ.setNode n { (σ.node n) with pending := (σ.node n).pending.erase p }).send (emit .register n s t (σ.node n)) with
          claims := ⟨n, s, p.2, t⟩ :: σ.claims } : State) =
        ({ σ.setNode n (pendNode (σ.node n) p) with claims := ⟨n, s, p.2, t⟩ :: σ.claims } : State).send (emit .register n s t (σ.node n)) := rfl
    rw [e]
    apply Inv.send ia
    intro src s' t' dst h
    obtain ⟨d, hd, e⟩ := mem_emit h
    cases e
    exact ⟨ht2, fun x => hd x.symm, p.2, List.mem_cons_self⟩

theorem Inv.streamEnd {σ : State} (i : Inv σ) (n : NodeId) (s : ShardId) (c : Time) (id : Nat) :
    Inv (step cfg σ (.streamEnd n s c id)) := by
  simp only [step]
  have i1 : Inv (if aget (σ.node n).locals s = some c then { unregister σ n s c with ended := (n, s, c) :: σ.ended } else σ) := by
    split
    · rename_i hc
      have hev : (unregister σ n s c).evicted = σ.evicted := by simp [unregister, hc]
      exact i.unregisterWith n s c hc (unregister σ n s c).evicted ((n, s, c) :: σ.ended) (fun _ h => hev ▸ h)
        (fun _ h => List.mem_cons_of_mem _ h) (fun a b c d h => i.evictedWhy a b c d (hev ▸ h)) (Or.inr List.mem_cons_self)
    · exact i
  generalize (if aget (σ.node n).locals s = some c then { unregister σ n s c with ended := (n, s, c) :: σ.ended } else σ) = σ1 at i1
  split
  · have e : σ1.setNode n { (σ1.node n) with streams := aerase (σ1.node n).streams s } = σ1.setNode n (streamNode (σ1.node n) s) := rfl
    rw [e]
    apply Inv.ofSameCore _ i1
    refine ⟨rfl, rfl, rfl, rfl, rfl, rfl, rfl, rfl, ?_, ?_⟩
    · intro m; simp only [setNode_node]; by_cases hm : m = n <;> simp [hm]
    · intro m; simp only [setNode_node]; by_cases hm : m = n <;> simp [hm]
  · exact i1

theorem Inv.mergeRemote {σ : State} (i : Inv σ) (src : NodeId) (tbl : Table) (dst : NodeId) :
    Inv (mergeRemote σ src tbl dst) := by
  apply Inv.ofSameCore _ i
  refine ⟨rfl, rfl, rfl, rfl, rfl, rfl, rfl, rfl, ?_, ?_⟩
  · intro m; simp only [S2S.Gossip.mergeRemote, setNode_node]; by_cases hm : m = dst <;> simp [hm]
  · intro m; simp only [S2S.Gossip.mergeRemote, setNode_node]; by_cases hm : m = dst <;> simp [hm]

/-- the bookkeeping half of a delivery as a state transformer -/
def bookSt (σ : State) (it : Item) (keep : Bool) : State :=
  { σ with net := if keep then σ.net else σ.net.erase it, delivered := it :: σ.delivered }

/-- forced unregistration by a newer announcement, with the reason recorded -/
def evictSt (σ : State) (dst : NodeId) (s : ShardId) (c t : Time) : State :=
  { unregister σ dst s c with evicted := (dst, s, c, t) :: σ.evicted }

theorem evict_book_comm (σ : State) (it : Item) (keep : Bool) (dst s c t)
    (hl : aget (σ.node dst).locals s = some c) (hin : it ∈ σ.net) :
    evictSt (bookSt σ it keep) dst s c t = bookSt (evictSt σ dst s c t) it keep := by
  have hl2 : aget ((bookSt σ it keep).node dst).locals s = some c := hl
  simp only [evictSt, unregister, hl, hl2, if_true]
  cases keep
  · simp only [bookSt, State.send, State.setNode, Bool.false_eq_true, if_false]
    congr 1
    rw [List.erase_append_left _ hin]
  · rfl

theorem Inv.evict {σ : State} (i : Inv σ) (src dst : NodeId) (s : ShardId) (c t : Time)
    (hl : aget (σ.node dst).locals s = some c) (hlt : c < t) (hin : Item.ann .register src s t dst ∈ σ.net) :
    Inv (evictSt σ dst s c t) := by
  have hen : (unregister σ dst s c).ended = σ.ended := by simp [unregister, hl]
  have := i.unregisterWith dst s c hl ((dst, s, c, t) :: σ.evicted) (unregister σ dst s c).ended
    (fun _ h => List.mem_cons_of_mem _ h) (fun _ h => hen ▸ h)
    (by
      intro n' s' c' t' h
      rcases List.mem_cons.1 h with h | h
      · cases h; exact ⟨hlt, src, Or.inl hin⟩
      · exact i.evictedWhy n' s' c' t' h)
    (Or.inl ⟨t, List.mem_cons_self⟩)
  exact this

theorem Inv.notifyMsg {σ : State} (i : Inv σ) (src : NodeId) (kind : Kind) (s : ShardId) (t : Time) (dst : NodeId)
    (keep : Bool) (hin : Item.ann kind src s t dst ∈ σ.net) :
    Inv (notifyMsg (bookSt σ (Item.ann kind src s t dst) keep) kind s t dst) := by
  cases kind with
  | unregister =>
    simp only [S2S.Gossip.notifyMsg]
    exact i.book _ keep hin (by intro a b c d e h; cases h)
  | register =>
    simp only [S2S.Gossip.notifyMsg]
    have hnode : (bookSt σ (Item.ann .register src s t dst) keep).node = σ.node := rfl
    rw [hnode]
    cases hl : aget (σ.node dst).locals s with
    | none =>
      dsimp only
      apply i.book _ keep hin
      intro a b c d e h hl'
      cases h
      rw [hl] at hl'; cases hl'
    | some c =>
      dsimp only
      by_cases hlt : c < t
      · simp only [hlt, if_true]
        -- evict first (the announcement is still in the net), then do the bookkeeping
        have ie := i.evict src dst s c t hl hlt hin
        have hin' : Item.ann .register src s t dst ∈ (evictSt σ dst s c t).net := by
          simp only [evictSt, unregister, hl, if_true, send_net, setNode_net, List.mem_append]
          exact Or.inl hin
        have ib := ie.book _ keep hin' (by
          intro a b c' d e h hl'
          cases h
          simp only [evictSt, unregister, hl, if_true, send_node, setNode_node, aget_aerase] at hl'
          cases hl')
        have e := evict_book_comm σ (Item.ann .register src s t dst) keep dst s c t hl hin
        show Inv (evictSt (bookSt σ (Item.ann .register src s t dst) keep) dst s c t)
        rw [e]; exact ib
      · simp only [hlt, if_false]
        apply i.book _ keep hin
        intro a b c' d e h hl'
        cases h
        rw [hl] at hl'; cases hl'
        exact Nat.le_of_not_lt hlt

theorem Inv.step {σ : State} (i : Inv σ) (cfg : Cfg) (a : Act) : Inv (step cfg σ a) := by
  cases a with
  | tick => exact i.tick
  | add n s => exact i.add n s
  | announce n s => exact i.announce n s
  | streamEnd n s c id => exact i.streamEnd n s c id
  | deliver it keep =>
    simp only [S2S.Gossip.step]
    split
    · rename_i hin
      cases it with
      | ann kind src s t dst => exact i.notifyMsg src kind s t dst keep hin
      | snap src tbl dst =>
        exact Inv.mergeRemote (i.book _ keep hin (by intro a b c d e h; cases h)) src tbl dst
    · exact i
  | snapshot n m => exact i.mergeRemote n _ m
  | snapSend n m =>
    simp only [S2S.Gossip.step]
    apply i.send
    intro a b c d h
    simp at h
  | leave m n =>
    simp only [S2S.Gossip.step]
    apply Inv.ofSameCore _ i
    refine ⟨rfl, rfl, rfl, rfl, rfl, rfl, rfl, rfl, ?_, ?_⟩
    · intro k; simp only [setNode_node]; by_cases hm : k = m <;> simp [hm]
    · intro k; simp only [setNode_node]; by_cases hm : k = m <;> simp [hm]

theorem Inv.run {σ : State} (i : Inv σ) (cfg : Cfg) (acts : List Act) : Inv (run cfg σ acts) := by
  induction acts generalizing σ with
  | nil => exact i
  | cons a r ih => exact ih (i.step cfg a)

theorem inv_run (cfg : Cfg) (acts : List Act) : Inv (run cfg State.init acts) := Inv.init.run cfg acts

end S2S.Gossip
