import S2S.Proofs.GossipStep
/-! The ownership theorems of C09 derived from the invariant. -/
namespace S2S.Gossip

/-- (a) a node that still holds `s` registered it no earlier than the stamp of every register
    announcement for `s` that was ever delivered to it -/
theorem holder_not_older (cfg : Cfg) (acts : List Act) (m : NodeId) (s : ShardId) (c t : Time)
    (h : Holds (run cfg State.init acts) m s c) (hs : SawClaim (run cfg State.init acts) m s t) : t ≤ c := by
  obtain ⟨src, hd⟩ := hs
  exact (inv_run cfg acts).seen m s c src t h hd

theorem exists_newest (l : List Claim) (s : ShardId) (h : ∃ k ∈ l, k.shard = s) :
    ∃ k ∈ l, k.shard = s ∧ ∀ k' ∈ l, k'.shard = s → k'.created ≤ k.created := by
  induction l with
  | nil => obtain ⟨k, hk, _⟩ := h; cases hk
  | cons a r ih =>
    by_cases hr : ∃ k ∈ r, k.shard = s
    · obtain ⟨k, hk, hks, hmax⟩ := ih hr
      by_cases ha : a.shard = s ∧ k.created < a.created
      · refine ⟨a, List.mem_cons_self, ha.1, ?_⟩
        intro k' hk' hs'
        rcases List.mem_cons.1 hk' with e | e
        · subst e; exact Nat.le_refl _
        · exact Nat.le_trans (hmax k' e hs') (Nat.le_of_lt ha.2)
      · refine ⟨k, List.mem_cons_of_mem _ hk, hks, ?_⟩
        intro k' hk' hs'
        rcases List.mem_cons.1 hk' with e | e
        · subst e
          exact Nat.le_of_not_lt fun hlt => ha ⟨hs', hlt⟩
        · exact hmax k' e hs'
    · obtain ⟨k, hk, hks⟩ := h
      rcases List.mem_cons.1 hk with e | e
      · subst e
        refine ⟨k, List.mem_cons_self, hks, ?_⟩
        intro k' hk' hs'
        rcases List.mem_cons.1 hk' with e | e
        · subst e; exact Nat.le_refl _
        · exact absurd ⟨k', e, hs'⟩ hr
      · exact absurd ⟨k, e, hks⟩ hr

/-- exactly-one-owner from the invariant, for any state satisfying it -/
theorem exactly_one_of_inv {σ : State} (i : Inv σ) (s : ShardId) (hset : Settled σ s) (hdis : DisjointWindows σ s) :
    ∃ k, IsNewest σ s k ∧ OwnersAre σ s k.node k.created := by
  obtain ⟨k, hk, hks, hmax⟩ := exists_newest σ.claims s hset.claimed
  refine ⟨k, ⟨hk, hks, hmax⟩, ?_⟩
  obtain ⟨hkw1, _, hkadd⟩ := i.claimWf k hk
  rw [hks] at hkadd
  -- every local entry of `s` anywhere is a recorded claim
  have claimOf : ∀ m c, aget (σ.node m).locals s = some c → ∃ k' ∈ σ.claims, k'.node = m ∧ k'.shard = s ∧ k'.created = c := by
    intro m c h
    exact hset.announced (m, s, c) (i.localAdds m s c h) rfl
  intro m
  by_cases hm : m = k.node
  · subst hm
    simp only [if_true]
    rcases i.accounted k.node s k.created hkadd with h | ⟨t, h⟩ | h | ⟨c', h, hlt⟩
    · exact h
    · -- evicted by the announcement of some claim k' of another node: impossible with disjoint windows
      exfalso
      obtain ⟨hct, src, hreg⟩ := i.evictedWhy k.node s k.created t h
      obtain ⟨hne, c', hk'⟩ := i.regFrom src s t k.node hreg
      have hle := hmax ⟨src, s, c', t⟩ hk' rfl
      rcases hdis k hk ⟨src, s, c', t⟩ hk' hks rfl (fun e => hne e.symm) with h1 | h1
      · exact absurd (Nat.lt_of_le_of_lt hkw1 h1) (Nat.not_lt.2 hle)
      · exact absurd hct (Nat.not_lt.2 (Nat.le_of_lt h1))
    · exact absurd rfl (hset.noEnd _ h)
    · exfalso
      obtain ⟨k', hk', hn', hs', hc'⟩ := hset.announced (k.node, s, c') h rfl
      have := hmax k' hk' hs'
      rw [hc'] at this
      exact absurd hlt (Nat.not_lt.2 this)
  · simp only [hm, if_false]
    cases hl : aget (σ.node m).locals s with
    | none => rfl
    | some c =>
      exfalso
      obtain ⟨k', hk', hn', hs', hc'⟩ := claimOf m c hl
      have hne : k.node ≠ k'.node := fun e => hm (hn' ▸ e.symm)
      have hdel := hset.delivered k hk k' hk' hks hs' hne
      unfold regItem at hdel
      rw [hks, hn'] at hdel
      have h1 : k.stamp ≤ c := i.seen m s c k.node k.stamp hl hdel
      have h2 : c ≤ k.created := hc' ▸ hmax k' hk' hs'
      obtain ⟨hw', _, _⟩ := i.claimWf k' hk'
      rcases hdis k hk k' hk' hks hs' hne with h3 | h3
      · rw [hc'] at h3
        exact absurd (Nat.lt_of_le_of_lt (Nat.le_trans h2 hkw1) h3) (Nat.lt_irrefl _)
      · rw [hc'] at hw'
        exact absurd (Nat.lt_of_le_of_lt hw' (Nat.lt_of_lt_of_le h3 (Nat.le_trans hkw1 h1))) (Nat.lt_irrefl _)

/-- how a step changes the claim history -/
theorem step_claims (cfg : Cfg) (σ : State) (a : Act) :
    (step cfg σ a).claims = σ.claims ∨
    ∃ n s c, (step cfg σ a).claims = ⟨n, s, c, if cfg.stampAtBroadcast then σ.clock else c⟩ :: σ.claims := by
  cases a with
  | tick => exact Or.inl rfl
  | add n s => exact Or.inl rfl
  | announce n s =>
    simp only [step]
    cases hf : (σ.node n).pending.find? (fun p => p.1 == s) with
    | none => exact Or.inl rfl
    | some p => exact Or.inr ⟨n, s, p.2, rfl⟩
  | streamEnd n s c id =>
    left
    simp only [step]
    have h1 : (if aget (σ.node n).locals s = some c then { unregister σ n s c with ended := (n, s, c) :: σ.ended } else σ).claims = σ.claims := by
      split
      · simp only [unregister]; split <;> rfl
      · rfl
    generalize (if aget (σ.node n).locals s = some c then { unregister σ n s c with ended := (n, s, c) :: σ.ended } else σ) = σ1 at h1 ⊢
    split
    · exact h1
    · exact h1
  | deliver it keep =>
    left
    simp only [step]
    split
    · cases it with
      | ann kind src s t dst =>
        cases kind with
        | unregister => rfl
        | register =>
          simp only [notifyMsg]
          split
          · split
            · simp only [unregister]; split <;> rfl
            · rfl
          · rfl
      | snap src tbl dst => rfl
    · rfl
  | snapshot n m => exact Or.inl rfl
  | snapSend n m => exact Or.inl rfl
  | leave m n => exact Or.inl rfl

/-- with the announcement stamped by `Created` (repaired model) every claim window is a point -/
theorem fixed_stamp_eq_created (acts : List Act) :
    ∀ k ∈ (run Cfg.fixed State.init acts).claims, k.stamp = k.created := by
  suffices h : ∀ σ : State, (∀ k ∈ σ.claims, k.stamp = k.created) →
      ∀ k ∈ (run Cfg.fixed σ acts).claims, k.stamp = k.created from h State.init (by intro k hk; cases hk)
  induction acts with
  | nil => intro σ h; exact h
  | cons a r ih =>
    intro σ h
    apply ih
    rcases step_claims Cfg.fixed σ a with e | ⟨n, s, c, e⟩
    · rw [e]; exact h
    · rw [e]
      intro k hk
      rcases List.mem_cons.1 hk with e | e
      · subst e; rfl
      · exact h k e

/-! ### leave -/

/-- internal (non-decidable) forms of the Spec predicates and the conversions -/
def NoMergeFrom' (n m : NodeId) (acts : List Act) : Prop :=
  ∀ a ∈ acts, a ≠ .snapshot n m ∧ ∀ tbl keep, a ≠ .deliver (.snap n tbl m) keep
def Silent' (n : NodeId) (acts : List Act) : Prop :=
  ∀ a ∈ acts, ∀ m, a ≠ .snapshot n m ∧ a ≠ .snapSend n m
def NoSnapInFlight' (σ : State) (n m : NodeId) : Prop := ∀ tbl, Item.snap n tbl m ∉ σ.net

theorem noMergeFrom_conv {n m acts} (h : NoMergeFrom n m acts) : NoMergeFrom' n m acts := by
  intro a ha
  have := h a ha
  constructor
  · intro e; subst e; simp [mergesFrom] at this
  · intro tbl keep e; subst e; simp [mergesFrom] at this

theorem silent_conv {n acts} (h : Silent n acts) : Silent' n acts := by
  intro a ha m
  have := h a ha
  constructor
  · intro e; subst e; simp [snapshotsOf] at this
  · intro e; subst e; simp [snapshotsOf] at this

theorem noSnap_conv {σ : State} {n m} (h : NoSnapInFlight σ n m) : NoSnapInFlight' σ n m := by
  intro tbl hm
  have := h _ hm
  simp [isSnapFromTo] at this

theorem leave_removes (cfg : Cfg) (σ : State) (m n : NodeId) :
    aget ((step cfg σ (.leave m n)).node m).remote n = none := by
  simp [step, aget_aerase]

/-- what an action can do to `m`'s entry for `n`: nothing, unless it merges a snapshot of `n` into `m` -/
theorem step_remote_none (cfg : Cfg) (σ : State) (a : Act) (n m : NodeId)
    (h : aget (σ.node m).remote n = none)
    (hno : a ≠ .snapshot n m ∧ ∀ tbl keep, a ≠ .deliver (.snap n tbl m) keep) :
    aget ((step cfg σ a).node m).remote n = none := by
  have hset : ∀ (σ' : State) (k : NodeId) (x : Node), x.remote = (σ'.node k).remote → (σ'.node m).remote = (σ.node m).remote →
      aget ((σ'.setNode k x).node m).remote n = none := by
    intro σ' k x hx hs
    simp only [setNode_node]
    by_cases hk : m = k
    · subst hk; simp only [if_true, hx, hs]; exact h
    · simp only [hk, if_false, hs]; exact h
  have hunreg : ∀ (σ' : State) k s c, (σ'.node m).remote = (σ.node m).remote → ((unregister σ' k s c).node m).remote = (σ.node m).remote := by
    intro σ' k s c hs
    simp only [unregister]
    split
    · simp only [send_node, setNode_node]
      by_cases hk : m = k
      · subst hk; simp only [if_true]; exact hs
      · simp only [hk, if_false]; exact hs
    · exact hs
  have hmerge : ∀ (σ' : State) src tbl dst, (σ'.node m).remote = (σ.node m).remote → ¬ (src = n ∧ dst = m) →
      aget ((mergeRemote σ' src tbl dst).node m).remote n = none := by
    intro σ' src tbl dst hs hne
    simp only [mergeRemote, setNode_node]
    by_cases hk : m = dst
    · subst hk
      have : ¬ n = src := fun e => hne ⟨e.symm, rfl⟩
      simp only [if_true, aget_aset, this, if_false, hs]; exact h
    · simp only [hk, if_false, hs]; exact h
  cases a with
  | tick => exact h
  | add k s => exact hset σ k _ rfl rfl
  | announce k s =>
    simp only [step]
    split
    · exact h
    · exact hset σ k _ rfl rfl
  | streamEnd k s c id =>
    simp only [step]
    have h1 : ((if aget (σ.node k).locals s = some c then { unregister σ k s c with ended := (k, s, c) :: σ.ended } else σ).node m).remote = (σ.node m).remote := by
      split
      · exact hunreg σ k s c rfl
      · rfl
    generalize (if aget (σ.node k).locals s = some c then { unregister σ k s c with ended := (k, s, c) :: σ.ended } else σ) = σ1 at h1
    split
    · simp only [setNode_node]
      by_cases hk : m = k
      · subst hk; simp only [if_true, h1]; exact h
      · simp only [hk, if_false, h1]; exact h
    · rw [h1]; exact h
  | deliver it keep =>
    simp only [step]
    split
    · cases it with
      | ann kind src s t dst =>
        cases kind with
        | unregister => exact h
        | register =>
          simp only [notifyMsg]
          split
          · split
            · exact Eq.trans (congrArg (fun r => aget r n) (hunreg _ dst s _ rfl)) h
            · exact h
          · exact h
      | snap src tbl dst =>
        apply hmerge _ src tbl dst rfl
        rintro ⟨rfl, rfl⟩
        exact hno.2 tbl keep rfl
    · exact h
  | snapshot k k' =>
    apply hmerge σ k _ k' rfl
    rintro ⟨rfl, rfl⟩
    exact hno.1 rfl
  | snapSend k k' => exact h
  | leave k k' =>
    simp only [step, setNode_node]
    by_cases hk : m = k
    · subst hk; simp only [if_true, aget_aerase]; split
      · rfl
      · exact h
    · simp only [hk, if_false]; exact h

/-- (b) once `m` has processed the leave of `n`, `n` stays absent from `m`'s table until a snapshot of `n` is merged -/
theorem absent_until_merge (cfg : Cfg) (σ : State) (n m : NodeId) (acts : List Act)
    (h : aget (σ.node m).remote n = none) (hno : NoMergeFrom' n m acts) :
    aget ((run cfg σ acts).node m).remote n = none := by
  induction acts generalizing σ with
  | nil => exact h
  | cons a r ih =>
    apply ih
    · exact step_remote_none cfg σ a n m h (hno a List.mem_cons_self)
    · intro b hb; exact hno b (List.mem_cons_of_mem _ hb)

/-- what an action can add to the snapshots of `n` in flight towards `m`: nothing, unless `n` sends one -/
theorem step_no_snap (cfg : Cfg) (σ : State) (a : Act) (n m : NodeId)
    (h : NoSnapInFlight' σ n m) (hs : a ≠ .snapSend n m) : NoSnapInFlight' (step cfg σ a) n m := by
  have hunreg : ∀ (σ' : State) k s c, NoSnapInFlight' σ' n m → NoSnapInFlight' (unregister σ' k s c) n m := by
    intro σ' k s c h' tbl hm
    simp only [unregister] at hm
    split at hm
    · simp only [send_net, setNode_net, List.mem_append] at hm
      rcases hm with hm | hm
      · exact h' tbl hm
      · obtain ⟨_, _, e⟩ := mem_emit hm; cases e
    · exact h' tbl hm
  cases a with
  | tick => exact h
  | add k s => exact h
  | announce k s =>
    simp only [step]
    split
    · exact h
    · intro tbl hm
      simp only [send_net, setNode_net, List.mem_append] at hm
      rcases hm with hm | hm
      · exact h tbl hm
      · obtain ⟨_, _, e⟩ := mem_emit hm; cases e
  | streamEnd k s c id =>
    simp only [step]
    have h1 : NoSnapInFlight' (if aget (σ.node k).locals s = some c then { unregister σ k s c with ended := (k, s, c) :: σ.ended } else σ) n m := by
      split
      · exact hunreg σ k s c h
      · exact h
    generalize (if aget (σ.node k).locals s = some c then { unregister σ k s c with ended := (k, s, c) :: σ.ended } else σ) = σ1 at h1
    split
    · exact h1
    · exact h1
  | deliver it keep =>
    simp only [step]
    split
    · have h0 : NoSnapInFlight' { σ with net := if keep then σ.net else σ.net.erase it, delivered := it :: σ.delivered } n m := by
        intro tbl hm
        dsimp only at hm
        cases keep
        · exact h tbl (List.mem_of_mem_erase hm)
        · exact h tbl hm
      cases it with
      | ann kind src s t dst =>
        cases kind with
        | unregister => exact h0
        | register =>
          simp only [notifyMsg]
          split
          · split
            · exact hunreg _ dst s _ h0
            · exact h0
          · exact h0
      | snap src tbl dst => exact h0
    · exact h
  | snapshot k k' => exact h
  | snapSend k k' =>
    intro tbl hm
    simp only [step, send_net, List.mem_append, List.mem_singleton] at hm
    rcases hm with hm | hm
    · exact h tbl hm
    · cases hm; exact hs rfl
  | leave k k' => exact h

/-- (b) with the delivery assumption spelled out: `n` is silent after its leave and none of its
    snapshots is still in flight towards `m` ⇒ `m` never lists `n` again -/
theorem departed_stays_absent (cfg : Cfg) (σ : State) (n m : NodeId) (acts : List Act)
    (h : aget (σ.node m).remote n = none) (hnet : NoSnapInFlight' σ n m) (hsil : Silent' n acts) :
    aget ((run cfg σ acts).node m).remote n = none := by
  induction acts generalizing σ with
  | nil => exact h
  | cons a r ih =>
    have ha := hsil a List.mem_cons_self m
    apply ih
    · by_cases hd : ∃ tbl keep, a = .deliver (.snap n tbl m) keep
      · obtain ⟨tbl, keep, rfl⟩ := hd
        simp only [step, hnet tbl, if_false]
        exact h
      · exact step_remote_none cfg σ a n m h ⟨ha.1, fun tbl keep e => hd ⟨tbl, keep, e⟩⟩
    · exact step_no_snap cfg σ a n m hnet ha.2
    · intro b hb; exact hsil b (List.mem_cons_of_mem _ hb)

end S2S.Gossip
