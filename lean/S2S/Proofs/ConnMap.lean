import S2S.Model.ConnMap
/-! Invariant of the table ⇄ client-connection coupling (C11) and its consequences. -/
namespace S2S.ConnMap

def pairs (l : List Sess) : List (Nat × Nat) := l.map fun s => (s.key, s.obj)

structure Inv (σ : St) : Prop where
  map    : σ.connMap.getD [] = pairs σ.muxes
  nil    : σ.connMap = none ↔ σ.muxes = []
  eps    : σ.endpoints = σ.keys
  keysLt : ∀ s ∈ σ.muxes, s.key < σ.seq
  objsLt : ∀ s ∈ σ.muxes, s.obj < σ.nextObj
  keysPw : σ.muxes.Pairwise (fun a b => a.key < b.key)
  objsPw : σ.muxes.Pairwise (fun a b => a.obj < b.obj)
  cap    : σ.muxes.length ≤ σ.cap ∨ σ.muxes.length = 0

theorem inv_init (n : Nat) : Inv (St.init n) := by
  constructor <;> simp [St.init, pairs, St.keys]

theorem notify_fields (σ : St) :
    (notifyChange σ).muxes = σ.muxes ∧ (notifyChange σ).seq = σ.seq ∧ (notifyChange σ).nextObj = σ.nextObj ∧
    (notifyChange σ).cap = σ.cap ∧ (notifyChange σ).live = σ.live ∧ (notifyChange σ).applied = true ∧
    (notifyChange σ).connMap.getD [] = pairs σ.muxes ∧ ((notifyChange σ).connMap = none ↔ σ.muxes = []) ∧
    (notifyChange σ).endpoints = σ.keys := by
  unfold notifyChange onConnectionListUpdate
  cases h : σ.muxes with
  | nil => simp [updateState, pairs, St.keys, h]
  | cons x r => simp [updateState, pairs, St.keys, h, List.map_map, Function.comp_def]

/-- the invariant only depends on the table and the counters once `notifyChange` has run -/
theorem inv_notify (σ : St)
    (h1 : ∀ s ∈ σ.muxes, s.key < σ.seq) (h2 : ∀ s ∈ σ.muxes, s.obj < σ.nextObj)
    (h3 : σ.muxes.Pairwise (fun a b => a.key < b.key)) (h4 : σ.muxes.Pairwise (fun a b => a.obj < b.obj))
    (h5 : σ.muxes.length ≤ σ.cap ∨ σ.muxes.length = 0) : Inv (notifyChange σ) := by
  obtain ⟨e1, e2, e3, e4, _, _, e7, e8, e9⟩ := notify_fields σ
  constructor
  · rw [e7, e1]
  · rw [e1]; exact e8
  · rw [e9]; simp [St.keys, e1]
  · rw [e1, e2]; exact h1
  · rw [e1, e3]; exact h2
  · rw [e1]; exact h3
  · rw [e1]; exact h4
  · rw [e1, e4]; exact h5

theorem inv_step (σ σ' : St) (a : Act) (hi : Inv σ) (hs : step σ a = some σ') : Inv σ' := by
  cases a with
  | add =>
    simp only [step] at hs
    split at hs <;> cases hs
    rename_i hc
    apply inv_notify
    · intro s hs'
      simp only [List.mem_append, List.mem_singleton] at hs'
      rcases hs' with h | rfl
      · have := hi.keysLt s h; simp only; omega
      · simp
    · intro s hs'
      simp only [List.mem_append, List.mem_singleton] at hs'
      rcases hs' with h | rfl
      · have := hi.objsLt s h; simp only; omega
      · simp
    · simp only [List.pairwise_append, List.pairwise_cons, List.Pairwise.nil, List.mem_singleton]
      refine ⟨hi.keysPw, ⟨by simp, trivial⟩, ?_⟩
      intro a ha b hb; subst hb; exact hi.keysLt a ha
    · simp only [List.pairwise_append, List.pairwise_cons, List.Pairwise.nil, List.mem_singleton]
      refine ⟨hi.objsPw, ⟨by simp, trivial⟩, ?_⟩
      intro a ha b hb; subst hb; exact hi.objsLt a ha
    · left; simp only [List.length_append, List.length_singleton]; omega
  | kill k =>
    simp only [step] at hs
    split at hs <;> cases hs
    have hmap : ∀ (f : Sess → Nat), (σ.muxes.map fun s => if s.key = k then { s with alive := false } else s).map f
        = σ.muxes.map (fun s => f (if s.key = k then { s with alive := false } else s)) := by intro f; simp [List.map_map, Function.comp_def]
    constructor
    · have := hi.map
      simp only [pairs, List.map_map, Function.comp_def] at this ⊢
      rw [this]; apply List.map_congr_left; intro s _; split <;> rfl
    · have := hi.nil; simp only [List.map_eq_nil_iff]; exact this
    · have := hi.eps
      simp only [St.keys, List.map_map, Function.comp_def] at this ⊢
      rw [this]; apply List.map_congr_left; intro s _; split <;> rfl
    · intro s hs'
      simp only [List.mem_map] at hs'
      obtain ⟨t, ht, rfl⟩ := hs'
      have := hi.keysLt t ht
      split <;> simpa using this
    · intro s hs'
      simp only [List.mem_map] at hs'
      obtain ⟨t, ht, rfl⟩ := hs'
      have := hi.objsLt t ht
      split <;> simpa using this
    · simp only [List.pairwise_map]
      apply hi.keysPw.imp
      intro a b hab; split <;> split <;> simpa using hab
    · simp only [List.pairwise_map]
      apply hi.objsPw.imp
      intro a b hab; split <;> split <;> simpa using hab
    · simpa using hi.cap
  | unregister k =>
    simp only [step] at hs
    split at hs <;> cases hs
    apply inv_notify
    · intro s hs'; exact hi.keysLt s (List.mem_filter.mp hs').1
    · intro s hs'; exact hi.objsLt s (List.mem_filter.mp hs').1
    · exact hi.keysPw.filter _
    · exact hi.objsPw.filter _
    · rcases hi.cap with h | h
      · left; exact Nat.le_trans (List.length_filter_le _ _) h
      · right; simp only [List.length_eq_zero_iff] at h ⊢; simp [h]
  | cancel =>
    simp only [step] at hs
    split at hs <;> cases hs
    exact ⟨hi.map, hi.nil, hi.eps, hi.keysLt, hi.objsLt, hi.keysPw, hi.objsPw, hi.cap⟩

theorem inv_run (acts : List Act) (σ : St) (hi : Inv σ) : Inv (run σ acts) := by
  induction acts generalizing σ with
  | nil => exact hi
  | cons a r ih =>
    simp only [run, List.foldl_cons]
    cases h : step σ a with
    | none => simpa [run] using ih σ hi
    | some σ' => simpa [run] using ih σ' (inv_step σ σ' a hi h)

theorem inv_reach (n : Nat) (acts : List Act) : Inv (run (St.init n) acts) := inv_run acts _ (inv_init n)


theorem pw_inj {α} (f : α → Nat) : ∀ (l : List α), l.Pairwise (fun a b => f a < f b) →
    ∀ a ∈ l, ∀ b ∈ l, f a = f b → a = b := by
  intro l
  induction l with
  | nil => intro _ a ha; simp at ha
  | cons x r ih =>
    intro hp a ha b hb hab
    rw [List.pairwise_cons] at hp
    obtain ⟨hx, hr⟩ := hp
    simp only [List.mem_cons] at ha hb
    rcases ha with rfl | ha <;> rcases hb with rfl | hb
    · rfl
    · have := hx b hb; omega
    · have := hx a ha; omega
    · exact ih hr a ha b hb hab

theorem find_pairs (l : List Sess) (k : Nat) :
    (pairs l).find? (fun p => p.1 = k) = (l.find? (fun s => s.key = k)).map (fun s => (s.key, s.obj)) := by
  induction l with
  | nil => rfl
  | cons x r ih =>
    simp only [pairs, List.map_cons, List.find?_cons]
    by_cases h : x.key = k
    · simp [h]
    · simp only [h, decide_false]
      simpa [pairs] using ih

theorem find_key (l : List Sess) (hp : l.Pairwise (fun a b => a.key < b.key)) (s : Sess) (hs : s ∈ l) :
    l.find? (fun t => t.key = s.key) = some s := by
  cases h : l.find? (fun t => t.key = s.key) with
  | none =>
    rw [List.find?_eq_none] at h
    have := h s hs; simp at this
  | some t =>
    have ht := List.mem_of_find?_eq_some h
    have hk := List.find?_some h
    simp only [decide_eq_true_eq] at hk
    rw [pw_inj (·.key) l hp t ht s hs hk]

theorem alive_iff (σ : St) (hi : Inv σ) (s : Sess) (hs : s ∈ σ.muxes) : sessionAlive σ s.obj = s.alive := by
  cases ha : s.alive with
  | true =>
    simp only [sessionAlive, List.any_eq_true]
    exact ⟨s, hs, by simp [ha]⟩
  | false =>
    simp only [sessionAlive, List.any_eq_false]
    intro t ht
    by_cases hobj : t.obj = s.obj
    · have := pw_inj (·.obj) _ hi.objsPw t ht s hs hobj
      subst this; simp [ha]
    · simp [hobj]

/-- the dialer opens a stream exactly on the object currently registered under that key, if it is alive -/
theorem dial_stream_iff (σ : St) (hi : Inv σ) (k o : Nat) :
    dial σ k = .stream o ↔ ∃ s ∈ σ.muxes, s.key = k ∧ s.obj = o ∧ s.alive = true := by
  unfold dial
  rw [hi.map, find_pairs]
  constructor
  · intro h
    cases hf : σ.muxes.find? (fun s => s.key = k) with
    | none => simp [hf] at h
    | some s =>
      have hs := List.mem_of_find?_eq_some hf
      have hk := List.find?_some hf
      simp only [decide_eq_true_eq] at hk
      simp only [hf, Option.map_some] at h
      rw [alive_iff σ hi s hs] at h
      cases ha : s.alive with
      | false => simp [ha] at h
      | true => simp [ha] at h; exact ⟨s, hs, hk, h, ha⟩
  · rintro ⟨s, hs, rfl, rfl, ha⟩
    rw [find_key _ hi.keysPw s hs]
    simp [alive_iff σ hi s hs, ha]

theorem dial_noKey_iff (σ : St) (hi : Inv σ) (k : Nat) : dial σ k = .noKey ↔ k ∉ σ.keys := by
  unfold dial
  rw [hi.map, find_pairs]
  constructor
  · intro h
    cases hf : σ.muxes.find? (fun s => s.key = k) with
    | none =>
      rw [List.find?_eq_none] at hf
      simp only [St.keys, List.mem_map, not_exists, not_and]
      intro s hs hk; have := hf s hs; simp [hk] at this
    | some s => simp only [hf, Option.map_some] at h; split at h <;> cases h
  · intro h
    have : σ.muxes.find? (fun s => s.key = k) = none := by
      rw [List.find?_eq_none]
      intro s hs; simp only [decide_eq_true_eq]
      intro hk; exact h (by simp only [St.keys, List.mem_map]; exact ⟨s, hs, hk⟩)
    simp [this]

theorem ready_iff (σ : St) (hi : Inv σ) (k : Nat) :
    k ∈ readyEndpoints σ ↔ ∃ s ∈ σ.muxes, s.key = k ∧ s.alive = true := by
  simp only [readyEndpoints, List.mem_filter, hi.eps]
  constructor
  · rintro ⟨_, h⟩
    cases hd : dial σ k with
    | stream o =>
      obtain ⟨s, hs, hk, _, ha⟩ := (dial_stream_iff σ hi k o).mp hd
      exact ⟨s, hs, hk, ha⟩
    | noKey => simp [hd] at h
    | sessionClosed => simp [hd] at h
  · rintro ⟨s, hs, hk, ha⟩
    refine ⟨by simp only [St.keys, List.mem_map]; exact ⟨s, hs, hk⟩, ?_⟩
    rw [(dial_stream_iff σ hi k s.obj).mpr ⟨s, hs, hk, rfl, ha⟩]


theorem served_inv (B : Balancer) (σ : St) (hi : Inv σ) (i o : Nat) (h : rpc B σ i = .served o) :
    ∃ s ∈ σ.muxes, s.obj = o ∧ s.alive = true := by
  unfold rpc at h
  split at h; · cases h
  split at h; · cases h
  split at h; · cases h
  rename_i k hk
  split at h
  · rename_i o' hd
    cases h
    obtain ⟨s, hs, _, ho, ha⟩ := (dial_stream_iff _ hi k o).mp hd
    exact ⟨s, hs, ho, ha⟩
  · cases h

theorem failover_inv (B : Balancer) (σ : St) (hi : Inv σ) (i : Nat) (hl : σ.live = true) (ha : σ.applied = true)
    (hs : ∃ s ∈ σ.muxes, s.alive = true) : ∃ o, rpc B σ i = .served o := by
  obtain ⟨s, hs, hal⟩ := hs
  have hready : readyEndpoints σ ≠ [] := by
    intro hnil
    have := (ready_iff _ hi s.key).mpr ⟨s, hs, rfl, hal⟩
    rw [hnil] at this; cases this
  unfold rpc
  simp only [hl, ha, Bool.true_eq_false, if_false]
  cases hp : B.pick (readyEndpoints σ) i with
  | none => exact absurd ((B.pick_none _ _).mp hp) hready
  | some k =>
    have hk := B.pick_mem _ _ _ hp
    obtain ⟨t, ht, hkey, htal⟩ := (ready_iff _ hi k).mp hk
    have := (dial_stream_iff _ hi k t.obj).mpr ⟨t, ht, hkey, rfl, htal⟩
    exact ⟨t.obj, by simp [this]⟩

theorem unavailable_inv (B : Balancer) (σ : St) (hi : Inv σ) (i : Nat) (hl : σ.live = true) (ha : σ.applied = true)
    (hs : ∀ s ∈ σ.muxes, s.alive = false) : rpc B σ i = .unavailable := by
  have hready : readyEndpoints σ = [] := by
    apply List.eq_nil_iff_forall_not_mem.mpr
    intro k hk
    obtain ⟨t, ht, _, htal⟩ := (ready_iff _ hi k).mp hk
    rw [hs t ht] at htal; cases htal
  unfold rpc
  simp only [hl, ha, Bool.true_eq_false, if_false, hready, (B.pick_none [] i).mpr rfl]

theorem step_cap (σ σ' : St) (a : Act) (hs : step σ a = some σ') : σ'.cap = σ.cap := by
  cases a <;> simp only [step] at hs <;> split at hs <;> cases hs <;>
    first | rfl | exact (notify_fields _).2.2.2.1

theorem run_cap (acts : List Act) (σ : St) : (run σ acts).cap = σ.cap := by
  induction acts generalizing σ with
  | nil => rfl
  | cons a r ih =>
    simp only [run, List.foldl_cons]
    cases hs : step σ a with
    | none => simpa [run] using ih σ
    | some σ' => simpa [run, step_cap σ σ' a hs] using ih σ'

/-- a successful `add`: the new state is live, resolved, and contains a live session -/
theorem add_spec (σ : St) (hl : σ.live = true) (hroom : σ.muxes.length < σ.cap) :
    ∃ σ', step σ .add = some σ' ∧ σ'.live = true ∧ σ'.applied = true ∧ ∃ s ∈ σ'.muxes, s.alive = true := by
  refine ⟨_, by simp only [step]; rw [if_pos ⟨hl, hroom⟩], ?_⟩
  obtain ⟨e1, _, _, _, e5, e6, _⟩ := notify_fields
    { σ with muxes := σ.muxes ++ [{ key := σ.seq, obj := σ.nextObj }], seq := σ.seq + 1, nextObj := σ.nextObj + 1 }
  refine ⟨by rw [e5]; exact hl, e6, ?_⟩
  rw [e1]
  exact ⟨_, List.mem_append_right _ (List.mem_singleton.mpr rfl), rfl⟩

theorem run_snoc (σ : St) (acts : List Act) (a : Act) :
    run σ (acts ++ [a]) = (step (run σ acts) a).getD (run σ acts) := by
  simp [run, List.foldl_append]

end S2S.ConnMap
