import S2S.Model.Shard
/-!
Lemmas for C07 (`S2S/Props/C07.lean`): the int32 model of `common.GCD` / `common.LCM` /
`MapShardID` agrees with the mathematical `Nat.gcd` / `Nat.lcm` / `(s - 1) % n + 1` whenever
the product of the two shard counts fits in int32.  Core Lean only.
-/
namespace S2S.Shard

/-! ### int32 wrap is the identity inside the int32 range -/

theorem wrap32_id (x : Int) (h0 : -2147483648 ≤ x) (h1 : x < 2147483648) : wrap32 x = x := by
  unfold wrap32 two31 two32
  omega

theorem wrap32_natCast (x : Nat) (h : x < 2147483648) : wrap32 (x : Int) = (x : Int) :=
  wrap32_id _ (by omega) (by omega)

/-! ### the Euclid loop -/

theorem gcdLoop_eq (fuel : Nat) : ∀ a b : Nat, b < fuel →
    gcdLoop fuel (a : Int) (b : Int) = ((Nat.gcd a b : Nat) : Int) := by
  induction fuel with
  | zero => intro a b h; omega
  | succ fuel ih =>
    intro a b h
    unfold gcdLoop
    by_cases hb : b = 0
    · subst hb; simp
    · have hb' : ¬ ((b : Int) = 0) := by omega
      rw [if_neg hb', ← Int.ofNat_tmod]
      have hlt : a % b < b := Nat.mod_lt _ (Nat.pos_of_ne_zero hb)
      rw [ih b (a % b) (by omega)]
      congr 1
      rw [Nat.gcd_comm b (a % b), ← Nat.gcd_rec, Nat.gcd_comm]

theorem gcd32_eq (a b : Nat) (ha : 1 ≤ a) (hb : 1 ≤ b) :
    gcd32 (a : Int) (b : Int) = ((Nat.gcd a b : Nat) : Int) := by
  unfold gcd32
  have h0 : ¬ ((a : Int) = 0 ∨ (b : Int) = 0) := by omega
  rw [if_neg h0]
  by_cases hab : (a : Int) > (b : Int)
  · simp only [hab, if_true]
    have : (a : Int).natAbs + 2 = a + 2 := by simp
    rw [this, gcdLoop_eq _ b a (by omega), Nat.gcd_comm]
  · simp only [hab, if_false]
    have : (b : Int).natAbs + 2 = b + 2 := by simp
    rw [this, gcdLoop_eq _ a b (by omega)]

/-! ### LCM -/

theorem lcm_le_mul (a b : Nat) : Nat.lcm a b ≤ a * b := by
  unfold Nat.lcm
  exact Nat.div_le_self _ _

theorem lcm32_correct (a b : Nat) (ha : 1 ≤ a) (hb : 1 ≤ b) (h : a * b < 2147483648) :
    lcm32 (a : Int) (b : Int) = ((Nat.lcm a b : Nat) : Int) := by
  unfold lcm32
  have h0 : ¬ ((a : Int) = 0 ∨ (b : Int) = 0) := by omega
  rw [if_neg h0, gcd32_eq a b ha hb]
  have hm : (a : Int) * (b : Int) = ((a * b : Nat) : Int) := by simp
  rw [hm, wrap32_natCast _ h, ← Int.ofNat_tdiv]
  have hl : a * b / Nat.gcd a b = Nat.lcm a b := rfl
  rw [hl]
  exact wrap32_natCast _ (Nat.lt_of_le_of_lt (lcm_le_mul a b) h)

theorem lcm32_symm (a b : Nat) (ha : 1 ≤ a) (hb : 1 ≤ b) (h : a * b < 2147483648) :
    lcm32 (a : Int) (b : Int) = lcm32 (b : Int) (a : Int) := by
  rw [lcm32_correct a b ha hb h, lcm32_correct b a hb ha (by rw [Nat.mul_comm]; exact h),
    Nat.lcm_comm]

/-! ### MapShardID on a multiple -/

theorem mod_succ_eq (s n : Nat) (hs1 : 1 ≤ s) (hs : s ≤ n) : (s - 1) % n + 1 = s := by
  rw [Nat.mod_eq_of_lt (by omega)]; omega

/-- `MapShardID(L, n, s)` for `n ∣ L`, `L` in int32 range, `s ∈ [1, L]`. -/
theorem mapShardID_dvd (L n s : Nat) (hn : 1 ≤ n) (hd : n ∣ L) (hL0 : 0 < L)
    (hL : L < 2147483648) (hs1 : 1 ≤ s) (hs : s ≤ L) :
    mapShardID (L : Int) (n : Int) (s : Int) = some [(((s - 1) % n + 1 : Nat) : Int)] := by
  have hnL : n ≤ L := Nat.le_of_dvd hL0 hd
  have hmod : Int.tmod (L : Int) (n : Int) = 0 := by
    rw [← Int.ofNat_tmod, Nat.mod_eq_zero_of_dvd hd]; rfl
  have hsid : wrap32 ((s : Int) - 1) = ((s - 1 : Nat) : Int) := by
    rw [wrap32_id _ (by omega) (by omega)]; omega
  have hr : (s - 1) % n < n := Nat.mod_lt _ (by omega)
  unfold mapShardID
  have h1 : ¬ ((n : Int) = 0) := by omega
  rw [if_neg h1]
  have h2 : ¬ (Int.tmod (L : Int) (n : Int) ≠ 0 ∧ Int.tmod (n : Int) (L : Int) ≠ 0) := by
    rw [hmod]; simp
  rw [if_neg h2]
  simp only [hsid]
  have h3 : ¬ ((L : Int) < (n : Int)) := by omega
  rw [if_neg h3]
  by_cases hgt : (L : Int) > (n : Int)
  · rw [if_pos hgt, ← Int.ofNat_tmod]
    have : (((s - 1) % n : Nat) : Int) + 1 = (((s - 1) % n + 1 : Nat) : Int) := by simp
    rw [this, wrap32_natCast _ (by omega)]
  · rw [if_neg hgt]
    have hLn : L = n := by omega
    have : ((s - 1 : Nat) : Int) + 1 = ((s : Nat) : Int) := by omega
    rw [this, wrap32_natCast _ (by omega), mod_succ_eq s n hs1 (by omega)]

theorem map_single_owner (a b n s : Nat) (ha : 1 ≤ a) (hb : 1 ≤ b) (h : a * b < 2147483648)
    (hn : n = a ∨ n = b) (hs1 : 1 ≤ s) (hs : s ≤ Nat.lcm a b) :
    mapShardIDUnique (lcm32 (a : Int) (b : Int)) (n : Int) (s : Int) = some ((((s - 1) % n + 1 : Nat)) : Int)
    ∧ 1 ≤ (s - 1) % n + 1 ∧ (s - 1) % n + 1 ≤ n := by
  have hn1 : 1 ≤ n := by rcases hn with rfl | rfl <;> assumption
  have hd : n ∣ Nat.lcm a b := by
    rcases hn with rfl | rfl
    · exact Nat.dvd_lcm_left _ _
    · exact Nat.dvd_lcm_right _ _
  have hL0 : 0 < Nat.lcm a b := Nat.lcm_pos (by omega) (by omega)
  have hL : Nat.lcm a b < 2147483648 := Nat.lt_of_le_of_lt (lcm_le_mul a b) h
  have hr : (s - 1) % n < n := Nat.mod_lt _ (by omega)
  refine ⟨?_, by omega, by omega⟩
  unfold mapShardIDUnique
  rw [lcm32_correct a b ha hb h, mapShardID_dvd _ n s hn1 hd hL0 hL hs1 hs]

theorem hash_consistent (a b n hash : Nat) (ha : 1 ≤ a) (hb : 1 ≤ b) (h : a * b < 2147483648)
    (hn : n = a ∨ n = b) :
    mapShardIDUnique (lcm32 (a : Int) (b : Int)) (n : Int) ((hash % Nat.lcm a b + 1 : Nat) : Int)
      = some ((hash % n + 1 : Nat) : Int) := by
  have hd : n ∣ Nat.lcm a b := by
    rcases hn with rfl | rfl
    · exact Nat.dvd_lcm_left _ _
    · exact Nat.dvd_lcm_right _ _
  have hL0 : 0 < Nat.lcm a b := Nat.lcm_pos (by omega) (by omega)
  have hlt : hash % Nat.lcm a b < Nat.lcm a b := Nat.mod_lt _ hL0
  have key := (map_single_owner a b n (hash % Nat.lcm a b + 1) ha hb h hn (by omega) (by omega)).1
  rw [key, Nat.add_sub_cancel, Nat.mod_mod_of_dvd _ hd]

theorem forward_metadata (lc rc : Nat) (inverse : Bool) (md : StreamMD) (s : Nat)
    (hl : 1 ≤ lc) (hr : 1 ≤ rc) (h : lc * rc < 2147483648)
    (hs : md.serverShard = (s : Int)) (hs1 : 1 ≤ s) (hsL : s ≤ Nat.lcm lc rc) :
    lcmForward (lcmParams .lcm (lc : Int) (rc : Int) inverse) md = some
      { clientCluster := md.clientCluster
        clientShard := (s : Int)
        serverCluster := md.serverCluster
        serverShard := (((s - 1) % (if inverse then lc else rc) + 1 : Nat) : Int) } := by
  unfold lcmForward lcmParams
  cases inverse
  · have key := (map_single_owner lc rc rc s hl hr h (Or.inr rfl) hs1 hsL).1
    simp [hs, key]
  · have key := (map_single_owner lc rc lc s hl hr h (Or.inl rfl) hs1 hsL).1
    simp [hs, key]

theorem describe_both (lc rc : Nat) (inverse : Bool) (backend ov : Int)
    (hl : 1 ≤ lc) (hr : 1 ≤ rc) (h : lc * rc < 2147483648) :
    describeShardCount .lcm (lcmParams .lcm (lc : Int) (rc : Int) inverse) ov false backend
      = ((Nat.lcm lc rc : Nat) : Int)
    ∧ describeShardCount .lcm (lcmParams .lcm (lc : Int) (rc : Int) inverse) ov true backend = backend := by
  unfold describeShardCount lcmParams
  simp [lcm32_correct lc rc hl hr h]

end S2S.Shard
