import S2S.Proofs.TranslateValPath
/-! C16 (value level): what the access check needs of the skip shortcut — an event / a blob that translation walks (so:
    one the shortcut did NOT skip) is not skipped afterwards either.  This holds as soon as the matcher never turns a
    non-empty name into the empty name (`NoNewEmpty`); it may turn the empty name into a non-empty one. -/
set_option linter.unusedSectionVars false
namespace S2S.TranslateVal
open S2S.Translate S2S.NameMap
variable {α : Type} [DecidableEq α] (g : Graph) (tb : Tables) (X : Ext α) (mt : α → α × Bool)

/-- translation does not make the skip shortcut skip something it walked -/
structure SkipStable : Prop where
  ev : ∀ (v : Val α) (fc : Option FieldD), evSkippable g tb X v = false → evSkippable g tb X (visitNs g tb X mt fc v).1 = false
  evs : ∀ (l : List (Val α)), listSkippable g tb X l = false → listSkippable g tb X (visitNsItems g tb X mt .plain l).1 = false

theorem skipStable_of_keepsEmpty (hE : KeepsEmpty mt X.empty) : SkipStable g tb X mt :=
  ⟨fun v fc h => by rw [evSkippable_visit g tb X mt hE]; exact h,
   fun l h => by rw [listSkippable_visit g tb X mt hE]; exact h⟩

/-- the matcher never produces the empty name from a non-empty one -/
def NoNewEmpty (e : α) : Prop := ∀ s, (app mt s).1 = e → s = e

/-! field look-up through the visitor -/
def fieldValF (name : Nat) : List FieldD → List (Val α) → Option (FieldD × Val α)
  | f :: fds, v :: vs => if f.go == name then some (f, v) else fieldValF name fds vs
  | _, _ => none

omit [DecidableEq α] in
theorem fieldVal_eq_F (name : Nat) : ∀ (fds : List FieldD) (fs : List (Val α)),
    fieldVal name fds fs = (fieldValF name fds fs).map (·.2) := by
  intro fds
  induction fds with
  | nil => intro fs; cases fs <;> rfl
  | cons f fds ih =>
    intro fs
    cases fs with
    | nil => rfl
    | cons v vs =>
      rw [fieldVal_cons]
      unfold fieldValF
      split
      · rfl
      · exact ih vs

theorem fieldVal_visit (mode : FMode) (name : Nat) : ∀ (fds : List FieldD) (fs : List (Val α)),
    fieldVal name fds (visitNsFields g tb X mt mode fds fs).1 =
      (fieldValF name fds fs).map (fun p => (nsFieldStep g tb X mt mode p.1 p.2).1) := by
  intro fds
  induction fds with
  | nil => intro fs; rw [visitNsFields_nil]; cases fs <;> rfl
  | cons f fds ih =>
    intro fs
    cases fs with
    | nil => rfl
    | cons v vs =>
      rw [visitNsFields_cons, fieldVal_cons]
      unfold fieldValF
      split
      · rfl
      · exact ih vs

/-- the sub-value of a visited struct -/
theorem sub_visit_msg (fc : Option FieldD) (name ty : Nat) (fs : List (Val α)) :
    sub g name (visitNs g tb X mt fc (.msg ty fs)).1 =
      (fieldValF name (g.typeD ty).fields fs).map (fun p => (nsFieldStep g tb X mt (nsMode g ty) p.1 p.2).1) := by
  rw [visitNs_msg]
  exact fieldVal_visit g tb X mt _ name _ fs

omit [DecidableEq α] in
theorem sub_msg (name ty : Nat) (fs : List (Val α)) :
    sub g name (.msg ty fs) = (fieldValF name (g.typeD ty).fields fs).map (·.2) :=
  fieldVal_eq_F name _ fs

/-- only structs have sub-values, and the visitor keeps non-structs non-structs -/
def Val.isMsg : Val α → Bool
  | .msg _ _ => true
  | _ => false

omit [DecidableEq α] in
theorem sub_nonmsg (name : Nat) (v : Val α) (h : v.isMsg = false) : sub g name v = none := by
  cases v <;> first | rfl | cases h

theorem visitNs_isMsg (fc : Option FieldD) (v : Val α) : (visitNs g tb X mt fc v).1.isMsg = v.isMsg := by
  cases v <;> try rfl
  case str s =>
    cases fc with
    | none => rfl
    | some f => rw [visitNs_str_some]; rfl
  case blobEv re evs =>
    rw [visitNs_blobEv]
    split
    · unfold nsBlobStep
      rcases blobResult_cases re evs (listSkippable g tb X evs) (visitNsItems g tb X mt .plain evs) with ⟨h, _⟩ | ⟨h, _⟩ <;> rw [h] <;> rfl
    · rfl

def Val.tokOf : Val α → Option α
  | .tok t => some t
  | _ => none

theorem visitNs_tokOf (fc : Option FieldD) (v : Val α) : (visitNs g tb X mt fc v).1.tokOf = v.tokOf := by
  cases v <;> try rfl
  case str s =>
    cases fc with
    | none => rfl
    | some f => rw [visitNs_str_some]; rfl
  case blobEv re evs =>
    rw [visitNs_blobEv]
    split
    · unfold nsBlobStep
      rcases blobResult_cases re evs (listSkippable g tb X evs) (visitNsItems g tb X mt .plain evs) with ⟨h, _⟩ | ⟨h, _⟩ <;> rw [h] <;> rfl
    · rfl

theorem fieldStep_tokOf (mode : FMode) (f : FieldD) (v : Val α) : (nsFieldStep g tb X mt mode f v).1.tokOf = v.tokOf := by
  cases mode with
  | plain => exact visitNs_tokOf g tb X mt (some f) v
  | nsInfo =>
    cases hv : v.isStr with
    | true => cases v <;> first | rfl | cases hv
    | false => rw [nsFieldStep_nsInfo_nonstr g tb X mt f v hv]; exact visitNs_tokOf g tb X mt (some f) v
  | hist =>
    cases v <;> try rfl
    case list items => rw [nsFieldStep_hist_list]; split <;> rfl

omit [DecidableEq α] in
theorem evSkipTy_eq (v : Val α) :
    evSkipTy g tb X v = match (sub g X.eventTypeField v).bind Val.tokOf with
      | some t => (match X.evAttr t with | some a => tb.skipAttr.contains a | none => false)
      | none => false := by
  unfold evSkipTy
  cases h : sub g X.eventTypeField v with
  | none => rfl
  | some w => cases w <;> rfl

/-- the event type is not touched -/
theorem evSkipTy_visit (fc : Option FieldD) (v : Val α) : evSkipTy g tb X (visitNs g tb X mt fc v).1 = evSkipTy g tb X v := by
  rw [evSkipTy_eq, evSkipTy_eq]
  cases hv : v.isMsg with
  | false =>
    rw [sub_nonmsg g _ v hv, sub_nonmsg g _ _ (by rw [visitNs_isMsg]; exact hv)]
  | true =>
    cases v with
    | msg ty fs =>
      rw [sub_visit_msg, sub_msg]
      cases fieldValF X.eventTypeField (g.typeD ty).fields fs with
      | none => rfl
      | some p =>
        simp only [Option.map_some, Option.bind_some]
        rw [fieldStep_tokOf]
    | _ => cases hv

/-! link namespaces: a chain of field look-ups ending in a string -/
def getPath : List Nat → Val α → Option (Val α)
  | [], v => some v
  | n :: ns, v => (sub g n v).bind (getPath ns)

theorem app_nonempty (hD : NoNewEmpty mt X.empty) (s : α) (h : s ≠ X.empty) : (app mt s).1 ≠ X.empty :=
  fun h' => h (hD s h')

theorem strStep_nonempty (hD : NoNewEmpty mt X.empty) (ni : Bool) (f : FieldD) (s : α) (h : s ≠ X.empty) :
    (nsStrStep g tb mt ni f s).1 ≠ X.empty := by
  unfold nsStrStep
  by_cases h1 : (ni && f.go == g.nameField && f.goString) = true <;>
    by_cases h2 : isNsLeafField tb f = true <;>
    simp only [h1, h2, if_true, if_false, Bool.false_eq_true]
  · exact app_nonempty X mt hD _ (app_nonempty X mt hD s h)
  · exact app_nonempty X mt hD s h
  · exact app_nonempty X mt hD s h
  · exact h

omit [DecidableEq α] in
theorem getPath_str (ns : List Nat) (s0 : α) (w : Val α) (h : getPath g ns (.str s0) = some w) : ns = [] ∧ w = .str s0 := by
  cases ns with
  | nil => simp only [getPath, Option.some.injEq] at h; exact ⟨rfl, h.symm⟩
  | cons n ns => simp [getPath, sub] at h

omit [DecidableEq α] in
theorem getPath_list_str (ns : List Nat) (items : List (Val α)) (s : α) : getPath g ns (.list items) ≠ some (.str s) := by
  cases ns with
  | nil => simp [getPath]
  | cons n ns => simp [getPath, sub]

theorem fieldStep_hist_nonlist (f : FieldD) (v : Val α) (h : ∀ items, v ≠ .list items) :
    nsFieldStep g tb X mt .hist f v = (v, false) := by
  cases v <;> first | rfl | exact absurd rfl (h _)

/-- a non-empty name at the end of a chain of field look-ups is still there, non-empty, after the visitor -/
theorem getPath_visit (hD : NoNewEmpty mt X.empty) : ∀ (ns : List Nat) (v : Val α) (fc : Option FieldD) (s : α),
    getPath g ns v = some (.str s) → s ≠ X.empty →
    ∃ s', getPath g ns (visitNs g tb X mt fc v).1 = some (.str s') ∧ s' ≠ X.empty := by
  intro ns
  induction ns with
  | nil =>
    intro v fc s h hs
    simp only [getPath, Option.some.injEq] at h
    subst h
    cases fc with
    | none => exact ⟨s, rfl, hs⟩
    | some f =>
      rw [visitNs_str_some]
      exact ⟨_, rfl, strStep_nonempty g tb X mt hD false f s hs⟩
  | cons n ns ih =>
    intro v fc s h hs
    cases hv : v.isMsg with
    | false =>
      simp only [getPath] at h
      rw [sub_nonmsg g n v hv] at h
      cases h
    | true =>
      cases v with
      | msg ty fs =>
        simp only [getPath] at h ⊢
        rw [sub_msg] at h
        rw [sub_visit_msg]
        cases hp : fieldValF n (g.typeD ty).fields fs with
        | none => rw [hp] at h; cases h
        | some p =>
          rw [hp] at h
          simp only [Option.map_some, Option.bind_some] at h ⊢
          obtain ⟨f, w⟩ := p
          simp only at h ⊢
          cases hm : nsMode g ty with
          | plain => exact ih w (some f) s h hs
          | nsInfo =>
            cases hw : w.isStr with
            | true =>
              cases w with
              | str s0 =>
                obtain ⟨e1, e2⟩ := getPath_str g ns s0 _ h
                cases e2
                subst e1
                rw [nsFieldStep_nsInfo_str]
                exact ⟨_, rfl, strStep_nonempty g tb X mt hD true f s hs⟩
              | _ => cases hw
            | false =>
              rw [nsFieldStep_nsInfo_nonstr g tb X mt f w hw]
              exact ih w (some f) s h hs
          | hist =>
            rw [fieldStep_hist_nonlist g tb X mt f w (by
              intro items e; subst e; exact getPath_list_str g ns items s h)]
            exact ⟨s, h, hs⟩
      | _ => cases hv

theorem linkHasNs_eq (l : Val α) :
    linkHasNs g X l = match getPath g [X.variantField, X.workflowEventField, X.namespaceField] l with
      | some (.str s) => s != X.empty
      | _ => false := by
  unfold linkHasNs
  simp only [getPath]
  cases sub g X.variantField l with
  | none => rfl
  | some w1 =>
    simp only [Option.bind_some]
    cases sub g X.workflowEventField w1 with
    | none => rfl
    | some w2 =>
      simp only [Option.bind_some]
      cases sub g X.namespaceField w2 <;> rfl

theorem linkHasNs_iff (l : Val α) :
    linkHasNs g X l = true ↔
      ∃ s, getPath g [X.variantField, X.workflowEventField, X.namespaceField] l = some (.str s) ∧ s ≠ X.empty := by
  rw [linkHasNs_eq]
  cases h : getPath g [X.variantField, X.workflowEventField, X.namespaceField] l with
  | none => simp
  | some w =>
    cases w <;> simp

theorem linkHasNs_visit (hD : NoNewEmpty mt X.empty) (fc : Option FieldD) (l : Val α) (h : linkHasNs g X l = true) :
    linkHasNs g X (visitNs g tb X mt fc l).1 = true := by
  rw [linkHasNs_iff] at h ⊢
  obtain ⟨s, h1, h2⟩ := h
  exact getPath_visit g tb X mt hD _ l fc s h1 h2

theorem linkHasNs_itemStep (hD : NoNewEmpty mt X.empty) (mode : IMode) (l : Val α) (h : linkHasNs g X l = true) :
    linkHasNs g X (nsItemStep g tb X mt mode l).1 = true := by
  cases hv : l.isMsg with
  | false =>
    unfold linkHasNs at h
    rw [sub_nonmsg g _ l hv] at h
    cases h
  | true =>
    cases l with
    | msg ty fs =>
      cases mode with
      | plain => exact linkHasNs_visit g tb X mt hD none _ h
      | blobs => exact linkHasNs_visit g tb X mt hD none _ h
      | events =>
        rw [nsItemStep_events]
        split
        · exact h
        · exact linkHasNs_visit g tb X mt hD none _ h
    | _ => cases hv

theorem any_linkHasNs_items (hD : NoNewEmpty mt X.empty) (mode : IMode) (links : List (Val α))
    (h : links.any (linkHasNs g X) = true) : (visitNsItems g tb X mt mode links).1.any (linkHasNs g X) = true := by
  induction links with
  | nil => cases h
  | cons l ls ih =>
    rw [visitNsItems_cons]
    simp only [List.any_cons, Bool.or_eq_true] at h ⊢
    rcases h with h | h
    · exact Or.inl (linkHasNs_itemStep g tb X mt hD mode l h)
    · exact Or.inr (ih h)

/-- what a struct field holding the links becomes -/
theorem fieldStep_links (hD : NoNewEmpty mt X.empty) (mode : FMode) (f : FieldD) (links : List (Val α))
    (h : links.any (linkHasNs g X) = true) :
    ∃ links', (nsFieldStep g tb X mt mode f (.list links)).1 = .list links' ∧ links'.any (linkHasNs g X) = true := by
  cases mode with
  | plain =>
    rw [nsFieldStep_plain, visitNs_list]
    exact ⟨_, rfl, any_linkHasNs_items g tb X mt hD _ links h⟩
  | nsInfo =>
    rw [nsFieldStep_nsInfo_nonstr g tb X mt f _ rfl, visitNs_list]
    exact ⟨_, rfl, any_linkHasNs_items g tb X mt hD _ links h⟩
  | hist =>
    rw [nsFieldStep_hist_list]
    split
    · exact ⟨_, rfl, any_linkHasNs_items g tb X mt hD _ links h⟩
    · exact ⟨_, rfl, h⟩

theorem evLinked_iff (v : Val α) :
    evLinked g X v = true ↔ ∃ links, sub g g.linksField v = some (.list links) ∧ links.any (linkHasNs g X) = true := by
  unfold evLinked
  cases h : sub g g.linksField v with
  | none => simp
  | some w => cases w <;> simp

theorem evLinked_visit (hD : NoNewEmpty mt X.empty) (fc : Option FieldD) (v : Val α) (h : evLinked g X v = true) :
    evLinked g X (visitNs g tb X mt fc v).1 = true := by
  rw [evLinked_iff] at h ⊢
  obtain ⟨links, h1, h2⟩ := h
  cases hv : v.isMsg with
  | false => rw [sub_nonmsg g _ v hv] at h1; cases h1
  | true =>
    cases v with
    | msg ty fs =>
      rw [sub_msg] at h1
      rw [sub_visit_msg]
      cases hp : fieldValF g.linksField (g.typeD ty).fields fs with
      | none => rw [hp] at h1; cases h1
      | some p =>
        rw [hp] at h1
        obtain ⟨f, w⟩ := p
        simp only [Option.map_some, Option.some.injEq] at h1 ⊢
        subst h1
        exact fieldStep_links g tb X mt hD _ f links h2
    | _ => cases hv

theorem evSkippable_mono (hD : NoNewEmpty mt X.empty) (fc : Option FieldD) (v : Val α)
    (h : evSkippable g tb X v = false) : evSkippable g tb X (visitNs g tb X mt fc v).1 = false := by
  unfold evSkippable at h ⊢
  rw [evSkipTy_visit]
  cases hl : evLinked g X v with
  | true => rw [evLinked_visit g tb X mt hD fc v hl]; rfl
  | false =>
    rw [hl] at h
    simp only [Bool.not_false, Bool.true_and] at h
    rw [h, Bool.and_false]

theorem listSkippable_mono (hD : NoNewEmpty mt X.empty) (l : List (Val α))
    (h : listSkippable g tb X l = false) : listSkippable g tb X (visitNsItems g tb X mt .plain l).1 = false := by
  unfold listSkippable at h ⊢
  induction l with
  | nil => cases h
  | cons v vs ih =>
    rw [visitNsItems_cons, nsItemStep_plain]
    simp only [List.all_cons, Bool.and_eq_false_iff] at h ⊢
    rcases h with h | h
    · exact Or.inl (evSkippable_mono g tb X mt hD none v h)
    · exact Or.inr (ih h)

theorem skipStable_of_noNewEmpty (hD : NoNewEmpty mt X.empty) : SkipStable g tb X mt :=
  ⟨fun v fc h => evSkippable_mono g tb X mt hD fc v h, fun l h => listSkippable_mono g tb X mt hD l h⟩

/-- the root shortcut: a root that was walked is not skipped afterwards -/
theorem rootSkippable_stable (hS : SkipStable g tb X mt) (v : Val α) (h : rootSkippable g tb X v = false) :
    rootSkippable g tb X (visitNs g tb X mt none v).1 = false := by
  cases hv : v.isMsg with
  | false =>
    have : (visitNs g tb X mt none v).1.isMsg = false := by rw [visitNs_isMsg]; exact hv
    revert this
    cases (visitNs g tb X mt none v).1 <;> intro h' <;> first | rfl | cases h'
  | true =>
    cases v with
    | msg ty fs =>
      have e := hS.ev (.msg ty fs) none
      rw [visitNs_msg] at e ⊢
      unfold rootSkippable at h ⊢
      simp only [Bool.or_eq_false_iff, Bool.and_eq_false_iff] at h ⊢
      refine ⟨h.1, ?_⟩
      rcases h.2 with h2 | h2
      · exact Or.inl h2
      · exact Or.inr (e h2)
    | _ => cases hv

end S2S.TranslateVal
