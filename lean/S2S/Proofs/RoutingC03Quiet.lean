import S2S.Proofs.RoutingC03Inv2
import S2S.Proofs.RoutingC03Meas
/-! Quiescent states of the fault-free machine with all targets started are idle. -/
namespace S2S.Routing

theorem mem_eager_replayStep {σ : State} {g : List Bool} {t : TId} {todo : List (SId × Nat)} {p : SId × Nat}
    (ht : t < σ.targets.length) (h : (σ.tgt t).replayTodo = some todo) (hp : p ∈ todo) :
    Act.replayStep t p.1 ∈ eagerActs σ g := by
  unfold eagerActs
  simp only [List.mem_append, List.mem_flatMap, List.mem_range]
  refine Or.inl (Or.inl ⟨t, ht, ?_⟩)
  rw [h]; simp only [List.mem_append, List.mem_map]
  exact Or.inl ⟨p, hp, rfl⟩

theorem mem_eager_replayDone {σ : State} {g : List Bool} {t : TId} {todo : List (SId × Nat)}
    (ht : t < σ.targets.length) (h : (σ.tgt t).replayTodo = some todo) :
    Act.replayDone t ∈ eagerActs σ g := by
  unfold eagerActs
  simp only [List.mem_append, List.mem_flatMap, List.mem_range]
  refine Or.inl (Or.inl ⟨t, ht, ?_⟩)
  rw [h]; simp

theorem mem_eager_rack {σ : State} {g : List Bool} {s : SId} (hs : s < σ.sources.length) :
    Act.rack s ∈ eagerActs σ g := by
  unfold eagerActs
  simp only [List.mem_append, List.mem_flatMap, List.mem_range]
  refine Or.inl (Or.inr ⟨s, hs, ?_⟩)
  simp

theorem mem_eager_bcastStep {σ : State} {g : List Bool} {s : SId} {high : Int} {todo : List (TId × Nat)} {p : TId × Nat}
    (hs : s < σ.sources.length) (h : (σ.src s).pc = .bcast high todo) (hp : p ∈ todo) :
    Act.bcastStep s p.1 ∈ eagerActs σ g := by
  unfold eagerActs
  simp only [List.mem_append, List.mem_flatMap, List.mem_range]
  refine Or.inl (Or.inr ⟨s, hs, ?_⟩)
  rw [h]; simp only [List.mem_map]
  exact Or.inr ⟨p, hp, rfl⟩

theorem mem_eager_deliver {σ : State} {g : List Bool} {s : SId} {pending : List (TId × List Int)} {p : TId × List Int}
    (hs : s < σ.sources.length) (h : (σ.src s).pc = .deliver pending) (hp : p ∈ pending) :
    Act.deliver s p.1 ∈ eagerActs σ g := by
  unfold eagerActs
  simp only [List.mem_append, List.mem_flatMap, List.mem_range]
  refine Or.inl (Or.inr ⟨s, hs, ?_⟩)
  rw [h]; simp only [List.mem_map]
  exact Or.inr ⟨p, hp, rfl⟩

theorem mem_eager_emit {σ : State} {t : TId} (ht : t < σ.targets.length) :
    Act.emit t ∈ eagerActs σ [] := by
  unfold eagerActs
  simp only [List.mem_append, List.mem_flatMap, List.mem_range]
  refine Or.inr ⟨t, ht, ?_⟩
  simp

theorem mem_eager_take {σ : State} {g : List Bool} {t : TId} (ht : t < σ.targets.length) :
    Act.take t ∈ eagerActs σ g := by
  unfold eagerActs
  simp only [List.mem_append, List.mem_flatMap, List.mem_range]
  refine Or.inr ⟨t, ht, ?_⟩
  simp

theorem mem_eager_ackFwd {σ : State} {g : List Bool} {t : TId} {todo : List (SId × Int)} {d : Nat} {r : Bool} {p : SId × Int}
    (ht : t < σ.targets.length) (h : (σ.tgt t).ackPc = .forwarding todo d r) (hp : p ∈ todo) :
    Act.ackFwd t p.1 ∈ eagerActs σ g := by
  unfold eagerActs
  simp only [List.mem_append, List.mem_flatMap, List.mem_range]
  refine Or.inr ⟨t, ht, ?_⟩
  rw [h]; simp only [List.mem_append, List.mem_map]
  exact Or.inr (Or.inl ⟨p, hp, rfl⟩)

theorem mem_eager_ackFin {σ : State} {g : List Bool} {t : TId} {todo : List (SId × Int)} {d : Nat} {r : Bool}
    (ht : t < σ.targets.length) (h : (σ.tgt t).ackPc = .forwarding todo d r) :
    Act.ackFin t ∈ eagerActs σ g := by
  unfold eagerActs
  simp only [List.mem_append, List.mem_flatMap, List.mem_range]
  refine Or.inr ⟨t, ht, ?_⟩
  rw [h]; simp

theorem aget_cons_self {α} (k : Nat) (v : α) (r : List (Nat × α)) : aget ((k, v) :: r) k = some v := by
  simp [aget]

structure Good (nt : Nat) (σ : State) : Prop where
  inv2 : Inv2 nt σ
  started : ∀ t, t < nt → (σ.tgt t).started = true

structure Idle (σ : State) : Prop where
  srcs : ∀ s, (σ.src s).pc = .idle ∧ (σ.src s).ackChan = []
  tgts : ∀ t, (σ.tgt t).sendChan = [] ∧ (σ.tgt t).holding = none ∧ (σ.tgt t).ackPc = .idle ∧
    (σ.tgt t).replayTodo = none

theorem Good.registered {nt : Nat} {σ : State} (hG : Good nt σ) {t : TId} (ht : t < nt) :
    (σ.tgt t).registered = true := (hG.inv2.j.tgts t).reg (Or.inl (hG.started t ht))

theorem idle_of_quiescent {nt : Nat} {σ : State} (hG : Good nt σ) (hq : Quiescent Cfg.cur [] σ) : Idle σ := by
  have hq' := firstEnabled_none hq
  have hlen := hG.inv2.j.len
  -- 1. replay
  have h1 : ∀ t, (σ.tgt t).replayTodo = none := by
    intro t
    by_cases ht : t < σ.targets.length
    · cases hr : (σ.tgt t).replayTodo with
      | none => rfl
      | some todo =>
        exfalso
        cases todo with
        | nil =>
          have := hq' _ (mem_eager_replayDone (g := []) ht hr)
          simp [step, hr] at this
        | cons p r =>
          have := hq' _ (mem_eager_replayStep (g := []) (p := p) ht hr List.mem_cons_self)
          obtain ⟨k, v⟩ := p
          simp only [step, hr, aget_cons_self] at this
          split at this
          · split at this <;> cases this
          · cases this
    · rw [tgt_of_ge σ t (Nat.le_of_not_lt ht)]
  -- 2. ack channels
  have h2 : ∀ s, (σ.src s).ackChan = [] := by
    intro s
    by_cases hs : s < σ.sources.length
    · cases hc : (σ.src s).ackChan with
      | nil => rfl
      | cons p r =>
        exfalso
        have hact : (σ.src s).active = true :=
          active_of_ne_default (hG.inv2.inv.srcs s) (by intro e; rw [e] at hc; cases hc)
        have := hq' _ (mem_eager_rack (g := []) hs)
        obtain ⟨k, v⟩ := p
        simp only [step, hact, hc] at this
        simp at this
        split at this
        · cases this
        · split at this <;> cases this
    · rw [src_of_ge σ s (Nat.le_of_not_lt hs)]
  -- 3. holding
  have h3 : ∀ t, (σ.tgt t).holding = none := by
    intro t
    by_cases ht : t < σ.targets.length
    · cases hh : (σ.tgt t).holding with
      | none => rfl
      | some e =>
        exfalso
        have := hq' _ (mem_eager_emit ht)
        simp [step, hh] at this
    · rw [tgt_of_ge σ t (Nat.le_of_not_lt ht)]
  -- 4. send channels
  have h4 : ∀ t, (σ.tgt t).sendChan = [] := by
    intro t
    by_cases ht : t < σ.targets.length
    · cases hc : (σ.tgt t).sendChan with
      | nil => rfl
      | cons m r =>
        exfalso
        have := hq' _ (mem_eager_take (g := []) ht)
        simp [step, hc, h3 t, hG.started t (hlen ▸ ht)] at this
    · rw [tgt_of_ge σ t (Nat.le_of_not_lt ht)]
  -- 5. receiver pcs
  have h5 : ∀ s, (σ.src s).pc = .idle := by
    intro s
    by_cases hs : s < σ.sources.length
    · cases hpc : (σ.src s).pc with
      | idle => rfl
      | bcast high todo =>
        exfalso
        have hne := (hG.inv2.j.srcs s).pc2
        rw [hpc] at hne
        cases todo with
        | nil => exact hne rfl
        | cons p r =>
          have := hq' _ (mem_eager_bcastStep (g := []) (p := p) hs hpc List.mem_cons_self)
          obtain ⟨k, v⟩ := p
          simp only [step, hpc, aget_cons_self] at this
          split at this <;> cases this
      | deliver pending =>
        exfalso
        have hne := (hG.inv2.j.srcs s).pc2
        rw [hpc] at hne
        cases pending with
        | nil => exact hne.1 rfl
        | cons p r =>
          have := hq' _ (mem_eager_deliver (g := []) (p := p) hs hpc List.mem_cons_self)
          have hk := hne.2 p List.mem_cons_self
          obtain ⟨k, v⟩ := p
          simp only [step, hpc, aget_cons_self, hG.registered hk, h4 k] at this
          simp [hasRoom, Cfg.cur] at this
    · rw [src_of_ge σ s (Nat.le_of_not_lt hs)]
  -- 6. ack pcs
  have h6 : ∀ t, (σ.tgt t).ackPc = .idle := by
    intro t
    by_cases ht : t < σ.targets.length
    · cases hpc : (σ.tgt t).ackPc with
      | idle => rfl
      | forwarding todo d r =>
        exfalso
        cases todo with
        | nil =>
          have := hq' _ (mem_eager_ackFin (g := []) ht hpc)
          simp [step, hpc] at this
        | cons p rest =>
          have := hq' _ (mem_eager_ackFwd (g := []) (p := p) ht hpc List.mem_cons_self)
          have hact := (hG.inv2.j.tgts t).apcact
          rw [hpc] at hact
          have hact : (σ.src p.1).active = true := hact p List.mem_cons_self
          obtain ⟨k, v⟩ := p
          simp only [step, hpc, aget_cons_self, hact, h2 k] at this
          simp [hasRoom, Cfg.cur] at this
    · rw [tgt_of_ge σ t (Nat.le_of_not_lt ht)]
  exact ⟨fun s => ⟨h5 s, h2 s⟩, fun t => ⟨h4 t, h3 t, h6 t, h1 t⟩⟩

end S2S.Routing
