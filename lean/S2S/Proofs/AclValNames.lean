import S2S.Proofs.AclValSkip
/-! C16 (value level): the names the visitor finds in a translated tree are the translations of the names it finds in
    the original tree, in the same order — provided the matcher keeps empty names empty and non-empty names non-empty
    (the skip shortcut looks at the emptiness of link namespaces) and `NamespaceInfo.Name` goes through the matcher once. -/
set_option linter.unusedSectionVars false
namespace S2S.TranslateVal
open S2S.Translate S2S.NameMap
variable {α : Type} [DecidableEq α] (g : Graph) (tb : Tables) (X : Ext α) (mt : α → α × Bool)

theorem namesFields_nil (mode : FMode) (vs : List (Val α)) : namesFields g tb X mode [] vs = [] := by
  cases vs <;> rfl
theorem namesFields_nil' (mode : FMode) (fds : List FieldD) : namesFields g tb X mode fds ([] : List (Val α)) = [] := by
  cases fds <;> rfl
theorem namesItems_nil (mode : IMode) : namesItems g tb X mode ([] : List (Val α)) = [] := rfl

theorem namesFieldStep_nsInfo_nonstr (f : FieldD) (v : Val α) (h : v.isStr = false) :
    namesFieldStep g tb X .nsInfo f v = namesV g tb X (some f) v := by
  cases v <;> first | rfl | cases h

theorem namesFieldStep_nsInfo_str (f : FieldD) (s : α) :
    namesFieldStep g tb X .nsInfo f (.str s) = if nsLeafOf g tb true f then [s] else [] := rfl

theorem namesFieldStep_hist_list (f : FieldD) (items : List (Val α)) :
    namesFieldStep g tb X .hist f (.list items) = if f.go == X.eventsField then namesItems g tb X .events items else [] := rfl

theorem namesItemStep_events (v : Val α) :
    namesItemStep g tb X .events v = if evSkippable g tb X v then [] else namesV g tb X none v := rfl

theorem namesItemStep_blobs_blobEv (re : Bool) (evs : List (Val α)) :
    namesItemStep g tb X .blobs (.blobEv re evs) = if listSkippable g tb X evs then [] else namesItems g tb X .plain evs := rfl

/-- a string step offers `s`, and leaves the translation of `s` -/
theorem strStep_names (hN : NameOnce g tb) (ni : Bool) (f : FieldD) (s : α) :
    (if nsLeafOf g tb ni f then [(nsStrStep g tb mt ni f s).1] else []) =
      (if nsLeafOf g tb ni f then [s] else []).map (fun s => (app mt s).1) := by
  by_cases h : nsLeafOf g tb ni f = true
  · rw [if_pos h, if_pos h, strStep_single g tb mt hN ni f s h]; rfl
  · rw [if_neg h, if_neg h]; rfl

theorem nsLeafOf_false (f : FieldD) : nsLeafOf g tb false f = isNsLeafField tb f := by
  unfold nsLeafOf; simp

/-- the blob step: the result is a blob with the same skippability whose events offer the translated names -/
theorem blob_names (hS : SkipStable g tb X mt) (re : Bool) (evs : List (Val α))
    (ih : namesItems g tb X .plain (visitNsItems g tb X mt .plain evs).1 =
      (namesItems g tb X .plain evs).map (fun s => (app mt s).1)) :
    ∃ re' evs', (nsBlobStep g tb X mt re evs).1 = .blobEv re' evs' ∧
      listSkippable g tb X evs' = listSkippable g tb X evs ∧
      (listSkippable g tb X evs = false →
        namesItems g tb X .plain evs' = (namesItems g tb X .plain evs).map (fun s => (app mt s).1)) := by
  by_cases hs : listSkippable g tb X evs = true
  · refine ⟨re, evs, ?_, rfl, fun h => ?_⟩
    · unfold nsBlobStep blobResult; rw [if_pos hs]
    · rw [hs] at h; cases h
  · have hs' : listSkippable g tb X evs = false := by simpa using hs
    obtain ⟨re', e⟩ := blob_events g tb X mt re evs hs'
    exact ⟨re', _, e, by rw [hS.evs evs hs', hs'], fun _ => ih⟩

theorem names_visit (hS : SkipStable g tb X mt) (hN : NameOnce g tb) :
    (∀ v : Val α, ∀ fc,
        namesV g tb X fc (visitNs g tb X mt fc v).1 = (namesV g tb X fc v).map (fun s => (app mt s).1)) ∧
    (∀ l : List (Val α),
      (∀ mode fds, namesFields g tb X mode fds (visitNsFields g tb X mt mode fds l).1 =
          (namesFields g tb X mode fds l).map (fun s => (app mt s).1)) ∧
      (∀ mode, namesItems g tb X mode (visitNsItems g tb X mt mode l).1 =
          (namesItems g tb X mode l).map (fun s => (app mt s).1))) := by
  apply Val.ind2
  · intro s fc
    cases fc with
    | none => rfl
    | some f =>
      rw [visitNs_str_some, namesV_str_some, namesV_str_some, ← nsLeafOf_false g tb f]
      exact strStep_names g tb mt hN false f s
  · intro t fc; rfl
  · intro t fc; rfl
  · intro k fc; rfl
  · intro ty fs ih fc
    rw [visitNs_msg, namesV_msg, namesV_msg]
    exact ih.1 _ _
  · intro l ih fc
    rw [visitNs_list, namesV_list, namesV_list]
    exact ih.2 _
  · intro l ih fc
    rw [visitNs_map, namesV_map, namesV_map]
    exact ih.2 _
  · intro k v ih fc
    rw [visitNs_kv, namesV_kv, namesV_kv]
    exact ih none
  · intro e t fc; rfl
  · intro re evs ih fc
    rw [visitNs_blobEv]
    by_cases hb : blobCtx tb fc = true
    · rw [if_pos hb]
      obtain ⟨re', evs', e1, e2, e3⟩ := blob_names g tb X mt hS re evs (ih.2 .plain)
      rw [e1, namesV_blobEv, namesV_blobEv, hb, e2]
      cases hs : listSkippable g tb X evs with
      | true => rfl
      | false => exact e3 hs
    · rw [if_neg hb, namesV_blobEv]
      have : blobCtx tb fc = false := by simpa using hb
      rw [this]; rfl
  · refine ⟨fun mode fds => ?_, fun mode => rfl⟩
    cases fds with
    | nil => rw [visitNsFields_nil]; rfl
    | cons f fds => rw [visitNsFields_nil']; rfl
  · intro v vs ihv ihk ihvs
    refine ⟨?_, ?_⟩
    · intro mode fds
      cases fds with
      | nil => rw [visitNsFields_nil, namesFields_nil]; rfl
      | cons f fds =>
        rw [visitNsFields_cons, namesFields_cons, namesFields_cons, List.map_append, ihvs.1 mode fds]
        congr 1
        cases mode with
        | plain => exact ihv (some f)
        | nsInfo =>
          cases hv : v.isStr with
          | true =>
            cases v with
            | str s =>
              rw [nsFieldStep_nsInfo_str, namesFieldStep_nsInfo_str, namesFieldStep_nsInfo_str]
              exact strStep_names g tb mt hN true f s
            | _ => cases hv
          | false =>
            rw [nsFieldStep_nsInfo_nonstr g tb X mt f v hv, namesFieldStep_nsInfo_nonstr g tb X f v hv,
              namesFieldStep_nsInfo_nonstr g tb X f _ (by rw [visitNs_isStr]; exact hv)]
            exact ihv (some f)
        | hist =>
          cases v with
          | list items =>
            rw [nsFieldStep_hist_list, namesFieldStep_hist_list]
            by_cases he : (f.go == X.eventsField) = true
            · rw [if_pos he, if_pos he, namesFieldStep_hist_list, if_pos he]
              exact ihk.2 .events
            · rw [if_neg he, if_neg he, namesFieldStep_hist_list, if_neg he]; rfl
          | _ => rfl
    · intro mode
      rw [visitNsItems_cons, namesItems_cons, namesItems_cons, List.map_append, ihvs.2 mode]
      congr 1
      cases mode with
      | plain => exact ihv none
      | events =>
        rw [nsItemStep_events, namesItemStep_events, namesItemStep_events]
        by_cases he : evSkippable g tb X v = true
        · rw [if_pos he, if_pos he]; rfl
        · have he' : evSkippable g tb X v = false := by simpa using he
          rw [if_neg he, if_neg he, hS.ev v none he']
          exact ihv none
      | blobs =>
        cases v with
        | blobEv re evs =>
          rw [nsItemStep_blobs_blobEv]
          obtain ⟨re', evs', e1, e2, e3⟩ := blob_names g tb X mt hS re evs (ihk.2 .plain)
          rw [e1, namesItemStep_blobs_blobEv, namesItemStep_blobs_blobEv, e2]
          cases hs : listSkippable g tb X evs with
          | true => rfl
          | false => exact e3 hs
        | str s => exact ihv none
        | tok s => exact ihv none
        | payload s => exact ihv none
        | nil s => exact ihv none
        | blobRaw e t => exact ihv none
        | kv k w => exact ihv none
        | msg ty fs => exact ihv none
        | list l => exact ihv none
        | map l => exact ihv none

end S2S.TranslateVal
