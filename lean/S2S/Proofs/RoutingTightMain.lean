import S2S.Proofs.RoutingTightStepC
/-!
C04 modulo the recorded findings, TIGHT form: in every run (stream breaks and re-opens at any position) that satisfies
`EnvOKT`, every acknowledgement sent upstream covers only tasks that are confirmed by their target stream, or
(b) were (also) received by an earlier incarnation of the source stream, or (a) were lost with an incarnation of
their target stream AND have been passed by a later incarnation of it (it took a message of the same source stream
lying above the task).

Proof: `InvT` (S2S/Proofs/RoutingTightDef.lean) holds initially and is preserved by every step; every ack a step
sends equals the post-state's `lastSentAck` (`step_acksAreLast`), whose source is active; `last_safe` of `InvF` covers
the needed tasks, `last_safe` of `PairT` the lost-and-unpassed ones; every other task is excused.
-/
namespace S2S.Routing

theorem step_invT {σ σ' : State} {γ : GhostT} (hI : InvT σ γ) (a : Act)
    (henv : match a with
      | .recv s tasks high => RecvOK σ.targets.length (σ.src s) tasks high ∧ RecvFresh σ γ.g s tasks
      | _ => True)
    (h : step Cfg.cur σ a = some σ') : InvT σ' (γ.upd σ a) := by
  have hF' : InvF σ' (γ.g.upd σ a) := step_invF hI.f a henv h
  cases a with
  | recv s tasks high => exact step_invT_recv hI s tasks high henv.1 henv.2 h hF'
  | bcastStep s t => exact step_invT_bcastStep hI s t h hF'
  | deliver s t => exact step_invT_deliver hI s t h hF'
  | take t => exact step_invT_take hI t h hF'
  | emit t => exact step_invT_emit hI t h hF'
  | tack t w => exact step_invT_tack hI t w h hF'
  | ackFwd t s => exact step_invT_ackFwd hI t s h hF'
  | ackFin t => exact step_invT_ackFin hI t h hF'
  | rack s => exact step_invT_rack hI s h hF'
  | openSrc s => exact step_invT_openSrc hI s h hF'
  | openTgt t => exact step_invT_openTgt hI t h hF'
  | startTgt t => exact step_invT_startTgt hI t h hF'
  | replayStep t s => exact step_invT_replayStep hI t s h hF'
  | replayDone t => exact step_invT_replayDone hI t h hF'
  | tick => exact step_invT_tick hI h hF'
  | breakTgt t => exact step_invT_breakTgt hI t h hF'
  | breakSrc s => exact step_invT_breakSrc hI s h hF'

theorem step_ackStepSafeT {σ σ' : State} {γ' : GhostT} (hI' : InvT σ' γ') (hl : AcksAreLast σ σ') :
    AckStepSafeT σ σ' γ' := by
  intro s _ v hv p hp hlt
  have hlast := hl s v hv
  have hact := (hI'.f.src s).last_active v hlast
  have hb : ebase γ'.g s (σ'.src s) = γ'.g.baseOf s := by unfold ebase; rw [if_pos hact]
  by_cases h1 : p ∈ (σ'.src s).received.take (γ'.g.baseOf s)
  · right; left; exact h1
  · by_cases h2 : (s, p.1) ∈ γ'.g.lostOf p.2
    · by_cases h3 : (s, p.1) ∈ γ'.passedOf p.2
      · right; right; exact h3
      · left
        refine (hI'.pair s p.2).last_safe v hlast p.1 ?_ hlt
        exact ⟨hp, by rw [hb]; exact h1, h2, h3⟩
    · left
      refine (hI'.f.pair s p.2).last_safe v hlast p.1 ?_ hlt
      exact ⟨hp, by rw [hb]; exact h1, h2⟩

theorem acks_safeT_of_inv (σ : State) (γ : GhostT) (hI : InvT σ γ) (acts : List Act)
    (henv : EnvOKT Cfg.cur σ γ acts) : AcksSafeTAlong Cfg.cur σ γ acts := by
  induction acts generalizing σ γ with
  | nil => trivial
  | cons a rest ih =>
    unfold EnvOKT at henv
    obtain ⟨henva, henvr⟩ := henv
    unfold AcksSafeTAlong
    cases hstep : step Cfg.cur σ a with
    | none =>
      rw [hstep, ghostT_next_none γ hstep] at henvr
      exact ih σ γ hI henvr
    | some σ' =>
      rw [hstep] at henvr
      have hI' : InvT σ' (γ.next Cfg.cur σ a) := by
        rw [ghostT_next_of_step γ hstep]; exact step_invT hI a henva hstep
      exact ⟨step_ackStepSafeT hI' (step_acksAreLast a hstep), ih σ' _ hI' henvr⟩

/-- **C04 modulo the recorded findings, tight form** -/
theorem acks_safe_tight (ns nt : Nat) (acts : List Act)
    (henv : EnvOKT Cfg.cur (State.init ns nt) {} acts) :
    AcksSafeTAlong Cfg.cur (State.init ns nt) {} acts :=
  acks_safeT_of_inv _ _ (invT_init ns nt) acts henv

end S2S.Routing
