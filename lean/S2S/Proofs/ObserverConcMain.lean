import S2S.Proofs.ObserverConc
/-!
Concurrency clause of C20, main lemmas: one atomic `report` step on a well-formed state, the
closed form of every counter after a sequence of steps, permutation invariance of `sumAt`.
CORE LEAN ONLY.
-/
namespace S2S.Observer
open S2S.Shard

/-! ### `sumAt` -/

theorem sumAt_nil (k : Nat) : sumAt k [] = 0 := rfl

theorem sumAt_cons (k : Nat) (idx v : Int) (rest : List (Int × Int)) :
    sumAt k ((idx, v) :: rest) = if idx = (k : Int) then v + sumAt k rest else sumAt k rest := by
  unfold sumAt
  by_cases h : idx = (k : Int)
  · simp [h]
  · simp [h]

theorem sumAt_append (k : Nat) (a b : List (Int × Int)) :
    sumAt k (a ++ b) = sumAt k a + sumAt k b := by
  induction a with
  | nil => simp [sumAt_nil]
  | cons p rest ih =>
    obtain ⟨idx, v⟩ := p
    rw [List.cons_append, sumAt_cons, sumAt_cons, ih]
    split <;> omega

theorem sumAt_perm (k : Nat) {l₁ l₂ : List (Int × Int)} (h : l₁.Perm l₂) :
    sumAt k l₁ = sumAt k l₂ := by
  induction h with
  | nil => rfl
  | cons p _ ih =>
    obtain ⟨idx, v⟩ := p
    rw [sumAt_cons, sumAt_cons, ih]
  | swap p q l =>
    obtain ⟨i₁, v₁⟩ := p
    obtain ⟨i₂, v₂⟩ := q
    simp only [sumAt_cons]
    split <;> split <;> omega
  | trans _ _ ih₁ ih₂ => rw [ih₁, ih₂]

theorem sumAt_of_filter_eq (k : Nat) {l l' : List (Int × Int)}
    (h : l.filter (fun p => p.1 = (k : Int)) = l'.filter (fun p => p.1 = (k : Int))) :
    sumAt k l = sumAt k l' := by
  unfold sumAt; rw [h]

theorem sumAt_filter (k : Nat) (l : List (Int × Int)) :
    sumAt k (l.filter (fun p => p.1 = (k : Int))) = sumAt k l := by
  unfold sumAt; rw [List.filter_filter]; simp

theorem sumAt_rejected (k : Nat) (hk : (k : Int) ≤ maxObservedStreamIndex) (junk : List (Int × Int))
    (hj : ∀ p ∈ junk, ¬ Accepted p.1) : sumAt k junk = 0 := by
  induction junk with
  | nil => rfl
  | cons p rest ih =>
    obtain ⟨idx, v⟩ := p
    rw [sumAt_cons]
    have hna : ¬ Accepted idx := hj (idx, v) (List.mem_cons_self ..)
    have hne : idx ≠ (k : Int) := by
      intro h; apply hna; unfold Accepted; omega
    rw [if_neg hne]
    exact ih (fun p hp => hj p (List.mem_cons_of_mem _ hp))

theorem sumAt_pairs (k : Nat) (streams : List Int) :
    sumAt k (streams.flatMap fun i => [(i, (1 : Int)), (i, (-1 : Int))]) = 0 := by
  induction streams with
  | nil => rfl
  | cons i rest ih =>
    rw [List.flatMap_cons, sumAt_append, ih]
    simp only [sumAt_cons, sumAt_nil]
    split <;> omega

/-! ### `ValsInt32` -/

theorem valsInt32_perm {l₁ l₂ : List (Int × Int)} (h : l₁.Perm l₂) (hv : ValsInt32 l₁) :
    ValsInt32 l₂ :=
  fun p hp => hv p (h.mem_iff.2 hp)

theorem valsInt32_tail {p : Int × Int} {rest : List (Int × Int)} (hv : ValsInt32 (p :: rest)) :
    ValsInt32 rest :=
  fun q hq => hv q (List.mem_cons_of_mem _ hq)

theorem valsInt32_filter (f : Int × Int → Bool) {l : List (Int × Int)} (hv : ValsInt32 l) :
    ValsInt32 (l.filter f) :=
  fun p hp => hv p (List.mem_filter.1 hp).1

theorem valsInt32_canonical (streams : List Int) (junk : List (Int × Int))
    (hj : ∀ p ∈ junk, ¬ Accepted p.1) :
    ValsInt32 ((streams.flatMap fun i => [(i, (1 : Int)), (i, (-1 : Int))]) ++ junk) := by
  intro p hp hacc
  rcases List.mem_append.1 hp with hp | hp
  · obtain ⟨i, _, hi⟩ := List.mem_flatMap.1 hp
    simp only [List.mem_cons, List.not_mem_nil, or_false] at hi
    rcases hi with hi | hi <;> subst hi <;> simp [IsInt32]
  · exact absurd hacc (hj p hp)

/-! ### one atomic step -/

/-- exact shape of `report` on an unlocked state -/
theorem report_shape (o : Obs) (idx v : Int) (hfree : o.locked = false) :
    (¬ Accepted idx ∧ report o idx v = some (o, .ignored)) ∨
    (Accepted idx ∧ ∃ len', o.len ≤ len' ∧ idx.toNat < len' ∧ report o idx v =
      some ({ o with len := len', counters := addCounter o.counters idx.toNat v }, .ok)) := by
  unfold report
  by_cases h : idx < 0 ∨ idx > maxObservedStreamIndex
  · left
    refine ⟨?_, by rw [if_pos h]⟩
    unfold Accepted; omega
  · right
    have h0 : 0 ≤ idx := by omega
    have h1 : idx ≤ 1048576 := by unfold maxObservedStreamIndex at h; omega
    refine ⟨⟨h0, by unfold maxObservedStreamIndex; omega⟩, ?_⟩
    rw [if_neg h, hfree]
    simp only [Bool.false_eq_true, if_false]
    have hc := grow_covers idx o.len h0 h1
    have hge : o.len ≤
        (if idx.toNat ≥ o.len then
          ((if (idx + 1) * 9 < maxInt32 then (idx + 1) * 9 else maxInt32).tdiv 8).toNat
         else o.len) := by
      split
      · rename_i hi
        rw [if_pos hi] at hc
        omega
      · exact Nat.le_refl _
    exact ⟨_, hge, hc, by rw [if_pos hc]⟩

/-- one atomic step from an unlocked well-formed state: it completes, stays unlocked and
    well-formed, and changes exactly the counter of `idx` (by int32 addition). -/
theorem report_step (o : Obs) (idx v : Int) (hfree : o.locked = false) (hwf : o.WF)
    (hv : Accepted idx → IsInt32 v) :
    ∃ o' r, report o idx v = some (o', r) ∧ o'.locked = false ∧ o'.WF ∧ o.len ≤ o'.len ∧
      ∀ k : Nat, val o'.counters k =
        if idx = (k : Int) ∧ (k : Int) ≤ maxObservedStreamIndex
        then wrap32 (val o.counters k + v) else val o.counters k := by
  rcases report_shape o idx v hfree with ⟨hna, h⟩ | ⟨hacc, len', hle, hlt, h⟩
  · refine ⟨o, _, h, hfree, hwf, Nat.le_refl _, ?_⟩
    intro k
    rw [if_neg]
    intro hk
    apply hna
    unfold Accepted; omega
  · refine ⟨_, _, h, hfree, ?_, hle, ?_⟩
    · refine ⟨addCounter_cwf _ _ _ hwf.1 (hv hacc), ?_⟩
      intro p hp
      rcases addCounter_mem _ _ _ _ hp with hp | ⟨hp, _⟩
      · exact Nat.lt_of_lt_of_le (hwf.2 p hp) hle
      · show p.1 < len'
        omega
    · intro k
      show val (addCounter o.counters idx.toNat v) k = _
      by_cases hk : idx = (k : Int)
      · have hki : k = idx.toNat := by omega
        rw [if_pos ⟨hk, by have := hacc.2; omega⟩, hki]
        exact val_addCounter_eq _ _ _ hwf.1 (hv hacc)
      · rw [if_neg (fun hh => hk hh.1)]
        apply val_addCounter_ne
        have := hacc.1
        omega

/-! ### sequences of steps -/

theorem reports_cons_some {o o₁ : Obs} {idx v : Int} {r : ReportOutcome} {rest : List (Int × Int)}
    (h : report o idx v = some (o₁, r)) : reports o ((idx, v) :: rest) = reports o₁ rest := by
  simp only [reports, h]

theorem reports_never_blocks (l : List (Int × Int)) (o : Obs) (hfree : o.locked = false) :
    ∃ o', reports o l = some o' ∧ o'.locked = false := by
  induction l generalizing o with
  | nil => exact ⟨o, rfl, hfree⟩
  | cons p rest ih =>
    obtain ⟨idx, v⟩ := p
    obtain ⟨o₁, r, h, hf, _⟩ := report_total o idx v hfree
    rw [reports_cons_some h]
    exact ih o₁ hf

/-- closed form: after any sequence of reports from an unlocked well-formed state, the counter of
    every tracked index `k` is the int32 wrap of its old value plus the sum of the values reported
    for `k`; untracked indexes keep their value; the slice never shrinks. -/
theorem reports_spec (l : List (Int × Int)) (o : Obs) (hfree : o.locked = false) (hwf : o.WF)
    (hv : ValsInt32 l) :
    ∃ o', reports o l = some o' ∧ o'.locked = false ∧ o'.WF ∧ o.len ≤ o'.len ∧
      ∀ k : Nat, val o'.counters k =
        if (k : Int) ≤ maxObservedStreamIndex
        then wrap32 (val o.counters k + sumAt k l) else val o.counters k := by
  induction l generalizing o with
  | nil =>
    refine ⟨o, rfl, hfree, hwf, Nat.le_refl _, ?_⟩
    intro k
    rw [sumAt_nil, Int.add_zero, wrap32_of_isInt32 (val_isInt32 _ hwf.1 k)]
    split <;> rfl
  | cons p rest ih =>
    obtain ⟨idx, v⟩ := p
    obtain ⟨o₁, r, h, hf₁, hwf₁, hle₁, hval₁⟩ :=
      report_step o idx v hfree hwf (hv (idx, v) (List.mem_cons_self ..))
    obtain ⟨o', h', hf', hwf', hle', hval'⟩ := ih o₁ hf₁ hwf₁ (valsInt32_tail hv)
    refine ⟨o', by rw [reports_cons_some h]; exact h', hf', hwf', Nat.le_trans hle₁ hle', ?_⟩
    intro k
    rw [hval' k, hval₁ k, sumAt_cons]
    by_cases hk : (k : Int) ≤ maxObservedStreamIndex
    · rw [if_pos hk]
      by_cases hik : idx = (k : Int)
      · rw [if_pos ⟨hik, hk⟩, if_pos hik, wrap32_add_assoc, if_pos hk]
      · rw [if_neg (fun hh => hik hh.1), if_neg hik, if_pos hk]
    · rw [if_neg hk, if_neg hk, if_neg (fun hh => hk hh.2)]

/-- the initial observer is well-formed -/
theorem wf_init : Obs.WF {} :=
  ⟨⟨List.Pairwise.nil, fun _ hp => by cases hp⟩, fun _ hp => by cases hp⟩

/-- `report` preserves well-formedness (for an int32 value, or any value if the index is rejected) -/
theorem report_preserves_wf (o o' : Obs) (idx v : Int) (r : ReportOutcome) (hwf : o.WF)
    (hv : Accepted idx → IsInt32 v) (h : report o idx v = some (o', r)) : o'.WF := by
  cases hl : o.locked with
  | false =>
    obtain ⟨o₁, r₁, h₁, _, hwf₁, _⟩ := report_step o idx v hl hwf hv
    rw [h₁] at h
    cases h
    exact hwf₁
  | true =>
    rcases report_cases o idx v with h' | ⟨_, _, h'⟩ | ⟨_, hl', _⟩
    · rw [h'] at h; cases h; exact hwf
    · rw [h'] at h; cases h
    · rw [hl] at hl'; cases hl'

end S2S.Observer
