import S2S.Proofs.RoutingC03PhaseA
/-! Round 2, phases B/C: every target acknowledges its whole ring in turn; source `s` collects `H`. -/
namespace S2S.Routing

/-- the receiver-side effect of `rack` -/
def rackUpd (x : Source) (t : TId) (v : Int) (rest : List (TId × Int)) : Source :=
  match minVal (aset x.ackByTarget t v) with
  | none => { x with ackChan := rest, ackByTarget := aset x.ackByTarget t v }
  | some m =>
    if m ≥ x.lastSentMin then
      { x with ackChan := rest, ackByTarget := aset x.ackByTarget t v,
               acksSent := x.acksSent ++ [if x.lastHigh > 0 && m > x.lastHigh then x.lastHigh else m],
               lastSentMin := if x.lastHigh > 0 && m > x.lastHigh then x.lastHigh else m,
               lastSentAck := some (if x.lastHigh > 0 && m > x.lastHigh then x.lastHigh else m) }
    else { x with ackChan := rest, ackByTarget := aset x.ackByTarget t v }

theorem step_rack_some {c : Cfg} {σ σ' : State} {s : SId} (h : step c σ (.rack s) = some σ') :
    ∃ t v rest, (σ.src s).active = true ∧ (σ.src s).ackChan = (t, v) :: rest ∧
      σ' = σ.setSrc s (rackUpd (σ.src s) t v rest) := by
  simp only [step] at h
  split at h
  · cases h
  · rename_i hact
    split at h
    · cases h
    · rename_i t v rest hch
      refine ⟨t, v, rest, by simpa using hact, hch, ?_⟩
      unfold rackUpd
      split at h
      · rename_i hm
        cases h
        simp only [hm]
      · rename_i m hm
        simp only [hm]
        split at h
        · rename_i hge
          cases h
          rw [if_pos hge]
        · rename_i hge
          cases h
          rw [if_neg hge]

theorem rackUpd_pc (x : Source) (t : TId) (v : Int) (rest : List (TId × Int)) : (rackUpd x t v rest).pc = x.pc := by
  unfold rackUpd; split
  · rfl
  · split <;> rfl

theorem rackUpd_ackChan (x : Source) (t : TId) (v : Int) (rest : List (TId × Int)) :
    (rackUpd x t v rest).ackChan = rest := by
  unfold rackUpd; split
  · rfl
  · split <;> rfl

theorem rackUpd_abt (x : Source) (t : TId) (v : Int) (rest : List (TId × Int)) :
    (rackUpd x t v rest).ackByTarget = aset x.ackByTarget t v := by
  unfold rackUpd; split
  · rfl
  · split <;> rfl

/-- the last rack either sent the current minimum, or the minimum is below what was sent before -/
def QS (x : Source) : Prop :=
  ∃ m, minVal x.ackByTarget = some m ∧ (x.lastSentMin ≤ m → x.acksSent.getLast? = some m)

theorem rackUpd_QS (x : Source) (t : TId) (v : Int) (rest : List (TId × Int))
    (hle : ∀ p ∈ aset x.ackByTarget t v, p.2 ≤ x.lastHigh) : QS (rackUpd x t v rest) := by
  cases hm : minVal (aset x.ackByTarget t v) with
  | none => exact absurd hm (minVal_aset_ne_none _ _ _)
  | some m =>
    obtain ⟨tm, htm⟩ := minVal_mem hm
    have hmle : m ≤ x.lastHigh := hle _ htm
    refine ⟨m, by rw [rackUpd_abt]; exact hm, ?_⟩
    unfold rackUpd
    simp only [hm]
    have hm' : (if (decide (x.lastHigh > 0) && decide (m > x.lastHigh)) = true then x.lastHigh else m) = m := by
      rw [if_neg]; simp; omega
    split
    · intro _
      simp only [hm']
      simp
    · rename_i hlt
      intro hle'
      exact absurd hle' hlt

def NotIn (s : SId) (apc : AckPc) : Prop := ∀ todo d r, apc = .forwarding todo d r → aget todo s = none

def CS (s : SId) (H : Int) (k : TId) (σ : State) : Prop :=
  (∃ todo d r, (σ.tgt k).ackPc = .forwarding todo d r ∧ aget todo s = some H ∧ (σ.src s).ackChan = []) ∨
  (NotIn s (σ.tgt k).ackPc ∧ (σ.src s).ackChan = [(k, H)]) ∨
  (NotIn s (σ.tgt k).ackPc ∧ (σ.src s).ackChan = [] ∧
    (∀ p ∈ (σ.src s).ackByTarget, p.1 < k + 1 → p.2 = H) ∧ QS (σ.src s))

structure PhC (nt : Nat) (s : SId) (H : Int) (k : TId) (σ : State) : Prop where
  good : Good nt σ
  hs : (σ.src s).lastHigh = H
  act : (σ.src s).active = true
  pcs : ∀ s', (σ.src s').pc = .idle
  tq : ∀ t, (σ.tgt t).sendChan = [] ∧ (σ.tgt t).holding = none ∧ (σ.tgt t).replayTodo = none
  apc : ∀ t, t ≠ k → (σ.tgt t).ackPc = .idle
  done : ∀ t, k < t → t < nt → Done s H (σ.tgt t)
  abt : ∀ p ∈ (σ.src s).ackByTarget, p.1 < k → p.2 = H
  cs : CS s H k σ

theorem PhC.eager {nt : Nat} {s : SId} {H : Int} {k : TId} {σ σ' : State} {a : Act} (hC : PhC nt s H k σ)
    (ha : a.isEager = true) (h : step Cfg.cur σ a = some σ') : PhC nt s H k σ' := by
  have hG' := hC.good.eager ha h
  have hfr := step_src_frame (eager_flags ha).2.2.1 h s
  have hs' : (σ'.src s).lastHigh = H := by rw [hfr.1]; exact hC.hs
  have hact' : (σ'.src s).active = true := by rw [hfr.2]; exact hC.act
  have hslt := lt_of_active hC.act
  cases a with
  | bcastStep s' t' =>
    exfalso
    simp only [step, hC.pcs s'] at h
    cases h
  | deliver s' t' =>
    exfalso
    simp only [step, hC.pcs s'] at h
    cases h
  | take t' =>
    exfalso
    simp only [step, (hC.tq t').1] at h
    split at h <;> cases h
  | emit t' =>
    exfalso
    simp only [step, (hC.tq t').2.1] at h
    cases h
  | replayStep t' s' =>
    exfalso
    simp only [step, (hC.tq t').2.2] at h
    cases h
  | replayDone t' =>
    exfalso
    simp only [step, (hC.tq t').2.2] at h
    cases h
  | ackFwd t' s' =>
    by_cases htk : t' = k
    · subst htk
      simp only [step] at h
      split at h
      · rename_i todo d r hpc
        split at h
        · cases h
        · rename_i v hv
          split at h
          · cases h
          · cases h
            have hklt : t' < σ.targets.length := by
              apply Nat.lt_of_not_le; intro hge
              rw [tgt_of_ge σ t' hge] at hpc; cases hpc
            refine ⟨hG', hs', hact', ?_, ?_, ?_, ?_, ?_, ?_⟩
            · intro s0; exact (src_proj_setSrc Source.pc (by rfl) s0).trans (hC.pcs s0)
            · intro t0
              rw [tgt_setSrc]
              refine ⟨?_, ?_, ?_⟩
              · exact (tgt_proj_setTgt Target.sendChan (by rfl) t0).trans (hC.tq t0).1
              · exact (tgt_proj_setTgt Target.holding (by rfl) t0).trans (hC.tq t0).2.1
              · exact (tgt_proj_setTgt Target.replayTodo (by rfl) t0).trans (hC.tq t0).2.2
            · intro t0 hne; rw [tgt_setSrc, tgt_setTgt_ne _ hne]; exact hC.apc t0 hne
            · intro t0 hlt hlt'
              rw [tgt_setSrc, tgt_setTgt_ne _ (Nat.ne_of_gt hlt)]; exact hC.done t0 hlt hlt'
            · rw [src_proj_setSrc Source.ackByTarget (by rfl) s]; exact hC.abt
            · unfold CS
              rw [tgt_setSrc, tgt_setTgt_self _ hklt]
              by_cases hss : s' = s
              · subst hss
                rw [src_setSrc_self _ (by exact hslt)]
                rcases hC.cs with ⟨todo0, d0, r0, hpc0, hget0, hch0⟩ | ⟨hnot, _⟩ | ⟨hnot, _⟩
                · rw [hpc] at hpc0; cases hpc0
                  rw [hv] at hget0; cases hget0
                  right; left
                  refine ⟨?_, by simp only [hch0, List.nil_append]⟩
                  intro todo1 d1 r1 e
                  cases e
                  exact aget_filter_self _ _
                · rw [hnot _ _ _ hpc] at hv; cases hv
                · rw [hnot _ _ _ hpc] at hv; cases hv
              · have hss' : s ≠ s' := fun e => hss e.symm
                rw [src_setSrc_ne _ hss']
                simp only [src_setTgt]
                have hnot' : NotIn s (σ.tgt t').ackPc →
                    NotIn s (AckPc.forwarding (todo.filter (fun p => p.1 != s')) d r) := by
                  intro hn todo1 d1 r1 e
                  cases e
                  rw [aget_filter_ne _ hss']; exact hn _ _ _ hpc
                rcases hC.cs with ⟨todo0, d0, r0, hpc0, hget0, hch0⟩ | ⟨hnot, hch0⟩ | ⟨hnot, hrest⟩
                · rw [hpc] at hpc0; cases hpc0
                  left
                  exact ⟨_, _, _, rfl, by rw [aget_filter_ne _ hss']; exact hget0, hch0⟩
                · right; left; exact ⟨hnot' hnot, hch0⟩
                · right; right; exact ⟨hnot' hnot, hrest⟩
      · cases h
    · exfalso
      simp only [step, hC.apc t' htk] at h
      cases h
  | ackFin t' =>
    by_cases htk : t' = k
    · subst htk
      simp only [step] at h
      split at h
      · rename_i d r hpc
        cases h
        have hklt : t' < σ.targets.length := by
          apply Nat.lt_of_not_le; intro hge
          rw [tgt_of_ge σ t' hge] at hpc; cases hpc
        refine ⟨hG', hs', hact', hC.pcs, ?_, ?_, ?_, hC.abt, ?_⟩
        · intro t0
          refine ⟨?_, ?_, ?_⟩
          · exact (tgt_proj_setTgt Target.sendChan (by rfl) t0).trans (hC.tq t0).1
          · exact (tgt_proj_setTgt Target.holding (by rfl) t0).trans (hC.tq t0).2.1
          · exact (tgt_proj_setTgt Target.replayTodo (by rfl) t0).trans (hC.tq t0).2.2
        · intro t0 hne; rw [tgt_setTgt_ne _ hne]; exact hC.apc t0 hne
        · intro t0 hlt hlt'
          rw [tgt_setTgt_ne _ (Nat.ne_of_gt hlt)]; exact hC.done t0 hlt hlt'
        · have hnot' : NotIn s AckPc.idle := fun _ _ _ e => by cases e
          unfold CS
          rw [tgt_setTgt_self _ hklt]
          simp only [src_setTgt]
          rcases hC.cs with ⟨todo0, d0, r0, hpc0, hget0, _⟩ | ⟨_, hch0⟩ | ⟨_, hrest⟩
          · rw [hpc] at hpc0; cases hpc0; cases hget0
          · right; left; exact ⟨hnot', hch0⟩
          · right; right; exact ⟨hnot', hrest⟩
      · cases h
    · exfalso
      simp only [step, hC.apc t' htk] at h
      cases h
  | rack s' =>
    obtain ⟨t, v, rest, hact0, hch, rfl⟩ := step_rack_some h
    refine ⟨hG', hs', hact', ?_, hC.tq, hC.apc, hC.done, ?_, ?_⟩
    · intro s0; exact (src_proj_setSrc Source.pc (rackUpd_pc _ _ _ _) s0).trans (hC.pcs s0)
    · by_cases hss : s' = s
      · subst hss
        rw [src_setSrc_self _ hslt, rackUpd_abt]
        intro p hp hpk
        rcases mem_aset hp with hp | hp
        · exact hC.abt p hp hpk
        · rcases hC.cs with ⟨_, _, _, _, _, hch0⟩ | ⟨_, hch0⟩ | ⟨_, hch0, _⟩
          · rw [hch0] at hch; cases hch
          · rw [hch0] at hch; cases hch; subst hp; rfl
          · rw [hch0] at hch; cases hch
      · have hss' : s ≠ s' := fun e => hss e.symm
        rw [src_setSrc_ne _ hss']; exact hC.abt
    · unfold CS
      simp only [tgt_setSrc]
      by_cases hss : s' = s
      · subst hss
        rw [src_setSrc_self _ hslt]
        rcases hC.cs with ⟨_, _, _, _, _, hch0⟩ | ⟨hnot, hch0⟩ | ⟨_, hch0, _⟩
        · rw [hch0] at hch; cases hch
        · rw [hch0] at hch; cases hch
          right; right
          refine ⟨hnot, rackUpd_ackChan _ _ _ _, ?_, ?_⟩
          · rw [rackUpd_abt]
            intro p hp hpk
            rcases mem_aset_strong (hC.good.inv2.j.srcs s').abtnd hp with hp | ⟨hp, hpne⟩
            · subst hp; rfl
            · exact hC.abt p hp (Nat.lt_of_le_of_ne (Nat.lt_succ_iff.1 hpk) hpne)
          · apply rackUpd_QS
            have hS := hC.good.inv2.inv.srcs s'
            intro p hp
            rcases mem_aset hp with hp | hp
            · exact hS.abt p hp
            · subst hp; rw [hC.hs]; exact Int.le_refl _
        · rw [hch0] at hch; cases hch
      · have hss' : s ≠ s' := fun e => hss e.symm
        rw [src_setSrc_ne _ hss']; exact hC.cs
  | _ => cases ha

theorem PhC.settled {nt : Nat} {s : SId} {H : Int} {k : TId} {σ : State} (hC : PhC nt s H k σ) :
    PhC nt s H k (settleQ Cfg.cur σ) ∧ Idle (settleQ Cfg.cur σ) := by
  have h := settleQ_ind (c := Cfg.cur) (PhC nt s H k) (fun σ a σ' hP ha hs => hP.eager ha hs) hC
  exact ⟨h, idle_of_quiescent h.good (settleQ_quiescent _ _)⟩

structure PhB (nt : Nat) (s : SId) (H : Int) (k : Nat) (σ : State) : Prop where
  good : Good nt σ
  hs : (σ.src s).lastHigh = H
  act : (σ.src s).active = true
  idle : Idle σ
  done : ∀ t, k ≤ t → t < nt → Done s H (σ.tgt t)
  abt : ∀ p ∈ (σ.src s).ackByTarget, p.1 < k → p.2 = H
  q : k = 0 ∨ QS (σ.src s)

theorem PhB.ackStep {nt : Nat} {s : SId} {H : Int} {k : Nat} {σ : State} (hB : PhB nt s H k σ) (hk : k < nt) :
    PhB nt s H (k + 1) (ackStepQ Cfg.cur σ k) := by
  have hlen := hB.good.inv2.j.len
  have hklt : k < σ.targets.length := by rw [hlen]; exact hk
  obtain ⟨_, _, ⟨e, he, hnext⟩, p, hp⟩ := hB.done k (Nat.le_refl _) hk
  have hT := hB.good.inv2.j.tgts k
  have hTI := hB.good.inv2.inv.tgts k
  have hget : aget (aggregate (σ.tgt k).ring e.high).1 s = some H := by
    apply aggregate_aget (p := p)
    · intro e' he'; have := hT.ringle e' he'; omega
    · intro e' he' hs'
      have := hTI.ring e' he'
      rw [hs'] at this
      have h2 : σ.hi s = H := hB.hs
      rw [h2] at this; exact this
    · exact hp
  unfold ackStepQ
  rw [he]
  simp only
  have hC : PhC nt s H k ((step Cfg.cur σ (.tack k e.high)).getD σ) := by
    cases hstep : step Cfg.cur σ (.tack k e.high) with
    | none =>
      exfalso
      simp [step, hB.good.started k hk, (hB.idle.tgts k).2.2.1] at hstep
      split at hstep <;> cases hstep
    | some σ1 =>
      simp only [Option.getD_some]
      have hG1 := hB.good.afterTack hstep
      simp only [step] at hstep
      split at hstep
      · cases hstep
      · split at hstep
        · rename_i hemp
          exfalso
          have : (aggregate (σ.tgt k).ring e.high).1 = [] := by simpa using hemp
          rw [this] at hget; cases hget
        · cases hstep
          refine ⟨hG1, hB.hs, hB.act, fun s0 => (hB.idle.srcs s0).1, ?_, ?_, ?_, hB.abt, ?_⟩
          · intro t0
            refine ⟨?_, ?_, ?_⟩
            · exact (tgt_proj_setTgt Target.sendChan (by rfl) t0).trans (hB.idle.tgts t0).1
            · exact (tgt_proj_setTgt Target.holding (by rfl) t0).trans (hB.idle.tgts t0).2.1
            · exact (tgt_proj_setTgt Target.replayTodo (by rfl) t0).trans (hB.idle.tgts t0).2.2.2
          · intro t0 hne; rw [tgt_setTgt_ne _ hne]; exact (hB.idle.tgts t0).2.2.1
          · intro t0 hlt hlt'
            rw [tgt_setTgt_ne _ (Nat.ne_of_gt hlt)]; exact hB.done t0 (Nat.le_of_lt hlt) hlt'
          · left
            refine ⟨_, _, _, by rw [tgt_setTgt_self _ hklt], hget, (hB.idle.srcs s).2⟩
  obtain ⟨hC', hI'⟩ := hC.settled
  refine ⟨hC'.good, hC'.hs, hC'.act, hI', fun t hle hlt => hC'.done t hle hlt, ?_, ?_⟩
  · rcases hC'.cs with ⟨_, _, _, hpc, _, _⟩ | ⟨_, hch⟩ | ⟨_, _, habt, _⟩
    · rw [(hI'.tgts k).2.2.1] at hpc; cases hpc
    · rw [(hI'.srcs s).2] at hch; cases hch
    · exact habt
  · right
    rcases hC'.cs with ⟨_, _, _, hpc, _, _⟩ | ⟨_, hch⟩ | ⟨_, _, _, hq⟩
    · rw [(hI'.tgts k).2.2.1] at hpc; cases hpc
    · rw [(hI'.srcs s).2] at hch; cases hch
    · exact hq

theorem PhB.fold {nt : Nat} {s : SId} {H : Int} {σ : State} (hB : PhB nt s H 0 σ) :
    ∀ k, k ≤ nt → PhB nt s H k ((List.range k).foldl (ackStepQ Cfg.cur) σ) := by
  intro k
  induction k with
  | zero => intro _; exact hB
  | succ n ih =>
    intro hle
    rw [List.range_succ, List.foldl_append]
    exact (ih (Nat.le_of_succ_le hle)).ackStep hle

/-- the second round: from an idle state the source's last acknowledgement becomes `H` -/
theorem round2 {nt : Nat} {s : SId} {H : Int} {σ : State} (hK : Keep nt s H σ) (hI : Idle σ)
    (hnt : 0 < nt) (h1 : 1 ≤ H) :
    ((roundQ Cfg.cur s H σ).src s).acksSent.getLast? = some H := by
  obtain ⟨σa, hstep, hA⟩ := PhA.enter hK hI hnt h1
  unfold roundQ ackEvQ
  rw [hstep]
  simp only [Option.getD_some]
  obtain ⟨hA', hI'⟩ := hA.settled
  have hB0 : PhB nt s H 0 (settleQ Cfg.cur σa) :=
    ⟨hA'.good, hA'.hs, hA'.act, hI', fun t _ ht => hA'.done hI' t ht, fun p _ hp => absurd hp (Nat.not_lt_zero _), Or.inl rfl⟩
  have hlen := hA'.good.inv2.j.len
  rw [hlen]
  have hB := hB0.fold nt (Nat.le_refl _)
  rcases hB.q with h0 | ⟨m, hm, hlast⟩
  · omega
  · obtain ⟨tm, htm⟩ := minVal_mem hm
    have htlt := (hB.good.inv2.j.srcs s).abtk _ htm
    have hmH : m = H := hB.abt _ htm htlt
    subst hmH
    apply hlast
    have := (hB.good.inv2.inv.srcs s).lsm
    rw [hB.hs] at this
    exact this

end S2S.Routing
