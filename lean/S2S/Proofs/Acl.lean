import S2S.Model.Acl
namespace S2S.Acl
theorem forbidden_namespace_denied (p : Policy) (svc : Service) (name : String) (ns : List String) (n : String)
    (hsvc : svc = .workflow ∨ svc = .admin) (hn : n ∈ ns) (hf : isAllowed p.namespaces n = false) :
    aclUnaryOn p svc name ns = .denied := by
  have hany : ns.any (fun n => !isAllowed p.namespaces n) = true :=
    List.any_eq_true.2 ⟨n, hn, by rw [hf]; rfl⟩
  unfold aclUnaryOn
  rw [hany]
  rcases hsvc with rfl | rfl <;> (repeat' split) <;> first | rfl | simp_all
theorem allowed_namespaces_pass (p : Policy) (name : String) (ns : List String)
    (hall : ∀ n ∈ ns, isAllowed p.namespaces n = true) (hnot : denyList.contains name = false) :
    aclUnaryOn p .workflow name ns = .forward := by
  have hany : ns.any (fun n => !isAllowed p.namespaces n) = false := by
    rw [List.any_eq_false]
    intro x hx
    rw [hall x hx]; simp
  unfold aclUnaryOn
  rw [hany, hnot]
  simp
theorem list_namespaces_filtered (allowed : List String) (names : List String) :
    filterNamespaces (some allowed) names = names.filter (isAllowed allowed) ∧
    (∀ n ∈ filterNamespaces (some allowed) names, isAllowed allowed n = true) ∧
    (filterNamespaces (some allowed) names).Sublist names := by
  refine ⟨rfl, ?_, ?_⟩
  · intro n hn
    exact (List.mem_filter.1 hn).2
  · exact List.filter_sublist
end S2S.Acl
