import S2S.Proofs.RegistryLocal
import S2S.Proofs.RegistryRecv
import S2S.Proofs.RegistryCrash
/-!
C08: "a finished incarnation's clean-up removes only its own entries" and the lifting of all step
invariants to runs.
-/
namespace S2S.Registry

set_option linter.unusedSimpArgs false
set_option linter.unusedVariables false

/-- no clean-up step has removed a foreign entry so far -/
theorem stolen_step {c σ a σ'} (h : step c σ a = some σ') (hc2 : c.secondDelete = false) (B : InvBound σ) (L : InvLocal σ)
    (T : InvStamp σ) (C : InvC σ) (A : InvA σ) (hs : σ.stolen = []) : σ'.stolen = [] := by
  cases a with
  | sUnregCheck i =>
    step_inv h
    · rename_i hi _ v st hget hst
      obtain ⟨h1, h2, h3, h4⟩ := L _ _ _ hget
      have hin : i < σ.next := lt_next_of_spc B (by simp [hi])
      have : v = i := by
        apply Decidable.byContradiction; intro hne
        exact T v i h1 hin hne h2 (by revert h4; cases (σ.inc v).spc <;> simp) (by simp [hi]) (by rw [h3, hst])
      subst this
      exact steal_stolen_nil (by simpa using hs) (Or.inr rfl)
    · simpa using hs
    · simpa using hs
  | sUnregAgain i =>
    step_inv h
    · rename_i hsd; rw [hc2] at hsd; cases hsd
    · simpa using hs
  | rRmOwnCancel i =>
    step_inv h
    rename_i hi
    exact steal_stolen_nil (by simpa using hs) (Or.inr (C i (Or.inr hi)))
  | rUnregActive i =>
    step_inv h
    rename_i hi
    exact steal_stolen_nil (by simpa using hs) (Or.inr (A i (Or.inr (Or.inr hi))))
  | _ =>
    step_inv h
    all_goals (first | exact hs | (simpa using hs))

/-! ### from steps to runs -/

theorem run_induct {c : Cfg} {H : State → Act → Prop} {I : State → Prop}
    (hstep : ∀ σ a σ', step c σ a = some σ' → H σ a → I σ → I σ') :
    ∀ (acts : List Act) (σ : State), I σ → Along c H σ acts → I (run c σ acts) := by
  intro acts
  induction acts with
  | nil => intro σ hI _; exact hI
  | cons a rest ih =>
    intro σ hI hA
    rw [run_cons]
    unfold Along at hA
    cases hs : step c σ a with
    | none => rw [hs] at hA; simp only [Option.getD]; exact ih σ hI hA
    | some σ' => rw [hs] at hA; simp only [Option.getD]; exact ih σ' (hstep σ a σ' hs hA.1 hI) hA.2

theorem along_true (c : Cfg) : ∀ (acts : List Act) (σ : State), Along c (fun _ _ => True) σ acts := by
  intro acts
  induction acts with
  | nil => intro σ; trivial
  | cons a rest ih =>
    intro σ; unfold Along
    cases step c σ a with
    | none => exact ih σ
    | some σ' => exact ⟨trivial, ih σ'⟩

theorem along_mono {c : Cfg} {H H' : State → Act → Prop} (hm : ∀ σ a, H σ a → H' σ a) :
    ∀ (acts : List Act) (σ : State), Along c H σ acts → Along c H' σ acts := by
  intro acts
  induction acts with
  | nil => intro σ _; trivial
  | cons a rest ih =>
    intro σ h; unfold Along at h ⊢
    cases hs : step c σ a with
    | none => rw [hs] at h; exact ih σ h
    | some σ' => rw [hs] at h; exact ⟨hm σ a h.1, ih σ' h.2⟩

/-- the invariants that hold in EVERY interleaving -/
structure InvU (σ : State) : Prop where
  bound : InvBound σ
  send : InvSend σ
  ack : InvAck σ
  closed : InvClosed σ

theorem inc_init (j : Tok) : State.init.inc j = {} := rfl

theorem invU_init : InvU State.init :=
  ⟨⟨fun _ _ => rfl, fun _ _ h => by simp [State.init, aget] at h, fun _ _ h => by simp [inc_init] at h⟩,
   fun _ _ h => by simp [State.init, aget] at h, fun _ _ h => by simp [State.init, aget] at h,
   fun _ h => by simp [inc_init] at h⟩

theorem invU_step {c σ a σ'} (h : step c σ a = some σ') (I : InvU σ) : InvU σ' :=
  ⟨invBound_step h I.bound, invSend_step h I.bound I.send, invAck_step h I.bound I.ack, invClosed_step h I.closed⟩

theorem invU_run (c : Cfg) (acts : List Act) : InvU (run c State.init acts) :=
  run_induct (H := fun _ _ => True) (fun _ _ _ h _ I => invU_step h I) acts State.init invU_init (along_true c acts State.init)

/-- no run of a tree with `recover` at every send site crashes -/
theorem noCrash_run {c : Cfg} (hd : c.deliverRecover = true) (hb : c.bcastRecover = true) (hr : c.replayRecover = true)
    (acts : List Act) : (run c State.init acts).crashed = false :=
  run_induct (H := fun _ _ => True) (I := fun σ => σ.crashed = false)
    (fun _ _ _ h _ I => noCrash_step h hd hb hr I) acts State.init rfl (along_true c acts State.init)

/-- the hypotheses behind "clean-up removes only its own entries" -/
def OwnHyp (σ : State) (a : Act) : Prop := StampsOK σ a ∧ RecvOK σ a

structure InvOwn (σ : State) : Prop where
  u : InvU σ
  loc : InvLocal σ
  stamp : InvStamp σ
  serial : InvSerial σ
  c : InvC σ
  j : InvJ σ
  a : InvA σ
  clean : σ.stolen = []

theorem invOwn_init : InvOwn State.init :=
  ⟨invU_init, fun _ _ _ h => by simp [State.init, aget] at h,
   fun i _ hi _ _ _ _ _ => by simp [State.init] at hi,
   fun i _ hi _ _ _ _ _ => by simp [State.init] at hi,
   fun _ h => by simp [inc_init] at h,
   fun _ _ _ _ h _ _ => by simp [inc_init] at h,
   fun _ h => by simp [inc_init] at h, rfl⟩

theorem invOwn_step {c σ a σ'} (h : step c σ a = some σ') (hc : c.cleanupUnconditional = false) (hc2 : c.secondDelete = false)
    (hy : OwnHyp σ a) (I : InvOwn σ) : InvOwn σ' :=
  ⟨invU_step h I.u, invLocal_step h I.u.bound I.loc, invStamp_step h hy.1 I.u.bound I.stamp,
   invSerial_step h hc hy.2 I.serial,
   invC_step h hc I.u.bound I.serial I.j I.c, invJ_step h I.u.bound I.serial I.c I.j,
   invA_step h hc I.u.bound I.serial I.j I.a,
   stolen_step h hc2 I.u.bound I.loc I.stamp I.c I.a I.clean⟩

theorem invOwn_run {c : Cfg} (hc : c.cleanupUnconditional = false) (hc2 : c.secondDelete = false) (acts : List Act)
    (H : Along c OwnHyp State.init acts) : InvOwn (run c State.init acts) :=
  run_induct (H := OwnHyp) (fun _ _ _ h hy I => invOwn_step h hc hc2 hy I) acts State.init invOwn_init H

end S2S.Registry
