import S2S.Proofs.RoutingFaultBasic
/-! Invariant preservation: the fault steps `breakSrc`, `breakTgt` and the (re-)opens `openSrc`, `openTgt`. -/
namespace S2S.Routing

/-! ### lifting with a ghost change -/

theorem invF_setSrc_ghost {σ : State} {γ : Ghost} (hI : InvF σ γ) (γ' : Ghost) (s : SId) (x' : Source)
    (hsl : s < σ.sources.length)
    (hM : ∀ s', s' ≠ s → γ'.maxHighOf s' = γ.maxHighOf s')
    (hB : ∀ s', s' ≠ s → γ'.baseOf s' = γ.baseOf s')
    (hL : ∀ t, γ'.lostOf t = γ.lostOf t)
    (hs : SrcF (γ'.maxHighOf s) x')
    (hp : ∀ t, PairF (Need γ' s t x') (γ'.maxHighOf s) s t x' (σ.tgt t)) : InvF (σ.setSrc s x') γ' := by
  refine ⟨?_, ?_, ?_⟩
  · intro s'; rw [src_setSrc]
    by_cases e : s' = s
    · subst e; simp only [hsl, and_self, if_true]; exact hs
    · simp only [e, false_and, if_false]; rw [hM s' e]; exact hI.src s'
  · intro t; exact hI.tgt t
  · intro s' t; rw [src_setSrc, tgt_setSrc]
    by_cases e : s' = s
    · subst e; simp only [hsl, and_self, if_true]; exact hp t
    · simp only [e, false_and, if_false]; rw [hM s' e]
      refine (hI.pair s' t).mono ?_ (Int.le_refl _)
      intro id hn
      exact hn.of_eq rfl (by unfold ebase; rw [hB s' e]) (hL t)

theorem invF_setTgt_ghost {σ : State} {γ : Ghost} (hI : InvF σ γ) (γ' : Ghost) (t : TId) (tg' : Target)
    (htl : t < σ.targets.length)
    (hM : ∀ s, γ'.maxHighOf s = γ.maxHighOf s)
    (hB : ∀ s, γ'.baseOf s = γ.baseOf s)
    (hL : ∀ t', t' ≠ t → γ'.lostOf t' = γ.lostOf t')
    (ht : TgtF tg')
    (hp : ∀ s, PairF (Need γ' s t (σ.src s)) (γ.maxHighOf s) s t (σ.src s) tg') : InvF (σ.setTgt t tg') γ' := by
  refine ⟨?_, ?_, ?_⟩
  · intro s; rw [hM s]; exact hI.src s
  · intro t'; rw [tgt_setTgt]; split
    · exact ht
    · exact hI.tgt t'
  · intro s t'; rw [tgt_setTgt, src_setTgt, hM s]
    by_cases e : t' = t
    · subst e; simp only [htl, and_self, if_true]; exact hp s
    · simp only [e, false_and, if_false]
      refine (hI.pair s t').mono ?_ (Int.le_refl _)
      intro id hn
      exact hn.of_eq rfl (by unfold ebase; rw [hB s]) (hL t' e)

/-! ### a source record that restarts (or dies): nothing is needed any more -/

theorem PairF.src_reset {N N' : Int → Prop} {M : Int} {s : SId} {t : TId} {x : Source} {tg : Target}
    (h : PairF N M s t x tg) (hN : ∀ id, ¬ N' id) (x' : Source)
    (hpc : x'.pc = .idle) (hch : x'.ackChan = []) (habt : x'.ackByTarget = [])
    (hlast : x'.lastSentAck = none) : PairF N' M s t x' tg := by
  have hsafe : ∀ v, SafeN N' s tg v := fun v id hn _ => absurd hn (hN id)
  have hfl : flat s t x' tg = chanVals s tg.sendChan := by
    simp only [flat, hpc, pendVals_idle, List.append_nil]
  refine ⟨fun id hn => absurd hn (hN id), ?_, ?_, fun p o _ id hn => absurd hn (hN id), h.ring_le, ?_, ?_, ?_, ?_, ?_,
    fun id hn => absurd hn (hN id), fun id hn => absurd hn (hN id), fun i g _ id hn => absurd hn (hN id)⟩
  · exact pairwise_of_forall _ (fun a b _ hn => absurd hn (hN _))
  · intro y hy; rw [hfl] at hy
    exact h.flat_le y (List.mem_append_left _ hy)
  · intro todo d r e v hv; exact ⟨hsafe v, (h.todo_safe todo d r e v hv).2⟩
  · intro v hv; exact ⟨hsafe v, (h.prev_safe v hv).2⟩
  · intro v hv; rw [hch] at hv; cases hv
  · intro v hv; rw [habt] at hv; cases hv
  · intro a ha; rw [hlast] at ha; cases ha

theorem step_invF_breakSrc {σ σ' : State} {γ : Ghost} (hI : InvF σ γ) (s : SId)
    (h : step Cfg.cur σ (.breakSrc s) = some σ') : InvF σ' γ := by
  simp only [step] at h
  split at h
  · cases h
  · simp only [Option.some.injEq] at h
    subst h
    have hS := hI.src s
    apply invF_setSrc hI
    · refine ⟨?_, ?_, ?_, hS.m_nonneg, ?_, ?_, ?_, hS.m_nonneg⟩
      · intro h' e; cases e
      · intro h' e; cases e
      · intro hi todo e; cases e
      · intro a e; cases e
      · intro a e; cases e
      · intro i g hg
        have hg : (i, some g) ∈ (σ.src s).graveyard ++ [((σ.src s).inc, (σ.src s).lastWatermark)] := hg
        rcases List.mem_append.1 hg with hg | hg
        · exact hS.grave_le i g hg
        · simp only [List.mem_singleton, Prod.mk.injEq] at hg
          exact Int.le_trans (hS.wm_le g hg.2.symm) hS.high_le
    · intro t
      exact (hI.pair s t).src_reset (need_inactive rfl) _ rfl rfl rfl rfl

theorem step_invF_openSrc {σ σ' : State} {γ : Ghost} (hI : InvF σ γ) (s : SId)
    (h : step Cfg.cur σ (.openSrc s) = some σ') : InvF σ' (γ.upd σ (.openSrc s)) := by
  simp only [step] at h
  split at h
  · cases h
  · rename_i hg
    simp only [Option.some.injEq] at h
    subst h
    simp only [Bool.or_eq_true, not_or, Bool.not_eq_true, decide_eq_true_eq, Nat.not_le] at hg
    have hS := hI.src s
    apply invF_setSrc_ghost hI _ s _ hg.2
    · intro s' _; rfl
    · intro s' e
      simp only [Ghost.upd, Ghost.baseOf, getD_aget_aset, e, if_false]
    · intro t; rfl
    · refine ⟨?_, ?_, ?_, hS.m_nonneg, ?_, ?_, hS.grave_le, hS.m_nonneg⟩
      · intro h' e; cases e
      · intro h' e; cases e
      · intro hi todo e; cases e
      · intro a e; cases e
      · intro a e; cases e
    · intro t
      refine (hI.pair s t).src_reset (need_base_full ?_) _ rfl rfl rfl rfl
      simp only [ebase, Ghost.upd, Ghost.baseOf, getD_aget_aset, if_true]

/-! ### a target stream that breaks: what it had been handed is lost -/

theorem PairF.tgt_break {N N' : Int → Prop} {M : Int} {s : SId} {t : TId} {x : Source} {tg : Target}
    (h : PairF N M s t x tg) (hT : TgtF tg)
    (hN : ∀ id, N' id → N id ∧ (s, id) ∉ tasksOf tg.handed) : PairF N' M s t x tg.reset := by
  have hN1 : ∀ id, N' id → N id := fun id hn => (hN id hn).1
  have hfl : flat s t x tg.reset = pendVals x.pc t := by
    simp only [flat, Target.reset, chanVals, List.flatMap_nil, List.nil_append]
  have hsub : ∀ y, y ∈ pendVals x.pc t → y ∈ flat s t x tg := fun y hy => List.mem_append_right _ hy
  have hs : ∀ v, SafeN N s tg v ∧ v ≤ M → SafeN N' s tg.reset v ∧ v ≤ M :=
    fun v hv => ⟨hv.1.mono hN1 (fun _ ha => ha), hv.2⟩
  refine ⟨?_, ?_, ?_, ?_, ?_, ?_, ?_, fun v hv => hs v (h.chan_safe v hv), fun v hv => hs v (h.abt_safe v hv),
    fun a ha => (h.last_safe a ha).mono hN1 (fun _ ha => ha),
    fun id hn => h.seeded id (hN1 id hn), fun id hn => h.cur_lt id (hN1 id hn),
    fun i g hg id hn => h.grave_low i g hg id (hN1 id hn)⟩
  · intro id hn
    obtain ⟨hn1, hnl⟩ := hN id hn
    right; rw [hfl]
    rcases h.cover id hn1 with ⟨p, hp⟩ | hc
    · exact absurd (hT.asg_handed s id p hp) hnl
    · rcases List.mem_append.1 hc with hc | hc
      · obtain ⟨ids, hm, hid⟩ := mem_chanVals_task hc
        exact absurd (mem_tasksOf (hT.chan_handed _ hm) hid) hnl
      · exact hc
  · rw [hfl]
    exact (List.Pairwise.sublist (List.sublist_append_right _ _) h.sorted).imp
      (fun hr hz hn => hr hz (hN1 _ hn))
  · intro y hy; rw [hfl] at hy; exact h.flat_le y (hsub y hy)
  · intro p o hm; cases hm
  · intro p o hm; cases hm
  · intro todo d r e; cases e
  · intro v hv; cases hv

theorem tgtF_reset (tg : Target) : TgtF tg.reset := by
  refine ⟨fun _ => rfl, ?_, ?_, ?_⟩
  · intro s id p h; cases h
  · intro m h; cases h
  · intro s id p h; cases h

theorem step_invF_breakTgt {σ σ' : State} {γ : Ghost} (hI : InvF σ γ) (t : TId)
    (h : step Cfg.cur σ (.breakTgt t) = some σ') : InvF σ' (γ.upd σ (.breakTgt t)) := by
  simp only [step] at h
  split at h
  · cases h
  · rename_i hg
    simp only [Bool.not_eq_true', Bool.not_eq_false] at hg
    simp only [Option.some.injEq] at h
    subst h
    apply invF_setTgt_ghost hI _ t _ (tgt_registered_lt σ hg)
    · intro s; rfl
    · intro s; rfl
    · intro t' e
      simp only [Ghost.upd, Ghost.lostOf, getD_aget_aset, e, if_false]
    · exact tgtF_reset _
    · intro s
      refine (hI.pair s t).tgt_break (hI.tgt t) ?_
      intro id hn
      have hl : (γ.upd σ (.breakTgt t)).lostOf t = γ.lostOf t ++ tasksOf (σ.tgt t).handed := by
        simp only [Ghost.upd, Ghost.lostOf, getD_aget_aset, if_true]
      unfold Need at hn ⊢
      rw [hl, List.mem_append, not_or] at hn
      exact ⟨⟨hn.1, hn.2.1, hn.2.2.1⟩, hn.2.2.2⟩

theorem PairF.tgt_reopen {N : Int → Prop} {M : Int} {s : SId} {t : TId} {x : Source} {tg : Target}
    (h : PairF N M s t x tg.reset) (r st : Bool) (i : Nat) :
    PairF N M s t x { registered := r, started := st, inc := i, emitted := tg.emitted, confirmed := tg.confirmed } :=
  h.tgt_congr rfl rfl rfl rfl rfl rfl

theorem step_invF_openTgt {σ σ' : State} {γ : Ghost} (hI : InvF σ γ) (t : TId)
    (h : step Cfg.cur σ (.openTgt t) = some σ') : InvF σ' γ := by
  simp only [step] at h
  split at h
  · cases h
  · rename_i hg
    simp only [Option.some.injEq] at h
    subst h
    simp only [Bool.or_eq_true, not_or, Bool.not_eq_true] at hg
    have hx := (hI.tgt t).unreg hg.1
    apply invF_setTgt hI
    · refine ⟨?_, ?_, ?_, ?_⟩
      · intro e; cases e
      · intro s id p e; cases e
      · intro m e; cases e
      · intro s id p e; cases e
    · intro s
      have h := hI.pair s t
      rw [hx] at h
      exact h.tgt_reopen true false _

end S2S.Routing
