import S2S.Proofs.RoutingFaultDef
/-! Transfer lemmas for `PairF`, membership facts about `chanVals` / `tasksOf`, ghost look-ups. -/
namespace S2S.Routing

theorem pairwise_of_forall {α} {R : α → α → Prop} (l : List α) (h : ∀ a b, R a b) : l.Pairwise R := by
  induction l with
  | nil => exact List.Pairwise.nil
  | cons a r ih => exact List.Pairwise.cons (fun b _ => h a b) ih

/-- transfer of `PairF` when only the flat pipeline view changes (same needed set) -/
theorem PairF.of_flat {N : Int → Prop} {M : Int} {s : SId} {t : TId} {x : Source} {tg : Target}
    (h : PairF N M s t x tg) {x' : Source} {tg' : Target}
    (hsub : ∀ y, y ∈ flat s t x tg → y ∈ flat s t x' tg')
    (hsorted : (flat s t x' tg').Pairwise (FlatRelN N))
    (hle : ∀ y ∈ flat s t x' tg', y.1 ≤ M)
    (h2 : x'.lastHigh = x.lastHigh)
    (h3 : tg'.assigned = tg.assigned) (h4 : tg'.ring = tg.ring) (h5 : tg'.ackPc = tg.ackPc)
    (h6 : tg'.prevAck = tg.prevAck) (h7 : x'.ackChan = x.ackChan)
    (h8 : x'.ackByTarget = x.ackByTarget) (h9 : x'.lastSentAck = x.lastSentAck)
    (h10 : tg'.confirmed = tg.confirmed) (h11 : x'.graveyard = x.graveyard) : PairF N M s t x' tg' := by
  have hsafe : ∀ v, SafeN N s tg v → SafeN N s tg' v := by
    intro v hv; unfold SafeN; rw [h10]; exact hv
  refine ⟨?_, hsorted, hle, ?_, ?_, ?_, ?_, ?_, ?_, ?_, ?_, ?_, ?_⟩
  · intro id hn; rw [h3]
    rcases h.cover id hn with hc | hc
    · exact Or.inl hc
    · exact Or.inr (hsub _ hc)
  · rw [h4, h3]; exact h.ring_ok
  · rw [h4]; exact h.ring_le
  · rw [h5]; intro todo d r e v hv
    exact ⟨hsafe v (h.todo_safe todo d r e v hv).1, (h.todo_safe todo d r e v hv).2⟩
  · rw [h6]; intro v hv; exact ⟨hsafe v (h.prev_safe v hv).1, (h.prev_safe v hv).2⟩
  · rw [h7]; intro v hv; exact ⟨hsafe v (h.chan_safe v hv).1, (h.chan_safe v hv).2⟩
  · rw [h8]; intro v hv; exact ⟨hsafe v (h.abt_safe v hv).1, (h.abt_safe v hv).2⟩
  · rw [h9]; intro a ha; exact hsafe a (h.last_safe a ha)
  · rw [h8]; exact h.seeded
  · rw [h2]; exact h.cur_lt
  · rw [h11]; exact h.grave_low

theorem PairF.of_flat_eq {N : Int → Prop} {M : Int} {s : SId} {t : TId} {x : Source} {tg : Target}
    (h : PairF N M s t x tg) {x' : Source} {tg' : Target}
    (hf : flat s t x' tg' = flat s t x tg)
    (h2 : x'.lastHigh = x.lastHigh)
    (h3 : tg'.assigned = tg.assigned) (h4 : tg'.ring = tg.ring) (h5 : tg'.ackPc = tg.ackPc)
    (h6 : tg'.prevAck = tg.prevAck) (h7 : x'.ackChan = x.ackChan)
    (h8 : x'.ackByTarget = x.ackByTarget) (h9 : x'.lastSentAck = x.lastSentAck)
    (h10 : tg'.confirmed = tg.confirmed) (h11 : x'.graveyard = x.graveyard) : PairF N M s t x' tg' :=
  h.of_flat (by rw [hf]; exact fun _ hy => hy) (by rw [hf]; exact h.sorted) (by rw [hf]; exact h.flat_le)
    h2 h3 h4 h5 h6 h7 h8 h9 h10 h11

/-- only fields of the target that `PairF` does not read changed -/
theorem PairF.tgt_congr {N : Int → Prop} {M : Int} {s : SId} {t : TId} {x : Source} {tg : Target}
    (h : PairF N M s t x tg) {tg' : Target} (h1 : tg'.sendChan = tg.sendChan)
    (h3 : tg'.assigned = tg.assigned) (h4 : tg'.ring = tg.ring) (h5 : tg'.ackPc = tg.ackPc)
    (h6 : tg'.prevAck = tg.prevAck) (h10 : tg'.confirmed = tg.confirmed) : PairF N M s t x tg' :=
  h.of_flat_eq (by simp only [flat, h1]) rfl h3 h4 h5 h6 rfl rfl rfl h10 rfl

/-! ### membership -/

theorem mem_tasksOf {msgs : List Msg} {s : SId} {ids : List Int} {id : Int}
    (hm : Msg.tasks s ids ∈ msgs) (hid : id ∈ ids) : (s, id) ∈ tasksOf msgs := by
  unfold tasksOf
  rw [List.mem_flatMap]
  exact ⟨_, hm, by simp only [List.mem_map]; exact ⟨id, hid, rfl⟩⟩

theorem tasksOf_append (a b : List Msg) : tasksOf (a ++ b) = tasksOf a ++ tasksOf b := by
  simp [tasksOf, List.flatMap_append]

theorem mem_chanVals_task {s : SId} {ch : List Msg} {id : Int} (h : (id, true) ∈ chanVals s ch) :
    ∃ ids, Msg.tasks s ids ∈ ch ∧ id ∈ ids := by
  unfold chanVals at h
  rw [List.mem_flatMap] at h
  obtain ⟨m, hm, hv⟩ := h
  cases m with
  | tasks s' ids =>
    simp only [msgVals] at hv
    split at hv
    · rename_i e; subst e
      simp only [List.mem_map, Prod.mk.injEq, and_true, exists_eq_right] at hv
      exact ⟨ids, hm, hv⟩
    · cases hv
  | wm s' h' =>
    simp only [msgVals] at hv
    split at hv
    · simp at hv
    · cases hv

/-! ### ghost look-ups -/

theorem getD_aget_aset {α} (l : List (Nat × α)) (k : Nat) (v : α) (k' : Nat) (d : α) :
    (aget (aset l k v) k').getD d = if k' = k then v else (aget l k').getD d := by
  rw [aget_aset]; split <;> rfl

theorem need_inactive {γ : Ghost} {s : SId} {t : TId} {x : Source} (h : x.active = false) (id : Int) :
    ¬ Need γ s t x id := by
  intro hn
  unfold Need ebase at hn
  simp only [h, Bool.false_eq_true, if_false, List.take_length] at hn
  exact hn.2.1 hn.1

theorem need_base_full {γ : Ghost} {s : SId} {t : TId} {x : Source} (h : ebase γ s x = x.received.length) (id : Int) :
    ¬ Need γ s t x id := by
  intro hn
  unfold Need at hn
  rw [h, List.take_length] at hn
  exact hn.2.1 hn.1

end S2S.Routing
