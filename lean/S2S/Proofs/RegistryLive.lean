import S2S.Proofs.RegistryEnd2
import S2S.Proofs.RegistryLocal
import S2S.Proofs.RegistryRecv
/-!
C08: "at quiescence the registries hold exactly the newest live incarnation" — the invariants that say a live
incarnation's entries are there (nobody evicted or overwrote them without also terminating the stream).
-/
namespace S2S.Registry

set_option linter.unusedSimpArgs false
set_option linter.unusedVariables false

/-- a receiver that registered its ack channel and was not cancelled still owns it -/
def InvAckOwn (σ : State) : Prop :=
  ∀ i, ((σ.inc i).rpc = .ackSet ∨ (σ.inc i).rpc = .cancelSet ∨ (σ.inc i).rpc = .running) → (σ.inc i).cancelled = false →
    aget σ.ackChans (σ.inc i).shard = some i

/-- a sender's goroutine exists only once the handler has started the receiver -/
def InvSR (σ : State) : Prop := ∀ i, (σ.inc i).spc ≠ .start → (σ.inc i).spc ≠ .done → (σ.inc i).rpc ≠ .start

/-- a receiver past its running phase has seen the shutdown signal -/
def InvDown (σ : State) : Prop :=
  ∀ i, i < σ.next → ((σ.inc i).rpc = .cleanCheck ∨ (σ.inc i).rpc = .cleanCancel ∨ (σ.inc i).rpc = .cleanActive ∨ (σ.inc i).rpc = .done) →
    σ.down i = true

/-- the newest sender that has set its channel (no newer one has started) holds `remoteSendChannels` -/
def InvS2 (σ : State) : Prop :=
  ∀ i, (σ.inc i).spc ≠ .start → (σ.inc i).spc ≠ .done →
    (∀ j, i < j → j < σ.next → (σ.inc j).shard = (σ.inc i).shard → (σ.inc j).spc = .start) →
    aget σ.sendChans (σ.inc i).shard = some i

/-- the newest sender that has added its shard holds `localShards` -/
def InvL2 (σ : State) : Prop :=
  ∀ i, (σ.inc i).spc.holdsLocal = true →
    (∀ j, i < j → j < σ.next → (σ.inc j).shard = (σ.inc i).shard → (σ.inc j).spc = .start ∨ (σ.inc j).spc = .set) →
    aget σ.localShards (σ.inc i).shard = some (i, (σ.inc i).stamp)

/-- once a newer receiver of the shard has begun, every older one is out: never started, cancelled, ended, or about to be cancelled -/
def InvSup (σ : State) : Prop :=
  ∀ i j, i < j → j < σ.next → (σ.inc i).shard = (σ.inc j).shard → (σ.inc j).rpc ≠ .start →
    (σ.inc i).rpc = .start ∨ (σ.inc i).cancelled = true ∨ (σ.inc i).rpc = .done ∨ (σ.inc j).rpc = .term i

set_option maxHeartbeats 4000000 in
theorem invAckOwn_step {c σ a σ'} (h : step c σ a = some σ') (B : InvBound σ) (S : InvSerial σ) (J : InvJ σ)
    (I : InvAckOwn σ) : InvAckOwn σ' := by
  cases a with
  | rSetAck k =>
    step_inv h
    rename_i hk
    intro i hi hc
    simp [aget_aset] at hi hc ⊢
    by_cases e1 : k = i
    · subst e1; simp
    · simp [e1] at hi hc ⊢
      split
      · rename_i hs
        exfalso
        refine recv_clash B S J hk (by simp) e1 hs ?_
        rcases hi with h1 | h1 | h1
        · -- both inside their start-up
          have hkn : k < σ.next := lt_next_of_rpc B (by simp [hk])
          have hin : i < σ.next := lt_next_of_rpc B (by simp [h1])
          exact absurd (S k i hkn hin e1 hs (by simp [hk, RPc.sec]) (by simp [h1, RPc.sec])) id
        · exact Or.inl ⟨Or.inl h1, hc⟩
        · exact Or.inl ⟨Or.inr (Or.inl h1), hc⟩
      · exact I i hi hc
  | rForceAck k =>
    step_inv h
    rename_i hk
    intro i hi hc
    simp [aget_adel] at hi hc ⊢
    by_cases e1 : k = i
    · subst e1; simp at hi
    · simp [e1] at hi hc ⊢
      refine ⟨?_, I i hi hc⟩
      intro hs
      refine recv_clash B S J hk (by simp) e1 hs ?_
      rcases hi with h1 | h1 | h1
      · have hkn : k < σ.next := lt_next_of_rpc B (by simp [hk])
        have hin : i < σ.next := lt_next_of_rpc B (by simp [h1])
        exact absurd (S k i hkn hin e1 hs (by simp [hk, RPc.sec]) (by simp [h1, RPc.sec])) id
      · exact Or.inl ⟨Or.inl h1, hc⟩
      · exact Or.inl ⟨Or.inr (Or.inl h1), hc⟩
  | rRmAck k =>
    step_inv h
    all_goals (rename_i hk hown)
    all_goals (intro i hi hc)
    all_goals (simp [aget_adel] at hi hc ⊢)
    all_goals (by_cases e1 : k = i)
    all_goals (try (subst e1; simp at hi; done))
    all_goals (simp [e1] at hi hc ⊢)
    · refine ⟨?_, I i hi hc⟩
      intro hs
      have := I i hi hc
      rw [← hs, hown] at this; injection this with e; exact e1 e
    · exact I i hi hc
  | _ =>
    step_inv h
    all_goals (intro i hi hc)
    all_goals (try simp at hi hc ⊢)
    all_goals (first | exact I i hi hc | (have hI := I i; revert hi hc; crush))

set_option maxHeartbeats 4000000 in
theorem invSR_step {c σ a σ'} (h : step c σ a = some σ') (I : InvSR σ) : InvSR σ' := by
  cases a with
  | _ =>
    step_inv h
    all_goals (intro i h1 h2)
    all_goals (try simp at h1 h2 ⊢)
    all_goals (first | exact I i h1 h2 | (have hI := I i; revert h1 h2; crush))

set_option maxHeartbeats 4000000 in
theorem invDown_step {c σ a σ'} (h : step c σ a = some σ') (hy : OpenOK σ a) (I : InvDown σ) : InvDown σ' := by
  cases a with
  | «open» sh srv =>
    step_inv h
    intro i hi hr
    simp [State.down] at hi hr ⊢
    by_cases e : σ.next = i
    · simp [e] at hr
    · simp [e] at hr ⊢
      have := I i (by omega) hr
      simpa [State.down] using this
  | rOpen k ok =>
    step_inv h
    have hok : ok = true := hy
    subst hok
    intro i hi hr
    simp [State.down] at hi hr ⊢
    have hI := I i hi
    simp [State.down] at hI
    revert hr; crush
  | _ =>
    step_inv h
    all_goals (intro i hi hr)
    all_goals (try simp [State.down] at hi hr ⊢)
    all_goals (have hI := I i hi)
    all_goals (simp [State.down] at hI)
    all_goals (first | exact hI hr | (revert hr; crush))
    all_goals (simp_all [State.down])

set_option maxHeartbeats 4000000 in
theorem invS2_step_s {c σ a σ'} (ha : a.grp = .s) (h : step c σ a = some σ') (hy : OrderOK σ a) (B : InvBound σ) (I : InvS2 σ) : InvS2 σ' := by
  cases a with
  | «open» sh srv =>
    step_inv h
    intro i h1 h2 hn
    simp at h1 h2 hn ⊢
    by_cases e : σ.next = i
    · simp [e] at h1
    · simp [e] at h1 h2 hn ⊢
      have hin : i < σ.next := lt_next_of_spc B h2
      apply I i h1 h2
      intro j hij hj hs
      have e2 : ¬ σ.next = j := by omega
      have := hn j hij (by omega)
      simp [e2] at this
      exact this hs
  | sSet k =>
    step_inv h
    rename_i hk
    intro i h1 h2 hn
    simp [aget_aset] at h1 h2 hn ⊢
    by_cases e : k = i
    · subst e; simp
    · simp [e] at h1 h2 hn ⊢
      have hin : i < σ.next := lt_next_of_spc B h2
      have hkn : k < σ.next := lt_next_of_spc B (by simp [hk.1])
      split
      · rename_i hs
        exfalso
        rcases Nat.lt_or_gt_of_ne e with hlt | hgt
        · -- k older than i: the order hypothesis says i has not started
          have := hy i hin hlt hs.symm
          simp at this; exact h1 this
        · -- k newer than i and now set: i is no longer the newest started sender
          have := hn k hgt hkn
          simp at this
          exact this hs
      · apply I i h1 h2
        intro j hij hj hs
        have := hn j hij hj
        by_cases e2 : k = j
        · subst e2; simp at this; exact absurd hs this
        · simp [e2] at this; exact this hs
  | sRmChan k =>
    step_inv h
    all_goals (rename_i hk hown)
    all_goals (intro i h1 h2 hn)
    all_goals (simp [aget_adel] at h1 h2 hn ⊢)
    all_goals (by_cases e : k = i)
    all_goals (try (subst e; simp at h2; done))
    all_goals (simp [e] at h1 h2 hn ⊢)
    · have hI : aget σ.sendChans (σ.inc i).shard = some i := by
        apply I i h1 h2
        intro j hij hj hs
        have := hn j hij hj
        by_cases e2 : k = j
        · subst e2; simp at this; exact absurd hs this
        · simp [e2] at this; exact this hs
      refine ⟨?_, hI⟩
      intro hs; rw [← hs, hown] at hI; injection hI with e'; exact e e'
    · apply I i h1 h2
      intro j hij hj hs
      have := hn j hij hj
      by_cases e2 : k = j
      · subst e2; simp at this; exact absurd hs this
      · simp [e2] at this; exact this hs
  | _ =>
    first
    | (exact Grp.noConfusion ha)
    | (step_inv h
       all_goals (intro i h1 h2 hn)
       all_goals (try simp at h1 h2 hn ⊢)
       all_goals (first
         | exact I i h1 h2 hn
         | (have hI := I i
            have key : ∀ j, i < j → j < σ.next → (σ.inc j).shard = (σ.inc i).shard → (σ.inc j).spc = .start := by
              intro j hij hj hs
              have := hn j hij hj
              revert this; crush
            revert h1 h2; crush)))

set_option maxHeartbeats 4000000 in
theorem invS2_step_r {c σ a σ'} (ha : a.grp = .r) (h : step c σ a = some σ') (hy : OrderOK σ a) (B : InvBound σ) (I : InvS2 σ) : InvS2 σ' := by
  cases a with
  | _ =>
    first
    | (exact Grp.noConfusion ha)
    | (step_inv h
       all_goals (intro i h1 h2 hn)
       all_goals (try simp at h1 h2 hn ⊢)
       all_goals (first
         | exact I i h1 h2 hn
         | (have hI := I i
            have key : ∀ j, i < j → j < σ.next → (σ.inc j).shard = (σ.inc i).shard → (σ.inc j).spc = .start := by
              intro j hij hj hs
              have := hn j hij hj
              revert this; crush
            revert h1 h2; crush)))

set_option maxHeartbeats 4000000 in
theorem invS2_step_e {c σ a σ'} (ha : a.grp = .e) (h : step c σ a = some σ') (hy : OrderOK σ a) (B : InvBound σ) (I : InvS2 σ) : InvS2 σ' := by
  cases a with
  | _ =>
    first
    | (exact Grp.noConfusion ha)
    | (step_inv h
       all_goals (intro i h1 h2 hn)
       all_goals (try simp at h1 h2 hn ⊢)
       all_goals (first
         | exact I i h1 h2 hn
         | (have hI := I i
            have key : ∀ j, i < j → j < σ.next → (σ.inc j).shard = (σ.inc i).shard → (σ.inc j).spc = .start := by
              intro j hij hj hs
              have := hn j hij hj
              revert this; crush
            revert h1 h2; crush)))

theorem invS2_step {c σ a σ'} (h : step c σ a = some σ') (hy : OrderOK σ a) (B : InvBound σ) (I : InvS2 σ) : InvS2 σ' := by
  cases ha : a.grp
  · exact invS2_step_s ha h hy B I
  · exact invS2_step_r ha h hy B I
  · exact invS2_step_e ha h hy B I

theorem stamped_of_holdsLocal {p : SPc} (h : p.holdsLocal = true) : p.stamped = true := by
  cases p <;> simp_all

set_option maxHeartbeats 4000000 in
theorem invL2_step_s {c σ a σ'} (ha : a.grp = .s) (h : step c σ a = some σ') (hc2 : c.secondDelete = false) (hy : OrderOK σ a) (B : InvBound σ) (T : InvStamp σ)
    (I : InvL2 σ) : InvL2 σ' := by
  cases a with
  | «open» sh srv =>
    step_inv h
    intro i h1 hn
    simp at h1 hn ⊢
    by_cases e : σ.next = i
    · simp [e] at h1
    · simp [e] at h1 hn ⊢
      have hin : i < σ.next := lt_next_of_spc B (by intro e'; rw [e'] at h1; simp at h1)
      apply I i h1
      intro j hij hj hs
      have e2 : ¬ σ.next = j := by omega
      have := hn j hij (by omega)
      simp [e2] at this
      exact this hs
  | sAdd k =>
    step_inv h
    rename_i hk
    intro i h1 hn
    simp [aget_aset] at h1 hn ⊢
    by_cases e : k = i
    · subst e; simp
    · simp [e] at h1 hn ⊢
      have hin : i < σ.next := lt_next_of_spc B (by intro e'; rw [e'] at h1; simp at h1)
      have hkn : k < σ.next := lt_next_of_spc B (by simp [hk])
      split
      · rename_i hs
        exfalso
        rcases Nat.lt_or_gt_of_ne e with hlt | hgt
        · have := hy i hin hlt hs.symm
          simp at this
          rcases this with h' | h' <;> rw [h'] at h1 <;> simp at h1
        · have := hn k hgt hkn
          simp at this
          exact this hs
      · apply I i h1
        intro j hij hj hs
        have := hn j hij hj
        by_cases e2 : k = j
        · subst e2; simp at this; exact absurd hs this
        · simp [e2] at this; exact this hs
  | sUnregCheck k =>
    step_inv h
    · -- the first delete matched the stamp: it was the deleter's own entry, not ours
      rename_i hk _ v st hget hst
      intro i h1 hn
      simp [aget_adel] at h1 hn ⊢
      by_cases e : k = i
      · subst e; simp at h1
      simp [e] at h1 hn ⊢
      have hI : aget σ.localShards (σ.inc i).shard = some (i, (σ.inc i).stamp) := by
        apply I i h1
        intro j hij hj hs
        have := hn j hij hj
        by_cases e2 : k = j
        · subst e2; simp at this; exact absurd hs (by intro hs'; simp [hs'] at this)
        · simp [e2] at this; exact this hs
      refine ⟨?_, hI⟩
      intro hs
      rw [← hs, hget] at hI
      injection hI with e'; injection e' with e1 e2
      have hin : i < σ.next := lt_next_of_spc B (by intro e'; rw [e'] at h1; simp at h1)
      have hkn : k < σ.next := lt_next_of_spc B (by simp [hk])
      exact T k i hkn hin e hs (by simp [hk]) (stamped_of_holdsLocal h1) (by rw [← hst, e2])
    · intro i h1 hn
      simp at h1 hn ⊢
      by_cases e : k = i
      · subst e; simp at h1
      simp [e] at h1 hn ⊢
      have hI : aget σ.localShards (σ.inc i).shard = some (i, (σ.inc i).stamp) := by
        apply I i h1
        intro j hij hj hs
        have := hn j hij hj
        by_cases e2 : k = j
        · subst e2; simp at this; exact absurd hs (by intro hs'; simp [hs'] at this)
        · simp [e2] at this; exact this hs
      exact hI
    · intro i h1 hn
      simp at h1 hn ⊢
      by_cases e : k = i
      · subst e; simp at h1
      simp [e] at h1 hn ⊢
      have hI : aget σ.localShards (σ.inc i).shard = some (i, (σ.inc i).stamp) := by
        apply I i h1
        intro j hij hj hs
        have := hn j hij hj
        by_cases e2 : k = j
        · subst e2; simp at this; exact absurd hs (by intro hs'; simp [hs'] at this)
        · simp [e2] at this; exact this hs
      exact hI
  | sUnregAgain k =>
    step_inv h
    · rename_i hsd; rw [hc2] at hsd; cases hsd
    · -- since its fix the rest of `UnregisterShard` leaves the table alone
      intro i h1 hn
      simp at h1 hn ⊢
      by_cases e : k = i
      · subst e; simp at h1
      simp [e] at h1 hn ⊢
      apply I i h1
      intro j hij hj hs
      have := hn j hij hj
      by_cases e2 : k = j
      · subst e2; simp at this; exact absurd hs (by intro hs'; simp [hs'] at this)
      · simp [e2] at this; exact this hs
  | _ =>
    first
    | (exact Grp.noConfusion ha)
    | (step_inv h
       all_goals (intro i h1 hn)
       all_goals (try simp at h1 hn ⊢)
       all_goals (first
         | exact I i h1 hn
         | (have hI := I i
            have key : ∀ j, i < j → j < σ.next → (σ.inc j).shard = (σ.inc i).shard → (σ.inc j).spc = .start ∨ (σ.inc j).spc = .set := by
              intro j hij hj hs
              have := hn j hij hj
              revert this; crush
            revert h1; crush)))

set_option maxHeartbeats 4000000 in
theorem invL2_step_r {c σ a σ'} (ha : a.grp = .r) (h : step c σ a = some σ') (hc2 : c.secondDelete = false) (hy : OrderOK σ a) (B : InvBound σ) (T : InvStamp σ)
    (I : InvL2 σ) : InvL2 σ' := by
  cases a with
  | _ =>
    first
    | (exact Grp.noConfusion ha)
    | (step_inv h
       all_goals (intro i h1 hn)
       all_goals (try simp at h1 hn ⊢)
       all_goals (first
         | exact I i h1 hn
         | (have hI := I i
            have key : ∀ j, i < j → j < σ.next → (σ.inc j).shard = (σ.inc i).shard → (σ.inc j).spc = .start ∨ (σ.inc j).spc = .set := by
              intro j hij hj hs
              have := hn j hij hj
              revert this; crush
            revert h1; crush)))

set_option maxHeartbeats 4000000 in
theorem invL2_step_e {c σ a σ'} (ha : a.grp = .e) (h : step c σ a = some σ') (hc2 : c.secondDelete = false) (hy : OrderOK σ a) (B : InvBound σ) (T : InvStamp σ)
    (I : InvL2 σ) : InvL2 σ' := by
  cases a with
  | _ =>
    first
    | (exact Grp.noConfusion ha)
    | (step_inv h
       all_goals (intro i h1 hn)
       all_goals (try simp at h1 hn ⊢)
       all_goals (first
         | exact I i h1 hn
         | (have hI := I i
            have key : ∀ j, i < j → j < σ.next → (σ.inc j).shard = (σ.inc i).shard → (σ.inc j).spc = .start ∨ (σ.inc j).spc = .set := by
              intro j hij hj hs
              have := hn j hij hj
              revert this; crush
            revert h1; crush)))

theorem invL2_step {c σ a σ'} (h : step c σ a = some σ') (hc2 : c.secondDelete = false) (hy : OrderOK σ a) (B : InvBound σ) (T : InvStamp σ)
    (I : InvL2 σ) : InvL2 σ' := by
  cases ha : a.grp
  · exact invL2_step_s ha h hc2 hy B T I
  · exact invL2_step_r ha h hc2 hy B T I
  · exact invL2_step_e ha h hc2 hy B T I

set_option maxHeartbeats 4000000 in
theorem invSup_step {c σ a σ'} (h : step c σ a = some σ') (hr : RecvOK σ a) (ho : OrderOK σ a) (B : InvBound σ) (C : InvC σ)
    (I : InvSup σ) : InvSup σ' := by
  cases a with
  | «open» sh srv =>
    step_inv h
    intro i j hij hj hs hb
    simp at hj hs hb ⊢
    by_cases e2 : σ.next = j
    · simp [e2] at hb
    · have e1 : ¬ σ.next = i := by omega
      simp [e1, e2] at hs hb ⊢
      exact I i j hij (by omega) hs hb
  | rGet k =>
    step_inv h
    all_goals (rename_i hk g hget)
    all_goals (intro i j hij hj hs hb)
    all_goals (simp at hj hs hb ⊢)
    all_goals (by_cases e1 : k = i)
    all_goals (by_cases e2 : k = j)
    all_goals (try (subst e1))
    all_goals (try (subst e2))
    all_goals (try (exact absurd hij (Nat.lt_irrefl _)))
    all_goals (simp_all)
    -- (1) an older receiver starts after a newer one: excluded by the order hypothesis
    · have := ho j hj hij (by simp_all); simp at this; exact absurd this hb
    -- (2) the newer receiver starts: every older one is outside its sections; a registered un-cancelled one is the one found
    · have hin : i < σ.next := by omega
      have ho2 := hr i hin (fun e => e1 e.symm) hs
      simp at ho2
      cases hri : (σ.inc i).rpc <;> simp [hri] at ho2 ⊢
      all_goals (cases hci : (σ.inc i).cancelled <;> simp)
      all_goals (have hC := C i (Or.inl ⟨by simp [hri], hci⟩))
      all_goals (rw [hs, hget] at hC; injection hC)
    · exact I i j hij hj hs hb
    · have := ho j hj hij (by simp_all); simp at this; exact absurd this hb
    · have hin : i < σ.next := by omega
      have ho2 := hr i hin (fun e => e1 e.symm) hs
      simp at ho2
      cases hri : (σ.inc i).rpc <;> simp [hri] at ho2 ⊢
      all_goals (cases hci : (σ.inc i).cancelled <;> simp)
      all_goals (have hC := C i (Or.inl ⟨by simp [hri], hci⟩))
      all_goals (rw [hs, hget] at hC; cases hC)
    · exact I i j hij hj hs hb
  | rCancel k =>
    step_inv h
    all_goals (rename_i g hg hgk)
    all_goals (intro i j hij hj hs hb)
    all_goals (simp at hj hs hb ⊢)
    all_goals (have hI := I i j hij hj)
    all_goals (have hI2 := I i k)
    all_goals (revert hs hb; crush)
  | _ =>
    step_inv h
    all_goals (intro i j hij hj hs hb)
    all_goals (try simp at hj hs hb ⊢)
    all_goals (first | exact I i j hij hj hs hb | (have hI := I i j hij hj; revert hs hb; crush))

end S2S.Registry
