import S2S.Proofs.RoutingC03Round
/-! List lemmas for the liveness argument: `aget` vs `filter`, the registry snapshot, `aggregate`. -/
namespace S2S.Routing

theorem aget_cons {α} (k' : Nat) (v' : α) (r : List (Nat × α)) (k : Nat) :
    aget ((k', v') :: r) k = if k' = k then some v' else aget r k := by
  unfold aget
  rw [List.find?_cons]
  by_cases h : k' = k
  · simp [h]
  · have : (k' == k) = false := by simpa using h
    simp [this, h]

theorem aget_filter_self {α} (l : List (Nat × α)) (k : Nat) : aget (l.filter (fun p => p.1 != k)) k = none := by
  induction l with
  | nil => rfl
  | cons a r ih =>
    obtain ⟨k', v'⟩ := a
    simp only [List.filter_cons]
    split
    · rename_i h
      have : ¬ k' = k := by simpa using h
      rw [aget_cons, if_neg this]; exact ih
    · exact ih

theorem aget_filter_ne {α} (l : List (Nat × α)) {k k0 : Nat} (h : k0 ≠ k) :
    aget (l.filter (fun p => p.1 != k)) k0 = aget l k0 := by
  induction l with
  | nil => rfl
  | cons a r ih =>
    obtain ⟨k', v'⟩ := a
    simp only [List.filter_cons]
    split
    · rw [aget_cons, aget_cons, ih]
    · rename_i hk
      have hk' : k' = k := by simpa using hk
      rw [aget_cons, if_neg (by rw [hk']; exact fun e => h e.symm)]; exact ih

theorem aget_nil {α} (k : Nat) : aget ([] : List (Nat × α)) k = none := rfl

theorem aget_snapshot {α} (f : Nat → α) (p : Nat → Bool) (l : List Nat) (t : Nat) (ht : t ∈ l) (hp : p t = true) :
    aget ((l.filter p).map (fun t => (t, f t))) t = some (f t) := by
  induction l with
  | nil => simp at ht
  | cons a r ih =>
    simp only [List.filter_cons]
    by_cases hat : a = t
    · subst hat
      simp only [hp, if_true, List.map_cons]
      exact aget_cons_self _ _ _
    · have ht' : t ∈ r := by
        rcases List.mem_cons.1 ht with h | h
        · exact absurd h.symm hat
        · exact h
      split
      · simp only [List.map_cons]
        rw [aget_cons, if_neg hat]; exact ih ht'
      · exact ih ht'

/-! ### aggregate -/

theorem aget_aggInsert_ne (acc : List (SId × Int)) {s s0 : SId} (v : Int) (h : s ≠ s0) :
    aget (aggInsert acc s v) s0 = aget acc s0 := by
  induction acc with
  | nil => simp only [aggInsert]; rw [aget_cons, if_neg h]
  | cons a r ih =>
    obtain ⟨s', v'⟩ := a
    simp only [aggInsert]
    split
    · rename_i hs
      have hs' : s' = s := by simpa using hs
      rw [aget_cons, aget_cons, hs', if_neg h, if_neg h]
    · rw [aget_cons, aget_cons, ih]

theorem aget_aggInsert_self (acc : List (SId × Int)) (s : SId) (v : Int) :
    aget (aggInsert acc s v) s = some (match aget acc s with
      | none => v
      | some v' => if v > v' then v else v') := by
  induction acc with
  | nil => simp only [aggInsert, aget_nil]; exact aget_cons_self _ _ _
  | cons a r ih =>
    obtain ⟨s', v'⟩ := a
    simp only [aggInsert]
    split
    · rename_i hs
      have hs' : s' = s := by simpa using hs
      subst hs'
      rw [aget_cons_self, aget_cons_self]
    · rename_i hs
      have hs' : ¬ s' = s := by simpa using hs
      rw [aget_cons, if_neg hs', ih, aget_cons, if_neg hs']

/-- accumulator bounded by `H` at key `s` -/
def AccLe (s : SId) (H : Int) (acc : List (SId × Int)) : Prop :=
  aget acc s = none ∨ ∃ v, v ≤ H ∧ aget acc s = some v

theorem foldl_aggInsert_max {s : SId} {H : Int} (l : List (Int × SId × Int))
    (hle : ∀ e ∈ l, e.2.1 = s → e.2.2 ≤ H) : ∀ (acc : List (SId × Int)), AccLe s H acc →
    (aget acc s = some H ∨ ∃ e ∈ l, e.2.1 = s ∧ e.2.2 = H) →
    aget (l.foldl (fun acc e => aggInsert acc e.2.1 e.2.2) acc) s = some H := by
  induction l with
  | nil =>
    intro acc _ h
    rcases h with h | ⟨e, he, _⟩
    · exact h
    · simp at he
  | cons e r ih =>
    intro acc hacc h
    simp only [List.foldl_cons]
    have hle' : ∀ e ∈ r, e.2.1 = s → e.2.2 ≤ H := fun e' he' => hle e' (List.mem_cons_of_mem _ he')
    by_cases hes : e.2.1 = s
    · have hev : e.2.2 ≤ H := hle e List.mem_cons_self hes
      have hget := aget_aggInsert_self acc s e.2.2
      rw [← hes] at hget
      rw [hes] at hget
      apply ih hle'
      · right
        rw [hes, hget]
        rcases hacc with hn | ⟨v, hv, hsome⟩
        · rw [hn]; exact ⟨_, hev, rfl⟩
        · rw [hsome]
          refine ⟨_, ?_, rfl⟩
          show (if e.2.2 > v then e.2.2 else v) ≤ H
          split <;> omega
      · rcases h with h | ⟨e', he', hs', hv'⟩
        · left
          rw [hes, hget, h]
          show some (if e.2.2 > H then e.2.2 else H) = some H
          rw [if_neg (by omega)]
        · rcases List.mem_cons.1 he' with rfl | he'
          · left
            rw [hes, hget]
            rcases hacc with hn | ⟨v, hv, hsome⟩
            · rw [hn]; simp [hv']
            · rw [hsome]
              show some (if e'.2.2 > v then e'.2.2 else v) = some H
              congr 1
              split <;> omega
          · right; exact ⟨e', he', hs', hv'⟩
    · have hne : e.2.1 ≠ s := hes
      apply ih hle'
      · unfold AccLe; rw [aget_aggInsert_ne acc _ hne]; exact hacc
      · rcases h with h | ⟨e', he', hs', hv'⟩
        · left; rw [aget_aggInsert_ne acc _ hne]; exact h
        · rcases List.mem_cons.1 he' with rfl | he'
          · exact absurd hs' hes
          · right; exact ⟨e', he', hs', hv'⟩

theorem takeWhile_all {α} (p : α → Bool) (l : List α) (h : ∀ a ∈ l, p a = true) : l.takeWhile p = l := by
  induction l with
  | nil => rfl
  | cons a r ih =>
    rw [List.takeWhile_cons, h a List.mem_cons_self]
    simp only [if_true]
    rw [ih fun b hb => h b (List.mem_cons_of_mem _ hb)]

theorem aggregate_full {ring : List (Int × SId × Int)} {w : Int} (h : ∀ e ∈ ring, e.1 ≤ w) :
    aggregate ring w = (ring.foldl (fun acc e => aggInsert acc e.2.1 e.2.2) [], ring.length) := by
  unfold aggregate
  have : ring.takeWhile (fun e => decide (e.1 ≤ w)) = ring := by
    apply takeWhile_all
    intro e he; simpa using h e he
  simp only [this]

theorem aggregate_aget {ring : List (Int × SId × Int)} {w : Int} {s : SId} {H : Int} {p : Int}
    (h : ∀ e ∈ ring, e.1 ≤ w) (hle : ∀ e ∈ ring, e.2.1 = s → e.2.2 ≤ H) (hp : (p, s, H) ∈ ring) :
    aget (aggregate ring w).1 s = some H := by
  rw [aggregate_full h]
  exact foldl_aggInsert_max ring hle [] (Or.inl rfl) (Or.inr ⟨_, hp, rfl, rfl⟩)

theorem minVal_aset_ne_none (l : List (TId × Int)) (t : TId) (v : Int) : minVal (aset l t v) ≠ none := by
  have := aset_ne_nil l t v
  cases h : aset l t v with
  | nil => exact absurd h this
  | cons a r =>
    obtain ⟨t', v'⟩ := a
    simp only [minVal]
    split <;> simp

theorem mem_aset_strong {α} {l : List (Nat × α)} (hnd : (l.map (·.1)).Nodup) {k : Nat} {v : α} {p : Nat × α}
    (h : p ∈ aset l k v) : p = (k, v) ∨ (p ∈ l ∧ p.1 ≠ k) := by
  induction l with
  | nil => simp [aset] at h; exact Or.inl h
  | cons a r ih =>
    obtain ⟨k', v'⟩ := a
    simp only [List.map_cons, List.nodup_cons] at hnd
    simp only [aset] at h
    split at h
    · rename_i hk
      have hk' : k' = k := by simpa using hk
      rcases List.mem_cons.1 h with h | h
      · left; rw [h, hk']
      · right
        refine ⟨List.mem_cons_of_mem _ h, ?_⟩
        intro e
        apply hnd.1
        rw [hk', ← e]
        exact List.mem_map_of_mem h
    · rename_i hk
      have hk' : ¬ k' = k := by simpa using hk
      rcases List.mem_cons.1 h with h | h
      · right; rw [h]; exact ⟨List.mem_cons_self, hk'⟩
      · rcases ih hnd.2 h with h | ⟨h1, h2⟩
        · left; exact h
        · right; exact ⟨List.mem_cons_of_mem _ h1, h2⟩

end S2S.Routing
