import S2S.Spec.Translate
namespace S2S.Translate

theorem all_flatten {α} (p : α → Bool) (ls : List (List α)) :
    ls.flatten.all p = ls.all (fun l => l.all p) := by
  induction ls with
  | nil => rfl
  | cons l ls ih => simp [List.all_append, ih]

/-- the per-chunk obligations assemble into `Covers` -/
theorem covers_of_chunks (g : Graph) (tb : Tables) (mask : Nat) (chunks : List (List TypeD))
    (h : g.types = chunks.flatten) (hid : idsOK g.types = true)
    (hs : tb.skipAttr.all mask.testBit = true)
    (hc : chunks.all (fun c => c.all (typeOK g tb mask)) = true) : Covers g tb mask = true := by
  unfold Covers
  rw [hid, hs, h, all_flatten, hc]; rfl

/-- `chain` reads only the reviewed-blob list of the tables -/
theorem chain_congr (g : Graph) (tb1 tb2 : Tables) (h : tb1.reviewedNonEventBlob = tb2.reviewedNonEventBlob) :
    ∀ (steps : List Step) (cur leafTy : Nat), chain g tb1 steps cur leafTy = chain g tb2 steps cur leafTy := by
  intro steps
  induction steps with
  | nil => intro cur leafTy; rfl
  | cons s rest ih =>
    intro cur leafTy
    cases s with
    | field ty idx next => simp only [chain, ih]
    | blob ty idx => simp only [chain, ih, h]

end S2S.Translate
