import S2S.Proofs.RoutingC01
namespace S2S.Routing
theorem acks_safe_fault_free (ns nt : Nat) (acts : List Act)
    (henv : EnvOK Cfg.cur (State.init ns nt) acts) (hnf : NoFaults acts) :
    AcksSafeAlong Cfg.cur (State.init ns nt) acts := acks_safe_cur ns nt acts henv hnf
end S2S.Routing
