import S2S.Proofs.Observer
/-!
Concurrency clause of C20: every `ReportStreamValue` runs under `streamGrowLock`, so the reports of
concurrent streams are a *sequence* of atomic `report` steps in a scheduler-chosen order.
This file: definitions (`reports`, `Obs.WF`, `val`, `sumAt`) and the `addCounter` lemmas.
CORE LEAN ONLY.
-/
namespace S2S.Observer
open S2S.Shard

/-- a sequence of atomic `report` steps; `none` if any step blocks on a held lock -/
def reports : Obs → List (Int × Int) → Option Obs
  | o, [] => some o
  | o, (idx, v) :: rest =>
    match report o idx v with
    | none => none
    | some (o', _) => reports o' rest

/-- `value` is an int32 (what the Go signature `ReportStreamValue(idx int32, value int32)` guarantees) -/
def IsInt32 (v : Int) : Prop := -2147483648 ≤ v ∧ v < 2147483648

instance (v : Int) : Decidable (IsInt32 v) := by unfold IsInt32; infer_instance

/-- the index passes the `idx < 0 || idx > maxObservedStreamIndex` guard -/
def Accepted (idx : Int) : Prop := 0 ≤ idx ∧ idx ≤ maxObservedStreamIndex

instance (idx : Int) : Decidable (Accepted idx) := by unfold Accepted; infer_instance

/-- every report that is not rejected by the index guard carries an int32 value -/
def ValsInt32 (l : List (Int × Int)) : Prop := ∀ p ∈ l, Accepted p.1 → IsInt32 p.2

instance (l : List (Int × Int)) : Decidable (ValsInt32 l) := by unfold ValsInt32; infer_instance

/-- well-formed counter list: strictly sorted by index, no zero values, int32 values -/
def CWF (c : List (Nat × Int)) : Prop :=
  c.Pairwise (fun a b => a.1 < b.1) ∧ ∀ p ∈ c, p.2 ≠ 0 ∧ IsInt32 p.2

/-- well-formed observer state: `counters` strictly sorted by index, no zero values, every value an
    int32, every index inside the slice. -/
def Obs.WF (o : Obs) : Prop := CWF o.counters ∧ ∀ p ∈ o.counters, p.1 < o.len

/-- the counter of index `i` (0 when absent) -/
def val (c : List (Nat × Int)) (i : Nat) : Int := (c.lookup i).getD 0

/-- sum (exact, in `Int`) of the values reported for index `i` -/
def sumAt (i : Nat) (l : List (Int × Int)) : Int :=
  ((l.filter (fun p => p.1 = (i : Int))).map (·.2)).sum

theorem wrap32_isInt32 (x : Int) : IsInt32 (wrap32 x) := by
  unfold IsInt32 wrap32 two31 two32; omega

theorem wrap32_of_isInt32 {x : Int} (h : IsInt32 x) : wrap32 x = x := by
  unfold IsInt32 at h; unfold wrap32 two31 two32; omega

theorem wrap32_add_assoc (a v s : Int) : wrap32 (wrap32 (a + v) + s) = wrap32 (a + (v + s)) := by
  unfold wrap32 two31 two32; omega

/-! ### lookup in sorted lists -/

theorem lookup_none_of_lt (c : List (Nat × Int)) (i : Nat) (h : ∀ p ∈ c, i < p.1) :
    c.lookup i = none := by
  induction c with
  | nil => rfl
  | cons a rest ih =>
    obtain ⟨k, x⟩ := a
    have hk : i < k := h (k, x) (List.mem_cons_self ..)
    have : (i == k) = false := by simp; omega
    simp only [List.lookup, this]
    exact ih (fun p hp => h p (List.mem_cons_of_mem _ hp))

theorem mem_of_lookup {c : List (Nat × Int)} {i : Nat} {x : Int} (h : c.lookup i = some x) :
    (i, x) ∈ c := by
  induction c with
  | nil => cases h
  | cons a rest ih =>
    obtain ⟨k, y⟩ := a
    simp only [List.lookup] at h
    split at h
    · rename_i hik
      have : i = k := by simpa using hik
      cases h; subst this
      exact List.mem_cons_self ..
    · exact List.mem_cons_of_mem _ (ih h)

/-- strictly sorted association lists are determined by their `lookup` function -/
theorem sorted_ext (c₁ c₂ : List (Nat × Int))
    (h₁ : c₁.Pairwise (fun a b => a.1 < b.1)) (h₂ : c₂.Pairwise (fun a b => a.1 < b.1))
    (h : ∀ k, c₁.lookup k = c₂.lookup k) : c₁ = c₂ := by
  induction c₁ generalizing c₂ with
  | nil =>
    cases c₂ with
    | nil => rfl
    | cons b r₂ =>
      have := h b.1
      simp [List.lookup] at this
  | cons a r₁ ih =>
    obtain ⟨k, x⟩ := a
    cases c₂ with
    | nil =>
      have := h k
      simp [List.lookup] at this
    | cons b r₂ =>
      obtain ⟨k', x'⟩ := b
      rw [List.pairwise_cons] at h₁ h₂
      have hr₁ : r₁.lookup k = none := lookup_none_of_lt _ _ (fun p hp => h₁.1 p hp)
      have hr₂ : r₂.lookup k' = none := lookup_none_of_lt _ _ (fun p hp => h₂.1 p hp)
      have hkk : k = k' := by
        rcases Nat.lt_trichotomy k k' with hlt | heq | hgt
        · have h1 := h k
          have hne : (k == k') = false := by simp; omega
          have : r₂.lookup k = none :=
            lookup_none_of_lt _ _ (fun p hp => Nat.lt_trans hlt (h₂.1 p hp))
          simp [List.lookup, hne, this] at h1
        · exact heq
        · have h1 := h k'
          have hne : (k' == k) = false := by simp; omega
          have : r₁.lookup k' = none :=
            lookup_none_of_lt _ _ (fun p hp => Nat.lt_trans hgt (h₁.1 p hp))
          simp [List.lookup, hne, this] at h1
      subst hkk
      have hx : x = x' := by
        have h1 := h k
        simpa [List.lookup] using h1
      subst hx
      congr 1
      apply ih _ h₁.2 h₂.2
      intro j
      by_cases hj : j = k
      · subst hj; rw [hr₁, hr₂]
      · have h1 := h j
        have hne : (j == k) = false := by simp [hj]
        simpa [List.lookup, hne] using h1

/-! ### `addCounter` -/

theorem addCounter_mem (c : List (Nat × Int)) (i : Nat) (v : Int) (p : Nat × Int)
    (hp : p ∈ addCounter c i v) :
    p ∈ c ∨ (p.1 = i ∧ p.2 ≠ 0 ∧ (p.2 = v ∨ ∃ x, p.2 = wrap32 (x + v))) := by
  induction c with
  | nil =>
    unfold addCounter at hp
    split at hp
    · cases hp
    · rename_i hv
      have : p = (i, v) := by simpa using hp
      subst this
      exact Or.inr ⟨rfl, hv, Or.inl rfl⟩
  | cons a rest ih =>
    obtain ⟨k, x⟩ := a
    unfold addCounter at hp
    split at hp
    · rename_i hk
      subst hk
      split at hp
      · exact Or.inl (List.mem_cons_of_mem _ hp)
      · rename_i hw
        rcases List.mem_cons.1 hp with h | h
        · subst h
          exact Or.inr ⟨rfl, hw, Or.inr ⟨x, rfl⟩⟩
        · exact Or.inl (List.mem_cons_of_mem _ h)
    · split at hp
      · split at hp
        · exact Or.inl hp
        · rename_i hv
          rcases List.mem_cons.1 hp with h | h
          · subst h
            exact Or.inr ⟨rfl, hv, Or.inl rfl⟩
          · exact Or.inl h
      · rcases List.mem_cons.1 hp with h | h
        · subst h
          exact Or.inl (List.mem_cons_self ..)
        · rcases ih h with h' | h'
          · exact Or.inl (List.mem_cons_of_mem _ h')
          · exact Or.inr h'

theorem addCounter_sorted (c : List (Nat × Int)) (i : Nat) (v : Int)
    (h : c.Pairwise (fun a b => a.1 < b.1)) :
    (addCounter c i v).Pairwise (fun a b => a.1 < b.1) := by
  induction c with
  | nil =>
    unfold addCounter
    split <;> simp
  | cons a rest ih =>
    obtain ⟨k, x⟩ := a
    rw [List.pairwise_cons] at h
    unfold addCounter
    split
    · rename_i hk
      subst hk
      split
      · exact h.2
      · exact List.pairwise_cons.2 ⟨h.1, h.2⟩
    · rename_i hk
      split
      · rename_i hlt
        split
        · exact List.pairwise_cons.2 h
        · refine List.pairwise_cons.2 ⟨?_, List.pairwise_cons.2 h⟩
          intro p hp
          rcases List.mem_cons.1 hp with hp | hp
          · subst hp; exact hlt
          · exact Nat.lt_trans hlt (h.1 p hp)
      · rename_i hnlt
        refine List.pairwise_cons.2 ⟨?_, ih h.2⟩
        intro p hp
        rcases addCounter_mem _ _ _ _ hp with hp | ⟨hp, _⟩
        · exact h.1 p hp
        · show k < p.1
          omega

theorem addCounter_cwf (c : List (Nat × Int)) (i : Nat) (v : Int) (h : CWF c) (hv : IsInt32 v) :
    CWF (addCounter c i v) := by
  refine ⟨addCounter_sorted c i v h.1, ?_⟩
  intro p hp
  rcases addCounter_mem _ _ _ _ hp with hp | ⟨_, hnz, hp | ⟨x, hp⟩⟩
  · exact h.2 p hp
  · exact ⟨hnz, hp ▸ hv⟩
  · exact ⟨hnz, hp ▸ wrap32_isInt32 _⟩

/-- on a sorted list the new `lookup i` is a function of the old one and of `v` -/
theorem addCounter_lookup_eq (c : List (Nat × Int)) (i : Nat) (v : Int)
    (h : c.Pairwise (fun a b => a.1 < b.1)) :
    (addCounter c i v).lookup i =
      (match c.lookup i with
       | none => if v = 0 then none else some v
       | some x => if wrap32 (x + v) = 0 then none else some (wrap32 (x + v))) := by
  induction c with
  | nil =>
    unfold addCounter
    split <;> simp [List.lookup]
  | cons a rest ih =>
    obtain ⟨k, x⟩ := a
    rw [List.pairwise_cons] at h
    unfold addCounter
    split
    · rename_i hk
      subst hk
      have hr : rest.lookup k = none := lookup_none_of_lt _ _ (fun p hp => h.1 p hp)
      split <;> simp [List.lookup, *]
    · rename_i hk
      have hne : (i == k) = false := by simp; omega
      split
      · rename_i hlt
        have hr : rest.lookup i = none :=
          lookup_none_of_lt _ _ (fun p hp => Nat.lt_trans hlt (h.1 p hp))
        split <;> simp [List.lookup, *]
      · simp only [List.lookup, hne]
        exact ih h.2

theorem val_addCounter_ne (c : List (Nat × Int)) (i : Nat) (v : Int) (j : Nat) (hj : j ≠ i) :
    val (addCounter c i v) j = val c j := by
  unfold val; rw [addCounter_lookup_ne c i v j hj]

theorem val_isInt32 (c : List (Nat × Int)) (h : CWF c) (i : Nat) : IsInt32 (val c i) := by
  unfold val
  cases hl : c.lookup i with
  | none => simp [IsInt32]
  | some x => exact (h.2 _ (mem_of_lookup hl)).2

theorem val_addCounter_eq (c : List (Nat × Int)) (i : Nat) (v : Int) (h : CWF c) (hv : IsInt32 v) :
    val (addCounter c i v) i = wrap32 (val c i + v) := by
  unfold val
  rw [addCounter_lookup_eq c i v h.1]
  cases hl : c.lookup i with
  | none =>
    simp only [Option.getD_none, Int.zero_add, wrap32_of_isInt32 hv]
    split <;> simp [*]
  | some x =>
    simp only [Option.getD_some]
    split <;> simp [*]

/-- in a well-formed list `lookup` is recovered from `val` -/
theorem lookup_of_val (c : List (Nat × Int)) (h : CWF c) (i : Nat) :
    c.lookup i = if val c i = 0 then none else some (val c i) := by
  unfold val
  cases hl : c.lookup i with
  | none => simp
  | some x =>
    have := (h.2 _ (mem_of_lookup hl)).1
    simp only [Option.getD_some]
    rw [if_neg this]

theorem cwf_ext (c₁ c₂ : List (Nat × Int)) (h₁ : CWF c₁) (h₂ : CWF c₂)
    (h : ∀ k, val c₁ k = val c₂ k) : c₁ = c₂ :=
  sorted_ext c₁ c₂ h₁.1 h₂.1 (fun k => by rw [lookup_of_val c₁ h₁, lookup_of_val c₂ h₂, h k])

theorem cwf_nil_of_val (c : List (Nat × Int)) (h : CWF c) (hz : ∀ k, val c k = 0) : c = [] :=
  cwf_ext c [] h ⟨List.Pairwise.nil, fun _ hp => by cases hp⟩ (fun k => by rw [hz k]; rfl)

end S2S.Observer
