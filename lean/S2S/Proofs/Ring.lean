import S2S.Proofs.RingAgg
namespace S2S.Ring

/-- `NoOverflow` for a related reference means `wrap64` is the identity on the code's count -/
theorem wrap_of_rel {b : Buf} {r : Ref} (h : Rel b r) {w : Int} (hno : NoOverflow r w) :
    wrap64 (w - b.start + 1) = w - b.start + 1 := by
  rw [h.start]
  exact wrap64_eq hno.1 hno.2

theorem run_wf (c : Int) (ops : List Op) : ((new c).run true ops).WF :=
  run_wf_gen ops (new_wf c)

theorem aggregate_exact (c : Int) (ops : List Op) (hg : Good {} ops) (w : Int)
    (hno : NoOverflow (Ref.run ops) w) (k : Key) :
    ((((new c).run true ops).aggregate w).1.lookup k) = (Ref.run ops).expected w k := by
  have hrel := rel_run c ops hg
  rw [(aggregate_eq _ w (wrap_of_rel hrel hno)).1, lookup_fold_eq_max, expected_eq hrel]

theorem aggregate_nodup (c : Int) (ops : List Op) (w : Int) :
    ((((new c).run true ops).aggregate w).1.map (·.1)).Nodup :=
  aggregate_nodup_gen _ w

theorem aggregate_count (c : Int) (ops : List Op) (hg : Good {} ops) (w : Int)
    (hno : NoOverflow (Ref.run ops) w) :
    (((new c).run true ops).aggregate w).2 = (Ref.run ops).expectedCount w := by
  have hrel := rel_run c ops hg
  rw [(aggregate_eq _ w (wrap_of_rel hrel hno)).2]
  unfold Ref.expectedCount
  have h1 := hrel.start
  have h2 := hrel.size
  rw [h1]
  split
  · omega
  · split <;> omega

theorem contents_exact (c : Int) (ops : List Op) (hg : Good {} ops) :
    ((new c).run true ops).pairs = (Ref.run ops).out := by
  rw [pairs_eq_pairsOf]
  exact (rel_run c ops hg).out
end S2S.Ring
