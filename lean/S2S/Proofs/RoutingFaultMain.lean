import S2S.Proofs.RoutingFaultStepD
import S2S.Proofs.RoutingFaultStepE
/-!
C04 modulo the recorded findings: in every run (stream breaks and re-opens at any position) that satisfies
`EnvOKF`, every acknowledgement sent upstream covers only tasks that are confirmed by their target stream or
excused in one of the two recorded ways.

Proof: `InvF` (S2S/Proofs/RoutingFaultDef.lean) holds initially and is preserved by EVERY step, together with
the ghost bookkeeping; every ack a step sends equals the post-state's `lastSentAck` (`step_acksAreLast`, which
already covers the fault steps), whose source is active, and `last_safe` covers all needed tasks — a task that
is not needed is excused.
-/
namespace S2S.Routing

theorem step_invF {σ σ' : State} {γ : Ghost} (hI : InvF σ γ) (a : Act)
    (henv : match a with
      | .recv s tasks high => RecvOK σ.targets.length (σ.src s) tasks high ∧ RecvFresh σ γ s tasks
      | _ => True)
    (h : step Cfg.cur σ a = some σ') : InvF σ' (γ.upd σ a) := by
  cases a with
  | recv s tasks high => exact step_invF_recv hI s tasks high henv.1 henv.2 h
  | bcastStep s t => exact step_invF_bcastStep hI s t h
  | deliver s t => exact step_invF_deliver hI s t h
  | take t => exact step_invF_take hI t h
  | emit t => exact step_invF_emit hI t h
  | tack t w => exact step_invF_tack hI t w h
  | ackFwd t s => exact step_invF_ackFwd hI t s h
  | ackFin t => exact step_invF_ackFin hI t h
  | rack s => exact step_invF_rack hI s h
  | openSrc s => exact step_invF_openSrc hI s h
  | openTgt t => exact step_invF_openTgt hI t h
  | startTgt t => exact step_invF_startTgt hI t h
  | replayStep t s => exact step_invF_replayStep hI t s h
  | replayDone t => exact step_invF_replayDone hI t h
  | tick => exact step_invF_tick hI h
  | breakTgt t => exact step_invF_breakTgt hI t h
  | breakSrc s => exact step_invF_breakSrc hI s h

theorem step_ackStepSafeF {σ σ' : State} {γ' : Ghost} (hI' : InvF σ' γ') (hl : AcksAreLast σ σ') :
    AckStepSafeF σ σ' γ' := by
  intro s _ v hv p hp hlt
  have hlast := hl s v hv
  have hact := (hI'.src s).last_active v hlast
  by_cases hn : Need γ' s p.2 (σ'.src s) p.1
  · left; exact (hI'.pair s p.2).last_safe v hlast p.1 hn hlt
  · right
    unfold Excused
    unfold Need at hn
    have hb : ebase γ' s (σ'.src s) = γ'.baseOf s := by unfold ebase; rw [if_pos hact]
    rw [hb] at hn
    by_cases h1 : p ∈ (σ'.src s).received.take (γ'.baseOf s)
    · left; exact h1
    · right
      by_cases h2 : (s, p.1) ∈ γ'.lostOf p.2
      · exact h2
      · exact absurd ⟨hp, h1, h2⟩ hn

theorem acks_safeF_of_inv (σ : State) (γ : Ghost) (hI : InvF σ γ) (acts : List Act)
    (henv : EnvOKF Cfg.cur σ γ acts) : AcksSafeFAlong Cfg.cur σ γ acts := by
  induction acts generalizing σ γ with
  | nil => trivial
  | cons a rest ih =>
    unfold EnvOKF at henv
    obtain ⟨henva, henvr⟩ := henv
    unfold AcksSafeFAlong
    cases hstep : step Cfg.cur σ a with
    | none =>
      rw [hstep, ghost_next_none γ hstep] at henvr
      exact ih σ γ hI henvr
    | some σ' =>
      rw [hstep] at henvr
      have hI' : InvF σ' (γ.next Cfg.cur σ a) := by
        rw [ghost_next_of_step γ hstep]; exact step_invF hI a henva hstep
      exact ⟨step_ackStepSafeF hI' (step_acksAreLast a hstep), ih σ' _ hI' henvr⟩

/-- **C04 modulo the recorded findings** -/
theorem acks_safe_modulo_known (ns nt : Nat) (acts : List Act)
    (henv : EnvOKF Cfg.cur (State.init ns nt) {} acts) :
    AcksSafeFAlong Cfg.cur (State.init ns nt) {} acts :=
  acks_safeF_of_inv _ _ (invF_init ns nt) acts henv

end S2S.Routing
