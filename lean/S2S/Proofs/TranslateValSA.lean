import S2S.Proofs.TranslateValEq
import S2S.Proofs.TranslateValRound
/-! C14 / C13 (value level): the search-attribute visitor is the simultaneous renaming of the keys of the containers it
    reaches (values and everything else untouched), and translating back restores the object. -/
set_option linter.unusedSectionVars false
namespace S2S.TranslateVal
open S2S.Translate S2S.NameMap
variable {α : Type} [DecidableEq α] (g : Graph) (tb : Tables) (X : Ext α) (mt mt' : α → α × Bool) (ρ : α → α)

def saBlobStep (re : Bool) (evs : List (Val α)) : Val α × Bool :=
  blobResult re evs false (visitSaItems g tb X mt .plain evs)

def saFieldStep (cont : Bool) (f : FieldD) (v : Val α) : Val α × Bool :=
  match v with
  | .map es =>
    (Val.map (visitSaItems g tb X mt (if saRenField tb X cont f then .ren else .plain) es).1,
     (visitSaItems g tb X mt (if saRenField tb X cont f then .ren else .plain) es).2)
  | w => visitSa g tb X mt (some f) w

def saItemStep (mode : SMode) (v : Val α) : Val α × Bool :=
  match mode with
  | .ren =>
    (match v with
     | .kv k w => (Val.kv (app mt k).1 (visitSa g tb X mt none w).1, (app mt k).2 || (visitSa g tb X mt none w).2)
     | w => visitSa g tb X mt none w)
  | .blobs =>
    (match v with
     | .blobEv re evs => saBlobStep g tb X mt re evs
     | w => visitSa g tb X mt none w)
  | .plain => visitSa g tb X mt none v

theorem visitSaFields_cons (cont : Bool) (f : FieldD) (fds : List FieldD) (v : Val α) (vs : List (Val α)) :
    visitSaFields g tb X mt cont (f :: fds) (v :: vs) =
      ((saFieldStep g tb X mt cont f v).1 :: (visitSaFields g tb X mt cont fds vs).1,
       (saFieldStep g tb X mt cont f v).2 || (visitSaFields g tb X mt cont fds vs).2) := by
  cases v <;> rfl
theorem visitSaItems_cons (mode : SMode) (v : Val α) (vs : List (Val α)) :
    visitSaItems g tb X mt mode (v :: vs) =
      ((saItemStep g tb X mt mode v).1 :: (visitSaItems g tb X mt mode vs).1,
       (saItemStep g tb X mt mode v).2 || (visitSaItems g tb X mt mode vs).2) := by
  cases mode <;> cases v <;> rfl
theorem visitSaFields_nil (cont : Bool) (vs : List (Val α)) : visitSaFields g tb X mt cont [] vs = (vs, false) := by
  cases vs <;> rfl
theorem visitSaFields_nil' (cont : Bool) (f : FieldD) (fds : List FieldD) :
    visitSaFields g tb X mt cont (f :: fds) [] = ([], false) := rfl
theorem visitSa_msg (fc : Option FieldD) (ty : Nat) (fs : List (Val α)) :
    visitSa g tb X mt fc (.msg ty fs) =
      (.msg ty (visitSaFields g tb X mt (saNamed tb fc && saTyped fc) (g.typeD ty).fields fs).1,
       (visitSaFields g tb X mt (saNamed tb fc && saTyped fc) (g.typeD ty).fields fs).2) := rfl
theorem visitSa_map (fc : Option FieldD) (l : List (Val α)) :
    visitSa g tb X mt fc (.map l) =
      (.map (visitSaItems g tb X mt (if saNamed tb fc && saTyped fc then .ren else .plain) l).1,
       (visitSaItems g tb X mt (if saNamed tb fc && saTyped fc then .ren else .plain) l).2) := rfl
theorem visitSa_list (fc : Option FieldD) (l : List (Val α)) :
    visitSa g tb X mt fc (.list l) =
      (.list (visitSaItems g tb X mt (if blobCtx tb fc then .blobs else .plain) l).1,
       (visitSaItems g tb X mt (if blobCtx tb fc then .blobs else .plain) l).2) := rfl
theorem visitSa_kv (fc : Option FieldD) (k : α) (v : Val α) :
    visitSa g tb X mt fc (.kv k v) = (.kv k (visitSa g tb X mt none v).1, (visitSa g tb X mt none v).2) := rfl
theorem visitSa_blobEv (fc : Option FieldD) (re : Bool) (evs : List (Val α)) :
    visitSa g tb X mt fc (.blobEv re evs) = if blobCtx tb fc then saBlobStep g tb X mt re evs else (.blobEv re evs, false) := rfl
theorem saFieldStep_map (cont : Bool) (f : FieldD) (es : List (Val α)) :
    saFieldStep g tb X mt cont f (.map es) =
      (Val.map (visitSaItems g tb X mt (if saRenField tb X cont f then .ren else .plain) es).1,
       (visitSaItems g tb X mt (if saRenField tb X cont f then .ren else .plain) es).2) := rfl
theorem saItemStep_ren_kv (k : α) (w : Val α) :
    saItemStep g tb X mt .ren (.kv k w) =
      (Val.kv (app mt k).1 (visitSa g tb X mt none w).1, (app mt k).2 || (visitSa g tb X mt none w).2) := rfl
theorem saItemStep_blobs_blobEv (re : Bool) (evs : List (Val α)) :
    saItemStep g tb X mt .blobs (.blobEv re evs) = saBlobStep g tb X mt re evs := rfl

theorem saBlobStep_unmatched (re : Bool) (evs : List (Val α)) (h : (saBlobStep g tb X mt re evs).2 = false) :
    (saBlobStep g tb X mt re evs).1 = .blobEv re evs := by
  unfold saBlobStep at h ⊢
  rcases blobResult_cases re evs false (visitSaItems g tb X mt .plain evs) with ⟨e, _⟩ | ⟨e, _⟩
  · rw [e]
  · rw [e] at h; cases h

/-- nothing matched ⇒ nothing changed -/
theorem sa_unmatched_unchanged :
    (∀ v : Val α, ∀ fc, (visitSa g tb X mt fc v).2 = false → (visitSa g tb X mt fc v).1 = v) ∧
    (∀ l : List (Val α),
      (∀ cont fds, (visitSaFields g tb X mt cont fds l).2 = false → (visitSaFields g tb X mt cont fds l).1 = l) ∧
      (∀ mode, (visitSaItems g tb X mt mode l).2 = false → (visitSaItems g tb X mt mode l).1 = l)) := by
  apply Val.ind2
  · intro s fc _; rfl
  · intro t fc _; rfl
  · intro t fc _; rfl
  · intro k fc _; rfl
  · intro ty fs ih fc h
    rw [visitSa_msg] at h ⊢
    simp only at h ⊢
    rw [ih.1 _ _ h]
  · intro l ih fc h
    rw [visitSa_list] at h ⊢
    simp only at h ⊢
    rw [ih.2 _ h]
  · intro l ih fc h
    rw [visitSa_map] at h ⊢
    simp only at h ⊢
    rw [ih.2 _ h]
  · intro k v ih fc h
    rw [visitSa_kv] at h ⊢
    simp only at h ⊢
    rw [ih none h]
  · intro e t fc _; rfl
  · intro re evs _ fc h
    rw [visitSa_blobEv] at h ⊢
    split at h
    · rename_i hb
      rw [if_pos hb]
      exact saBlobStep_unmatched g tb X mt re evs h
    · rename_i hb
      rw [if_neg hb]
  · refine ⟨fun cont fds _ => ?_, fun mode _ => rfl⟩
    cases fds with
    | nil => rw [visitSaFields_nil]
    | cons f fds => rw [visitSaFields_nil']
  · intro v vs ihv ihk ihvs
    refine ⟨?_, ?_⟩
    · intro cont fds h
      cases fds with
      | nil => rw [visitSaFields_nil]
      | cons f fds =>
        rw [visitSaFields_cons] at h ⊢
        simp only [Bool.or_eq_false_iff] at h ⊢
        rw [ihvs.1 cont fds h.2]
        congr 1
        have h1 := h.1
        cases v with
        | map es =>
          rw [saFieldStep_map] at h1 ⊢
          simp only at h1 ⊢
          have := ihk.2 _ h1
          simp only [Val.kids] at this
          rw [this]
        | _ => exact ihv (some f) h1
    · intro mode h
      rw [visitSaItems_cons] at h ⊢
      simp only [Bool.or_eq_false_iff] at h ⊢
      rw [ihvs.2 mode h.2]
      congr 1
      have h1 := h.1
      cases mode with
      | plain => exact ihv none h1
      | ren =>
        cases v with
        | kv k w =>
          rw [saItemStep_ren_kv] at h1 ⊢
          simp only [Bool.or_eq_false_iff] at h1 ⊢
          have e1 := app_fst_of_unmatched mt k h1.1
          have e2 := ihv none (by rw [visitSa_kv]; exact h1.2)
          rw [visitSa_kv] at e2
          simp only [Val.kv.injEq, true_and] at e2
          rw [e1, e2]
        | _ => exact ihv none h1
      | blobs =>
        cases v with
        | blobEv re evs => exact saBlobStep_unmatched g tb X mt re evs h1
        | _ => exact ihv none h1

/-! the simultaneous renaming -/
def saSpecFieldStep (cont : Bool) (f : FieldD) (v : Val α) : Val α :=
  match v with
  | .map es => Val.map (saSpecItems g tb X ρ (if saRenField tb X cont f then .ren else .plain) es)
  | w => saSpecV g tb X ρ (some f) w
def saSpecItemStep (mode : SMode) (v : Val α) : Val α :=
  match mode with
  | .ren => (match v with
             | .kv k w => Val.kv (ρ k) (saSpecV g tb X ρ none w)
             | w => saSpecV g tb X ρ none w)
  | .blobs => (match v with
               | .blobEv re evs => Val.blobEv re (saSpecItems g tb X ρ .plain evs)
               | w => saSpecV g tb X ρ none w)
  | .plain => saSpecV g tb X ρ none v
theorem saSpecFields_cons (cont : Bool) (f : FieldD) (fds : List FieldD) (v : Val α) (vs : List (Val α)) :
    saSpecFields g tb X ρ cont (f :: fds) (v :: vs) = saSpecFieldStep g tb X ρ cont f v :: saSpecFields g tb X ρ cont fds vs := by
  cases v <;> rfl
theorem saSpecItems_cons (mode : SMode) (v : Val α) (vs : List (Val α)) :
    saSpecItems g tb X ρ mode (v :: vs) = saSpecItemStep g tb X ρ mode v :: saSpecItems g tb X ρ mode vs := by
  cases mode <;> cases v <;> rfl
theorem saSpecFields_nil (cont : Bool) (vs : List (Val α)) : saSpecFields g tb X ρ cont [] vs = vs := by cases vs <;> rfl
theorem saSpecV_blobEv (fc : Option FieldD) (re : Bool) (evs : List (Val α)) :
    saSpecV g tb X ρ fc (.blobEv re evs) = if blobCtx tb fc then .blobEv re (saSpecItems g tb X ρ .plain evs) else .blobEv re evs := rfl

theorem saBlob_spec (re : Bool) (evs : List (Val α))
    (ih : unflagL (visitSaItems g tb X mt .plain evs).1 = unflagL (saSpecItems g tb X ρ .plain evs)) :
    unflag (saBlobStep g tb X mt re evs).1 = unflag (.blobEv re (saSpecItems g tb X ρ .plain evs)) := by
  unfold saBlobStep
  rcases blobResult_cases re evs false (visitSaItems g tb X mt .plain evs) with ⟨e, hs⟩ | ⟨e, _⟩
  · rw [e, unflag_blobEv, unflag_blobEv]
    congr 1
    rcases hs with hs | hs
    · cases hs
    · have := ((sa_unmatched_unchanged g tb X mt).2 evs).2 .plain hs
      rw [this] at ih
      exact ih
  · rw [e, unflag_blobEv, unflag_blobEv, ih]

/-- the visitor's result is the simultaneous renaming `k ↦ (app mt k).1` of the keys of the reached containers -/
theorem sa_is_renaming (hρ : ∀ k, ρ k = (app mt k).1) :
    (∀ v : Val α, ∀ fc, unflag (visitSa g tb X mt fc v).1 = unflag (saSpecV g tb X ρ fc v)) ∧
    (∀ l : List (Val α),
      (∀ cont fds, unflagL (visitSaFields g tb X mt cont fds l).1 = unflagL (saSpecFields g tb X ρ cont fds l)) ∧
      (∀ mode, unflagL (visitSaItems g tb X mt mode l).1 = unflagL (saSpecItems g tb X ρ mode l))) := by
  apply Val.ind2
  · intro s fc; rfl
  · intro t fc; rfl
  · intro t fc; rfl
  · intro k fc; rfl
  · intro ty fs ih fc
    rw [visitSa_msg]
    show unflag (Val.msg ty _) = unflag (Val.msg ty _)
    rw [unflag_msg, unflag_msg, ih.1]
  · intro l ih fc
    rw [visitSa_list]
    show unflag (Val.list _) = unflag (Val.list _)
    rw [unflag_list, unflag_list, ih.2]
  · intro l ih fc
    rw [visitSa_map]
    show unflag (Val.map _) = unflag (Val.map _)
    rw [unflag_map, unflag_map, ih.2]
  · intro k v ih fc
    rw [visitSa_kv]
    show unflag (Val.kv k _) = unflag (Val.kv k _)
    rw [unflag_kv, unflag_kv, ih none]
  · intro e t fc; rfl
  · intro re evs ih fc
    rw [visitSa_blobEv, saSpecV_blobEv]
    split
    · exact saBlob_spec g tb X mt ρ re evs (ih.2 .plain)
    · rfl
  · refine ⟨fun cont fds => ?_, fun mode => rfl⟩
    cases fds with
    | nil => rw [visitSaFields_nil, saSpecFields_nil]
    | cons f fds => rw [visitSaFields_nil']; rfl
  · intro v vs ihv ihk ihvs
    refine ⟨?_, ?_⟩
    · intro cont fds
      cases fds with
      | nil => rw [visitSaFields_nil, saSpecFields_nil]
      | cons f fds =>
        rw [visitSaFields_cons, saSpecFields_cons, unflagL_cons, unflagL_cons, ihvs.1 cont fds]
        congr 1
        cases v with
        | map es =>
          rw [saFieldStep_map]
          show unflag (Val.map _) = unflag (Val.map _)
          rw [unflag_map, unflag_map]
          congr 1
          exact ihk.2 _
        | _ => exact ihv (some f)
    · intro mode
      rw [visitSaItems_cons, saSpecItems_cons, unflagL_cons, unflagL_cons, ihvs.2 mode]
      congr 1
      cases mode with
      | plain => exact ihv none
      | ren =>
        cases v with
        | kv k w =>
          rw [saItemStep_ren_kv]
          show unflag (Val.kv _ _) = unflag (Val.kv (ρ k) _)
          rw [unflag_kv, unflag_kv, hρ k]
          congr 1
          have := ihv none
          rw [visitSa_kv] at this
          show unflag (visitSa g tb X mt none w).1 = unflag (saSpecV g tb X ρ none w)
          have e : unflag (Val.kv k (visitSa g tb X mt none w).1) = unflag (saSpecV g tb X ρ none (Val.kv k w)) := this
          rw [unflag_kv] at e
          exact (Val.kv.inj e).2
        | _ => exact ihv none
      | blobs =>
        cases v with
        | blobEv re evs =>
          rw [saItemStep_blobs_blobEv]
          exact saBlob_spec g tb X mt ρ re evs (ihk.2 .plain)
        | _ => exact ihv none


/-! round trip -/
def saKeysFieldStep (cont : Bool) (f : FieldD) (v : Val α) : List α :=
  match v with
  | .map es => saKeysItems g tb X (if saRenField tb X cont f then .ren else .plain) es
  | w => saKeysV g tb X (some f) w
def saKeysItemStep (mode : SMode) (v : Val α) : List α :=
  match mode with
  | .ren => (match v with
             | .kv k w => k :: saKeysV g tb X none w
             | w => saKeysV g tb X none w)
  | .blobs => (match v with
               | .blobEv _ evs => saKeysItems g tb X .plain evs
               | w => saKeysV g tb X none w)
  | .plain => saKeysV g tb X none v
theorem saKeysFields_cons (cont : Bool) (f : FieldD) (fds : List FieldD) (v : Val α) (vs : List (Val α)) :
    saKeysFields g tb X cont (f :: fds) (v :: vs) = saKeysFieldStep g tb X cont f v ++ saKeysFields g tb X cont fds vs := by
  cases v <;> rfl
theorem saKeysItems_cons (mode : SMode) (v : Val α) (vs : List (Val α)) :
    saKeysItems g tb X mode (v :: vs) = saKeysItemStep g tb X mode v ++ saKeysItems g tb X mode vs := by
  cases mode <;> cases v <;> rfl
theorem saKeysV_blobEv (fc : Option FieldD) (re : Bool) (evs : List (Val α)) :
    saKeysV g tb X fc (.blobEv re evs) = if blobCtx tb fc then saKeysItems g tb X .plain evs else [] := rfl

theorem saBlob_roundtrip (re : Bool) (evs : List (Val α))
    (ih : unflagL (visitSaItems g tb X mt' .plain (visitSaItems g tb X mt .plain evs).1).1 = unflagL evs) :
    ∃ re' evs', (saBlobStep g tb X mt re evs).1 = .blobEv re' evs' ∧
      unflag (saBlobStep g tb X mt' re' evs').1 = unflag (.blobEv re evs) := by
  unfold saBlobStep
  rcases blobResult_cases re evs false (visitSaItems g tb X mt .plain evs) with ⟨h1, hs⟩ | ⟨h1, _, _⟩
  · rw [h1]
    refine ⟨re, evs, rfl, ?_⟩
    have e : (visitSaItems g tb X mt .plain evs).1 = evs := by
      rcases hs with hs | hs
      · cases hs
      · exact ((sa_unmatched_unchanged g tb X mt).2 evs).2 .plain hs
    rw [e] at ih
    rcases blobResult_cases re evs false (visitSaItems g tb X mt' .plain evs) with ⟨h2, _⟩ | ⟨h2, _, _⟩
    · rw [h2]
    · rw [h2, unflag_blobEv, unflag_blobEv, ih]
  · rw [h1]
    refine ⟨true, _, rfl, ?_⟩
    rcases blobResult_cases true (visitSaItems g tb X mt .plain evs).1 false
        (visitSaItems g tb X mt' .plain (visitSaItems g tb X mt .plain evs).1) with ⟨h2, hs2⟩ | ⟨h2, _, _⟩
    · rw [h2, unflag_blobEv, unflag_blobEv]
      congr 1
      rcases hs2 with hs2 | hs2
      · cases hs2
      · have e := ((sa_unmatched_unchanged g tb X mt').2 _).2 .plain hs2
        rw [e] at ih
        exact ih
    · rw [h2, unflag_blobEv, unflag_blobEv, ih]

theorem saFieldStep_visit_blob (cont : Bool) (f : FieldD) (re : Bool) (evs : List (Val α)) :
    saFieldStep g tb X mt' cont f (visitSa g tb X mt (some f) (.blobEv re evs)).1 =
      visitSa g tb X mt' (some f) (visitSa g tb X mt (some f) (.blobEv re evs)).1 := by
  rw [visitSa_blobEv]
  split
  · unfold saBlobStep
    rcases blobResult_cases re evs false (visitSaItems g tb X mt .plain evs) with ⟨h, _⟩ | ⟨h, _⟩ <;> rw [h] <;> rfl
  · rfl

theorem sa_roundtrip :
    (∀ v : Val α, ∀ fc, (∀ k ∈ saKeysV g tb X fc v, (app mt' (app mt k).1).1 = k) →
        unflag (visitSa g tb X mt' fc (visitSa g tb X mt fc v).1).1 = unflag v) ∧
    (∀ l : List (Val α),
      (∀ cont fds, (∀ k ∈ saKeysFields g tb X cont fds l, (app mt' (app mt k).1).1 = k) →
        unflagL (visitSaFields g tb X mt' cont fds (visitSaFields g tb X mt cont fds l).1).1 = unflagL l) ∧
      (∀ mode, (∀ k ∈ saKeysItems g tb X mode l, (app mt' (app mt k).1).1 = k) →
        unflagL (visitSaItems g tb X mt' mode (visitSaItems g tb X mt mode l).1).1 = unflagL l)) := by
  apply Val.ind2
  · intro s fc _; rfl
  · intro t fc _; rfl
  · intro t fc _; rfl
  · intro k fc _; rfl
  · intro ty fs ih fc h
    rw [visitSa_msg, visitSa_msg, unflag_msg, unflag_msg]
    congr 1
    exact ih.1 _ _ h
  · intro l ih fc h
    rw [visitSa_list, visitSa_list, unflag_list, unflag_list]
    congr 1
    exact ih.2 _ h
  · intro l ih fc h
    rw [visitSa_map, visitSa_map, unflag_map, unflag_map]
    congr 1
    exact ih.2 _ h
  · intro k v ih fc h
    rw [visitSa_kv, visitSa_kv, unflag_kv, unflag_kv]
    congr 1
    exact ih none h
  · intro e t fc _; rfl
  · intro re evs ih fc h
    rw [visitSa_blobEv]
    by_cases hb : blobCtx tb fc = true
    · rw [if_pos hb]
      obtain ⟨re', evs', e1, e2⟩ := saBlob_roundtrip g tb X mt mt' re evs (by
        apply ih.2 .plain
        rw [saKeysV_blobEv, if_pos hb] at h
        exact h)
      rw [e1, visitSa_blobEv, if_pos hb]
      exact e2
    · rw [if_neg hb, visitSa_blobEv, if_neg hb]
  · refine ⟨fun cont fds _ => ?_, fun mode _ => rfl⟩
    cases fds with
    | nil => rw [visitSaFields_nil, visitSaFields_nil]
    | cons f fds => rw [visitSaFields_nil', visitSaFields_nil']
  · intro v vs ihv ihk ihvs
    refine ⟨?_, ?_⟩
    · intro cont fds h
      cases fds with
      | nil => rw [visitSaFields_nil, visitSaFields_nil]
      | cons f fds =>
        rw [saKeysFields_cons] at h
        rw [visitSaFields_cons, visitSaFields_cons, unflagL_cons, unflagL_cons]
        have h1 : ∀ k ∈ saKeysFieldStep g tb X cont f v, (app mt' (app mt k).1).1 = k := fun s hs => h s (List.mem_append_left _ hs)
        rw [ihvs.1 cont fds (fun s hs => h s (List.mem_append_right _ hs))]
        congr 1
        cases v with
        | map es =>
          rw [saFieldStep_map g tb X mt cont f es, saFieldStep_map, unflag_map, unflag_map]
          congr 1
          exact ihk.2 _ h1
        | blobEv re evs =>
          show unflag (saFieldStep g tb X mt' cont f (visitSa g tb X mt (some f) (.blobEv re evs)).1).1 = _
          rw [saFieldStep_visit_blob]
          exact ihv (some f) h1
        | _ => exact ihv (some f) h1
    · intro mode h
      rw [saKeysItems_cons] at h
      rw [visitSaItems_cons, visitSaItems_cons, unflagL_cons, unflagL_cons]
      have h1 : ∀ k ∈ saKeysItemStep g tb X mode v, (app mt' (app mt k).1).1 = k := fun s hs => h s (List.mem_append_left _ hs)
      rw [ihvs.2 mode (fun s hs => h s (List.mem_append_right _ hs))]
      congr 1
      cases mode with
      | plain => exact ihv none h1
      | ren =>
        cases v with
        | kv k w =>
          rw [saItemStep_ren_kv g tb X mt k w, saItemStep_ren_kv, unflag_kv, unflag_kv]
          have hk := h1 k (List.mem_cons_self ..)
          have hw := ihv none (fun s hs => h1 s (List.mem_cons_of_mem _ hs))
          rw [visitSa_kv, visitSa_kv, unflag_kv, unflag_kv] at hw
          rw [hk, (Val.kv.inj hw).2]
        | _ => exact ihv none h1
      | blobs =>
        cases v with
        | blobEv re evs =>
          rw [saItemStep_blobs_blobEv g tb X mt re evs]
          obtain ⟨re', evs', e1, e2⟩ := saBlob_roundtrip g tb X mt mt' re evs (ihk.2 .plain h1)
          rw [e1, saItemStep_blobs_blobEv]
          exact e2
        | _ => exact ihv none h1

end S2S.TranslateVal
