import S2S.Proofs.AclValNames
/-! C16 (value level): translation neither creates nor hides a visitor failure (an undecodable blob in a recognised blob
    field), provided translation does not make the skip shortcut skip what it walked (`SkipStable`). -/
set_option linter.unusedSectionVars false
namespace S2S.TranslateVal
open S2S.Translate S2S.NameMap
variable {α : Type} [DecidableEq α] (g : Graph) (tb : Tables) (X : Ext α) (mt : α → α × Bool)

def nsErrFieldStep (mode : FMode) (f : FieldD) (v : Val α) : Bool :=
  match mode with
  | .hist => (match v with
              | .list items => f.go == X.eventsField && nsErrItems g tb X .events items
              | _ => false)
  | _ => nsErrV g tb X (some f) v

def nsErrItemStep (mode : IMode) (v : Val α) : Bool :=
  match mode with
  | .events => !evSkippable g tb X v && nsErrV g tb X none v
  | .blobs => (match v with
               | .blobEv _ evs => !listSkippable g tb X evs && nsErrItems g tb X .plain evs
               | .blobRaw e _ => !e
               | w => nsErrV g tb X none w)
  | .plain => nsErrV g tb X none v

theorem nsErrFields_cons (mode : FMode) (f : FieldD) (fds : List FieldD) (v : Val α) (vs : List (Val α)) :
    nsErrFields g tb X mode (f :: fds) (v :: vs) = (nsErrFieldStep g tb X mode f v || nsErrFields g tb X mode fds vs) := by
  cases mode <;> cases v <;> rfl
theorem nsErrItems_cons (mode : IMode) (v : Val α) (vs : List (Val α)) :
    nsErrItems g tb X mode (v :: vs) = (nsErrItemStep g tb X mode v || nsErrItems g tb X mode vs) := by
  cases mode <;> cases v <;> rfl
theorem nsErrFields_nil (mode : FMode) (vs : List (Val α)) : nsErrFields g tb X mode [] vs = false := by
  cases vs <;> rfl
theorem nsErrFields_nil' (mode : FMode) (fds : List FieldD) : nsErrFields g tb X mode fds ([] : List (Val α)) = false := by
  cases fds <;> rfl
theorem nsErrV_msg (fc : Option FieldD) (ty : Nat) (fs : List (Val α)) :
    nsErrV g tb X fc (.msg ty fs) = nsErrFields g tb X (nsMode g ty) (g.typeD ty).fields fs := rfl
theorem nsErrV_list (fc : Option FieldD) (l : List (Val α)) :
    nsErrV g tb X fc (.list l) = nsErrItems g tb X (if blobCtx tb fc then .blobs else .plain) l := rfl
theorem nsErrV_map (fc : Option FieldD) (l : List (Val α)) : nsErrV g tb X fc (.map l) = nsErrItems g tb X .plain l := rfl
theorem nsErrV_kv (fc : Option FieldD) (k : α) (v : Val α) : nsErrV g tb X fc (.kv k v) = nsErrV g tb X none v := rfl
theorem nsErrV_blobEv (fc : Option FieldD) (re : Bool) (evs : List (Val α)) :
    nsErrV g tb X fc (.blobEv re evs) = (blobCtx tb fc && !listSkippable g tb X evs && nsErrItems g tb X .plain evs) := rfl
theorem nsErrV_str (fc : Option FieldD) (s : α) : nsErrV g tb X fc (.str s) = false := rfl
theorem nsErrFieldStep_hist_list (f : FieldD) (items : List (Val α)) :
    nsErrFieldStep g tb X .hist f (.list items) = (f.go == X.eventsField && nsErrItems g tb X .events items) := rfl
theorem nsErrFieldStep_nsInfo (f : FieldD) (v : Val α) : nsErrFieldStep g tb X .nsInfo f v = nsErrV g tb X (some f) v := rfl
theorem nsErrItemStep_events (v : Val α) :
    nsErrItemStep g tb X .events v = (!evSkippable g tb X v && nsErrV g tb X none v) := rfl
theorem nsErrItemStep_blobs_blobEv (re : Bool) (evs : List (Val α)) :
    nsErrItemStep g tb X .blobs (.blobEv re evs) = (!listSkippable g tb X evs && nsErrItems g tb X .plain evs) := rfl

theorem blob_err (hS : SkipStable g tb X mt) (re : Bool) (evs : List (Val α))
    (ih : nsErrItems g tb X .plain (visitNsItems g tb X mt .plain evs).1 = nsErrItems g tb X .plain evs) :
    ∃ re' evs', (nsBlobStep g tb X mt re evs).1 = .blobEv re' evs' ∧
      (!listSkippable g tb X evs' && nsErrItems g tb X .plain evs') =
        (!listSkippable g tb X evs && nsErrItems g tb X .plain evs) := by
  by_cases hs : listSkippable g tb X evs = true
  · refine ⟨re, evs, ?_, rfl⟩
    unfold nsBlobStep blobResult; rw [if_pos hs]
  · have hs' : listSkippable g tb X evs = false := by simpa using hs
    obtain ⟨re', e⟩ := blob_events g tb X mt re evs hs'
    refine ⟨re', _, e, ?_⟩
    rw [hS.evs evs hs', hs', ih]

theorem err_visit (hS : SkipStable g tb X mt) :
    (∀ v : Val α, ∀ fc, nsErrV g tb X fc (visitNs g tb X mt fc v).1 = nsErrV g tb X fc v) ∧
    (∀ l : List (Val α),
      (∀ mode fds, nsErrFields g tb X mode fds (visitNsFields g tb X mt mode fds l).1 = nsErrFields g tb X mode fds l) ∧
      (∀ mode, nsErrItems g tb X mode (visitNsItems g tb X mt mode l).1 = nsErrItems g tb X mode l)) := by
  apply Val.ind2
  · intro s fc
    cases fc with
    | none => rfl
    | some f => rw [visitNs_str_some]; rfl
  · intro t fc; rfl
  · intro t fc; rfl
  · intro k fc; rfl
  · intro ty fs ih fc
    rw [visitNs_msg, nsErrV_msg, nsErrV_msg]
    exact ih.1 _ _
  · intro l ih fc
    rw [visitNs_list, nsErrV_list, nsErrV_list]
    exact ih.2 _
  · intro l ih fc
    rw [visitNs_map, nsErrV_map, nsErrV_map]
    exact ih.2 _
  · intro k v ih fc
    rw [visitNs_kv, nsErrV_kv, nsErrV_kv]
    exact ih none
  · intro e t fc; rfl
  · intro re evs ih fc
    rw [visitNs_blobEv]
    by_cases hb : blobCtx tb fc = true
    · rw [if_pos hb]
      obtain ⟨re', evs', e1, e2⟩ := blob_err g tb X mt hS re evs (ih.2 .plain)
      rw [e1, nsErrV_blobEv, nsErrV_blobEv, Bool.and_assoc, Bool.and_assoc, e2]
    · rw [if_neg hb]
  · refine ⟨fun mode fds => ?_, fun mode => rfl⟩
    cases fds with
    | nil => rw [visitNsFields_nil]
    | cons f fds => rw [visitNsFields_nil']
  · intro v vs ihv ihk ihvs
    refine ⟨?_, ?_⟩
    · intro mode fds
      cases fds with
      | nil => rw [visitNsFields_nil, nsErrFields_nil]
      | cons f fds =>
        rw [visitNsFields_cons, nsErrFields_cons, nsErrFields_cons, ihvs.1 mode fds]
        congr 1
        cases mode with
        | plain => exact ihv (some f)
        | nsInfo =>
          cases hv : v.isStr with
          | true =>
            cases v with
            | str s => rfl
            | _ => cases hv
          | false =>
            rw [nsFieldStep_nsInfo_nonstr g tb X mt f v hv, nsErrFieldStep_nsInfo, nsErrFieldStep_nsInfo]
            exact ihv (some f)
        | hist =>
          cases v with
          | list items =>
            rw [nsFieldStep_hist_list, nsErrFieldStep_hist_list]
            by_cases he : (f.go == X.eventsField) = true
            · rw [if_pos he, nsErrFieldStep_hist_list]
              have e : nsErrItems g tb X .events (visitNsItems g tb X mt .events items).1 = nsErrItems g tb X .events items := ihk.2 .events
              rw [e]
            · rw [if_neg he]; rfl
          | _ => rfl
    · intro mode
      rw [visitNsItems_cons, nsErrItems_cons, nsErrItems_cons, ihvs.2 mode]
      congr 1
      cases mode with
      | plain => exact ihv none
      | events =>
        rw [nsItemStep_events, nsErrItemStep_events]
        by_cases he : evSkippable g tb X v = true
        · rw [if_pos he, nsErrItemStep_events]
        · have he' : evSkippable g tb X v = false := by simpa using he
          rw [if_neg he, nsErrItemStep_events, hS.ev v none he', he', ihv none]
      | blobs =>
        cases v with
        | blobEv re evs =>
          rw [nsItemStep_blobs_blobEv]
          obtain ⟨re', evs', e1, e2⟩ := blob_err g tb X mt hS re evs (ihk.2 .plain)
          rw [e1, nsErrItemStep_blobs_blobEv, nsErrItemStep_blobs_blobEv, e2]
        | str s => exact ihv none
        | tok s => exact ihv none
        | payload s => exact ihv none
        | nil s => exact ihv none
        | blobRaw e t => rfl
        | kv k w => exact ihv none
        | msg ty fs => exact ihv none
        | list l => exact ihv none
        | map l => exact ihv none

end S2S.TranslateVal
