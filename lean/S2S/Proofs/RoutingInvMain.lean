import S2S.Proofs.RoutingInvStepA
import S2S.Proofs.RoutingInvStepB
import S2S.Proofs.RoutingInvStepC
import S2S.Proofs.RoutingInvStepD
import S2S.Proofs.RoutingInvStepE
/-! The invariant is inductive; every newly sent ack equals the post-state's `lastSentAck`. -/
namespace S2S.Routing

theorem step_inv {σ σ' : State} (hI : Inv σ) (a : Act)
    (henv : match a with
      | .recv s tasks high => RecvOK σ.targets.length (σ.src s) tasks high
      | _ => True)
    (hnf : a.isFault = false) (h : step Cfg.cur σ a = some σ') : Inv σ' := by
  cases a with
  | recv s tasks high => exact step_inv_recv hI s tasks high henv h
  | bcastStep s t => exact step_inv_bcastStep hI s t h
  | deliver s t => exact step_inv_deliver hI s t h
  | take t => exact step_inv_take hI t h
  | emit t => exact step_inv_emit hI t h
  | tack t w => exact step_inv_tack hI t w h
  | ackFwd t s => exact step_inv_ackFwd hI t s h
  | ackFin t => exact step_inv_ackFin hI t h
  | rack s => exact step_inv_rack hI s h
  | openSrc s => exact step_inv_openSrc hI s h
  | openTgt t => exact step_inv_openTgt hI t h
  | startTgt t => exact step_inv_startTgt hI t h
  | replayStep t s => exact step_inv_replayStep hI t s h
  | replayDone t => exact step_inv_replayDone hI t h
  | tick => exact step_inv_tick hI h
  | breakTgt t => cases hnf
  | breakSrc s => cases hnf

/-- every ack sent by the step equals the `lastSentAck` of the post-state -/
def AcksAreLast (σ σ' : State) : Prop :=
  ∀ s v, v ∈ newAcks σ σ' s → (σ'.src s).lastSentAck = some v

theorem acksAreLast_setTgt (σ : State) (t : TId) (tg : Target) : AcksAreLast σ (σ.setTgt t tg) := by
  intro s v hv
  simp [newAcks] at hv

theorem acksAreLast_setSrc (σ : State) (s : SId) (x' : Source)
    (h : x'.acksSent = (σ.src s).acksSent) : AcksAreLast σ (σ.setSrc s x') := by
  intro s' v hv
  simp only [newAcks, src_setSrc] at hv
  split at hv
  · rename_i e; rw [h, e.1] at hv; simp at hv
  · simp at hv

theorem acksAreLast_setBoth (σ : State) (s : SId) (x' : Source) (t : TId) (tg : Target)
    (h : x'.acksSent = (σ.src s).acksSent) : AcksAreLast σ ((σ.setSrc s x').setTgt t tg) :=
  acksAreLast_setSrc σ s x' h

theorem acksAreLast_setSrc_app (σ : State) (s : SId) (x' : Source) (a : Int)
    (h : x'.acksSent = (σ.src s).acksSent ++ [a]) (hl : x'.lastSentAck = some a) :
    AcksAreLast σ (σ.setSrc s x') := by
  intro s' v hv
  simp only [newAcks, src_setSrc] at hv ⊢
  split at hv
  · rename_i e
    rw [h, e.1] at hv
    simp only [List.drop_left, List.mem_singleton] at hv
    subst hv; simp only [e, and_self, if_true]; exact hl
  · simp at hv

theorem acksAreLast_tick (σ : State) :
    AcksAreLast σ { sources := σ.sources.map tickSrc, targets := σ.targets.map tickTgt } := by
  intro s v hv
  simp only [newAcks, tick_src] at hv ⊢
  unfold tickSrc at hv ⊢
  split at hv
  · split at hv
    · rename_i ha _ a hl
      simp only [List.drop_left, List.mem_singleton] at hv
      subst hv
      simp only [ha, if_true, hl]
    · simp at hv
  · simp at hv

theorem step_acksAreLast {σ σ' : State} (a : Act) (h : step Cfg.cur σ a = some σ') :
    AcksAreLast σ σ' := by
  cases a with
  | tick =>
    rw [step_tick] at h
    simp only [Option.some.injEq] at h
    subst h; exact acksAreLast_tick σ
  | rack s =>
    simp only [step] at h
    split at h
    · cases h
    · split at h
      · cases h
      · split at h
        · simp only [Option.some.injEq] at h
          subst h; exact acksAreLast_setSrc _ _ _ rfl
        · split at h
          · simp only [Option.some.injEq] at h
            subst h; exact acksAreLast_setSrc_app _ _ _ _ rfl rfl
          · simp only [Option.some.injEq] at h
            subst h; exact acksAreLast_setSrc _ _ _ rfl
  | _ =>
    simp only [step] at h
    repeat' split at h
    all_goals first
      | (cases h; done)
      | (simp only [Option.some.injEq] at h
         subst h
         first
          | exact acksAreLast_setTgt _ _ _
          | exact acksAreLast_setSrc _ _ _ rfl
          | exact acksAreLast_setBoth _ _ _ _ _ rfl
          | (rw [setTgt_setSrc_comm]; exact acksAreLast_setBoth _ _ _ _ _ rfl))

theorem step_ackStepSafe {σ σ' : State} (hI' : Inv σ') (hl : AcksAreLast σ σ') : AckStepSafe σ σ' := by
  intro s _ v hv p hp hlt
  have := (hI'.pair s p.2).last_safe v (hl s v hv)
  exact this p.1 hp hlt

end S2S.Routing
