import S2S.Proofs.RegistryOwn
/-!
C08: "once all streams have ended nothing remains registered".  `localShards`, `remoteSendChannels`,
`localAckChannels` and `localReceiverCancelFuncs` are empty after the end of EVERY run; for `activeReceivers`
this needs `RecvOK` (serial receiver sections) and `OpenOK` (window (v): a successor that terminated the old
receiver must manage to open its own stream, otherwise the old receiver's entry stays).
-/
namespace S2S.Registry

set_option linter.unusedSimpArgs false
set_option linter.unusedVariables false

/-- the receiver has registered its cancel function (it may have been evicted since) -/
def RPc.past : RPc → Bool
  | .start => false | .term _ => false | .termRm => false | .termAck => false | .opening => false | .opened => false
  | .ackSet => false | .cancelSet => true | .running => true | .cleanCheck => true | .cleanCancel => true
  | .cleanActive => true | .done => true

/-- a receiver inside its start-up, past the cancellation of its predecessor -/
def RPc.evicting : RPc → Bool
  | .start => false | .term _ => false | .termRm => true | .termAck => true | .opening => true | .opened => true
  | .ackSet => true | .cancelSet => true | .running => false | .cleanCheck => false | .cleanCancel => false
  | .cleanActive => false | .done => false

@[simp] theorem RPc.past_start : RPc.start.past = false := rfl
@[simp] theorem RPc.past_term (g : Nat) : (RPc.term g).past = false := rfl
@[simp] theorem RPc.past_termRm : RPc.termRm.past = false := rfl
@[simp] theorem RPc.past_termAck : RPc.termAck.past = false := rfl
@[simp] theorem RPc.past_opening : RPc.opening.past = false := rfl
@[simp] theorem RPc.past_opened : RPc.opened.past = false := rfl
@[simp] theorem RPc.past_ackSet : RPc.ackSet.past = false := rfl
@[simp] theorem RPc.past_cancelSet : RPc.cancelSet.past = true := rfl
@[simp] theorem RPc.past_running : RPc.running.past = true := rfl
@[simp] theorem RPc.past_cleanCheck : RPc.cleanCheck.past = true := rfl
@[simp] theorem RPc.past_cleanCancel : RPc.cleanCancel.past = true := rfl
@[simp] theorem RPc.past_cleanActive : RPc.cleanActive.past = true := rfl
@[simp] theorem RPc.past_done : RPc.done.past = true := rfl
@[simp] theorem RPc.evicting_start : RPc.start.evicting = false := rfl
@[simp] theorem RPc.evicting_term (g : Nat) : (RPc.term g).evicting = false := rfl
@[simp] theorem RPc.evicting_termRm : RPc.termRm.evicting = true := rfl
@[simp] theorem RPc.evicting_termAck : RPc.termAck.evicting = true := rfl
@[simp] theorem RPc.evicting_opening : RPc.opening.evicting = true := rfl
@[simp] theorem RPc.evicting_opened : RPc.opened.evicting = true := rfl
@[simp] theorem RPc.evicting_ackSet : RPc.ackSet.evicting = true := rfl
@[simp] theorem RPc.evicting_cancelSet : RPc.cancelSet.evicting = true := rfl
@[simp] theorem RPc.evicting_running : RPc.running.evicting = false := rfl
@[simp] theorem RPc.evicting_cleanCheck : RPc.cleanCheck.evicting = false := rfl
@[simp] theorem RPc.evicting_cleanCancel : RPc.cleanCancel.evicting = false := rfl
@[simp] theorem RPc.evicting_cleanActive : RPc.cleanActive.evicting = false := rfl
@[simp] theorem RPc.evicting_done : RPc.done.evicting = false := rfl

/-- whoever is named by a cancel-function entry, by a pending termination or by a cancellation has registered its
    cancel function, and belongs to the shard in question -/
def InvPast (σ : State) : Prop :=
  (∀ c t, aget σ.cancels c = some t → (σ.inc t).shard = c ∧ (σ.inc t).rpc.past = true) ∧
  (∀ k g, (σ.inc k).rpc = .term g → (σ.inc g).shard = (σ.inc k).shard ∧ (σ.inc g).rpc.past = true) ∧
  (∀ t, (σ.inc t).cancelled = true → (σ.inc t).rpc.past = true)

/-- a cancel-function entry belongs to a receiver that will remove it, or a successor is about to evict it -/
def InvCE (σ : State) : Prop :=
  ∀ c t, aget σ.cancels c = some t →
    ((σ.inc t).rpc = .cancelSet ∨ (σ.inc t).rpc = .running ∨ (σ.inc t).rpc = .cleanCheck ∨ (σ.inc t).rpc = .cleanCancel) ∨
    ∃ j, j < σ.next ∧ (σ.inc j).shard = c ∧ (σ.inc j).rpc = .termRm

/-- a cancelled receiver whose cancel function is still registered has its evictor right behind it -/
def InvCX (σ : State) : Prop :=
  ∀ t, (σ.inc t).cancelled = true → aget σ.cancels (σ.inc t).shard = some t →
    ∃ j, j < σ.next ∧ (σ.inc j).shard = (σ.inc t).shard ∧ (σ.inc j).rpc = .termRm

set_option maxHeartbeats 4000000 in
theorem invPast_step_s {c σ a σ'} (ha : a.grp = .s) (h : step c σ a = some σ') (B : InvBound σ) (I : InvPast σ) : InvPast σ' := by
  obtain ⟨P1, P2, P3⟩ := I
  cases a with
  | «open» sh srv =>
    step_inv h
    refine ⟨?_, ?_, ?_⟩
    · intro c' t ht; simp at ht ⊢
      have := B.2.1 c' t ht
      have e : ¬ σ.next = t := by omega
      simp [e]; exact P1 c' t ht
    · intro k g hk; simp at hk ⊢
      by_cases e1 : σ.next = k
      · simp [e1] at hk
      · simp [e1] at hk ⊢
        have := B.2.2 k g hk
        have e : ¬ σ.next = g := by omega
        simp [e]; exact P2 k g hk
    · intro t ht; simp at ht ⊢
      by_cases e1 : σ.next = t
      · simp [e1] at ht
      · simp [e1] at ht ⊢; exact P3 t ht
  | _ =>
    first
    | (exact Grp.noConfusion ha)
    | (step_inv h
       all_goals refine ⟨?_, ?_, ?_⟩
       all_goals (try (intro c' t ht; (try simp [aget_adel] at ht ⊢); first | exact P1 c' t ht | (have hP := P1 c' t; revert ht; crush); done))
       all_goals (try (intro t ht; (try simp at ht ⊢); first | exact P3 t ht | (have hP := P3 t; revert ht; crush); done))
       all_goals (try (intro k' g hk'; (try simp at hk' ⊢); first | exact P2 k' g hk' | (have hP := P2 k' g; revert hk'; crush); done)))

set_option maxHeartbeats 4000000 in
theorem invPast_step_r {c σ a σ'} (ha : a.grp = .r) (h : step c σ a = some σ') (B : InvBound σ) (I : InvPast σ) : InvPast σ' := by
  obtain ⟨P1, P2, P3⟩ := I
  cases a with
  | rGet k =>
    step_inv h
    all_goals refine ⟨?_, ?_, ?_⟩
    all_goals (try (intro c' t ht; simp at ht ⊢; have hP := P1 c' t ht; crush; done))
    all_goals (try (intro t ht; simp at ht ⊢; have hP := P3 t; revert ht; crush; done))
    all_goals (intro k' g hk'; simp at hk' ⊢)
    all_goals (by_cases e1 : k = k')
    all_goals (try subst e1)
    all_goals (simp_all)
    all_goals (first
      | (have hP := P2 k' g hk'; crush; done)
      | skip)
    · have hg : aget σ.cancels (σ.inc k).shard = some g := by assumption
      have hP := P1 _ g hg
      by_cases e : k = g
      · subst e; have := hP.2; simp_all
      · simp [e, hP]
  | rCancel k =>
    step_inv h
    all_goals (rename_i g hg hgk)
    all_goals (have hP2 := P2 k g hg)
    all_goals refine ⟨?_, ?_, ?_⟩
    all_goals (try (intro c' t ht; simp at ht ⊢; have hP := P1 c' t ht; crush; done))
    all_goals (try (intro k' g' hk'; simp at hk' ⊢; have hP := P2 k' g'; revert hk'; crush; done))
    all_goals (intro t ht; simp at ht ⊢)
    all_goals (have hP := P3 t)
    all_goals (revert ht; crush)
  | rSetCancel k =>
    step_inv h
    refine ⟨?_, ?_, ?_⟩
    · intro c' t ht; simp [aget_aset] at ht ⊢
      split at ht
      · cases ht; simp_all
      · have hP := P1 c' t ht; crush
    · intro k' g hk'; simp at hk' ⊢; have hP := P2 k' g; revert hk'; crush
    · intro t ht; simp at ht ⊢; have hP := P3 t; revert ht; crush
  | _ =>
    first
    | (exact Grp.noConfusion ha)
    | (step_inv h
       all_goals refine ⟨?_, ?_, ?_⟩
       all_goals (try (intro c' t ht; (try simp [aget_adel] at ht ⊢); first | exact P1 c' t ht | (have hP := P1 c' t; revert ht; crush); done))
       all_goals (try (intro t ht; (try simp at ht ⊢); first | exact P3 t ht | (have hP := P3 t; revert ht; crush); done))
       all_goals (try (intro k' g hk'; (try simp at hk' ⊢); first | exact P2 k' g hk' | (have hP := P2 k' g; revert hk'; crush); done)))

set_option maxHeartbeats 4000000 in
theorem invPast_step_e {c σ a σ'} (ha : a.grp = .e) (h : step c σ a = some σ') (B : InvBound σ) (I : InvPast σ) : InvPast σ' := by
  obtain ⟨P1, P2, P3⟩ := I
  cases a with
  | _ =>
    first
    | (exact Grp.noConfusion ha)
    | (step_inv h
       all_goals refine ⟨?_, ?_, ?_⟩
       all_goals (try (intro c' t ht; (try simp [aget_adel] at ht ⊢); first | exact P1 c' t ht | (have hP := P1 c' t; revert ht; crush); done))
       all_goals (try (intro t ht; (try simp at ht ⊢); first | exact P3 t ht | (have hP := P3 t; revert ht; crush); done))
       all_goals (try (intro k' g hk'; (try simp at hk' ⊢); first | exact P2 k' g hk' | (have hP := P2 k' g; revert hk'; crush); done)))

theorem invPast_step {c σ a σ'} (h : step c σ a = some σ') (B : InvBound σ) (I : InvPast σ) : InvPast σ' := by
  cases ha : a.grp
  · exact invPast_step_s ha h B I
  · exact invPast_step_r ha h B I
  · exact invPast_step_e ha h B I

theorem cx_of_eq {σ σ' : State} (I : InvCX σ) (hn : σ'.next = σ.next) (hi : ∀ j, σ'.inc j = σ.inc j)
    (hc : σ'.cancels = σ.cancels) : InvCX σ' := by
  intro t ht hcc
  rw [hi] at ht; rw [hi, hc] at hcc
  obtain ⟨j, h1, h2, h3⟩ := I t ht hcc
  exact ⟨j, by rw [hn]; exact h1, by rw [hi, hi]; exact h2, by rw [hi]; exact h3⟩

theorem cx_iff_of_eq {σ σ' : State} (hn : σ'.next = σ.next) (hi : ∀ j, σ'.inc j = σ.inc j) (hc : σ'.cancels = σ.cancels) :
    InvCX σ' ↔ InvCX σ :=
  ⟨fun I => cx_of_eq I hn.symm (fun j => (hi j).symm) hc.symm, fun I => cx_of_eq I hn hi hc⟩

@[simp] theorem cx_setLocal (σ : State) (l) : InvCX (σ.setLocal l) ↔ InvCX σ := cx_iff_of_eq rfl (fun _ => rfl) rfl
@[simp] theorem cx_setSend (σ : State) (l) : InvCX (σ.setSend l) ↔ InvCX σ := cx_iff_of_eq rfl (fun _ => rfl) rfl
@[simp] theorem cx_setAck (σ : State) (l) : InvCX (σ.setAck l) ↔ InvCX σ := cx_iff_of_eq rfl (fun _ => rfl) rfl
@[simp] theorem cx_setActives (σ : State) (l) : InvCX (σ.setActives l) ↔ InvCX σ := cx_iff_of_eq rfl (fun _ => rfl) rfl
@[simp] theorem cx_setClock (σ : State) (n) : InvCX (σ.setClock n) ↔ InvCX σ := cx_iff_of_eq rfl (fun _ => rfl) rfl
@[simp] theorem cx_setStopped (σ : State) : InvCX σ.setStopped ↔ InvCX σ := cx_iff_of_eq rfl (fun _ => rfl) rfl
@[simp] theorem cx_steal (σ : State) (i g v) : InvCX (steal σ i g v) ↔ InvCX σ := cx_iff_of_eq (by simp) (by simp) (by simp)
@[simp] theorem cx_sendOn (σ : State) (t r) : InvCX (sendOn σ t r) ↔ InvCX σ := cx_iff_of_eq (by simp) (by simp) (by simp)

/-- replacing one incarnation keeps `InvCX` when it stays in its shard, stays an evictor if it was one, and is not newly cancelled -/
theorem cx_setInc {σ : State} {k : Tok} {x : Inc} (I : InvCX σ) (hsh : x.shard = (σ.inc k).shard)
    (hw : (σ.inc k).rpc = .termRm → x.rpc = .termRm) (hcn : x.cancelled = true → (σ.inc k).cancelled = true) :
    InvCX (σ.setInc k x) := by
  intro t ht hc
  simp at ht hc ⊢
  have ht' : (σ.inc t).cancelled = true := by
    by_cases e : k = t
    · subst e; simp at ht; exact hcn ht
    · simpa [e] using ht
  have hc' : aget σ.cancels (σ.inc t).shard = some t := by
    by_cases e : k = t
    · subst e; simp [hsh] at hc; exact hc
    · simpa [e] using hc
  obtain ⟨j, h1, h2, h3⟩ := I t ht' hc'
  refine ⟨j, h1, ?_, ?_⟩
  · by_cases e : k = j
    · subst e
      by_cases e2 : k = t
      · subst e2; simp
      · simp [e2, hsh, h2]
    · by_cases e2 : k = t
      · subst e2; simp [e, hsh, h2]
      · simp [e, e2, h2]
  · by_cases e : k = j
    · subst e; simp; exact hw h3
    · simp [e, h3]

set_option maxHeartbeats 4000000 in
theorem invCX_step {c σ a σ'} (h : step c σ a = some σ') (B : InvBound σ) (P : InvPast σ) (I : InvCX σ) : InvCX σ' := by
  cases a with
  | «open» sh srv =>
    step_inv h
    intro t ht hc
    simp at ht hc ⊢
    by_cases e1 : σ.next = t
    · simp [e1] at ht
    · simp [e1] at ht hc ⊢
      obtain ⟨j, h1, h2, h3⟩ := I t ht hc
      refine ⟨j, by omega, ?_, ?_⟩ <;> (have : ¬ σ.next = j := by omega) <;> simp [this, h2, h3]
  | rCancel k =>
    step_inv h
    all_goals (rename_i g hg hgk)
    all_goals (have hP2 := P.2.1 k g hg)
    · -- g = k is impossible: k has not registered a cancel function yet
      subst hgk; rw [hg] at hP2; simp at hP2
    · intro t ht hc
      simp at ht hc ⊢
      have hkn : k < σ.next := lt_next_of_rpc B (by simp [hg])
      by_cases e1 : g = t
      · subst e1
        refine ⟨k, hkn, ?_, ?_⟩
        · have : ¬ g = k := hgk
          simp [this, hP2.1]
        · have : ¬ g = k := hgk
          simp [this]
      · have e1' : ¬ g = t := e1
        by_cases e2 : k = t
        · subst e2; simp [e1'] at ht hc
          have := P.2.2 k ht; rw [hg] at this; simp at this
        · simp [e1', e2] at ht hc ⊢
          obtain ⟨j, h1, h2, h3⟩ := I t ht hc
          refine ⟨j, h1, ?_, ?_⟩
          · by_cases e3 : g = j
            · subst e3; simp [h2]
            · by_cases e4 : k = j
              · subst e4; rw [hg] at h3; cases h3
              · simp [e3, e4, h2]
          · by_cases e3 : g = j
            · subst e3; simp [h3]
            · by_cases e4 : k = j
              · subst e4; rw [hg] at h3; cases h3
              · simp [e3, e4, h3]
  | rRmCancel k =>
    step_inv h
    rename_i hk
    intro t ht hc
    simp [aget_adel] at ht hc ⊢
    by_cases e1 : k = t
    · subst e1; simp at hc
    · simp [e1] at ht hc ⊢
      obtain ⟨j, h1, h2, h3⟩ := I t ht hc.2
      refine ⟨j, h1, ?_, ?_⟩
      all_goals (by_cases e2 : k = j)
      all_goals (try subst e2)
      all_goals (simp_all)
  | rSetCancel k =>
    step_inv h
    rename_i hk
    intro t ht hc
    simp [aget_aset] at ht hc ⊢
    by_cases e1 : k = t
    · subst e1; simp at ht
      have := P.2.2 k ht; rw [hk] at this; simp at this
    · simp [e1] at ht hc ⊢
      split at hc
      · injection hc with e; exact absurd e e1
      · obtain ⟨j, h1, h2, h3⟩ := I t ht hc
        refine ⟨j, h1, ?_, ?_⟩
        all_goals (by_cases e2 : k = j)
        all_goals (try subst e2)
        all_goals (simp_all)
  | rRmOwnCancel k =>
    step_inv h
    rename_i hk
    intro t ht hc
    simp [aget_adel] at ht hc ⊢
    by_cases e1 : k = t
    · subst e1; simp at hc
    · simp [e1] at ht hc ⊢
      obtain ⟨j, h1, h2, h3⟩ := I t ht hc.2
      refine ⟨j, h1, ?_, ?_⟩
      all_goals (by_cases e2 : k = j)
      all_goals (try subst e2)
      all_goals (simp_all)
  | _ =>
    step_inv h
    all_goals (try simp only [cx_setLocal, cx_setSend, cx_setAck, cx_setActives, cx_setClock, cx_setStopped, cx_steal, cx_sendOn])
    all_goals (first
      | exact I
      | (apply cx_setInc I <;> simp_all))

/-- the receiver's cancel function is registered and it will still remove it itself -/
def RPc.holdsCancel : RPc → Bool
  | .start => false | .term _ => false | .termRm => false | .termAck => false | .opening => false | .opened => false
  | .ackSet => false | .cancelSet => true | .running => true | .cleanCheck => true | .cleanCancel => true
  | .cleanActive => false | .done => false

theorem holdsCancel_iff (p : RPc) : p.holdsCancel = true ↔ (p = .cancelSet ∨ p = .running ∨ p = .cleanCheck ∨ p = .cleanCancel) := by
  cases p <;> simp [RPc.holdsCancel]

theorem ce_of_eq {σ σ' : State} (I : InvCE σ) (hn : σ'.next = σ.next) (hi : ∀ j, σ'.inc j = σ.inc j)
    (hc : σ'.cancels = σ.cancels) : InvCE σ' := by
  intro c t ht
  rw [hc] at ht
  rcases I c t ht with h | ⟨j, h1, h2, h3⟩
  · left; rw [hi]; exact h
  · right; exact ⟨j, by rw [hn]; exact h1, by rw [hi]; exact h2, by rw [hi]; exact h3⟩

theorem ce_iff_of_eq {σ σ' : State} (hn : σ'.next = σ.next) (hi : ∀ j, σ'.inc j = σ.inc j) (hc : σ'.cancels = σ.cancels) :
    InvCE σ' ↔ InvCE σ :=
  ⟨fun I => ce_of_eq I hn.symm (fun j => (hi j).symm) hc.symm, fun I => ce_of_eq I hn hi hc⟩

@[simp] theorem ce_setLocal (σ : State) (l) : InvCE (σ.setLocal l) ↔ InvCE σ := ce_iff_of_eq rfl (fun _ => rfl) rfl
@[simp] theorem ce_setSend (σ : State) (l) : InvCE (σ.setSend l) ↔ InvCE σ := ce_iff_of_eq rfl (fun _ => rfl) rfl
@[simp] theorem ce_setAck (σ : State) (l) : InvCE (σ.setAck l) ↔ InvCE σ := ce_iff_of_eq rfl (fun _ => rfl) rfl
@[simp] theorem ce_setActives (σ : State) (l) : InvCE (σ.setActives l) ↔ InvCE σ := ce_iff_of_eq rfl (fun _ => rfl) rfl
@[simp] theorem ce_setClock (σ : State) (n) : InvCE (σ.setClock n) ↔ InvCE σ := ce_iff_of_eq rfl (fun _ => rfl) rfl
@[simp] theorem ce_setStopped (σ : State) : InvCE σ.setStopped ↔ InvCE σ := ce_iff_of_eq rfl (fun _ => rfl) rfl
@[simp] theorem ce_steal (σ : State) (i g v) : InvCE (steal σ i g v) ↔ InvCE σ := ce_iff_of_eq (by simp) (by simp) (by simp)
@[simp] theorem ce_sendOn (σ : State) (t r) : InvCE (sendOn σ t r) ↔ InvCE σ := ce_iff_of_eq (by simp) (by simp) (by simp)

theorem ce_setInc {σ : State} {k : Tok} {x : Inc} (I : InvCE σ) (hsh : x.shard = (σ.inc k).shard)
    (hr : (σ.inc k).rpc.holdsCancel = true → x.rpc.holdsCancel = true)
    (hw : (σ.inc k).rpc = .termRm → x.rpc = .termRm) : InvCE (σ.setInc k x) := by
  intro c t ht
  simp at ht ⊢
  rcases I c t ht with h | ⟨j, h1, h2, h3⟩
  · left
    by_cases e : k = t
    · subst e; simp; exact (holdsCancel_iff _).1 (hr ((holdsCancel_iff _).2 h))
    · simp [e]; exact h
  · right
    refine ⟨j, h1, ?_, ?_⟩
    · by_cases e : k = j
      · subst e; simp [hsh, h2]
      · simp [e, h2]
    · by_cases e : k = j
      · subst e; simp; exact hw h3
      · simp [e, h3]

set_option maxHeartbeats 4000000 in
theorem invCE_step {c σ a σ'} (h : step c σ a = some σ') (B : InvBound σ) (P : InvPast σ) (X : InvCX σ) (I : InvCE σ) : InvCE σ' := by
  cases a with
  | «open» sh srv =>
    step_inv h
    intro c' t ht
    simp at ht ⊢
    have htn := B.2.1 c' t ht
    have e : ¬ σ.next = t := by omega
    rcases I c' t ht with hl | ⟨j, h1, h2, h3⟩
    · left; simp [e]; exact hl
    · right; refine ⟨j, by omega, ?_, ?_⟩ <;> (have : ¬ σ.next = j := by omega) <;> simp [this, h2, h3]
  | rCheck k =>
    step_inv h
    · apply ce_setInc I <;> simp_all [RPc.holdsCancel]
    · -- cancelled by a successor: the clean-up is skipped; if our cancel function is still registered its evictor is right behind us
      rename_i hk hcond
      intro c' t ht
      simp at ht ⊢
      by_cases e : k = t
      · subst e
        have hcan : (σ.inc k).cancelled = true := by
          cases hx : (σ.inc k).cancelled <;> simp [hx] at hcond ⊢
        have hsh := (P.1 c' k ht).1
        obtain ⟨j, h1, h2, h3⟩ := X k hcan (by rw [hsh]; exact ht)
        right
        refine ⟨j, h1, ?_, ?_⟩
        · by_cases e2 : k = j
          · subst e2; rw [hk] at h3; cases h3
          · simp [e2, h2, hsh]
        · by_cases e2 : k = j
          · subst e2; rw [hk] at h3; cases h3
          · simp [e2, h3]
      · rcases I c' t ht with hl | ⟨j, h1, h2, h3⟩
        · left; simp [e]; exact hl
        · right
          refine ⟨j, h1, ?_, ?_⟩
          · by_cases e2 : k = j
            · subst e2; rw [hk] at h3; cases h3
            · simp [e2, h2]
          · by_cases e2 : k = j
            · subst e2; rw [hk] at h3; cases h3
            · simp [e2, h3]
  | rSetCancel k =>
    step_inv h
    rename_i hk
    intro c' t ht
    simp [aget_aset] at ht ⊢
    split at ht
    · cases ht; left; simp
    · rcases I c' t ht with hl | ⟨j, h1, h2, h3⟩
      · left
        by_cases e : k = t
        · subst e; simp
        · simp [e]; exact hl
      · right
        refine ⟨j, h1, ?_, ?_⟩
        all_goals (by_cases e2 : k = j)
        all_goals (try subst e2)
        all_goals (simp_all)
  | rRmCancel k =>
    step_inv h
    rename_i hk
    intro c' t ht
    simp [aget_adel] at ht ⊢
    have hsh := (P.1 c' t ht.2).1
    have e : ¬ k = t := by intro e; subst e; exact ht.1 hsh
    rcases I c' t ht.2 with hl | ⟨j, h1, h2, h3⟩
    · left; simp [e]; exact hl
    · right
      have e2 : ¬ k = j := by intro e2; subst e2; exact ht.1 h2
      exact ⟨j, h1, by simp [e2, h2], by simp [e2, h3]⟩
  | rRmOwnCancel k =>
    step_inv h
    rename_i hk
    intro c' t ht
    simp [aget_adel] at ht ⊢
    have hsh := (P.1 c' t ht.2).1
    have e : ¬ k = t := by intro e; subst e; exact ht.1 hsh
    rcases I c' t ht.2 with hl | ⟨j, h1, h2, h3⟩
    · left; simp [e]; exact hl
    · right
      have e2 : ¬ k = j := by intro e2; subst e2; exact ht.1 h2
      exact ⟨j, h1, by simp [e2, h2], by simp [e2, h3]⟩
  | rCancel k =>
    step_inv h
    all_goals (rename_i g hg hgk)
    · apply ce_setInc I <;> simp_all [RPc.holdsCancel]
    · apply ce_setInc
      · apply ce_setInc I <;> simp_all [RPc.holdsCancel]
      · have : ¬ k = g := fun e => hgk e.symm
        simp [this]
      · have : ¬ k = g := fun e => hgk e.symm
        simp [this]
      · have : ¬ k = g := fun e => hgk e.symm
        simp [this]
  | _ =>
    step_inv h
    all_goals (try simp only [ce_setLocal, ce_setSend, ce_setAck, ce_setActives, ce_setClock, ce_setStopped, ce_steal, ce_sendOn])
    all_goals (first
      | exact I
      | (apply ce_setInc I <;> simp_all [RPc.holdsCancel]))

end S2S.Registry
