import S2S.Proofs.RoutingC01
import S2S.Proofs.RoutingLateBase
/-!
Delayed delivery of acknowledgements ("C03S"), part 2: the HISTORY invariant of fault-free runs, on top of the C01
invariant `Inv` (`RoutingInvDef`).

`Inv` speaks about the LAST acknowledgement (`lastSentAck`) only.  `Late.LInv` speaks about the whole history
`acksSent`, judged against the CURRENT state:

* `Late.SrcHist`: the history is non-decreasing, every element is `≤ lastSentMin ≤ lastHigh`;
* `Late.HistSafe`: every acknowledgement ever sent covers, among the tasks received SO FAR, only confirmed ones.

(The C03 proof chain `RoutingC03*` proves the per-step form of `SrcHist`; it cannot be imported next to the C01 chain —
both define `S2S.Routing.Inv` — so the three source-side clauses are re-established here from `Inv`, which already
bounds `lastSentAck` by `lastHigh`.)
-/
namespace S2S.Routing

/-- history of one source stream: non-decreasing, bounded by `lastSentMin`, which is bounded by `lastHigh` -/
structure Late.SrcHist (x : Source) : Prop where
  sorted : x.acksSent.Pairwise (· ≤ ·)
  acks : ∀ u ∈ x.acksSent, u ≤ x.lastSentMin
  lsa : ∀ a, x.lastSentAck = some a → a = x.lastSentMin
  lsm : x.lastSentMin ≤ x.lastHigh

/-- every acknowledgement EVER sent on stream `s` covers, among the tasks received on `s` SO FAR, only confirmed ones -/
def Late.HistSafe (σ : State) : Prop :=
  ∀ s, ∀ v ∈ (σ.src s).acksSent, ∀ p ∈ (σ.src s).received, p.1 < v → Confirmed σ s p.1 p.2

structure Late.LInv (σ : State) : Prop where
  hist : ∀ s, Late.SrcHist (σ.src s)
  safe : Late.HistSafe σ

/-- every acknowledgement ever sent is at most the last exclusive high watermark received -/
theorem Late.SrcHist.le_lastHigh {x : Source} (h : Late.SrcHist x) : ∀ v ∈ x.acksSent, v ≤ x.lastHigh :=
  fun v hv => Int.le_trans (h.acks v hv) h.lsm

theorem Late.srcHist_default : Late.SrcHist {} :=
  ⟨List.Pairwise.nil, fun _ h => (by cases h), fun _ h => (by cases h), Int.le_refl _⟩

theorem Late.linv_init (ns nt : Nat) : Late.LInv (State.init ns nt) := by
  refine ⟨fun s => ?_, fun s v hv => ?_⟩
  · rw [src_init]; exact Late.srcHist_default
  · rw [src_init] at hv; cases hv

/-- the environment hypothesis of one step, as `EnvOK` threads it -/
def Late.StepEnv (σ : State) (a : Act) : Prop :=
  match a with
  | .recv s tasks high => RecvOK σ.targets.length (σ.src s) tasks high
  | _ => True

/-- the source-side history clauses are preserved by every fault-free step -/
theorem Late.step_srcHist {σ σ' : State} {a : Act} (hI : Inv σ) (hI' : Inv σ') (hL : ∀ s, Late.SrcHist (σ.src s))
    (henv : Late.StepEnv σ a) (hnf : a.isFault = false) (h : step Cfg.cur σ a = some σ') (s : SId) :
    Late.SrcHist (σ'.src s) := by
  have H := hL s
  rcases Late.step_src h s with q | ⟨tasks, high, ea, e1, _, e3, e4, e5⟩ | ⟨m, _, e1, _, e3, e4, e5, hm⟩ |
      ⟨m, _, hm, e1, _, e3, e4, e5⟩ | ⟨_, hact, e1, _, e3, e4, e5⟩ | ⟨ea, _⟩
  · -- nothing relevant changed
    refine ⟨?_, ?_, ?_, ?_⟩
    · rw [q.acks]; exact H.sorted
    · rw [q.acks, q.lsm]; exact H.acks
    · rw [q.lsa, q.lsm]; exact H.lsa
    · rw [q.lsm, q.high]; exact H.lsm
  · -- recv: `lastHigh` moves up (RecvOK)
    subst ea
    have hle : (σ.src s).lastHigh ≤ high := henv.2.2.2
    refine ⟨?_, ?_, ?_, ?_⟩
    · rw [e1]; exact H.sorted
    · rw [e1, e4]; exact H.acks
    · rw [e5, e4]; exact H.lsa
    · rw [e4, e3]; exact Int.le_trans H.lsm hle
  · -- rack: one acknowledgement `m` is appended; it is the new `lastSentMin` / `lastSentAck`
    have hge : (σ.src s).lastSentMin ≤ m := by
      rcases hm with hm | hm
      · exact hm
      · rw [hm]; exact H.lsm
    refine ⟨?_, ?_, ?_, ?_⟩
    · rw [e1, List.pairwise_append]
      refine ⟨H.sorted, List.pairwise_singleton _ _, fun u hu w hw => ?_⟩
      rw [List.mem_singleton.1 hw]
      exact Int.le_trans (H.acks u hu) hge
    · rw [e1, e4]
      intro u hu
      rcases List.mem_append.1 hu with hu | hu
      · exact Int.le_trans (H.acks u hu) hge
      · rw [List.mem_singleton.1 hu]; exact Int.le_refl _
    · rw [e5, e4]; intro a ha; cases ha; rfl
    · rw [e4]; exact (hI'.src s).last_le m e5
  · -- tick: the keep-alive re-sends `lastSentAck = lastSentMin`
    have hm' : m = (σ.src s).lastSentMin := H.lsa m hm
    refine ⟨?_, ?_, ?_, ?_⟩
    · rw [e1, List.pairwise_append]
      refine ⟨H.sorted, List.pairwise_singleton _ _, fun u hu w hw => ?_⟩
      rw [List.mem_singleton.1 hw, hm']
      exact H.acks u hu
    · rw [e1, e4]
      intro u hu
      rcases List.mem_append.1 hu with hu | hu
      · exact H.acks u hu
      · rw [List.mem_singleton.1 hu, hm']; exact Int.le_refl _
    · rw [e5, e4]; exact H.lsa
    · rw [e4, e3]; exact H.lsm
  · -- openSrc: in a fault-free run a stream that is not active has never been active: its history is empty
    have hx : σ.src s = {} := (hI.src s).inactive hact
    have ha : (σ.src s).acksSent = [] := by rw [hx]
    refine ⟨?_, ?_, ?_, ?_⟩
    · rw [e1, ha]; exact List.Pairwise.nil
    · rw [e1, ha]; intro u hu; cases hu
    · rw [e5]; intro a ha; cases ha
    · rw [e4, e3]; exact Int.le_refl _
  · subst ea; cases hnf

/-- the history-safety clause is preserved by every fault-free step: a new acknowledgement is safe by C01 (`Inv`);
    an old one stays safe because `confirmed` only grows and every newly received task lies at or above `lastHigh`,
    hence at or above every acknowledgement sent so far -/
theorem Late.step_histSafe {σ σ' : State} {a : Act} (hI' : Inv σ') (hL : Late.LInv σ)
    (henv : Late.StepEnv σ a) (h : step Cfg.cur σ a = some σ') : Late.HistSafe σ' := by
  intro s v hv p hp hlt
  rcases Late.mem_acks_step h hv with hold | hnew
  · rcases (Late.step_src h s).received_cases with e | ⟨tasks, high, ea, e⟩
    · rw [e] at hp
      exact (Late.step_confirmed h p.2).subset (hL.safe s v hold p hp hlt)
    · rw [e] at hp
      rcases List.mem_append.1 hp with hp | hp
      · exact (Late.step_confirmed h p.2).subset (hL.safe s v hold p hp hlt)
      · subst ea
        have h1 : (σ.src s).lastHigh ≤ p.1 := (henv.2.1 p hp).2.1
        have h2 : v ≤ (σ.src s).lastHigh := (hL.hist s).le_lastHigh v hold
        exact absurd hlt (by omega)
  · have hl : (σ'.src s).lastSentAck = some v := step_acksAreLast a h s v hnew
    exact (hI'.pair s p.2).last_safe v hl p.1 hp hlt

theorem Late.step_linv {σ σ' : State} {a : Act} (hI : Inv σ) (hL : Late.LInv σ)
    (henv : Late.StepEnv σ a) (hnf : a.isFault = false) (h : step Cfg.cur σ a = some σ') :
    Inv σ' ∧ Late.LInv σ' := by
  have hI' : Inv σ' := step_inv hI a henv hnf h
  exact ⟨hI', ⟨Late.step_srcHist hI hI' hL.hist henv hnf h, Late.step_histSafe hI' hL henv h⟩⟩

/-- both invariants hold in every state a fault-free, well-formed run reaches -/
theorem Late.run_linv {σ : State} (hI : Inv σ) (hL : Late.LInv σ) (acts : List Act)
    (henv : EnvOK Cfg.cur σ acts) (hnf : NoFaults acts) :
    Inv (run Cfg.cur σ acts) ∧ Late.LInv (run Cfg.cur σ acts) := by
  induction acts generalizing σ with
  | nil => exact ⟨hI, hL⟩
  | cons a rest ih =>
    have hnf' : NoFaults rest := fun b hb => hnf b (List.mem_cons_of_mem _ hb)
    have hnfa : a.isFault = false := hnf a List.mem_cons_self
    unfold EnvOK at henv
    obtain ⟨henva, henvr⟩ := henv
    rw [Late.run_cons]
    cases hstep : step Cfg.cur σ a with
    | none =>
      rw [hstep] at henvr
      exact ih hI hL henvr hnf'
    | some σ' =>
      rw [hstep] at henvr
      obtain ⟨hI', hL'⟩ := Late.step_linv hI hL henva hnfa hstep
      exact ih hI' hL' henvr hnf'

theorem Late.linv_cur (ns nt : Nat) (acts : List Act)
    (henv : EnvOK Cfg.cur (State.init ns nt) acts) (hnf : NoFaults acts) :
    Late.LInv (run Cfg.cur (State.init ns nt) acts) :=
  (Late.run_linv (inv_init ns nt) (Late.linv_init ns nt) acts henv hnf).2

end S2S.Routing
