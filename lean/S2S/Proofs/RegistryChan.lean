import S2S.Proofs.RegistryTac
/-!
C08, unconditional part: the two identity-checked registries (`remoteSendChannels`,
`localAckChannels`).  In EVERY interleaving an entry belongs to an incarnation that registered it
and has not yet run its own (identity-checked) removal, so nothing can be left behind.
-/
namespace S2S.Registry

set_option linter.unusedSimpArgs false
set_option linter.unusedVariables false

/-- tokens not yet handed out are blank, and no registered cancel function refers to one -/
def InvBound (σ : State) : Prop :=
  (∀ j, σ.next ≤ j → σ.inc j = {}) ∧
  (∀ c t, aget σ.cancels c = some t → t < σ.next) ∧
  (∀ i g, (σ.inc i).rpc = .term g → g < σ.next)

/-- an entry of `remoteSendChannels` belongs to a sender between `SetRemoteSendChan` and `RemoveRemoteSendChan` -/
def InvSend (σ : State) : Prop :=
  ∀ c t, aget σ.sendChans c = some t →
    t < σ.next ∧ (σ.inc t).shard = c ∧ (σ.inc t).spc ≠ .start ∧ (σ.inc t).spc ≠ .done

/-- an entry of `localAckChannels` belongs to a receiver between `SetLocalAckChan` and `RemoveLocalAckChan` -/
def InvAck (σ : State) : Prop :=
  ∀ c t, aget σ.ackChans c = some t →
    t < σ.next ∧ (σ.inc t).shard = c ∧
      ((σ.inc t).rpc = .ackSet ∨ (σ.inc t).rpc = .cancelSet ∨ (σ.inc t).rpc = .running)

theorem lt_next_of_spc {σ : State} {i : Tok} (B : InvBound σ) (h : (σ.inc i).spc ≠ .done) : i < σ.next := by
  apply Decidable.byContradiction; intro hn
  have := B.1 i (by omega)
  rw [this] at h; exact h rfl

theorem lt_next_of_rpc {σ : State} {i : Tok} (B : InvBound σ) (h : (σ.inc i).rpc ≠ .done) : i < σ.next := by
  apply Decidable.byContradiction; intro hn
  have := B.1 i (by omega)
  rw [this] at h; exact h rfl

set_option maxHeartbeats 1000000 in
theorem invBound_step {c σ a σ'} (h : step c σ a = some σ') (B : InvBound σ) : InvBound σ' := by
  obtain ⟨B1, B2, B3⟩ := B
  cases a with
  | «open» sh srv =>
    step_inv h
    refine ⟨?_, ?_, ?_⟩
    · intro j hj
      simp at hj ⊢
      have : ¬ σ.next = j := by omega
      simp [this]; exact B1 j (by omega)
    · intro c' t ht; simp at ht ⊢; have := B2 c' t ht; omega
    · intro i g hg; simp at hg ⊢
      split at hg
      · simp at hg
      · have := B3 i g hg; omega
  | rCancel i =>
    step_inv h
    · refine ⟨?_, ?_, ?_⟩
      · intro j hj; simp at hj ⊢; have hi := B1 j hj; crush
      · intro c' t ht; simp at ht ⊢; exact B2 c' t ht
      · intro i' g' hg'; simp at hg' ⊢; split at hg'
        · simp at hg'
        · exact B3 _ _ hg'
    · rename_i g hg hne
      have hgn : g < σ.next := B3 i g hg
      refine ⟨?_, ?_, ?_⟩
      · intro j hj
        simp at hj ⊢
        have h1 : ¬ g = j := by omega
        simp [h1]
        have hi := B1 j hj; crush
      · intro c' t ht; simp at ht ⊢; exact B2 c' t ht
      · intro i' g' hg'; simp at hg' ⊢
        revert hg'; crush
        all_goals (intro hg'; exact B3 _ _ hg')
  | rGet i =>
    step_inv h
    all_goals refine ⟨?_, ?_, ?_⟩
    all_goals (try (intro j hj; simp at hj ⊢; have hi := B1 j hj; crush))
    all_goals (try (intro c' t ht; simp at ht ⊢; exact B2 c' t ht))
    all_goals (intro i' g' hg'; simp at hg' ⊢; split at hg')
    all_goals (try (exact B3 _ _ hg'))
    · rename_i g hg _; simp at hg'; subst hg'; exact B2 _ _ hg
    · simp at hg'
  | rSetCancel i =>
    step_inv h
    refine ⟨?_, ?_, ?_⟩
    · intro j hj; simp at hj ⊢; have hi := B1 j hj; crush
    · intro c' t ht; simp [aget_aset] at ht ⊢
      split at ht
      · cases ht; exact lt_next_of_rpc ⟨B1, B2, B3⟩ (by simp_all)
      · exact B2 c' t ht
    · intro i' g' hg'; simp at hg' ⊢; split at hg'
      · simp at hg'
      · exact B3 _ _ hg'
  | rRmCancel i =>
    step_inv h
    refine ⟨?_, ?_, ?_⟩
    · intro j hj; simp at hj ⊢; have hi := B1 j hj; crush
    · intro c' t ht; simp [aget_adel] at ht ⊢; exact B2 c' t ht.2
    · intro i' g' hg'; simp at hg' ⊢; split at hg'
      · simp at hg'
      · exact B3 _ _ hg'
  | rRmOwnCancel i =>
    step_inv h
    refine ⟨?_, ?_, ?_⟩
    · intro j hj; simp at hj ⊢; have hi := B1 j hj; crush
    · intro c' t ht; simp [aget_adel] at ht ⊢; exact B2 c' t ht.2
    · intro i' g' hg'; simp at hg' ⊢; split at hg'
      · simp at hg'
      · exact B3 _ _ hg'
  | _ =>
    step_inv h
    all_goals refine ⟨?_, ?_, ?_⟩
    all_goals (try (intro j hj; (try simp at hj ⊢); first | exact B1 j hj | (have hi := B1 j hj; crush)))
    all_goals (try (intro c' t ht; (try simp at ht ⊢); exact B2 c' t ht))
    all_goals (try (intro i' g' hg'; (try simp at hg' ⊢); first | exact B3 _ _ hg' | (split at hg' <;> first | (simp at hg'; done) | exact B3 _ _ hg')))

set_option maxHeartbeats 1000000 in
theorem invSend_step {c σ a σ'} (h : step c σ a = some σ') (B : InvBound σ) (I : InvSend σ) : InvSend σ' := by
  cases a with
  | «open» sh srv =>
    step_inv h
    intro c' t ht
    simp at ht ⊢
    obtain ⟨h1, h2, h3, h4⟩ := I c' t ht
    have : ¬ σ.next = t := by omega
    simp [this, h2, h3, h4]; omega
  | sSet i =>
    step_inv h
    intro c' t ht
    simp [aget_aset] at ht ⊢
    split at ht
    · cases ht
      have := lt_next_of_spc (i := i) B (by simp_all)
      simp_all
    · obtain ⟨h1, h2, h3, h4⟩ := I c' t ht
      refine ⟨h1, ?_, ?_, ?_⟩ <;> crush
  | sRmChan i =>
    step_inv h
    all_goals (intro c' t ht)
    all_goals (simp [aget_adel] at ht ⊢)
    · obtain ⟨h1, h2, h3, h4⟩ := I c' t ht.2
      refine ⟨h1, ?_, ?_, ?_⟩ <;> crush
    · obtain ⟨h1, h2, h3, h4⟩ := I c' t ht
      refine ⟨h1, ?_, ?_, ?_⟩ <;> crush
  | _ =>
    step_inv h
    all_goals (intro c' t ht)
    all_goals (try simp [aget_aset, aget_adel] at ht ⊢)
    all_goals (first | exact I c' t ht | (obtain ⟨h1, h2, h3, h4⟩ := I c' t ht; refine ⟨by omega, ?_, ?_, ?_⟩ <;> crush))

set_option maxHeartbeats 1000000 in
theorem invAck_step {c σ a σ'} (h : step c σ a = some σ') (B : InvBound σ) (I : InvAck σ) : InvAck σ' := by
  cases a with
  | «open» sh srv =>
    step_inv h
    intro c' t ht
    simp at ht ⊢
    obtain ⟨h1, h2, h3⟩ := I c' t ht
    have : ¬ σ.next = t := by omega
    simp [this, h2, h3]; omega
  | rSetAck i =>
    step_inv h
    intro c' t ht
    simp [aget_aset] at ht ⊢
    split at ht
    · cases ht
      have := lt_next_of_rpc (i := i) B (by simp_all)
      simp_all
    · obtain ⟨h1, h2, h3⟩ := I c' t ht
      refine ⟨h1, ?_, ?_⟩ <;> crush
  | rForceAck i =>
    step_inv h
    intro c' t ht
    simp [aget_adel] at ht ⊢
    obtain ⟨h1, h2, h3⟩ := I c' t ht.2
    refine ⟨h1, ?_, ?_⟩ <;> crush
  | rRmAck i =>
    step_inv h
    all_goals (intro c' t ht)
    all_goals (simp [aget_adel] at ht ⊢)
    · obtain ⟨h1, h2, h3⟩ := I c' t ht.2
      refine ⟨h1, ?_, ?_⟩ <;> crush
    · obtain ⟨h1, h2, h3⟩ := I c' t ht
      refine ⟨h1, ?_, ?_⟩ <;> crush
  | _ =>
    step_inv h
    all_goals (intro c' t ht)
    all_goals (try simp at ht ⊢)
    all_goals (first | exact I c' t ht | (obtain ⟨h1, h2, h3⟩ := I c' t ht; refine ⟨by omega, ?_, ?_⟩ <;> crush))

end S2S.Registry
