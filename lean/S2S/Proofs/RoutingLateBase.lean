import S2S.Spec.Routing
/-!
Delayed delivery of acknowledgements ("C03S"), part 1: facts about ONE step of the routing machine that need
no invariant — they hold for every `Cfg`, every action (faults included), every state.

* what a step can do to the acknowledgement-relevant fields of a source (`Late.SrcRel`, `Late.step_src`);
* the `confirmed` history of a target only grows (`Late.step_confirmed`);
* hence along every run: `acksSent` grows by appending (`Late.run_acks_prefix`), `confirmed` only grows
  (`Late.run_confirmed_mono`);
* the "along" statement `MonoBoundedAlong` turned into a statement about the accumulated list
  (`Late.pairwise_of_monoBoundedAlong`).

CORE LEAN ONLY.  Every name lives under `S2S.Routing.Late.*`: this file is imported both on top of the C01 proof
chain (`RoutingInv*`) and on top of the C03 proof chain (`RoutingC03*`), which cannot be imported together (both
define `S2S.Routing.Inv`, `SrcOK`, `src_setSrc`, …), so it must not collide with either.
-/
namespace S2S.Routing

/-! ### state frames (same statements as in `RoutingInvBasic`, private names) -/

theorem Late.src_setSrc (σ : State) (s : SId) (x : Source) (s' : SId) :
    (σ.setSrc s x).src s' = if s' = s ∧ s < σ.sources.length then x else σ.src s' := by
  simp only [State.src, State.setSrc, List.getD_eq_getElem?_getD, List.getElem?_set]
  by_cases h : s = s'
  · subst h
    by_cases h2 : s < σ.sources.length
    · simp [h2]
    · simp [h2]
  · have : ¬ s' = s := fun e => h e.symm
    simp [h, this]

theorem Late.tgt_setTgt (σ : State) (t : TId) (x : Target) (t' : TId) :
    (σ.setTgt t x).tgt t' = if t' = t ∧ t < σ.targets.length then x else σ.tgt t' := by
  simp only [State.tgt, State.setTgt, List.getD_eq_getElem?_getD, List.getElem?_set]
  by_cases h : t = t'
  · subst h
    by_cases h2 : t < σ.targets.length
    · simp [h2]
    · simp [h2]
  · have : ¬ t' = t := fun e => h e.symm
    simp [h, this]

theorem Late.tgt_setSrc (σ : State) (s : SId) (x : Source) (t : TId) : (σ.setSrc s x).tgt t = σ.tgt t := rfl
theorem Late.src_setTgt (σ : State) (t : TId) (x : Target) (s : SId) : (σ.setTgt t x).src s = σ.src s := rfl

theorem Late.src_of_ge (σ : State) {s : SId} (h : σ.sources.length ≤ s) : σ.src s = {} := by
  simp [State.src, List.getD_eq_getElem?_getD, List.getElem?_eq_none h]

theorem Late.src_init (ns nt : Nat) (s : SId) : (State.init ns nt).src s = {} := by
  simp only [State.src, State.init, List.getD_eq_getElem?_getD, List.getElem?_replicate]
  split <;> rfl

theorem Late.tgt_init (ns nt : Nat) (t : TId) : (State.init ns nt).tgt t = {} := by
  simp only [State.tgt, State.init, List.getD_eq_getElem?_getD, List.getElem?_replicate]
  split <;> rfl

def Late.tickSrc (x : Source) : Source :=
  if x.active then (match x.lastSentAck with
    | some a => { x with acksSent := x.acksSent ++ [a] }
    | none => x) else x

def Late.tickTgt (tg : Target) : Target :=
  if tg.started && tg.holding.isNone && tg.lastSentWm > 0 then
    { tg with emitted := tg.emitted ++ [{ src := 0, ids := [], high := tg.lastSentWm, orig := [], keepalive := true }] }
  else tg

theorem Late.step_tick (c : Cfg) (σ : State) :
    step c σ .tick = some { sources := σ.sources.map Late.tickSrc, targets := σ.targets.map Late.tickTgt } := rfl

theorem Late.getD_map_default {α β} (f : α → β) (l : List α) (i : Nat) (d : α) (d' : β) (h : f d = d') :
    (l.map f).getD i d' = f (l.getD i d) := by
  simp only [List.getD_eq_getElem?_getD, List.getElem?_map]
  cases l[i]? <;> simp [h]

theorem Late.tick_src (σ : State) (s : SId) :
    (State.src { sources := σ.sources.map Late.tickSrc, targets := σ.targets.map Late.tickTgt } s)
      = Late.tickSrc (σ.src s) := by
  simp only [State.src]
  exact Late.getD_map_default Late.tickSrc σ.sources s {} {} rfl

theorem Late.tick_tgt (σ : State) (t : TId) :
    (State.tgt { sources := σ.sources.map Late.tickSrc, targets := σ.targets.map Late.tickTgt } t)
      = Late.tickTgt (σ.tgt t) := by
  simp only [State.tgt]
  exact Late.getD_map_default Late.tickTgt σ.targets t {} {} rfl

/-! ### what one step does to a source -/

/-- nothing acknowledgement-relevant changes -/
structure Late.Quiet (x x' : Source) : Prop where
  acks : x'.acksSent = x.acksSent
  recv : x'.received = x.received
  high : x'.lastHigh = x.lastHigh
  lsm : x'.lastSentMin = x.lastSentMin
  lsa : x'.lastSentAck = x.lastSentAck

theorem Late.Quiet.rfl' (x : Source) : Late.Quiet x x := ⟨rfl, rfl, rfl, rfl, rfl⟩

/-- the five ways a step `a` can change the acknowledgement-relevant fields of source `s` (`x` before, `x'` after) -/
def Late.SrcRel (a : Act) (s : SId) (x x' : Source) : Prop :=
  Late.Quiet x x' ∨
  (∃ tasks high, a = .recv s tasks high ∧ x'.acksSent = x.acksSent ∧ x'.received = x.received ++ tasks ∧
      x'.lastHigh = high ∧ x'.lastSentMin = x.lastSentMin ∧ x'.lastSentAck = x.lastSentAck) ∨
  (∃ m, a = .rack s ∧ x'.acksSent = x.acksSent ++ [m] ∧ x'.received = x.received ∧
      x'.lastHigh = x.lastHigh ∧ x'.lastSentMin = m ∧ x'.lastSentAck = some m ∧
      (x.lastSentMin ≤ m ∨ m = x.lastHigh)) ∨
  (∃ m, a = .tick ∧ x.lastSentAck = some m ∧ x'.acksSent = x.acksSent ++ [m] ∧ x'.received = x.received ∧
      x'.lastHigh = x.lastHigh ∧ x'.lastSentMin = x.lastSentMin ∧ x'.lastSentAck = x.lastSentAck) ∨
  (a = .openSrc s ∧ x.active = false ∧ x'.acksSent = x.acksSent ∧ x'.received = x.received ∧
      x'.lastHigh = 0 ∧ x'.lastSentMin = 0 ∧ x'.lastSentAck = none) ∨
  (a = .breakSrc s ∧ x'.acksSent = x.acksSent ∧ x'.received = x.received ∧
      x'.lastHigh = 0 ∧ x'.lastSentMin = 0 ∧ x'.lastSentAck = none)

theorem Late.srcRel_setTgt (a : Act) (σ : State) (t : TId) (tg : Target) (s : SId) :
    Late.SrcRel a s (σ.src s) ((σ.setTgt t tg).src s) := Or.inl (Late.Quiet.rfl' _)

/-- a `setSrc s0 x'` step: the relation has to be shown for `s0` only -/
theorem Late.srcRel_setSrc (a : Act) (σ : State) (s0 : SId) (x' : Source)
    (h : Late.SrcRel a s0 (σ.src s0) x') (s : SId) :
    Late.SrcRel a s (σ.src s) ((σ.setSrc s0 x').src s) := by
  rw [Late.src_setSrc]
  split
  · rename_i e; rw [e.1]; exact h
  · exact Or.inl (Late.Quiet.rfl' _)

theorem Late.srcRel_setBoth (a : Act) (σ : State) (s0 : SId) (x' : Source) (t : TId) (tg : Target)
    (h : Late.SrcRel a s0 (σ.src s0) x') (s : SId) :
    Late.SrcRel a s (σ.src s) (((σ.setSrc s0 x').setTgt t tg).src s) :=
  Late.srcRel_setSrc a σ s0 x' h s

theorem Late.srcRel_tick (x : Source) (s : SId) : Late.SrcRel .tick s x (Late.tickSrc x) := by
  unfold Late.tickSrc
  split
  · split
    · rename_i m hm
      exact Or.inr (Or.inr (Or.inr (Or.inl ⟨m, rfl, hm, rfl, rfl, rfl, rfl, rfl⟩)))
    · exact Or.inl (Late.Quiet.rfl' _)
  · exact Or.inl (Late.Quiet.rfl' _)

/-- **one step, one source**: every action of every configuration changes the acknowledgement-relevant fields of a
    source in one of the ways listed in `Late.SrcRel` -/
theorem Late.step_src {c : Cfg} {σ σ' : State} {a : Act} (h : step c σ a = some σ') (s : SId) :
    Late.SrcRel a s (σ.src s) (σ'.src s) := by
  cases a with
  | tick =>
    rw [Late.step_tick] at h
    simp only [Option.some.injEq] at h
    subst h
    rw [Late.tick_src]
    exact Late.srcRel_tick _ s
  | recv s0 tasks high =>
    simp only [step] at h
    split at h
    · cases h
    · split at h
      · simp only [Option.some.injEq] at h
        subst h
        refine Late.srcRel_setSrc _ σ s0 _ ?_ s
        exact Or.inr (Or.inl ⟨tasks, high, rfl, rfl, rfl, rfl, rfl, rfl⟩)
      · simp only [Option.some.injEq] at h
        subst h
        refine Late.srcRel_setSrc _ σ s0 _ ?_ s
        exact Or.inr (Or.inl ⟨tasks, high, rfl, rfl, rfl, rfl, rfl, rfl⟩)
  | rack s0 =>
    simp only [step] at h
    split at h
    · cases h
    · split at h
      · cases h
      · split at h
        · simp only [Option.some.injEq] at h
          subst h; refine Late.srcRel_setSrc _ σ s0 _ ?_ s; exact Or.inl ⟨rfl, rfl, rfl, rfl, rfl⟩
        · split at h
          · rename_i m _ hge
            simp only [Option.some.injEq] at h
            subst h
            refine Late.srcRel_setSrc _ σ s0 _ ?_ s
            refine Or.inr (Or.inr (Or.inl ⟨_, rfl, rfl, rfl, rfl, rfl, rfl, ?_⟩))
            simp only [ge_iff_le] at hge
            split
            · exact Or.inr rfl
            · exact Or.inl hge
          · simp only [Option.some.injEq] at h
            subst h; refine Late.srcRel_setSrc _ σ s0 _ ?_ s; exact Or.inl ⟨rfl, rfl, rfl, rfl, rfl⟩
  | openSrc s0 =>
    simp only [step] at h
    split at h
    · cases h
    · rename_i hc
      simp only [Option.some.injEq] at h
      subst h
      refine Late.srcRel_setSrc _ σ s0 _ ?_ s
      refine Or.inr (Or.inr (Or.inr (Or.inr (Or.inl ⟨rfl, ?_, rfl, rfl, rfl, rfl, rfl⟩))))
      cases ha : (σ.src s0).active with
      | false => rfl
      | true => simp [ha] at hc
  | breakSrc s0 =>
    simp only [step] at h
    split at h
    · cases h
    · simp only [Option.some.injEq] at h
      subst h
      refine Late.srcRel_setSrc _ σ s0 _ ?_ s
      exact Or.inr (Or.inr (Or.inr (Or.inr (Or.inr ⟨rfl, rfl, rfl, rfl, rfl, rfl⟩))))
  | _ =>
    simp only [step] at h
    repeat' split at h
    all_goals first
      | (cases h; done)
      | (simp only [Option.some.injEq] at h
         subst h
         first
          | exact Late.srcRel_setTgt _ _ _ _ s
          | (refine Late.srcRel_setSrc _ _ _ _ ?_ s; exact Or.inl ⟨rfl, rfl, rfl, rfl, rfl⟩)
          | (refine Late.srcRel_setBoth _ _ _ _ _ _ ?_ s; exact Or.inl ⟨rfl, rfl, rfl, rfl, rfl⟩))

/-! ### what one step does to a target's `confirmed` history -/

theorem Late.tickTgt_confirmed (tg : Target) : (Late.tickTgt tg).confirmed = tg.confirmed := by
  unfold Late.tickTgt; split <;> rfl

theorem Late.conf_setSrc (σ : State) (s : SId) (x : Source) (t : TId) :
    (σ.tgt t).confirmed <+: ((σ.setSrc s x).tgt t).confirmed := List.prefix_refl _

theorem Late.conf_setTgt (σ : State) (t0 : TId) (tg : Target) (h : (σ.tgt t0).confirmed <+: tg.confirmed) (t : TId) :
    (σ.tgt t).confirmed <+: ((σ.setTgt t0 tg).tgt t).confirmed := by
  rw [Late.tgt_setTgt]
  split
  · rename_i e; rw [e.1]; exact h
  · exact List.prefix_refl _

theorem Late.conf_setBoth (σ : State) (s : SId) (x : Source) (t0 : TId) (tg : Target)
    (h : (σ.tgt t0).confirmed <+: tg.confirmed) (t : TId) :
    (σ.tgt t).confirmed <+: (((σ.setSrc s x).setTgt t0 tg).tgt t).confirmed :=
  Late.conf_setTgt (σ.setSrc s x) t0 tg h t

theorem Late.conf_setBoth' (σ : State) (s : SId) (x : Source) (t0 : TId) (tg : Target)
    (h : (σ.tgt t0).confirmed <+: tg.confirmed) (t : TId) :
    (σ.tgt t).confirmed <+: (((σ.setTgt t0 tg).setSrc s x).tgt t).confirmed :=
  Late.conf_setTgt σ t0 tg h t

theorem Late.process_confirmed (tg : Target) (m : Msg) : (process tg m).confirmed = tg.confirmed := by
  cases m <;> rfl

/-- **`confirmed` is monotone along `step`** (every configuration, every action, faults included: a broken or
    re-opened target stream keeps the confirmations of its earlier incarnations) -/
theorem Late.step_confirmed {c : Cfg} {σ σ' : State} {a : Act} (h : step c σ a = some σ') (t : TId) :
    (σ.tgt t).confirmed <+: (σ'.tgt t).confirmed := by
  cases a with
  | tick =>
    rw [Late.step_tick] at h
    simp only [Option.some.injEq] at h
    subst h
    rw [Late.tick_tgt, Late.tickTgt_confirmed]
    exact List.prefix_refl _
  | take t0 =>
    simp only [step] at h
    split at h
    · cases h
    · split at h
      · cases h
      · simp only [Option.some.injEq] at h
        subst h
        refine Late.conf_setTgt σ t0 _ ?_ t
        rw [Late.process_confirmed]; exact List.prefix_refl _
  | tack t0 w =>
    simp only [step] at h
    split at h
    · cases h
    · split at h
      · simp only [Option.some.injEq] at h
        subst h
        refine Late.conf_setTgt σ t0 _ ?_ t
        exact List.prefix_append _ _
      · simp only [Option.some.injEq] at h
        subst h
        refine Late.conf_setTgt σ t0 _ ?_ t
        exact List.prefix_append _ _
  | _ =>
    simp only [step] at h
    repeat' split at h
    all_goals first
      | (cases h; done)
      | (simp only [Option.some.injEq] at h
         subst h
         first
          | exact Late.conf_setSrc _ _ _ t
          | (refine Late.conf_setTgt _ _ _ ?_ t; exact List.prefix_refl _)
          | (refine Late.conf_setBoth _ _ _ _ _ ?_ t; exact List.prefix_refl _)
          | (refine Late.conf_setBoth' _ _ _ _ _ ?_ t; exact List.prefix_refl _))

/-! ### consequences for one step -/

theorem Late.SrcRel.acks_cases {a : Act} {s : SId} {x x' : Source} (h : Late.SrcRel a s x x') :
    x'.acksSent = x.acksSent ∨ ∃ m, x'.acksSent = x.acksSent ++ [m] := by
  rcases h with h | ⟨_, _, _, h, _⟩ | ⟨m, _, h, _⟩ | ⟨m, _, _, h, _⟩ | ⟨_, _, h, _⟩ | ⟨_, h, _⟩
  · exact Or.inl h.acks
  · exact Or.inl h
  · exact Or.inr ⟨m, h⟩
  · exact Or.inr ⟨m, h⟩
  · exact Or.inl h
  · exact Or.inl h

theorem Late.SrcRel.acks_prefix {a : Act} {s : SId} {x x' : Source} (h : Late.SrcRel a s x x') :
    x.acksSent <+: x'.acksSent := by
  rcases h.acks_cases with e | ⟨m, e⟩ <;> rw [e]
  · exact List.prefix_refl _
  · exact List.prefix_append _ _

/-- the tasks a source has after the step are the ones it had, or the batch of this very `recv` -/
theorem Late.SrcRel.received_cases {a : Act} {s : SId} {x x' : Source} (h : Late.SrcRel a s x x') :
    x'.received = x.received ∨ ∃ tasks high, a = .recv s tasks high ∧ x'.received = x.received ++ tasks := by
  rcases h with h | ⟨tasks, high, e, _, h, _⟩ | ⟨m, _, _, h, _⟩ | ⟨m, _, _, _, h, _⟩ | ⟨_, _, _, h, _⟩ | ⟨_, _, h, _⟩
  · exact Or.inl h.recv
  · exact Or.inr ⟨tasks, high, e, h⟩
  · exact Or.inl h
  · exact Or.inl h
  · exact Or.inl h
  · exact Or.inl h

theorem Late.step_acks_prefix {c : Cfg} {σ σ' : State} {a : Act} (h : step c σ a = some σ') (s : SId) :
    (σ.src s).acksSent <+: (σ'.src s).acksSent := (Late.step_src h s).acks_prefix

/-- the acknowledgements a step sends are exactly the difference of the two histories -/
theorem Late.acks_eq_append_newAcks {σ σ' : State} {s : SId} (h : (σ.src s).acksSent <+: (σ'.src s).acksSent) :
    (σ'.src s).acksSent = (σ.src s).acksSent ++ newAcks σ σ' s := by
  obtain ⟨r, hr⟩ := h
  unfold newAcks
  rw [← hr, List.drop_left]

theorem Late.mem_acks_step {c : Cfg} {σ σ' : State} {a : Act} (h : step c σ a = some σ') {s : SId} {v : Int}
    (hv : v ∈ (σ'.src s).acksSent) : v ∈ (σ.src s).acksSent ∨ v ∈ newAcks σ σ' s := by
  rw [Late.acks_eq_append_newAcks (Late.step_acks_prefix h s)] at hv
  exact List.mem_append.1 hv

/-! ### runs -/

theorem Late.run_nil (c : Cfg) (σ : State) : run c σ [] = σ := rfl

theorem Late.run_cons (c : Cfg) (σ : State) (a : Act) (rest : List Act) :
    run c σ (a :: rest) = run c ((step c σ a).getD σ) rest := rfl

/-- running `pre ++ post` is running `post` from where `pre` ended -/
theorem Late.run_append (c : Cfg) (σ : State) (pre post : List Act) :
    run c σ (pre ++ post) = run c (run c σ pre) post := by
  simp only [run, List.foldl_append]

theorem Late.envOK_append {c : Cfg} {σ : State} {pre post : List Act} (h : EnvOK c σ (pre ++ post)) :
    EnvOK c σ pre ∧ EnvOK c (run c σ pre) post := by
  induction pre generalizing σ with
  | nil => exact ⟨trivial, h⟩
  | cons a rest ih =>
    obtain ⟨h1, h2⟩ := h
    obtain ⟨h3, h4⟩ := ih h2
    exact ⟨⟨h1, h3⟩, h4⟩

theorem Late.noFaults_append {pre post : List Act} (h : NoFaults (pre ++ post)) : NoFaults pre ∧ NoFaults post :=
  ⟨fun a ha => h a (List.mem_append_left _ ha), fun a ha => h a (List.mem_append_right _ ha)⟩

/-- **the history of sent acknowledgements only grows** (every configuration, faults included) -/
theorem Late.run_acks_prefix (c : Cfg) (σ : State) (acts : List Act) (s : SId) :
    (σ.src s).acksSent <+: ((run c σ acts).src s).acksSent := by
  induction acts generalizing σ with
  | nil => exact List.prefix_refl _
  | cons a rest ih =>
    rw [Late.run_cons]
    cases hstep : step c σ a with
    | none => exact ih σ
    | some σ' => exact (Late.step_acks_prefix hstep s).trans (ih σ')

/-- **`confirmed` only grows along a run** (every configuration, faults included) -/
theorem Late.run_confirmed_prefix (c : Cfg) (σ : State) (acts : List Act) (t : TId) :
    (σ.tgt t).confirmed <+: ((run c σ acts).tgt t).confirmed := by
  induction acts generalizing σ with
  | nil => exact List.prefix_refl _
  | cons a rest ih =>
    rw [Late.run_cons]
    cases hstep : step c σ a with
    | none => exact ih σ
    | some σ' => exact (Late.step_confirmed hstep t).trans (ih σ')

theorem Late.run_confirmed_mono (c : Cfg) (σ : State) (acts : List Act) {s : SId} {id : Int} {t : TId}
    (h : Confirmed σ s id t) : Confirmed (run c σ acts) s id t :=
  (Late.run_confirmed_prefix c σ acts t).subset h

/-! ### from the "along" form of C03 to the accumulated list -/

/-- `MonoBoundedAlong` says of every step that the new acknowledgement is `≥` every earlier one.  Since a step appends
    at most one acknowledgement per source, the accumulated history is non-decreasing. -/
theorem Late.pairwise_of_monoBoundedAlong (c : Cfg) (σ : State) (acts : List Act)
    (h : MonoBoundedAlong c σ acts) (s : SId) (h0 : (σ.src s).acksSent.Pairwise (· ≤ ·)) :
    ((run c σ acts).src s).acksSent.Pairwise (· ≤ ·) := by
  induction acts generalizing σ with
  | nil => exact h0
  | cons a rest ih =>
    rw [Late.run_cons]
    unfold MonoBoundedAlong at h
    cases hstep : step c σ a with
    | none =>
      rw [hstep] at h
      exact ih σ h h0
    | some σ' =>
      rw [hstep] at h
      obtain ⟨h1, h2⟩ := h
      refine ih σ' h2 ?_
      rcases (Late.step_src hstep s).acks_cases with e | ⟨m, e⟩
      · rw [e]; exact h0
      · by_cases hs : s < σ'.sources.length
        · have hm : m ∈ newAcks σ σ' s := by
            unfold newAcks; rw [e, List.drop_left]; exact List.mem_singleton.2 rfl
          have := (h1 s hs m hm).2
          rw [e, List.pairwise_append]
          exact ⟨h0, List.pairwise_singleton _ _, fun u hu w hw => by
            rw [List.mem_singleton.1 hw]; exact this u hu⟩
        · rw [Late.src_of_ge σ' (Nat.le_of_not_lt hs)]
          exact List.Pairwise.nil

end S2S.Routing
