import S2S.Spec.Translate
/-!
C12 / C16: every well-formed structural path of the type graph that ends in a namespace-name leaf is
translated by the (model of the) reflective visitor, provided the finite coverage obligations
`Covers g tb mask` hold.  CORE LEAN ONLY.
-/
namespace S2S.Translate

/-- `idsOK`: the type at position `i` carries id `i` -/
theorem idsOK_getElem {types : List TypeD} (h : idsOK types = true) (i : Nat)
    (hi : i < types.length) : (types[i]).id = i := by
  unfold idsOK at h
  rw [List.all_eq_true] at h
  have h1 := h i (List.mem_range.mpr hi)
  rw [List.getElem?_eq_getElem hi] at h1
  simpa using h1

/-- a type that has a field is a declared entry of the table, found under its own id -/
theorem field?_some {g : Graph} (h : idsOK g.types = true) {t i : Nat} {f : FieldD}
    (hf : g.field? t i = some f) :
    g.typeD t ∈ g.types ∧ (g.typeD t).id = t ∧ f ∈ (g.typeD t).fields := by
  unfold Graph.field? at hf
  have hmem : f ∈ (g.typeD t).fields := List.mem_of_getElem? hf
  by_cases ht : t < g.types.length
  · have e : g.typeD t = g.types[t] := by
      unfold Graph.typeD
      rw [List.getElem?_eq_getElem ht]
      rfl
    refine ⟨?_, ?_, hmem⟩
    · rw [e]; exact List.getElem_mem ht
    · rw [e]; exact idsOK_getElem h t ht
  · have e : g.typeD t = ⟨t, []⟩ := by
      unfold Graph.typeD
      rw [List.getElem?_eq_none (Nat.le_of_not_lt ht)]
      rfl
    rw [e] at hmem
    cases hmem

/-- what `Covers` says about a field found by `field?` -/
theorem covers_field {g : Graph} {tb : Tables} {mask : Nat} (hc : Covers g tb mask = true)
    {t i : Nat} {f : FieldD} (hf : g.field? t i = some f) :
    (f.oracleNs = true → f.goString = true ∧ tb.ns.contains f.go = true) ∧
    (t = g.namespaceInfo → f.go = g.nameField → f.goString = true) ∧
    (f.blob = true → tb.blob.contains f.go = true ∨
        tb.reviewedNonEventBlob.contains (t, f.go) = true) ∧
    (mask.testBit t = true →
        t ≠ g.namespaceInfo ∧ f.oracleNs = false ∧ (∀ n ∈ f.targets, mask.testBit n = true) ∧
        (f.blob = true → tb.reviewedNonEventBlob.contains (t, f.go) = true)) := by
  unfold Covers at hc
  simp only [Bool.and_eq_true] at hc
  obtain ⟨⟨hids, _⟩, hall⟩ := hc
  obtain ⟨hT, hid, hmem⟩ := field?_some hids hf
  rw [List.all_eq_true] at hall
  have hok := hall _ hT
  unfold typeOK at hok
  rw [hid] at hok
  simp only [Bool.and_eq_true, Bool.or_eq_true, List.all_eq_true,
    bne_iff_ne, ne_eq, Bool.not_eq_eq_eq_not, Bool.not_true] at hok
  obtain ⟨⟨⟨h1, h2⟩, h3⟩, h4⟩ := hok
  refine ⟨?_, ?_, ?_, ?_⟩
  · intro ho
    rcases h1 f hmem with h | h
    · rw [ho] at h; cases h
    · exact h
  · intro ht hgo
    rcases h2 with h | h
    · exact absurd ht h
    · rcases h f hmem with h | h
      · exact absurd hgo h
      · exact h
  · intro hb
    rcases h3 f hmem with (h | h) | h
    · rw [hb] at h; cases h
    · exact Or.inl h
    · exact Or.inr h
  · intro hm
    rcases h4 with h | h
    · rw [hm] at h; cases h
    · obtain ⟨hne, hall4⟩ := h
      obtain ⟨⟨ho, htg⟩, hbl⟩ := hall4 f hmem
      refine ⟨hne, ho, htg, ?_⟩
      intro hb
      rcases hbl with h | h
      · rw [hb] at h; cases h
      · exact h

/-- a type in the mask bears no namespace-name leaf -/
theorem isNsLeaf_mask {g : Graph} {tb : Tables} {mask : Nat} (hc : Covers g tb mask = true)
    {ty idx : Nat} (hm : mask.testBit ty = true) : isNsLeaf g ty idx = false := by
  unfold isNsLeaf
  cases hf : g.field? ty idx with
  | none => rfl
  | some f =>
    obtain ⟨_, _, _, h4⟩ := covers_field hc hf
    obtain ⟨hne, ho, _, _⟩ := h4 hm
    simp only [ho, Bool.false_or, Bool.and_eq_false_imp, beq_iff_eq]
    intro h
    exact absurd h hne

/-- the mask is closed under `chain` -/
theorem chain_mask {g : Graph} {tb : Tables} {mask : Nat} (hc : Covers g tb mask = true)
    (leafTy : Nat) :
    ∀ (steps : List Step) (cur : Nat), chain g tb steps cur leafTy = true →
      mask.testBit cur = true → mask.testBit leafTy = true := by
  intro steps
  induction steps with
  | nil =>
    intro cur h hm
    simp only [chain, beq_iff_eq] at h
    rw [← h]; exact hm
  | cons s rest ih =>
    intro cur h hm
    cases s with
    | field ty idx next =>
      simp only [chain, Bool.and_eq_true, beq_iff_eq] at h
      obtain ⟨⟨hty, hfm⟩, hrest⟩ := h
      subst hty
      cases hf : g.field? ty idx with
      | none => rw [hf] at hfm; cases hfm
      | some f =>
        rw [hf] at hfm
        simp only [List.contains_iff_mem] at hfm
        obtain ⟨_, _, _, h4⟩ := covers_field hc hf
        obtain ⟨_, _, htg, _⟩ := h4 hm
        exact ih next hrest (htg next hfm)
    | blob ty idx =>
      simp only [chain, Bool.and_eq_true, beq_iff_eq] at h
      obtain ⟨⟨hty, hfm⟩, hrest⟩ := h
      subst hty
      cases hf : g.field? ty idx with
      | none => rw [hf] at hfm; cases hfm
      | some f =>
        rw [hf] at hfm
        simp only [Bool.and_eq_true, Bool.not_eq_true'] at hfm
        obtain ⟨hb, hnr⟩ := hfm
        obtain ⟨_, _, _, h4⟩ := covers_field hc hf
        obtain ⟨_, _, _, hbl⟩ := h4 hm
        rw [hbl hb] at hnr
        cases hnr

/-- the visitor walks every well-formed chain to a namespace-name leaf -/
theorem walk_of_chain {g : Graph} {tb : Tables} {mask : Nat} (hc : Covers g tb mask = true)
    (leafTy leafIdx : Nat) (hleaf : isNsLeaf g leafTy leafIdx = true) :
    ∀ (steps : List Step) (cur : Nat) (inEvents : Bool), chain g tb steps cur leafTy = true →
      walk g tb steps inEvents = true := by
  intro steps
  induction steps with
  | nil => intro cur inEvents _; rfl
  | cons s rest ih =>
    intro cur inEvents h
    cases s with
    | field ty idx next =>
      simp only [chain, Bool.and_eq_true, beq_iff_eq] at h
      obtain ⟨⟨hty, hfm⟩, hrest⟩ := h
      cases hf : g.field? ty idx with
      | none => rw [hf] at hfm; cases hfm
      | some f =>
        rw [hf] at hfm
        simp only [walk, hf, hfm, Bool.not_true, Bool.false_eq_true, if_false]
        have hns : entersSkippable tb rest = false := by
          cases hes : entersSkippable tb rest with
          | false => rfl
          | true =>
            exfalso
            cases rest with
            | nil => simp [entersSkippable] at hes
            | cons s' rest' =>
              cases s' with
              | blob a b => simp [entersSkippable] at hes
              | field w i attr =>
                simp only [entersSkippable, List.contains_iff_mem] at hes
                simp only [chain, Bool.and_eq_true] at hrest
                obtain ⟨_, hrest'⟩ := hrest
                have hsk : mask.testBit attr = true := by
                  unfold Covers at hc
                  simp only [Bool.and_eq_true, List.all_eq_true] at hc
                  exact hc.1.2 attr hes
                have := chain_mask hc leafTy rest' attr hrest' hsk
                rw [isNsLeaf_mask hc this] at hleaf
                cases hleaf
        simp only [hns, Bool.and_false, Bool.false_eq_true, if_false]
        exact ih next _ hrest
    | blob ty idx =>
      simp only [chain, Bool.and_eq_true, beq_iff_eq] at h
      obtain ⟨⟨hty, hfm⟩, hrest⟩ := h
      cases hf : g.field? ty idx with
      | none => rw [hf] at hfm; cases hfm
      | some f =>
        rw [hf] at hfm
        simp only [Bool.and_eq_true, Bool.not_eq_true'] at hfm
        obtain ⟨hb, hnr⟩ := hfm
        obtain ⟨_, _, h3, _⟩ := covers_field hc hf
        have hbl : tb.blob.contains f.go = true := by
          rcases h3 hb with h | h
          · exact h
          · rw [h] at hnr; cases hnr
        simp only [walk, hf, hb, hbl, Bool.and_self, if_true]
        exact ih _ true hrest

/-- a namespace-name leaf is translated -/
theorem leafTranslated_of_isNsLeaf {g : Graph} {tb : Tables} {mask : Nat}
    (hc : Covers g tb mask = true) {ty idx : Nat} (hleaf : isNsLeaf g ty idx = true) :
    leafTranslated g tb ty idx = true := by
  unfold isNsLeaf at hleaf
  unfold leafTranslated
  cases hf : g.field? ty idx with
  | none => rw [hf] at hleaf; cases hleaf
  | some f =>
    rw [hf] at hleaf
    obtain ⟨h1, h2, _, _⟩ := covers_field hc hf
    simp only [Bool.or_eq_true, Bool.and_eq_true, beq_iff_eq] at hleaf ⊢
    rcases hleaf with ho | ⟨ht, hgo⟩
    · exact Or.inr (h1 ho)
    · exact Or.inl ⟨⟨ht, hgo⟩, h2 ht hgo⟩

theorem translates_of_covers (g : Graph) (tb : Tables) (mask : Nat) (hc : Covers g tb mask = true)
    (root : Nat) (p : Path) (hw : WellFormed g tb root p) : translates g tb p = true := by
  obtain ⟨hchain, hleaf⟩ := hw
  unfold translates
  rw [walk_of_chain hc p.leafTy p.leafIdx hleaf p.steps root false hchain,
    leafTranslated_of_isNsLeaf hc hleaf]
  rfl

end S2S.Translate
