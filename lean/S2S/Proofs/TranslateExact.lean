import S2S.Spec.Translate
import S2S.Proofs.TranslateCover
namespace S2S.Translate
/-- converse coverage: a plain string field whose Go name is in namespaceFieldNames is a namespace-name field -/
def typeExact (tb : Tables) (t : TypeD) : Bool :=
  t.fields.all (fun f => !(f.goString && tb.ns.contains f.go) || f.oracleNs)
/-- search-attribute coverage: every search-attribute container has a Go name in searchAttributeFieldNames -/
def typeSA (tb : Tables) (t : TypeD) : Bool :=
  t.fields.all (fun f => !f.sa || tb.sa.contains f.go)
theorem exact_of_chunks (g : Graph) (tb : Tables) (chunks : List (List TypeD)) (h : g.types = chunks.flatten)
    (hc : chunks.all (fun c => c.all (typeExact tb)) = true)
    (t : TypeD) (ht : t ∈ g.types) (f : FieldD) (hf : f ∈ t.fields)
    (hs : f.goString = true) (hn : tb.ns.contains f.go = true) : f.oracleNs = true := by
  rw [← all_flatten, ← h] at hc
  have h1 := List.all_eq_true.1 hc t ht
  have h2 := List.all_eq_true.1 h1 f hf
  rw [hs, hn] at h2
  simpa using h2
theorem sa_of_chunks (g : Graph) (tb : Tables) (chunks : List (List TypeD)) (h : g.types = chunks.flatten)
    (hc : chunks.all (fun c => c.all (typeSA tb)) = true)
    (t : TypeD) (ht : t ∈ g.types) (f : FieldD) (hf : f ∈ t.fields) (hs : f.sa = true) : tb.sa.contains f.go = true := by
  rw [← all_flatten, ← h] at hc
  have h1 := List.all_eq_true.1 hc t ht
  have h2 := List.all_eq_true.1 h1 f hf
  rw [hs] at h2
  simpa using h2
end S2S.Translate
