import S2S.Spec.Registry
/-! GENERATED: value of every program-counter predicate on every constructor (all `rfl`). -/
namespace S2S.Registry

@[simp] theorem SPc.registering_start : SPc.start.registering = false := rfl
@[simp] theorem SPc.registering_set : SPc.set.registering = true := rfl
@[simp] theorem SPc.registering_added : SPc.added.registering = true := rfl
@[simp] theorem SPc.registering_notify (l : List Nat) (h : Option Nat) : (SPc.notify l h).registering = true := rfl
@[simp] theorem SPc.registering_running : SPc.running.registering = false := rfl
@[simp] theorem SPc.registering_closed : SPc.closed.registering = false := rfl
@[simp] theorem SPc.registering_unreg : SPc.unreg.registering = false := rfl
@[simp] theorem SPc.registering_rmChan : SPc.rmChan.registering = false := rfl
@[simp] theorem SPc.registering_done : SPc.done.registering = false := rfl
@[simp] theorem SPc.closing_start : SPc.start.closing = false := rfl
@[simp] theorem SPc.closing_set : SPc.set.closing = false := rfl
@[simp] theorem SPc.closing_added : SPc.added.closing = false := rfl
@[simp] theorem SPc.closing_notify (l : List Nat) (h : Option Nat) : (SPc.notify l h).closing = false := rfl
@[simp] theorem SPc.closing_running : SPc.running.closing = false := rfl
@[simp] theorem SPc.closing_closed : SPc.closed.closing = true := rfl
@[simp] theorem SPc.closing_unreg : SPc.unreg.closing = true := rfl
@[simp] theorem SPc.closing_rmChan : SPc.rmChan.closing = true := rfl
@[simp] theorem SPc.closing_done : SPc.done.closing = false := rfl
@[simp] theorem SPc.stamped_start : SPc.start.stamped = false := rfl
@[simp] theorem SPc.stamped_set : SPc.set.stamped = false := rfl
@[simp] theorem SPc.stamped_added : SPc.added.stamped = true := rfl
@[simp] theorem SPc.stamped_notify (l : List Nat) (h : Option Nat) : (SPc.notify l h).stamped = true := rfl
@[simp] theorem SPc.stamped_running : SPc.running.stamped = true := rfl
@[simp] theorem SPc.stamped_closed : SPc.closed.stamped = true := rfl
@[simp] theorem SPc.stamped_unreg : SPc.unreg.stamped = true := rfl
@[simp] theorem SPc.stamped_rmChan : SPc.rmChan.stamped = true := rfl
@[simp] theorem SPc.stamped_done : SPc.done.stamped = true := rfl
@[simp] theorem SPc.holdsLocal_start : SPc.start.holdsLocal = false := rfl
@[simp] theorem SPc.holdsLocal_set : SPc.set.holdsLocal = false := rfl
@[simp] theorem SPc.holdsLocal_added : SPc.added.holdsLocal = true := rfl
@[simp] theorem SPc.holdsLocal_notify (l : List Nat) (h : Option Nat) : (SPc.notify l h).holdsLocal = true := rfl
@[simp] theorem SPc.holdsLocal_running : SPc.running.holdsLocal = true := rfl
@[simp] theorem SPc.holdsLocal_closed : SPc.closed.holdsLocal = true := rfl
@[simp] theorem SPc.holdsLocal_unreg : SPc.unreg.holdsLocal = false := rfl
@[simp] theorem SPc.holdsLocal_rmChan : SPc.rmChan.holdsLocal = false := rfl
@[simp] theorem SPc.holdsLocal_done : SPc.done.holdsLocal = false := rfl
@[simp] theorem RPc.starting_start : RPc.start.starting = false := rfl
@[simp] theorem RPc.starting_term (g : Nat) : (RPc.term g).starting = true := rfl
@[simp] theorem RPc.starting_termRm : RPc.termRm.starting = true := rfl
@[simp] theorem RPc.starting_termAck : RPc.termAck.starting = true := rfl
@[simp] theorem RPc.starting_opening : RPc.opening.starting = true := rfl
@[simp] theorem RPc.starting_opened : RPc.opened.starting = true := rfl
@[simp] theorem RPc.starting_ackSet : RPc.ackSet.starting = true := rfl
@[simp] theorem RPc.starting_cancelSet : RPc.cancelSet.starting = true := rfl
@[simp] theorem RPc.starting_running : RPc.running.starting = false := rfl
@[simp] theorem RPc.starting_cleanCheck : RPc.cleanCheck.starting = false := rfl
@[simp] theorem RPc.starting_cleanCancel : RPc.cleanCancel.starting = false := rfl
@[simp] theorem RPc.starting_cleanActive : RPc.cleanActive.starting = false := rfl
@[simp] theorem RPc.starting_done : RPc.done.starting = false := rfl
@[simp] theorem RPc.cleaning_start : RPc.start.cleaning = false := rfl
@[simp] theorem RPc.cleaning_term (g : Nat) : (RPc.term g).cleaning = false := rfl
@[simp] theorem RPc.cleaning_termRm : RPc.termRm.cleaning = false := rfl
@[simp] theorem RPc.cleaning_termAck : RPc.termAck.cleaning = false := rfl
@[simp] theorem RPc.cleaning_opening : RPc.opening.cleaning = false := rfl
@[simp] theorem RPc.cleaning_opened : RPc.opened.cleaning = false := rfl
@[simp] theorem RPc.cleaning_ackSet : RPc.ackSet.cleaning = false := rfl
@[simp] theorem RPc.cleaning_cancelSet : RPc.cancelSet.cleaning = false := rfl
@[simp] theorem RPc.cleaning_running : RPc.running.cleaning = false := rfl
@[simp] theorem RPc.cleaning_cleanCheck : RPc.cleanCheck.cleaning = false := rfl
@[simp] theorem RPc.cleaning_cleanCancel : RPc.cleanCancel.cleaning = true := rfl
@[simp] theorem RPc.cleaning_cleanActive : RPc.cleanActive.cleaning = true := rfl
@[simp] theorem RPc.cleaning_done : RPc.done.cleaning = false := rfl

end S2S.Registry
