import S2S.Proofs.RoutingC03
import S2S.Proofs.RoutingLateBase
/-!
Delayed delivery of acknowledgements ("C03S"), cross-check of statement (3) on the C03 proof chain.

`Props/C03S.lean` lives on the C01 proof chain (`RoutingInv*`), which cannot be imported together with the C03 chain
(`RoutingC03*`): both define `S2S.Routing.Inv`, `SrcOK`, `src_setSrc`, ….  There the source-side history clauses are
re-established from the C01 invariant.  Here the same statement is obtained the other way round, literally FROM the
C03 theorem `mono_bounded_cur` (`MonoBoundedAlong`): the "along" form is turned into a statement about the accumulated
list by `Late.pairwise_of_monoBoundedAlong` (a step appends at most one acknowledgement per source), and the bound at
the LATER state comes from the C03 invariant (`acksSent ≤ lastSentMin ≤ lastHigh` in every reachable state).
-/
namespace S2S.Routing

/-- the C03 safety invariant holds in every state a fault-free, well-formed run reaches -/
theorem Late.c03_run_inv {σ : State} {acts : List Act} (hI : Inv σ)
    (henv : EnvOK Cfg.cur σ acts) (hnf : NoFaults acts) : Inv (run Cfg.cur σ acts) := by
  induction acts generalizing σ with
  | nil => exact hI
  | cons a rest ih =>
    have hnf' : NoFaults rest := fun b hb => hnf b (List.mem_cons_of_mem _ hb)
    obtain ⟨hr, henv'⟩ := henv
    rw [Late.run_cons]
    cases hstep : step Cfg.cur σ a with
    | none =>
      rw [hstep] at henv'
      exact ih hI henv' hnf'
    | some σ' =>
      rw [hstep] at henv'
      have := step_inv hI hstep (hnf a List.mem_cons_self) (by
        intro s tasks high ha; subst ha; exact hr)
      exact ih this.1 henv' hnf'

/-- statement (3) of C03S, derived from `mono_bounded_cur` -/
theorem Late.visible_prefix_monotone_bounded_via_C03 (ns nt : Nat) (acts : List Act)
    (henv : EnvOK Cfg.cur (State.init ns nt) acts) (hnf : NoFaults acts) (s : SId) (k : Nat) :
    ((((run Cfg.cur (State.init ns nt) acts).src s).acksSent.take k).Pairwise (· ≤ ·)) ∧
    ∀ v ∈ ((run Cfg.cur (State.init ns nt) acts).src s).acksSent.take k,
      v ≤ ((run Cfg.cur (State.init ns nt) acts).src s).lastHigh := by
  have hmb := mono_bounded_cur ns nt acts henv hnf
  have hsorted := Late.pairwise_of_monoBoundedAlong Cfg.cur (State.init ns nt) acts hmb s
    (by rw [Late.src_init]; exact List.Pairwise.nil)
  have hS := (Late.c03_run_inv (Inv.init ns nt) henv hnf).srcs s
  exact ⟨hsorted.sublist (List.take_sublist _ _),
    fun v hv => Int.le_trans (hS.acks v (List.mem_of_mem_take hv)) hS.lsm⟩

end S2S.Routing
