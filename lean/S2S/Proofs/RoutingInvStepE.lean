import S2S.Proofs.RoutingInvStepC
/-! Invariant preservation: `recv` (the only step that uses the environment hypothesis `RecvOK`). -/
namespace S2S.Routing

theorem cur_seedAcks : Cfg.cur.seedAcks = true := rfl

theorem pendVals_groups (tasks : List (Int × TId)) (t : TId) :
    pendVals (.deliver (groupByOwner tasks)) t = (ownedIds tasks t).map (fun i => (i, true)) := by
  simp only [pendVals, aget_groupByOwner]
  split
  · rename_i h; rw [h]; rfl
  · rfl

/-- transfer of `PairOK` along a `recv`: `received` grows by ids `≥` the old `lastHigh`, `lastHigh` grows -/
theorem PairOK.of_recv {s : SId} {t : TId} {x : Source} {tg : Target} (h : PairOK s t x tg) {x' : Source}
    (hle : x.lastHigh ≤ x'.lastHigh)
    (hrecv : ∀ id, (id, t) ∈ x'.received → (id, t) ∈ x.received ∨
      (x.lastHigh ≤ id ∧ (id, true) ∈ flat s t x' tg))
    (hsub : ∀ y, y ∈ flat s t x tg → y ∈ flat s t x' tg)
    (hsorted : (flat s t x' tg).Pairwise FlatRel)
    (hfle : ∀ y ∈ flat s t x' tg, y.1 ≤ x'.lastHigh)
    (h7 : x'.ackChan = x.ackChan) (h9 : x'.lastSentAck = x.lastSentAck)
    (hlast : ∀ a, x.lastSentAck = some a → a ≤ x.lastHigh)
    (habt : ∀ v, (t, v) ∈ x'.ackByTarget → (t, v) ∈ x.ackByTarget ∨
      (SafeV s t x' tg v ∧ v ≤ x'.lastHigh)) : PairOK s t x' tg := by
  have hsafe : ∀ v, SafeV s t x tg v → v ≤ x.lastHigh → SafeV s t x' tg v := by
    intro v hv hvl id hr hlt
    rcases hrecv id hr with hr | ⟨hr, _⟩
    · exact hv id hr hlt
    · omega
  refine ⟨?_, hsorted, hfle, ?_, ?_, ?_, ?_, ?_, ?_, ?_⟩
  · intro id hr
    rcases hrecv id hr with hr | ⟨_, hr⟩
    · rcases h.cover id hr with hc | hc
      · exact Or.inl hc
      · exact Or.inr (hsub _ hc)
    · exact Or.inr hr
  · intro p o hm id hr hlt
    rcases hrecv id hr with hr | ⟨hr, _⟩
    · exact h.ring_ok p o hm id hr hlt
    · have := h.ring_le p o hm; omega
  · intro p o hm; have := h.ring_le p o hm; omega
  · intro todo d r e v hv
    have := h.todo_safe todo d r e v hv
    exact ⟨hsafe v this.1 this.2, by omega⟩
  · intro v hv
    have := h.prev_safe v hv
    exact ⟨hsafe v this.1 this.2, by omega⟩
  · rw [h7]; intro v hv
    have := h.chan_safe v hv
    exact ⟨hsafe v this.1 this.2, by omega⟩
  · intro v hv
    rcases habt v hv with hv | hv
    · have := h.abt_safe v hv
      exact ⟨hsafe v this.1 this.2, by omega⟩
    · exact hv
  · rw [h9]; intro a ha
    exact hsafe a (h.last_safe a ha) (hlast a ha)

theorem step_inv_recv {σ σ' : State} (hI : Inv σ) (s : SId) (tasks : List (Int × TId)) (high : Int)
    (hok : RecvOK σ.targets.length (σ.src s) tasks high)
    (h : step Cfg.cur σ (.recv s tasks high) = some σ') : Inv σ' := by
  obtain ⟨hinc, htasks, _, hhigh⟩ := hok
  simp only [step] at h
  split at h
  · cases h
  · rename_i hg
    simp only [Bool.or_eq_true, Bool.not_eq_true', not_or, Bool.not_eq_false, bne_iff_ne, ne_eq,
      Decidable.not_not] at hg
    obtain ⟨hact, hidle⟩ := hg
    have hS := hI.src s
    split at h
    · rename_i hemp
      have htn : tasks = [] := by cases tasks with | nil => rfl | cons _ _ => simp at hemp
      subst htn
      simp only [Option.some.injEq] at h
      subst h
      apply inv_setSrc hI
      · refine ⟨?_, ?_, ?_, ?_, ?_, ?_, hS.grave⟩
        · intro e; exact absurd (show (σ.src s).active = false from e) (by simp [hact])
        · intro h' e; cases e; exact Int.le_refl _
        · intro h' e t y hy
          simp only [pendVals_ite_bcast] at hy; cases hy
        · intro high' todo' e
          simp only at e
          split at e
          · cases e
          · cases e; exact Int.le_refl _
        · intro a ha; have := hS.last_le a ha; exact Int.le_trans this hhigh
        · intro id t hr
          exact hS.seeded id t (by simpa using hr)
      · intro t
        have hfe : ∀ x' : Source, pendVals x'.pc t = [] → flat s t x' (σ.tgt t) = flat s t (σ.src s) (σ.tgt t) := by
          intro x' hp
          simp only [flat, hp, hidle, pendVals_idle]
        refine (hI.pair s t).of_recv hhigh ?_ ?_ ?_ ?_ rfl rfl hS.last_le ?_
        · intro id hr; left; simpa using hr
        · intro y hy; rw [hfe _ (pendVals_ite_bcast _ _ _)]; exact hy
        · rw [hfe _ (pendVals_ite_bcast _ _ _)]; exact (hI.pair s t).sorted
        · intro y hy; rw [hfe _ (pendVals_ite_bcast _ _ _)] at hy
          have := (hI.pair s t).flat_le y hy
          exact Int.le_trans this hhigh
        · intro v hv; exact Or.inl hv
    · rename_i hemp
      simp only [cur_seedAcks, if_true, Option.some.injEq] at h
      subst h
      have hown : ∀ t id, id ∈ ownedIds tasks t → (σ.src s).lastHigh ≤ id ∧ id < high := by
        intro t id hid
        have := htasks (id, t) (mem_ownedIds.1 hid)
        exact ⟨this.2.1, this.2.2.1⟩
      apply inv_setSrc hI
      · refine ⟨?_, ?_, ?_, ?_, ?_, ?_, hS.grave⟩
        · intro e; exact absurd (show (σ.src s).active = false from e) (by simp [hact])
        · intro h' e; have := hS.wm_le h' e; exact Int.le_trans this hhigh
        · intro h' e t y hy
          have hy : y ∈ pendVals (.deliver (groupByOwner tasks)) t := hy
          rw [pendVals_groups, List.mem_map] at hy
          obtain ⟨id, hid, e'⟩ := hy
          subst e'
          have := hS.wm_le h' e
          have := (hown t id hid).1
          show h' ≤ id
          omega
        · intro high' todo' e; cases e
        · intro a ha; have := hS.last_le a ha; exact Int.le_trans this hhigh
        · intro id t hr
          show (aget (seed (σ.src s).ackByTarget (groupByOwner tasks)) t).isSome = true
          rw [aget_seed]
          cases hag : aget (σ.src s).ackByTarget t with
          | some v => rfl
          | none =>
            simp only
            have hr : (id, t) ∈ (σ.src s).received ++ tasks := hr
            rcases List.mem_append.1 hr with hr | hr
            · have := hS.seeded id t hr; rw [hag] at this; cases this
            · rw [aget_groupByOwner]
              have : ownedIds tasks t ≠ [] := by
                intro e; have := mem_ownedIds.2 hr; rw [e] at this; cases this
              simp [this]
      · intro t
        have hfn : ∀ x' : Source, x'.pc = .deliver (groupByOwner tasks) → flat s t x' (σ.tgt t) =
            chanVals s (σ.tgt t).sendChan ++ (ownedIds tasks t).map (fun i => (i, true)) := by
          intro x' e; simp only [flat, e, pendVals_groups]
        have hfo : flat s t (σ.src s) (σ.tgt t) = chanVals s (σ.tgt t).sendChan := by
          simp only [flat, hidle, pendVals_idle, List.append_nil]
        have hp := hI.pair s t
        refine hp.of_recv hhigh ?_ ?_ ?_ ?_ rfl rfl hS.last_le ?_
        · intro id hr
          have hr : (id, t) ∈ (σ.src s).received ++ tasks := hr
          rcases List.mem_append.1 hr with hr | hr
          · exact Or.inl hr
          · right
            refine ⟨(htasks _ hr).2.1, ?_⟩
            rw [hfn _ rfl]; apply List.mem_append_right
            rw [List.mem_map]; exact ⟨id, mem_ownedIds.2 hr, rfl⟩
        · intro y hy; rw [hfn _ rfl]; rw [hfo] at hy; exact List.mem_append_left _ hy
        · rw [hfn _ rfl, List.pairwise_append]
          refine ⟨?_, ?_, ?_⟩
          · have := hp.sorted; rw [hfo] at this; exact this
          · rw [List.pairwise_map]
            exact (ownedIds_pairwise hinc t).imp (fun {a b} hab _ => by show a ≤ b; omega)
          · intro a ha b hb _
            rw [List.mem_map] at hb
            obtain ⟨id, hid, e⟩ := hb
            subst e
            have := hp.flat_le a (by rw [hfo]; exact ha)
            have := (hown t id hid).1
            show a.1 ≤ id
            omega
        · intro y hy
          rw [hfn _ rfl] at hy
          show y.1 ≤ high
          rcases List.mem_append.1 hy with hy | hy
          · have := hp.flat_le y (by rw [hfo]; exact hy); omega
          · rw [List.mem_map] at hy
            obtain ⟨id, hid, e⟩ := hy
            subst e
            have := (hown t id hid).2
            show id ≤ high
            omega
        · intro v hv
          have hv : (t, v) ∈ seed (σ.src s).ackByTarget (groupByOwner tasks) := hv
          rcases mem_seed hv with hv | ⟨hnone, ids, hids, hvd⟩
          · exact Or.inl hv
          · right
            rw [aget_groupByOwner] at hids
            split at hids
            · cases hids
            · rename_i hne
              simp only [Option.some.injEq] at hids
              subst hids
              have hvmem : v ∈ ownedIds tasks t := by
                rw [hvd]
                cases ho : ownedIds tasks t with
                | nil => exact absurd ho hne
                | cons a r => simp
              refine ⟨?_, ?_⟩
              · intro id hr hlt
                have hr : (id, t) ∈ (σ.src s).received ++ tasks := hr
                rcases List.mem_append.1 hr with hr | hr
                · have := hS.seeded id t hr; rw [hnone] at this; cases this
                · have := ownedIds_head_le hinc t (mem_ownedIds.2 hr)
                  rw [← hvd] at this; omega
              · have := (hown t v hvmem).2
                show v ≤ high
                omega

end S2S.Routing
