import S2S.Proofs.RoutingAcksFBase
/-!
C03's safety half WITH faults, part 2: the history invariant `AF.Hist` of one source stream, relative to the two ghosts
(`M` = `Ghost.maxHighOf s`, `b` = `AckGhost.baseOf s`), and its preservation by every step.

What is TRUE of the current tree (and what is not, see `S2S/Props/C03F.lean`):

* every acknowledgement ever sent on `s` is `≤ M`;
* the acknowledgements of the CURRENT incarnation are the concatenation of two non-decreasing segments `pre ++ post`:
  a restarted incarnation has `lastHigh = 0` until its first batch, during which `sendAck` does not clamp, so stale
  values of the previous incarnation (target `prevAck` fall-backs, ring entries) go upstream; once a batch arrived with a
  lower `lastHigh`, the next acknowledgement that passes the guard `≥ lastSentMin` is clamped DOWN to `lastHigh` — the
  one descent.  After it `lastSentMin ≤ lastHigh` holds for the rest of the incarnation (`RecvOK`: `lastHigh` only grows
  within an incarnation), so there is no second descent, and `post` is bounded by `lastHigh`;
* the FIRST incarnation (`inc ≤ 1`) has no descent: there `lastHigh = M`, and `InvF` bounds every value that can reach
  `sendAck` by `M`.
-/
namespace S2S.Routing

structure AF.Hist (M : Int) (x : Source) (b : Nat) : Prop where
  base_le : b ≤ x.acksSent.length
  all_le : ∀ v ∈ x.acksSent, v ≤ M
  split : ∃ pre post, x.acksSent.drop b = pre ++ post ∧ pre.Pairwise (· ≤ ·) ∧ post.Pairwise (· ≤ ·) ∧
    (x.active = true → (∀ v ∈ post, v ≤ x.lastSentMin) ∧ (pre ≠ [] → x.lastSentMin ≤ x.lastHigh ∧ 0 < x.lastHigh)) ∧
    (x.inc ≤ 1 → pre = [])
  lsa : ∀ a, x.lastSentAck = some a → a = x.lastSentMin
  first : x.inc ≤ 1 → b = 0 ∧ (x.active = true → x.lastHigh = M ∧ x.lastSentMin ≤ x.lastHigh)
  zero : x.inc = 0 → x.active = false ∧ M = 0 ∧ x.acksSent = []

theorem AF.hist_default : AF.Hist 0 {} 0 := by
  refine ⟨Nat.le_refl _, fun _ h => (by cases h), ⟨[], [], rfl, List.Pairwise.nil, List.Pairwise.nil, ?_, fun _ => rfl⟩,
    fun _ h => (by cases h), fun _ => ⟨rfl, fun h => (by cases h)⟩, fun _ => ⟨rfl, rfl, rfl⟩⟩
  intro h; cases h

theorem AF.Hist.quiet {M : Int} {x x' : Source} {b : Nat} (h : AF.Hist M x b) (q : AF.Quiet x x') : AF.Hist M x' b := by
  obtain ⟨e1, e2, e3, e4, e5, e6⟩ := q
  obtain ⟨h1, h2, h3, h4, h5, h6⟩ := h
  constructor
  · rw [e1]; exact h1
  · rw [e1]; exact h2
  · rw [e1, e2, e3, e5, e6]; exact h3
  · rw [e3, e4]; exact h4
  · rw [e2, e3, e5, e6]; exact h5
  · rw [e1, e5, e6]; exact h6

theorem AF.Hist.recv {M : Int} {x x' : Source} {b : Nat} {high : Int} (h : AF.Hist M x b)
    (r : AF.RecvRel high x x') (hok : x.lastHigh ≤ high) :
    AF.Hist (if high > M then high else M) x' b := by
  obtain ⟨hact, e1, e2, e3, e4, e5, e6⟩ := r
  obtain ⟨h1, h2, ⟨pre, post, hs1, hs2, hs3, hs4, hs5⟩, h4, h5, h6⟩ := h
  have hM : M ≤ (if high > M then high else M) := by split <;> omega
  constructor
  · rw [e1]; exact h1
  · rw [e1]; intro v hv; exact Int.le_trans (h2 v hv) hM
  · refine ⟨pre, post, by rw [e1]; exact hs1, hs2, hs3, ?_, by rw [e6]; exact hs5⟩
    intro _
    obtain ⟨g1, g2⟩ := hs4 hact
    rw [e3, e2]
    refine ⟨g1, fun hp => ?_⟩
    have := g2 hp
    omega
  · rw [e3, e4]; exact h4
  · rw [e6, e5, e2, e3]
    intro hi
    refine ⟨(h5 hi).1, fun _ => ?_⟩
    obtain ⟨g1, g2⟩ := (h5 hi).2 hact
    subst g1
    constructor
    · split <;> omega
    · omega
  · rw [e6]; intro hi; rw [(h6 hi).1] at hact; cases hact

/-- an acknowledgement `m` is appended to the current segment `post` -/
theorem AF.drop_append_singleton {l : List Int} {b : Nat} (h : b ≤ l.length) (m : Int) :
    (l ++ [m]).drop b = l.drop b ++ [m] := List.drop_append_of_le_length h

theorem AF.pairwise_snoc {l : List Int} {m : Int} (h : l.Pairwise (· ≤ ·)) (hm : ∀ v ∈ l, v ≤ m) :
    (l ++ [m]).Pairwise (· ≤ ·) := by
  rw [List.pairwise_append]
  exact ⟨h, List.pairwise_singleton _ _, fun u hu w hw => by rw [List.mem_singleton.1 hw]; exact hm u hu⟩

theorem AF.Hist.rack {M : Int} {x x' : Source} {b : Nat} (h : AF.Hist M x b) (r : AF.RackRel x x')
    (hl : ∀ a, x'.lastSentAck = some a → a ≤ M) : AF.Hist M x' b := by
  obtain ⟨m, ⟨hact, e1, e2, e5, e6⟩, e3, e4, hm⟩ := r
  obtain ⟨h1, h2, ⟨pre, post, hs1, hs2, hs3, hs4, hs5⟩, h4, h5, h6⟩ := h
  have hmM : m ≤ M := hl m e4
  obtain ⟨g1, g2⟩ := hs4 hact
  constructor
  · rw [e1, List.length_append]; omega
  · rw [e1]; intro v hv
    rcases List.mem_append.1 hv with hv | hv
    · exact h2 v hv
    · rw [List.mem_singleton.1 hv]; exact hmM
  · rw [e1, AF.drop_append_singleton h1, hs1, e5, e6, e3, e2]
    by_cases hge : x.lastSentMin ≤ m
    · -- the new acknowledgement continues the current segment
      refine ⟨pre, post ++ [m], by rw [List.append_assoc], hs2,
        AF.pairwise_snoc hs3 (fun v hv => Int.le_trans (g1 v hv) hge), fun _ => ⟨?_, fun hp => ?_⟩, hs5⟩
      · intro v hv
        rcases List.mem_append.1 hv with hv | hv
        · exact Int.le_trans (g1 v hv) hge
        · rw [List.mem_singleton.1 hv]; exact Int.le_refl _
      · obtain ⟨k1, k2⟩ := g2 hp
        refine ⟨?_, k2⟩
        rcases hm with ⟨_, hm⟩ | ⟨hm, _⟩
        · exact hm k2
        · rw [hm]; exact Int.le_refl _
    · -- the one descent: clamped to `lastHigh`, below `lastSentMin`
      have hcl : m = x.lastHigh ∧ 0 < x.lastHigh := by
        rcases hm with ⟨hm, _⟩ | hm
        · exact absurd hm hge
        · exact hm
      have hpre : pre = [] := by
        apply Classical.byContradiction; intro hp
        have := (g2 hp).1
        omega
      have hinc : ¬ x.inc ≤ 1 := by
        intro hi
        have := ((h5 hi).2 hact).2
        omega
      subst hpre
      refine ⟨post, [m], by simp, hs3, List.pairwise_singleton _ _, fun _ => ⟨?_, fun _ => ?_⟩, fun hi => absurd hi hinc⟩
      · intro v hv; rw [List.mem_singleton.1 hv]; exact Int.le_refl _
      · omega
  · rw [e3, e4]; intro a ha; cases ha; rfl
  · rw [e6, e5, e2, e3]
    intro hi
    refine ⟨(h5 hi).1, fun _ => ?_⟩
    obtain ⟨k1, k2⟩ := (h5 hi).2 hact
    exact ⟨k1, by omega⟩
  · rw [e6]; intro hi; rw [(h6 hi).1] at hact; cases hact

theorem AF.Hist.tick {M : Int} {x x' : Source} {b : Nat} (h : AF.Hist M x b) (r : AF.TickRel x x')
    (hl : ∀ a, x'.lastSentAck = some a → a ≤ M) : AF.Hist M x' b := by
  obtain ⟨m, hlsa, ⟨hact, e1, e2, e5, e6⟩, e3, e4⟩ := r
  obtain ⟨h1, h2, ⟨pre, post, hs1, hs2, hs3, hs4, hs5⟩, h4, h5, h6⟩ := h
  have hmM : m ≤ M := hl m (by rw [e4]; exact hlsa)
  have hm : m = x.lastSentMin := h4 m hlsa
  obtain ⟨g1, g2⟩ := hs4 hact
  constructor
  · rw [e1, List.length_append]; omega
  · rw [e1]; intro v hv
    rcases List.mem_append.1 hv with hv | hv
    · exact h2 v hv
    · rw [List.mem_singleton.1 hv]; exact hmM
  · rw [e1, AF.drop_append_singleton h1, hs1, e5, e6, e3, e2]
    refine ⟨pre, post ++ [m], by rw [List.append_assoc], hs2,
      AF.pairwise_snoc hs3 (fun v hv => by rw [hm]; exact g1 v hv), fun _ => ⟨?_, g2⟩, hs5⟩
    intro v hv
    rcases List.mem_append.1 hv with hv | hv
    · exact g1 v hv
    · rw [List.mem_singleton.1 hv, hm]; exact Int.le_refl _
  · rw [e3, e4]; exact h4
  · rw [e6, e5, e2, e3]; exact h5
  · rw [e6]; intro hi; rw [(h6 hi).1] at hact; cases hact

theorem AF.Hist.open {M : Int} {x x' : Source} {b : Nat} (h : AF.Hist M x b) (r : AF.OpenRel x x') :
    AF.Hist M x' x.acksSent.length := by
  obtain ⟨hact, e1, e2, e3, e4, e5, e6⟩ := r
  obtain ⟨h1, h2, _, h4, h5, h6⟩ := h
  constructor
  · rw [e1]; exact Nat.le_refl _
  · rw [e1]; exact h2
  · refine ⟨[], [], by rw [e1, List.drop_length]; rfl, List.Pairwise.nil, List.Pairwise.nil, fun _ => ⟨?_, ?_⟩, fun _ => rfl⟩
    · intro v hv; cases hv
    · intro hp; exact absurd rfl hp
  · rw [e4]; intro a ha; cases ha
  · rw [e6, e2, e3]
    intro hi
    have hz : x.inc = 0 := by omega
    obtain ⟨_, k2, k3⟩ := h6 hz
    rw [k3]
    exact ⟨rfl, fun _ => ⟨k2.symm, Int.le_refl _⟩⟩
  · rw [e6]; intro hi; omega

theorem AF.Hist.break {M : Int} {x x' : Source} {b : Nat} (h : AF.Hist M x b) (r : AF.BreakRel x x') :
    AF.Hist M x' b := by
  obtain ⟨hact, e1, e2, e3, e4, e5, e6⟩ := r
  obtain ⟨h1, h2, ⟨pre, post, hs1, hs2, hs3, _, hs5⟩, h4, h5, h6⟩ := h
  constructor
  · rw [e1]; exact h1
  · rw [e1]; exact h2
  · refine ⟨pre, post, by rw [e1]; exact hs1, hs2, hs3, ?_, by rw [e6]; exact hs5⟩
    rw [e5]; intro hc; cases hc
  · rw [e4]; intro a ha; cases ha
  · rw [e6, e5]; intro hi
    exact ⟨(h5 hi).1, fun hc => by cases hc⟩
  · rw [e6]; intro hi; rw [(h6 hi).1] at hact; cases hact

/-! ### states -/

/-- the history invariant of a state, relative to the two ghosts -/
def AF.HInv (σ : State) (γ : Ghost) (α : AckGhost) : Prop :=
  ∀ s, AF.Hist (γ.maxHighOf s) (σ.src s) (α.baseOf s)

theorem AF.hinv_init (ns nt : Nat) : AF.HInv (State.init ns nt) {} {} := by
  intro s; rw [src_init]; exact AF.hist_default

/-- the environment hypothesis of one step, as `EnvOKF` threads it -/
def AF.StepEnv (σ : State) (γ : Ghost) (a : Act) : Prop :=
  match a with
  | .recv s tasks high => RecvOK σ.targets.length (σ.src s) tasks high ∧ RecvFresh σ γ s tasks
  | _ => True

/-- **`AF.HInv` is preserved by every step** (faults included); `InvF` of the post-state bounds the value just sent -/
theorem AF.step_hinv {σ σ' : State} {γ : Ghost} {α : AckGhost} {a : Act} (hH : AF.HInv σ γ α)
    (hI' : InvF σ' (γ.upd σ a)) (henv : AF.StepEnv σ γ a) (h : step Cfg.cur σ a = some σ') :
    AF.HInv σ' (γ.upd σ a) (α.upd σ a) := by
  intro s
  have R := AF.step_src h s
  have H := hH s
  have hl := (hI'.src s).last_le
  cases a with
  | recv s0 tasks high =>
    simp only [AF.SrcRel] at R
    rw [AF.maxHighOf_upd_recv]
    show AF.Hist _ _ (α.baseOf s)
    by_cases e : s = s0
    · subst e
      simp only [if_true] at R ⊢
      exact H.recv R henv.1.2.2.2
    · simp only [e, if_false] at R ⊢
      exact H.quiet R
  | rack s0 =>
    simp only [AF.SrcRel] at R
    show AF.Hist (γ.maxHighOf s) _ (α.baseOf s)
    by_cases e : s = s0
    · simp only [e, if_true] at R
      rcases R with R | R
      · exact H.quiet (e ▸ R)
      · exact H.rack (e ▸ R) hl
    · simp only [e, if_false] at R
      exact H.quiet R
  | tick =>
    simp only [AF.SrcRel] at R
    show AF.Hist (γ.maxHighOf s) _ (α.baseOf s)
    rcases R with R | R
    · exact H.quiet R
    · exact H.tick R hl
  | openSrc s0 =>
    simp only [AF.SrcRel] at R
    rw [AF.baseOf_upd_open]
    show AF.Hist (γ.maxHighOf s) _ _
    by_cases e : s = s0
    · subst e
      simp only [if_true] at R ⊢
      exact H.open R
    · simp only [e, if_false] at R ⊢
      exact H.quiet R
  | breakSrc s0 =>
    simp only [AF.SrcRel] at R
    show AF.Hist (γ.maxHighOf s) _ (α.baseOf s)
    by_cases e : s = s0
    · subst e
      simp only [if_true] at R
      exact H.break R
    · simp only [e, if_false] at R
      exact H.quiet R
  | bcastStep _ _ => exact H.quiet R
  | deliver _ _ => exact H.quiet R
  | take _ => exact H.quiet R
  | emit _ => exact H.quiet R
  | tack _ _ => exact H.quiet R
  | ackFwd _ _ => exact H.quiet R
  | ackFin _ => exact H.quiet R
  | openTgt _ => exact H.quiet R
  | startTgt _ => exact H.quiet R
  | replayStep _ _ => exact H.quiet R
  | replayDone _ => exact H.quiet R
  | breakTgt _ => exact H.quiet R

/-! ### a source stream that is never broken stays in its first incarnation -/

/-- never active so far (`inc = 0`) or in its first incarnation -/
def AF.FirstInc (x : Source) : Prop := x.inc ≤ 1 ∧ (x.active = false → x.inc = 0)

theorem AF.step_firstInc {c : Cfg} {σ σ' : State} {a : Act} {s : SId} (h : step c σ a = some σ')
    (hF : AF.FirstInc (σ.src s)) (hnb : a ≠ .breakSrc s) : AF.FirstInc (σ'.src s) := by
  have R := AF.step_src h s
  have hq : ∀ {x x' : Source}, AF.FirstInc x → AF.Quiet x x' → AF.FirstInc x' := by
    intro x x' hx q
    unfold AF.FirstInc
    rw [q.inc, q.active]; exact hx
  have hsend : ∀ {m : Int} {x x' : Source}, AF.FirstInc x → AF.SendRel m x x' → AF.FirstInc x' := by
    intro m x x' hx r
    unfold AF.FirstInc
    rw [r.2.2.2.2, r.2.2.2.1]; exact hx
  cases a with
  | recv s0 tasks high =>
    simp only [AF.SrcRel] at R
    by_cases e : s = s0
    · subst e
      simp only [if_true] at R
      obtain ⟨_, _, _, _, _, e5, e6⟩ := R
      unfold AF.FirstInc
      rw [e6, e5]; exact hF
    · simp only [e, if_false] at R
      exact hq hF R
  | rack s0 =>
    simp only [AF.SrcRel] at R
    by_cases e : s = s0
    · subst e
      simp only [if_true] at R
      rcases R with R | ⟨m, R, _⟩
      · exact hq hF R
      · exact hsend hF R
    · simp only [e, if_false] at R
      exact hq hF R
  | tick =>
    simp only [AF.SrcRel] at R
    rcases R with R | ⟨m, _, R, _⟩
    · exact hq hF R
    · exact hsend hF R
  | openSrc s0 =>
    simp only [AF.SrcRel] at R
    by_cases e : s = s0
    · subst e
      simp only [if_true] at R
      obtain ⟨hact, _, _, _, _, e5, e6⟩ := R
      have hz : (σ.src s).inc = 0 := hF.2 hact
      unfold AF.FirstInc
      rw [e6, e5, hz]
      exact ⟨Nat.le_refl _, fun hc => by cases hc⟩
    · simp only [e, if_false] at R
      exact hq hF R
  | breakSrc s0 =>
    simp only [AF.SrcRel] at R
    by_cases e : s = s0
    · exact absurd (e ▸ rfl) hnb
    · simp only [e, if_false] at R
      exact hq hF R
  | bcastStep _ _ => exact hq hF R
  | deliver _ _ => exact hq hF R
  | take _ => exact hq hF R
  | emit _ => exact hq hF R
  | tack _ _ => exact hq hF R
  | ackFwd _ _ => exact hq hF R
  | ackFin _ => exact hq hF R
  | openTgt _ => exact hq hF R
  | startTgt _ => exact hq hF R
  | replayStep _ _ => exact hq hF R
  | replayDone _ => exact hq hF R
  | breakTgt _ => exact hq hF R

end S2S.Routing
