import S2S.Proofs.RoutingC03Frame
/-! Second invariant (structural facts needed for the liveness half of C03). -/
namespace S2S.Routing

/-! ### more assoc-list lemmas -/

theorem keys_aset {α} (l : List (Nat × α)) (k : Nat) (v : α) :
    (aset l k v).map (·.1) = if k ∈ l.map (·.1) then l.map (·.1) else l.map (·.1) ++ [k] := by
  induction l with
  | nil => simp [aset]
  | cons a r ih =>
    obtain ⟨k', v'⟩ := a
    simp only [aset]
    split
    · rename_i hk
      have hk' : k' = k := by simpa using hk
      simp [hk']
    · rename_i hk
      have hk' : ¬ k' = k := by simpa using hk
      have hk'' : ¬ k = k' := fun e => hk' e.symm
      simp only [List.map_cons, ih, List.mem_cons, hk'', false_or]
      split <;> simp

theorem nodup_keys_aset {α} {l : List (Nat × α)} (k : Nat) (v : α) (h : (l.map (·.1)).Nodup) :
    ((aset l k v).map (·.1)).Nodup := by
  rw [keys_aset]; split
  · exact h
  · rename_i hk
    rw [List.nodup_append]
    refine ⟨h, by simp, ?_⟩
    intro a ha b hb
    simp at hb; subst hb
    intro e; subst e; exact hk ha

theorem aset_ne_nil {α} (l : List (Nat × α)) (k : Nat) (v : α) : aset l k v ≠ [] := by
  cases l with
  | nil => simp [aset]
  | cons a r => simp only [aset]; split <;> simp

theorem nodup_keys_seed {m : List (TId × Int)} (groups : List (TId × List Int)) (h : (m.map (·.1)).Nodup) :
    ((seed m groups).map (·.1)).Nodup := by
  induction groups generalizing m with
  | nil => exact h
  | cons g rest ih =>
    obtain ⟨t, ids⟩ := g
    simp only [seed]
    apply ih
    split
    · exact h
    · exact nodup_keys_aset _ _ h

theorem groupByOwner_ids_ne_nil {tasks : List (Int × TId)} {t : TId} {ids : List Int}
    (h : (t, ids) ∈ groupByOwner tasks) : ids ≠ [] := by
  induction tasks generalizing t ids with
  | nil => simp [groupByOwner] at h
  | cons a rest ih =>
    obtain ⟨id0, t0⟩ := a
    simp only [groupByOwner] at h
    split at h
    · rcases mem_aset h with h | h
      · exact ih h
      · cases h; simp
    · rcases List.mem_cons.1 h with h | h
      · cases h; simp
      · exact ih h

theorem groupByOwner_ne_nil {tasks : List (Int × TId)} (h : tasks ≠ []) : groupByOwner tasks ≠ [] := by
  cases tasks with
  | nil => exact absurd rfl h
  | cons a rest =>
    obtain ⟨id0, t0⟩ := a
    simp only [groupByOwner]
    split
    · exact aset_ne_nil _ _ _
    · simp

theorem groupByOwner_key {tasks : List (Int × TId)} {t : TId} {ids : List Int}
    (h : (t, ids) ∈ groupByOwner tasks) : ∃ id, (id, t) ∈ tasks := by
  have hne := groupByOwner_ids_ne_nil h
  cases ids with
  | nil => exact absurd rfl hne
  | cons a r => exact ⟨a, mem_groupByOwner h a List.mem_cons_self⟩

/-! ### the invariant -/

def PcOK2 (nt : Nat) : RecvPc → Prop
  | .idle => True
  | .bcast _ todo => todo ≠ []
  | .deliver pending => pending ≠ [] ∧ ∀ p ∈ pending, p.1 < nt

structure SrcOK2 (nt : Nat) (x : Source) : Prop where
  pc2 : PcOK2 nt x.pc
  abtk : ∀ p ∈ x.ackByTarget, p.1 < nt
  abtnd : (x.ackByTarget.map (·.1)).Nodup
  achk : ∀ p ∈ x.ackChan, p.1 < nt

def AckPcAct (act : SId → Prop) : AckPc → Prop
  | .idle => True
  | .forwarding todo _ _ => ∀ p ∈ todo, act p.1

structure TgtOK2 (act : SId → Prop) (tg : Target) : Prop where
  reg : tg.started = true ∨ tg.replayTodo.isSome = true → tg.registered = true
  ringle : ∀ e ∈ tg.ring, e.1 ≤ tg.nextProxyId
  ringact : ∀ e ∈ tg.ring, act e.2.1
  chanact : ∀ m ∈ tg.sendChan, act m.src
  prevact : ∀ p ∈ tg.prevAck, act p.1
  apcact : AckPcAct act tg.ackPc

def State.act (σ : State) : SId → Prop := fun s => (σ.src s).active = true

structure J (nt : Nat) (σ : State) : Prop where
  len : σ.targets.length = nt
  srcs : ∀ s, SrcOK2 nt (σ.src s)
  tgts : ∀ t, TgtOK2 σ.act (σ.tgt t)

theorem AckPcAct.mono {act act' : SId → Prop} (h : ∀ s, act s → act' s) {a : AckPc} (ha : AckPcAct act a) :
    AckPcAct act' a := by
  cases a with
  | idle => trivial
  | forwarding todo d r => exact fun p hp => h _ (ha p hp)

theorem TgtOK2.mono {act act' : SId → Prop} (h : ∀ s, act s → act' s) {tg : Target} (ht : TgtOK2 act tg) :
    TgtOK2 act' tg :=
  ⟨ht.reg, ht.ringle, fun e he => h _ (ht.ringact e he), fun m hm => h _ (ht.chanact m hm),
   fun p hp => h _ (ht.prevact p hp), ht.apcact.mono h⟩

theorem SrcOK2.default (nt : Nat) : SrcOK2 nt {} := by
  refine ⟨trivial, ?_, ?_, ?_⟩ <;> simp

theorem TgtOK2.default (act : SId → Prop) : TgtOK2 act {} := by
  refine ⟨?_, ?_, ?_, ?_, ?_, trivial⟩ <;> simp

theorem J.init (ns nt : Nat) : J nt (State.init ns nt) :=
  ⟨by simp [State.init], fun s => by rw [src_init]; exact SrcOK2.default nt,
   fun t => by rw [tgt_init]; exact TgtOK2.default _⟩

theorem J.setSrc {nt : Nat} {σ : State} (hJ : J nt σ) {s : SId} {x : Source} (hx : SrcOK2 nt x)
    (ha : (σ.src s).active = true → x.active = true) : J nt (σ.setSrc s x) := by
  refine ⟨hJ.len, fun s0 => ?_, fun t => ?_⟩
  · rw [src_setSrc]; split
    · exact hx
    · exact hJ.srcs s0
  · rw [tgt_setSrc]
    refine (hJ.tgts t).mono fun s0 h0 => ?_
    show ((σ.setSrc s x).src s0).active = true
    rw [src_setSrc]; split
    · rename_i h; rw [h.1] at h0; exact ha h0
    · exact h0

theorem act_setSrc {σ : State} {s : SId} {x : Source} (ha : x.active = (σ.src s).active) :
    (σ.setSrc s x).act = σ.act := by
  funext s0
  show (((σ.setSrc s x).src s0).active = true) = ((σ.src s0).active = true)
  rw [src_setSrc]; split
  · rename_i h; rw [h.1, ha]
  · rfl

theorem J.setTgt {nt : Nat} {σ : State} (hJ : J nt σ) {t : TId} {y : Target} (hy : TgtOK2 σ.act y) :
    J nt (σ.setTgt t y) := by
  refine ⟨by rw [targets_length_setTgt]; exact hJ.len, fun s0 => hJ.srcs s0, fun t0 => ?_⟩
  show TgtOK2 σ.act _
  rw [tgt_setTgt]; split
  · exact hy
  · exact hJ.tgts t0

theorem J.setSrcTgt {nt : Nat} {σ : State} (hJ : J nt σ) {s : SId} {x : Source} {t : TId} {y : Target}
    (hx : SrcOK2 nt x) (ha : x.active = (σ.src s).active) (hy : TgtOK2 σ.act y) :
    J nt ((σ.setSrc s x).setTgt t y) := by
  refine (hJ.setSrc hx (by rw [ha]; exact fun h => h)).setTgt ?_
  rw [act_setSrc ha]; exact hy

theorem J.setTgtSrc {nt : Nat} {σ : State} (hJ : J nt σ) {s : SId} {x : Source} {t : TId} {y : Target}
    (hy : TgtOK2 σ.act y) (hx : SrcOK2 nt x) (ha : (σ.src s).active = true → x.active = true) :
    J nt ((σ.setTgt t y).setSrc s x) := (hJ.setTgt hy).setSrc hx ha

/-- a source whose pc is not idle (or which differs from the default in any way) is active -/
theorem active_of_ne_default {x : Source} (hS : SrcOK x) (h : x ≠ {}) : x.active = true := by
  cases ha : x.active with
  | true => rfl
  | false => exact absurd (hS.inact ha) h

theorem pcOK2_filter_bcast {nt : Nat} (high : Int) (todo : List (TId × Nat)) (t : TId) :
    PcOK2 nt (if (todo.filter (fun p => p.1 != t)).isEmpty then .idle else .bcast high (todo.filter (fun p => p.1 != t))) := by
  split
  · trivial
  · rename_i h; intro e; rw [e] at h; exact h rfl

theorem pcOK2_filter_deliver {nt : Nat} {pending : List (TId × List Int)} (t : TId)
    (h : PcOK2 nt (.deliver pending)) :
    PcOK2 nt (if (pending.filter (fun p => p.1 != t)).isEmpty then .idle else .deliver (pending.filter (fun p => p.1 != t))) := by
  split
  · trivial
  · rename_i hne
    exact ⟨fun e => by rw [e] at hne; exact hne rfl, fun p hp => h.2 p (List.mem_filter.1 hp).1⟩

theorem step_recv_J {nt : Nat} {σ σ' : State} {s : SId} {tasks : List (Int × TId)} {high : Int}
    (hJ : J nt σ) (h : step Cfg.cur σ (.recv s tasks high) = some σ')
    (hr : RecvOK σ.targets.length (σ.src s) tasks high) : J nt σ' := by
  have hS := hJ.srcs s
  obtain ⟨_, htasks, _, _⟩ := hr
  rw [hJ.len] at htasks
  simp only [step] at h
  split at h
  · cases h
  · split at h
    · cases h
      refine hJ.setSrc ⟨?_, hS.abtk, hS.abtnd, hS.achk⟩ (fun h => h)
      show PcOK2 nt (if _ then _ else _)
      split
      · trivial
      · rename_i hne; intro e; rw [e] at hne; exact hne rfl
    · rename_i hne
      cases h
      refine hJ.setSrc ⟨?_, ?_, ?_, hS.achk⟩ (fun h => h)
      · refine ⟨groupByOwner_ne_nil (by intro e; rw [e] at hne; exact hne rfl), ?_⟩
        intro p hp
        obtain ⟨id, hid⟩ := groupByOwner_key (t := p.1) (ids := p.2) hp
        exact (htasks _ hid).2.2.2
      · intro p hp
        have hp : p ∈ seed (σ.src s).ackByTarget (groupByOwner tasks) := hp
        rcases mem_seed hp with hp | ⟨g, hg, hp⟩
        · exact hS.abtk p hp
        · subst hp
          obtain ⟨id, hid⟩ := groupByOwner_key (t := g.1) (ids := g.2) hg
          exact (htasks _ hid).2.2.2
      · exact nodup_keys_seed _ hS.abtnd

theorem step_bcastStep_J {nt : Nat} {σ σ' : State} {s : SId} {t : TId} (hI : Inv σ) (hJ : J nt σ)
    (h : step Cfg.cur σ (.bcastStep s t) = some σ') : J nt σ' := by
  have hS := hJ.srcs s
  have hT := hJ.tgts t
  simp only [step] at h
  split at h
  · rename_i high todo hpc
    have hact : (σ.src s).active = true := active_of_ne_default (hI.srcs s) (by intro e; rw [e] at hpc; cases hpc)
    have hx : SrcOK2 nt { (σ.src s) with pc := if (todo.filter (fun p => p.1 != t)).isEmpty then RecvPc.idle else .bcast high (todo.filter (fun p => p.1 != t)) } :=
      ⟨pcOK2_filter_bcast high todo t, hS.abtk, hS.abtnd, hS.achk⟩
    split at h
    · cases h
    · split at h
      · cases h
        refine hJ.setSrcTgt hx rfl ⟨hT.reg, hT.ringle, hT.ringact, ?_, hT.prevact, hT.apcact⟩
        intro m hm
        rcases List.mem_append.1 hm with hm | hm
        · exact hT.chanact m hm
        · simp at hm; subst hm; exact hact
      · cases h
        exact hJ.setSrc hx (fun h => h)
  · cases h

theorem step_deliver_J {nt : Nat} {σ σ' : State} {s : SId} {t : TId} (hI : Inv σ) (hJ : J nt σ)
    (h : step Cfg.cur σ (.deliver s t) = some σ') : J nt σ' := by
  have hS := hJ.srcs s
  have hT := hJ.tgts t
  simp only [step] at h
  split at h
  · rename_i pending hpc
    have hact : (σ.src s).active = true := active_of_ne_default (hI.srcs s) (by intro e; rw [e] at hpc; cases hpc)
    have hpc2 := hS.pc2
    rw [hpc] at hpc2
    have hx : SrcOK2 nt { (σ.src s) with pc := if (pending.filter (fun p => p.1 != t)).isEmpty then RecvPc.idle else .deliver (pending.filter (fun p => p.1 != t)) } :=
      ⟨pcOK2_filter_deliver t hpc2, hS.abtk, hS.abtnd, hS.achk⟩
    split at h
    · cases h
    · split at h
      · cases h
      · cases h
        refine hJ.setSrcTgt hx rfl ⟨hT.reg, hT.ringle, hT.ringact, ?_, hT.prevact, hT.apcact⟩
        intro m hm
        rcases List.mem_append.1 hm with hm | hm
        · exact hT.chanact m hm
        · simp at hm; subst hm; exact hact
  · cases h

theorem TgtOK2_process {act : SId → Prop} {tg : Target} {m : Msg} (hT : TgtOK2 act tg) (hm : act m.src) :
    TgtOK2 act (process tg m) := by
  cases m with
  | tasks s ids =>
    refine ⟨hT.reg, ?_, ?_, hT.chanact, hT.prevact, hT.apcact⟩
    · intro e he
      simp only [process] at he ⊢
      rcases List.mem_append.1 he with he | he
      · have := hT.ringle e he; omega
      · simp only [List.mem_map] at he
        obtain ⟨⟨o, p⟩, hop, rfl⟩ := he
        have hp := (List.of_mem_zip hop).2
        simp only [List.mem_map, List.mem_range] at hp
        obtain ⟨i, hi, rfl⟩ := hp
        show tg.nextProxyId + 1 + (i : Int) ≤ tg.nextProxyId + (ids.length : Int)
        omega
    · intro e he
      simp only [process] at he
      rcases List.mem_append.1 he with he | he
      · exact hT.ringact e he
      · simp only [List.mem_map] at he
        obtain ⟨⟨o, p⟩, hop, rfl⟩ := he
        exact hm
  | wm s h =>
    refine ⟨hT.reg, ?_, ?_, hT.chanact, hT.prevact, hT.apcact⟩
    · intro e he
      simp only [process] at he ⊢
      rcases List.mem_append.1 he with he | he
      · have := hT.ringle e he; omega
      · simp at he; subst he; exact Int.le_refl _
    · intro e he
      simp only [process] at he
      rcases List.mem_append.1 he with he | he
      · exact hT.ringact e he
      · simp at he; subst he; exact hm

theorem step_take_J {nt : Nat} {σ σ' : State} {t : TId} (hJ : J nt σ)
    (h : step Cfg.cur σ (.take t) = some σ') : J nt σ' := by
  have hT := hJ.tgts t
  simp only [step] at h
  split at h
  · cases h
  · split at h
    · cases h
    · rename_i m rest hch
      cases h
      refine hJ.setTgt ?_
      have hc := hT.chanact
      rw [hch] at hc
      exact TgtOK2_process ⟨hT.reg, hT.ringle, hT.ringact, fun m' hm' => hc m' (List.mem_cons_of_mem _ hm'), hT.prevact, hT.apcact⟩
        (hc m List.mem_cons_self)

theorem step_emit_J {nt : Nat} {σ σ' : State} {t : TId} (hJ : J nt σ)
    (h : step Cfg.cur σ (.emit t) = some σ') : J nt σ' := by
  have hT := hJ.tgts t
  simp only [step] at h
  split at h
  · cases h
  · cases h
    exact hJ.setTgt ⟨hT.reg, hT.ringle, hT.ringact, hT.chanact, hT.prevact, hT.apcact⟩

theorem step_tack_J {nt : Nat} {σ σ' : State} {t : TId} {w : Int} (hJ : J nt σ)
    (h : step Cfg.cur σ (.tack t w) = some σ') : J nt σ' := by
  have hT := hJ.tgts t
  simp only [step] at h
  split at h
  · cases h
  · split at h
    · cases h
      refine hJ.setTgt ⟨hT.reg, hT.ringle, hT.ringact, hT.chanact, hT.prevact, ?_⟩
      show AckPcAct _ (if _ then _ else _)
      split
      · trivial
      · exact hT.prevact
    · cases h
      refine hJ.setTgt ⟨hT.reg, hT.ringle, hT.ringact, hT.chanact, hT.prevact, ?_⟩
      intro p hp
      obtain ⟨e, he, rfl⟩ := mem_aggregate hp
      exact hT.ringact e he

theorem step_ackFwd_J {nt : Nat} {σ σ' : State} {t : TId} {s : SId} (hJ : J nt σ)
    (h : step Cfg.cur σ (.ackFwd t s) = some σ') : J nt σ' := by
  have hS := hJ.srcs s
  have hT := hJ.tgts t
  simp only [step] at h
  split at h
  · rename_i todo discard rec hpc
    have hapc := hT.apcact
    rw [hpc] at hapc
    have htlt : t < nt := by
      rw [← hJ.len]
      apply Nat.lt_of_not_le
      intro hge
      rw [tgt_of_ge σ t hge] at hpc
      cases hpc
    split at h
    · cases h
    · rename_i v hv
      have hsact : σ.act s := hapc _ (aget_mem hv)
      split at h
      · cases h
      · cases h
        refine hJ.setTgtSrc ⟨hT.reg, hT.ringle, hT.ringact, hT.chanact, ?_, ?_⟩ ⟨hS.pc2, hS.abtk, hS.abtnd, ?_⟩ (by exact fun h => h)
        · show ∀ p ∈ (if rec = true then aset (σ.tgt t).prevAck s v else (σ.tgt t).prevAck), σ.act p.1
          split
          · intro p hp
            rcases mem_aset hp with hp | hp
            · exact hT.prevact p hp
            · subst hp; exact hsact
          · exact hT.prevact
        · exact fun p hp => hapc p (List.mem_filter.1 hp).1
        · intro p hp
          rcases List.mem_append.1 hp with hp | hp
          · exact hS.achk p hp
          · simp at hp; subst hp; exact htlt
  · cases h

theorem step_ackFin_J {nt : Nat} {σ σ' : State} {t : TId} (hJ : J nt σ)
    (h : step Cfg.cur σ (.ackFin t) = some σ') : J nt σ' := by
  have hT := hJ.tgts t
  simp only [step] at h
  split at h
  · cases h
    exact hJ.setTgt ⟨hT.reg, fun e he => hT.ringle e (List.mem_of_mem_drop he),
      fun e he => hT.ringact e (List.mem_of_mem_drop he), hT.chanact, hT.prevact, trivial⟩
  · cases h

theorem step_rack_J {nt : Nat} {σ σ' : State} {s : SId} (hJ : J nt σ)
    (h : step Cfg.cur σ (.rack s) = some σ') : J nt σ' := by
  have hS := hJ.srcs s
  simp only [step] at h
  split at h
  · cases h
  · split at h
    · cases h
    · rename_i t v rest hch
      have hach := hS.achk
      rw [hch] at hach
      have habt : ∀ p ∈ aset (σ.src s).ackByTarget t v, p.1 < nt := by
        intro p hp
        rcases mem_aset hp with hp | hp
        · exact hS.abtk p hp
        · subst hp; exact hach _ List.mem_cons_self
      have hrest : ∀ p ∈ rest, p.1 < nt := fun p hp => hach p (List.mem_cons_of_mem _ hp)
      have hnd := nodup_keys_aset t v hS.abtnd
      split at h
      · cases h
        exact hJ.setSrc ⟨hS.pc2, habt, hnd, hrest⟩ (fun h => h)
      · split at h
        · cases h
          exact hJ.setSrc ⟨hS.pc2, habt, hnd, hrest⟩ (fun h => h)
        · cases h
          exact hJ.setSrc ⟨hS.pc2, habt, hnd, hrest⟩ (fun h => h)

theorem step_openSrc_J {nt : Nat} {σ σ' : State} {s : SId} (hJ : J nt σ)
    (h : step Cfg.cur σ (.openSrc s) = some σ') : J nt σ' := by
  simp only [step] at h
  split at h
  · cases h
  · cases h
    refine hJ.setSrc ?_ (fun _ => rfl)
    refine ⟨trivial, ?_, ?_, ?_⟩ <;> simp

theorem step_openTgt_J {nt : Nat} {σ σ' : State} {t : TId} (hJ : J nt σ)
    (h : step Cfg.cur σ (.openTgt t) = some σ') : J nt σ' := by
  simp only [step] at h
  split at h
  · cases h
  · cases h
    refine hJ.setTgt ?_
    refine ⟨?_, ?_, ?_, ?_, ?_, trivial⟩ <;> simp

theorem step_startTgt_J {nt : Nat} {σ σ' : State} {t : TId} (hJ : J nt σ)
    (h : step Cfg.cur σ (.startTgt t) = some σ') : J nt σ' := by
  have hT := hJ.tgts t
  simp only [step] at h
  split at h
  · cases h
  · rename_i hen
    simp at hen
    cases h
    exact hJ.setTgt ⟨fun _ => hen.1.1, hT.ringle, hT.ringact, hT.chanact, hT.prevact, hT.apcact⟩

theorem step_replayStep_J {nt : Nat} {σ σ' : State} {t : TId} {s : SId} (hI : Inv σ) (hJ : J nt σ)
    (h : step Cfg.cur σ (.replayStep t s) = some σ') : J nt σ' := by
  have hS := hI.srcs s
  have hT := hJ.tgts t
  simp only [step] at h
  split at h
  · cases h
  · rename_i todo htodo
    have hreg : (σ.tgt t).registered = true := hT.reg (Or.inr (by rw [htodo]; rfl))
    split at h
    · cases h
    · split at h
      · rename_i hw hwm
        have hact : (σ.src s).active = true := by
          split at hwm
          · rename_i hc; simp at hc; exact hc.1
          · rw [hS.grave] at hwm; simp [aget] at hwm
        split at h
        · cases h
          refine hJ.setTgt ⟨fun _ => hreg, hT.ringle, hT.ringact, ?_, hT.prevact, hT.apcact⟩
          intro m hm
          rcases List.mem_append.1 hm with hm | hm
          · exact hT.chanact m hm
          · simp at hm; subst hm; exact hact
        · cases h
          exact hJ.setTgt ⟨fun _ => hreg, hT.ringle, hT.ringact, hT.chanact, hT.prevact, hT.apcact⟩
      · cases h
        exact hJ.setTgt ⟨fun _ => hreg, hT.ringle, hT.ringact, hT.chanact, hT.prevact, hT.apcact⟩

theorem step_replayDone_J {nt : Nat} {σ σ' : State} {t : TId} (hJ : J nt σ)
    (h : step Cfg.cur σ (.replayDone t) = some σ') : J nt σ' := by
  have hT := hJ.tgts t
  simp only [step] at h
  split at h
  · rename_i htodo
    have hreg : (σ.tgt t).registered = true := hT.reg (Or.inr (by rw [htodo]; rfl))
    cases h
    exact hJ.setTgt ⟨fun _ => hreg, hT.ringle, hT.ringact, hT.chanact, hT.prevact, hT.apcact⟩
  · cases h

theorem tickSrc_active (x : Source) : (tickSrc x).active = x.active := by
  unfold tickSrc; split
  · split <;> rfl
  · rfl

theorem SrcOK2_tick {nt : Nat} {x : Source} (hS : SrcOK2 nt x) : SrcOK2 nt (tickSrc x) := by
  unfold tickSrc; split
  · split
    · exact ⟨hS.pc2, hS.abtk, hS.abtnd, hS.achk⟩
    · exact hS
  · exact hS

theorem TgtOK2_tick {act : SId → Prop} {tg : Target} (hT : TgtOK2 act tg) : TgtOK2 act (tickTgt tg) := by
  unfold tickTgt; split
  · exact ⟨hT.reg, hT.ringle, hT.ringact, hT.chanact, hT.prevact, hT.apcact⟩
  · exact hT

theorem step_tick_J {nt : Nat} {σ σ' : State} (hJ : J nt σ)
    (h : step Cfg.cur σ .tick = some σ') : J nt σ' := by
  rw [step_tick] at h
  cases h
  refine ⟨by simp [hJ.len], fun s => ?_, fun t => ?_⟩
  · rw [src_tick]; exact SrcOK2_tick (hJ.srcs s)
  · rw [tgt_tick]
    have : State.act (State.mk (σ.sources.map tickSrc) (σ.targets.map tickTgt)) = σ.act := by
      funext s
      show (((State.mk (σ.sources.map tickSrc) (σ.targets.map tickTgt)).src s).active = true) = _
      rw [src_tick, tickSrc_active]; rfl
    rw [this]
    exact TgtOK2_tick (hJ.tgts t)

theorem step_J {nt : Nat} {σ σ' : State} {a : Act} (hI : Inv σ) (hJ : J nt σ) (h : step Cfg.cur σ a = some σ')
    (hf : a.isFault = false)
    (hr : ∀ s tasks high, a = .recv s tasks high → RecvOK σ.targets.length (σ.src s) tasks high) :
    J nt σ' := by
  cases a with
  | recv s tasks high => exact step_recv_J hJ h (hr _ _ _ rfl)
  | bcastStep s t => exact step_bcastStep_J hI hJ h
  | deliver s t => exact step_deliver_J hI hJ h
  | take t => exact step_take_J hJ h
  | emit t => exact step_emit_J hJ h
  | tack t w => exact step_tack_J hJ h
  | ackFwd t s => exact step_ackFwd_J hJ h
  | ackFin t => exact step_ackFin_J hJ h
  | rack s => exact step_rack_J hJ h
  | openSrc s => exact step_openSrc_J hJ h
  | openTgt t => exact step_openTgt_J hJ h
  | startTgt t => exact step_startTgt_J hJ h
  | replayStep t s => exact step_replayStep_J hI hJ h
  | replayDone t => exact step_replayDone_J hJ h
  | tick => exact step_tick_J hJ h
  | breakTgt t => cases hf
  | breakSrc s => cases hf

/-- the full reachable-state invariant -/
structure Inv2 (nt : Nat) (σ : State) : Prop where
  inv : Inv σ
  j : J nt σ

theorem Inv2.init (ns nt : Nat) : Inv2 nt (State.init ns nt) := ⟨Inv.init ns nt, J.init ns nt⟩

theorem step_Inv2 {nt : Nat} {σ σ' : State} {a : Act} (hI : Inv2 nt σ) (h : step Cfg.cur σ a = some σ')
    (hf : a.isFault = false)
    (hr : ∀ s tasks high, a = .recv s tasks high → RecvOK σ.targets.length (σ.src s) tasks high) :
    Inv2 nt σ' :=
  ⟨(step_inv hI.inv h hf hr).1, step_J hI.inv hI.j h hf hr⟩

theorem run_Inv2 {nt : Nat} {σ : State} {acts : List Act} (hI : Inv2 nt σ)
    (henv : EnvOK Cfg.cur σ acts) (hnf : NoFaults acts) : Inv2 nt (run Cfg.cur σ acts) := by
  induction acts generalizing σ with
  | nil => exact hI
  | cons a rest ih =>
    have hnf' : NoFaults rest := fun b hb => hnf b (List.mem_cons_of_mem _ hb)
    obtain ⟨hr, henv'⟩ := henv
    show Inv2 nt (run Cfg.cur ((step Cfg.cur σ a).getD σ) rest)
    cases hstep : step Cfg.cur σ a with
    | none =>
      rw [hstep] at henv'
      exact ih hI henv' hnf'
    | some σ' =>
      rw [hstep] at henv'
      exact ih (step_Inv2 hI hstep (hnf a List.mem_cons_self) (by intro s tasks high ha; subst ha; exact hr)) henv' hnf'

end S2S.Routing
