import S2S.Spec.TranslateValPath
import S2S.Proofs.TranslateValTop
/-! C12 (value level): the string at the end of a realised structural path that the PATH model says is translated is,
    in the translated tree, the translation of the original. -/
set_option linter.unusedSectionVars false
namespace S2S.TranslateVal
open S2S.Translate S2S.NameMap
variable {α : Type} [DecidableEq α] (g : Graph) (tb : Tables) (X : Ext α) (mt : α → α × Bool)

theorem fields_get (mode : FMode) :
    ∀ (fds : List FieldD) (fs : List (Val α)) (idx : Nat) (f : FieldD) (v : Val α),
      fds[idx]? = some f → fs[idx]? = some v →
      (visitNsFields g tb X mt mode fds fs).1[idx]? = some (nsFieldStep g tb X mt mode f v).1 := by
  intro fds
  induction fds with
  | nil => intro fs idx f v h; simp at h
  | cons f0 fds ih =>
    intro fs idx f v hf hv
    cases fs with
    | nil => simp at hv
    | cons v0 vs =>
      rw [visitNsFields_cons]
      cases idx with
      | zero =>
        simp only [List.getElem?_cons_zero, Option.some.injEq] at hf hv ⊢
        rw [hf, hv]
      | succ n =>
        simp only [List.getElem?_cons_succ] at hf hv ⊢
        exact ih vs n f v hf hv

theorem items_get (mode : IMode) :
    ∀ (l : List (Val α)) (i : Nat) (v : Val α), l[i]? = some v →
      (visitNsItems g tb X mt mode l).1[i]? = some (nsItemStep g tb X mt mode v).1 := by
  intro l
  induction l with
  | nil => intro i v h; simp at h
  | cons v0 vs ih =>
    intro i v hv
    rw [visitNsItems_cons]
    cases i with
    | zero =>
      simp only [List.getElem?_cons_zero, Option.some.injEq] at hv ⊢
      rw [hv]
    | succ n =>
      simp only [List.getElem?_cons_succ] at hv ⊢
      exact ih n v hv

theorem strStep_single (hN : NameOnce g tb) (ni : Bool) (f : FieldD) (s : α) (h : nsLeafOf g tb ni f = true) :
    (nsStrStep g tb mt ni f s).1 = (app mt s).1 := by
  unfold nsStrStep
  unfold nsLeafOf at h
  by_cases h1 : (ni && f.go == g.nameField && f.goString) = true
  · have hl : isNsLeafField tb f = false := by
      simp only [Bool.and_eq_true] at h1
      exact hN f h1.1.2
    simp [h1, hl]
  · have h2 : isNsLeafField tb f = true := by
      simp only [Bool.or_eq_true] at h
      rcases h with h | h
      · exact absurd h h1
      · exact h
    simp [h1, h2]

theorem nsMode_cases (ty : Nat) :
    (ty = g.historyType ∧ nsMode g ty = .hist) ∨
    (ty ≠ g.historyType ∧ ty = g.namespaceInfo ∧ nsMode g ty = .nsInfo) ∨
    (ty ≠ g.historyType ∧ ty ≠ g.namespaceInfo ∧ nsMode g ty = .plain) := by
  unfold nsMode
  by_cases h1 : ty = g.historyType
  · left; simp [h1]
  · by_cases h2 : ty = g.namespaceInfo
    · right; left
      refine ⟨h1, h2, ?_⟩
      simp [h1, ← h2]
    · right; right
      refine ⟨h1, h2, ?_⟩
      simp [h1, h2]

/-- a non-string field value is walked by the plain callback in both non-History modes -/
theorem fieldStep_nonstr (mode : FMode) (hm : mode ≠ .hist) (f : FieldD) (v : Val α) (hv : v.isStr = false) :
    nsFieldStep g tb X mt mode f v = visitNs g tb X mt (some f) v := by
  cases mode with
  | hist => exact absurd rfl hm
  | plain => rfl
  | nsInfo => exact nsFieldStep_nsInfo_nonstr g tb X mt f v hv

theorem blob_events (re : Bool) (evs : List (Val α)) (hs : listSkippable g tb X evs = false) :
    ∃ re', (nsBlobStep g tb X mt re evs).1 = .blobEv re' (visitNsItems g tb X mt .plain evs).1 := by
  unfold nsBlobStep
  rcases blobResult_cases re evs (listSkippable g tb X evs) (visitNsItems g tb X mt .plain evs) with ⟨h, hh⟩ | ⟨h, _, _⟩
  · rw [h]
    rcases hh with hh | hh
    · rw [hs] at hh; cases hh
    · exact ⟨re, by rw [((unmatched_unchanged g tb X mt).2 evs).2 .plain hh]⟩
  · rw [h]; exact ⟨true, rfl⟩

theorem listSkippable_false_of_mem (evs : List (Val α)) (j : Nat) (c : Val α) (hj : evs[j]? = some c)
    (hc : evSkippable g tb X c = false) : listSkippable g tb X evs = false := by
  unfold listSkippable
  cases h : evs.all (evSkippable g tb X) with
  | false => rfl
  | true =>
    rw [List.all_eq_true] at h
    have := h c (List.mem_of_getElem? hj)
    rw [hc] at this; cases this

theorem not_blocked (rest : List Step) (hw : walk g tb rest true = true) : blockedAt g tb rest = false := by
  cases rest with
  | nil => rfl
  | cons s rest' =>
    cases s with
    | blob a b => rfl
    | field ty' idx nx =>
      simp only [walk] at hw
      unfold blockedAt
      cases hf : g.field? ty' idx with
      | none => simp only []; rw [hf]
      | some f =>
        rw [hf] at hw
        simp only [Bool.true_and] at hw
        cases hb : (ty' == g.eventType && f.go == g.attributesField && entersSkippable tb rest') with
        | false => simp only []; rw [hf]; exact hb
        | true =>
          rw [hb] at hw
          split at hw <;> simp at hw

theorem pathOK_node (c : Val α) (rest : List Step) (ps : List Pick) (inEv : Bool)
    (hok : pathOK g tb X c rest ps inEv = true) : nodeOK g tb X c inEv rest = true := by
  cases rest with
  | nil => exact hok
  | cons s rest' =>
    cases ps with
    | nil => cases hok
    | cons p ps' =>
      simp only [pathOK, Bool.and_eq_true] at hok
      exact hok.1

/-- the event at the start of the rest of a path is not skipped, if the path model does not block the path there -/
theorem not_skipped (c : Val α) (rest : List Step) (ps : List Pick)
    (hw : walk g tb rest true = true) (hok : pathOK g tb X c rest ps true = true) : evSkippable g tb X c = false := by
  have hn := pathOK_node g tb X c rest ps true hok
  have hb := not_blocked g tb rest hw
  cases c with
  | msg ty fs =>
    simp only [nodeOK, hb, Bool.or_false, Bool.true_and, Bool.and_eq_true, Bool.not_eq_true'] at hn
    exact hn.2
  | _ => simp [evSkippable, evLinked, evSkipTy, sub]


omit [DecidableEq α] in
theorem asMsgOf_some (n : Nat) (c c' : Val α) (h : asMsgOf n c = some c') : c' = c ∧ ∃ cfs, c = .msg n cfs := by
  cases c with
  | msg ty fs =>
    by_cases he : ty = n
    · subst he
      simp only [asMsgOf, if_true, Option.some.injEq] at h
      exact ⟨h.symm, fs, rfl⟩
    · simp [asMsgOf, he] at h
  | _ => simp [asMsgOf] at h

theorem asMsgOf_visit (fc : Option FieldD) (n : Nat) (cfs : List (Val α)) :
    asMsgOf n (visitNs g tb X mt fc (.msg n cfs)).1 = some (visitNs g tb X mt fc (.msg n cfs)).1 := by
  rw [visitNs_msg]
  simp [asMsgOf]

theorem pickChild_visit (f : FieldD) (fv : Val α) (i n : Nat) (cfs : List (Val α))
    (hp : pickChild fv i = some (.msg n cfs)) :
    ∃ fc', pickChild (visitNs g tb X mt (some f) fv).1 i = some (visitNs g tb X mt fc' (.msg n cfs)).1 := by
  cases fv <;> try (simp [pickChild] at hp)
  case msg ty fs =>
    obtain ⟨h1, h2⟩ := hp
    subst h1; subst h2
    refine ⟨some f, ?_⟩
    rw [visitNs_msg]
    rfl
  case list items =>
    refine ⟨none, ?_⟩
    rw [visitNs_list]
    show (visitNsItems g tb X mt _ items).1[i]? = _
    rw [items_get g tb X mt _ items i _ hp]
    split <;> rfl
  case map es =>
    refine ⟨none, ?_⟩
    rw [visitNs_map]
    cases he : es[i]? with
    | none => rw [he] at hp; simp at hp
    | some e =>
      rw [he] at hp
      cases e <;> try (simp at hp)
      case kv k w =>
        subst hp
        show (match (visitNsItems g tb X mt .plain es).1[i]? with | some (.kv _ v) => some v | _ => none) = _
        rw [items_get g tb X mt .plain es i _ he]
        rfl

theorem pickEvents_visit (f : FieldD) (hb : blobCtx tb (some f) = true) (fv : Val α) (i : Nat) (evs : List (Val α))
    (hp : pickEvents fv i = some evs) (hs : listSkippable g tb X evs = false) :
    pickEvents (visitNs g tb X mt (some f) fv).1 i = some (visitNsItems g tb X mt .plain evs).1 := by
  cases fv <;> try (simp [pickEvents] at hp)
  case blobEv re evs0 =>
    subst hp
    rw [visitNs_blobEv, if_pos hb]
    obtain ⟨re', e⟩ := blob_events g tb X mt re evs0 hs
    rw [e]; rfl
  case list items =>
    rw [visitNs_list, if_pos hb]
    cases he : items[i]? with
    | none => rw [he] at hp; simp at hp
    | some e =>
      rw [he] at hp
      cases e <;> try (simp at hp)
      case blobEv re evs0 =>
        subst hp
        show (match (visitNsItems g tb X mt .blobs items).1[i]? with | some (.blobEv _ evs) => some evs | _ => none) = _
        rw [items_get g tb X mt .blobs items i _ he, nsItemStep_blobs_blobEv]
        obtain ⟨re', e⟩ := blob_events g tb X mt re evs0 hs
        rw [e]

/-- one step of a realised path, before and after translation -/
theorem step_visit (v : Val α) (s : Step) (rest : List Step) (p : Pick) (fc : Option FieldD) (inEv : Bool) (c : Val α)
    (hs : stepInto g v s p = some c)
    (hw : walk g tb (s :: rest) inEv = true)
    (hn : nodeOK g tb X v inEv (s :: rest) = true)
    (hc : inEvAfter g s = true → evSkippable g tb X c = false) :
    ∃ fc', stepInto g (visitNs g tb X mt fc v).1 s p = some (visitNs g tb X mt fc' c).1 := by
  cases v <;> try (simp [stepInto] at hs)
  case msg ty fs =>
    rw [visitNs_msg]
    cases s with
    | field ty0 idx next =>
      simp only [stepInto] at hs ⊢
      by_cases hty : ty = ty0
      · subst hty
        rw [if_pos rfl] at hs ⊢
        cases hfv : fs[idx]? with
        | none => rw [hfv] at hs; simp at hs
        | some fv =>
          rw [hfv] at hs
          simp only [Option.bind_some] at hs
          cases hpc : pickChild fv p.i with
          | none => rw [hpc] at hs; simp at hs
          | some c0 =>
            rw [hpc] at hs
            simp only [Option.bind_some] at hs
            obtain ⟨e1, cfs, e2⟩ := asMsgOf_some next c0 c hs
            subst e1; subst e2
            simp only [walk] at hw
            cases hf : g.field? ty idx with
            | none => rw [hf] at hw; cases hw
            | some f =>
              have hf' : (g.typeD ty).fields[idx]? = some f := hf
              rw [fields_get g tb X mt _ _ fs idx f fv hf' hfv]
              simp only [Option.bind_some]
              have hstr : fv.isStr = false := by
                cases fv <;> first | rfl | (simp [pickChild] at hpc)
              rcases nsMode_cases g ty with ⟨h1, hm⟩ | ⟨h1, _, hm⟩ | ⟨h1, _, hm⟩
              · -- History: only `Events`, per-event shortcut
                rw [hm]
                simp only [nodeOK, Bool.and_eq_true, Bool.or_eq_true, bne_iff_ne, ne_eq] at hn
                have hh := hn.1
                rcases hh with hh | hh
                · exact absurd h1 hh
                · simp only [histOK, hf, hfv, Bool.and_eq_true] at hh
                  obtain ⟨⟨hgo, hnx⟩, hlist⟩ := hh
                  cases fv with
                  | list items =>
                    have hin : inEvAfter g (Step.field ty idx next) = true := by
                      simp only [inEvAfter, Bool.and_eq_true, beq_iff_eq]
                      exact ⟨h1, by simpa using hnx⟩
                    have hnc := hc hin
                    refine ⟨none, ?_⟩
                    rw [nsFieldStep_hist_list, if_pos hgo]
                    show ((visitNsItems g tb X mt .events items).1[p.i]?).bind (asMsgOf next) = _
                    rw [items_get g tb X mt .events items p.i _ hpc, nsItemStep_events, hnc]
                    simp only [Bool.false_eq_true, if_false, Option.bind_some]
                    exact asMsgOf_visit g tb X mt none next cfs
                  | _ => simp at hlist
              · rw [hm, fieldStep_nonstr g tb X mt .nsInfo (by intro h; cases h) f fv hstr]
                obtain ⟨fc', e⟩ := pickChild_visit g tb X mt f fv p.i next cfs hpc
                exact ⟨fc', by rw [e]; exact asMsgOf_visit g tb X mt fc' next cfs⟩
              · rw [hm, fieldStep_nonstr g tb X mt .plain (by intro h; cases h) f fv hstr]
                obtain ⟨fc', e⟩ := pickChild_visit g tb X mt f fv p.i next cfs hpc
                exact ⟨fc', by rw [e]; exact asMsgOf_visit g tb X mt fc' next cfs⟩
      · rw [if_neg hty] at hs; cases hs
    | blob ty0 idx =>
      simp only [stepInto] at hs ⊢
      by_cases hty : ty = ty0
      · subst hty
        rw [if_pos rfl] at hs ⊢
        cases hfv : fs[idx]? with
        | none => rw [hfv] at hs; simp at hs
        | some fv =>
          rw [hfv] at hs
          simp only [Option.bind_some] at hs
          cases hpe : pickEvents fv p.i with
          | none => rw [hpe] at hs; simp at hs
          | some evs =>
            rw [hpe] at hs
            simp only [Option.bind_some] at hs
            cases hev : evs[p.j]? with
            | none => rw [hev] at hs; simp at hs
            | some c0 =>
              rw [hev] at hs
              simp only [Option.bind_some] at hs
              obtain ⟨e1, cfs, e2⟩ := asMsgOf_some g.eventType c0 c hs
              subst e1; subst e2
              simp only [walk] at hw
              cases hf : g.field? ty idx with
              | none => rw [hf] at hw; cases hw
              | some f =>
                rw [hf] at hw
                simp only at hw
                have hbc : blobCtx tb (some f) = true := by
                  unfold blobCtx
                  cases hb : (f.blob && tb.blob.contains f.go) with
                  | false => rw [hb] at hw; simp at hw
                  | true =>
                    simp only [Bool.and_eq_true] at hb ⊢
                    exact ⟨hb.2, hb.1⟩
                have hf' : (g.typeD ty).fields[idx]? = some f := hf
                rw [fields_get g tb X mt _ _ fs idx f fv hf' hfv]
                simp only [Option.bind_some]
                have hstr : fv.isStr = false := by
                  cases fv <;> first | rfl | (simp [pickEvents] at hpe)
                have hnc := hc rfl
                have hls := listSkippable_false_of_mem g tb X evs p.j _ hev hnc
                have hmode : nsMode g ty ≠ .hist := by
                  rcases nsMode_cases g ty with ⟨h1, _⟩ | ⟨_, _, hm⟩ | ⟨_, _, hm⟩
                  · exfalso
                    simp only [nodeOK, Bool.and_eq_true, Bool.or_eq_true, bne_iff_ne, ne_eq] at hn
                    rcases hn.1 with hh | hh
                    · exact hh h1
                    · simp [histOK] at hh
                  · rw [hm]; intro h; cases h
                  · rw [hm]; intro h; cases h
                rw [fieldStep_nonstr g tb X mt _ hmode f fv hstr,
                  pickEvents_visit g tb X mt f hbc fv p.i evs hpe hls]
                simp only [Option.bind_some]
                refine ⟨none, ?_⟩
                rw [items_get g tb X mt .plain evs p.j _ hev]
                simp only [Option.bind_some]
                exact asMsgOf_visit g tb X mt none g.eventType cfs
      · rw [if_neg hty] at hs; cases hs


theorem walk_tail (s : Step) (rest : List Step) (inEv : Bool) (hw : walk g tb (s :: rest) inEv = true) :
    walk g tb rest (inEvAfter g s) = true := by
  cases s with
  | field ty idx next =>
    simp only [walk] at hw
    cases hf : g.field? ty idx with
    | none => rw [hf] at hw; cases hw
    | some f =>
      rw [hf] at hw
      simp only at hw
      split at hw
      · cases hw
      · split at hw
        · cases hw
        · exact hw
  | blob ty idx =>
    simp only [walk] at hw
    cases hf : g.field? ty idx with
    | none => rw [hf] at hw; cases hw
    | some f =>
      rw [hf] at hw
      simp only at hw
      split at hw
      · exact hw
      · cases hw

theorem isLeaf_of (hdis : tablesDisjoint tb = true) (f : FieldD) (h1 : f.goString = true) (h2 : tb.ns.contains f.go = true) :
    isNsLeafField tb f = true := by
  unfold isNsLeafField
  unfold tablesDisjoint at hdis
  rw [List.all_eq_true] at hdis
  have := hdis f.go (by simpa using h2)
  rw [h1, h2, this]
  rfl

theorem leaf_translated (hN : NameOnce g tb) (hdis : tablesDisjoint tb = true) (lt li : Nat)
    (hleaf : leafTranslated g tb lt li = true) :
    ∀ (steps : List Step) (v : Val α) (picks : List Pick) (fc : Option FieldD) (inEv : Bool) (s : α),
      leafAt g lt li v steps picks = some s → walk g tb steps inEv = true → pathOK g tb X v steps picks inEv = true →
      leafAt g lt li (visitNs g tb X mt fc v).1 steps picks = some (app mt s).1 := by
  intro steps
  induction steps with
  | nil =>
    intro v picks fc inEv s hl _ hok
    cases v with
    | msg ty fs =>
      simp only [leafAt] at hl
      by_cases hty : ty = lt
      · subst hty
        rw [if_pos rfl] at hl
        cases hfs : fs[li]? with
        | none => rw [hfs] at hl; cases hl
        | some fv =>
          rw [hfs] at hl
          cases fv <;> try (simp at hl; done)
          case str s0 =>
            simp only [Option.some.injEq] at hl
            subst hl
            unfold leafTranslated at hleaf
            cases hf : g.field? ty li with
            | none => rw [hf] at hleaf; cases hleaf
            | some f =>
              rw [hf] at hleaf
              simp only [Bool.or_eq_true, Bool.and_eq_true, beq_iff_eq] at hleaf
              have hf' : (g.typeD ty).fields[li]? = some f := hf
              rw [visitNs_msg]
              simp only [leafAt, if_true]
              rw [fields_get g tb X mt _ _ fs li f _ hf' hfs]
              simp only [pathOK, nodeOK, Bool.and_eq_true, Bool.or_eq_true, bne_iff_ne, ne_eq] at hok
              rcases nsMode_cases g ty with ⟨h1, _⟩ | ⟨_, h2, hm⟩ | ⟨_, h2, hm⟩
              · rcases hok.1 with hh | hh
                · exact absurd h1 hh
                · simp [histOK] at hh
              · rw [hm, nsFieldStep_nsInfo_str]
                simp only
                rw [strStep_single g tb mt hN true f s0]
                unfold nsLeafOf
                rcases hleaf with ⟨⟨_, hgo⟩, hgs⟩ | ⟨hgs, hns⟩
                · simp [hgo, hgs]
                · rw [isLeaf_of tb hdis f hgs hns]; simp
              · rw [hm, nsFieldStep_plain, visitNs_str_some]
                simp only
                rw [strStep_single g tb mt hN false f s0]
                unfold nsLeafOf
                rcases hleaf with ⟨⟨hh, _⟩, _⟩ | ⟨hgs, hns⟩
                · exact absurd hh h2
                · rw [isLeaf_of tb hdis f hgs hns]; simp
      · rw [if_neg hty] at hl; cases hl
    | _ => simp [leafAt] at hl
  | cons st rest ih =>
    intro v picks fc inEv s hl hw hok
    cases picks with
    | nil => simp [leafAt] at hl
    | cons p ps =>
      simp only [leafAt] at hl
      cases hst : stepInto g v st p with
      | none => rw [hst] at hl; cases hl
      | some c =>
        rw [hst] at hl
        simp only [Option.bind_some] at hl
        simp only [pathOK, hst, Bool.and_eq_true] at hok
        have hwt := walk_tail g tb st rest inEv hw
        have hc : inEvAfter g st = true → evSkippable g tb X c = false := by
          intro hin
          rw [hin] at hwt
          have := hok.2
          rw [hin] at this
          exact not_skipped g tb X c rest ps hwt this
        obtain ⟨fc', e⟩ := step_visit g tb X mt v st rest p fc inEv c hst hw hok.1 hc
        simp only [leafAt]
        rw [e]
        simp only [Option.bind_some]
        exact ih c ps fc' (inEvAfter g st) s hl hwt hok.2

end S2S.TranslateVal
