import S2S.Proofs.RegistryFields
/-! Basic lemmas for the C08 proofs: Go-map (assoc list) laws, incarnation table, one inversion lemma per action. -/
namespace S2S.Registry

set_option linter.unusedSimpArgs false
set_option linter.unusedVariables false

theorem aget_aset {α} (l : List (Nat × α)) (k k' : Nat) (v : α) :
    aget (aset l k v) k' = if k = k' then some v else aget l k' := by
  induction l with
  | nil => simp [aset, aget]
  | cons p r ih =>
    obtain ⟨a, b⟩ := p
    simp only [aset]
    by_cases h : a = k
    · subst h
      simp only [if_true, aget]
      by_cases h2 : a = k' <;> simp [h2]
    · simp only [h, if_false, aget, ih]
      by_cases h3 : a = k'
      · subst h3
        have : ¬ k = a := fun e => h e.symm
        simp [this]
      · simp [h3]

theorem aget_adel {α} (l : List (Nat × α)) (k k' : Nat) :
    aget (adel l k) k' = if k = k' then none else aget l k' := by
  induction l with
  | nil => simp [adel, aget]
  | cons p r ih =>
    obtain ⟨a, b⟩ := p
    simp only [adel]
    by_cases h : a = k
    · subst h
      simp only [if_true, ih, aget]
      by_cases h2 : a = k' <;> simp [h2]
    · simp only [h, if_false, aget, ih]
      by_cases h3 : a = k'
      · subst h3
        have : ¬ k = a := fun e => h e.symm
        simp [this]
      · simp [h3]

@[simp] theorem inc_setInc (σ : State) (i j : Tok) (x : Inc) :
    (σ.setInc i x).inc j = if i = j then x else σ.inc j := by
  simp only [State.inc, State.setInc, aget_aset]; split <;> rfl

@[simp] theorem down_setStopped (σ : State) (j : Tok) : σ.setStopped.down j = true := by
  simp [State.down, State.setStopped]

@[simp] theorem steal_next (σ : State) (i : Tok) (g : Reg) (v : Option Tok) : (steal σ i g v).next = σ.next := by
  unfold steal; split <;> (try split) <;> rfl
@[simp] theorem sendOn_next (σ : State) (t : Tok) (r : Bool) : (sendOn σ t r).next = σ.next := by
  unfold sendOn; split <;> (try split) <;> rfl
@[simp] theorem steal_clock (σ : State) (i : Tok) (g : Reg) (v : Option Tok) : (steal σ i g v).clock = σ.clock := by
  unfold steal; split <;> (try split) <;> rfl
@[simp] theorem sendOn_clock (σ : State) (t : Tok) (r : Bool) : (sendOn σ t r).clock = σ.clock := by
  unfold sendOn; split <;> (try split) <;> rfl
@[simp] theorem steal_stopped (σ : State) (i : Tok) (g : Reg) (v : Option Tok) : (steal σ i g v).stopped = σ.stopped := by
  unfold steal; split <;> (try split) <;> rfl
@[simp] theorem sendOn_stopped (σ : State) (t : Tok) (r : Bool) : (sendOn σ t r).stopped = σ.stopped := by
  unfold sendOn; split <;> (try split) <;> rfl
@[simp] theorem steal_localShards (σ : State) (i : Tok) (g : Reg) (v : Option Tok) : (steal σ i g v).localShards = σ.localShards := by
  unfold steal; split <;> (try split) <;> rfl
@[simp] theorem sendOn_localShards (σ : State) (t : Tok) (r : Bool) : (sendOn σ t r).localShards = σ.localShards := by
  unfold sendOn; split <;> (try split) <;> rfl
@[simp] theorem steal_sendChans (σ : State) (i : Tok) (g : Reg) (v : Option Tok) : (steal σ i g v).sendChans = σ.sendChans := by
  unfold steal; split <;> (try split) <;> rfl
@[simp] theorem sendOn_sendChans (σ : State) (t : Tok) (r : Bool) : (sendOn σ t r).sendChans = σ.sendChans := by
  unfold sendOn; split <;> (try split) <;> rfl
@[simp] theorem steal_ackChans (σ : State) (i : Tok) (g : Reg) (v : Option Tok) : (steal σ i g v).ackChans = σ.ackChans := by
  unfold steal; split <;> (try split) <;> rfl
@[simp] theorem sendOn_ackChans (σ : State) (t : Tok) (r : Bool) : (sendOn σ t r).ackChans = σ.ackChans := by
  unfold sendOn; split <;> (try split) <;> rfl
@[simp] theorem steal_cancels (σ : State) (i : Tok) (g : Reg) (v : Option Tok) : (steal σ i g v).cancels = σ.cancels := by
  unfold steal; split <;> (try split) <;> rfl
@[simp] theorem sendOn_cancels (σ : State) (t : Tok) (r : Bool) : (sendOn σ t r).cancels = σ.cancels := by
  unfold sendOn; split <;> (try split) <;> rfl
@[simp] theorem steal_actives (σ : State) (i : Tok) (g : Reg) (v : Option Tok) : (steal σ i g v).actives = σ.actives := by
  unfold steal; split <;> (try split) <;> rfl
@[simp] theorem sendOn_actives (σ : State) (t : Tok) (r : Bool) : (sendOn σ t r).actives = σ.actives := by
  unfold sendOn; split <;> (try split) <;> rfl
@[simp] theorem steal_crashed (σ : State) (i : Tok) (g : Reg) (v : Option Tok) : (steal σ i g v).crashed = σ.crashed := by
  unfold steal; split <;> (try split) <;> rfl
@[simp] theorem sendOn_stolen (σ : State) (t : Tok) (r : Bool) : (sendOn σ t r).stolen = σ.stolen := by
  unfold sendOn; split <;> (try split) <;> rfl
@[simp] theorem steal_caught (σ : State) (i : Tok) (g : Reg) (v : Option Tok) : (steal σ i g v).caught = σ.caught := by
  unfold steal; split <;> (try split) <;> rfl
@[simp] theorem steal_inc (σ : State) (i : Tok) (g : Reg) (v : Option Tok) (j : Tok) : (steal σ i g v).inc j = σ.inc j := by
  unfold steal; split <;> (try split) <;> rfl
@[simp] theorem sendOn_inc (σ : State) (t : Tok) (r : Bool) (j : Tok) : (sendOn σ t r).inc j = σ.inc j := by
  unfold sendOn; split <;> (try split) <;> rfl
theorem steal_stolen_nil {σ : State} {i : Tok} {g : Reg} {v : Option Tok} (h : σ.stolen = []) (hv : v = none ∨ v = some i) :
    (steal σ i g v).stolen = [] := by
  unfold steal; rcases hv with rfl | rfl <;> simp [h]
theorem sendOn_crashed_open {σ : State} {t : Tok} {r : Bool} (h : (σ.inc t).closed = false) : (sendOn σ t r).crashed = σ.crashed := by
  unfold sendOn; simp [h]
theorem sendOn_crashed_recover {σ : State} {t : Tok} : (sendOn σ t true).crashed = σ.crashed := by
  unfold sendOn; split <;> rfl

end S2S.Registry
