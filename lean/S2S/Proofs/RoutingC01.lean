import S2S.Spec.Routing
namespace S2S.Routing
theorem acks_safe_cur (ns nt : Nat) (acts : List Act)
    (henv : EnvOK Cfg.cur (State.init ns nt) acts) (hnf : NoFaults acts) :
    AcksSafeAlong Cfg.cur (State.init ns nt) acts := sorry
end S2S.Routing
