import S2S.Proofs.RoutingInvMain
/-!
C01: fault-free runs of the routing model never acknowledge an unconfirmed task.
Proof: `Inv` (S2S/Proofs/RoutingInvDef.lean) holds initially and is preserved by every non-fault
step under `RecvOK`; in every reachable state it implies that `lastSentAck` covers only
confirmed tasks, and every ack a step sends equals the post-state's `lastSentAck`.
-/
namespace S2S.Routing

theorem acks_safe_of_inv (σ : State) (hI : Inv σ) (acts : List Act)
    (henv : EnvOK Cfg.cur σ acts) (hnf : NoFaults acts) : AcksSafeAlong Cfg.cur σ acts := by
  induction acts generalizing σ with
  | nil => trivial
  | cons a rest ih =>
    have hnf' : NoFaults rest := fun b hb => hnf b (List.mem_cons_of_mem _ hb)
    have hnfa : a.isFault = false := hnf a List.mem_cons_self
    unfold EnvOK at henv
    obtain ⟨henva, henvr⟩ := henv
    unfold AcksSafeAlong
    cases hstep : step Cfg.cur σ a with
    | none =>
      rw [hstep] at henvr
      exact ih σ hI henvr hnf'
    | some σ' =>
      rw [hstep] at henvr
      have hI' : Inv σ' := step_inv hI a henva hnfa hstep
      exact ⟨step_ackStepSafe hI' (step_acksAreLast a hstep), ih σ' hI' henvr hnf'⟩

theorem acks_safe_cur (ns nt : Nat) (acts : List Act)
    (henv : EnvOK Cfg.cur (State.init ns nt) acts) (hnf : NoFaults acts) :
    AcksSafeAlong Cfg.cur (State.init ns nt) acts :=
  acks_safe_of_inv _ (inv_init ns nt) acts henv hnf

end S2S.Routing
