import S2S.Proofs.RoutingInvBasic
/-!
The invariant for C01 (fault-free runs of the routing model).
-/
namespace S2S.Routing

/-- values of source `s` carried by one queued message: (value, isTask) -/
def msgVals (s : SId) : Msg → List (Int × Bool)
  | .tasks s' ids => if s' = s then ids.map (fun i => (i, true)) else []
  | .wm s' h => if s' = s then [(h, false)] else []

def chanVals (s : SId) (ch : List Msg) : List (Int × Bool) := ch.flatMap (msgVals s)

/-- the sub-batch for `t` not yet handed off -/
def pendVals (pc : RecvPc) (t : TId) : List (Int × Bool) :=
  match pc with
  | .deliver pending => ((aget pending t).getD []).map (fun i => (i, true))
  | _ => []

/-- the not-yet-taken part of the pipeline of source `s` towards target `t`, in order -/
def flat (s : SId) (t : TId) (x : Source) (tg : Target) : List (Int × Bool) :=
  chanVals s tg.sendChan ++ pendVals x.pc t

/-- every task of `s` owned by `t` received so far with id `< v` is confirmed on `t` -/
def SafeV (s : SId) (t : TId) (x : Source) (tg : Target) (v : Int) : Prop :=
  ∀ id, (id, t) ∈ x.received → id < v → (s, id) ∈ tg.confirmed

def FlatRel (y z : Int × Bool) : Prop := z.2 = true → y.1 ≤ z.1

structure PairOK (s : SId) (t : TId) (x : Source) (tg : Target) : Prop where
  cover : ∀ id, (id, t) ∈ x.received → (∃ p, (s, id, p) ∈ tg.assigned) ∨ (id, true) ∈ flat s t x tg
  sorted : (flat s t x tg).Pairwise FlatRel
  flat_le : ∀ y ∈ flat s t x tg, y.1 ≤ x.lastHigh
  ring_ok : ∀ p o, (p, s, o) ∈ tg.ring → ∀ id, (id, t) ∈ x.received → id < o →
    ∃ p', p' < p ∧ (s, id, p') ∈ tg.assigned
  ring_le : ∀ p o, (p, s, o) ∈ tg.ring → o ≤ x.lastHigh
  todo_safe : ∀ todo d r, tg.ackPc = .forwarding todo d r → ∀ v, (s, v) ∈ todo →
    SafeV s t x tg v ∧ v ≤ x.lastHigh
  prev_safe : ∀ v, (s, v) ∈ tg.prevAck → SafeV s t x tg v ∧ v ≤ x.lastHigh
  chan_safe : ∀ v, (t, v) ∈ x.ackChan → SafeV s t x tg v ∧ v ≤ x.lastHigh
  abt_safe : ∀ v, (t, v) ∈ x.ackByTarget → SafeV s t x tg v ∧ v ≤ x.lastHigh
  last_safe : ∀ a, x.lastSentAck = some a → SafeV s t x tg a

structure SrcOK (x : Source) : Prop where
  inactive : x.active = false → x = {}
  wm_le : ∀ h, x.lastWatermark = some h → h ≤ x.lastHigh
  wm_pend : ∀ h, x.lastWatermark = some h → ∀ t, ∀ y ∈ pendVals x.pc t, h ≤ y.1
  bcast_le : ∀ high todo, x.pc = .bcast high todo → high ≤ x.lastHigh
  last_le : ∀ a, x.lastSentAck = some a → a ≤ x.lastHigh
  seeded : ∀ id t, (id, t) ∈ x.received → (aget x.ackByTarget t).isSome = true
  grave : x.graveyard = []

structure TgtOK (tg : Target) : Prop where
  unreg : tg.registered = false → tg = {}
  asg_le : ∀ s id p, (s, id, p) ∈ tg.assigned → p ≤ tg.nextProxyId

structure Inv (σ : State) : Prop where
  src : ∀ s, SrcOK (σ.src s)
  tgt : ∀ t, TgtOK (σ.tgt t)
  pair : ∀ s t, PairOK s t (σ.src s) (σ.tgt t)

/-! ### basic facts -/

theorem pairOK_default_src (s : SId) (t : TId) (tg : Target) (h : PairOK s t {} tg)
    (a : Bool) (i : Nat) : PairOK s t { active := a, inc := i } tg :=
  ⟨h.cover, h.sorted, h.flat_le, h.ring_ok, h.ring_le, h.todo_safe, h.prev_safe, h.chan_safe,
    h.abt_safe, h.last_safe⟩

theorem pairOK_default (s : SId) (t : TId) : PairOK s t {} {} := by
  refine ⟨?_, ?_, ?_, ?_, ?_, ?_, ?_, ?_, ?_, ?_⟩
  · intro id h; cases h
  · exact List.Pairwise.nil
  · intro y h; cases h
  · intro p o h; cases h
  · intro p o h; cases h
  · intro todo d r h; cases h
  · intro v h; cases h
  · intro v h; cases h
  · intro v h; cases h
  · intro a h; cases h

theorem srcOK_default : SrcOK {} := by
  refine ⟨fun _ => rfl, ?_, ?_, ?_, ?_, ?_, rfl⟩
  · intro h e; cases e
  · intro h e; cases e
  · intro h todo e; cases e
  · intro a e; cases e
  · intro id t e; cases e

theorem tgtOK_default : TgtOK {} := by
  refine ⟨fun _ => rfl, ?_⟩
  intro s id p h; cases h

theorem inv_init (ns nt : Nat) : Inv (State.init ns nt) := by
  refine ⟨?_, ?_, ?_⟩
  · intro s; rw [src_init]; exact srcOK_default
  · intro t; rw [tgt_init]; exact tgtOK_default
  · intro s t; rw [src_init, tgt_init]; exact pairOK_default s t

/-! ### lifting record-level facts to states -/

theorem inv_setSrc {σ : State} (hI : Inv σ) (s : SId) (x' : Source) (hs : SrcOK x')
    (hp : ∀ t, PairOK s t x' (σ.tgt t)) : Inv (σ.setSrc s x') := by
  refine ⟨?_, ?_, ?_⟩
  · intro s'; rw [src_setSrc]; split
    · exact hs
    · exact hI.src s'
  · intro t; exact hI.tgt t
  · intro s' t; rw [src_setSrc, tgt_setSrc]; split
    · rename_i h; rw [h.1]; exact hp t
    · exact hI.pair s' t

theorem inv_setTgt {σ : State} (hI : Inv σ) (t : TId) (tg' : Target) (ht : TgtOK tg')
    (hp : ∀ s, PairOK s t (σ.src s) tg') : Inv (σ.setTgt t tg') := by
  refine ⟨?_, ?_, ?_⟩
  · intro s; exact hI.src s
  · intro t'; rw [tgt_setTgt]; split
    · exact ht
    · exact hI.tgt t'
  · intro s t'; rw [tgt_setTgt, src_setTgt]; split
    · rename_i h; rw [h.1]; exact hp s
    · exact hI.pair s t'

theorem inv_setBoth {σ : State} (hI : Inv σ) (s : SId) (t : TId) (x' : Source) (tg' : Target)
    (hsl : s < σ.sources.length) (htl : t < σ.targets.length)
    (hs : SrcOK x') (ht : TgtOK tg')
    (h1 : PairOK s t x' tg')
    (h2 : ∀ t', t' ≠ t → PairOK s t' x' (σ.tgt t'))
    (h3 : ∀ s', s' ≠ s → PairOK s' t (σ.src s') tg') : Inv ((σ.setSrc s x').setTgt t tg') := by
  refine ⟨?_, ?_, ?_⟩
  · intro s'; rw [src_setTgt, src_setSrc]; split
    · exact hs
    · exact hI.src s'
  · intro t'; rw [tgt_setTgt]; split
    · exact ht
    · exact hI.tgt t'
  · intro s' t'
    rw [tgt_setTgt, src_setTgt, src_setSrc, tgt_setSrc]
    by_cases e1 : s' = s <;> by_cases e2 : t' = t
    · subst e1; subst e2; simp [hsl, htl, h1]
    · subst e1; simp [hsl, e2, h2 t' e2]
    · subst e2; simp [htl, e1, h3 s' e1]
    · simp [e1, e2, hI.pair s' t']

theorem setTgt_setSrc_comm (σ : State) (s : SId) (t : TId) (x : Source) (tg : Target) :
    (σ.setTgt t tg).setSrc s x = (σ.setSrc s x).setTgt t tg := rfl

/-- an active / non-default source is in range -/
theorem Inv.src_lt {σ : State} (_hI : Inv σ) {s : SId} (h : (σ.src s).active = true) :
    s < σ.sources.length := by
  apply src_lt_of_ne; intro e; rw [e] at h; cases h

theorem Inv.tgt_lt {σ : State} (_hI : Inv σ) {t : TId} (h : (σ.tgt t).registered = true) :
    t < σ.targets.length := by
  apply tgt_lt_of_ne; intro e; rw [e] at h; cases h

theorem Inv.src_active {σ : State} (hI : Inv σ) {s : SId} (h : σ.src s ≠ {}) :
    (σ.src s).active = true := by
  cases ha : (σ.src s).active with
  | true => rfl
  | false => exact absurd ((hI.src s).inactive ha) h

theorem Inv.tgt_registered {σ : State} (hI : Inv σ) {t : TId} (h : σ.tgt t ≠ {}) :
    (σ.tgt t).registered = true := by
  cases ha : (σ.tgt t).registered with
  | true => rfl
  | false => exact absurd ((hI.tgt t).unreg ha) h

end S2S.Routing
