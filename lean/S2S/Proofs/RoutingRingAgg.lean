import S2S.Proofs.RoutingRingRef
/-!
Read-outs for C05R: the routing model's abstract `aggregate` (prefix scan + insert-or-max) equals the
C05 reference's `expected` / `expectedCount` whenever ring and reference are related by `RRel`.
-/
namespace S2S.Routing

open S2S.Ring (Op Entry Key Ref Good omax)

theorem ringKey_inj {s s' : SId} (h : ringKey s = ringKey s') : s = s' := by
  have h2 : (s : Int) + 1 = (s' : Int) + 1 := congrArg Prod.snd h
  have h3 : (s : Int) = (s' : Int) := by omega
  exact Int.ofNat_inj.1 h3

theorem ringEntry_key (s : SId) (o : Int) : (ringEntry s o).key = ringKey s := rfl

theorem aget_aggInsert (acc : List (SId × Int)) (s' : SId) (v : Int) (s : SId) :
    aget (aggInsert acc s' v) s = if s' = s then some (omax (aget acc s) v) else aget acc s := by
  induction acc with
  | nil =>
    simp only [aggInsert, rr_aget_cons, rr_aget_nil, omax]
  | cons a rest ih =>
    obtain ⟨s'', v''⟩ := a
    unfold aggInsert
    by_cases h1 : s'' = s'
    · subst h1
      simp only [beq_self_eq_true, if_true, rr_aget_cons]
      by_cases h : s'' = s
      · subst h
        simp only [if_true, omax]
        congr 1
        simp only [Int.max_def]
        split <;> split <;> omega
      · simp only [if_neg h]
    · have : (s'' == s') = false := by simp [h1]
      simp only [this, Bool.false_eq_true, if_false, rr_aget_cons, ih]
      by_cases h : s' = s
      · subst h
        simp only [if_neg h1, if_true]
      · simp only [if_neg h]

/-- the original ids / watermarks of source `s` in a piece of the ring -/
def origsOf (s : SId) (l : ARing) : List Int := (l.filter (fun e => e.2.1 == s)).map (·.2.2)

theorem origsOf_cons (s : SId) (e : Int × SId × Int) (l : ARing) :
    origsOf s (e :: l) = if e.2.1 = s then e.2.2 :: origsOf s l else origsOf s l := by
  unfold origsOf
  by_cases h : e.2.1 = s <;> simp [h]

theorem aget_foldl_aggInsert (s : SId) (l : ARing) (acc : List (SId × Int)) :
    aget (l.foldl (fun acc e => aggInsert acc e.2.1 e.2.2) acc) s =
      (origsOf s l).foldl (fun o v => some (omax o v)) (aget acc s) := by
  induction l generalizing acc with
  | nil => rfl
  | cons e es ih =>
    rw [List.foldl_cons, ih, aget_aggInsert, origsOf_cons]
    by_cases hc : e.2.1 = s
    · rw [if_pos hc, if_pos hc]; rfl
    · rw [if_neg hc, if_neg hc]

theorem aget_aggregate (ring : ARing) (w : Int) (s : SId) :
    aget (aggregate ring w).1 s = (origsOf s (ring.takeWhile (fun e => decide (e.1 ≤ w)))).max? := by
  simp only [aggregate]
  rw [aget_foldl_aggInsert, rr_aget_nil, S2S.Ring.foldl_omax_none]

/-- the reference's `expected` over the image of the abstract ring -/
theorem expected_ringPair (ring : ARing) (r : Ref) (hout : ring.map ringPair = r.out) (w : Int) (s : SId) :
    r.expected w (ringKey s) = (origsOf s (ring.filter (fun e => decide (e.1 ≤ w)))).max? := by
  unfold Ref.expected origsOf
  rw [← hout, List.filter_map, List.map_map, List.filter_filter]
  congr 1
  have : (ring.filter ((fun x : Int × Entry => decide (x.1 ≤ w) && decide (x.2.key = ringKey s)) ∘ ringPair)) =
      ring.filter (fun a => (a.2.1 == s) && decide (a.1 ≤ w)) := by
    apply List.filter_congr
    intro e _
    show (decide ((ringPair e).1 ≤ w) && decide ((ringPair e).2.key = ringKey s)) =
      ((e.2.1 == s) && decide (e.1 ≤ w))
    have e1 : (ringPair e).1 = e.1 := rfl
    have e2 : (ringPair e).2.key = ringKey e.2.1 := rfl
    rw [e1, e2]
    by_cases h : e.2.1 = s
    · simp [h]
    · have : ¬ ringKey e.2.1 = ringKey s := fun hk => h (ringKey_inj hk)
      simp [h, this]
  rw [this]
  rfl

/-- a key that is not the image of a source never occurs -/
theorem expected_other (ring : ARing) (r : Ref) (hout : ring.map ringPair = r.out) (w : Int) (k : Key)
    (hk : ∀ s, k ≠ ringKey s) : r.expected w k = none := by
  unfold Ref.expected
  rw [← hout]
  have : (ring.map ringPair).filter (fun x => decide (x.1 ≤ w) && decide (x.2.key = k)) = [] := by
    rw [List.filter_eq_nil_iff]
    intro x hx
    obtain ⟨e, _, rfl⟩ := List.mem_map.1 hx
    have : ¬ (ringEntry e.2.1 e.2.2).key = k := fun h => hk e.2.1 (by rw [← h]; rfl)
    simp [ringPair, this]
  rw [this]; rfl

theorem rrel_expected {ring : ARing} {npid : Int} {r : Ref} (h : RRel ring npid r) (w : Int) (s : SId) :
    aget (aggregate ring w).1 s = r.expected w (ringKey s) := by
  rw [aget_aggregate, expected_ringPair ring r h.out, contig_takeWhile h.contig]

theorem rrel_expectedCount {ring : ARing} {npid : Int} {r : Ref} (h : RRel ring npid r) (w : Int) :
    (aggregate ring w).2 = r.expectedCount w := by
  simp only [aggregate]
  rw [contig_takeWhile_length h.contig]
  unfold Ref.expectedCount
  have := h.hi
  split
  · rfl
  · split <;> split <;> omega

end S2S.Routing
