import S2S.Proofs.MuxPoolInv
import S2S.Spec.MuxPool
/-! Progress (C10): healing continuations terminate, and when they cannot continue the pool is full. -/
namespace S2S.MuxPool

theorem wsum_append (w : Conn → Nat) (l r : List Conn) : wsum w (l ++ r) = wsum w l + wsum w r := by
  induction l with
  | nil => simp [wsum]
  | cons x l ih => simp [wsum, ih]; omega

theorem wsum_set (w : Conn → Nat) (l : List Conn) (c : Nat) (x : Conn) (h : c < l.length) :
    wsum w (l.set c x) + w l[c] = wsum w l + w x := by
  induction l generalizing c with
  | nil => simp at h
  | cons y l ih =>
    cases c with
    | zero => simp [wsum]; omega
    | succ c =>
      simp only [List.length_cons, Nat.add_lt_add_iff_right] at h
      have := ih c h
      simp [wsum]; omega

theorem wsum_setConn (w : Conn → Nat) (σ : St) (c : Nat) (x : Conn) (h : c < σ.conns.length) :
    wsum w (σ.conns.set c x) + w (σ.conn c) = wsum w σ.conns + w x := by
  rw [conn_eq σ c h]; exact wsum_set w σ.conns c x h

macro "hm_simp" : tactic => `(tactic|
  (simp_all [healMeasure, St.doomed, Phase.healRank, healWeight, St.setConn, St.conn, getD_set_same, Conn.closeBoth, Conn.dying, wsum_append, wsum]))

theorem heal_decrease (d : Defects) (σ σ' : St) (a : Act) (hi : Inv σ) (hl : σ.live = true)
    (hh : healing σ a = true) (hs : step d σ a = some σ') : healMeasure σ' < healMeasure σ ∧ σ'.live = true := by
  cases a with
  | acquire =>
    simp only [step] at hs
    split at hs
    · rename_i hph
      split at hs <;> cases hs
      rename_i hc
      refine ⟨?_, hl⟩
      hm_simp
      omega
    · cases hs
  | connOk =>
    simp only [step] at hs
    split at hs
    · rename_i hph
      cases hs
      refine ⟨?_, hl⟩
      hm_simp
    · cases hs
  | sessOk =>
    simp only [step] at hs
    split at hs
    · rename_i c hph
      obtain ⟨hlen, hst⟩ := hi.pRaw c hph
      cases hs
      refine ⟨?_, hl⟩
      have hw := wsum_setConn healWeight σ c { σ.conn c with sessOpen := true, stage := .sessioned } hlen
      hm_simp
    · cases hs
  | pingOk =>
    simp only [step] at hs
    split at hs
    · rename_i c hph
      split at hs <;> cases hs
      refine ⟨?_, hl⟩
      hm_simp
    · cases hs
  | pingErr k =>
    simp only [step] at hs
    split at hs
    · rename_i c hph
      obtain ⟨hlen, hst⟩ := hi.pSess c (.inl hph)
      simp only [healing, hph] at hh
      split at hs <;> cases hs
      · simp_all
      · refine ⟨?_, hl⟩
        have hw := wsum_setConn healWeight σ c { (σ.conn c).closeBoth with stage := .failed } hlen
        hm_simp
        omega
    · cases hs
  | add =>
    simp only [step] at hs
    split at hs
    · rename_i c hph
      obtain ⟨hlen, hst⟩ := hi.pSess c (.inr hph)
      split at hs <;> cases hs
      · simp_all
      · refine ⟨?_, hl⟩
        have hw := wsum_setConn healWeight σ c { σ.conn c with ctxDone := false, stage := .registered σ.muxSeq } hlen
        hm_simp
        split <;> omega
    · cases hs
  | cleanup c =>
    simp only [step] at hs
    split at hs
    · rename_i mid hst
      split at hs <;> cases hs
      rename_i hc
      obtain ⟨hlen, hcd⟩ := hc
      refine ⟨?_, hl⟩
      have hw := wsum_setConn healWeight σ c { (σ.conn c).closeBoth with ctxDone := true, stage := .cleaned mid } hlen
      have hne : ∀ c', (σ.phase = .haveSession c' ∨ σ.phase = .pinged c') → c ≠ c' := by
        intro c' h heq; subst heq; have := (hi.pSess _ h).2; simp [hst] at this
      cases hph : σ.phase <;> hm_simp <;> simp_all <;> omega
    · cases hs
  | release c =>
    simp only [step] at hs
    split at hs
    · rename_i mid hst
      split at hs <;> cases hs
      rename_i hlen
      refine ⟨?_, hl⟩
      have hw := wsum_setConn healWeight σ c { σ.conn c with stage := .released mid } hlen
      have hne : ∀ c', (σ.phase = .haveSession c' ∨ σ.phase = .pinged c') → c ≠ c' := by
        intro c' h heq; subst heq; have := (hi.pSess _ h).2; simp [hst] at this
      cases hph : σ.phase <;> hm_simp <;> simp_all <;> omega
    · cases hs
  | _ => simp [healing] at hh

/-- a healing continuation from a live reachable state stays live and is no longer than the measure -/
theorem healRun_bounded (d : Defects) (acts : List Act) (σ : St) (hi : Inv σ) (hl : σ.live = true)
    (hr : healRun d σ acts = true) : acts.length ≤ healMeasure σ ∧ (run d σ acts).live = true ∧ Inv (run d σ acts) := by
  induction acts generalizing σ with
  | nil => exact ⟨Nat.zero_le _, hl, hi⟩
  | cons a r ih =>
    simp only [healRun, Bool.and_eq_true] at hr
    obtain ⟨hh, hr⟩ := hr
    cases hs : step d σ a with
    | none => simp [hs] at hr
    | some σ' =>
      simp only [hs] at hr
      obtain ⟨hlt, hl'⟩ := heal_decrease d σ σ' a hi hl hh hs
      obtain ⟨h1, h2, h3⟩ := ih σ' (inv_step d σ σ' a hi hs) hl' hr
      refine ⟨by simp only [List.length_cons]; omega, ?_, ?_⟩
      · simpa [run, hs] using h2
      · simpa [run, hs] using h3

theorem exists_index_of_mem {σ : St} {x : Conn} (h : x ∈ σ.conns) : ∃ c, c < σ.conns.length ∧ σ.conn c = x := by
  obtain ⟨c, hc, rfl⟩ := List.getElem_of_mem h
  exact ⟨c, hc, conn_eq σ c hc⟩

/-- when no healing action is enabled in a live reachable state, the pool is at full strength -/
theorem heal_terminal (d : Defects) (σ : St) (hi : Inv σ) (hl : σ.live = true)
    (hmax : ∀ a, healing σ a = true → step d σ a = none) :
    σ.registeredCount = σ.cap ∧ σ.permits = 0 ∧ σ.phase = .idle ∧ σ.allHealthy = true := by
  have hph : σ.phase = .idle ∧ σ.permits = 0 := by
    cases hp : σ.phase with
    | idle =>
      have := hmax .acquire rfl
      simp [step, hp, hl] at this
      exact ⟨rfl, this⟩
    | acquired => have := hmax .connOk rfl; simp [step, hp] at this
    | haveConn c => have := hmax .sessOk rfl; simp [step, hp] at this
    | haveSession c =>
      cases hso : (σ.conn c).sessOpen with
      | true => have := hmax .pingOk rfl; simp [step, hp, hso] at this
      | false =>
        have := hmax (.pingErr .other) (by simp [healing, hp, hso])
        simp [step, hp, hl] at this
    | pinged c => have := hmax .add rfl; simp [step, hp, hl] at this
    | exited => exact absurd hp (hi.liveOk hl).2.1
  have hnoClean : ∀ x ∈ σ.conns, x.stage.isCleaned = false := by
    intro x hx
    obtain ⟨c, hc, rfl⟩ := exists_index_of_mem hx
    cases hst : (σ.conn c).stage with
    | cleaned mid => have := hmax (.release c) rfl; simp [step, hst, hc] at this
    | _ => rfl
  have hHealthy : ∀ x ∈ σ.conns, (!x.stage.isRegistered || !x.dying σ.live) = true := by
    intro x hx
    obtain ⟨c, hc, rfl⟩ := exists_index_of_mem hx
    cases hst : (σ.conn c).stage with
    | registered mid =>
      have := hmax (.cleanup c) rfl
      simp [step, hst, hc] at this
      simp [Stage.isRegistered, this]
    | _ => simp [Stage.isRegistered]
  have hheld : σ.cntS Stage.isHeld = σ.registeredCount := by
    simp only [St.cntS, St.registeredCount]
    apply List.countP_congr
    intro x hx
    have := hnoClean x hx
    simp [Stage.isHeld, this]
  have hc := hi.cons
  have hlost := (hi.liveOk hl).1
  simp only [hph.1, hph.2, Phase.inflight, hlost, hheld] at hc
  refine ⟨by omega, hph.2, hph.1, ?_⟩
  simpa [St.allHealthy, List.all_eq_true] using hHealthy


theorem run_cons (d : Defects) (σ : St) (a : Act) (r : List Act) :
    run d σ (a :: r) = run d ((step d σ a).getD σ) r := by simp [run]

/-- from every live reachable state some healing continuation of at most `healMeasure σ` steps fills the pool -/
theorem heal_exists (d : Defects) : ∀ (m : Nat) (σ : St), healMeasure σ ≤ m → Inv σ → σ.live = true →
    ∃ acts, healRun d σ acts = true ∧ acts.length ≤ healMeasure σ ∧
      (run d σ acts).registeredCount = σ.cap ∧ (run d σ acts).allHealthy = true ∧ (run d σ acts).live = true := by
  intro m
  induction m with
  | zero =>
    intro σ hm hi hl
    refine ⟨[], rfl, Nat.zero_le _, ?_⟩
    have hmax : ∀ a, healing σ a = true → step d σ a = none := by
      intro a ha
      cases hs : step d σ a with
      | none => rfl
      | some σ' => have := (heal_decrease d σ σ' a hi hl ha hs).1; omega
    obtain ⟨h1, _, _, h4⟩ := heal_terminal d σ hi hl hmax
    exact ⟨h1, h4, hl⟩
  | succ m ih =>
    intro σ hm hi hl
    by_cases hex : ∃ a σ', healing σ a = true ∧ step d σ a = some σ'
    · obtain ⟨a, σ', ha, hs⟩ := hex
      obtain ⟨hlt, hl'⟩ := heal_decrease d σ σ' a hi hl ha hs
      have hi' := inv_step d σ σ' a hi hs
      obtain ⟨acts, h1, h2, h3, h4, h5⟩ := ih σ' (by omega) hi' hl'
      have hcap : σ'.cap = σ.cap := by
        have e1 := hi.cons; have e2 := hi'.cons
        -- cap never changes: read it off the step
        cases a <;> simp only [step] at hs <;> (repeat' split at hs) <;> simp_all <;> (subst hs; rfl)
      refine ⟨a :: acts, ?_, ?_, ?_, ?_, ?_⟩
      · simp [healRun, ha, hs, h1]
      · simp only [List.length_cons]; omega
      · rw [run_cons, hs]; simpa [hcap] using h3
      · rw [run_cons, hs]; exact h4
      · rw [run_cons, hs]; exact h5
    · refine ⟨[], rfl, Nat.zero_le _, ?_⟩
      have hmax : ∀ a, healing σ a = true → step d σ a = none := by
        intro a ha
        cases hs : step d σ a with
        | none => rfl
        | some σ' => exact absurd ⟨a, σ', ha, hs⟩ hex
      obtain ⟨h1, _, _, h4⟩ := heal_terminal d σ hi hl hmax
      exact ⟨h1, h4, hl⟩

end S2S.MuxPool
