import S2S.Spec.Routing
/-!
Basic lemmas for the C02 proofs: `StrictInc` vs `Pairwise`, assoc-list helpers, frame lemmas.
-/
namespace S2S.Routing

/-! ### StrictInc -/

theorem strictInc_iff_pairwise : ∀ l : List Int, StrictInc l ↔ l.Pairwise (· < ·)
  | [] => by simp [StrictInc]
  | [a] => by simp [StrictInc]
  | a :: b :: r => by
    rw [StrictInc, strictInc_iff_pairwise (b :: r)]
    constructor
    · rintro ⟨hab, hp⟩
      rw [List.pairwise_cons]
      refine ⟨?_, hp⟩
      intro c hc
      rcases List.mem_cons.1 hc with rfl | hc
      · exact hab
      · exact Int.lt_trans hab ((List.pairwise_cons.1 hp).1 c hc)
    · intro h
      rw [List.pairwise_cons] at h
      exact ⟨h.1 b (by simp), h.2⟩

/-! ### assoc lists -/

theorem aget_nil {α} (k : Nat) : aget ([] : List (Nat × α)) k = none := rfl

theorem aget_cons {α} (k' : Nat) (v' : α) (r : List (Nat × α)) (k : Nat) :
    aget ((k', v') :: r) k = if k' = k then some v' else aget r k := by
  unfold aget
  rw [List.find?_cons]
  by_cases h : k' = k
  · simp [h]
  · have : (k' == k) = false := by simp [h]
    simp [this, h]

theorem aget_aset {α} (l : List (Nat × α)) (k : Nat) (v : α) (k' : Nat) :
    aget (aset l k v) k' = if k = k' then some v else aget l k' := by
  induction l with
  | nil => simp [aset, aget_cons, aget_nil]
  | cons p r ih =>
    obtain ⟨k0, v0⟩ := p
    simp only [aset]
    by_cases h : k0 = k
    · have : (k0 == k) = true := by simp [h]
      simp only [this, if_true, aget_cons]
      grind
    · have : (k0 == k) = false := by simp [h]
      simp only [this, Bool.false_eq_true, if_false, aget_cons, ih]
      grind

theorem aget_filter_ne {α} (l : List (Nat × α)) (t t' : Nat) :
    aget (l.filter (fun p => p.1 != t)) t' = if t' = t then none else aget l t' := by
  induction l with
  | nil => simp [aget_nil]
  | cons p r ih =>
    obtain ⟨k0, v0⟩ := p
    by_cases h : k0 = t
    · have : (k0 != t) = false := by simp [h]
      simp only [List.filter_cons, this, Bool.false_eq_true, if_false, ih, aget_cons]
      grind
    · have : (k0 != t) = true := by simp [h]
      simp only [List.filter_cons, this, if_true, aget_cons, ih]
      grind
theorem aget_groupByOwner (tasks : List (Int × TId)) (t : TId) :
    (aget (groupByOwner tasks) t).getD [] = (tasks.filter (fun p => p.2 == t)).map (·.1) := by
  induction tasks with
  | nil => simp [groupByOwner, aget_nil]
  | cons p rest ih =>
    obtain ⟨id, t0⟩ := p
    simp only [groupByOwner]
    cases hg : aget (groupByOwner rest) t0 with
    | some ids =>
      simp only [aget_aset]
      by_cases h : t0 = t
      · subst h
        rw [hg] at ih
        simp [← ih]
      · simp [h, ih]
    | none =>
      simp only [aget_cons]
      by_cases h : t0 = t
      · subst h
        rw [hg] at ih
        simp [← ih]
      · simp [h, ih]

/-! ### frame lemmas -/

@[simp] theorem tgt_setSrc (σ : State) (s : SId) (x : Source) (t : TId) :
    (σ.setSrc s x).tgt t = σ.tgt t := rfl

@[simp] theorem src_setTgt (σ : State) (t : TId) (x : Target) (s : SId) :
    (σ.setTgt t x).src s = σ.src s := rfl

@[simp] theorem sources_setTgt (σ : State) (t : TId) (x : Target) :
    (σ.setTgt t x).sources = σ.sources := rfl

@[simp] theorem targets_setSrc (σ : State) (s : SId) (x : Source) :
    (σ.setSrc s x).targets = σ.targets := rfl

@[simp] theorem sources_length_setSrc (σ : State) (s : SId) (x : Source) :
    (σ.setSrc s x).sources.length = σ.sources.length := by simp [State.setSrc]

@[simp] theorem targets_length_setTgt (σ : State) (t : TId) (x : Target) :
    (σ.setTgt t x).targets.length = σ.targets.length := by simp [State.setTgt]

theorem src_setSrc (σ : State) (s : SId) (x : Source) (s' : SId) (h : s < σ.sources.length) :
    (σ.setSrc s x).src s' = if s' = s then x else σ.src s' := by
  simp only [State.src, State.setSrc, List.getD_eq_getElem?_getD, List.getElem?_set]
  by_cases h2 : s' = s
  · subst h2; simp [h]
  · simp [h2, Ne.symm h2]

theorem tgt_setTgt (σ : State) (t : TId) (x : Target) (t' : TId) (h : t < σ.targets.length) :
    (σ.setTgt t x).tgt t' = if t' = t then x else σ.tgt t' := by
  simp only [State.tgt, State.setTgt, List.getD_eq_getElem?_getD, List.getElem?_set]
  by_cases h2 : t' = t
  · subst h2; simp [h]
  · simp [h2, Ne.symm h2]

theorem src_default (σ : State) (s : SId) (h : σ.sources.length ≤ s) : σ.src s = {} := by
  simp [State.src, List.getD_eq_getElem?_getD, List.getElem?_eq_none h]

theorem tgt_default (σ : State) (t : TId) (h : σ.targets.length ≤ t) : σ.tgt t = {} := by
  simp [State.tgt, List.getD_eq_getElem?_getD, List.getElem?_eq_none h]

theorem src_lt_of_ne (σ : State) (s : SId) (h : σ.src s ≠ {}) : s < σ.sources.length := by
  apply Decidable.byContradiction
  intro hn
  exact h (src_default σ s (Nat.le_of_not_lt hn))

theorem tgt_lt_of_ne (σ : State) (t : TId) (h : σ.tgt t ≠ {}) : t < σ.targets.length := by
  apply Decidable.byContradiction
  intro hn
  exact h (tgt_default σ t (Nat.le_of_not_lt hn))

theorem src_lt_of_active (σ : State) (s : SId) (h : (σ.src s).active = true) : s < σ.sources.length :=
  src_lt_of_ne σ s (fun he => by rw [he] at h; exact absurd h (by decide))

theorem src_lt_of_pc (σ : State) (s : SId) (h : (σ.src s).pc ≠ .idle) : s < σ.sources.length :=
  src_lt_of_ne σ s (fun he => by rw [he] at h; exact h rfl)

theorem tgt_lt_of_registered (σ : State) (t : TId) (h : (σ.tgt t).registered = true) : t < σ.targets.length :=
  tgt_lt_of_ne σ t (fun he => by rw [he] at h; exact absurd h (by decide))

theorem tgt_lt_of_started (σ : State) (t : TId) (h : (σ.tgt t).started = true) : t < σ.targets.length :=
  tgt_lt_of_ne σ t (fun he => by rw [he] at h; exact absurd h (by decide))

theorem tgt_lt_of_holding (σ : State) (t : TId) (h : (σ.tgt t).holding ≠ none) : t < σ.targets.length :=
  tgt_lt_of_ne σ t (fun he => by rw [he] at h; exact h rfl)

theorem tgt_lt_of_replayTodo (σ : State) (t : TId) (h : (σ.tgt t).replayTodo ≠ none) : t < σ.targets.length :=
  tgt_lt_of_ne σ t (fun he => by rw [he] at h; exact h rfl)

theorem tgt_lt_of_ackPc (σ : State) (t : TId) (h : (σ.tgt t).ackPc ≠ .idle) : t < σ.targets.length :=
  tgt_lt_of_ne σ t (fun he => by rw [he] at h; exact h rfl)

end S2S.Routing
