import S2S.Proofs.RegistryLive
/-! C08: the statements of `Props/C08.lean` assembled from the run invariants. -/
namespace S2S.Registry

set_option linter.unusedSimpArgs false
set_option linter.unusedVariables false

theorem channels_never_left_behind (c : Cfg) (acts : List Act) :
    let σ := run c State.init acts
    (∀ sh t, aget σ.sendChans sh = some t →
        t < σ.next ∧ (σ.inc t).shard = sh ∧ (σ.inc t).spc ≠ .start ∧ (σ.inc t).spc ≠ .done) ∧
    (∀ sh t, aget σ.ackChans sh = some t →
        t < σ.next ∧ (σ.inc t).shard = sh ∧
          ((σ.inc t).rpc = .ackSet ∨ (σ.inc t).rpc = .cancelSet ∨ (σ.inc t).rpc = .running)) ∧
    (AllDone σ → ∀ sh, aget σ.sendChans sh = none ∧ aget σ.ackChans sh = none) := by
  intro σ
  have I := invU_run c acts
  refine ⟨I.send, I.ack, ?_⟩
  intro hd sh
  constructor
  · cases hs : aget σ.sendChans sh with
    | none => rfl
    | some t =>
      obtain ⟨h1, _, _, h4⟩ := I.send sh t hs
      exact absurd (hd t h1).1 h4
  · cases hs : aget σ.ackChans sh with
    | none => rfl
    | some t =>
      obtain ⟨h1, _, h3⟩ := I.ack sh t hs
      have := (hd t h1).2
      rcases h3 with h | h | h <;> rw [h] at this <;> cases this

/-- the hypotheses behind "nothing remains": serial receiver sections and successful opens -/
def EndHyp (σ : State) (a : Act) : Prop := RecvOK σ a ∧ OpenOK σ a

structure InvEnd (σ : State) : Prop where
  u : InvU σ
  loc : InvLocal σ
  serial : InvSerial σ
  past : InvPast σ
  cx : InvCX σ
  ce : InvCE σ
  nc : InvNC σ
  ax : InvAX σ
  ae : InvAE σ

theorem invEnd_init : InvEnd State.init :=
  ⟨invU_init, fun _ _ _ h => by simp [State.init, aget] at h,
   fun i _ hi _ _ _ _ _ => by simp [State.init] at hi,
   ⟨fun _ _ h => by simp [State.init, aget] at h, fun _ _ h => by simp [inc_init] at h, fun _ h => by simp [inc_init] at h⟩,
   fun _ h => by simp [inc_init] at h,
   fun _ _ h => by simp [State.init, aget] at h,
   fun _ h => by simp [inc_init] at h,
   fun _ h => by simp [inc_init] at h,
   fun _ _ h => by simp [State.init, aget] at h⟩

theorem invEnd_step {c σ a σ'} (h : step c σ a = some σ') (hc : c.cleanupUnconditional = false) (hy : EndHyp σ a)
    (I : InvEnd σ) : InvEnd σ' :=
  ⟨invU_step h I.u, invLocal_step h I.u.bound I.loc, invSerial_step h hc hy.1 I.serial,
   invPast_step h I.u.bound I.past, invCX_step h I.u.bound I.past I.cx, invCE_step h I.u.bound I.past I.cx I.ce,
   invNC_step h I.u.bound I.past I.serial I.nc, invAX_step h hy.2 I.u.bound I.past I.nc I.ax,
   invAE_step h hy.2 I.u.bound I.ax I.ae⟩

theorem invEnd_run {c : Cfg} (hc : c.cleanupUnconditional = false) (acts : List Act)
    (H : Along c EndHyp State.init acts) : InvEnd (run c State.init acts) :=
  run_induct (H := EndHyp) (fun _ _ _ h hy I => invEnd_step h hc hy I) acts State.init invEnd_init H

theorem empty_of_invEnd {σ : State} (I : InvEnd σ) (hd : AllDone σ) : Empty σ := by
  intro sh
  refine ⟨?_, ?_, ?_, ?_, ?_⟩
  · cases hs : aget σ.localShards sh with
    | none => rfl
    | some p =>
      obtain ⟨t, st⟩ := p
      obtain ⟨h1, _, _, h4⟩ := I.loc sh t st hs
      rw [(hd t h1).1] at h4; simp at h4
  · cases hs : aget σ.sendChans sh with
    | none => rfl
    | some t =>
      obtain ⟨h1, _, _, h4⟩ := I.u.send sh t hs
      exact absurd (hd t h1).1 h4
  · cases hs : aget σ.ackChans sh with
    | none => rfl
    | some t =>
      obtain ⟨h1, _, h3⟩ := I.u.ack sh t hs
      have := (hd t h1).2
      rcases h3 with h | h | h <;> rw [h] at this <;> cases this
  · cases hs : aget σ.cancels sh with
    | none => rfl
    | some t =>
      have h1 := I.u.bound.2.1 sh t hs
      have hdone := (hd t h1).2
      rcases I.ce sh t hs with h | ⟨j, hj, _, h3⟩
      · rcases h with h | h | h | h <;> rw [h] at hdone <;> cases hdone
      · rw [(hd j hj).2] at h3; cases h3
  · cases hs : aget σ.actives sh with
    | none => rfl
    | some t =>
      obtain ⟨h1, _, h3⟩ := I.ae sh t hs
      rcases h3 with h | ⟨j, hj, _, h3⟩
      · rw [(hd t h1).2] at h; simp at h
      · rw [(hd j hj).2] at h3; simp at h3

theorem all_done_empty (acts : List Act) (h : Along Cfg.cur EndHyp State.init acts) :
    AllDone (run Cfg.cur State.init acts) → Empty (run Cfg.cur State.init acts) :=
  empty_of_invEnd (invEnd_run rfl acts h)

/-! ### exactness at quiescence -/

/-- the hypotheses behind "exactly the newest live incarnation" -/
def ExactHyp (σ : State) (a : Act) : Prop := StampsOK σ a ∧ RecvOK σ a ∧ OpenOK σ a ∧ OrderOK σ a

structure InvAll (σ : State) : Prop where
  e : InvEnd σ
  stamp : InvStamp σ
  c : InvC σ
  j : InvJ σ
  a : InvA σ
  ackOwn : InvAckOwn σ
  down : InvDown σ
  s2 : InvS2 σ
  l2 : InvL2 σ
  sup : InvSup σ

theorem invAll_init : InvAll State.init :=
  ⟨invEnd_init,
   fun i _ hi _ _ _ _ _ => by simp [State.init] at hi,
   fun _ h => by simp [inc_init] at h,
   fun _ _ _ _ h _ _ => by simp [inc_init] at h,
   fun _ h => by simp [inc_init] at h,
   fun _ h _ => by simp [inc_init] at h,
   fun i hi _ => by simp [State.init] at hi,
   fun _ _ h => by simp [inc_init] at h,
   fun _ h => by simp [inc_init] at h,
   fun _ j _ hj _ _ => by simp [State.init] at hj⟩

theorem invAll_step {c σ a σ'} (h : step c σ a = some σ') (hc : c.cleanupUnconditional = false) (hc2 : c.secondDelete = false)
    (hy : ExactHyp σ a) (I : InvAll σ) : InvAll σ' :=
  have B := I.e.u.bound
  ⟨invEnd_step h hc ⟨hy.2.1, hy.2.2.1⟩ I.e,
   invStamp_step h hy.1 B I.stamp,
   invC_step h hc B I.e.serial I.j I.c, invJ_step h B I.e.serial I.c I.j, invA_step h hc B I.e.serial I.j I.a,
   invAckOwn_step h B I.e.serial I.j I.ackOwn, invDown_step h hy.2.2.1 I.down,
   invS2_step h hy.2.2.2 B I.s2, invL2_step h hc2 hy.2.2.2 B I.stamp I.l2,
   invSup_step h hy.2.1 hy.2.2.2 B I.c I.sup⟩

theorem invAll_run {c : Cfg} (hc : c.cleanupUnconditional = false) (hc2 : c.secondDelete = false) (acts : List Act)
    (H : Along c ExactHyp State.init acts) : InvAll (run c State.init acts) :=
  run_induct (H := ExactHyp) (fun _ _ _ h hy I => invAll_step h hc hc2 hy I) acts State.init invAll_init H

theorem newest_some {p : Tok → Bool} : ∀ {n i}, newest p n = some i → i < n ∧ p i = true
  | 0, i, h => by simp [newest] at h
  | n + 1, i, h => by
    unfold newest at h
    split at h
    · injection h with e; subst e; exact ⟨Nat.lt_succ_self _, by assumption⟩
    · have := newest_some h; exact ⟨by omega, this.2⟩

theorem newest_none {p : Tok → Bool} : ∀ {n}, newest p n = none → ∀ j, j < n → p j = false
  | 0, _, j, hj => by omega
  | n + 1, h, j, hj => by
    unfold newest at h
    split at h
    · cases h
    · rename_i hp
      by_cases e : j = n
      · subst e; simpa using hp
      · exact newest_none h j (by omega)

theorem exact_of_invAll {σ : State} (I : InvAll σ) (hq : Quiescent σ) : Exact σ := by
  have B := I.e.u.bound
  intro sh
  refine ⟨?_, ?_, ?_, ?_, ?_⟩
  -- ---------------------------------------------------------------- sender side
  case refine_1 | refine_2 =>
    all_goals (cases hl : liveSender σ sh with
    | none =>
      have hn := newest_none hl
      first
      | (cases hs : aget σ.localShards sh with
         | none => rfl
         | some p =>
           obtain ⟨t, st⟩ := p
           obtain ⟨h1, h2, _, h4⟩ := I.e.loc sh t st hs
           have := hn t h1
           rcases (hq t h1).1 with hd | hd
           · rw [hd] at h4; simp at h4
           · simp [h2, hd.1] at this)
      | (cases hs : aget σ.sendChans sh with
         | none => rfl
         | some t =>
           obtain ⟨h1, h2, _, h4⟩ := I.e.u.send sh t hs
           have := hn t h1
           rcases (hq t h1).1 with hd | hd
           · exact absurd hd h4
           · simp [h2, hd.1] at this)
    | some i =>
      obtain ⟨hin, hp⟩ := newest_some hl
      simp at hp
      obtain ⟨hsh, hrun⟩ := hp
      have hlive : Inc.sLive σ i := by
        rcases (hq i hin).1 with hd | hd
        · rw [hd] at hrun; cases hrun
        · exact hd
      -- no newer incarnation of the shard exists: it would have terminated this one
      have hnone : ∀ j, i < j → j < σ.next → (σ.inc j).shard = (σ.inc i).shard → False := by
        intro j hij hj hs
        have hjr : (σ.inc j).rpc ≠ .start := by
          rcases (hq j hj).2 with hd | hd
          · rw [hd]; simp
          · rw [hd.1]; simp
        have hdown : σ.down i = false := hlive.2.1
        rcases I.sup i j hij hj hs.symm hjr with h1 | h1 | h1 | h1
        · rcases (hq i hin).2 with hd | hd
          · rw [hd] at h1; cases h1
          · rw [hd.1] at h1; cases h1
        · rcases (hq i hin).2 with hd | hd
          · have := I.down i hin (Or.inr (Or.inr (Or.inr hd))); rw [this] at hdown; cases hdown
          · rw [hd.2.2] at h1; cases h1
        · have := I.down i hin (Or.inr (Or.inr (Or.inr h1))); rw [this] at hdown; cases hdown
        · rcases (hq j hj).2 with hd | hd
          · rw [hd] at h1; cases h1
          · rw [hd.1] at h1; cases h1
      first
      | (have := I.l2 i (by simp [hrun]) (fun j hij hj hs => absurd (hnone j hij hj hs) id)
         rw [hsh] at this; rw [this]; rfl)
      | (have := I.s2 i (by simp [hrun]) (by simp [hrun]) (fun j hij hj hs => absurd (hnone j hij hj hs) id)
         rw [hsh] at this; exact this))
  -- ---------------------------------------------------------------- receiver side
  all_goals (cases hl : liveReceiver σ sh with
    | none =>
      have hn := newest_none hl
      first
      | (cases hs : aget σ.ackChans sh with
         | none => rfl
         | some t =>
           obtain ⟨h1, h2, h3⟩ := I.e.u.ack sh t hs
           have := hn t h1
           rcases (hq t h1).2 with hd | hd
           · rcases h3 with h | h | h <;> rw [h] at hd <;> cases hd
           · simp [h2, hd.1] at this)
      | (cases hs : aget σ.cancels sh with
         | none => rfl
         | some t =>
           have h1 := B.2.1 sh t hs
           have h2 := (I.e.past.1 sh t hs).1
           have := hn t h1
           rcases I.e.ce sh t hs with h | ⟨j, hj, _, h3⟩
           · rcases (hq t h1).2 with hd | hd
             · rcases h with h | h | h | h <;> rw [h] at hd <;> cases hd
             · simp [h2, hd.1] at this
           · rcases (hq j hj).2 with hd | hd
             · rw [hd] at h3; cases h3
             · rw [hd.1] at h3; cases h3)
      | (cases hs : aget σ.actives sh with
         | none => rfl
         | some t =>
           obtain ⟨h1, h2, h3⟩ := I.e.ae sh t hs
           have := hn t h1
           rcases h3 with h | ⟨j, hj, _, h3⟩
           · rcases (hq t h1).2 with hd | hd
             · rw [hd] at h; simp at h
             · simp [h2, hd.1] at this
           · rcases (hq j hj).2 with hd | hd
             · rw [hd] at h3; simp at h3
             · rw [hd.1] at h3; simp at h3)
    | some i =>
      obtain ⟨hin, hp⟩ := newest_some hl
      simp at hp
      obtain ⟨hsh, hrun⟩ := hp
      have hnc : (σ.inc i).cancelled = false := by
        rcases (hq i hin).2 with hd | hd
        · rw [hd] at hrun; cases hrun
        · exact hd.2.2
      first
      | (have := I.ackOwn i (Or.inr (Or.inr hrun)) hnc; rw [hsh] at this; exact this)
      | (have := I.c i (Or.inl ⟨Or.inr (Or.inl hrun), hnc⟩); rw [hsh] at this; exact this)
      | (have := I.a i (Or.inl ⟨Or.inl hrun, hnc⟩); rw [hsh] at this; exact this))

theorem exact_at_quiescence (acts : List Act) (h : Along Cfg.cur ExactHyp State.init acts) :
    Quiescent (run Cfg.cur State.init acts) → Exact (run Cfg.cur State.init acts) :=
  exact_of_invAll (invAll_run rfl rfl acts h)

end S2S.Registry
