import S2S.Spec.Routing
namespace S2S.Routing
theorem mono_bounded_cur (ns nt : Nat) (acts : List Act)
    (henv : EnvOK Cfg.cur (State.init ns nt) acts) (hnf : NoFaults acts) :
    MonoBoundedAlong Cfg.cur (State.init ns nt) acts := sorry
theorem eventually_complete_cur (ns nt : Nat) (acts : List Act)
    (henv : EnvOK Cfg.cur (State.init ns nt) acts) (hnf : NoFaults acts)
    (s : SId) (H : Int) (hnt : 0 < nt)
    (hact : ((run Cfg.cur (State.init ns nt) acts).src s).active = true)
    (hreg : ∀ t, t < nt → ((run Cfg.cur (State.init ns nt) acts).tgt t).registered = true)
    (hH : RecvOK nt ((run Cfg.cur (State.init ns nt) acts).src s) [] H) :
    ∃ fuel, ((fairRound Cfg.cur fuel s H (fairRound Cfg.cur fuel s H (run Cfg.cur (State.init ns nt) acts))).src s).acksSent.getLast? = some H := sorry
end S2S.Routing
