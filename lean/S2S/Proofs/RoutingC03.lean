import S2S.Proofs.RoutingC03Safe
import S2S.Proofs.RoutingC03PhaseB
namespace S2S.Routing

theorem mono_bounded_of_inv {σ : State} {acts : List Act} (hI : Inv σ)
    (henv : EnvOK Cfg.cur σ acts) (hnf : NoFaults acts) : MonoBoundedAlong Cfg.cur σ acts := by
  induction acts generalizing σ with
  | nil => trivial
  | cons a rest ih =>
    have hnf' : NoFaults rest := fun b hb => hnf b (List.mem_cons_of_mem _ hb)
    obtain ⟨hr, henv'⟩ := henv
    unfold MonoBoundedAlong
    cases hstep : step Cfg.cur σ a with
    | none =>
      rw [hstep] at henv'
      exact ih hI henv' hnf'
    | some σ' =>
      rw [hstep] at henv'
      have := step_inv hI hstep (hnf a List.mem_cons_self) (by
        intro s tasks high ha; subst ha; exact hr)
      exact ⟨this.2, ih this.1 henv' hnf'⟩

theorem mono_bounded_cur (ns nt : Nat) (acts : List Act)
    (henv : EnvOK Cfg.cur (State.init ns nt) acts) (hnf : NoFaults acts) :
    MonoBoundedAlong Cfg.cur (State.init ns nt) acts :=
  mono_bounded_of_inv (Inv.init ns nt) henv hnf

theorem eventually_complete_cur (ns nt : Nat) (acts : List Act)
    (henv : EnvOK Cfg.cur (State.init ns nt) acts) (hnf : NoFaults acts)
    (s : SId) (H : Int) (hnt : 0 < nt)
    (hact : ((run Cfg.cur (State.init ns nt) acts).src s).active = true)
    (hst : ∀ t, t < nt → ((run Cfg.cur (State.init ns nt) acts).tgt t).started = true)
    (hH : RecvOK nt ((run Cfg.cur (State.init ns nt) acts).src s) [] H) :
    ∃ fuel, ((fairRound Cfg.cur fuel s H (fairRound Cfg.cur fuel s H (run Cfg.cur (State.init ns nt) acts))).src s).acksSent.getLast? = some H := by
  have hI2 : Inv2 nt (run Cfg.cur (State.init ns nt) acts) := run_Inv2 (Inv2.init ns nt) henv hnf
  have hK : Keep nt s H (run Cfg.cur (State.init ns nt) acts) := ⟨⟨hI2, hst⟩, hact, hH.2.2.2⟩
  have h1 : 1 ≤ H := hH.2.2.1
  obtain ⟨fuel, hfuel⟩ := two_rounds_eq Cfg.cur s H (run Cfg.cur (State.init ns nt) acts)
  refine ⟨fuel, ?_⟩
  rw [hfuel]
  obtain ⟨hK1, hI1⟩ := hK.rounded h1
  exact round2 hK1 hI1 hnt h1
end S2S.Routing
