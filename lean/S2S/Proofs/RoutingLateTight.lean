import S2S.Proofs.RoutingTightMain
import S2S.Proofs.RoutingLateBase
/-!
Delayed delivery of acknowledgements ("C03S"), part 3: runs WITH faults (stream breaks and re-opens at any position),
modulo the recorded findings, on top of the tight C04 invariant `InvT` (`RoutingTightDef`).

`acks_safe_tight` judges an acknowledgement at the step that sends it.  Here: every acknowledgement EVER sent covers,
among the tasks received SO FAR and judged in the CURRENT state (with the current ghost), only tasks that are
`Confirmed` or `ExcusedT`.

Why: a new acknowledgement is safe by `InvT` (`step_ackStepSafeT`); for an old one
* `confirmed` only grows (`Late.step_confirmed`);
* `ExcusedT` is monotone for a task that has been received (`Late.excusedT_step`): `passed` only grows, `received`
  grows by appending, and `base` changes only when the source stream re-opens — then EVERY task received so far
  becomes excused (b);
* a task received later is either a re-sent one (already received: previous case) or lies at or above `maxHigh`
  (`RecvFresh`), and every acknowledgement ever sent is `≤ maxHigh` (`Late.LInvT.bound`).
-/
namespace S2S.Routing

/-- the ghost threaded along a run (the fold `EnvOKT` / `AcksSafeTAlong` perform), next to the state -/
def Late.runT (c : Cfg) : State → GhostT → List Act → State × GhostT
  | σ, γ, [] => (σ, γ)
  | σ, γ, a :: rest => Late.runT c ((step c σ a).getD σ) (γ.next c σ a) rest

theorem Late.runT_fst (c : Cfg) (σ : State) (γ : GhostT) (acts : List Act) :
    (Late.runT c σ γ acts).1 = run c σ acts := by
  induction acts generalizing σ γ with
  | nil => rfl
  | cons a rest ih => rw [Late.runT, Late.run_cons]; exact ih _ _

theorem Late.runT_append (c : Cfg) (σ : State) (γ : GhostT) (pre post : List Act) :
    Late.runT c σ γ (pre ++ post) = Late.runT c (Late.runT c σ γ pre).1 (Late.runT c σ γ pre).2 post := by
  induction pre generalizing σ γ with
  | nil => rfl
  | cons a rest ih => simp only [List.cons_append, Late.runT]; exact ih _ _

/-! ### the ghost only moves one way -/

theorem Late.updT_g (σ : State) (γ : GhostT) (a : Act) : (γ.upd σ a).g = γ.g.upd σ a := by
  cases a with
  | take t =>
    simp only [GhostT.upd]
    split <;> rfl
  | _ => rfl

theorem Late.updT_passed_mono (σ : State) (γ : GhostT) (a : Act) (t : TId) {q : SId × Int}
    (h : q ∈ γ.passedOf t) : q ∈ (γ.upd σ a).passedOf t := by
  cases a with
  | take t0 =>
    simp only [GhostT.upd]
    split
    · exact h
    · simp only [GhostT.passedOf, getD_aget_aset]
      split
      · rename_i e; subst e; exact List.mem_append_left _ h
      · exact h
  | _ => exact h

theorem Late.updT_maxHigh_mono (σ : State) (γ : GhostT) (a : Act) (s : SId) :
    γ.g.maxHighOf s ≤ (γ.upd σ a).g.maxHighOf s := by
  rw [Late.updT_g]
  cases a with
  | recv s0 tasks high =>
    by_cases e : s = s0
    · subst e
      rw [upd_recv_maxHigh_self]
      split <;> omega
    · rw [upd_recv_maxHigh_ne σ γ.g s0 tasks high e]; exact Int.le_refl _
  | _ => exact Int.le_refl _

theorem Late.updT_baseOf (σ : State) (γ : GhostT) (a : Act) (s : SId) :
    (γ.upd σ a).g.baseOf s = γ.g.baseOf s ∨
      (a = .openSrc s ∧ (γ.upd σ a).g.baseOf s = (σ.src s).received.length) := by
  rw [Late.updT_g]
  cases a with
  | openSrc s0 =>
    by_cases e : s = s0
    · subst e
      right
      refine ⟨rfl, ?_⟩
      simp only [Ghost.upd, Ghost.baseOf, getD_aget_aset, if_true]
    · left
      simp only [Ghost.upd, Ghost.baseOf, getD_aget_aset, e, if_false]
  | _ => exact Or.inl rfl

/-- **`ExcusedT` is monotone along `step` for a task that has been received** -/
theorem Late.excusedT_step {σ σ' : State} {γ : GhostT} {a : Act} (h : step Cfg.cur σ a = some σ')
    {s : SId} {p : Int × TId} (hp : p ∈ (σ.src s).received) (he : ExcusedT σ γ s p) :
    ExcusedT σ' (γ.upd σ a) s p := by
  rcases he with h1 | h2
  · left
    rcases Late.updT_baseOf σ γ a s with e | ⟨ea, e⟩
    · rw [e]
      rcases (Late.step_src h s).received_cases with r | ⟨tasks, high, _, r⟩
      · rw [r]; exact h1
      · rw [r]; exact mem_take_append h1
    · rw [e]
      rcases (Late.step_src h s).received_cases with r | ⟨tasks, high, ea', _⟩
      · rw [r, List.take_length]; exact hp
      · rw [ea] at ea'; cases ea'
  · right
    exact Late.updT_passed_mono σ γ a p.2 h2

/-! ### the history invariant with faults -/

structure Late.LInvT (σ : State) (γ : GhostT) : Prop where
  /-- every acknowledgement ever sent on stream `s` is at most the largest watermark any incarnation of `s` announced -/
  bound : ∀ s, ∀ v ∈ (σ.src s).acksSent, v ≤ γ.g.maxHighOf s
  /-- every acknowledgement ever sent covers, among the tasks received so far, only confirmed or excused ones -/
  safe : ∀ s, ∀ v ∈ (σ.src s).acksSent, ∀ p ∈ (σ.src s).received, p.1 < v →
    Confirmed σ s p.1 p.2 ∨ ExcusedT σ γ s p

theorem Late.linvT_init (ns nt : Nat) : Late.LInvT (State.init ns nt) {} := by
  refine ⟨fun s v hv => ?_, fun s v hv => ?_⟩
  · rw [src_init] at hv; cases hv
  · rw [src_init] at hv; cases hv

/-- the environment hypothesis of one step, as `EnvOKT` threads it -/
def Late.StepEnvT (σ : State) (γ : GhostT) (a : Act) : Prop :=
  match a with
  | .recv s tasks high => RecvOK σ.targets.length (σ.src s) tasks high ∧ RecvFresh σ γ.g s tasks
  | _ => True

theorem Late.step_linvT {σ σ' : State} {γ : GhostT} {a : Act} (hI' : InvT σ' (γ.upd σ a)) (hL : Late.LInvT σ γ)
    (henv : Late.StepEnvT σ γ a)
    (h : step Cfg.cur σ a = some σ') : Late.LInvT σ' (γ.upd σ a) := by
  have hlast := step_acksAreLast a h
  refine ⟨fun s v hv => ?_, fun s v hv p hp hlt => ?_⟩
  · rcases Late.mem_acks_step h hv with hold | hnew
    · exact Int.le_trans (hL.bound s v hold) (Late.updT_maxHigh_mono σ γ a s)
    · exact (hI'.f.src s).last_le v (hlast s v hnew)
  · rcases Late.mem_acks_step h hv with hold | hnew
    · -- an acknowledgement sent earlier
      have old : ∀ q ∈ (σ.src s).received, q.1 < v →
          Confirmed σ' s q.1 q.2 ∨ ExcusedT σ' (γ.upd σ a) s q := by
        intro q hq hqv
        rcases hL.safe s v hold q hq hqv with hc | he
        · exact Or.inl ((Late.step_confirmed h q.2).subset hc)
        · exact Or.inr (Late.excusedT_step h hq he)
      rcases (Late.step_src h s).received_cases with e | ⟨tasks, high, ea, e⟩
      · rw [e] at hp; exact old p hp hlt
      · rw [e] at hp
        rcases List.mem_append.1 hp with hp | hp
        · exact old p hp hlt
        · subst ea
          rcases henv.2 p hp with hre | hfresh
          · exact old p hre hlt
          · have := hL.bound s v hold
            exact absurd hlt (by omega)
    · -- the acknowledgement this very step sends: `acks_safe_tight`'s step lemma
      have hs : s < σ'.sources.length := by
        apply src_lt_of_ne
        intro e
        have : v ∈ (σ'.src s).acksSent := List.mem_of_mem_drop hnew
        rw [e] at this; cases this
      exact step_ackStepSafeT hI' hlast s hs v hnew p hp hlt

/-- both invariants hold, with the threaded ghost, in every state a well-formed run (faults allowed) reaches -/
theorem Late.run_linvT {σ : State} {γ : GhostT} (hI : InvT σ γ) (hL : Late.LInvT σ γ) (acts : List Act)
    (henv : EnvOKT Cfg.cur σ γ acts) :
    InvT (Late.runT Cfg.cur σ γ acts).1 (Late.runT Cfg.cur σ γ acts).2 ∧
    Late.LInvT (Late.runT Cfg.cur σ γ acts).1 (Late.runT Cfg.cur σ γ acts).2 := by
  induction acts generalizing σ γ with
  | nil => exact ⟨hI, hL⟩
  | cons a rest ih =>
    unfold EnvOKT at henv
    obtain ⟨henva, henvr⟩ := henv
    rw [Late.runT]
    cases hstep : step Cfg.cur σ a with
    | none =>
      rw [hstep, ghostT_next_none γ hstep] at henvr
      rw [ghostT_next_none γ hstep]
      exact ih hI hL henvr
    | some σ' =>
      rw [hstep] at henvr
      rw [ghostT_next_of_step γ hstep] at henvr ⊢
      have hI' : InvT σ' (γ.upd σ a) := step_invT hI a henva hstep
      exact ih hI' (Late.step_linvT hI' hL henva hstep) henvr

theorem Late.linvT_cur (ns nt : Nat) (acts : List Act) (henv : EnvOKT Cfg.cur (State.init ns nt) {} acts) :
    Late.LInvT (Late.runT Cfg.cur (State.init ns nt) {} acts).1 (Late.runT Cfg.cur (State.init ns nt) {} acts).2 :=
  (Late.run_linvT (invT_init ns nt) (Late.linvT_init ns nt) acts henv).2

end S2S.Routing
