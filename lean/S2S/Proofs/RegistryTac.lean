import S2S.Proofs.RegistryBasic
/-! Tactics shared by the C08 invariant proofs. -/
namespace S2S.Registry

set_option linter.unusedSimpArgs false
set_option linter.unusedVariables false

/-- after `cases a`: one goal per branch of `step` for that action, with the successor state substituted -/
macro "step_inv " h:ident : tactic => `(tactic| (
  unfold step at $h:ident
  split at $h:ident
  all_goals (first | contradiction | skip)
  simp only at $h:ident
  all_goals (repeat' split at $h:ident)
  all_goals (first | contradiction | skip)
  all_goals (injection $h:ident with $h:ident; subst $h:ident)))

/-- split every `if` of the goal and let `simp_all` finish -/
macro "crush" : tactic => `(tactic| ((repeat' split) <;> simp_all))

/-- three groups of actions, so that a big case analysis (`…_step`) can be elaborated as three declarations -/
inductive Grp where
  | s | r | e

/-- `s`: the sender's steps, `open`, `tick`;  `r`: the receiver's start-up steps, `wm`, `brk`, `stop`;
    `e`: the receiver's clean-up steps, the three shutdown notices (`sNotice`, `rNotice`, `selfEnd`), deliveries and replays -/
def Act.grp : Act → Grp
  | .open _ _ | .tick | .sSet _ | .sAdd _ | .sSnap _ | .sLook _ _ | .sSend _ | .sNotifyDone _ | .sClose _
  | .sUnregCheck _ | .sUnregAgain _ | .sRmChan _ => .s
  | .rGet _ | .rCancel _ | .rRmCancel _ | .rForceAck _ | .rOpen _ _ | .rSetAck _ | .rSetCancel _ | .rRegActive _
  | .wm _ | .brk _ | .stop => .r
  | .rRmAck _ | .rCheck _ | .rRmOwnCancel _ | .rUnregActive _ | .sNotice _ | .rNotice _ | .selfEnd _
  | .deliverMsg _ | .bcast _ | .deliverAck _ | .replay _ _ => .e

/-- run of a list of actions as a fold; invariants lift from single steps to runs -/
theorem run_cons (c : Cfg) (σ : State) (a : Act) (l : List Act) :
    run c σ (a :: l) = run c ((step c σ a).getD σ) l := rfl

theorem run_nil (c : Cfg) (σ : State) : run c σ [] = σ := rfl

end S2S.Registry
