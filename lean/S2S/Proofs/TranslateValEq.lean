import S2S.Proofs.TranslateValInd
/-! Unfolding equations of the value-level namespace visitor (all by `rfl`), with named per-element steps. -/
set_option linter.unusedSectionVars false
namespace S2S.TranslateVal
open S2S.Translate S2S.NameMap
variable {α : Type} [DecidableEq α] (g : Graph) (tb : Tables) (X : Ext α) (mt : α → α × Bool) (c : α → α)

def nsMode (ty : Nat) : FMode := if ty == g.historyType then .hist else if ty == g.namespaceInfo then .nsInfo else .plain

def nsStrStep (ni : Bool) (f : FieldD) (s : α) : α × Bool :=
  let a : α × Bool := if ni && f.go == g.nameField && f.goString then app mt s else (s, false)
  let b : α × Bool := if isNsLeafField tb f then app mt a.1 else (a.1, false)
  (b.1, a.2 || b.2)

def nsBlobStep (re : Bool) (evs : List (Val α)) : Val α × Bool :=
  blobResult re evs (listSkippable g tb X evs) (visitNsItems g tb X mt .plain evs)

def nsFieldStep (mode : FMode) (f : FieldD) (v : Val α) : Val α × Bool :=
  match mode with
  | .hist =>
    (match v with
     | .list items =>
       if f.go == X.eventsField then (Val.list (visitNsItems g tb X mt .events items).1, (visitNsItems g tb X mt .events items).2)
       else (.list items, false)
     | w => (w, false))
  | .nsInfo =>
    (match v with
     | .str s => (Val.str (nsStrStep g tb mt true f s).1, (nsStrStep g tb mt true f s).2)
     | w => visitNs g tb X mt (some f) w)
  | .plain => visitNs g tb X mt (some f) v

def nsItemStep (mode : IMode) (v : Val α) : Val α × Bool :=
  match mode with
  | .events => if evSkippable g tb X v then (v, false) else visitNs g tb X mt none v
  | .blobs =>
    (match v with
     | .blobEv re evs => nsBlobStep g tb X mt re evs
     | w => visitNs g tb X mt none w)
  | .plain => visitNs g tb X mt none v

theorem visitNsFields_cons (mode : FMode) (f : FieldD) (fds : List FieldD) (v : Val α) (vs : List (Val α)) :
    visitNsFields g tb X mt mode (f :: fds) (v :: vs) =
      ((nsFieldStep g tb X mt mode f v).1 :: (visitNsFields g tb X mt mode fds vs).1,
       (nsFieldStep g tb X mt mode f v).2 || (visitNsFields g tb X mt mode fds vs).2) := by
  cases mode <;> cases v <;> rfl

theorem visitNsItems_cons (mode : IMode) (v : Val α) (vs : List (Val α)) :
    visitNsItems g tb X mt mode (v :: vs) =
      ((nsItemStep g tb X mt mode v).1 :: (visitNsItems g tb X mt mode vs).1,
       (nsItemStep g tb X mt mode v).2 || (visitNsItems g tb X mt mode vs).2) := by
  cases mode <;> cases v <;> rfl

theorem visitNs_msg (fc : Option FieldD) (ty : Nat) (fs : List (Val α)) :
    visitNs g tb X mt fc (.msg ty fs) =
      (.msg ty (visitNsFields g tb X mt (nsMode g ty) (g.typeD ty).fields fs).1,
       (visitNsFields g tb X mt (nsMode g ty) (g.typeD ty).fields fs).2) := by
  rfl
theorem visitNs_blobEv (fc : Option FieldD) (re : Bool) (evs : List (Val α)) :
    visitNs g tb X mt fc (.blobEv re evs) = if blobCtx tb fc then nsBlobStep g tb X mt re evs else (.blobEv re evs, false) := by
  rfl
theorem visitNs_list (fc : Option FieldD) (l : List (Val α)) :
    visitNs g tb X mt fc (.list l) =
      (.list (visitNsItems g tb X mt (if blobCtx tb fc then .blobs else .plain) l).1,
       (visitNsItems g tb X mt (if blobCtx tb fc then .blobs else .plain) l).2) := by
  rfl
theorem visitNs_map (fc : Option FieldD) (l : List (Val α)) :
    visitNs g tb X mt fc (.map l) = (.map (visitNsItems g tb X mt .plain l).1, (visitNsItems g tb X mt .plain l).2) := by
  rfl
theorem visitNs_kv (fc : Option FieldD) (k : α) (v : Val α) :
    visitNs g tb X mt fc (.kv k v) = (.kv k (visitNs g tb X mt none v).1, (visitNs g tb X mt none v).2) := by
  rfl
theorem visitNs_str (fc : Option FieldD) (s : α) :
    visitNs g tb X mt fc (.str s) =
      match fc with
      | some f => if isNsLeafField tb f then ((Val.str (app mt s).1), (app mt s).2) else (.str s, false)
      | none => (.str s, false) := by
  cases fc <;> rfl
theorem visitNs_tok (fc : Option FieldD) (t : α) : visitNs g tb X mt fc (.tok t) = (.tok t, false) := rfl
theorem visitNs_payload (fc : Option FieldD) (t : α) : visitNs g tb X mt fc (.payload t) = (.payload t, false) := rfl
theorem visitNs_nil (fc : Option FieldD) (k : NilK) : visitNs g tb X mt fc (.nil k) = (.nil k, false) := rfl
theorem visitNs_blobRaw (fc : Option FieldD) (e : Bool) (t : α) : visitNs g tb X mt fc (.blobRaw e t) = (.blobRaw e t, false) := rfl
theorem visitNsFields_nil (mode : FMode) (vs : List (Val α)) : visitNsFields g tb X mt mode [] vs = (vs, false) := by
  cases vs <;> rfl
theorem visitNsFields_nil' (mode : FMode) (f : FieldD) (fds : List FieldD) :
    visitNsFields g tb X mt mode (f :: fds) [] = ([], false) := rfl
theorem visitNsItems_nil (mode : IMode) : visitNsItems g tb X mt mode [] = ([], false) := rfl

theorem nsFieldStep_hist_list (f : FieldD) (items : List (Val α)) :
    nsFieldStep g tb X mt .hist f (.list items) =
      if f.go == X.eventsField then (Val.list (visitNsItems g tb X mt .events items).1, (visitNsItems g tb X mt .events items).2)
      else (.list items, false) := rfl
theorem nsFieldStep_plain (f : FieldD) (v : Val α) : nsFieldStep g tb X mt .plain f v = visitNs g tb X mt (some f) v := rfl
theorem nsFieldStep_nsInfo_str (f : FieldD) (s : α) :
    nsFieldStep g tb X mt .nsInfo f (.str s) = (Val.str (nsStrStep g tb mt true f s).1, (nsStrStep g tb mt true f s).2) := rfl
theorem nsItemStep_events (v : Val α) :
    nsItemStep g tb X mt .events v = if evSkippable g tb X v then (v, false) else visitNs g tb X mt none v := rfl
theorem nsItemStep_plain (v : Val α) : nsItemStep g tb X mt .plain v = visitNs g tb X mt none v := rfl
theorem nsItemStep_blobs_blobEv (re : Bool) (evs : List (Val α)) :
    nsItemStep g tb X mt .blobs (.blobEv re evs) = nsBlobStep g tb X mt re evs := rfl

/-- the plain step on a string field is the by-name part of `nsStrStep` -/
theorem visitNs_str_some (f : FieldD) (s : α) :
    visitNs g tb X mt (some f) (.str s) = (.str (nsStrStep g tb mt false f s).1, (nsStrStep g tb mt false f s).2) := by
  rw [visitNs_str]
  unfold nsStrStep
  by_cases h : isNsLeafField tb f = true <;> simp [h]

omit [DecidableEq α] in
theorem blobResult_cases (re : Bool) (evs : List (Val α)) (skip : Bool) (r : List (Val α) × Bool) :
    (blobResult re evs skip r = (.blobEv re evs, false) ∧ (skip = true ∨ r.2 = false)) ∨
    (blobResult re evs skip r = (.blobEv true r.1, true) ∧ skip = false ∧ r.2 = true) := by
  unfold blobResult
  cases skip <;> cases h : r.2 <;> simp

theorem app_fst_of_unmatched (s : α) (h : (app mt s).2 = false) : (app mt s).1 = s := by
  unfold app at h ⊢
  split <;> simp_all

end S2S.TranslateVal
