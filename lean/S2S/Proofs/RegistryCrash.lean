import S2S.Proofs.RegistryChan
/-!
C08: no send ever reaches a closed channel outside a `recover` guard — under `ReplayOK`, the hypothesis
that excludes window (iii) (`sendPendingWatermarkToShard` has no `recover`).
-/
namespace S2S.Registry

set_option linter.unusedSimpArgs false
set_option linter.unusedVariables false

/-- a closed channel belongs to a sender past `close(sendMsgChan)` -/
def InvClosed (σ : State) : Prop :=
  ∀ t, (σ.inc t).closed = true →
    (σ.inc t).spc = .closed ∨ (σ.inc t).spc = .unreg ∨ (σ.inc t).spc = .rmChan ∨ (σ.inc t).spc = .done

/-- while a sender is inside `RegisterShard` the shard's channel is its own; the channel it looked up for a replay is its own -/
def InvReg (σ : State) : Prop :=
  ∀ i, (σ.inc i).spc.registering = true →
    aget σ.sendChans (σ.inc i).shard = some i ∧ ∀ todo t, (σ.inc i).spc = .notify todo (some t) → t = i

set_option maxHeartbeats 1000000 in
theorem invClosed_step {c σ a σ'} (h : step c σ a = some σ') (I : InvClosed σ) : InvClosed σ' := by
  cases a with
  | _ =>
    step_inv h
    all_goals (intro t ht)
    all_goals (try simp at ht ⊢)
    all_goals (first | exact I t ht | (have hI := I t; revert ht; crush))

set_option maxHeartbeats 2000000 in
theorem invReg_step {c σ a σ'} (h : step c σ a = some σ') (H : ReplayOK σ a) (B : InvBound σ) (I : InvReg σ) : InvReg σ' := by
  cases a with
  | sSet i =>
    step_inv h
    intro j hj
    simp [aget_aset] at hj ⊢
    by_cases hij : i = j
    · subst hij; simp
    · simp [hij] at hj ⊢
      have hI := I j hj
      refine ⟨?_, hI.2⟩
      split
      · -- another incarnation of the same shard is inside RegisterShard: excluded by the hypothesis
        rename_i hs
        have hjn : j < σ.next := lt_next_of_spc B (by intro h; rw [h] at hj; simp at hj)
        have := H j hjn (fun e => hij e.symm) hs.symm
        simp [hj] at this
      · exact hI.1
  | sRmChan i =>
    step_inv h
    all_goals (intro j hj)
    all_goals (simp [aget_adel] at hj ⊢)
    all_goals (by_cases hij : i = j)
    all_goals (try (subst hij; simp at hj; done))
    all_goals (simp [hij] at hj ⊢)
    · have hI := I j hj
      refine ⟨⟨?_, hI.1⟩, hI.2⟩
      intro hs
      have hown : aget σ.sendChans (σ.inc i).shard = some i := by assumption
      rw [hs, hI.1] at hown; injection hown with e; exact hij e.symm
    · exact I j hj
  | sLook i r =>
    step_inv h
    all_goals (intro j hj)
    all_goals (simp at hj ⊢)
    all_goals (by_cases hij : i = j)
    all_goals (try subst hij)
    all_goals (simp_all)
    all_goals (first | exact I _ hj | skip)
    · have hI := I i (by simp_all)
      refine ⟨hI.1, ?_⟩
      intro _ t _ ht; rw [hI.1] at ht; injection ht with e; exact e.symm
    · exact (I i (by simp_all)).1
  | _ =>
    step_inv h
    all_goals (intro j hj)
    all_goals (try simp at hj ⊢)
    all_goals (first | exact I j hj | (have hI := I j; revert hj; crush))
    all_goals (intro todo t h1 h2; simp_all)

/-- **no crash**: with `recover` at the delivery and broadcast sites (current tree) and window (iii) excluded,
    no step sends on a closed channel outside `recover` -/
theorem noCrash_step {c σ a σ'} (h : step c σ a = some σ') (hd : c.deliverRecover = true) (hb : c.bcastRecover = true)
    (H : ReplayOK σ a) (S : InvSend σ) (C : InvClosed σ) (R : InvReg σ) (hc : σ.crashed = false) : σ'.crashed = false := by
  cases a with
  | deliverMsg t => step_inv h; rw [hd, sendOn_crashed_recover]; exact hc
  | bcast t => step_inv h; rw [hb, sendOn_crashed_recover]; exact hc
  | replay r sh =>
    step_inv h
    · rename_i t ht
      obtain ⟨h1, h2, h3, h4⟩ := S sh t ht
      have hopen : (σ.inc t).closed = false := by
        cases hcl : (σ.inc t).closed with
        | false => rfl
        | true =>
          have := H t h1 h2
          rcases C t hcl with e | e | e | e <;> simp [e] at this h4
      rw [sendOn_crashed_open hopen]; exact hc
    · exact hc
    · exact hc
  | sSend i =>
    step_inv h
    rename_i todo t ht
    have hR := R i (by simp [ht])
    have e : t = i := hR.2 todo t ht
    subst e
    have hopen : (σ.inc t).closed = false := by
      cases hcl : (σ.inc t).closed with
      | false => rfl
      | true => rcases C t hcl with e | e | e | e <;> simp [e] at ht
    have : ((σ.setInc t { σ.inc t with spc := .notify todo none }).inc t).closed = false := by simp [hopen]
    rw [sendOn_crashed_open this]; simpa using hc
  | _ =>
    step_inv h
    all_goals (try simp)
    all_goals (first | exact hc | simp_all)

end S2S.Registry
