import S2S.Proofs.RegistryChan
/-!
C08: no send ever reaches a closed channel outside a `recover` guard.  Since `sendPendingWatermarkToShard` got its
`recover` (fix of C08-replay-send-on-closed-channel) every send site is guarded, so this holds in EVERY interleaving.
-/
namespace S2S.Registry

set_option linter.unusedSimpArgs false
set_option linter.unusedVariables false

/-- a closed channel belongs to a sender past `close(sendMsgChan)` -/
def InvClosed (σ : State) : Prop :=
  ∀ t, (σ.inc t).closed = true →
    (σ.inc t).spc = .closed ∨ (σ.inc t).spc = .unreg ∨ (σ.inc t).spc = .rmChan ∨ (σ.inc t).spc = .done

set_option maxHeartbeats 1000000 in
theorem invClosed_step {c σ a σ'} (h : step c σ a = some σ') (I : InvClosed σ) : InvClosed σ' := by
  cases a with
  | _ =>
    step_inv h
    all_goals (intro t ht)
    all_goals (try simp at ht ⊢)
    all_goals (first | exact I t ht | (have hI := I t; revert ht; crush))

/-- **no crash**: with `recover` at every send site (current tree) no step sends on a closed channel outside `recover` -/
theorem noCrash_step {c σ a σ'} (h : step c σ a = some σ') (hd : c.deliverRecover = true) (hb : c.bcastRecover = true)
    (hr : c.replayRecover = true) (hc : σ.crashed = false) : σ'.crashed = false := by
  cases a with
  | deliverMsg t => step_inv h; rw [hd, sendOn_crashed_recover]; exact hc
  | bcast t => step_inv h; rw [hb, sendOn_crashed_recover]; exact hc
  | replay r sh =>
    step_inv h
    · rw [hr, sendOn_crashed_recover]; exact hc
    · exact hc
    · exact hc
  | sSend i => step_inv h; rw [hr, sendOn_crashed_recover]; simpa using hc
  | _ =>
    step_inv h
    all_goals (try simp)
    all_goals (first | exact hc | simp_all)

end S2S.Registry
