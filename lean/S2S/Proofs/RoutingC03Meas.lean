import S2S.Proofs.RoutingC03Base
/-!
Termination of `settle`: a measure strictly decreased by every eager action, quiescence with
enough fuel, and fuel-independent ("idealised") versions of `settle`, `ackEverything`, `fairRound`.
-/
namespace S2S.Routing

def Act.isEager : Act → Bool
  | .bcastStep _ _ | .deliver _ _ | .take _ | .emit _ | .ackFwd _ _ | .ackFin _ | .rack _
  | .replayStep _ _ | .replayDone _ => true
  | _ => false

theorem eagerActs_isEager {σ : State} {gates : List Bool} {a : Act} (h : a ∈ eagerActs σ gates) :
    a.isEager = true := by
  unfold eagerActs at h
  simp only [List.mem_append, List.mem_flatMap, List.mem_range] at h
  rcases h with (⟨t, _, h⟩ | ⟨s, _, h⟩) | ⟨t, _, h⟩
  · split at h
    · simp at h
      rcases h with ⟨_, _, _, rfl⟩ | rfl <;> rfl
    · simp at h
  · simp at h
    rcases h with rfl | h
    · rfl
    · split at h
      · simp at h; obtain ⟨_, _, _, rfl⟩ := h; rfl
      · simp at h; obtain ⟨_, _, _, rfl⟩ := h; rfl
      · simp at h
  · simp at h
    rcases h with (⟨_, rfl⟩ | rfl) | h
    · rfl
    · rfl
    · split at h
      · simp at h
        rcases h with ⟨_, _, _, rfl⟩ | rfl <;> rfl
      · simp at h

theorem firstEnabled_some {c : Cfg} {σ σ' : State} {l : List Act} (h : firstEnabled c σ l = some σ') :
    ∃ a ∈ l, step c σ a = some σ' := by
  induction l with
  | nil => simp [firstEnabled] at h
  | cons a r ih =>
    simp only [firstEnabled] at h
    split at h
    · rename_i σ'' hs
      cases h
      exact ⟨a, List.mem_cons_self, hs⟩
    · obtain ⟨b, hb, hs⟩ := ih h
      exact ⟨b, List.mem_cons_of_mem _ hb, hs⟩

theorem firstEnabled_none {c : Cfg} {σ : State} {l : List Act} (h : firstEnabled c σ l = none) :
    ∀ a ∈ l, step c σ a = none := by
  induction l with
  | nil => simp
  | cons a r ih =>
    simp only [firstEnabled] at h
    split at h
    · cases h
    · rename_i hs
      intro b hb
      rcases List.mem_cons.1 hb with rfl | hb
      · exact hs
      · exact ih h b hb

/-! ### the measure -/

def muPc : RecvPc → Nat
  | .idle => 0
  | .bcast _ todo => 4 * todo.length
  | .deliver pending => 4 * pending.length

def muS (x : Source) : Nat := x.ackChan.length + muPc x.pc

def muAck : AckPc → Nat
  | .idle => 0
  | .forwarding todo _ _ => 2 * todo.length + 1

def muReplay : Option (List (SId × Nat)) → Nat
  | none => 0
  | some todo => 4 * todo.length + 1

def muT (tg : Target) : Nat :=
  muReplay tg.replayTodo + 3 * tg.sendChan.length + (if tg.holding.isSome then 1 else 0) + muAck tg.ackPc

def mu (σ : State) : Nat := (σ.sources.map muS).sum + (σ.targets.map muT).sum

theorem sum_map_set {α} (f : α → Nat) (l : List α) (i : Nat) (x : α) (h : i < l.length) :
    ((l.set i x).map f).sum + f l[i] = (l.map f).sum + f x := by
  induction l generalizing i with
  | nil => simp at h
  | cons a r ih =>
    cases i with
    | zero => simp only [List.set_cons_zero, List.map_cons, List.sum_cons, List.getElem_cons_zero]; omega
    | succ i =>
      have h' : i < r.length := by simpa using h
      have := ih i h'
      simp only [List.set_cons_succ, List.map_cons, List.sum_cons, List.getElem_cons_succ]; omega

theorem mu_setSrc (σ : State) (s : SId) (x : Source) :
    mu (σ.setSrc s x) + muS (σ.src s) ≤ mu σ + muS x := by
  by_cases h : s < σ.sources.length
  · have := sum_map_set muS σ.sources s x h
    have e : σ.src s = σ.sources[s] := by
      unfold State.src; simp [List.getD_eq_getElem?_getD, h]
    rw [e]
    unfold mu State.setSrc
    simp only
    omega
  · have h' : σ.sources.length ≤ s := Nat.le_of_not_lt h
    have e : σ.setSrc s x = σ := by
      unfold State.setSrc
      rw [List.set_eq_of_length_le h']
    rw [e, src_of_ge σ s h']
    show mu σ + 0 ≤ _
    omega

theorem mu_setTgt (σ : State) (t : TId) (y : Target) :
    mu (σ.setTgt t y) + muT (σ.tgt t) ≤ mu σ + muT y := by
  by_cases h : t < σ.targets.length
  · have := sum_map_set muT σ.targets t y h
    have e : σ.tgt t = σ.targets[t] := by
      unfold State.tgt; simp [List.getD_eq_getElem?_getD, h]
    rw [e]
    unfold mu State.setTgt
    simp only
    omega
  · have h' : σ.targets.length ≤ t := Nat.le_of_not_lt h
    have e : σ.setTgt t y = σ := by
      unfold State.setTgt
      rw [List.set_eq_of_length_le h']
    rw [e, tgt_of_ge σ t h']
    show mu σ + 0 ≤ _
    omega

theorem filter_lt_of_aget {α} {l : List (Nat × α)} {k : Nat} {v : α} (h : aget l k = some v) :
    (l.filter (fun p => p.1 != k)).length < l.length := by
  have hm := aget_mem h
  induction l with
  | nil => simp at hm
  | cons a r ih =>
    simp only [List.filter_cons]
    split
    · rename_i hne
      rcases List.mem_cons.1 hm with hm | hm
      · subst hm; simp at hne
      · have : aget r k = some v := by
          unfold aget at h ⊢
          rw [List.find?_cons] at h
          have : (a.1 == k) = false := by simpa using hne
          simpa [this] using h
        have h2 := ih this hm
        simp only [List.length_cons]; omega
    · have h2 := List.length_filter_le (fun p => p.1 != k) r
      simp only [List.length_cons]; omega

theorem muPc_bcast_ite (high : Int) (todo : List (TId × Nat)) :
    muPc (if todo.isEmpty then .idle else .bcast high todo) = 4 * todo.length := by
  cases todo <;> simp [muPc]

theorem muPc_deliver_ite (pending : List (TId × List Int)) :
    muPc (if pending.isEmpty then .idle else .deliver pending) = 4 * pending.length := by
  cases pending <;> simp [muPc]

theorem mu_lt_setSrc {σ : State} {s : SId} {x : Source} (h : muS x < muS (σ.src s)) :
    mu (σ.setSrc s x) < mu σ := by
  have := mu_setSrc σ s x; omega

theorem mu_lt_setTgt {σ : State} {t : TId} {y : Target} (h : muT y < muT (σ.tgt t)) :
    mu (σ.setTgt t y) < mu σ := by
  have := mu_setTgt σ t y; omega

theorem mu_lt_setSrcTgt {σ : State} {s : SId} {x : Source} {t : TId} {y : Target}
    (h : muS x + muT y < muS (σ.src s) + muT (σ.tgt t)) : mu ((σ.setSrc s x).setTgt t y) < mu σ := by
  have h1 := mu_setSrc σ s x
  have h2 := mu_setTgt (σ.setSrc s x) t y
  rw [tgt_setSrc] at h2
  omega

theorem mu_lt_setTgtSrc {σ : State} {s : SId} {x : Source} {t : TId} {y : Target}
    (h : muS x + muT y < muS (σ.src s) + muT (σ.tgt t)) : mu ((σ.setTgt t y).setSrc s x) < mu σ := by
  have h1 := mu_setTgt σ t y
  have h2 := mu_setSrc (σ.setTgt t y) s x
  rw [src_setTgt] at h2
  omega

theorem step_eager_mu {c : Cfg} {σ σ' : State} {a : Act} (ha : a.isEager = true)
    (h : step c σ a = some σ') : mu σ' < mu σ := by
  cases a with
  | bcastStep s t =>
    simp only [step] at h
    split at h
    · rename_i high todo hpc
      split at h
      · cases h
      · rename_i inc hinc
        have hlt : (todo.filter (fun p => p.1 != t)).length < todo.length := filter_lt_of_aget hinc
        split at h
        · cases h
          apply mu_lt_setSrcTgt
          simp only [muS, muT, hpc, muPc_bcast_ite, List.length_append, List.length_singleton]
          simp only [muPc]
          omega
        · cases h
          apply mu_lt_setSrc
          simp only [muS, hpc, muPc_bcast_ite]
          simp only [muPc]
          omega
    · cases h
  | deliver s t =>
    simp only [step] at h
    split at h
    · rename_i pending hpc
      split at h
      · cases h
      · rename_i ids hids
        have hlt : (pending.filter (fun p => p.1 != t)).length < pending.length := filter_lt_of_aget hids
        split at h
        · cases h
        · cases h
          apply mu_lt_setSrcTgt
          simp only [muS, muT, hpc, muPc_deliver_ite, List.length_append, List.length_singleton]
          simp only [muPc]
          omega
    · cases h
  | take t =>
    simp only [step] at h
    split at h
    · cases h
    · rename_i hen
      simp only [Bool.or_eq_true, Bool.not_eq_true', not_or] at hen
      split at h
      · cases h
      · rename_i m rest hch
        cases h
        apply mu_lt_setTgt
        have hT : muT (σ.tgt t) = muReplay (σ.tgt t).replayTodo + 3 * (rest.length + 1) + 0 + muAck (σ.tgt t).ackPc := by
          unfold muT; rw [hch]
          have : (σ.tgt t).holding.isSome = false := by simpa using hen.2
          simp [this]
        have hP : muT (process { (σ.tgt t) with sendChan := rest } m) = muReplay (σ.tgt t).replayTodo + 3 * rest.length + 1 + muAck (σ.tgt t).ackPc := by
          cases m <;> simp [process, muT]
        rw [hT, hP]
        omega
  | emit t =>
    simp only [step] at h
    split at h
    · cases h
    · rename_i e he
      cases h
      apply mu_lt_setTgt
      simp only [muT, he]
      simp
  | ackFwd t s =>
    simp only [step] at h
    split at h
    · rename_i todo discard rec hpc
      split at h
      · cases h
      · rename_i v hv
        have hlt : (todo.filter (fun p => p.1 != s)).length < todo.length := filter_lt_of_aget hv
        split at h
        · cases h
        · cases h
          apply mu_lt_setTgtSrc
          simp only [muS, muT, hpc, muAck, List.length_append, List.length_singleton]
          omega
    · cases h
  | ackFin t =>
    simp only [step] at h
    split at h
    · rename_i discard rec hpc
      cases h
      apply mu_lt_setTgt
      simp only [muT, hpc, muAck]
      omega
    · cases h
  | rack s =>
    simp only [step] at h
    split at h
    · cases h
    · split at h
      · cases h
      · rename_i t v rest hch
        have hS : muS (σ.src s) = rest.length + 1 + muPc (σ.src s).pc := by
          unfold muS; rw [hch]; rfl
        split at h
        · cases h
          apply mu_lt_setSrc
          rw [hS]; simp only [muS]; omega
        · split at h
          · cases h
            apply mu_lt_setSrc
            rw [hS]; simp only [muS]; omega
          · cases h
            apply mu_lt_setSrc
            rw [hS]; simp only [muS]; omega
  | replayStep t s =>
    simp only [step] at h
    split at h
    · cases h
    · rename_i todo htodo
      split at h
      · cases h
      · rename_i inc hinc
        have hlt : (todo.filter (fun p => p.1 != s)).length < todo.length := filter_lt_of_aget hinc
        split at h
        · split at h
          · cases h
            apply mu_lt_setTgt
            simp only [muT, htodo, muReplay, List.length_append, List.length_singleton]
            omega
          · cases h
            apply mu_lt_setTgt
            simp only [muT, htodo, muReplay]
            omega
        · cases h
          apply mu_lt_setTgt
          simp only [muT, htodo, muReplay]
          omega
  | replayDone t =>
    simp only [step] at h
    split at h
    · rename_i htodo
      cases h
      apply mu_lt_setTgt
      simp only [muT, htodo, muReplay]
      simp
    · cases h
  | _ => cases ha

/-! ### settle -/

theorem settle_of_quiescent {c : Cfg} {g : List Bool} {σ : State} (h : Quiescent c g σ) (fuel : Nat) :
    settle c g fuel σ = σ := by
  cases fuel with
  | zero => rfl
  | succ n => unfold Quiescent at h; simp [settle, h]

theorem firstEnabled_mu {c : Cfg} {g : List Bool} {σ σ' : State}
    (h : firstEnabled c σ (eagerActs σ g) = some σ') : mu σ' < mu σ := by
  obtain ⟨a, ha, hs⟩ := firstEnabled_some h
  exact step_eager_mu (eagerActs_isEager ha) hs

theorem settle_quiescent {c : Cfg} {g : List Bool} : ∀ (fuel : Nat) (σ : State), mu σ ≤ fuel →
    Quiescent c g (settle c g fuel σ) := by
  intro fuel
  induction fuel with
  | zero =>
    intro σ h
    show Quiescent c g σ
    unfold Quiescent
    cases hf : firstEnabled c σ (eagerActs σ g) with
    | none => rfl
    | some σ' => have := firstEnabled_mu hf; omega
  | succ n ih =>
    intro σ h
    simp only [settle]
    cases hf : firstEnabled c σ (eagerActs σ g) with
    | none => exact hf
    | some σ' =>
      have := firstEnabled_mu hf
      exact ih σ' (by omega)

theorem settle_fuel_irrel {c : Cfg} {g : List Bool} : ∀ (f1 f2 : Nat) (σ : State), mu σ ≤ f1 → mu σ ≤ f2 →
    settle c g f1 σ = settle c g f2 σ := by
  intro f1
  induction f1 with
  | zero =>
    intro f2 σ h1 _
    have hq : Quiescent c g σ := settle_quiescent 0 σ h1
    rw [settle_of_quiescent hq, settle_of_quiescent hq]
  | succ n ih =>
    intro f2 σ h1 h2
    cases f2 with
    | zero =>
      have hq : Quiescent c g σ := settle_quiescent 0 σ h2
      rw [settle_of_quiescent hq, settle_of_quiescent hq]
    | succ m =>
      simp only [settle]
      cases hf : firstEnabled c σ (eagerActs σ g) with
      | none => rfl
      | some σ' =>
        have := firstEnabled_mu hf
        exact ih m σ' (by omega) (by omega)

/-- fuel-independent settle -/
def settleQ (c : Cfg) (σ : State) : State := settle c [] (mu σ) σ

theorem settle_eq_settleQ {c : Cfg} {σ : State} {fuel : Nat} (h : mu σ ≤ fuel) :
    settle c [] fuel σ = settleQ c σ := settle_fuel_irrel fuel (mu σ) σ h (Nat.le_refl _)

theorem settleQ_quiescent (c : Cfg) (σ : State) : Quiescent c [] (settleQ c σ) :=
  settle_quiescent (mu σ) σ (Nat.le_refl _)

theorem settle_ind {c : Cfg} {g : List Bool} (P : State → Prop)
    (hP : ∀ σ a σ', P σ → a.isEager = true → step c σ a = some σ' → P σ') :
    ∀ (fuel : Nat) (σ : State), P σ → P (settle c g fuel σ) := by
  intro fuel
  induction fuel with
  | zero => intro σ h; exact h
  | succ n ih =>
    intro σ h
    simp only [settle]
    cases hf : firstEnabled c σ (eagerActs σ g) with
    | none => exact h
    | some σ' =>
      obtain ⟨a, ha, hs⟩ := firstEnabled_some hf
      exact ih σ' (hP σ a σ' h (eagerActs_isEager ha) hs)

theorem settleQ_ind {c : Cfg} (P : State → Prop)
    (hP : ∀ σ a σ', P σ → a.isEager = true → step c σ a = some σ' → P σ') {σ : State} (h : P σ) :
    P (settleQ c σ) := settle_ind P hP _ σ h

/-! ### fuel-independent rounds -/

def ackStep (c : Cfg) (fuel : Nat) (σ : State) (t : TId) : State :=
  match (σ.tgt t).stream.getLast? with
  | some e => settle c [] fuel ((step c σ (.tack t e.high)).getD σ)
  | none => σ

def ackStepQ (c : Cfg) (σ : State) (t : TId) : State :=
  match (σ.tgt t).stream.getLast? with
  | some e => settleQ c ((step c σ (.tack t e.high)).getD σ)
  | none => σ

def ackEvQ (c : Cfg) (σ : State) : State := (List.range σ.targets.length).foldl (ackStepQ c) σ

def roundQ (c : Cfg) (s : SId) (H : Int) (σ : State) : State :=
  ackEvQ c (settleQ c ((step c σ (.recv s [] H)).getD σ))

theorem ackEverything_eq (c : Cfg) (fuel : Nat) (σ : State) :
    ackEverything c fuel σ = (List.range σ.targets.length).foldl (ackStep c fuel) σ := rfl

theorem foldl_ackStep_eq (c : Cfg) (l : List TId) : ∀ σ : State, ∃ F, ∀ fuel, F ≤ fuel →
    l.foldl (ackStep c fuel) σ = l.foldl (ackStepQ c) σ := by
  induction l with
  | nil => intro σ; exact ⟨0, fun _ _ => rfl⟩
  | cons t r ih =>
    intro σ
    cases he : (σ.tgt t).stream.getLast? with
    | none =>
      obtain ⟨F, hF⟩ := ih σ
      refine ⟨F, fun fuel hf => ?_⟩
      simp only [List.foldl_cons]
      have e1 : ackStep c fuel σ t = σ := by simp [ackStep, he]
      have e2 : ackStepQ c σ t = σ := by simp [ackStepQ, he]
      rw [e1, e2]; exact hF fuel hf
    | some e =>
      obtain ⟨F, hF⟩ := ih (ackStepQ c σ t)
      refine ⟨max F (mu ((step c σ (.tack t e.high)).getD σ)), fun fuel hf => ?_⟩
      simp only [List.foldl_cons]
      have e1 : ackStep c fuel σ t = ackStepQ c σ t := by
        simp only [ackStep, ackStepQ, he]
        exact settle_eq_settleQ (by omega)
      rw [e1]; exact hF fuel (by omega)

theorem fairRound_eq (c : Cfg) (s : SId) (H : Int) (σ : State) :
    ∃ F, ∀ fuel, F ≤ fuel → fairRound c fuel s H σ = roundQ c s H σ := by
  obtain ⟨F, hF⟩ := foldl_ackStep_eq c (List.range (settleQ c ((step c σ (.recv s [] H)).getD σ)).targets.length)
    (settleQ c ((step c σ (.recv s [] H)).getD σ))
  refine ⟨max F (mu ((step c σ (.recv s [] H)).getD σ)), fun fuel hf => ?_⟩
  unfold fairRound roundQ
  rw [settle_eq_settleQ (by omega), ackEverything_eq]
  exact hF fuel (by omega)

theorem two_rounds_eq (c : Cfg) (s : SId) (H : Int) (σ : State) :
    ∃ fuel, fairRound c fuel s H (fairRound c fuel s H σ) = roundQ c s H (roundQ c s H σ) := by
  obtain ⟨F1, h1⟩ := fairRound_eq c s H σ
  obtain ⟨F2, h2⟩ := fairRound_eq c s H (roundQ c s H σ)
  refine ⟨max F1 F2, ?_⟩
  rw [h1 _ (by omega), h2 _ (by omega)]

end S2S.Routing
