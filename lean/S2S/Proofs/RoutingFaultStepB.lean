import S2S.Proofs.RoutingFaultStepA
/-! Invariant preservation (with faults): the acknowledgement path (`tack`, `ackFwd`, `rack`). -/
namespace S2S.Routing

theorem pairF_tack {N : Int → Prop} {M : Int} {s : SId} {t : TId} {x : Source} {tg : Target}
    (h : PairF N M s t x tg) (w : Int)
    (pc' : AckPc) (ta : List Int)
    (hpc : ∀ todo d r, pc' = .forwarding todo d r → ∀ v, (s, v) ∈ todo →
      (s, v) ∈ tg.prevAck ∨ (s, v) ∈ (aggregate tg.ring w).1) :
    PairF N M s t x { tg with
      ackPc := pc'
      targetAcks := ta
      confirmed := tg.confirmed ++ (tg.assigned.filter (fun a => a.2.2 < w)).map (fun a => (a.1, a.2.1)) } := by
  have hc : ∀ a, a ∈ tg.confirmed → a ∈ tg.confirmed ++ (tg.assigned.filter (fun a => a.2.2 < w)).map (fun a => (a.1, a.2.1)) :=
    fun a ha => List.mem_append_left _ ha
  have hN : ∀ id, N id → N id := fun _ h => h
  refine ⟨h.cover, h.sorted, h.flat_le, h.ring_ok, h.ring_le, ?_, ?_, ?_, ?_, ?_, h.seeded, h.cur_lt, h.grave_low⟩
  · intro todo d r e v hv
    rcases hpc todo d r e v hv with hv | hv
    · exact ⟨(h.prev_safe v hv).1.mono hN hc, (h.prev_safe v hv).2⟩
    · obtain ⟨p, hpw, hpr⟩ := mem_aggregate hv
      refine ⟨?_, h.ring_le p v hpr⟩
      intro id hr hlt
      obtain ⟨p', hp', ha⟩ := h.ring_ok p v hpr id hr hlt
      apply List.mem_append_right
      simp only [List.mem_map, List.mem_filter, decide_eq_true_eq]
      exact ⟨(s, id, p'), ⟨ha, by show p' < w; omega⟩, rfl⟩
  · intro v hv; exact ⟨(h.prev_safe v hv).1.mono hN hc, (h.prev_safe v hv).2⟩
  · intro v hv; exact ⟨(h.chan_safe v hv).1.mono hN hc, (h.chan_safe v hv).2⟩
  · intro v hv; exact ⟨(h.abt_safe v hv).1.mono hN hc, (h.abt_safe v hv).2⟩
  · intro a ha; exact (h.last_safe a ha).mono hN hc

theorem step_invF_tack {σ σ' : State} {γ : Ghost} (hI : InvF σ γ) (t : TId) (w : Int)
    (h : step Cfg.cur σ (.tack t w) = some σ') : InvF σ' γ := by
  simp only [step] at h
  split at h
  · cases h
  · rename_i hg
    simp only [Bool.or_eq_true, Bool.not_eq_true', not_or, Bool.not_eq_false] at hg
    have hT := hI.tgt t
    have hreg := hT.reg_of_started hg.1
    split at h
    · simp only [Option.some.injEq] at h
      subst h
      apply invF_setTgt hI
      · exact hT.of_reg hreg rfl rfl rfl rfl
      · intro s
        apply pairF_tack (hI.pair s t) w
        intro todo d r e v hv
        split at e
        · cases e
        · cases e; left; exact hv
    · simp only [Option.some.injEq] at h
      subst h
      apply invF_setTgt hI
      · exact hT.of_reg hreg rfl rfl rfl rfl
      · intro s
        apply pairF_tack (hI.pair s t) w
        intro todo d r e v hv
        cases e; right; exact hv

theorem SrcF.of_active {M : Int} {x x' : Source} (h : SrcF M x) (hact : x'.active = true)
    (h1 : x'.lastWatermark = x.lastWatermark) (h2 : x'.lastHigh = x.lastHigh) (h3 : x'.pc = x.pc)
    (h4 : x'.lastSentAck = x.lastSentAck) (h5 : x'.graveyard = x.graveyard) : SrcF M x' := by
  refine ⟨?_, ?_, ?_, ?_, ?_, fun _ _ => hact, ?_, h.m_nonneg⟩
  · rw [h1, h2]; exact h.wm_le
  · rw [h1, h3]; exact h.wm_pend
  · rw [h3, h2]; exact h.bcast_le
  · rw [h2]; exact h.high_le
  · rw [h4]; exact h.last_le
  · rw [h5]; exact h.grave_le

theorem step_invF_ackFwd {σ σ' : State} {γ : Ghost} (hI : InvF σ γ) (t : TId) (s : SId)
    (h : step Cfg.cur σ (.ackFwd t s) = some σ') : InvF σ' γ := by
  simp only [step] at h
  split at h
  · rename_i todo d r hpc
    split at h
    · cases h
    · rename_i v hv
      split at h
      · cases h
      · rename_i hg
        simp only [Bool.not_eq_true', Bool.and_eq_false_iff, not_or, Bool.not_eq_false] at hg
        simp only [Option.some.injEq] at h
        subst h
        have hT := hI.tgt t
        have hS := hI.src s
        have hreg := hT.reg_of_fwd hpc
        rw [setTgt_setSrc_comm]
        have hmem : (s, v) ∈ todo := aget_some_mem hv
        apply invF_setBoth hI s t _ _ (src_active_lt σ hg.1) (tgt_registered_lt σ hreg)
        · exact hS.of_active hg.1 rfl rfl rfl rfl rfl
        · exact hT.of_reg hreg rfl rfl rfl rfl
        · -- (s, t)
          have hp := hI.pair s t
          refine ⟨hp.cover, hp.sorted, hp.flat_le, hp.ring_ok, hp.ring_le, ?_, ?_, ?_, hp.abt_safe, hp.last_safe,
            hp.seeded, hp.cur_lt, hp.grave_low⟩
          · intro todo' d' r' e v' hv'
            cases e
            exact hp.todo_safe todo d r hpc v' (List.mem_filter.1 hv').1
          · intro v' hv'
            have hv' : (s, v') ∈ (if r = true then aset (σ.tgt t).prevAck s v else (σ.tgt t).prevAck) := hv'
            split at hv'
            · rcases mem_aset hv' with hv' | ⟨_, e2⟩
              · exact hp.prev_safe v' hv'
              · subst e2; exact hp.todo_safe todo d r hpc v' hmem
            · exact hp.prev_safe v' hv'
          · intro v' hv'
            have hv' : (t, v') ∈ (σ.src s).ackChan ++ [(t, v)] := hv'
            rcases List.mem_append.1 hv' with hv' | hv'
            · exact hp.chan_safe v' hv'
            · simp only [List.mem_singleton, Prod.mk.injEq, true_and] at hv'
              subst hv'; exact hp.todo_safe todo d r hpc v' hmem
        · -- (s, t'), t' ≠ t
          intro t' hne'
          have hp := hI.pair s t'
          refine ⟨hp.cover, hp.sorted, hp.flat_le, hp.ring_ok, hp.ring_le, hp.todo_safe, hp.prev_safe, ?_, hp.abt_safe,
            hp.last_safe, hp.seeded, hp.cur_lt, hp.grave_low⟩
          intro v' hv'
          have hv' : (t', v') ∈ (σ.src s).ackChan ++ [(t, v)] := hv'
          rcases List.mem_append.1 hv' with hv' | hv'
          · exact hp.chan_safe v' hv'
          · simp only [List.mem_singleton, Prod.mk.injEq] at hv'
            exact absurd hv'.1 hne'
        · -- (s', t), s' ≠ s
          intro s' hne'
          have hp := hI.pair s' t
          refine ⟨hp.cover, hp.sorted, hp.flat_le, hp.ring_ok, hp.ring_le, ?_, ?_, hp.chan_safe, hp.abt_safe,
            hp.last_safe, hp.seeded, hp.cur_lt, hp.grave_low⟩
          · intro todo' d' r' e v' hv'
            cases e
            exact hp.todo_safe todo d r hpc v' (List.mem_filter.1 hv').1
          · intro v' hv'
            have hv' : (s', v') ∈ (if r = true then aset (σ.tgt t).prevAck s v else (σ.tgt t).prevAck) := hv'
            split at hv'
            · rcases mem_aset hv' with hv' | ⟨e1, _⟩
              · exact hp.prev_safe v' hv'
              · exact absurd e1 hne'
            · exact hp.prev_safe v' hv'
  · cases h

/-! rack -/

theorem pairF_rack {N : Int → Prop} {M : Int} {s : SId} {t : TId} {x : Source} {tg : Target}
    (h : PairF N M s t x tg)
    (t0 : TId) (v0 : Int) (rest : List (TId × Int)) (hch : x.ackChan = (t0, v0) :: rest)
    (lsm' : Int) (lsa' : Option Int) (acks' : List Int)
    (hl : lsa' = x.lastSentAck ∨
      ∃ m m', lsa' = some m' ∧ minVal (aset x.ackByTarget t0 v0) = some m ∧ m' ≤ m) :
    PairF N M s t { x with
      ackChan := rest
      ackByTarget := aset x.ackByTarget t0 v0
      lastSentMin := lsm'
      lastSentAck := lsa'
      acksSent := acks' } tg := by
  have habt : ∀ v, (t, v) ∈ aset x.ackByTarget t0 v0 → SafeN N s tg v ∧ v ≤ M := by
    intro v hv
    rcases mem_aset hv with hv | ⟨e1, e2⟩
    · exact h.abt_safe v hv
    · subst e1; subst e2
      exact h.chan_safe v (by rw [hch]; exact List.mem_cons_self)
  have hseed : ∀ id, N id → (aget (aset x.ackByTarget t0 v0) t).isSome = true := by
    intro id hn
    rw [aget_aset]; split
    · rfl
    · exact h.seeded id hn
  refine ⟨h.cover, h.sorted, h.flat_le, h.ring_ok, h.ring_le, h.todo_safe, h.prev_safe, ?_, habt, ?_,
    hseed, h.cur_lt, h.grave_low⟩
  · intro v hv
    exact h.chan_safe v (by rw [hch]; exact List.mem_cons_of_mem _ hv)
  · intro a ha
    have ha : lsa' = some a := ha
    rcases hl with hl | ⟨m, m', e1, e2, e3⟩
    · rw [hl] at ha; exact h.last_safe a ha
    · rw [e1] at ha; cases ha
      intro id hr hlt
      obtain ⟨v', hv'⟩ := Option.isSome_iff_exists.1 (hseed id hr)
      have hmem := aget_some_mem hv'
      have hle := minVal_le e2 _ hmem
      exact (habt v' hmem).1 id hr (by simp only at hle; omega)

theorem srcF_rack {N : Int → Prop} {M : Int} {s : SId} {x : Source} {tg0 : Target} (hS : SrcF M x)
    (t0 : TId) (v0 : Int) (rest : List (TId × Int)) (hch : x.ackChan = (t0, v0) :: rest)
    (h0 : PairF N M s t0 x tg0) (hact : x.active = true)
    (lsm' : Int) (lsa' : Option Int) (acks' : List Int)
    (hl : lsa' = x.lastSentAck ∨
      ∃ m m', lsa' = some m' ∧ minVal (aset x.ackByTarget t0 v0) = some m ∧ m' ≤ m) :
    SrcF M { x with
      ackChan := rest
      ackByTarget := aset x.ackByTarget t0 v0
      lastSentMin := lsm'
      lastSentAck := lsa'
      acksSent := acks' } := by
  refine ⟨hS.wm_le, hS.wm_pend, hS.bcast_le, hS.high_le, ?_, fun _ _ => hact, hS.grave_le, hS.m_nonneg⟩
  intro a ha
  have ha : lsa' = some a := ha
  rcases hl with hl | ⟨m, m', e1, e2, e3⟩
  · rw [hl] at ha; exact hS.last_le a ha
  · rw [e1] at ha; cases ha
    have hle := minVal_le e2 _ (mem_aset_self x.ackByTarget t0 v0)
    have := (h0.chan_safe v0 (by rw [hch]; exact List.mem_cons_self)).2
    simp only at hle; omega

theorem step_invF_rack {σ σ' : State} {γ : Ghost} (hI : InvF σ γ) (s : SId)
    (h : step Cfg.cur σ (.rack s) = some σ') : InvF σ' γ := by
  simp only [step] at h
  split at h
  · cases h
  · rename_i hg
    simp only [Bool.not_eq_true', Bool.not_eq_false] at hg
    split at h
    · cases h
    · rename_i t0 v0 rest hch
      split at h
      · simp only [Option.some.injEq] at h
        subst h
        apply invF_setSrc hI
        · exact srcF_rack (hI.src s) t0 v0 rest hch (hI.pair s t0) hg _ _ _ (Or.inl rfl)
        · intro t
          exact pairF_rack (hI.pair s t) t0 v0 rest hch _ _ _ (Or.inl rfl)
      · rename_i m hm
        split at h
        · simp only [Option.some.injEq] at h
          subst h
          have hm' : (if (decide ((σ.src s).lastHigh > 0) && decide (m > (σ.src s).lastHigh)) = true then
              (σ.src s).lastHigh else m) ≤ m := by
            split
            · rename_i hc
              simp only [Bool.and_eq_true, decide_eq_true_eq] at hc
              omega
            · exact Int.le_refl _
          apply invF_setSrc hI
          · exact srcF_rack (hI.src s) t0 v0 rest hch (hI.pair s t0) hg _ _ _ (Or.inr ⟨m, _, rfl, hm, hm'⟩)
          · intro t
            exact pairF_rack (hI.pair s t) t0 v0 rest hch _ _ _ (Or.inr ⟨m, _, rfl, hm, hm'⟩)
        · simp only [Option.some.injEq] at h
          subst h
          apply invF_setSrc hI
          · exact srcF_rack (hI.src s) t0 v0 rest hch (hI.pair s t0) hg _ _ _ (Or.inl rfl)
          · intro t
            exact pairF_rack (hI.pair s t) t0 v0 rest hch _ _ _ (Or.inl rfl)

end S2S.Routing
