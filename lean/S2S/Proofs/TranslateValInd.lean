import S2S.Spec.TranslateVal
namespace S2S.TranslateVal
open S2S.Translate S2S.NameMap
variable {α : Type}

/-- simultaneous induction over values and lists of values; in the `cons` case the property of the head's own
    sub-list is available too (`Val.kids`) -/
theorem Val.ind2 {P : Val α → Prop} {Q : List (Val α) → Prop}
    (str : ∀ s, P (.str s)) (tok : ∀ t, P (.tok t)) (payload : ∀ t, P (.payload t)) (nil : ∀ k, P (.nil k))
    (msg : ∀ ty fs, Q fs → P (.msg ty fs)) (list : ∀ l, Q l → P (.list l)) (map : ∀ l, Q l → P (.map l))
    (kv : ∀ k v, P v → P (.kv k v)) (blobRaw : ∀ e t, P (.blobRaw e t))
    (blobEv : ∀ re evs, Q evs → P (.blobEv re evs))
    (nilL : Q []) (cons : ∀ v vs, P v → Q v.kids → Q vs → Q (v :: vs)) :
    (∀ v, P v) ∧ (∀ l, Q l) := by
  have h : ∀ v : Val α, P v ∧ Q v.kids := by
    intro v
    refine Val.rec (motive_1 := fun v => P v ∧ Q v.kids) (motive_2 := Q) ?_ ?_ ?_ ?_ ?_ ?_ ?_ ?_ ?_ ?_ ?_ ?_ v
    · intro s; exact ⟨str s, nilL⟩
    · intro t; exact ⟨tok t, nilL⟩
    · intro t; exact ⟨payload t, nilL⟩
    · intro k; exact ⟨nil k, nilL⟩
    · intro ty fs h; exact ⟨msg ty fs h, h⟩
    · intro l h; exact ⟨list l h, h⟩
    · intro l h; exact ⟨map l h, h⟩
    · intro k v h; exact ⟨kv k v h.1, nilL⟩
    · intro e t; exact ⟨blobRaw e t, nilL⟩
    · intro re evs h; exact ⟨blobEv re evs h, h⟩
    · exact nilL
    · intro v vs h1 h2; exact cons v vs h1.1 h1.2 h2
  refine ⟨fun v => (h v).1, ?_⟩
  intro l
  induction l with
  | nil => exact nilL
  | cons v vs ih => exact cons v vs (h v).1 (h v).2 ih

end S2S.TranslateVal
