import S2S.Proofs.RoutingFaultMain
import S2S.Spec.RoutingFaultsTight
/-!
The invariant for the TIGHT form of "C04 modulo the recorded findings" (`Spec/RoutingFaultsTight.lean`).

`InvT` = the proved invariant `InvF` of the loose statement (over the `Ghost` part of the `GhostT`)
  + every queued task message carries its largest id last (`SrcS`, `TgtS`: so `msgHigh` bounds the message)
  + `PairT`: every value of source `s` that target `t` holds or has produced (current ring entries, the `recvAck`
    todo list, `prevAck`, the routed acks queued at / recorded by the receiver of `s`, its `lastSentAck`) is SAFE for
    the tasks of `s` that were LOST with an earlier incarnation of `t` and have NOT been passed: each of them below
    the value is confirmed (by some incarnation of `t`); and such a task keeps `t` in `ackByTarget`.
-/
namespace S2S.Routing

/-! ### queued task messages carry their largest id last -/

def LastMax (ids : List Int) : Prop := ∀ o ∈ ids, o ≤ ids.getLast?.getD 0

theorem lastMax_of_pairwise {l : List Int} (h : l.Pairwise (· < ·)) : LastMax l := by
  induction l with
  | nil => intro o ho; cases ho
  | cons a r ih =>
    intro o ho
    cases r with
    | nil =>
      simp only [List.mem_singleton] at ho
      subst ho; simp
    | cons b r' =>
      have hp := List.pairwise_cons.1 h
      have hl : (a :: b :: r').getLast?.getD 0 = (b :: r').getLast?.getD 0 := by
        simp [List.getLast?_cons_cons]
      rw [hl]
      rcases List.mem_cons.1 ho with e | e
      · have h1 := hp.1 b List.mem_cons_self
        have h2 := ih hp.2 b List.mem_cons_self
        omega
      · exact ih hp.2 o e

def SrcS (x : Source) : Prop :=
  ∀ pending, x.pc = .deliver pending → ∀ t ids, aget pending t = some ids → LastMax ids

def TgtS (tg : Target) : Prop :=
  ∀ s ids, Msg.tasks s ids ∈ tg.sendChan → LastMax ids

/-! ### the lost-but-not-passed tasks -/

/-- tasks of `s` owned by `t`, received by the current incarnation of `s` only, handed to an incarnation of `t` that
    broke, and not passed since -/
def Lost (γ : GhostT) (s : SId) (t : TId) (x : Source) (id : Int) : Prop :=
  (id, t) ∈ x.received ∧ (id, t) ∉ x.received.take (ebase γ.g s x) ∧ (s, id) ∈ γ.g.lostOf t ∧
    (s, id) ∉ γ.passedOf t

structure PairT (L : Int → Prop) (s : SId) (t : TId) (x : Source) (tg : Target) : Prop where
  ring_lost : ∀ p o, (p, s, o) ∈ tg.ring → SafeN L s tg o
  todo_safe : ∀ todo d r, tg.ackPc = .forwarding todo d r → ∀ v, (s, v) ∈ todo → SafeN L s tg v
  prev_safe : ∀ v, (s, v) ∈ tg.prevAck → SafeN L s tg v
  chan_safe : ∀ v, (t, v) ∈ x.ackChan → SafeN L s tg v
  abt_safe : ∀ v, (t, v) ∈ x.ackByTarget → SafeN L s tg v
  last_safe : ∀ a, x.lastSentAck = some a → SafeN L s tg a
  seeded : ∀ id, L id → (aget x.ackByTarget t).isSome = true

structure InvT (σ : State) (γ : GhostT) : Prop where
  f : InvF σ γ.g
  srcS : ∀ s, SrcS (σ.src s)
  tgtS : ∀ t, TgtS (σ.tgt t)
  pair : ∀ s t, PairT (Lost γ s t (σ.src s)) s t (σ.src s) (σ.tgt t)

/-! ### transfer -/

theorem PairT.mono {L L' : Int → Prop} {s : SId} {t : TId} {x : Source} {tg : Target}
    (h : PairT L s t x tg) (hL : ∀ id, L' id → L id) : PairT L' s t x tg := by
  have hs : ∀ v, SafeN L s tg v → SafeN L' s tg v := fun v hv => hv.mono hL (fun _ ha => ha)
  exact ⟨fun p o hm => hs o (h.ring_lost p o hm), fun todo d r e v hv => hs v (h.todo_safe todo d r e v hv),
    fun v hv => hs v (h.prev_safe v hv), fun v hv => hs v (h.chan_safe v hv), fun v hv => hs v (h.abt_safe v hv),
    fun a ha => hs a (h.last_safe a ha), fun id hl => h.seeded id (hL id hl)⟩

/-- only fields that `PairT` does not read changed -/
theorem PairT.congr {L : Int → Prop} {s : SId} {t : TId} {x x' : Source} {tg tg' : Target}
    (h : PairT L s t x tg)
    (h1 : tg'.ring = tg.ring) (h2 : tg'.ackPc = tg.ackPc) (h3 : tg'.prevAck = tg.prevAck)
    (h4 : tg'.confirmed = tg.confirmed) (h5 : x'.ackChan = x.ackChan) (h6 : x'.ackByTarget = x.ackByTarget)
    (h7 : x'.lastSentAck = x.lastSentAck) : PairT L s t x' tg' := by
  have hs : ∀ v, SafeN L s tg v → SafeN L s tg' v := by
    intro v hv; unfold SafeN; rw [h4]; exact hv
  refine ⟨?_, ?_, ?_, ?_, ?_, ?_, ?_⟩
  · rw [h1]; exact fun p o hm => hs o (h.ring_lost p o hm)
  · rw [h2]; exact fun todo d r e v hv => hs v (h.todo_safe todo d r e v hv)
  · rw [h3]; exact fun v hv => hs v (h.prev_safe v hv)
  · rw [h5]; exact fun v hv => hs v (h.chan_safe v hv)
  · rw [h6]; exact fun v hv => hs v (h.abt_safe v hv)
  · rw [h7]; exact fun a ha => hs a (h.last_safe a ha)
  · rw [h6]; exact h.seeded

/-- nothing is lost-and-unpassed: everything holds trivially -/
theorem pairT_empty {L : Int → Prop} (hL : ∀ id, ¬ L id) (s : SId) (t : TId) (x : Source) (tg : Target) :
    PairT L s t x tg := by
  have hs : ∀ v, SafeN L s tg v := fun v id hl _ => absurd hl (hL id)
  exact ⟨fun _ o _ => hs o, fun _ _ _ _ v _ => hs v, fun v _ => hs v, fun v _ => hs v, fun v _ => hs v,
    fun a _ => hs a, fun id hl => absurd hl (hL id)⟩

theorem Lost.of_eq {γ γ' : GhostT} {s : SId} {t : TId} {x x' : Source} {id : Int}
    (h : Lost γ' s t x' id) (hr : x'.received = x.received) (hb : ebase γ'.g s x' = ebase γ.g s x)
    (hl : γ'.g.lostOf t = γ.g.lostOf t) (hp : ∀ a, a ∈ γ.passedOf t → a ∈ γ'.passedOf t) : Lost γ s t x id := by
  unfold Lost at h ⊢
  rw [hr, hb, hl] at h
  exact ⟨h.1, h.2.1, h.2.2.1, fun hc => h.2.2.2 (hp _ hc)⟩

theorem lost_inactive {γ : GhostT} {s : SId} {t : TId} {x : Source} (h : x.active = false) (id : Int) :
    ¬ Lost γ s t x id := by
  intro hn
  unfold Lost ebase at hn
  simp only [h, Bool.false_eq_true, if_false, List.take_length] at hn
  exact hn.2.1 hn.1

theorem lost_base_full {γ : GhostT} {s : SId} {t : TId} {x : Source} (h : ebase γ.g s x = x.received.length)
    (id : Int) : ¬ Lost γ s t x id := by
  intro hn
  unfold Lost at hn
  rw [h, List.take_length] at hn
  exact hn.2.1 hn.1

/-! ### the ghost -/

def GhostT.upd (σ : State) (γ : GhostT) : Act → GhostT
  | .take t =>
    match (σ.tgt t).sendChan with
    | [] => γ
    | m :: _ =>
      { g := γ.g
        passed := aset γ.passed t
          (γ.passedOf t ++ (γ.g.lostOf t).filter fun p => p.1 == msgSrc m && p.2 < msgHigh m) }
  | a => { g := γ.g.upd σ a, passed := γ.passed }

theorem ghostT_next_of_step {c : Cfg} {σ σ' : State} (γ : GhostT) {a : Act} (h : step c σ a = some σ') :
    γ.next c σ a = γ.upd σ a := by
  unfold GhostT.next
  rw [h]
  simp only
  rw [ghost_next_of_step γ.g h]
  cases a <;> rfl

theorem ghostT_next_none {c : Cfg} {σ : State} (γ : GhostT) {a : Act} (h : step c σ a = none) :
    γ.next c σ a = γ := by
  unfold GhostT.next; rw [h]

/-! ### initial state -/

theorem invT_init (ns nt : Nat) : InvT (State.init ns nt) {} := by
  refine ⟨invF_init ns nt, ?_, ?_, ?_⟩
  · intro s; rw [src_init]; intro pending e; cases e
  · intro t; rw [tgt_init]; intro s ids e; cases e
  · intro s t; rw [src_init, tgt_init]
    exact pairT_empty (fun id h => by cases h.1) s t _ _

/-! ### lifting record-level facts to states -/

theorem invT_setTgt {σ : State} {γ : GhostT} (hI : InvT σ γ) (γ' : GhostT) (t : TId) (tg' : Target)
    (hF' : InvF (σ.setTgt t tg') γ'.g) (hT : TgtS tg')
    (hL : ∀ s t', (t' ≠ t ∨ ¬ t < σ.targets.length) →
      ∀ id, Lost γ' s t' (σ.src s) id → Lost γ s t' (σ.src s) id)
    (hp : ∀ s, PairT (Lost γ' s t (σ.src s)) s t (σ.src s) tg') : InvT (σ.setTgt t tg') γ' := by
  refine ⟨hF', ?_, ?_, ?_⟩
  · intro s; exact hI.srcS s
  · intro t'; rw [tgt_setTgt]; split
    · exact hT
    · exact hI.tgtS t'
  · intro s t'; rw [tgt_setTgt, src_setTgt]; split
    · rename_i h; rw [h.1]; exact hp s
    · rename_i h
      refine (hI.pair s t').mono (hL s t' ?_)
      by_cases e : t' = t
      · right; intro hlt; exact h ⟨e, hlt⟩
      · left; exact e

theorem invT_setSrc {σ : State} {γ : GhostT} (hI : InvT σ γ) (γ' : GhostT) (s : SId) (x' : Source)
    (hF' : InvF (σ.setSrc s x') γ'.g) (hS : SrcS x')
    (hL : ∀ s' t, (s' ≠ s ∨ ¬ s < σ.sources.length) →
      ∀ id, Lost γ' s' t (σ.src s') id → Lost γ s' t (σ.src s') id)
    (hp : ∀ t, PairT (Lost γ' s t x') s t x' (σ.tgt t)) : InvT (σ.setSrc s x') γ' := by
  refine ⟨hF', ?_, ?_, ?_⟩
  · intro s'; rw [src_setSrc]; split
    · exact hS
    · exact hI.srcS s'
  · intro t; exact hI.tgtS t
  · intro s' t; rw [src_setSrc, tgt_setSrc]; split
    · rename_i h; rw [h.1]; exact hp t
    · rename_i h
      refine (hI.pair s' t).mono (hL s' t ?_)
      by_cases e : s' = s
      · right; intro hlt; exact h ⟨e, hlt⟩
      · left; exact e

theorem invT_setBoth {σ : State} {γ : GhostT} (hI : InvT σ γ) (s : SId) (t : TId) (x' : Source) (tg' : Target)
    (hF' : InvF ((σ.setSrc s x').setTgt t tg') γ.g)
    (hsl : s < σ.sources.length) (htl : t < σ.targets.length)
    (hS : SrcS x') (hT : TgtS tg')
    (h1 : PairT (Lost γ s t x') s t x' tg')
    (h2 : ∀ t', t' ≠ t → PairT (Lost γ s t' x') s t' x' (σ.tgt t'))
    (h3 : ∀ s', s' ≠ s → PairT (Lost γ s' t (σ.src s')) s' t (σ.src s') tg') :
    InvT ((σ.setSrc s x').setTgt t tg') γ := by
  refine ⟨hF', ?_, ?_, ?_⟩
  · intro s'; rw [src_setTgt, src_setSrc]; split
    · exact hS
    · exact hI.srcS s'
  · intro t'; rw [tgt_setTgt]; split
    · exact hT
    · exact hI.tgtS t'
  · intro s' t'
    rw [tgt_setTgt, src_setTgt, src_setSrc, tgt_setSrc]
    by_cases e1 : s' = s <;> by_cases e2 : t' = t
    · subst e1; subst e2; simp [hsl, htl, h1]
    · subst e1; simp [hsl, e2, h2 t' e2]
    · subst e2; simp [htl, e1, h3 s' e1]
    · simp [e1, e2, hI.pair s' t']

end S2S.Routing
