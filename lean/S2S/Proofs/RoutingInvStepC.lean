import S2S.Proofs.RoutingInvDef
/-! Invariant preservation: hand-off into the send channels (`bcastStep`, `deliver`, `replayStep`). -/
namespace S2S.Routing

theorem chanVals_append (s : SId) (ch : List Msg) (m : Msg) :
    chanVals s (ch ++ [m]) = chanVals s ch ++ msgVals s m := by
  simp [chanVals, List.flatMap_append]

theorem chanVals_cons (s : SId) (m : Msg) (ch : List Msg) :
    chanVals s (m :: ch) = msgVals s m ++ chanVals s ch := by
  simp [chanVals, List.flatMap_cons]

theorem pendVals_ite_deliver (l : List (TId × List Int)) (t : TId) :
    pendVals (if l.isEmpty = true then RecvPc.idle else RecvPc.deliver l) t = pendVals (.deliver l) t := by
  split
  · rename_i h
    simp only [pendVals]
    rw [aget_of_isEmpty h]; rfl
  · rfl

theorem pendVals_filter (l : List (TId × List Int)) (t0 t : TId) :
    pendVals (.deliver (l.filter (fun p => p.1 != t0))) t = if t = t0 then [] else pendVals (.deliver l) t := by
  simp only [pendVals, aget_filter_ne]
  split <;> rfl

@[simp] theorem pendVals_bcast (high : Int) (l : List (TId × Nat)) (t : TId) :
    pendVals (RecvPc.bcast high l) t = [] := rfl

@[simp] theorem pendVals_idle (t : TId) : pendVals RecvPc.idle t = [] := rfl

theorem pendVals_ite_bcast (high : Int) (l : List (TId × Nat)) (t : TId) :
    pendVals (if l.isEmpty = true then RecvPc.idle else RecvPc.bcast high l) t = [] := by
  split <;> rfl

/-- transfer of `PairOK` when only the flat pipeline view changes -/
theorem PairOK.of_flat {s : SId} {t : TId} {x : Source} {tg : Target} (h : PairOK s t x tg)
    {x' : Source} {tg' : Target}
    (hsub : ∀ y, y ∈ flat s t x tg → y ∈ flat s t x' tg')
    (hsorted : (flat s t x' tg').Pairwise FlatRel)
    (hle : ∀ y ∈ flat s t x' tg', y.1 ≤ x.lastHigh)
    (h1 : x'.received = x.received) (h2 : x'.lastHigh = x.lastHigh)
    (h3 : tg'.assigned = tg.assigned) (h4 : tg'.ring = tg.ring) (h5 : tg'.ackPc = tg.ackPc)
    (h6 : tg'.prevAck = tg.prevAck) (h7 : x'.ackChan = x.ackChan)
    (h8 : x'.ackByTarget = x.ackByTarget) (h9 : x'.lastSentAck = x.lastSentAck)
    (h10 : tg'.confirmed = tg.confirmed) : PairOK s t x' tg' := by
  have hsafe : ∀ v, SafeV s t x tg v → SafeV s t x' tg' v := by
    intro v hv; unfold SafeV; rw [h1, h10]; exact hv
  refine ⟨?_, hsorted, ?_, ?_, ?_, ?_, ?_, ?_, ?_, ?_⟩
  · intro id hr; rw [h1] at hr; rw [h3]
    rcases h.cover id hr with hc | hc
    · exact Or.inl hc
    · exact Or.inr (hsub _ hc)
  · rw [h2]; exact hle
  · rw [h4, h1, h3]; exact h.ring_ok
  · rw [h4, h2]; exact h.ring_le
  · rw [h5, h2]; intro todo d r e v hv
    exact ⟨hsafe v (h.todo_safe todo d r e v hv).1, (h.todo_safe todo d r e v hv).2⟩
  · rw [h6, h2]; intro v hv; exact ⟨hsafe v (h.prev_safe v hv).1, (h.prev_safe v hv).2⟩
  · rw [h7, h2]; intro v hv; exact ⟨hsafe v (h.chan_safe v hv).1, (h.chan_safe v hv).2⟩
  · rw [h8, h2]; intro v hv; exact ⟨hsafe v (h.abt_safe v hv).1, (h.abt_safe v hv).2⟩
  · rw [h9]; intro a ha; exact hsafe a (h.last_safe a ha)

theorem PairOK.of_flat_eq {s : SId} {t : TId} {x : Source} {tg : Target} (h : PairOK s t x tg)
    {x' : Source} {tg' : Target}
    (hf : flat s t x' tg' = flat s t x tg)
    (h1 : x'.received = x.received) (h2 : x'.lastHigh = x.lastHigh)
    (h3 : tg'.assigned = tg.assigned) (h4 : tg'.ring = tg.ring) (h5 : tg'.ackPc = tg.ackPc)
    (h6 : tg'.prevAck = tg.prevAck) (h7 : x'.ackChan = x.ackChan)
    (h8 : x'.ackByTarget = x.ackByTarget) (h9 : x'.lastSentAck = x.lastSentAck)
    (h10 : tg'.confirmed = tg.confirmed) : PairOK s t x' tg' :=
  h.of_flat (by rw [hf]; exact fun _ hy => hy) (by rw [hf]; exact h.sorted) (by rw [hf]; exact h.flat_le)
    h1 h2 h3 h4 h5 h6 h7 h8 h9 h10

theorem pairwise_insert_wm {A P : List (Int × Bool)} {h : Int} (hs : (A ++ P).Pairwise FlatRel)
    (hP : ∀ y ∈ P, h ≤ y.1) : (A ++ [(h, false)] ++ P).Pairwise FlatRel := by
  rw [List.pairwise_append] at hs
  obtain ⟨hA, hPw, hAP⟩ := hs
  rw [List.pairwise_append]
  refine ⟨?_, hPw, ?_⟩
  · rw [List.pairwise_append]
    refine ⟨hA, List.pairwise_singleton _ _, ?_⟩
    intro a _ b hb
    simp only [List.mem_singleton] at hb
    subst hb
    intro e; cases e
  · intro a ha b hb
    rcases List.mem_append.1 ha with ha | ha
    · exact hAP a ha b hb
    · simp only [List.mem_singleton] at ha
      subst ha
      intro _; exact hP b hb

theorem msgVals_wm_ne {s s0 : SId} (h : s ≠ s0) (v : Int) : msgVals s (.wm s0 v) = [] := by
  simp only [msgVals]; split
  · rename_i e; exact absurd e.symm h
  · rfl

theorem msgVals_tasks_ne {s s0 : SId} (h : s ≠ s0) (ids : List Int) : msgVals s (.tasks s0 ids) = [] := by
  simp only [msgVals]; split
  · rename_i e; exact absurd e.symm h
  · rfl

theorem msgVals_wm_self (s : SId) (v : Int) : msgVals s (.wm s v) = [(v, false)] := by
  simp [msgVals]

theorem msgVals_tasks_self (s : SId) (ids : List Int) :
    msgVals s (.tasks s ids) = ids.map (fun i => (i, true)) := by
  simp [msgVals]

/-! bcastStep -/

theorem step_inv_bcastStep {σ σ' : State} (hI : Inv σ) (s : SId) (t : TId)
    (h : step Cfg.cur σ (.bcastStep s t) = some σ') : Inv σ' := by
  simp only [step] at h
  split at h
  · rename_i high todo hpc
    split at h
    · cases h
    · rename_i inc hinc
      have hS := hI.src s
      have hne : σ.src s ≠ {} := by intro e; rw [e] at hpc; cases hpc
      have hact := hI.src_active hne
      have hsrc' : SrcOK { σ.src s with pc := if (todo.filter (fun p => p.1 != t)).isEmpty = true then RecvPc.idle else RecvPc.bcast high (todo.filter (fun p => p.1 != t)) } := by
        refine ⟨?_, hS.wm_le, ?_, ?_, hS.last_le, hS.seeded, hS.grave⟩
        · intro e; exact absurd (show (σ.src s).active = false from e) (by simp [hact])
        · intro h' _ t' y hy
          have hy : y ∈ pendVals (if (todo.filter (fun p => p.1 != t)).isEmpty = true then RecvPc.idle else RecvPc.bcast high (todo.filter (fun p => p.1 != t))) t' := hy
          rw [pendVals_ite_bcast] at hy; cases hy
        · intro high' todo' e
          have e : (if (todo.filter (fun p => p.1 != t)).isEmpty = true then RecvPc.idle else RecvPc.bcast high (todo.filter (fun p => p.1 != t))) = RecvPc.bcast high' todo' := e
          split at e
          · cases e
          · cases e; exact hS.bcast_le _ _ hpc
      have hpair' : ∀ t', PairOK s t' { σ.src s with pc := if (todo.filter (fun p => p.1 != t)).isEmpty = true then RecvPc.idle else RecvPc.bcast high (todo.filter (fun p => p.1 != t)) } (σ.tgt t') := by
        intro t'
        refine (hI.pair s t').of_flat_eq ?_ rfl rfl rfl rfl rfl rfl rfl rfl rfl rfl
        simp only [flat, pendVals_ite_bcast, hpc, pendVals_bcast]
      split at h
      · rename_i hg
        simp only [Bool.and_eq_true, beq_iff_eq] at hg
        simp only [Option.some.injEq] at h
        subst h
        have hT := hI.tgt t
        apply inv_setBoth hI s t _ _ (hI.src_lt hact) (hI.tgt_lt hg.1.1) hsrc'
        · refine ⟨?_, hT.asg_le⟩
          intro e; exact absurd (show (σ.tgt t).registered = false from e) (by simp [hg.1.1])
        · refine (hI.pair s t).of_flat ?_ ?_ ?_ rfl rfl rfl rfl rfl rfl rfl rfl rfl rfl
          · intro y hy
            simp only [flat, pendVals_ite_bcast, hpc, pendVals_bcast, chanVals_append, List.append_nil] at hy ⊢
            exact List.mem_append_left _ hy
          · have := (hI.pair s t).sorted
            simp only [flat, pendVals_ite_bcast, hpc, pendVals_bcast, chanVals_append, List.append_nil, msgVals_wm_self] at this ⊢
            have h2 := pairwise_insert_wm (A := chanVals s (σ.tgt t).sendChan) (P := []) (h := high) (by simpa using this) (by intro y hy; cases hy)
            simpa using h2
          · intro y hy
            simp only [flat, pendVals_ite_bcast, chanVals_append, List.append_nil, msgVals_wm_self] at hy
            rcases List.mem_append.1 hy with hy | hy
            · apply (hI.pair s t).flat_le
              simp only [flat, hpc, pendVals_bcast, List.append_nil]; exact hy
            · simp only [List.mem_singleton] at hy
              subst hy; exact hS.bcast_le _ _ hpc
        · intro t' _; exact hpair' t'
        · intro s' hne'
          refine (hI.pair s' t).of_flat_eq ?_ rfl rfl rfl rfl rfl rfl rfl rfl rfl rfl
          simp only [flat, chanVals_append, msgVals_wm_ne hne', List.append_nil]
      · simp only [Option.some.injEq] at h
        subst h
        exact inv_setSrc hI s _ hsrc' hpair'
  · cases h


/-! deliver -/

theorem step_inv_deliver {σ σ' : State} (hI : Inv σ) (s : SId) (t : TId)
    (h : step Cfg.cur σ (.deliver s t) = some σ') : Inv σ' := by
  simp only [step] at h
  split at h
  · rename_i pending hpc
    split at h
    · cases h
    · rename_i ids hids
      split at h
      · cases h
      · rename_i hg
        simp only [Bool.not_eq_true', Bool.and_eq_false_iff, not_or, Bool.not_eq_false] at hg
        simp only [Option.some.injEq] at h
        subst h
        have hS := hI.src s
        have hT := hI.tgt t
        have hne : σ.src s ≠ {} := by intro e; rw [e] at hpc; cases hpc
        have hact := hI.src_active hne
        have hpv : ∀ t', pendVals (if (pending.filter (fun p => p.1 != t)).isEmpty = true then RecvPc.idle
            else RecvPc.deliver (pending.filter (fun p => p.1 != t))) t' =
            if t' = t then [] else pendVals (σ.src s).pc t' := by
          intro t'; rw [pendVals_ite_deliver, pendVals_filter, hpc]
        have hpvt : pendVals (σ.src s).pc t = ids.map (fun i => (i, true)) := by
          rw [hpc]; simp only [pendVals, hids, Option.getD_some]
        apply inv_setBoth hI s t _ _ (hI.src_lt hact) (hI.tgt_lt hg.1)
        · refine ⟨?_, hS.wm_le, ?_, ?_, hS.last_le, hS.seeded, hS.grave⟩
          · intro e; exact absurd (show (σ.src s).active = false from e) (by simp [hact])
          · intro h' hw t' y hy
            have hy : y ∈ pendVals (if (pending.filter (fun p => p.1 != t)).isEmpty = true then RecvPc.idle
              else RecvPc.deliver (pending.filter (fun p => p.1 != t))) t' := hy
            rw [hpv] at hy
            split at hy
            · cases hy
            · exact hS.wm_pend h' hw t' y hy
          · intro high' todo' e
            have e : (if (pending.filter (fun p => p.1 != t)).isEmpty = true then RecvPc.idle
              else RecvPc.deliver (pending.filter (fun p => p.1 != t))) = RecvPc.bcast high' todo' := e
            split at e <;> cases e
        · refine ⟨?_, hT.asg_le⟩
          intro e; exact absurd (show (σ.tgt t).registered = false from e) (by simp [hg.1])
        · refine (hI.pair s t).of_flat_eq ?_ rfl rfl rfl rfl rfl rfl rfl rfl rfl rfl
          simp only [flat, hpv, if_true, chanVals_append, msgVals_tasks_self, hpvt, List.append_nil]
        · intro t' hne'
          refine (hI.pair s t').of_flat_eq ?_ rfl rfl rfl rfl rfl rfl rfl rfl rfl rfl
          simp only [flat, hpv, hne', if_false]
        · intro s' hne'
          refine (hI.pair s' t).of_flat_eq ?_ rfl rfl rfl rfl rfl rfl rfl rfl rfl rfl
          simp only [flat, chanVals_append, msgVals_tasks_ne hne', List.append_nil]
  · cases h

/-! replayStep -/

theorem pairOK_replay_same {s : SId} {t : TId} {x : Source} {tg : Target} (h : PairOK s t x tg)
    (rt : Option (List (SId × Nat))) : PairOK s t x { tg with replayTodo := rt } :=
  ⟨h.cover, h.sorted, h.flat_le, h.ring_ok, h.ring_le, h.todo_safe, h.prev_safe, h.chan_safe,
    h.abt_safe, h.last_safe⟩

theorem step_inv_replayStep {σ σ' : State} (hI : Inv σ) (t : TId) (s : SId)
    (h : step Cfg.cur σ (.replayStep t s) = some σ') : Inv σ' := by
  simp only [step] at h
  split at h
  · cases h
  · rename_i todo htodo
    have hT := hI.tgt t
    have hne : σ.tgt t ≠ {} := by intro e; rw [e] at htodo; cases htodo
    have hreg := hI.tgt_registered hne
    have hT' : ∀ (tg' : Target), tg'.registered = (σ.tgt t).registered → tg'.assigned = (σ.tgt t).assigned →
        tg'.nextProxyId = (σ.tgt t).nextProxyId → TgtOK tg' := by
      intro tg' e1 e2 e3
      refine ⟨?_, ?_⟩
      · intro e; rw [e1, hreg] at e; cases e
      · rw [e2, e3]; exact hT.asg_le
    split at h
    · cases h
    · rename_i inc hinc
      split at h
      · rename_i wm hwm
        split at h
        · rename_i hg
          simp only [Option.some.injEq] at h
          subst h
          have hS := hI.src s
          have hlw : (σ.src s).lastWatermark = some wm := by
            split at hwm
            · exact hwm
            · rw [hS.grave] at hwm; simp [aget_nil] at hwm
          apply inv_setTgt hI
          · exact hT' _ rfl rfl rfl
          · intro s'
            by_cases hs : s' = s
            · subst hs
              refine (hI.pair s' t).of_flat ?_ ?_ ?_ rfl rfl rfl rfl rfl rfl rfl rfl rfl rfl
              · intro y hy
                simp only [flat, chanVals_append, msgVals_wm_self] at hy ⊢
                rcases List.mem_append.1 hy with hy | hy
                · exact List.mem_append_left _ (List.mem_append_left _ hy)
                · exact List.mem_append_right _ hy
              · have := (hI.pair s' t).sorted
                simp only [flat, chanVals_append, msgVals_wm_self] at this ⊢
                exact pairwise_insert_wm this (fun y hy => hS.wm_pend wm hlw t y hy)
              · intro y hy
                simp only [flat, chanVals_append, msgVals_wm_self] at hy
                rcases List.mem_append.1 hy with hy | hy
                · rcases List.mem_append.1 hy with hy | hy
                  · exact (hI.pair s' t).flat_le y (List.mem_append_left _ hy)
                  · simp only [List.mem_singleton] at hy
                    subst hy; exact hS.wm_le wm hlw
                · exact (hI.pair s' t).flat_le y (List.mem_append_right _ hy)
            · refine (hI.pair s' t).of_flat_eq ?_ rfl rfl rfl rfl rfl rfl rfl rfl rfl rfl
              simp only [flat, chanVals_append, msgVals_wm_ne hs, List.append_nil]
        · simp only [Option.some.injEq] at h
          subst h
          apply inv_setTgt hI
          · exact hT' _ rfl rfl rfl
          · intro s'; exact pairOK_replay_same (hI.pair s' t) _
      · simp only [Option.some.injEq] at h
        subst h
        apply inv_setTgt hI
        · exact hT' _ rfl rfl rfl
        · intro s'; exact pairOK_replay_same (hI.pair s' t) _

end S2S.Routing
