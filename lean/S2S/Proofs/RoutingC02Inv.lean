import S2S.Proofs.RoutingC02Basic
/-!
Invariant vocabulary for the C02 proofs.
-/
namespace S2S.Routing

/-- original ids of source `s` carried by task messages of a channel, in order -/
def ofS (s : SId) : List Msg → List Int
  | [] => []
  | .tasks s' ids :: r => if s' = s then ids ++ ofS s r else ofS s r
  | .wm _ _ :: r => ofS s r

theorem ofS_append (s : SId) (a b : List Msg) : ofS s (a ++ b) = ofS s a ++ ofS s b := by
  induction a with
  | nil => rfl
  | cons m r ih =>
    cases m with
    | tasks s' ids =>
      simp only [List.cons_append, ofS, ih]
      split <;> simp
    | wm s' h => simp only [List.cons_append, ofS, ih]

theorem ofS_eq_nil_of_all (s : SId) (l : List Msg)
    (h : l.all (fun m => m.src != s || m.isWm) = true) : ofS s l = [] := by
  induction l with
  | nil => rfl
  | cons m r ih =>
    rw [List.all_cons, Bool.and_eq_true] at h
    cases m with
    | tasks s' ids =>
      have h1 : s' ≠ s := by simpa [Msg.src, Msg.isWm] using h.1
      simp only [ofS, h1, if_false]
      exact ih h.2
    | wm s' hh => simp only [ofS]; exact ih h.2

/-- original ids of source `s` in a list of emitted messages -/
def delOf (s : SId) (l : List Emitted) : List Int :=
  (l.filter (fun e => e.src == s)).flatMap (·.orig)

theorem delOf_append (s : SId) (a b : List Emitted) : delOf s (a ++ b) = delOf s a ++ delOf s b := by
  simp [delOf, List.filter_append, List.flatMap_append]

theorem delOf_nil (s : SId) : delOf s [] = [] := rfl

theorem delOf_singleton (s : SId) (e : Emitted) :
    delOf s [e] = if e.src = s then e.orig else [] := by
  by_cases h : e.src = s
  · simp [delOf, h]
  · simp [delOf, h]

theorem deliveredOf_eq (tg : Target) (s : SId) : tg.deliveredOf s = delOf s tg.stream := rfl

/-- everything the sender has processed: the emitted stream plus the message blocked in `Send` -/
def Target.full (tg : Target) : List Emitted := tg.stream ++ tg.holding.toList

/-- the pending sub-batch for `t` -/
def pendSeg : RecvPc → TId → List Int
  | .deliver p, t => (aget p t).getD []
  | _, _ => []

/-- the (last id, max high) pair reached after a stream -/
def endState : Int → Int → List Emitted → Int × Int
  | l, m, [] => (l, m)
  | l, m, e :: r =>
    if e.ids.isEmpty then endState l (if e.high > m then e.high else m) r
    else endState (e.ids.getLast?.getD l) e.high r

theorem endState_append (l m : Int) (xs ys : List Emitted) :
    endState l m (xs ++ ys) = endState (endState l m xs).1 (endState l m xs).2 ys := by
  induction xs generalizing l m with
  | nil => rfl
  | cons e r ih =>
    simp only [List.cons_append, endState]
    split
    · exact ih _ _
    · exact ih _ _

theorem streamWF_append (l m : Int) (xs ys : List Emitted) :
    StreamWF l m (xs ++ ys) ↔
      StreamWF l m xs ∧ StreamWF (endState l m xs).1 (endState l m xs).2 ys := by
  induction xs generalizing l m with
  | nil => simp [StreamWF, endState]
  | cons e r ih =>
    simp only [List.cons_append, StreamWF, endState]
    split
    · exact ih _ _
    · rw [ih]
      simp only [and_assoc]

/-! ### the invariant -/

structure SrcInv (x : Source) : Prop where
  inact : x.active = false → x.received = [] ∧ x.pc = .idle
  lt : ∀ p ∈ x.received, p.1 < x.lastHigh
  pw : (x.received.map (·.1)).Pairwise (· < ·)

structure TgtInv (tg : Target) : Prop where
  unreg : tg.registered = false →
    tg.started = false ∧ tg.replayTodo = none ∧ tg.sendChan = [] ∧ tg.holding = none ∧ tg.stream = []
  hold_ka : ∀ e, tg.holding = some e → e.keepalive = false
  lens : ∀ e ∈ tg.full, e.ids.length = e.orig.length
  wf : StreamWF 0 0 tg.full
  endL : (endState 0 0 tg.full).1 ≤ tg.nextProxyId
  endM : (endState 0 0 tg.full).2 ≤ tg.nextProxyId + 1

/-- the pipeline equation for the pair (s, t) -/
def Pipe (s : SId) (t : TId) (x : Source) (tg : Target) : Prop :=
  x.sentTo t = delOf s tg.full ++ ofS s tg.sendChan ++ pendSeg x.pc t

structure Inv (σ : State) : Prop where
  src : ∀ s, SrcInv (σ.src s)
  tgt : ∀ t, TgtInv (σ.tgt t)
  pipe : ∀ s t, Pipe s t (σ.src s) (σ.tgt t)

theorem SrcInv.congr {x x' : Source} (h : SrcInv x) (ha : x'.active = x.active) (hp : x'.pc = x.pc)
    (hl : x'.lastHigh = x.lastHigh) (hr : x'.received = x.received) : SrcInv x' := by
  constructor
  · rw [ha, hp, hr]; exact h.inact
  · rw [hl, hr]; exact h.lt
  · rw [hr]; exact h.pw

theorem Target.full_congr {tg tg' : Target} (hh : tg'.holding = tg.holding) (hs : tg'.stream = tg.stream) :
    tg'.full = tg.full := by
  simp only [Target.full, hh, hs]

theorem TgtInv.congrFull {tg tg' : Target} (h : TgtInv tg)
    (hu : tg'.registered = false →
      tg'.started = false ∧ tg'.replayTodo = none ∧ tg'.sendChan = [] ∧ tg'.holding = none ∧ tg'.stream = [])
    (hka : ∀ e, tg'.holding = some e → e.keepalive = false)
    (hf : tg'.full = tg.full)
    (hn : tg'.nextProxyId = tg.nextProxyId) : TgtInv tg' := by
  constructor
  · exact hu
  · exact hka
  · rw [hf]; exact h.lens
  · rw [hf]; exact h.wf
  · rw [hf, hn]; exact h.endL
  · rw [hf, hn]; exact h.endM

theorem TgtInv.congr {tg tg' : Target} (h : TgtInv tg)
    (hu : tg'.registered = false →
      tg'.started = false ∧ tg'.replayTodo = none ∧ tg'.sendChan = [] ∧ tg'.holding = none ∧ tg'.stream = [])
    (hh : tg'.holding = tg.holding) (hs : tg'.stream = tg.stream)
    (hn : tg'.nextProxyId = tg.nextProxyId) : TgtInv tg' :=
  h.congrFull hu (by rw [hh]; exact h.hold_ka) (Target.full_congr hh hs) hn

theorem TgtInv.congrReg {tg tg' : Target} (h : TgtInv tg) (hreg : tg'.registered = true)
    (hh : tg'.holding = tg.holding) (hs : tg'.stream = tg.stream)
    (hn : tg'.nextProxyId = tg.nextProxyId) : TgtInv tg' :=
  h.congr (fun hf => by rw [hreg] at hf; cases hf) hh hs hn

theorem TgtInv.reg_of_started {tg : Target} (h : TgtInv tg) (hs : tg.started = true) : tg.registered = true := by
  cases hr : tg.registered with
  | true => rfl
  | false => have := (h.unreg hr).1; rw [hs] at this; cases this

theorem TgtInv.reg_of_replayTodo {tg : Target} (h : TgtInv tg) (hs : tg.replayTodo ≠ none) : tg.registered = true := by
  cases hr : tg.registered with
  | true => rfl
  | false => exact absurd (h.unreg hr).2.1 hs

theorem TgtInv.reg_of_holding {tg : Target} (h : TgtInv tg) (hs : tg.holding ≠ none) : tg.registered = true := by
  cases hr : tg.registered with
  | true => rfl
  | false => exact absurd (h.unreg hr).2.2.2.1 hs

theorem SrcInv.active_of_pc {x : Source} (h : SrcInv x) (hpc : x.pc ≠ .idle) : x.active = true := by
  cases ha : x.active with
  | true => rfl
  | false => exact absurd (h.inact ha).2 hpc

theorem SrcInv.congrActive {x x' : Source} (h : SrcInv x) (ha : x'.active = true)
    (hl : x'.lastHigh = x.lastHigh) (hr : x'.received = x.received) : SrcInv x' := by
  constructor
  · intro hf; rw [ha] at hf; cases hf
  · rw [hl, hr]; exact h.lt
  · rw [hr]; exact h.pw

theorem Pipe.congr {s : SId} {t : TId} {x x' : Source} {tg tg' : Target} (h : Pipe s t x tg)
    (hr : x'.received = x.received) (hp : pendSeg x'.pc t = pendSeg x.pc t)
    (hf : tg'.full = tg.full) (hc : ofS s tg'.sendChan = ofS s tg.sendChan) :
    Pipe s t x' tg' := by
  unfold Pipe Source.sentTo at *
  rw [hf, hr, hp, hc]
  exact h

theorem pendSeg_filter (pending : List (TId × List Int)) (t t' : TId) :
    pendSeg (if (pending.filter (fun p => p.1 != t)).isEmpty then .idle
      else .deliver (pending.filter (fun p => p.1 != t))) t' =
    if t' = t then [] else pendSeg (.deliver pending) t' := by
  have key := aget_filter_ne pending t t'
  split
  · rename_i he
    rw [List.isEmpty_iff] at he
    rw [he, aget_nil] at key
    simp only [pendSeg]
    split
    · rfl
    · rename_i hne
      simp only [hne, if_false] at key
      rw [← key]; rfl
  · simp only [pendSeg, key]
    split <;> rfl

/-! ### `process` -/

def emitOf (n : Int) : Msg → Emitted
  | .tasks s ids =>
    { src := s, ids := (List.range ids.length).map (fun (i : Nat) => n + 1 + (i : Int)),
      high := n + (ids.length : Int) + 1, orig := ids }
  | .wm s _ => { src := s, ids := [], high := n + 1, orig := [] }

def nextOf (n : Int) : Msg → Int
  | .tasks _ ids => n + (ids.length : Int)
  | .wm _ _ => n + 1

theorem process_holding (tg : Target) (m : Msg) :
    (process tg m).holding = some (emitOf tg.nextProxyId m) := by cases m <;> rfl
theorem process_nextProxyId (tg : Target) (m : Msg) :
    (process tg m).nextProxyId = nextOf tg.nextProxyId m := by cases m <;> rfl
theorem process_registered (tg : Target) (m : Msg) : (process tg m).registered = tg.registered := by
  cases m <;> rfl
theorem process_started (tg : Target) (m : Msg) : (process tg m).started = tg.started := by
  cases m <;> rfl
theorem process_replayTodo (tg : Target) (m : Msg) : (process tg m).replayTodo = tg.replayTodo := by
  cases m <;> rfl
theorem process_sendChan (tg : Target) (m : Msg) : (process tg m).sendChan = tg.sendChan := by
  cases m <;> rfl
theorem process_emitted (tg : Target) (m : Msg) : (process tg m).emitted = tg.emitted := by
  cases m <;> rfl
theorem process_stream (tg : Target) (m : Msg) : (process tg m).stream = tg.stream := by
  cases m <;> rfl

theorem emitOf_keepalive (n : Int) (m : Msg) : (emitOf n m).keepalive = false := by cases m <;> rfl

theorem emitOf_lens (n : Int) (m : Msg) : (emitOf n m).ids.length = (emitOf n m).orig.length := by
  cases m <;> simp [emitOf]

theorem delOf_emitOf (s : SId) (n : Int) (m : Msg) : delOf s [emitOf n m] = ofS s [m] := by
  rw [delOf_singleton]
  cases m with
  | tasks s' ids => by_cases h : s' = s <;> simp [emitOf, ofS, h]
  | wm s' hh => simp only [emitOf, ofS]; by_cases h : s' = s <;> simp only [h, if_true, if_false]

theorem emitOf_wf (n : Int) (m : Msg) (L M : Int) (hL : L ≤ n) (hM : M ≤ n + 1) :
    StreamWF L M [emitOf n m] ∧ (endState L M [emitOf n m]).1 ≤ nextOf n m ∧
      (endState L M [emitOf n m]).2 ≤ nextOf n m + 1 := by
  cases m with
  | wm s h =>
    simp only [emitOf, nextOf, StreamWF, endState, List.isEmpty_nil, if_true]
    refine ⟨trivial, by omega, ?_⟩
    by_cases hc : n + 1 > M <;> simp only [hc, if_true, if_false] <;> omega
  | tasks s ids =>
    cases ids with
    | nil =>
      simp only [emitOf, nextOf, StreamWF, endState, List.length_nil, List.range_zero, List.map_nil,
        List.isEmpty_nil, if_true]
      refine ⟨trivial, by simp only [Int.natCast_zero]; omega, ?_⟩
      by_cases hc : n + (0 : Nat) + 1 > M <;> simp only [hc, if_true, if_false] <;> omega
    | cons a r =>
      have hmem : ∀ p ∈ (List.range (a :: r).length).map (fun (i : Nat) => n + 1 + (i : Int)),
          n < p ∧ p < n + ((a :: r).length : Int) + 1 := by
        intro p hp
        obtain ⟨i, hi, rfl⟩ := List.mem_map.1 hp
        have := List.mem_range.1 hi
        omega
      have hne : ((List.range (a :: r).length).map (fun (i : Nat) => n + 1 + (i : Int))).isEmpty = false := by
        simp [List.range_succ_eq_map]
      simp only [emitOf, nextOf, StreamWF, endState, hne, Bool.false_eq_true, if_false]
      have hlast : (((List.range (a :: r).length).map (fun (i : Nat) => n + 1 + (i : Int))).getLast?.getD L)
          ≤ n + ((a :: r).length : Int) := by
        cases hg : ((List.range (a :: r).length).map (fun (i : Nat) => n + 1 + (i : Int))).getLast? with
        | none => simp only [Option.getD_none]; omega
        | some v =>
          have := hmem v (List.mem_of_getLast? hg)
          simp only [Option.getD_some]; omega
      have hk : ((a :: r).length : Int) = (r.length : Int) + 1 := by simp
      refine ⟨⟨?_, ?_, ?_, ?_, trivial⟩, hlast, by omega⟩
      · rw [strictInc_iff_pairwise, List.pairwise_map]
        refine List.Pairwise.imp ?_ List.pairwise_lt_range
        intro i j hij
        omega
      · intro p hp; have := hmem p hp; omega
      · intro p hp; exact (hmem p hp).2
      · omega

/-- the emitted stream is unchanged by appending a keep-alive -/
theorem stream_append_keepalive (tg : Target) (e : Emitted) (h : e.keepalive = true) :
    (tg.emitted ++ [e]).filter (fun e => !e.keepalive) = tg.emitted.filter (fun e => !e.keepalive) := by
  simp [List.filter_append, h]

end S2S.Routing
