import S2S.Proofs.AclValErr
import S2S.Proofs.Acl
/-! C16 (value level): top-level wrappers — `visitedNames` / `nsErr` of a translated tree; the decision on a list of names. -/
set_option linter.unusedSectionVars false
namespace S2S.TranslateVal
open S2S.Translate S2S.NameMap
variable {α : Type} [DecidableEq α] (g : Graph) (tb : Tables) (X : Ext α)

/-- the mapping never translates a non-empty name to the empty name (it may translate the empty name) -/
def MapNoNewEmpty (e : α) (m : List (α × α)) : Prop := ∀ s, translateName m s = e → s = e

theorem noNewEmpty_of_map (m : List (α × α)) (e : α) (h : MapNoNewEmpty e m) : NoNewEmpty (look m) e := by
  intro s
  rw [app_look, look_fst]
  exact h s

/-- enough: no entry maps a non-empty name to the empty name -/
theorem mapNoNewEmpty_of_entries (m : List (α × α)) (e : α) (hne : ∀ p ∈ m, p.2 = e → p.1 = e) : MapNoNewEmpty e m := by
  intro s
  unfold translateName
  cases h : lookup m s with
  | none => exact id
  | some t =>
    intro ht
    have hm := lookup_some_mem m s t h
    exact hne _ hm ht

theorem mapNoNewEmpty_of_nonempty (m : List (α × α)) (e : α) (hne : ∀ p ∈ m, p.1 ≠ e ∧ p.2 ≠ e) : MapNoNewEmpty e m :=
  mapNoNewEmpty_of_entries m e (fun p hp h => absurd h (hne p hp).2)

theorem nonempty_of_configAccepts (m : List (α × α)) (e : α) (hacc : configAccepts e m = true) :
    ∀ p ∈ m, p.1 ≠ e ∧ p.2 ≠ e := by
  unfold configAccepts at hacc
  rw [Bool.and_eq_true] at hacc
  intro p hp
  have := List.all_eq_true.mp hacc.1 p hp
  simp only [Bool.and_eq_true, Bool.not_eq_true', decide_eq_false_iff_not] at this
  exact this

theorem visitedNames_translate (m : List (α × α)) (hE : MapNoNewEmpty X.empty m)
    (hN : tb.ns.contains g.nameField = false) (v : Val α) :
    visitedNames g tb X (translateNs g tb X m v).1 = (visitedNames g tb X v).map (translateName m) := by
  have hS := skipStable_of_noNewEmpty g tb X (look m) (noNewEmpty_of_map m X.empty hE)
  unfold translateNs visitNamespace visitedNames
  by_cases hr : rootSkippable g tb X v = true
  · rw [if_pos hr]
    simp only
    rw [if_pos hr]; rfl
  · have hr' : rootSkippable g tb X v = false := by simpa using hr
    rw [if_neg hr, if_neg hr, rootSkippable_stable g tb X (look m) hS v hr',
      (names_visit g tb X (look m) hS (nameOnce_of g tb hN)).1 v none]
    apply List.map_congr_left
    intro s _
    rw [app_look, look_fst]

theorem nsErr_translate (m : List (α × α)) (hE : MapNoNewEmpty X.empty m) (v : Val α) :
    nsErr g tb X (translateNs g tb X m v).1 = nsErr g tb X v := by
  have hS := skipStable_of_noNewEmpty g tb X (look m) (noNewEmpty_of_map m X.empty hE)
  unfold translateNs visitNamespace nsErr
  by_cases hr : rootSkippable g tb X v = true
  · rw [if_pos hr]
  · have hr' : rootSkippable g tb X v = false := by simpa using hr
    rw [if_neg hr, rootSkippable_stable g tb X (look m) hS v hr', hr', (err_visit g tb X (look m) hS).1 v none]

end S2S.TranslateVal

namespace S2S.Acl

theorem all_allowed_forward (p : Policy) (svc : Service) (name : String) (ns : List String)
    (hdeny : svc = .workflow → denyList.contains name = false)
    (hadm : svc = .admin → isAllowed p.adminMethods name = true)
    (hall : ∀ n ∈ ns, isAllowed p.namespaces n = true) :
    aclUnaryOn p svc name ns = .forward := by
  have hany : ns.any (fun n => !isAllowed p.namespaces n) = false := by
    rw [List.any_eq_false]
    intro x hx
    rw [hall x hx]; simp
  unfold aclUnaryOn
  rw [hany]
  cases svc with
  | workflow => rw [hdeny rfl]; simp
  | admin => rw [hadm rfl]; simp
  | other => simp

theorem unreadable_denied (p : Policy) (svc : Service) (name : String)
    (hsvc : svc = .workflow ∨ svc = .admin) : aclUnaryOnV p svc name none = .denied := by
  unfold aclUnaryOnV
  rcases hsvc with h | h <;> subst h <;> simp <;> split <;> simp_all

end S2S.Acl
