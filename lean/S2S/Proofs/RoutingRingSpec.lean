import S2S.Model.Routing
import S2S.Spec.Ring
/-!
Specification vocabulary for C05R (core Lean only, executable): the ring operations (`S2S.Ring.Op`)
that target `t`'s CURRENT sender incarnation has performed on its proxy-id ring along a run of the
routing machine.  Ghost bookkeeping kept OUTSIDE the machine (like `Ghost` in `Spec/RoutingFaults`):
a fold over the same action list; the model is not touched.
-/
namespace S2S.Routing

open S2S.Ring (Op Entry Key Ref)

/-- sources are shards of cluster 1; shard ids start at 1, so no key is the hole key `(0,0)` -/
def ringKey (s : SId) : Key := (1, (s : Int) + 1)

/-- the `proxyIDMapping` the sender stores for original id (or watermark) `o` of source `s` -/
def ringEntry (s : SId) (o : Int) : Entry := ⟨1, (s : Int) + 1, o⟩

/-- the physical/reference view of one abstract ring entry -/
def ringPair (e : Int × SId × Int) : Int × Entry := (e.1, ringEntry e.2.1 e.2.2)

/-- the `Append`s of one `.tasks s ids` message: one per task, proxy ids `npid+1, npid+2, …` -/
def taskOps (npid : Int) (s : SId) : List Int → List Op
  | [] => []
  | o :: rest => .append (npid + 1) (ringEntry s o) :: taskOps (npid + 1) s rest

/-- the `Append`s `process tg m` performs when `tg.nextProxyId = npid` -/
def appendOps (npid : Int) : Msg → List Op
  | .tasks s ids => taskOps npid s ids
  | .wm s h => [.append (npid + 1) (ringEntry s h)]

/-- ghost update for action `a` taken in state `σ` (only when the action is enabled).
    * `take t`   : the `Append`s of `process` on the dequeued message;
    * `tack t w` : `AggregateUpTo(w)`;
    * `ackFin t` : `Discard(d)` with `d` the count `recvAck` carried since the `tack` (the routing
      model then does `ring.drop d`; `d ≤ ring.length` always — `C05R_discard_le` — so `d` IS the
      number of entries dropped);
    * `openTgt t` (new incarnation, fresh ring) and `breakTgt t` (the incarnation and its ring die:
      the model resets `ring := []`, `nextProxyId := 0`) both reset the history.  CHOICE: both reset.
      Resetting at `breakTgt` is needed for the equations to hold in the window between the break
      and the re-open (the model's ring is already `[]` there); resetting at `openTgt` is then
      redundant (no ring operation is enabled in that window) but harmless and matches the task text. -/
def ringOpsNext (c : Cfg) (σ : State) (t : TId) (ops : List Op) (a : Act) : List Op :=
  match step c σ a with
  | none => ops
  | some _ =>
    match a with
    | .take t' =>
      if t' = t then
        match (σ.tgt t).sendChan with
        | m :: _ => ops ++ appendOps (σ.tgt t).nextProxyId m
        | [] => ops
      else ops
    | .tack t' w => if t' = t then ops ++ [.aggregate w] else ops
    | .ackFin t' =>
      if t' = t then
        match (σ.tgt t).ackPc with
        | .forwarding _ d _ => ops ++ [.discard (d : Int)]
        | .idle => ops
      else ops
    | .openTgt t' => if t' = t then [] else ops
    | .breakTgt t' => if t' = t then [] else ops
    | _ => ops

/-- the fold, from an arbitrary start (state, history so far) -/
def ringOpsFrom (c : Cfg) (t : TId) : State → List Op → List Act → List Op
  | _, ops, [] => ops
  | σ, ops, a :: rest => ringOpsFrom c t ((step c σ a).getD σ) (ringOpsNext c σ t ops a) rest

/-- the ring operations target `t`'s current incarnation has performed along `acts` from `σ` -/
def ringOps (c : Cfg) (σ : State) (acts : List Act) (t : TId) : List Op :=
  ringOpsFrom c t σ [] acts

end S2S.Routing
