import S2S.Proofs.RoutingFaultStepC
/-! Invariant preservation (with faults): `take` (the sender dequeues a message and assigns proxy ids). -/
namespace S2S.Routing

/-- the wm case -/
theorem pairF_take_wm {N : Int → Prop} {M : Int} {s : SId} {t : TId} {x : Source} {tg : Target}
    (h : PairF N M s t x tg) (hasg : ∀ s id p, (s, id, p) ∈ tg.assigned → p ≤ tg.nextProxyId)
    (s0 : SId) (hv : Int) (rest : List Msg) (hch : tg.sendChan = Msg.wm s0 hv :: rest)
    (hold : Option Emitted) :
    PairF N M s t x { tg with
      sendChan := rest
      nextProxyId := tg.nextProxyId + 1
      ring := tg.ring ++ [(tg.nextProxyId + 1, s0, hv)]
      holding := hold } := by
  by_cases hs : s = s0
  · subst hs
    have hfo : flat s t x tg = (hv, false) :: (chanVals s rest ++ pendVals x.pc t) := by
      simp only [flat, hch, chanVals_cons, msgVals_wm_self, List.cons_append, List.nil_append]
    have hsorted := h.sorted
    rw [hfo] at hsorted
    have hcov : ∀ id, N id → (∃ p, (s, id, p) ∈ tg.assigned) ∨
        (id, true) ∈ chanVals s rest ++ pendVals x.pc t := by
      intro id hr
      rcases h.cover id hr with hc | hc
      · exact Or.inl hc
      · rw [hfo] at hc
        rcases List.mem_cons.1 hc with hc | hc
        · cases hc
        · exact Or.inr hc
    refine ⟨hcov, (List.pairwise_cons.1 hsorted).2, ?_, ?_, ?_, h.todo_safe, h.prev_safe, h.chan_safe,
      h.abt_safe, h.last_safe, h.seeded, h.cur_lt, h.grave_low⟩
    · intro y hy
      apply h.flat_le; rw [hfo]; exact List.mem_cons_of_mem _ hy
    · intro p o hm id hr hlt
      rcases List.mem_append.1 hm with hm | hm
      · exact h.ring_ok p o hm id hr hlt
      · simp only [List.mem_singleton, Prod.mk.injEq, true_and] at hm
        obtain ⟨e1, e2⟩ := hm
        subst e1; subst e2
        rcases hcov id hr with ⟨p', hp'⟩ | hc
        · have := hasg s id p' hp'
          exact ⟨p', by omega, hp'⟩
        · have := (List.pairwise_cons.1 hsorted).1 _ hc rfl hr
          simp only at this; omega
    · intro p o hm
      rcases List.mem_append.1 hm with hm | hm
      · exact h.ring_le p o hm
      · simp only [List.mem_singleton, Prod.mk.injEq, true_and] at hm
        obtain ⟨e1, e2⟩ := hm
        subst e2
        have := h.flat_le (o, false) (by rw [hfo]; exact List.mem_cons_self)
        exact this
  · have hfo : flat s t x tg = chanVals s rest ++ pendVals x.pc t := by
      simp only [flat, hch, chanVals_cons, msgVals_wm_ne hs, List.nil_append]
    have h1 := h.cover; have h2 := h.sorted; have h3 := h.flat_le
    rw [hfo] at h1 h2 h3
    refine ⟨h1, h2, h3, ?_, ?_, h.todo_safe, h.prev_safe, h.chan_safe, h.abt_safe, h.last_safe,
      h.seeded, h.cur_lt, h.grave_low⟩
    · intro p o hm
      rcases List.mem_append.1 hm with hm | hm
      · exact h.ring_ok p o hm
      · simp only [List.mem_singleton, Prod.mk.injEq] at hm
        exact absurd hm.2.1 hs
    · intro p o hm
      rcases List.mem_append.1 hm with hm | hm
      · exact h.ring_le p o hm
      · simp only [List.mem_singleton, Prod.mk.injEq] at hm
        exact absurd hm.2.1 hs

/-- the tasks case -/
theorem pairF_take_tasks {N : Int → Prop} {M : Int} {s : SId} {t : TId} {x : Source} {tg : Target}
    (h : PairF N M s t x tg) (hasg : ∀ s id p, (s, id, p) ∈ tg.assigned → p ≤ tg.nextProxyId)
    (s0 : SId) (ids : List Int) (rest : List Msg) (hch : tg.sendChan = Msg.tasks s0 ids :: rest)
    (hold : Option Emitted) :
    PairF N M s t x { tg with
      sendChan := rest
      nextProxyId := tg.nextProxyId + (ids.length : Int)
      ring := tg.ring ++ List.map (fun x => (x.snd, s0, x.fst))
                (ids.zip (List.map (fun (i : Nat) => tg.nextProxyId + 1 + (i : Int)) (List.range ids.length)))
      assigned := tg.assigned ++ List.map (fun x => (s0, x.fst, x.snd))
                (ids.zip (List.map (fun (i : Nat) => tg.nextProxyId + 1 + (i : Int)) (List.range ids.length)))
      holding := hold } := by
  by_cases hs : s = s0
  · subst hs
    have hfo : flat s t x tg = ids.map (fun i => (i, true)) ++ (chanVals s rest ++ pendVals x.pc t) := by
      simp only [flat, hch, chanVals_cons, msgVals_tasks_self, List.append_assoc]
    have hsorted := h.sorted
    rw [hfo, List.pairwise_append] at hsorted
    obtain ⟨hsI, hsR, hsIR⟩ := hsorted
    -- new assigned entries
    have hnew : ∀ i (hi : i < ids.length), (s, ids[i], tg.nextProxyId + 1 + (i : Int)) ∈
        tg.assigned ++ List.map (fun x => (s, x.fst, x.snd))
          (ids.zip (List.map (fun (i : Nat) => tg.nextProxyId + 1 + (i : Int)) (List.range ids.length))) := by
      intro i hi
      apply List.mem_append_right
      rw [List.mem_map]
      exact ⟨(ids[i], tg.nextProxyId + 1 + (i : Int)), mem_zip_pids.2 ⟨i, hi, rfl, rfl⟩, rfl⟩
    have hcov : ∀ id, N id → (∃ p, (s, id, p) ∈ tg.assigned) ∨ id ∈ ids ∨
        (id, true) ∈ chanVals s rest ++ pendVals x.pc t := by
      intro id hr
      rcases h.cover id hr with hc | hc
      · exact Or.inl hc
      · rw [hfo] at hc
        rcases List.mem_append.1 hc with hc | hc
        · right; left
          simp only [List.mem_map, Prod.mk.injEq, and_true, exists_eq_right] at hc
          exact hc
        · exact Or.inr (Or.inr hc)
    refine ⟨?_, hsR, ?_, ?_, ?_, h.todo_safe, h.prev_safe, h.chan_safe, h.abt_safe, h.last_safe,
      h.seeded, h.cur_lt, h.grave_low⟩
    · intro id hr
      rcases hcov id hr with ⟨p, hp⟩ | hc | hc
      · exact Or.inl ⟨p, List.mem_append_left _ hp⟩
      · obtain ⟨i, hi, e⟩ := List.mem_iff_getElem.1 hc
        left; refine ⟨tg.nextProxyId + 1 + (i : Int), ?_⟩; rw [← e]; exact hnew i hi
      · exact Or.inr hc
    · intro y hy
      apply h.flat_le; rw [hfo]; exact List.mem_append_right _ hy
    · intro p o hm id hr hlt
      rcases List.mem_append.1 hm with hm | hm
      · obtain ⟨p', h1, h2⟩ := h.ring_ok p o hm id hr hlt
        exact ⟨p', h1, List.mem_append_left _ h2⟩
      · rw [List.mem_map] at hm
        obtain ⟨⟨o', p''⟩, hz, e⟩ := hm
        simp only [Prod.mk.injEq, true_and] at e
        obtain ⟨e1, e2⟩ := e
        subst e1; subst e2
        obtain ⟨i, hi, ei, ep⟩ := mem_zip_pids.1 hz
        rcases hcov id hr with ⟨p', hp'⟩ | hc | hc
        · have := hasg s id p' hp'
          exact ⟨p', by omega, List.mem_append_left _ hp'⟩
        · obtain ⟨j, hj, ej⟩ := List.mem_iff_getElem.1 hc
          have hji : j < i := by
            apply Classical.byContradiction; intro hn
            rcases Nat.lt_or_ge i j with hlt' | hge
            · have := (List.pairwise_iff_getElem.1 hsI) i j (by simpa using hi) (by simpa using hj) hlt'
              simp only [List.getElem_map, FlatRelN] at this
              have := this trivial (by rw [ej]; exact hr)
              omega
            · have : i = j := by omega
              subst this; omega
          refine ⟨tg.nextProxyId + 1 + (j : Int), by omega, ?_⟩
          rw [← ej]; exact hnew j hj
        · have := hsIR (o', true) (by
            rw [List.mem_map]; exact ⟨o', by rw [← ei]; exact List.getElem_mem _, rfl⟩) _ hc rfl hr
          simp only at this; omega
    · intro p o hm
      rcases List.mem_append.1 hm with hm | hm
      · exact h.ring_le p o hm
      · rw [List.mem_map] at hm
        obtain ⟨⟨o', p''⟩, hz, e⟩ := hm
        simp only [Prod.mk.injEq, true_and] at e
        obtain ⟨e1, e2⟩ := e
        subst e1; subst e2
        have hmem : o' ∈ ids := (List.of_mem_zip hz).1
        exact h.flat_le (o', true) (by
          rw [hfo]; apply List.mem_append_left; rw [List.mem_map]; exact ⟨o', hmem, rfl⟩)
  · have hfo : flat s t x tg = chanVals s rest ++ pendVals x.pc t := by
      simp only [flat, hch, chanVals_cons, msgVals_tasks_ne hs, List.nil_append]
    have h1 := h.cover; have h2 := h.sorted; have h3 := h.flat_le
    rw [hfo] at h1 h2 h3
    refine ⟨?_, h2, h3, ?_, ?_, h.todo_safe, h.prev_safe, h.chan_safe, h.abt_safe, h.last_safe,
      h.seeded, h.cur_lt, h.grave_low⟩
    · intro id hr
      rcases h1 id hr with ⟨p, hp⟩ | hc
      · exact Or.inl ⟨p, List.mem_append_left _ hp⟩
      · exact Or.inr hc
    · intro p o hm id hr hlt
      rcases List.mem_append.1 hm with hm | hm
      · obtain ⟨p', h1, h2⟩ := h.ring_ok p o hm id hr hlt
        exact ⟨p', h1, List.mem_append_left _ h2⟩
      · rw [List.mem_map] at hm
        obtain ⟨⟨o', p''⟩, hz, e⟩ := hm
        simp only [Prod.mk.injEq] at e
        exact absurd e.2.1.symm hs
    · intro p o hm
      rcases List.mem_append.1 hm with hm | hm
      · exact h.ring_le p o hm
      · rw [List.mem_map] at hm
        obtain ⟨⟨o', p''⟩, hz, e⟩ := hm
        simp only [Prod.mk.injEq] at e
        exact absurd e.2.1.symm hs

theorem step_invF_take {σ σ' : State} {γ : Ghost} (hI : InvF σ γ) (t : TId)
    (h : step Cfg.cur σ (.take t) = some σ') : InvF σ' γ := by
  simp only [step] at h
  split at h
  · cases h
  · rename_i hg
    simp only [Bool.or_eq_true, Bool.not_eq_true', not_or, Bool.not_eq_false] at hg
    have hT := hI.tgt t
    have hreg := hT.reg_of_started hg.1
    split at h
    · cases h
    · rename_i m rest hch
      have hchan : ∀ m', m' ∈ rest → m' ∈ (σ.tgt t).handed := fun m' hm' =>
        hT.chan_handed m' (by rw [hch]; exact List.mem_cons_of_mem _ hm')
      cases m with
      | tasks s0 ids =>
        simp only [process, Option.some.injEq] at h
        subst h
        apply invF_setTgt hI
        · refine ⟨fun e => (by rw [hreg] at e; cases e), ?_, hchan, ?_⟩
          · intro s id p hm
            show p ≤ (σ.tgt t).nextProxyId + (ids.length : Int)
            rcases List.mem_append.1 hm with hm | hm
            · have := hT.asg_le s id p hm; omega
            · rw [List.mem_map] at hm
              obtain ⟨⟨o', p''⟩, hz, e⟩ := hm
              simp only [Prod.mk.injEq] at e
              obtain ⟨i, hi, _, ep⟩ := mem_zip_pids.1 hz
              omega
          · intro s id p hm
            show (s, id) ∈ tasksOf (σ.tgt t).handed
            rcases List.mem_append.1 hm with hm | hm
            · exact hT.asg_handed s id p hm
            · rw [List.mem_map] at hm
              obtain ⟨⟨o', p''⟩, hz, e⟩ := hm
              simp only [Prod.mk.injEq] at e
              obtain ⟨e1, e2, _⟩ := e
              subst e1; subst e2
              exact mem_tasksOf (hT.chan_handed _ (by rw [hch]; exact List.mem_cons_self))
                (List.of_mem_zip hz).1
        · intro s
          exact pairF_take_tasks (hI.pair s t) hT.asg_le s0 ids rest hch _
      | wm s0 hv =>
        simp only [process, Option.some.injEq] at h
        subst h
        apply invF_setTgt hI
        · refine ⟨fun e => (by rw [hreg] at e; cases e), ?_, hchan, hT.asg_handed⟩
          intro s id p hm
          show p ≤ (σ.tgt t).nextProxyId + 1
          have := hT.asg_le s id p hm; omega
        · intro s
          exact pairF_take_wm (hI.pair s t) hT.asg_le s0 hv rest hch _

end S2S.Routing
