import S2S.Proofs.ForwarderBasic
/-!
C06 control invariant: how the program counters of the six goroutines, the latch, the contexts
and the `CloseSend` goroutine constrain each other in every reachable state.
-/
namespace S2S.Forwarder


structure Ctl (σ : State) : Prop where
  c1 : σ.s.loop ≠ .guard
  c2 : σ.latch = true ↔ (σ.s.loop = .done ∨ σ.i.loop = .guard ∨ σ.i.loop = .done)
  c3a : σ.cs = .idle ↔ (σ.i.loop ≠ .guard ∧ σ.i.loop ≠ .done)
  c3b : σ.i.loop = .guard → (σ.cs = .calling ∨ σ.cs = .signalling)
  c3c : σ.i.loop = .done → σ.env.closeSendHangs = false → σ.cs = .exited
  c4 : σ.h ≠ .waiting → (σ.outCtx = true ∧ σ.s.loop = .done ∧ σ.i.loop = .done)
  c5 : σ.h = .returned → σ.env.returnCancelsSrv = true → σ.srvCtx = true
  c6s : σ.s.lis = .exited → σ.latch = true
  c6i : σ.i.lis = .exited → σ.latch = true

theorem ctl_init (e : Env) : Ctl (State.init e) := by
  constructor <;> simp [State.init]

theorem ctl_step {σ σ' : State} {a : Act} (h : Ctl σ) (hs : step σ a = some σ') : Ctl σ' := by
  obtain ⟨c1, c2, c3a, c3b, c3c, c4, c5, c6s, c6i⟩ := h
  cases a with
  | push d v => have e := step_push hs; subst e; cases d <;> constructor <;> simp_all [State.dir, State.setDir]
  | sendFail d => have e := step_sendFail hs; subst e; cases d <;> constructor <;> simp_all [State.dir, State.setDir]
  | stall d => have e := step_stall hs; subst e; cases d <;> exact ⟨c1, c2, c3a, c3b, c3c, c4, c5, c6s, c6i⟩
  | unstall d => have e := step_unstall hs; subst e; cases d <;> exact ⟨c1, c2, c3a, c3b, c3c, c4, c5, c6s, c6i⟩
  | iniCancel => have e := step_iniCancel hs; subst e; constructor <;> simp_all
  | shutdown => have e := step_shutdown hs; subst e; constructor <;> simp_all
  | tick => obtain ⟨h1, h2, h3, h4, e⟩ := step_tick hs; subst e; constructor <;> simp_all
  | lCheck d => obtain ⟨h1, e⟩ := step_lCheck hs; subst e; cases d <;> constructor <;> simp_all [State.dir, State.setDir] <;> grind
  | lRecv d => obtain ⟨h1, v, q, h2, e⟩ := step_lRecv hs; subst e; cases d <;> constructor <;> simp_all [State.dir, State.setDir]
  | lHand d => obtain ⟨v, h1, h2, e⟩ := step_lHand hs; subst e; cases d <;> constructor <;> simp_all [State.dir, State.setDir]
  | lQuit d => obtain ⟨v, h1, h2, e⟩ := step_lQuit hs; subst e; cases d <;> constructor <;> simp_all [State.dir, State.setDir]
  | rLatch d => obtain ⟨h1, h2, e⟩ := step_rLatch hs; subst e; cases d <;> constructor <;> simp_all [State.dir, State.setDir]
  | rClosed d => obtain ⟨h1, h2, e⟩ := step_rClosed hs; subst e; cases d <;> constructor <;> simp_all [State.dir, State.setDir]
  | rProc d =>
    rcases step_rProc hs with ⟨i, h1, h2, e⟩ | ⟨v, h1, h2, e⟩ <;> subst e <;> cases d <;> constructor <;> simp_all [State.dir, State.setDir]
  | rDefer d =>
    cases d with
    | s => obtain ⟨h1, e⟩ := step_rDefer_s hs; subst e; constructor <;> simp_all
    | i => obtain ⟨h1, e⟩ := step_rDefer_i hs; subst e; constructor <;> simp_all
  | csReturn =>
    obtain ⟨h1, h2⟩ := step_csReturn hs
    rcases h2 with ⟨h3, h4, e⟩ | ⟨h3, e⟩ <;> subst e <;> constructor <;> simp_all
  | guardRecv => obtain ⟨h1, h2, e⟩ := step_guardRecv hs; subst e; constructor <;> simp_all
  | hCancel => obtain ⟨h1, h2, h3, e⟩ := step_hCancel hs; subst e; constructor <;> simp_all
  | hReturn => obtain ⟨h1, e⟩ := step_hReturn hs; subst e; constructor <;> simp_all


theorem ctl_run (e : Env) (acts : List Act) : Ctl (run (State.init e) acts) :=
  run_induct (ctl_init e) (fun _ _ _ h hs => ctl_step h hs) acts

end S2S.Forwarder
