import S2S.Proofs.Utf8Valid
import S2S.Spec.Utf8
/-! Order preservation and the decomposition of `toValidUtf8`'s output. Core Lean only. -/
namespace S2S.Utf8

theorem Decomp.flatten_eq {s : Bytes} {segs : List Seg} (h : Decomp s segs) : flatten segs = s := by
  induction h with
  | nil => rfl
  | good g rest segs _ _ _ _ ih => simp [flatten, Seg.bytes] at ih ⊢; rw [ih]
  | bad b rest segs _ _ _ _ ih => simp [flatten, Seg.bytes] at ih ⊢; rw [ih]

/-! ### valid prefixes are kept -/

theorem tv_valid_append : ∀ (a : Bytes) (b : Bytes) (inv : Bool), validUtf8 a = true → a ≠ [] →
    tv inv (a ++ b) = a ++ tv false b := by
  intro a
  induction a using bytes_strong_induction with
  | _ a ih =>
    intro b inv hv hne
    by_cases hr : runeLen a = 0
    · rw [validUtf8_bad hne hr] at hv; cases hv
    · have hp : 0 < runeLen a := by omega
      have h1 := runeLen_le_length a
      have hap : runeLen (a ++ b) = runeLen a := runeLen_append a b hp
      rw [validUtf8_step hp] at hv
      rw [tv_step inv (by omega : 0 < runeLen (a ++ b)), hap,
        List.take_append_of_le_length h1, List.drop_append_of_le_length h1]
      by_cases hd : a.drop (runeLen a) = []
      · rw [hd, List.nil_append]
        have : a.take (runeLen a) = a := by
          have := List.take_append_drop (runeLen a) a
          rw [hd, List.append_nil] at this; exact this
        rw [this]
      · rw [ih _ (drop_runeLen_lt hp) b false hv hd, ← List.append_assoc, List.take_append_drop]

/-- valid bytes in front are kept verbatim and in order -/
theorem toValidUtf8_valid_append (a b : Bytes) (hv : validUtf8 a = true) :
    toValidUtf8 (a ++ b) = a ++ toValidUtf8 b := by
  by_cases hne : a = []
  · subst hne; rfl
  · exact tv_valid_append a b false hv hne

/-! ### a maximal run of ill-formed bytes becomes one replacement -/

theorem tv_bad_run : ∀ (b rest : Bytes) (inv : Bool), b ≠ [] →
    (∀ k, k < b.length → runeLen (b.drop k ++ rest) = 0) →
    tv inv (b ++ rest) = (if inv then [] else repl) ++ tv true rest := by
  intro b
  induction b with
  | nil => intro _ _ h; exact absurd rfl h
  | cons x b ih =>
    intro rest inv _ hk
    have h0 : runeLen (x :: (b ++ rest)) = 0 := by simpa using hk 0 (by simp)
    rw [List.cons_append, tv_bad inv h0]
    by_cases hb : b = []
    · subst hb; rfl
    · have hk' : ∀ k, k < b.length → runeLen (b.drop k ++ rest) = 0 := by
        intro k hlt
        have := hk (k + 1) (by simp; omega)
        simpa using this
      rw [ih rest true hb hk']
      simp

theorem tv_decomp {s : Bytes} {segs : List Seg} (h : Decomp s segs) : tv false s = render segs := by
  induction h with
  | nil => rfl
  | good g rest segs hne hv _ _ ih =>
    rw [tv_valid_append g rest false hv hne, ih]
    simp [render, Seg.render]
  | bad b rest segs hne hk hmax _ ih =>
    rw [tv_bad_run b rest false hne hk, tv_flag hmax true, ih]
    simp [render, Seg.render]

/-! ### every input has a decomposition -/

/-- longest valid prefix -/
theorem exists_valid_prefix : ∀ s : Bytes, ∃ g rest, s = g ++ rest ∧ validUtf8 g = true ∧ runeLen rest = 0 ∧
    (0 < runeLen s → g ≠ []) := by
  intro s
  induction s using bytes_strong_induction with
  | _ s ih =>
    by_cases hr : runeLen s = 0
    · exact ⟨[], s, rfl, rfl, hr, fun h => by omega⟩
    · have hp : 0 < runeLen s := by omega
      have h1 := runeLen_le_length s
      obtain ⟨g, rest, hs, hv, hmax, _⟩ := ih _ (drop_runeLen_lt hp)
      refine ⟨s.take (runeLen s) ++ g, rest, ?_, ?_, hmax, fun _ hnil => ?_⟩
      · rw [List.append_assoc, ← hs, List.take_append_drop]
      · rw [validUtf8_rune_append g hp]; exact hv
      · have : (s.take (runeLen s) ++ g).length = 0 := by rw [hnil]; rfl
        simp only [List.length_append, List.length_take] at this
        omega

/-- longest run of ill-formed bytes -/
theorem exists_bad_run : ∀ s : Bytes, ∃ b rest, s = b ++ rest ∧
    (∀ k, k < b.length → runeLen (b.drop k ++ rest) = 0) ∧ (rest = [] ∨ 0 < runeLen rest) ∧
    (s ≠ [] → runeLen s = 0 → b ≠ []) := by
  intro s
  induction s with
  | nil => exact ⟨[], [], rfl, fun _ h => by simp at h, Or.inl rfl, fun h => absurd rfl h⟩
  | cons x s ih =>
    by_cases hr : runeLen (x :: s) = 0
    · obtain ⟨b, rest, hs, hk, hmax, _⟩ := ih
      refine ⟨x :: b, rest, by rw [hs]; rfl, ?_, hmax, fun _ _ => by simp⟩
      intro k hlt
      cases k with
      | zero => simpa [← hs] using hr
      | succ k => simpa using hk k (by simpa using hlt)
    · exact ⟨[], x :: s, rfl, fun _ h => by simp at h, Or.inr (by omega), fun _ h => absurd h hr⟩

theorem exists_decomp : ∀ s : Bytes, ∃ segs, Decomp s segs := by
  intro s
  induction s using bytes_strong_induction with
  | _ s ih =>
    by_cases hne : s = []
    · subst hne; exact ⟨[], .nil⟩
    · by_cases hr : runeLen s = 0
      · obtain ⟨b, rest, hs, hk, hmax, hb⟩ := exists_bad_run s
        have hbne := hb hne hr
        have hlt : rest.length < s.length := by
          rw [hs]; cases b with
          | nil => exact absurd rfl hbne
          | cons => simp; omega
        obtain ⟨segs, hd⟩ := ih rest hlt
        exact ⟨.bad b :: segs, hs ▸ Decomp.bad b rest segs hbne hk hmax hd⟩
      · obtain ⟨g, rest, hs, hv, hmax, hg⟩ := exists_valid_prefix s
        have hgne := hg (by omega)
        have hlt : rest.length < s.length := by
          rw [hs]; cases g with
          | nil => exact absurd rfl hgne
          | cons => simp; omega
        obtain ⟨segs, hd⟩ := ih rest hlt
        exact ⟨.good g :: segs, hs ▸ Decomp.good g rest segs hgne hv hmax hd⟩

/-- segments alternate: a `good` segment is never followed by a `good` one, nor `bad` by `bad` -/
theorem Decomp.alternate {s : Bytes} {segs : List Seg} (h : Decomp s segs) :
    (∀ g, segs.head? = some (.good g) → 0 < runeLen s) ∧ (∀ b, segs.head? = some (.bad b) → s ≠ [] ∧ runeLen s = 0) := by
  cases h with
  | nil => simp
  | good g rest segs hne hv _ _ =>
    refine ⟨fun _ _ => ?_, fun b hb => by simp at hb⟩
    by_cases hr : runeLen g = 0
    · rw [validUtf8_bad hne hr] at hv; cases hv
    · rw [runeLen_append g rest (by omega)]; omega
  | bad b rest segs hne hk _ _ =>
    refine ⟨fun g hg => by simp at hg, fun _ _ => ⟨?_, ?_⟩⟩
    · cases b with
      | nil => exact absurd rfl hne
      | cons => simp
    · have := hk 0 (by cases b with | nil => exact absurd rfl hne | cons => simp)
      simpa using this


/-! ### the decomposition is unique -/

theorem validUtf8_append_of_valid : ∀ (a c : Bytes), validUtf8 a = true → validUtf8 (a ++ c) = validUtf8 c := by
  intro a
  induction a using bytes_strong_induction with
  | _ a ih =>
    intro c hv
    by_cases hne : a = []
    · subst hne; rfl
    · by_cases hr : runeLen a = 0
      · rw [validUtf8_bad hne hr] at hv; cases hv
      · have hp : 0 < runeLen a := by omega
        have h1 := runeLen_le_length a
        have hap : runeLen (a ++ c) = runeLen a := runeLen_append a c hp
        rw [validUtf8_step hp] at hv
        rw [validUtf8_step (by omega : 0 < runeLen (a ++ c)), hap, List.drop_append_of_le_length h1]
        exact ih _ (drop_runeLen_lt hp) c hv

theorem valid_ne_nil_runeLen_pos {g : Bytes} (hne : g ≠ []) (hv : validUtf8 g = true) : 0 < runeLen g := by
  by_cases hr : runeLen g = 0
  · rw [validUtf8_bad hne hr] at hv; cases hv
  · omega

private theorem good_prefix_le {g rest g' rest' c : Bytes} (hg' : g' = g ++ c) (hrest : rest = c ++ rest')
    (hv : validUtf8 g = true) (hv' : validUtf8 g' = true) (hmax : runeLen rest = 0) : c = [] := by
  by_cases hc : c = []
  · exact hc
  · exfalso
    rw [hg', validUtf8_append_of_valid g c hv] at hv'
    have := valid_ne_nil_runeLen_pos hc hv'
    rw [hrest, runeLen_append c rest' this] at hmax
    omega

private theorem bad_prefix_le {b rest b' rest' c : Bytes} (hb' : b' = b ++ c) (hrest : rest = c ++ rest')
    (hk' : ∀ k, k < b'.length → runeLen (b'.drop k ++ rest') = 0) (hmax : rest = [] ∨ 0 < runeLen rest) : c = [] := by
  by_cases hc : c = []
  · exact hc
  · exfalso
    have hlen : b.length < b'.length := by
      rw [hb']; cases c with
      | nil => exact absurd rfl hc
      | cons => simp
    have := hk' b.length hlen
    rw [hb', List.drop_left, ← hrest] at this
    rcases hmax with h | h
    · rw [hrest] at h; cases c with
      | nil => exact absurd rfl hc
      | cons => simp at h
    · omega

theorem Decomp.unique {s : Bytes} {a b : List Seg} (ha : Decomp s a) (hb : Decomp s b) : a = b := by
  induction ha generalizing b with
  | nil =>
    generalize hs : ([] : Bytes) = s at hb
    cases hb with
    | nil => rfl
    | good g rest segs hne _ _ _ =>
      cases g with
      | nil => exact absurd rfl hne
      | cons => simp at hs
    | bad x rest segs hne _ _ _ =>
      cases x with
      | nil => exact absurd rfl hne
      | cons => simp at hs
  | good g rest segs hne hv hmax hd ih =>
    have halt := (Decomp.good g rest segs hne hv hmax hd).alternate.1 g rfl
    generalize hs : g ++ rest = s at hb halt
    cases hb with
    | nil =>
      cases g with
      | nil => exact absurd rfl hne
      | cons => simp at hs
    | good g' rest' segs' hne' hv' hmax' hd' =>
      have hg : g = g' := by
        rcases List.append_eq_append_iff.mp hs with ⟨c, h1, h2⟩ | ⟨c, h1, h2⟩
        · have := good_prefix_le h1 h2 hv hv' hmax; subst this; simpa using h1.symm
        · have := good_prefix_le h1 h2 hv' hv hmax'; subst this; simpa using h1
      subst hg
      have hr : rest = rest' := List.append_cancel_left hs
      subst hr
      rw [ih hd']
    | bad x rest' segs' hne' hk' hmax' hd' =>
      have := (Decomp.bad x rest' segs' hne' hk' hmax' hd').alternate.2 x rfl
      omega
  | bad x rest segs hne hk hmax hd ih =>
    have halt := (Decomp.bad x rest segs hne hk hmax hd).alternate.2 x rfl
    generalize hs : x ++ rest = s at hb halt
    cases hb with
    | nil =>
      cases x with
      | nil => exact absurd rfl hne
      | cons => simp at hs
    | good g' rest' segs' hne' hv' hmax' hd' =>
      have := (Decomp.good g' rest' segs' hne' hv' hmax' hd').alternate.1 g' rfl
      omega
    | bad x' rest' segs' hne' hk' hmax' hd' =>
      have hx : x = x' := by
        rcases List.append_eq_append_iff.mp hs with ⟨c, h1, h2⟩ | ⟨c, h1, h2⟩
        · have := bad_prefix_le h1 h2 hk' hmax; subst this; simpa using h1.symm
        · have := bad_prefix_le h1 h2 hk hmax'; subst this; simpa using h1
      subst hx
      have hr : rest = rest' := List.append_cancel_left hs
      subst hr
      rw [ih hd']

end S2S.Utf8
