import S2S.Proofs.Utf8Rune
/-! `validUtf8` / `toValidUtf8`: fuel-free unfolding equations and the main theorems. Core Lean only. -/
namespace S2S.Utf8

/-! ### fuel irrelevance -/

theorem validGo_fuel : ∀ (f g : Nat) (s : Bytes), s.length ≤ f → s.length ≤ g → validGo f s = validGo g s := by
  intro f
  induction f with
  | zero =>
    intro g s hf _
    have : s = [] := List.eq_nil_of_length_eq_zero (by omega)
    subst this
    cases g <;> simp [validGo]
  | succ f ih =>
    intro g s hf hg
    cases s with
    | nil => cases g <;> simp [validGo]
    | cons b rest =>
      cases g with
      | zero => simp at hg
      | succ g =>
        simp only [validGo]
        split
        · rfl
        · rename_i hn
          have h1 := runeLen_le_length (b :: rest)
          apply ih <;> simp only [List.length_drop, List.length_cons] at * <;> omega

theorem toValidGo_fuel : ∀ (f g : Nat) (inv : Bool) (s : Bytes), s.length ≤ f → s.length ≤ g →
    toValidGo f inv s = toValidGo g inv s := by
  intro f
  induction f with
  | zero =>
    intro g inv s hf _
    have : s = [] := List.eq_nil_of_length_eq_zero (by omega)
    subst this
    cases g <;> simp [toValidGo]
  | succ f ih =>
    intro g inv s hf hg
    cases s with
    | nil => cases g <;> simp [toValidGo]
    | cons b rest =>
      cases g with
      | zero => simp at hg
      | succ g =>
        simp only [toValidGo]
        split
        · congr 1
          apply ih <;> simp only [List.length_cons] at * <;> omega
        · rename_i hn
          have h1 := runeLen_le_length (b :: rest)
          congr 1
          apply ih <;> simp only [List.length_drop, List.length_cons] at * <;> omega

/-- `toValidGo` at full fuel, with the `invalid` flag exposed -/
def tv (inv : Bool) (s : Bytes) : Bytes := toValidGo s.length inv s

theorem toValidUtf8_eq_tv (s : Bytes) : toValidUtf8 s = tv false s := rfl

/-! ### unfolding equations -/

@[simp] theorem validUtf8_nil : validUtf8 [] = true := rfl

theorem validUtf8_bad {s : Bytes} (hne : s ≠ []) (h : runeLen s = 0) : validUtf8 s = false := by
  cases s with
  | nil => exact absurd rfl hne
  | cons b rest => simp [validUtf8, validGo, h]

theorem validUtf8_step {s : Bytes} (h : 0 < runeLen s) : validUtf8 s = validUtf8 (s.drop (runeLen s)) := by
  cases s with
  | nil => simp [runeLen] at h
  | cons b rest =>
    have hn : runeLen (b :: rest) ≠ 0 := by omega
    have h1 := runeLen_le_length (b :: rest)
    simp only [validUtf8, List.length_cons, validGo, hn, if_false]
    apply validGo_fuel <;> simp only [List.length_drop, List.length_cons] at * <;> omega

@[simp] theorem tv_nil (inv : Bool) : tv inv [] = [] := rfl

theorem tv_bad {b : UInt8} {rest : Bytes} (inv : Bool) (h : runeLen (b :: rest) = 0) :
    tv inv (b :: rest) = (if inv then [] else repl) ++ tv true rest := by
  simp [tv, toValidGo, h]

theorem tv_step {s : Bytes} (inv : Bool) (h : 0 < runeLen s) :
    tv inv s = s.take (runeLen s) ++ tv false (s.drop (runeLen s)) := by
  cases s with
  | nil => simp [runeLen] at h
  | cons b rest =>
    have hn : runeLen (b :: rest) ≠ 0 := by omega
    have h1 := runeLen_le_length (b :: rest)
    simp only [tv, List.length_cons, toValidGo, hn, if_false]
    congr 1
    apply toValidGo_fuel <;> simp only [List.length_drop, List.length_cons] at * <;> omega

/-- the flag only matters when the head is ill-formed -/
theorem tv_flag {s : Bytes} (h : s = [] ∨ 0 < runeLen s) (inv : Bool) : tv inv s = tv false s := by
  rcases h with h | h
  · subst h; rfl
  · rw [tv_step inv h, tv_step false h]

/-- strong induction on the length of a byte string -/
theorem bytes_strong_induction {P : Bytes → Prop}
    (h : ∀ s, (∀ t, t.length < s.length → P t) → P s) : ∀ s, P s := by
  intro s
  generalize hn : s.length = n
  induction n using Nat.strongRecOn generalizing s with
  | _ n ih => exact h s (fun t ht => ih t.length (by omega) t rfl)

theorem drop_runeLen_lt {s : Bytes} (h : 0 < runeLen s) : (s.drop (runeLen s)).length < s.length := by
  have := runeLen_le_length s
  simp only [List.length_drop]; omega

/-! ### main theorems on (i) -/

/-- valid input is returned unchanged (whatever the flag) -/
theorem tv_of_valid : ∀ (s : Bytes) (inv : Bool), validUtf8 s = true → tv inv s = s := by
  intro s
  induction s using bytes_strong_induction with
  | _ s ih =>
    intro inv hv
    by_cases hne : s = []
    · subst hne; rfl
    · by_cases hr : runeLen s = 0
      · rw [validUtf8_bad hne hr] at hv; cases hv
      · have hp : 0 < runeLen s := by omega
        rw [validUtf8_step hp] at hv
        rw [tv_step inv hp, ih _ (drop_runeLen_lt hp) false hv, List.take_append_drop]

theorem validUtf8_rune_append {s : Bytes} (t : Bytes) (h : 0 < runeLen s) :
    validUtf8 (s.take (runeLen s) ++ t) = validUtf8 t := by
  have h1 := runeLen_le_length s
  have hr := runeLen_take_append s t h
  have hp : 0 < runeLen (s.take (runeLen s) ++ t) := by omega
  rw [validUtf8_step hp, hr]
  congr 1
  rw [List.drop_append_of_le_length (by simp; omega)]
  simp

theorem validUtf8_repl_append (t : Bytes) : validUtf8 (repl ++ t) = validUtf8 t := by
  have hr := runeLen_repl_append t
  rw [validUtf8_step (by omega), hr]
  rfl

/-- the output is always valid UTF-8 -/
theorem tv_valid : ∀ (s : Bytes) (inv : Bool), validUtf8 (tv inv s) = true := by
  intro s
  induction s using bytes_strong_induction with
  | _ s ih =>
    intro inv
    cases s with
    | nil => rfl
    | cons b rest =>
      by_cases hr : runeLen (b :: rest) = 0
      · rw [tv_bad inv hr]
        cases inv
        · simp only [Bool.false_eq_true, if_false]
          rw [validUtf8_repl_append]; exact ih rest (by simp) true
        · simp only [if_true, List.nil_append]; exact ih rest (by simp) true
      · have hp : 0 < runeLen (b :: rest) := by omega
        rw [tv_step inv hp, validUtf8_rune_append _ hp]
        exact ih _ (drop_runeLen_lt hp) false

end S2S.Utf8
