import S2S.Proofs.RegistryChan
/-!
C08: the receiver registries without identity (`localReceiverCancelFuncs`, `activeReceivers`) for the current
clean-up (`cleanupUnconditional = false`), under `RecvOK`: receiver start-ups and un-cancelled clean-ups of one
shard are serial (windows (iv) and (vii) excluded).
-/
namespace S2S.Registry

set_option linter.unusedSimpArgs false
set_option linter.unusedVariables false

/-- inside a start-up or an (un-cancelled) clean-up -/
def RPc.sec (p : RPc) : Bool := p.starting || p.cleaning

/-- at most one receiver of a shard is inside such a section -/
def InvSerial (σ : State) : Prop :=
  ∀ i j, i < σ.next → j < σ.next → i ≠ j → (σ.inc i).shard = (σ.inc j).shard →
    (σ.inc i).rpc.sec = true → (σ.inc j).rpc.sec = true → False

/-- a registered, un-cancelled receiver (or one about to remove its own) holds the shard's cancel function -/
def InvC (σ : State) : Prop :=
  ∀ i, ((((σ.inc i).rpc = .cancelSet ∨ (σ.inc i).rpc = .running ∨ (σ.inc i).rpc = .cleanCheck) ∧ (σ.inc i).cancelled = false) ∨
        (σ.inc i).rpc = .cleanCancel) → aget σ.cancels (σ.inc i).shard = some i

/-- a starting receiver has found every registered, un-cancelled receiver of its shard (there is at most one) -/
def InvJ (σ : State) : Prop :=
  ∀ i j, i ≠ j → (σ.inc i).shard = (σ.inc j).shard → (σ.inc j).rpc.starting = true →
    ((σ.inc i).rpc = .running ∨ (σ.inc i).rpc = .cleanCheck) → (σ.inc i).cancelled = false → (σ.inc j).rpc = .term i

/-- a running, un-cancelled receiver (or one inside its clean-up) is the shard's active receiver -/
def InvA (σ : State) : Prop :=
  ∀ i, ((((σ.inc i).rpc = .running ∨ (σ.inc i).rpc = .cleanCheck) ∧ (σ.inc i).cancelled = false) ∨
        (σ.inc i).rpc = .cleanCancel ∨ (σ.inc i).rpc = .cleanActive) → aget σ.actives (σ.inc i).shard = some i

/-- replacing one incarnation keeps the sections serial when the replacement does not enter a section, or nobody else of the shard is inside one -/
theorem serial_setInc {σ : State} {k : Tok} {x : Inc} (I : InvSerial σ) (hsh : x.shard = (σ.inc k).shard)
    (hsec : x.rpc.sec = true → (σ.inc k).rpc.sec = true ∨
      ∀ j, j < σ.next → j ≠ k → (σ.inc j).shard = (σ.inc k).shard → (σ.inc j).rpc.sec = false) :
    InvSerial (σ.setInc k x) := by
  intro i j hi hj hij hs h1 h2
  simp at hi hj hs h1 h2
  by_cases e1 : k = i
  · subst e1
    have e2 : ¬ k = j := hij
    simp [e2] at hs h1 h2
    rcases hsec h1 with h | h
    · exact I k j hi hj hij (by rw [← hsh]; exact hs) h h2
    · have := h j hj (fun e => e2 e.symm) (by rw [← hsh]; exact hs.symm)
      rw [this] at h2; cases h2
  · by_cases e2 : k = j
    · subst e2
      simp [e1] at hs h1 h2
      rcases hsec h2 with h | h
      · exact I i k hi hj hij (by rw [← hsh]; exact hs) h1 h
      · have := h i hi (fun e => e1 e.symm) (by rw [← hsh]; exact hs)
        rw [this] at h1; cases h1
    · simp [e1, e2] at hs h1 h2
      exact I i j hi hj hij hs h1 h2

theorem serial_of_eq {σ σ' : State} (I : InvSerial σ) (hn : σ'.next = σ.next) (hi : ∀ j, σ'.inc j = σ.inc j) : InvSerial σ' := by
  intro i j h1 h2 h3 h4 h5 h6
  rw [hn] at h1 h2; rw [hi] at h4 h5; rw [hi] at h4 h6
  exact I i j h1 h2 h3 h4 h5 h6

theorem serial_iff_of_eq {σ σ' : State} (hn : σ'.next = σ.next) (hi : ∀ j, σ'.inc j = σ.inc j) : InvSerial σ' ↔ InvSerial σ :=
  ⟨fun I => serial_of_eq I hn.symm (fun j => (hi j).symm), fun I => serial_of_eq I hn hi⟩

@[simp] theorem serial_setLocal (σ : State) (l) : InvSerial (σ.setLocal l) ↔ InvSerial σ := serial_iff_of_eq rfl (fun _ => rfl)
@[simp] theorem serial_setSend (σ : State) (l) : InvSerial (σ.setSend l) ↔ InvSerial σ := serial_iff_of_eq rfl (fun _ => rfl)
@[simp] theorem serial_setAck (σ : State) (l) : InvSerial (σ.setAck l) ↔ InvSerial σ := serial_iff_of_eq rfl (fun _ => rfl)
@[simp] theorem serial_setCancels (σ : State) (l) : InvSerial (σ.setCancels l) ↔ InvSerial σ := serial_iff_of_eq rfl (fun _ => rfl)
@[simp] theorem serial_setActives (σ : State) (l) : InvSerial (σ.setActives l) ↔ InvSerial σ := serial_iff_of_eq rfl (fun _ => rfl)
@[simp] theorem serial_setClock (σ : State) (n) : InvSerial (σ.setClock n) ↔ InvSerial σ := serial_iff_of_eq rfl (fun _ => rfl)
@[simp] theorem serial_setStopped (σ : State) : InvSerial σ.setStopped ↔ InvSerial σ := serial_iff_of_eq rfl (fun _ => rfl)
@[simp] theorem serial_steal (σ : State) (i g v) : InvSerial (steal σ i g v) ↔ InvSerial σ := serial_iff_of_eq (by simp) (by simp)
@[simp] theorem serial_sendOn (σ : State) (t r) : InvSerial (sendOn σ t r) ↔ InvSerial σ := serial_iff_of_eq (by simp) (by simp)

theorem others_sec {σ : State} {k : Tok} (H : Others σ k (fun y => !y.rpc.starting && !y.rpc.cleaning)) :
    ∀ j, j < σ.next → j ≠ k → (σ.inc j).shard = (σ.inc k).shard → (σ.inc j).rpc.sec = false := by
  intro j hj hjk hs
  have := H j hj hjk hs
  simp at this
  simp [RPc.sec, this]

set_option maxHeartbeats 2000000 in
theorem invSerial_step {c σ a σ'} (h : step c σ a = some σ') (hc : c.cleanupUnconditional = false) (H : RecvOK σ a)
    (I : InvSerial σ) : InvSerial σ' := by
  cases a with
  | «open» sh srv =>
    step_inv h
    intro i j hi hj hij hs h1 h2
    simp [RPc.sec] at hi hj hs h1 h2 ⊢
    by_cases e1 : σ.next = i
    · simp [e1] at h1
    · by_cases e2 : σ.next = j
      · simp [e2] at h2
      · simp [e1, e2] at hs h1 h2
        exact I i j (by omega) (by omega) hij hs (by simpa [RPc.sec] using h1) (by simpa [RPc.sec] using h2)
  | rGet k =>
    step_inv h
    all_goals (apply serial_setInc I)
    all_goals (first | rfl | (intro _; right; exact others_sec H))
  | rCheck k =>
    step_inv h
    · rename_i hcond
      apply serial_setInc I
      · rfl
      · intro _
        rcases H with H | H
        · simp [hc, H] at hcond
        · right; exact others_sec H
    · apply serial_setInc I
      · rfl
      · intro hx; simp [RPc.sec] at hx
  | rCancel k =>
    step_inv h
    · apply serial_setInc I
      · rfl
      · intro _; left; simp_all [RPc.sec]
    · rename_i g hg hne
      apply serial_setInc
      · apply serial_setInc I
        · rfl
        · intro _; left; simp [hg, RPc.sec]
      · have hne' : ¬ k = g := fun e => hne e.symm
        simp [hne']
      · have hne' : ¬ k = g := fun e => hne e.symm
        intro hx; left; revert hx; simp [hne']
  | _ =>
    step_inv h
    all_goals (try simp only [serial_setLocal, serial_setSend, serial_setAck, serial_setCancels, serial_setActives,
      serial_setClock, serial_setStopped, serial_steal, serial_sendOn])
    all_goals (first
      | exact I
      | (apply serial_setInc I; (· rfl); (· intro hx; left; revert hx; simp_all [RPc.sec]; done)))

set_option maxHeartbeats 4000000 in
theorem invJ_step {c σ a σ'} (h : step c σ a = some σ') (B : InvBound σ) (S : InvSerial σ) (C : InvC σ) (I : InvJ σ) : InvJ σ' := by
  cases a with
  | «open» sh srv =>
    step_inv h
    intro i j hij hs h1 h2 h3
    simp at hs h1 h2 h3 ⊢
    by_cases e1 : σ.next = i
    · simp [e1] at h2
    · by_cases e2 : σ.next = j
      · simp [e2] at h1
      · simp [e1, e2] at hs h1 h2 h3 ⊢
        exact I i j hij hs h1 h2 h3
  | rGet k =>
    step_inv h
    all_goals (intro i j hij hs h1 h2 h3)
    all_goals (simp at hs h1 h2 h3 ⊢)
    all_goals (by_cases e1 : k = i)
    all_goals (by_cases e2 : k = j)
    all_goals (try (subst e1))
    all_goals (try (subst e2))
    all_goals (try (exact absurd rfl hij))
    all_goals (simp_all)
    all_goals (first
      | exact I i j hij hs h1 h2 h3
      | skip)
    all_goals (have hC := C i (Or.inl ⟨Or.inr h2, h3⟩); rw [hs] at hC)
    all_goals (simp_all)
  | rCancel k =>
    step_inv h
    all_goals (intro i j hij hs h1 h2 h3)
    all_goals (simp at hs h1 h2 h3 ⊢)
    all_goals (have hI := I i j hij; have hI2 := I i k; revert hs h1 h2 h3; crush)
  | rRegActive k =>
    step_inv h
    rename_i hk
    intro i j hij hs h1 h2 h3
    simp at hs h1 h2 h3 ⊢
    by_cases e2 : k = j
    · subst e2; simp at h1
    · simp [e2] at hs h1 ⊢
      by_cases e1 : k = i
      · subst e1
        simp at hs
        have hkn : k < σ.next := lt_next_of_rpc B (by simp [hk])
        have hjn : j < σ.next := lt_next_of_rpc B (by intro e; rw [e] at h1; simp at h1)
        exact absurd (S k j hkn hjn e2 hs (by simp [hk, RPc.sec]) (by simp [h1, RPc.sec])) id
      · simp [e1] at hs h2 h3
        exact I i j hij hs h1 h2 h3
  | _ =>
    step_inv h
    all_goals (intro i j hij hs h1 h2 h3)
    all_goals (try simp at hs h1 h2 h3 ⊢)
    all_goals (first | exact I i j hij hs h1 h2 h3 | (have hI := I i j hij; revert hs h1 h2 h3; crush))

/-- a receiver inside its start-up (past the cancellation of its predecessor) excludes any other registered,
    un-cancelled or cleaning receiver of the shard -/
theorem recv_clash {σ : State} {k i : Tok} {p : RPc} (B : InvBound σ) (S : InvSerial σ) (J : InvJ σ)
    (hk : (σ.inc k).rpc = p) (hp : p.starting = true ∧ ∀ g, p ≠ .term g) (e1 : ¬ k = i)
    (hs : (σ.inc k).shard = (σ.inc i).shard)
    (hi : (((σ.inc i).rpc = .cancelSet ∨ (σ.inc i).rpc = .running ∨ (σ.inc i).rpc = .cleanCheck) ∧ (σ.inc i).cancelled = false) ∨
          (σ.inc i).rpc.cleaning = true) : False := by
  have hkn : k < σ.next := lt_next_of_rpc B (by intro e; rw [hk] at e; rw [e] at hp; simp at hp)
  have hksec : (σ.inc k).rpc.sec = true := by simp [RPc.sec, hk, hp.1]
  rcases hi with ⟨h1 | h1 | h1, h2⟩ | h1
  · exact S k i hkn (lt_next_of_rpc B (by simp [h1])) e1 hs hksec (by simp [RPc.sec, h1])
  · have := J i k (fun e => e1 e.symm) hs.symm (by rw [hk]; exact hp.1) (Or.inl h1) h2
    rw [hk] at this; exact hp.2 i this
  · have := J i k (fun e => e1 e.symm) hs.symm (by rw [hk]; exact hp.1) (Or.inr h1) h2
    rw [hk] at this; exact hp.2 i this
  · exact S k i hkn (lt_next_of_rpc B (by intro e; rw [e] at h1; simp at h1)) e1 hs hksec (by simp [RPc.sec, h1])

set_option maxHeartbeats 4000000 in
theorem invC_step {c σ a σ'} (h : step c σ a = some σ') (hc : c.cleanupUnconditional = false) (B : InvBound σ)
    (S : InvSerial σ) (J : InvJ σ) (I : InvC σ) : InvC σ' := by
  cases a with
  | rSetCancel k =>
    step_inv h
    rename_i hk
    intro i hi
    simp [aget_aset] at hi ⊢
    by_cases e1 : k = i
    · subst e1; simp
    · simp [e1] at hi ⊢
      split
      · rename_i hs
        exfalso
        exact recv_clash B S J hk (by simp) e1 hs (hi.elim Or.inl (fun h => Or.inr (by simp [h])))
      · exact I i hi
  | rRmCancel k =>
    step_inv h
    rename_i hk
    intro i hi
    simp [aget_adel] at hi ⊢
    by_cases e1 : k = i
    · subst e1; simp at hi
    · simp [e1] at hi ⊢
      refine ⟨?_, I i hi⟩
      intro hs
      exact recv_clash B S J hk (by simp) e1 hs (hi.elim Or.inl (fun h => Or.inr (by simp [h])))
  | rRmOwnCancel k =>
    step_inv h
    rename_i hk
    intro i hi
    simp [aget_adel] at hi ⊢
    by_cases e1 : k = i
    · subst e1; simp at hi
    · simp [e1] at hi ⊢
      refine ⟨?_, I i hi⟩
      intro hs
      have h1 := I i hi
      have h2 := I k (Or.inr hk)
      rw [← hs, h2] at h1; injection h1 with e; exact e1 e
  | _ =>
    step_inv h
    all_goals (intro i hi)
    all_goals (try simp at hi ⊢)
    all_goals (first | exact I i hi | (have hI := I i; revert hi; crush))

set_option maxHeartbeats 4000000 in
theorem invA_step {c σ a σ'} (h : step c σ a = some σ') (hc : c.cleanupUnconditional = false) (B : InvBound σ)
    (S : InvSerial σ) (J : InvJ σ) (I : InvA σ) : InvA σ' := by
  cases a with
  | rRegActive k =>
    step_inv h
    rename_i hk
    intro i hi
    simp [aget_aset] at hi ⊢
    by_cases e1 : k = i
    · subst e1; simp
    · simp [e1] at hi ⊢
      split
      · rename_i hs
        exfalso
        refine recv_clash B S J hk (by simp) e1 hs ?_
        rcases hi with ⟨h1 | h1, h2⟩ | h1 | h1
        · exact Or.inl ⟨Or.inr (Or.inl h1), h2⟩
        · exact Or.inl ⟨Or.inr (Or.inr h1), h2⟩
        · exact Or.inr (by simp [h1])
        · exact Or.inr (by simp [h1])
      · exact I i hi
  | rUnregActive k =>
    step_inv h
    rename_i hk
    intro i hi
    simp [aget_adel] at hi ⊢
    by_cases e1 : k = i
    · subst e1; simp at hi
    · simp [e1] at hi ⊢
      refine ⟨?_, I i hi⟩
      intro hs
      have h1 := I i hi
      have h2 := I k (Or.inr (Or.inr hk))
      rw [← hs, h2] at h1; injection h1 with e; exact e1 e
  | _ =>
    step_inv h
    all_goals (intro i hi)
    all_goals (try simp at hi ⊢)
    all_goals (first | exact I i hi | (have hI := I i; revert hi; crush))

end S2S.Registry
