import S2S.Proofs.TranslateValErase
import S2S.Proofs.TranslateValSA
import S2S.Proofs.NameMap
/-! From matchers to mappings: `look m` is an exact-match lookup; top-level wrappers. -/
set_option linter.unusedSectionVars false
namespace S2S.TranslateVal
open S2S.Translate S2S.NameMap
variable {α : Type} [DecidableEq α] (g : Graph) (tb : Tables) (X : Ext α)

theorem app_look (m : List (α × α)) (s : α) : app (look m) s = look m s := by
  unfold app look
  cases lookup m s <;> rfl

theorem look_fst (m : List (α × α)) (s : α) : (look m s).1 = translateName m s := by
  unfold look translateName
  cases lookup m s <;> rfl

theorem look_snd_false (m : List (α × α)) (s : α) (h : ∀ p ∈ m, p.1 ≠ s) : (look m s).2 = false := by
  unfold look
  rw [lookup_none m s h]

theorem lookup_some_mem (m : List (α × α)) (s t : α) (h : lookup m s = some t) : (s, t) ∈ m := by
  induction m with
  | nil => cases h
  | cons p m ih =>
    rw [lookup_cons] at h
    split at h
    · rename_i he
      cases h
      rw [← he]
      exact List.mem_cons_self ..
    · exact List.mem_cons_of_mem _ (ih h)

theorem keepsEmpty_look (m : List (α × α)) (e : α) (hne : ∀ p ∈ m, p.1 ≠ e ∧ p.2 ≠ e) : KeepsEmpty (look m) e := by
  intro s
  rw [app_look, look_fst]
  unfold translateName
  cases h : lookup m s with
  | none => exact Iff.rfl
  | some t =>
    have hm := lookup_some_mem m s t h
    have := hne _ hm
    constructor
    · intro ht; exact absurd ht this.2
    · intro hs; exact absurd hs this.1

theorem nameOnce_of (h : tb.ns.contains g.nameField = false) : NameOnce g tb := by
  intro f hf
  unfold isNsLeafField
  have : f.go = g.nameField := by simpa using hf
  rw [this, h]
  simp

theorem bimap_nodup (m : List (α × α)) (h : newBiMap m = some m) : (m.map (·.1)).Nodup ∧ (m.map (·.2)).Nodup :=
  (newBiMap_isSome_iff m).1 (by rw [h]; rfl)

theorem rootSkippable_visit (mt : α → α × Bool) (h : KeepsEmpty mt X.empty) (v : Val α) :
    rootSkippable g tb X (visitNs g tb X mt none v).1 = rootSkippable g tb X v := by
  cases v <;> try rfl
  case msg ty fs =>
    have e := evSkippable_visit g tb X mt h (.msg ty fs) none
    rw [visitNs_msg] at e ⊢
    show (ty == X.lwerType || (ty == g.eventType && evSkippable g tb X (Val.msg ty _))) = _
    rw [e]
    rfl

theorem ns_roundtrip_top (m : List (α × α)) (hbi : newBiMap m = some m)
    (hne : ∀ p ∈ m, p.1 ≠ X.empty ∧ p.2 ≠ X.empty) (hN : tb.ns.contains g.nameField = false) (v : Val α)
    (hv : ∀ s ∈ visitedNames g tb X v, (∃ p ∈ m, p.1 = s) ∨ (∀ p ∈ m, p.2 ≠ s)) :
    unflag (translateNs g tb X (inverse m) (translateNs g tb X m v).1).1 = unflag v := by
  obtain ⟨hk, hvn⟩ := bimap_nodup m hbi
  have hE := keepsEmpty_look m X.empty hne
  unfold translateNs visitNamespace
  unfold visitedNames at hv
  by_cases hr : rootSkippable g tb X v = true
  · rw [if_pos hr]
    simp only
    rw [if_pos hr]
  · rw [if_neg hr] at hv ⊢
    rw [rootSkippable_visit g tb X (look m) hE, if_neg hr]
    apply (roundtrip g tb X (look m) (look (inverse m)) hE (nameOnce_of g tb hN)).1 v none
    intro s hs
    rw [app_look, app_look, look_fst, look_fst]
    exact S2S.NameMap.roundtrip m hk hvn s (hv s hs)

theorem sa_roundtrip_top (m : List (α × α)) (hbi : newBiMap m = some m) (v : Val α)
    (hv : ∀ k ∈ saKeysV g tb X none v, (∃ p ∈ m, p.1 = k) ∨ (∀ p ∈ m, p.2 ≠ k)) :
    unflag (translateSA g tb X (inverse m) (translateSA g tb X m v).1).1 = unflag v := by
  obtain ⟨hk, hvn⟩ := bimap_nodup m hbi
  unfold translateSA
  apply (sa_roundtrip g tb X (look m) (look (inverse m))).1 v none
  intro s hs
  rw [app_look, app_look, look_fst, look_fst]
  exact S2S.NameMap.roundtrip m hk hvn s (hv s hs)

/-- a collision means: two entries of the container receive the same new key -/
theorem collide_witness (mt : α → α × Bool) (es : List (Val α)) (h : renCollide mt es = true) :
    ∃ k1 k2, [k1, k2].Sublist (keysOf es) ∧ (app mt k1).1 = (app mt k2).1 := by
  unfold renCollide at h
  simp only [Bool.not_eq_eq_eq_not, Bool.not_true, decide_eq_false_iff_not] at h
  unfold List.Nodup at h
  rw [List.pairwise_iff_forall_sublist] at h
  have hex : ∃ a b, [a, b].Sublist ((keysOf es).map (fun k => (app mt k).1)) ∧ a = b := by
    apply Classical.byContradiction
    intro hno
    apply h
    intro a b hs hab
    exact hno ⟨a, b, hs, hab⟩
  obtain ⟨a, b, hs, hab⟩ := hex
  obtain ⟨l', hl', hm⟩ := List.sublist_map_iff.1 hs
  match l', hm with
  | [k1, k2], hm =>
    simp only [List.map_cons, List.map_nil, List.cons.injEq, and_true] at hm
    exact ⟨k1, k2, hl', by rw [← hm.1, ← hm.2]; exact hab⟩

/-- no collision for a one-to-one mapping when the (distinct) keys avoid the unmapped targets -/
theorem no_collide_of_bimap (m : List (α × α)) (hbi : newBiMap m = some m) (es : List (Val α))
    (hd : (keysOf es).Nodup) (hk : ∀ k ∈ keysOf es, (∃ p ∈ m, p.1 = k) ∨ (∀ p ∈ m, p.2 ≠ k)) :
    renCollide (look m) es = false := by
  obtain ⟨hkn, hvn⟩ := bimap_nodup m hbi
  unfold renCollide
  simp only [Bool.not_eq_eq_eq_not, Bool.not_false, decide_eq_true_eq]
  have e : (keysOf es).map (fun k => (app (look m) k).1) = (keysOf es).map (translateName m) := by
    apply List.map_congr_left
    intro k _
    rw [app_look, look_fst]
  rw [e]
  unfold List.Nodup at hd ⊢
  rw [List.pairwise_map]
  refine List.Pairwise.imp_of_mem ?_ hd
  intro a b ha hb hne heq
  apply hne
  have h1 := S2S.NameMap.roundtrip m hkn hvn a (hk a ha)
  have h2 := S2S.NameMap.roundtrip m hkn hvn b (hk b hb)
  rw [← h1, ← h2, heq]

end S2S.TranslateVal
