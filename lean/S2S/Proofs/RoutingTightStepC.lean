import S2S.Proofs.RoutingTightStepB
/-! Preservation of `InvT`: `take` (the step that moves lost tasks into `passed`) and `recv`. -/
namespace S2S.Routing

/-! take -/

/-- the ghost after `take t` of message `m` -/
def GhostT.pass (γ : GhostT) (t : TId) (m : Msg) : GhostT :=
  { g := γ.g
    passed := aset γ.passed t
      (γ.passedOf t ++ (γ.g.lostOf t).filter fun p => p.1 == msgSrc m && p.2 < msgHigh m) }

theorem passedOf_pass_self (γ : GhostT) (t : TId) (m : Msg) :
    (γ.pass t m).passedOf t =
      γ.passedOf t ++ (γ.g.lostOf t).filter fun p => p.1 == msgSrc m && p.2 < msgHigh m := by
  simp only [GhostT.pass, GhostT.passedOf, getD_aget_aset, if_true]

theorem passedOf_pass_mono (γ : GhostT) (t : TId) (m : Msg) (t' : TId) (a : SId × Int)
    (h : a ∈ γ.passedOf t') : a ∈ (γ.pass t m).passedOf t' := by
  by_cases e : t' = t
  · subst e; rw [passedOf_pass_self]; exact List.mem_append_left _ h
  · simp only [GhostT.pass, GhostT.passedOf, getD_aget_aset, e, if_false]; exact h

theorem lost_pass {γ : GhostT} {t : TId} {m : Msg} {s : SId} {t' : TId} {x : Source} {id : Int}
    (h : Lost (γ.pass t m) s t' x id) : Lost γ s t' x id :=
  h.of_eq rfl rfl rfl (passedOf_pass_mono γ t m t')

theorem upd_take (σ : State) (γ : GhostT) (t : TId) (m : Msg) (rest : List Msg)
    (hch : (σ.tgt t).sendChan = m :: rest) : γ.upd σ (.take t) = γ.pass t m := by
  simp only [GhostT.upd, hch, GhostT.pass]

theorem pairT_take {γ : GhostT} {s : SId} {t : TId} {x : Source} {tg : Target}
    (h : PairT (Lost γ s t x) s t x tg) (m : Msg) (tg' : Target)
    (hring : ∀ p o, (p, s, o) ∈ tg'.ring → (p, s, o) ∈ tg.ring ∨ (s = msgSrc m ∧ o ≤ msgHigh m))
    (h2 : tg'.ackPc = tg.ackPc) (h3 : tg'.prevAck = tg.prevAck) (h4 : tg'.confirmed = tg.confirmed) :
    PairT (Lost (γ.pass t m) s t x) s t x tg' := by
  have h0 : PairT (Lost (γ.pass t m) s t x) s t x tg := h.mono (fun _ hl => lost_pass hl)
  have hs : ∀ v, SafeN (Lost (γ.pass t m) s t x) s tg v → SafeN (Lost (γ.pass t m) s t x) s tg' v := by
    intro v hv; unfold SafeN; rw [h4]; exact hv
  refine ⟨?_, ?_, ?_, fun v hv => hs v (h0.chan_safe v hv), fun v hv => hs v (h0.abt_safe v hv),
    fun a ha => hs a (h0.last_safe a ha), h0.seeded⟩
  · intro p o hm
    rcases hring p o hm with hm | ⟨e, hle⟩
    · exact hs o (h0.ring_lost p o hm)
    · intro id hl hlt
      exfalso
      apply hl.2.2.2
      rw [passedOf_pass_self]
      apply List.mem_append_right
      rw [List.mem_filter]
      refine ⟨hl.2.2.1, ?_⟩
      simp only [Bool.and_eq_true, beq_iff_eq, decide_eq_true_eq]
      exact ⟨e, by omega⟩
  · rw [h2]; exact fun todo d r e v hv => hs v (h0.todo_safe todo d r e v hv)
  · rw [h3]; exact fun v hv => hs v (h0.prev_safe v hv)

theorem step_invT_take {σ σ' : State} {γ : GhostT} (hI : InvT σ γ) (t : TId)
    (h : step Cfg.cur σ (.take t) = some σ') (hF' : InvF σ' γ.g) : InvT σ' (γ.upd σ (.take t)) := by
  simp only [step] at h
  split at h
  · cases h
  · split at h
    · cases h
    · rename_i m rest hch
      rw [upd_take σ γ t m rest hch]
      have hTS : ∀ tg' : Target, tg'.sendChan = rest → TgtS tg' := by
        intro tg' e s ids hm
        rw [e] at hm
        exact hI.tgtS t s ids (by rw [hch]; exact List.mem_cons_of_mem _ hm)
      cases m with
      | tasks s0 ids =>
        simp only [process, Option.some.injEq] at h
        subst h
        have hlm : LastMax ids := hI.tgtS t s0 ids (by rw [hch]; exact List.mem_cons_self)
        refine invT_setTgt hI _ t _ hF' (hTS _ rfl) (fun _ _ _ _ hl => lost_pass hl) ?_
        intro s
        refine pairT_take (hI.pair s t) (.tasks s0 ids) _ ?_ rfl rfl rfl
        intro p o hm
        rcases List.mem_append.1 hm with hm | hm
        · exact Or.inl hm
        · right
          rw [List.mem_map] at hm
          obtain ⟨⟨o', p''⟩, hz, e⟩ := hm
          simp only [Prod.mk.injEq] at e
          obtain ⟨_, e1, e2⟩ := e
          subst e1; subst e2
          exact ⟨rfl, hlm o' (List.of_mem_zip hz).1⟩
      | wm s0 hv =>
        simp only [process, Option.some.injEq] at h
        subst h
        refine invT_setTgt hI _ t _ hF' (hTS _ rfl) (fun _ _ _ _ hl => lost_pass hl) ?_
        intro s
        refine pairT_take (hI.pair s t) (.wm s0 hv) _ ?_ rfl rfl rfl
        intro p o hm
        rcases List.mem_append.1 hm with hm | hm
        · exact Or.inl hm
        · right
          simp only [List.mem_singleton, Prod.mk.injEq] at hm
          obtain ⟨_, e1, e2⟩ := hm
          subst e1; subst e2
          exact ⟨rfl, Int.le_refl _⟩

/-! recv -/

/-- a task lost-and-unpassed after a `recv` was so before, or is new and at/above every announced watermark -/
theorem lost_recv {σ : State} {γ : GhostT} {s : SId} {tasks : List (Int × TId)} {high : Int} {t : TId} {id : Int}
    (x' : Source) (hr : x'.received = (σ.src s).received ++ tasks) (ha : x'.active = (σ.src s).active)
    (hfresh : RecvFresh σ γ.g s tasks)
    (hn : Lost { g := γ.g.upd σ (.recv s tasks high), passed := γ.passed } s t x' id) :
    Lost γ s t (σ.src s) id ∨ ((id, t) ∈ tasks ∧ γ.g.maxHighOf s ≤ id) := by
  unfold Lost at hn ⊢
  obtain ⟨h1, h2, h3, h4⟩ := hn
  have hb : ebase (γ.g.upd σ (.recv s tasks high)) s x' =
      if (σ.src s).active then γ.g.baseOf s else x'.received.length := by
    unfold ebase; rw [ha]; rfl
  rw [hr] at h1
  by_cases hin : (id, t) ∈ (σ.src s).received
  · left
    refine ⟨hin, ?_, h3, h4⟩
    intro hc
    apply h2
    show (id, t) ∈ x'.received.take (ebase (γ.g.upd σ (.recv s tasks high)) s x')
    rw [hb, hr]
    unfold ebase at hc
    split
    · rename_i hact; rw [if_pos hact] at hc; exact mem_take_append hc
    · rw [List.take_length]; exact List.mem_append_left _ hin
  · right
    rcases List.mem_append.1 h1 with h1 | h1
    · exact absurd h1 hin
    · rcases hfresh _ h1 with hf | hf
      · exact absurd hf hin
      · exact ⟨h1, hf⟩

/-- transfer of `PairT` along a `recv`: every old value is `≤ M ≤` every new lost task -/
theorem PairT.of_recv {L L' N : Int → Prop} {M : Int} {s : SId} {t : TId} {x : Source} {tg : Target}
    (h : PairT L s t x tg) (hf : PairF N M s t x tg) {x' : Source}
    (hL : ∀ id, L' id → L id ∨ M ≤ id)
    (h5 : x'.ackChan = x.ackChan) (h7 : x'.lastSentAck = x.lastSentAck)
    (hlast : ∀ a, x.lastSentAck = some a → a ≤ M)
    (habt : ∀ v, (t, v) ∈ x'.ackByTarget → (t, v) ∈ x.ackByTarget ∨ SafeN L' s tg v)
    (hseed : ∀ id, L' id → (aget x'.ackByTarget t).isSome = true) : PairT L' s t x' tg := by
  have hsafe : ∀ v, SafeN L s tg v → v ≤ M → SafeN L' s tg v := by
    intro v hv hvl id hr hlt
    rcases hL id hr with hr | hr
    · exact hv id hr hlt
    · omega
  refine ⟨?_, ?_, ?_, ?_, ?_, ?_, hseed⟩
  · intro p o hm; exact hsafe o (h.ring_lost p o hm) (hf.ring_le p o hm)
  · intro todo d r e v hv; exact hsafe v (h.todo_safe todo d r e v hv) (hf.todo_safe todo d r e v hv).2
  · intro v hv; exact hsafe v (h.prev_safe v hv) (hf.prev_safe v hv).2
  · rw [h5]; intro v hv; exact hsafe v (h.chan_safe v hv) (hf.chan_safe v hv).2
  · intro v hv
    rcases habt v hv with hv | hv
    · exact hsafe v (h.abt_safe v hv) (hf.abt_safe v hv).2
    · exact hv
  · rw [h7]; intro a ha; exact hsafe a (h.last_safe a ha) (hlast a ha)

theorem step_invT_recv {σ σ' : State} {γ : GhostT} (hI : InvT σ γ) (s : SId) (tasks : List (Int × TId)) (high : Int)
    (hok : RecvOK σ.targets.length (σ.src s) tasks high) (hfresh : RecvFresh σ γ.g s tasks)
    (h : step Cfg.cur σ (.recv s tasks high) = some σ')
    (hF' : InvF σ' (γ.g.upd σ (.recv s tasks high))) :
    InvT σ' { g := γ.g.upd σ (.recv s tasks high), passed := γ.passed } := by
  obtain ⟨hinc, htasks, _, hhigh⟩ := hok
  simp only [step] at h
  split at h
  · cases h
  · rename_i hg
    simp only [Bool.or_eq_true, Bool.not_eq_true', not_or, Bool.not_eq_false, bne_iff_ne, ne_eq,
      Decidable.not_not] at hg
    obtain ⟨hact, hidle⟩ := hg
    have hS := hI.f.src s
    have hsl := src_active_lt σ hact
    have hLo : ∀ s' t, (s' ≠ s ∨ ¬ s < σ.sources.length) → ∀ id,
        Lost { g := γ.g.upd σ (.recv s tasks high), passed := γ.passed } s' t (σ.src s') id →
        Lost γ s' t (σ.src s') id := by
      intro s' t hs' id hl
      rcases hs' with e | e
      · exact hl.of_eq rfl rfl rfl (fun _ ha => ha)
      · exact absurd hsl e
    split at h
    · rename_i hemp
      have htn : tasks = [] := by cases tasks with | nil => rfl | cons _ _ => simp at hemp
      subst htn
      simp only [Option.some.injEq] at h
      subst h
      refine invT_setSrc hI _ s _ hF' ?_ hLo ?_
      · intro pending e
        simp only at e
        split at e <;> cases e
      · intro t
        have hNn' : ∀ (x' : Source) id,
            Lost { g := γ.g.upd σ (.recv s [] high), passed := γ.passed } s t x' id →
            x'.received = (σ.src s).received ++ [] → x'.active = (σ.src s).active →
            Lost γ s t (σ.src s) id ∨ ((id, t) ∈ ([] : List (Int × TId)) ∧ γ.g.maxHighOf s ≤ id) :=
          fun x' id hn e1 e2 => lost_recv x' e1 e2 hfresh hn
        refine (hI.pair s t).of_recv (hI.f.pair s t) ?_ rfl rfl hS.last_le (fun v hv => Or.inl hv) ?_
        · intro id hl
          rcases hNn' _ id hl rfl rfl with hl | ⟨hl, _⟩
          · exact Or.inl hl
          · cases hl
        · intro id hl
          rcases hNn' _ id hl rfl rfl with hl | ⟨hl, _⟩
          · exact (hI.pair s t).seeded id hl
          · cases hl
    · rename_i hemp
      simp only [cur_seedAcks, if_true, Option.some.injEq] at h
      subst h
      refine invT_setSrc hI _ s _ hF' ?_ hLo ?_
      · intro pending e t ids hag
        cases e
        rw [aget_groupByOwner] at hag
        split at hag
        · cases hag
        · cases hag
          exact lastMax_of_pairwise (ownedIds_pairwise hinc t)
      · intro t
        have hp := hI.pair s t
        have hNn' : ∀ (x' : Source) id,
            Lost { g := γ.g.upd σ (.recv s tasks high), passed := γ.passed } s t x' id →
            x'.received = (σ.src s).received ++ tasks → x'.active = (σ.src s).active →
            Lost γ s t (σ.src s) id ∨ ((id, t) ∈ tasks ∧ γ.g.maxHighOf s ≤ id) :=
          fun x' id hn e1 e2 => lost_recv x' e1 e2 hfresh hn
        refine hp.of_recv (hI.f.pair s t) ?_ rfl rfl hS.last_le ?_ ?_
        · intro id hl
          rcases hNn' _ id hl rfl rfl with hl | ⟨_, hm⟩
          · exact Or.inl hl
          · exact Or.inr hm
        · intro v hv
          have hv : (t, v) ∈ seed (σ.src s).ackByTarget (groupByOwner tasks) := hv
          rcases mem_seed hv with hv | ⟨hnone, ids, hids, hvd⟩
          · exact Or.inl hv
          · right
            rw [aget_groupByOwner] at hids
            split at hids
            · cases hids
            · simp only [Option.some.injEq] at hids
              subst hids
              intro id hn hlt
              rcases hNn' _ id hn rfl rfl with hn | ⟨hn, _⟩
              · have := hp.seeded id hn; rw [hnone] at this; cases this
              · have := ownedIds_head_le hinc t (mem_ownedIds.2 hn)
                rw [← hvd] at this; omega
        · intro id hn
          show (aget (seed (σ.src s).ackByTarget (groupByOwner tasks)) t).isSome = true
          rw [aget_seed]
          cases hag : aget (σ.src s).ackByTarget t with
          | some v => rfl
          | none =>
            simp only
            rcases hNn' _ id hn rfl rfl with hn | ⟨hn, _⟩
            · have := hp.seeded id hn; rw [hag] at this; cases this
            · rw [aget_groupByOwner]
              have : ownedIds tasks t ≠ [] := by
                intro e; have := mem_ownedIds.2 hn; rw [e] at this; cases this
              simp [this]

end S2S.Routing
