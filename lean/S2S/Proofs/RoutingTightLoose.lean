import S2S.Proofs.RoutingTightMain
/-!
The tight statement is at least as strong as the loose one: along any run, `passedOf t ⊆ lostOf t`, so the tight excuse
implies the loose excuse; the two environment hypotheses coincide.
-/
namespace S2S.Routing

/-- the relation between the two ghosts: only lost tasks are ever passed -/
def PassedSubLost (γ : GhostT) : Prop := ∀ t a, a ∈ γ.passedOf t → a ∈ γ.g.lostOf t

instance (γ : GhostT) : Decidable (PassedSubLost γ) :=
  decidable_of_iff (∀ q ∈ γ.passed, ∀ a ∈ γ.passedOf q.1, a ∈ γ.g.lostOf q.1) (by
    constructor
    · intro h t a ha
      unfold GhostT.passedOf at ha
      cases hg : aget γ.passed t with
      | none => rw [hg] at ha; cases ha
      | some l =>
        have hm := aget_some_mem hg
        exact h (t, l) hm a ha
    · intro h q _ a ha; exact h q.1 a ha)

theorem passedSubLost_init : PassedSubLost {} := by
  intro t a ha; cases ha

theorem ghostT_next_g (c : Cfg) (σ : State) (γ : GhostT) (a : Act) : (γ.next c σ a).g = γ.g.next c σ a := by
  unfold GhostT.next
  cases h : step c σ a with
  | none => simp only; rw [ghost_next_none γ.g h]
  | some σ' =>
    simp only
    cases a <;> try rfl
    rename_i t
    simp only
    cases (σ.tgt t).sendChan <;> rfl

theorem lostOf_next_mono (c : Cfg) (σ : State) (γ : Ghost) (a : Act) (t : TId) (x : SId × Int)
    (h : x ∈ γ.lostOf t) : x ∈ (γ.next c σ a).lostOf t := by
  unfold Ghost.next
  split
  · exact h
  · cases a <;> try exact h
    rename_i t0
    simp only [Ghost.lostOf, getD_aget_aset]
    split
    · rename_i e; subst e; exact List.mem_append_left _ h
    · exact h

theorem passedSubLost_next {γ : GhostT} (h : PassedSubLost γ) (c : Cfg) (σ : State) (a : Act) :
    PassedSubLost (γ.next c σ a) := by
  intro t x hx
  rw [ghostT_next_g]
  cases hs : step c σ a with
  | none => rw [ghostT_next_none γ hs] at hx; exact lostOf_next_mono c σ γ.g a t x (h t x hx)
  | some σ' =>
    rw [ghostT_next_of_step γ hs] at hx
    by_cases ht : ∃ t0, a = .take t0
    · obtain ⟨t0, e⟩ := ht
      subst e
      apply lostOf_next_mono
      simp only [GhostT.upd] at hx
      split at hx
      · exact h t x hx
      · simp only [GhostT.passedOf, getD_aget_aset] at hx
        split at hx
        · rename_i e; subst e
          rcases List.mem_append.1 hx with hx | hx
          · exact h t x hx
          · exact (List.mem_filter.1 hx).1
        · exact h t x hx
    · apply lostOf_next_mono
      apply h t x
      cases a <;> first | exact hx | exact absurd ⟨_, rfl⟩ ht

theorem excusedT_excused {σ : State} {γ : GhostT} (h : PassedSubLost γ) {s : SId} {p : Int × TId}
    (he : ExcusedT σ γ s p) : Excused σ γ.g s p := by
  rcases he with he | he
  · exact Or.inl he
  · exact Or.inr (h p.2 _ he)

theorem ackStepSafeT_F {σ σ' : State} {γ' : GhostT} (h : PassedSubLost γ') (hs : AckStepSafeT σ σ' γ') :
    AckStepSafeF σ σ' γ'.g := by
  intro s hsl v hv p hp hlt
  rcases hs s hsl v hv p hp hlt with hc | he
  · exact Or.inl hc
  · exact Or.inr (excusedT_excused h he)

theorem acksSafeT_F (c : Cfg) (σ : State) (γ : GhostT) (acts : List Act) (hrel : PassedSubLost γ)
    (h : AcksSafeTAlong c σ γ acts) : AcksSafeFAlong c σ γ.g acts := by
  induction acts generalizing σ γ with
  | nil => trivial
  | cons a rest ih =>
    unfold AcksSafeTAlong at h
    unfold AcksSafeFAlong
    cases hstep : step c σ a with
    | none =>
      rw [hstep] at h
      exact ih σ γ hrel h
    | some σ' =>
      rw [hstep] at h
      simp only at h ⊢
      rw [← ghostT_next_g]
      exact ⟨ackStepSafeT_F (passedSubLost_next hrel c σ a) h.1, ih σ' _ (passedSubLost_next hrel c σ a) h.2⟩

theorem envOKT_iff_F (c : Cfg) (σ : State) (γ : GhostT) (acts : List Act) :
    EnvOKT c σ γ acts ↔ EnvOKF c σ γ.g acts := by
  induction acts generalizing σ γ with
  | nil => exact Iff.rfl
  | cons a rest ih =>
    unfold EnvOKT EnvOKF
    rw [ih, ghostT_next_g]
    exact Iff.rfl

end S2S.Routing
