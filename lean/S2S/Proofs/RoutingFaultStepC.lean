import S2S.Proofs.RoutingFaultStepB
/-! Invariant preservation (with faults): hand-off into the send channels (`bcastStep`, `deliver`, `replayStep`). -/
namespace S2S.Routing

theorem pairwise_insert_wmN {N : Int → Prop} {A P : List (Int × Bool)} {h : Int}
    (hs : (A ++ P).Pairwise (FlatRelN N))
    (hP : ∀ y ∈ P, y.2 = true → N y.1 → h ≤ y.1) : (A ++ [(h, false)] ++ P).Pairwise (FlatRelN N) := by
  rw [List.pairwise_append] at hs
  obtain ⟨hA, hPw, hAP⟩ := hs
  rw [List.pairwise_append]
  refine ⟨?_, hPw, ?_⟩
  · rw [List.pairwise_append]
    refine ⟨hA, List.pairwise_singleton _ _, ?_⟩
    intro a _ b hb
    simp only [List.mem_singleton] at hb
    subst hb
    intro e; cases e
  · intro a ha b hb
    rcases List.mem_append.1 ha with ha | ha
    · exact hAP a ha b hb
    · simp only [List.mem_singleton] at ha
      subst ha
      intro hb2 hn; exact hP b hb hb2 hn

/-- a message is pushed into a registered target's channel -/
theorem TgtF.push {tg tg' : Target} (h : TgtF tg) (hreg : tg'.registered = true) (m : Msg)
    (h1 : tg'.assigned = tg.assigned) (h2 : tg'.nextProxyId = tg.nextProxyId)
    (h3 : tg'.sendChan = tg.sendChan ++ [m]) (h4 : tg'.handed = tg.handed ++ [m]) : TgtF tg' := by
  refine ⟨?_, ?_, ?_, ?_⟩
  · intro e; rw [hreg] at e; cases e
  · rw [h1, h2]; exact h.asg_le
  · rw [h3, h4]; intro m' hm'
    rcases List.mem_append.1 hm' with hm' | hm'
    · exact List.mem_append_left _ (h.chan_handed m' hm')
    · exact List.mem_append_right _ hm'
  · rw [h1, h4, tasksOf_append]; intro s id p hm
    exact List.mem_append_left _ (h.asg_handed s id p hm)

/-- the source record changed only in its `pc` -/
theorem SrcF.of_pc {M : Int} {x x' : Source} (h : SrcF M x) (h0 : x'.active = x.active)
    (h1 : x'.lastWatermark = x.lastWatermark) (h2 : x'.lastHigh = x.lastHigh)
    (h4 : x'.lastSentAck = x.lastSentAck) (h5 : x'.graveyard = x.graveyard)
    (hwp : ∀ hh, x.lastWatermark = some hh → ∀ t, ∀ y ∈ pendVals x'.pc t, hh ≤ y.1)
    (hb : ∀ high todo, x'.pc = .bcast high todo → high ≤ x.lastHigh) : SrcF M x' := by
  refine ⟨?_, ?_, ?_, ?_, ?_, ?_, ?_, h.m_nonneg⟩
  · rw [h1, h2]; exact h.wm_le
  · rw [h1]; exact hwp
  · rw [h2]; exact hb
  · rw [h2]; exact h.high_le
  · rw [h4]; exact h.last_le
  · rw [h4, h0]; exact h.last_active
  · rw [h5]; exact h.grave_le

/-! bcastStep -/

theorem step_invF_bcastStep {σ σ' : State} {γ : Ghost} (hI : InvF σ γ) (s : SId) (t : TId)
    (h : step Cfg.cur σ (.bcastStep s t) = some σ') : InvF σ' γ := by
  simp only [step] at h
  split at h
  · rename_i high todo hpc
    split at h
    · cases h
    · rename_i inc hinc
      have hS := hI.src s
      have hne : σ.src s ≠ {} := by intro e; rw [e] at hpc; cases hpc
      have hsl := src_lt_of_ne σ hne
      have hsrc' : SrcF (γ.maxHighOf s) { σ.src s with pc := if (todo.filter (fun p => p.1 != t)).isEmpty = true then RecvPc.idle else RecvPc.bcast high (todo.filter (fun p => p.1 != t)) } := by
        refine hS.of_pc rfl rfl rfl rfl rfl ?_ ?_
        · intro h' _ t' y hy
          have hy : y ∈ pendVals (if (todo.filter (fun p => p.1 != t)).isEmpty = true then RecvPc.idle else RecvPc.bcast high (todo.filter (fun p => p.1 != t))) t' := hy
          rw [pendVals_ite_bcast] at hy; cases hy
        · intro high' todo' e
          have e : (if (todo.filter (fun p => p.1 != t)).isEmpty = true then RecvPc.idle else RecvPc.bcast high (todo.filter (fun p => p.1 != t))) = RecvPc.bcast high' todo' := e
          split at e
          · cases e
          · cases e; exact hS.bcast_le _ _ hpc
      have hpair' : ∀ t', PairF (Need γ s t' (σ.src s)) (γ.maxHighOf s) s t' { σ.src s with pc := if (todo.filter (fun p => p.1 != t)).isEmpty = true then RecvPc.idle else RecvPc.bcast high (todo.filter (fun p => p.1 != t)) } (σ.tgt t') := by
        intro t'
        refine (hI.pair s t').of_flat_eq ?_ rfl rfl rfl rfl rfl rfl rfl rfl rfl rfl
        simp only [flat, pendVals_ite_bcast, hpc, pendVals_bcast]
      split at h
      · rename_i hg
        simp only [Bool.and_eq_true, beq_iff_eq] at hg
        simp only [Option.some.injEq] at h
        subst h
        have hT := hI.tgt t
        apply invF_setBoth hI s t _ _ hsl (tgt_registered_lt σ hg.1.1) hsrc'
        · exact hT.push hg.1.1 (.wm s high) rfl rfl rfl rfl
        · refine (hI.pair s t).of_flat ?_ ?_ ?_ rfl rfl rfl rfl rfl rfl rfl rfl rfl rfl
          · intro y hy
            simp only [flat, pendVals_ite_bcast, hpc, pendVals_bcast, chanVals_append, List.append_nil] at hy ⊢
            exact List.mem_append_left _ hy
          · have := (hI.pair s t).sorted
            simp only [flat, pendVals_ite_bcast, hpc, pendVals_bcast, chanVals_append, List.append_nil, msgVals_wm_self] at this ⊢
            have h2 := pairwise_insert_wmN (A := chanVals s (σ.tgt t).sendChan) (P := []) (h := high) (by simpa using this) (by intro y hy; cases hy)
            simpa using h2
          · intro y hy
            simp only [flat, pendVals_ite_bcast, chanVals_append, List.append_nil, msgVals_wm_self] at hy
            rcases List.mem_append.1 hy with hy | hy
            · apply (hI.pair s t).flat_le
              simp only [flat, hpc, pendVals_bcast, List.append_nil]; exact hy
            · simp only [List.mem_singleton] at hy
              subst hy; exact Int.le_trans (hS.bcast_le _ _ hpc) hS.high_le
        · intro t' _; exact hpair' t'
        · intro s' hne'
          refine (hI.pair s' t).of_flat_eq ?_ rfl rfl rfl rfl rfl rfl rfl rfl rfl rfl
          simp only [flat, chanVals_append, msgVals_wm_ne hne', List.append_nil]
      · simp only [Option.some.injEq] at h
        subst h
        exact invF_setSrc hI s _ hsrc' hpair'
  · cases h

/-! deliver -/

theorem step_invF_deliver {σ σ' : State} {γ : Ghost} (hI : InvF σ γ) (s : SId) (t : TId)
    (h : step Cfg.cur σ (.deliver s t) = some σ') : InvF σ' γ := by
  simp only [step] at h
  split at h
  · rename_i pending hpc
    split at h
    · cases h
    · rename_i ids hids
      split at h
      · cases h
      · rename_i hg
        simp only [Bool.not_eq_true', Bool.and_eq_false_iff, not_or, Bool.not_eq_false] at hg
        simp only [Option.some.injEq] at h
        subst h
        have hS := hI.src s
        have hT := hI.tgt t
        have hne : σ.src s ≠ {} := by intro e; rw [e] at hpc; cases hpc
        have hsl := src_lt_of_ne σ hne
        have hpv : ∀ t', pendVals (if (pending.filter (fun p => p.1 != t)).isEmpty = true then RecvPc.idle
            else RecvPc.deliver (pending.filter (fun p => p.1 != t))) t' =
            if t' = t then [] else pendVals (σ.src s).pc t' := by
          intro t'; rw [pendVals_ite_deliver, pendVals_filter, hpc]
        have hpvt : pendVals (σ.src s).pc t = ids.map (fun i => (i, true)) := by
          rw [hpc]; simp only [pendVals, hids, Option.getD_some]
        apply invF_setBoth hI s t _ _ hsl (tgt_registered_lt σ hg.1)
        · refine hS.of_pc rfl rfl rfl rfl rfl ?_ ?_
          · intro h' hw t' y hy
            have hy : y ∈ pendVals (if (pending.filter (fun p => p.1 != t)).isEmpty = true then RecvPc.idle
              else RecvPc.deliver (pending.filter (fun p => p.1 != t))) t' := hy
            rw [hpv] at hy
            split at hy
            · cases hy
            · exact hS.wm_pend h' hw t' y hy
          · intro high' todo' e
            have e : (if (pending.filter (fun p => p.1 != t)).isEmpty = true then RecvPc.idle
              else RecvPc.deliver (pending.filter (fun p => p.1 != t))) = RecvPc.bcast high' todo' := e
            split at e <;> cases e
        · exact hT.push hg.1 (.tasks s ids) rfl rfl rfl rfl
        · refine (hI.pair s t).of_flat_eq ?_ rfl rfl rfl rfl rfl rfl rfl rfl rfl rfl
          simp only [flat, hpv, if_true, chanVals_append, msgVals_tasks_self, hpvt, List.append_nil]
        · intro t' hne'
          refine (hI.pair s t').of_flat_eq ?_ rfl rfl rfl rfl rfl rfl rfl rfl rfl rfl
          simp only [flat, hpv, hne', if_false]
        · intro s' hne'
          refine (hI.pair s' t).of_flat_eq ?_ rfl rfl rfl rfl rfl rfl rfl rfl rfl rfl
          simp only [flat, chanVals_append, msgVals_tasks_ne hne', List.append_nil]
  · cases h

/-! replayStep -/

theorem mem_pendVals_snd {pc : RecvPc} {t : TId} {y : Int × Bool} (h : y ∈ pendVals pc t) : y.2 = true := by
  unfold pendVals at h
  split at h
  · simp only [List.mem_map] at h
    obtain ⟨i, _, e⟩ := h; rw [← e]
  · cases h

theorem step_invF_replayStep {σ σ' : State} {γ : Ghost} (hI : InvF σ γ) (t : TId) (s : SId)
    (h : step Cfg.cur σ (.replayStep t s) = some σ') : InvF σ' γ := by
  simp only [step] at h
  split at h
  · cases h
  · rename_i todo htodo
    have hT := hI.tgt t
    have hreg := hT.reg_of_replay htodo
    split at h
    · cases h
    · rename_i inc hinc
      split at h
      · rename_i wm hwm
        split at h
        · rename_i hg
          simp only [Option.some.injEq] at h
          subst h
          have hS := hI.src s
          -- the replayed watermark is the current one, or a dead incarnation's final one
          have hlw : (wm ≤ γ.maxHighOf s) ∧
              ∀ y ∈ pendVals (σ.src s).pc t, y.2 = true → Need γ s t (σ.src s) y.1 → wm ≤ y.1 := by
            split at hwm
            · exact ⟨Int.le_trans (hS.wm_le wm hwm) hS.high_le, fun y hy _ _ => hS.wm_pend wm hwm t y hy⟩
            · have hmem : (inc, some wm) ∈ (σ.src s).graveyard := by
                cases hag : aget (σ.src s).graveyard inc with
                | none => rw [hag] at hwm; cases hwm
                | some v =>
                  rw [hag] at hwm
                  simp only [Option.getD_some] at hwm
                  subst hwm; exact aget_some_mem hag
              exact ⟨hS.grave_le inc wm hmem, fun y _ _ hn => (hI.pair s t).grave_low inc wm hmem y.1 hn⟩
          apply invF_setTgt hI
          · exact hT.push hreg (.wm s wm) rfl rfl rfl rfl
          · intro s'
            by_cases hs : s' = s
            · subst hs
              refine (hI.pair s' t).of_flat ?_ ?_ ?_ rfl rfl rfl rfl rfl rfl rfl rfl rfl rfl
              · intro y hy
                simp only [flat, chanVals_append, msgVals_wm_self] at hy ⊢
                rcases List.mem_append.1 hy with hy | hy
                · exact List.mem_append_left _ (List.mem_append_left _ hy)
                · exact List.mem_append_right _ hy
              · have := (hI.pair s' t).sorted
                simp only [flat, chanVals_append, msgVals_wm_self] at this ⊢
                exact pairwise_insert_wmN this hlw.2
              · intro y hy
                simp only [flat, chanVals_append, msgVals_wm_self] at hy
                rcases List.mem_append.1 hy with hy | hy
                · rcases List.mem_append.1 hy with hy | hy
                  · exact (hI.pair s' t).flat_le y (List.mem_append_left _ hy)
                  · simp only [List.mem_singleton] at hy
                    subst hy; exact hlw.1
                · exact (hI.pair s' t).flat_le y (List.mem_append_right _ hy)
            · refine (hI.pair s' t).of_flat_eq ?_ rfl rfl rfl rfl rfl rfl rfl rfl rfl rfl
              simp only [flat, chanVals_append, msgVals_wm_ne hs, List.append_nil]
        · simp only [Option.some.injEq] at h
          subst h
          apply invF_setTgt hI
          · exact hT.of_reg hreg rfl rfl rfl rfl
          · intro s'; exact (hI.pair s' t).tgt_congr rfl rfl rfl rfl rfl rfl
      · simp only [Option.some.injEq] at h
        subst h
        apply invF_setTgt hI
        · exact hT.of_reg hreg rfl rfl rfl rfl
        · intro s'; exact (hI.pair s' t).tgt_congr rfl rfl rfl rfl rfl rfl

end S2S.Routing
