import S2S.Proofs.RoutingAcksFInv
/-!
C03's safety half WITH faults, part 3: runs.  `InvF` (C04 modulo the recorded findings) and `AF.HInv` hold in every state a
run with faults at any position reaches, under `EnvOKF`; the consequences for the acknowledgement history.
-/
namespace S2S.Routing

theorem AF.runAG_cons (c : Cfg) (σ : State) (α : AckGhost) (a : Act) (rest : List Act) :
    runAG c σ α (a :: rest) = runAG c ((step c σ a).getD σ) (α.next c σ a) rest := rfl

theorem AF.ghostRun_cons (c : Cfg) (σ : State) (γ : Ghost) (a : Act) (rest : List Act) :
    AF.ghostRun c σ γ (a :: rest) = AF.ghostRun c ((step c σ a).getD σ) (γ.next c σ a) rest := rfl

/-- both invariants along a run, with the three components (state, `Ghost`, `AckGhost`) threaded -/
theorem AF.run_inv {σ : State} {γ : Ghost} {α : AckGhost} (hI : InvF σ γ) (hH : AF.HInv σ γ α) (acts : List Act)
    (henv : EnvOKF Cfg.cur σ γ acts) :
    InvF (run Cfg.cur σ acts) (AF.ghostRun Cfg.cur σ γ acts) ∧
    AF.HInv (run Cfg.cur σ acts) (AF.ghostRun Cfg.cur σ γ acts) (runAG Cfg.cur σ α acts).2 := by
  induction acts generalizing σ γ α with
  | nil => exact ⟨hI, hH⟩
  | cons a rest ih =>
    unfold EnvOKF at henv
    obtain ⟨henva, henvr⟩ := henv
    rw [Late.run_cons, AF.ghostRun_cons, AF.runAG_cons]
    cases hstep : step Cfg.cur σ a with
    | none =>
      rw [hstep, ghost_next_none γ hstep] at henvr
      rw [ghost_next_none γ hstep, ackGhost_next_none α hstep]
      exact ih hI hH henvr
    | some σ' =>
      rw [hstep, ghost_next_of_step γ hstep] at henvr
      rw [ghost_next_of_step γ hstep, ackGhost_next_of_step α hstep]
      have hI' : InvF σ' (γ.upd σ a) := step_invF hI a henva hstep
      have hH' : AF.HInv σ' (γ.upd σ a) (α.upd σ a) := by
        refine AF.step_hinv hH hI' ?_ hstep
        cases a <;> first | exact henva | trivial
      exact ih hI' hH' henvr

/-- from the initial state -/
theorem AF.hinv_cur (ns nt : Nat) (acts : List Act) (henv : EnvOKF Cfg.cur (State.init ns nt) {} acts) :
    AF.HInv (run Cfg.cur (State.init ns nt) acts) (AF.ghostRun Cfg.cur (State.init ns nt) {} acts)
      (runAG Cfg.cur (State.init ns nt) {} acts).2 :=
  (AF.run_inv (invF_init ns nt) (AF.hinv_init ns nt) acts henv).2

theorem AF.firstInc_default : AF.FirstInc {} := ⟨Nat.zero_le _, fun _ => rfl⟩

/-- a source stream that is never broken is in its first incarnation (or was never opened) -/
theorem AF.run_firstInc (c : Cfg) (σ : State) (acts : List Act) (s : SId) (hF : AF.FirstInc (σ.src s))
    (hnb : NoSrcBreak s acts) : AF.FirstInc ((run c σ acts).src s) := by
  induction acts generalizing σ with
  | nil => exact hF
  | cons a rest ih =>
    have hnb' : NoSrcBreak s rest := fun b hb => hnb b (List.mem_cons_of_mem _ hb)
    rw [Late.run_cons]
    cases hstep : step c σ a with
    | none => exact ih σ hF hnb'
    | some σ' => exact ih σ' (AF.step_firstInc hstep hF (hnb a List.mem_cons_self)) hnb'

theorem AF.firstInc_cur (c : Cfg) (ns nt : Nat) (acts : List Act) (s : SId) (hnb : NoSrcBreak s acts) :
    AF.FirstInc ((run c (State.init ns nt) acts).src s) := by
  apply AF.run_firstInc c _ acts s _ hnb
  rw [src_init]; exact AF.firstInc_default

/-! ### consequences of `AF.Hist` -/

/-- the current incarnation's acknowledgements: at most one descent, none in the first incarnation; after the descent
    everything is bounded by `lastHigh` -/
theorem AF.Hist.one_descent {M : Int} {x : Source} {b : Nat} (h : AF.Hist M x b) :
    ∃ pre post, x.acksSent.drop b = pre ++ post ∧ pre.Pairwise (· ≤ ·) ∧ post.Pairwise (· ≤ ·) ∧
      (pre ≠ [] → x.active = true → ∀ v ∈ post, v ≤ x.lastHigh) ∧ (x.inc ≤ 1 → pre = []) := by
  obtain ⟨pre, post, h1, h2, h3, h4, h5⟩ := h.split
  refine ⟨pre, post, h1, h2, h3, fun hp hact v hv => ?_, h5⟩
  obtain ⟨g1, g2⟩ := h4 hact
  exact Int.le_trans (g1 v hv) (g2 hp).1

/-- first incarnation: the whole history is the current incarnation's, it is non-decreasing, and bounded by `lastHigh`
    while the stream is active -/
theorem AF.Hist.first_mono {M : Int} {x : Source} {b : Nat} (h : AF.Hist M x b) (hi : x.inc ≤ 1) :
    x.acksSent.drop b = x.acksSent ∧ x.acksSent.Pairwise (· ≤ ·) ∧
      (x.active = true → ∀ v ∈ x.acksSent, v ≤ x.lastHigh) := by
  obtain ⟨pre, post, h1, _, h3, h4, h5⟩ := h.split
  have hb : b = 0 := (h.first hi).1
  have hp : pre = [] := h5 hi
  subst hb; subst hp
  simp only [List.drop_zero, List.nil_append] at h1
  refine ⟨rfl, by rw [h1]; exact h3, fun hact v hv => ?_⟩
  rw [h1] at hv
  exact Int.le_trans ((h4 hact).1 v hv) ((h.first hi).2 hact).2

/-- a stream that was never opened has sent nothing -/
theorem AF.Hist.acks_nil_of_inactive {M : Int} {x : Source} {b : Nat} (h : AF.Hist M x b) (hF : AF.FirstInc x)
    (hact : x.active = false) : x.acksSent = [] := (h.zero (hF.2 hact)).2.2

end S2S.Routing
