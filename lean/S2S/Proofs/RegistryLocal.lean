import S2S.Proofs.RegistryChan
/-!
C08: the local shard table (`localShards`, identity = registration time) — an entry always belongs to a sender
between `addLocalShard` and its `UnregisterShard` (every interleaving), and under `StampsOK` (distinct stamps)
registrations of one shard can be told apart, so `UnregisterShard` deletes only its own entry.
-/
namespace S2S.Registry

set_option linter.unusedSimpArgs false
set_option linter.unusedVariables false

def InvLocal (σ : State) : Prop :=
  ∀ c t st, aget σ.localShards c = some (t, st) →
    t < σ.next ∧ (σ.inc t).shard = c ∧ (σ.inc t).stamp = st ∧ (σ.inc t).spc.holdsLocal = true

/-- registrations of one shard carry different stamps -/
def InvStamp (σ : State) : Prop :=
  ∀ i j, i < σ.next → j < σ.next → i ≠ j → (σ.inc i).shard = (σ.inc j).shard →
    (σ.inc i).spc.stamped = true → (σ.inc j).spc.stamped = true → (σ.inc i).stamp ≠ (σ.inc j).stamp

set_option maxHeartbeats 2000000 in
theorem invLocal_step {c σ a σ'} (h : step c σ a = some σ') (B : InvBound σ) (I : InvLocal σ) : InvLocal σ' := by
  cases a with
  | «open» sh srv =>
    step_inv h
    intro c' t st ht
    simp at ht ⊢
    obtain ⟨h1, h2, h3, h4⟩ := I c' t st ht
    have : ¬ σ.next = t := by omega
    simp [this, h2, h3, h4]; omega
  | sAdd i =>
    step_inv h
    intro c' t st ht
    simp [aget_aset] at ht ⊢
    split at ht
    · cases ht
      have := lt_next_of_spc (i := i) B (by simp_all)
      simp_all
    · obtain ⟨h1, h2, h3, h4⟩ := I c' t st ht
      refine ⟨h1, ?_, ?_, ?_⟩ <;> crush
  | sUnregCheck i =>
    step_inv h
    all_goals (intro c' t st ht)
    all_goals (simp [aget_adel] at ht ⊢)
    · obtain ⟨h1, h2, h3, h4⟩ := I c' t st ht.2
      refine ⟨h1, ?_, ?_, ?_⟩ <;> crush
    · obtain ⟨h1, h2, h3, h4⟩ := I c' t st ht
      refine ⟨h1, ?_, ?_, ?_⟩ <;> crush
    · obtain ⟨h1, h2, h3, h4⟩ := I c' t st ht
      refine ⟨h1, ?_, ?_, ?_⟩ <;> crush
  | sUnregAgain i =>
    step_inv h
    all_goals (intro c' t st ht)
    all_goals (simp [aget_adel] at ht ⊢)
    · obtain ⟨h1, h2, h3, h4⟩ := I c' t st ht.2
      refine ⟨h1, ?_, ?_, ?_⟩ <;> crush
    · obtain ⟨h1, h2, h3, h4⟩ := I c' t st ht
      refine ⟨h1, ?_, ?_, ?_⟩ <;> crush
  | _ =>
    step_inv h
    all_goals (intro c' t st ht)
    all_goals (try simp at ht ⊢)
    all_goals (first | exact I c' t st ht | (obtain ⟨h1, h2, h3, h4⟩ := I c' t st ht; refine ⟨by omega, ?_, ?_, ?_⟩ <;> crush))

set_option maxHeartbeats 2000000 in
theorem invStamp_step {c σ a σ'} (h : step c σ a = some σ') (H : StampsOK σ a) (B : InvBound σ) (I : InvStamp σ) : InvStamp σ' := by
  cases a with
  | «open» sh srv =>
    step_inv h
    intro i j hi hj hij hs h1 h2
    simp at hi hj hs h1 h2 ⊢
    by_cases e1 : σ.next = i
    · simp [e1] at h1
    · by_cases e2 : σ.next = j
      · simp [e2] at h2
      · simp [e1, e2] at hs h1 h2 ⊢
        exact I i j (by omega) (by omega) hij hs h1 h2
  | sAdd k =>
    step_inv h
    intro i j hi hj hij hs h1 h2
    simp at hi hj hs h1 h2 ⊢
    by_cases e1 : k = i
    · subst e1
      have e2 : ¬ k = j := hij
      simp [e2] at hs h2 ⊢
      have := H j hj (fun e => e2 e.symm) hs.symm
      simp [h2] at this
      exact fun e => this e.symm
    · by_cases e2 : k = j
      · subst e2
        simp [e1] at hs h1 ⊢
        have := H i hi (fun e => e1 e.symm) hs
        simp [h1] at this
        exact this
      · simp [e1, e2] at hs h1 h2 ⊢
        exact I i j hi hj hij hs h1 h2
  | _ =>
    step_inv h
    all_goals (intro i j hi hj hij hs h1 h2)
    all_goals (try simp at hi hj hs h1 h2 ⊢)
    all_goals (first | exact I i j hi hj hij hs h1 h2 | (have hI := I i j hi hj hij; revert hs h1 h2; crush))

end S2S.Registry
