import S2S.Proofs.RingBasic
/-!
The simulation between the ring and the history-defined reference `Ref`.
-/
namespace S2S.Ring

/-- non-hole entries of a logical content list, tagged with ids `s, s+1, …` -/
def pairsOf : Int → List Entry → List (Int × Entry)
  | _, [] => []
  | s, e :: es => (if e.isHole then [] else [(s, e)]) ++ pairsOf (s + 1) es

@[simp] theorem pairsOf_nil (s : Int) : pairsOf s [] = [] := rfl

theorem pairsOf_cons (s : Int) (e : Entry) (es : List Entry) :
    pairsOf s (e :: es) = (if e.isHole then [] else [(s, e)]) ++ pairsOf (s + 1) es := rfl

theorem pairsOf_append (s : Int) (xs ys : List Entry) :
    pairsOf s (xs ++ ys) = pairsOf s xs ++ pairsOf (s + (xs.length : Int)) ys := by
  induction xs generalizing s with
  | nil => simp
  | cons e es ih =>
    rw [List.cons_append, pairsOf_cons, pairsOf_cons, ih, List.append_assoc]
    have : s + 1 + (es.length : Int) = s + ((e :: es).length : Int) := by
      simp only [List.length_cons]; omega
    rw [this]

theorem pairsOf_replicate_hole (s : Int) (n : Nat) : pairsOf s (List.replicate n hole) = [] := by
  induction n generalizing s with
  | zero => rfl
  | succ n ih =>
    rw [List.replicate_succ, pairsOf_cons, ih]
    rfl

theorem pairsOf_mem_bounds {s : Int} {xs : List Entry} {x : Int × Entry} (h : x ∈ pairsOf s xs) :
    s ≤ x.1 ∧ x.1 < s + (xs.length : Int) := by
  induction xs generalizing s with
  | nil => simp at h
  | cons e es ih =>
    rw [pairsOf_cons, List.mem_append] at h
    simp only [List.length_cons]
    rcases h with h | h
    · split at h
      · simp at h
      · simp only [List.mem_singleton] at h
        subst h
        simp only
        omega
    · have := ih h
      omega

theorem pairs_eq_pairsOf (b : Buf) : b.pairs = pairsOf b.start b.items := by
  unfold Buf.pairs Buf.items
  generalize b.size = n
  induction n with
  | zero => rfl
  | succ n ih =>
    rw [List.range_succ, List.filterMap_append, List.map_append, pairsOf_append, ih]
    simp only [List.filterMap_cons, List.filterMap_nil, List.map_cons, List.map_nil,
      List.length_map, List.length_range, pairsOf_cons, pairsOf_nil, List.append_nil]
    split <;> simp_all

/-- discarding the first `c` slots = filtering the outstanding pairs by id -/
theorem pairsOf_drop (s : Int) (xs : List Entry) (c : Nat) :
    pairsOf (s + (c : Int)) (xs.drop c) =
      (pairsOf s xs).filter (fun x => decide (s + (c : Int) ≤ x.1)) := by
  induction xs generalizing s c with
  | nil => simp
  | cons e es ih =>
    cases c with
    | zero =>
      simp only [List.drop_zero, Int.natCast_zero, Int.add_zero]
      symm
      rw [List.filter_eq_self]
      intro x hx
      have := (pairsOf_mem_bounds hx).1
      simpa using this
    | succ c =>
      rw [List.drop_succ_cons, pairsOf_cons, List.filter_append]
      have h1 : s + ((c + 1 : Nat) : Int) = (s + 1) + (c : Int) := by omega
      rw [h1, ih]
      have h2 : (if e.isHole then [] else [(s, e)]).filter
          (fun x : Int × Entry => decide (s + 1 + (c : Int) ≤ x.1)) = [] := by
        split
        · rfl
        · rw [List.filter_cons_of_neg]
          · rfl
          · simp only [decide_eq_true_eq]; omega
      rw [h2, List.nil_append]

/-- the simulation relation -/
structure Rel (b : Buf) (r : Ref) : Prop where
  wf : b.WF
  start : b.start = r.lo
  size : (b.size : Int) = r.hi - r.lo
  out : pairsOf b.start b.items = r.out

theorem rel_new (c : Int) : Rel (new c) {} :=
  ⟨new_wf c, rfl, rfl, by simp⟩

theorem rel_append {b : Buf} {r : Ref} (h : Rel b r) (p : Int) (e : Entry)
    (hp : r.hi = r.lo ∨ r.hi ≤ p) (he : e.isHole = false) :
    Rel (b.append true p e) (r.step (.append p e)) := by
  obtain ⟨hwf, hst, hsz, hout⟩ := h
  obtain ⟨hwf', hit', hst'⟩ := append_spec hwf p e
  have hsz' : (b.append true p e).size = (b.append true p e).items.length := (items_length _).symm
  by_cases h0 : b.size = 0
  · rw [if_pos h0] at hit' hst'
    have hhl : r.hi = r.lo := by omega
    have hnil : r.out = [] := by
      rw [← hout, (size_eq_zero_iff_items b).1 h0]; rfl
    refine ⟨hwf', ?_, ?_, ?_⟩
    · rw [hst']; simp [Ref.step, hhl]
    · rw [hsz', hit']; simp only [Ref.step, hhl, if_true, List.length_cons, List.length_nil]; omega
    · rw [hit', hst', pairsOf_cons, he]
      simp [Ref.step, hnil]
  · rw [if_neg h0] at hit' hst'
    have hhl : ¬ r.hi = r.lo := by omega
    have hle : r.hi ≤ p := by omega
    refine ⟨hwf', ?_, ?_, ?_⟩
    · rw [hst']; simp [Ref.step, hhl, hst]
    · rw [hsz', hit']
      simp only [List.length_append, List.length_replicate, items_length, List.length_cons,
        List.length_nil, Ref.step, if_neg hhl]
      omega
    · rw [hit', hst', pairsOf_append, pairsOf_append, pairsOf_replicate_hole, hout, pairsOf_cons, he]
      simp only [List.append_nil, List.length_append, List.length_replicate, items_length,
        Ref.step]
      have : b.start + ((b.size + (p - (b.start + (b.size : Int))).toNat : Nat) : Int) = p := by
        omega
      rw [this]
      rfl

theorem rel_discard {b : Buf} {r : Ref} (h : Rel b r) (n : Int) :
    Rel (b.discard n) (r.step (.discard n)) := by
  obtain ⟨hwf, hst, hsz, hout⟩ := h
  obtain ⟨hwf', hit', hst', hsz'⟩ := discard_spec hwf n
  by_cases hn : n ≤ 0
  · simp only [if_pos hn, List.drop_zero, Int.natCast_zero, Int.add_zero, Nat.sub_zero] at hit' hst' hsz'
    simp only [Ref.step, if_pos hn]
    exact ⟨hwf', by rw [hst', hst], by rw [hsz', hsz], by rw [hst', hit', hout]⟩
  · simp only [if_neg hn] at hit' hst' hsz'
    simp only [Ref.step, if_neg hn]
    have hc : ((min n.toNat b.size : Nat) : Int) = (if n > r.hi - r.lo then r.hi - r.lo else n) := by
      split <;> omega
    refine ⟨hwf', ?_, ?_, ?_⟩
    · rw [hst', hst, hc]
    · rw [hsz']
      show ((b.size - min n.toNat b.size : Nat) : Int) = r.hi - (r.lo + _)
      rw [← hc]; omega
    · rw [hst', hit', pairsOf_drop, hout, hst, hc]

theorem rel_step {b : Buf} {r : Ref} (h : Rel b r) : ∀ (ops : List Op), Good r ops →
    Rel (b.run true ops) (ops.foldl Ref.step r) := by
  intro ops
  induction ops generalizing b r with
  | nil => intro _; exact h
  | cons op rest ih =>
    intro hg
    cases op with
    | append p e =>
      have hg' : (r.hi = r.lo ∨ r.hi ≤ p) ∧ e.isHole = false ∧ Good (r.step (.append p e)) rest := hg
      exact ih (rel_append h p e hg'.1 hg'.2.1) hg'.2.2
    | aggregate w =>
      have hg' : Good (r.step (.aggregate w)) rest := hg
      exact ih (b := b) (r := r.step (.aggregate w)) h hg'
    | discard n =>
      have hg' : Good (r.step (.discard n)) rest := hg
      exact ih (rel_discard h n) hg'

theorem rel_run (c : Int) (ops : List Op) (hg : Good {} ops) :
    Rel ((new c).run true ops) (Ref.run ops) :=
  rel_step (rel_new c) ops hg

/-- `WF` is preserved by every op, with no hypothesis on the history -/
theorem step_wf {b : Buf} (h : b.WF) (op : Op) : (b.step true op).WF := by
  cases op with
  | append p e => exact (append_spec h p e).1
  | aggregate w => exact h
  | discard n => exact (discard_spec h n).1

theorem run_wf_gen (ops : List Op) : ∀ {b : Buf}, b.WF → (b.run true ops).WF := by
  induction ops with
  | nil => intro b h; exact h
  | cons op rest ih => intro b h; exact ih (step_wf h op)

end S2S.Ring
