import S2S.Proofs.RoutingFaultBasic
/-! Invariant preservation (with faults): the actions that touch one record in a simple way. -/
namespace S2S.Routing

/-- a registered target: the `unreg` clause is vacuous -/
theorem TgtF.of_reg {tg tg' : Target} (h : TgtF tg) (hreg : tg'.registered = true)
    (h1 : tg'.assigned = tg.assigned) (h2 : tg'.nextProxyId = tg.nextProxyId)
    (h3 : tg'.sendChan = tg.sendChan) (h4 : tg'.handed = tg.handed) : TgtF tg' := by
  refine ⟨?_, ?_, ?_, ?_⟩
  · intro e; rw [hreg] at e; cases e
  · rw [h1, h2]; exact h.asg_le
  · rw [h3, h4]; exact h.chan_handed
  · rw [h1, h4]; exact h.asg_handed

theorem TgtF.reg_of_holding {tg : Target} (h : TgtF tg) {e : Emitted} (he : tg.holding = some e) :
    tg.registered = true := by
  cases hr : tg.registered with
  | true => rfl
  | false => have := h.unreg hr; rw [this] at he; cases he

theorem TgtF.reg_of_started {tg : Target} (h : TgtF tg) (he : tg.started = true) :
    tg.registered = true := by
  cases hr : tg.registered with
  | true => rfl
  | false => have := h.unreg hr; rw [this] at he; cases he

theorem TgtF.reg_of_replay {tg : Target} (h : TgtF tg) {l : List (SId × Nat)} (he : tg.replayTodo = some l) :
    tg.registered = true := by
  cases hr : tg.registered with
  | true => rfl
  | false => have := h.unreg hr; rw [this] at he; cases he

theorem TgtF.reg_of_fwd {tg : Target} (h : TgtF tg) {todo : List (SId × Int)} {d : Nat} {r : Bool}
    (he : tg.ackPc = .forwarding todo d r) : tg.registered = true := by
  cases hr : tg.registered with
  | true => rfl
  | false => have := h.unreg hr; rw [this] at he; cases he

theorem step_invF_emit {σ σ' : State} {γ : Ghost} (hI : InvF σ γ) (t : TId)
    (h : step Cfg.cur σ (.emit t) = some σ') : InvF σ' γ := by
  simp only [step] at h
  split at h
  · cases h
  · rename_i e he
    simp only [Option.some.injEq] at h
    subst h
    apply invF_setTgt hI
    · exact (hI.tgt t).of_reg ((hI.tgt t).reg_of_holding he) rfl rfl rfl rfl
    · intro s; exact (hI.pair s t).tgt_congr rfl rfl rfl rfl rfl rfl

theorem step_invF_startTgt {σ σ' : State} {γ : Ghost} (hI : InvF σ γ) (t : TId)
    (h : step Cfg.cur σ (.startTgt t) = some σ') : InvF σ' γ := by
  simp only [step] at h
  split at h
  · cases h
  · rename_i hg
    simp only [Option.some.injEq] at h
    subst h
    simp only [Bool.or_eq_true, Bool.not_eq_true', not_or, Bool.not_eq_false] at hg
    apply invF_setTgt hI
    · exact (hI.tgt t).of_reg hg.1.1 rfl rfl rfl rfl
    · intro s; exact (hI.pair s t).tgt_congr rfl rfl rfl rfl rfl rfl

theorem step_invF_replayDone {σ σ' : State} {γ : Ghost} (hI : InvF σ γ) (t : TId)
    (h : step Cfg.cur σ (.replayDone t) = some σ') : InvF σ' γ := by
  simp only [step] at h
  split at h
  · rename_i he
    simp only [Option.some.injEq] at h
    subst h
    apply invF_setTgt hI
    · exact (hI.tgt t).of_reg ((hI.tgt t).reg_of_replay he) rfl rfl rfl rfl
    · intro s; exact (hI.pair s t).tgt_congr rfl rfl rfl rfl rfl rfl
  · cases h

theorem step_invF_ackFin {σ σ' : State} {γ : Ghost} (hI : InvF σ γ) (t : TId)
    (h : step Cfg.cur σ (.ackFin t) = some σ') : InvF σ' γ := by
  simp only [step] at h
  split at h
  · rename_i d r he
    simp only [Option.some.injEq] at h
    subst h
    apply invF_setTgt hI
    · exact (hI.tgt t).of_reg ((hI.tgt t).reg_of_fwd he) rfl rfl rfl rfl
    · intro s
      have h := hI.pair s t
      refine ⟨h.cover, h.sorted, h.flat_le, ?_, ?_, ?_, h.prev_safe, h.chan_safe,
        h.abt_safe, h.last_safe, h.seeded, h.cur_lt, h.grave_low⟩
      · intro p o hm
        exact h.ring_ok p o (List.mem_of_mem_drop hm)
      · intro p o hm
        exact h.ring_le p o (List.mem_of_mem_drop hm)
      · intro todo d' r' e; cases e
  · cases h

/-! tick -/

theorem pairF_tick {N : Int → Prop} {M : Int} {s : SId} {t : TId} {x : Source} {tg : Target}
    (h : PairF N M s t x tg) : PairF N M s t (tickSrc x) (tickTgt tg) := by
  have h1 : PairF N M s t x (tickTgt tg) := by
    unfold tickTgt; split
    · exact h.tgt_congr rfl rfl rfl rfl rfl rfl
    · exact h
  unfold tickSrc
  split
  · split
    · exact h1.of_flat_eq rfl rfl rfl rfl rfl rfl rfl rfl rfl rfl rfl
    · exact h1
  · exact h1

theorem srcF_tick {M : Int} {x : Source} (h : SrcF M x) : SrcF M (tickSrc x) := by
  unfold tickSrc
  split
  · split
    · exact ⟨h.wm_le, h.wm_pend, h.bcast_le, h.high_le, h.last_le, h.last_active, h.grave_le, h.m_nonneg⟩
    · exact h
  · exact h

theorem tgtF_tick {tg : Target} (h : TgtF tg) : TgtF (tickTgt tg) := by
  unfold tickTgt
  split
  · rename_i hg
    simp only [Bool.and_eq_true, decide_eq_true_eq] at hg
    exact h.of_reg (h.reg_of_started hg.1.1) rfl rfl rfl rfl
  · exact h

theorem tickSrc_received (x : Source) : (tickSrc x).received = x.received := by
  unfold tickSrc; split
  · split <;> rfl
  · rfl

theorem tickSrc_active (x : Source) : (tickSrc x).active = x.active := by
  unfold tickSrc; split
  · split <;> rfl
  · rfl

theorem need_tick {γ : Ghost} {s : SId} {t : TId} {x : Source} {id : Int} (h : Need γ s t (tickSrc x) id) :
    Need γ s t x id :=
  h.of_eq (tickSrc_received x) (by unfold ebase; rw [tickSrc_active, tickSrc_received]) rfl

theorem step_invF_tick {σ σ' : State} {γ : Ghost} (hI : InvF σ γ)
    (h : step Cfg.cur σ .tick = some σ') : InvF σ' γ := by
  rw [step_tick] at h
  simp only [Option.some.injEq] at h
  subst h
  refine ⟨?_, ?_, ?_⟩
  · intro s; rw [tick_src]; exact srcF_tick (hI.src s)
  · intro t; rw [tick_tgt]; exact tgtF_tick (hI.tgt t)
  · intro s t; rw [tick_src, tick_tgt]
    exact (pairF_tick (hI.pair s t)).mono (fun id hn => need_tick hn) (Int.le_refl _)

end S2S.Routing
