import S2S.Model.Utf8
/-! Facts about `runeLen` (Go's `DecodeRuneInString` reduced to widths). Core Lean only. -/
namespace S2S.Utf8

theorem runeLen_nil : runeLen [] = 0 := rfl

/-- the decoded width never exceeds the input -/
theorem runeLen_le_length (s : Bytes) : runeLen s ≤ s.length := by
  unfold runeLen
  split
  · simp
  · split <;> (try split) <;> (try split) <;> simp <;> omega

theorem runeLen_le_four (s : Bytes) : runeLen s ≤ 4 := by
  unfold runeLen
  split
  · simp
  · split <;> (try split) <;> (try split) <;> simp

/-- a well-formed head stays the same rune when more bytes follow -/
theorem runeLen_append (s t : Bytes) (h : 0 < runeLen s) : runeLen (s ++ t) = runeLen s := by
  cases s with
  | nil => simp [runeLen] at h
  | cons b0 rest =>
    simp only [List.cons_append]
    unfold runeLen at h ⊢
    simp only at h ⊢
    split at h
    · simp_all
    · skip
      cases rest with
      | nil => simp at h
      | cons b1 r => simp_all
    · skip
      match rest, h with
      | b1 :: b2 :: r, h => simp_all
    · skip
      match rest, h with
      | b1 :: b2 :: b3 :: r, h => simp_all
    · simp at h


/-- a well-formed head is a prefix `r` of the input that decodes to itself in every context -/
theorem runeLen_split (s : Bytes) (h : 0 < runeLen s) :
    ∃ r t, s = r ++ t ∧ r.length = runeLen s ∧ ∀ t', runeLen (r ++ t') = runeLen s := by
  cases s with
  | nil => simp [runeLen] at h
  | cons b0 rest =>
    unfold runeLen at h ⊢
    simp only at h ⊢
    split at h
    · rename_i heq
      refine ⟨[b0], rest, rfl, rfl, fun t' => ?_⟩
      simp [heq]
    · rename_i _ lo hi heq
      cases rest with
      | nil => simp at h
      | cons b1 r =>
        simp only at h
        by_cases hc : inRange lo hi b1 = true
        · refine ⟨[b0, b1], r, rfl, ?_, fun t' => ?_⟩ <;> simp [heq, hc]
        · simp [hc] at h
    · rename_i _ lo hi heq
      match rest, h with
      | b1 :: b2 :: r, h =>
        simp only at h
        by_cases hc : (inRange lo hi b1 && isCont b2) = true
        · refine ⟨[b0, b1, b2], r, rfl, ?_, fun t' => ?_⟩ <;> simp [heq, hc]
        · simp [hc] at h
    · rename_i _ lo hi heq
      match rest, h with
      | b1 :: b2 :: b3 :: r, h =>
        simp only at h
        by_cases hc : (inRange lo hi b1 && isCont b2 && isCont b3) = true
        · refine ⟨[b0, b1, b2, b3], r, rfl, ?_, fun t' => ?_⟩ <;> simp [heq, hc]
        · simp [hc] at h
    · simp at h

theorem runeLen_take_append (s t : Bytes) (h : 0 < runeLen s) :
    runeLen (s.take (runeLen s) ++ t) = runeLen s := by
  obtain ⟨r, u, hs, hl, hr⟩ := runeLen_split s h
  have : s.take (runeLen s) = r := by
    rw [← hl]; conv => lhs; rw [hs]
    simp
  rw [this]; exact hr t

theorem runeLen_pos_ne_nil {s : Bytes} (h : 0 < runeLen s) : s ≠ [] := by
  intro e; subst e; simp [runeLen] at h

/-- the replacement string is a well-formed 3-byte rune in every context -/
theorem runeLen_repl_append (t : Bytes) : runeLen (repl ++ t) = 3 := by
  simp [repl, runeLen, first, inRange, isCont]

/-- an ASCII byte is a rune of width 1 -/
theorem runeLen_ascii (b : UInt8) (t : Bytes) (h : b.toNat < 0x80) : runeLen (b :: t) = 1 := by
  simp [runeLen, first, h]

end S2S.Utf8
