import S2S.Spec.Forwarder
/-!
Inversion lemmas for `S2S.Forwarder.step` (one per action: what must hold for the action to be
enabled and what the successor state is), and basic facts about `run`, `firstEnabled`, `settle`.
-/
namespace S2S.Forwarder

/-! ### `run` -/

theorem run_nil (σ : State) : run σ [] = σ := rfl

theorem run_cons (σ : State) (a : Act) (r : List Act) : run σ (a :: r) = run ((step σ a).getD σ) r := rfl

theorem run_append (σ : State) (l₁ l₂ : List Act) : run σ (l₁ ++ l₂) = run (run σ l₁) l₂ := by
  unfold run; rw [List.foldl_append]

theorem run_snoc (σ : State) (l : List Act) (a : Act) : run σ (l ++ [a]) = (step (run σ l) a).getD (run σ l) := by
  rw [run_append]; rfl

/-- induction principle: a predicate true initially and preserved by every enabled action holds after every run -/
theorem run_induct {P : State → Prop} {σ : State} (h0 : P σ)
    (hstep : ∀ σ σ' a, P σ → step σ a = some σ' → P σ') (acts : List Act) : P (run σ acts) := by
  induction acts generalizing σ with
  | nil => exact h0
  | cons a r ih =>
    rw [run_cons]
    apply ih
    cases hs : step σ a with
    | none => exact h0
    | some σ' => exact hstep σ σ' a h0 hs

/-! ### inversion of `step` -/

theorem step_push {σ σ' : State} {d : D} {v : Ev} (h : step σ (.push d v) = some σ') :
    σ' = σ.setDir d { σ.dir d with queue := (σ.dir d).queue ++ [v], sent := (σ.dir d).sent ++ v.ids } := by
  simp only [step, Option.some.injEq] at h; exact h.symm

theorem step_sendFail {σ σ' : State} {d : D} (h : step σ (.sendFail d) = some σ') :
    σ' = σ.setDir d { σ.dir d with sendFails := true } := by
  simp only [step, Option.some.injEq] at h; exact h.symm

theorem step_stall {σ σ' : State} {d : D} (h : step σ (.stall d) = some σ') :
    σ' = σ.setDir d { σ.dir d with stalled := true } := by
  simp only [step, Option.some.injEq] at h; exact h.symm

theorem step_unstall {σ σ' : State} {d : D} (h : step σ (.unstall d) = some σ') :
    σ' = σ.setDir d { σ.dir d with stalled := false } := by
  simp only [step, Option.some.injEq] at h; exact h.symm

theorem step_iniCancel {σ σ' : State} (h : step σ .iniCancel = some σ') : σ' = { σ with srvCtx := true } := by
  simp only [step, Option.some.injEq] at h; exact h.symm

theorem step_shutdown {σ σ' : State} (h : step σ .shutdown = some σ') :
    σ' = { σ with connClosed := σ.connClosed || σ.env.shutdownClosesConn } := by
  simp only [step, Option.some.injEq] at h; exact h.symm

theorem step_tick {σ σ' : State} (h : step σ .tick = some σ') :
    σ.i.loop = .guard ∧ σ.cs = .calling ∧ σ.env.closeSendHangs = true ∧ (σ.outCtx || σ.srvCtx) = false ∧
    σ' = { σ with i := { σ.i with loop := .done } } := by
  simp only [step] at h
  split at h
  · rename_i hc
    simp only [Option.some.injEq] at h
    exact ⟨hc.1, hc.2.1, hc.2.2.1, hc.2.2.2, h.symm⟩
  · cases h

theorem step_lCheck {σ σ' : State} {d : D} (h : step σ (.lCheck d) = some σ') :
    (σ.dir d).lis = .top ∧ σ' = σ.setDir d { σ.dir d with lis := if σ.latch then .exited else .inRecv } := by
  simp only [step] at h
  split at h
  · rename_i hc
    simp only [Option.some.injEq] at h
    exact ⟨hc, h.symm⟩
  · cases h

theorem step_lRecv {σ σ' : State} {d : D} (h : step σ (.lRecv d) = some σ') :
    (σ.dir d).lis = .inRecv ∧ ∃ v q, recvResult σ d = some (v, q) ∧
      σ' = σ.setDir d { σ.dir d with lis := .has v, queue := q, delivered := (σ.dir d).delivered ++ v.ids } := by
  simp only [step] at h
  split at h
  · rename_i hc
    split at h
    · cases h
    · rename_i v q hr
      simp only [Option.some.injEq] at h
      exact ⟨hc, v, q, hr, h.symm⟩
  · cases h

theorem step_lHand {σ σ' : State} {d : D} (h : step σ (.lHand d) = some σ') :
    ∃ v, (σ.dir d).lis = .has v ∧ (σ.dir d).loop = .waiting ∧
      σ' = σ.setDir d { σ.dir d with lis := .top, loop := .holding v } := by
  simp only [step] at h
  split at h
  · rename_i v h1 h2
    simp only [Option.some.injEq] at h
    exact ⟨v, h1, h2, h.symm⟩
  · cases h

theorem step_lQuit {σ σ' : State} {d : D} (h : step σ (.lQuit d) = some σ') :
    ∃ v, (σ.dir d).lis = .has v ∧ σ.latch = true ∧ σ' = σ.setDir d { σ.dir d with lis := .exited } := by
  simp only [step] at h
  split at h
  · rename_i v h1
    split at h
    · rename_i hl
      simp only [Option.some.injEq] at h
      exact ⟨v, h1, hl, h.symm⟩
    · cases h
  · cases h

theorem step_rLatch {σ σ' : State} {d : D} (h : step σ (.rLatch d) = some σ') :
    (σ.dir d).loop = .waiting ∧ σ.latch = true ∧ σ' = σ.setDir d { σ.dir d with loop := .finished } := by
  simp only [step] at h
  split at h
  · rename_i hc
    simp only [Option.some.injEq] at h
    exact ⟨hc.1, hc.2, h.symm⟩
  · cases h

theorem step_rClosed {σ σ' : State} {d : D} (h : step σ (.rClosed d) = some σ') :
    (σ.dir d).loop = .waiting ∧ (σ.dir d).lis = .exited ∧ σ' = σ.setDir d { σ.dir d with loop := .finished } := by
  simp only [step] at h
  split at h
  · rename_i hc
    simp only [Option.some.injEq] at h
    exact ⟨hc.1, hc.2, h.symm⟩
  · cases h

/-- `rProc`: either a message is sent on (loop keeps running), or the loop stops -/
theorem step_rProc {σ σ' : State} {d : D} (h : step σ (.rProc d) = some σ') :
    (∃ i, (σ.dir d).loop = .holding (.data i) ∧ sendOk σ d = true ∧
        σ' = σ.setDir d { σ.dir d with loop := .waiting, out := (σ.dir d).out ++ [i] }) ∨
    (∃ v, (σ.dir d).loop = .holding v ∧ (v.isData = false ∨ sendOk σ d = false) ∧
        σ' = σ.setDir d { σ.dir d with loop := .finished }) := by
  simp only [step] at h
  split at h
  · rename_i i hl
    split at h
    · rename_i hok
      split at h
      · cases h
      · simp only [Option.some.injEq] at h
        exact Or.inl ⟨i, hl, hok, h.symm⟩
    · rename_i hok
      simp only [Option.some.injEq] at h
      exact Or.inr ⟨_, hl, Or.inr (by simpa using hok), h.symm⟩
  · rename_i v hnd hl
    simp only [Option.some.injEq] at h
    refine Or.inr ⟨v, hl, Or.inl ?_, h.symm⟩
    cases v with
    | data i => exact absurd rfl (hnd i)
    | _ => rfl
  · cases h

theorem step_rDefer_s {σ σ' : State} (h : step σ (.rDefer .s) = some σ') :
    σ.s.loop = .finished ∧ σ' = { σ with latch := true, s := { σ.s with loop := .done } } := by
  simp only [step] at h
  split at h
  · rename_i hc
    simp only [Option.some.injEq] at h
    exact ⟨hc, h.symm⟩
  · cases h

theorem step_rDefer_i {σ σ' : State} (h : step σ (.rDefer .i) = some σ') :
    σ.i.loop = .finished ∧ σ' = { σ with latch := true, i := { σ.i with loop := .guard }, cs := .calling } := by
  simp only [step] at h
  split at h
  · rename_i hc
    simp only [Option.some.injEq] at h
    exact ⟨hc, h.symm⟩
  · cases h

/-- the source's queue after the half-close reached it -/
def halfClosed (σ : State) : Dir :=
  if σ.env.answersCloseSend && !σ.s.queue.any Ev.sticky then { σ.s with queue := σ.s.queue ++ [.eof] } else σ.s

@[simp] theorem halfClosed_lis (σ : State) : (halfClosed σ).lis = σ.s.lis := by unfold halfClosed; split <;> rfl
@[simp] theorem halfClosed_loop (σ : State) : (halfClosed σ).loop = σ.s.loop := by unfold halfClosed; split <;> rfl
@[simp] theorem halfClosed_sendFails (σ : State) : (halfClosed σ).sendFails = σ.s.sendFails := by unfold halfClosed; split <;> rfl
@[simp] theorem halfClosed_stalled (σ : State) : (halfClosed σ).stalled = σ.s.stalled := by unfold halfClosed; split <;> rfl
@[simp] theorem halfClosed_sent (σ : State) : (halfClosed σ).sent = σ.s.sent := by unfold halfClosed; split <;> rfl
@[simp] theorem halfClosed_delivered (σ : State) : (halfClosed σ).delivered = σ.s.delivered := by unfold halfClosed; split <;> rfl
@[simp] theorem halfClosed_out (σ : State) : (halfClosed σ).out = σ.s.out := by unfold halfClosed; split <;> rfl
theorem halfClosed_queue (σ : State) :
    (halfClosed σ).queue = σ.s.queue ∨ (halfClosed σ).queue = σ.s.queue ++ [.eof] := by
  unfold halfClosed; split
  · exact Or.inr rfl
  · exact Or.inl rfl

theorem step_csReturn {σ σ' : State} (h : step σ .csReturn = some σ') :
    σ.cs = .calling ∧
    ((σ.env.closeSendHangs = true ∧ (σ.outCtx || σ.srvCtx) = true ∧ σ' = { σ with cs := .signalling }) ∨
     (σ.env.closeSendHangs = false ∧ σ' = { σ with cs := .signalling, s := halfClosed σ })) := by
  simp only [step] at h
  split at h
  · rename_i hc
    split at h
    · rename_i hh
      split at h
      · rename_i hx
        simp only [Option.some.injEq] at h
        exact ⟨hc, Or.inl ⟨hh, hx, h.symm⟩⟩
      · cases h
    · rename_i hh
      simp only [Option.some.injEq] at h
      exact ⟨hc, Or.inr ⟨by simpa using hh, h.symm⟩⟩
  · cases h

theorem step_guardRecv {σ σ' : State} (h : step σ .guardRecv = some σ') :
    σ.cs = .signalling ∧ σ.i.loop = .guard ∧ σ' = { σ with cs := .exited, i := { σ.i with loop := .done } } := by
  simp only [step] at h
  split at h
  · rename_i hc
    simp only [Option.some.injEq] at h
    exact ⟨hc.1, hc.2, h.symm⟩
  · cases h

theorem step_hCancel {σ σ' : State} (h : step σ .hCancel = some σ') :
    σ.h = .waiting ∧ σ.s.loop = .done ∧ σ.i.loop = .done ∧ σ' = { σ with h := .cancelled, outCtx := true } := by
  simp only [step] at h
  split at h
  · rename_i hc
    simp only [Option.some.injEq] at h
    exact ⟨hc.1, hc.2.1, hc.2.2, h.symm⟩
  · cases h

theorem step_hReturn {σ σ' : State} (h : step σ .hReturn = some σ') :
    σ.h = .cancelled ∧ σ' = { σ with h := .returned, srvCtx := σ.srvCtx || σ.env.returnCancelsSrv } := by
  simp only [step] at h
  split at h
  · rename_i hc
    simp only [Option.some.injEq] at h
    exact ⟨hc, h.symm⟩
  · cases h

/-! ### the environment switches never change -/

theorem step_env {σ σ' : State} {a : Act} (h : step σ a = some σ') : σ'.env = σ.env := by
  cases a with
  | push d v => rw [step_push h]; cases d <;> rfl
  | sendFail d => rw [step_sendFail h]; cases d <;> rfl
  | stall d => rw [step_stall h]; cases d <;> rfl
  | unstall d => rw [step_unstall h]; cases d <;> rfl
  | iniCancel => rw [step_iniCancel h]
  | shutdown => rw [step_shutdown h]
  | tick => rw [(step_tick h).2.2.2.2]
  | lCheck d => rw [(step_lCheck h).2]; cases d <;> rfl
  | lRecv d => obtain ⟨_, v, q, _, e⟩ := step_lRecv h; rw [e]; cases d <;> rfl
  | lHand d => obtain ⟨v, _, _, e⟩ := step_lHand h; rw [e]; cases d <;> rfl
  | lQuit d => obtain ⟨v, _, _, e⟩ := step_lQuit h; rw [e]; cases d <;> rfl
  | rLatch d => rw [(step_rLatch h).2.2]; cases d <;> rfl
  | rClosed d => rw [(step_rClosed h).2.2]; cases d <;> rfl
  | rProc d =>
    rcases step_rProc h with ⟨i, _, _, e⟩ | ⟨v, _, _, e⟩ <;> rw [e] <;> cases d <;> rfl
  | rDefer d =>
    cases d with
    | s => rw [(step_rDefer_s h).2]
    | i => rw [(step_rDefer_i h).2]
  | csReturn =>
    rcases (step_csReturn h).2 with ⟨_, _, e⟩ | ⟨_, e⟩ <;> rw [e]
  | guardRecv => rw [(step_guardRecv h).2.2]
  | hCancel => rw [(step_hCancel h).2.2.2]
  | hReturn => rw [(step_hReturn h).2]

theorem run_env (σ : State) (acts : List Act) : (run σ acts).env = σ.env :=
  run_induct (P := fun τ => τ.env = σ.env) rfl (fun _ _ _ h hs => (step_env hs).trans h) acts

/-! ### `firstEnabled`, `settle` -/

theorem firstEnabled_some {σ σ' : State} {l : List Act} (h : firstEnabled σ l = some σ') :
    ∃ a ∈ l, step σ a = some σ' := by
  induction l with
  | nil => simp [firstEnabled] at h
  | cons a r ih =>
    simp only [firstEnabled] at h
    split at h
    · rename_i σ'' hs
      cases h
      exact ⟨a, List.mem_cons_self, hs⟩
    · obtain ⟨b, hb, hs⟩ := ih h
      exact ⟨b, List.mem_cons_of_mem _ hb, hs⟩

theorem firstEnabled_none {σ : State} {l : List Act} (h : firstEnabled σ l = none) :
    ∀ a ∈ l, step σ a = none := by
  induction l with
  | nil => simp
  | cons a r ih =>
    simp only [firstEnabled] at h
    split at h
    · cases h
    · rename_i hs
      intro b hb
      rcases List.mem_cons.1 hb with rfl | hb
      · exact hs
      · exact ih h b hb

theorem internalActs_internal {a : Act} (h : a ∈ internalActs) : a.isInternal = true := by
  simp only [internalActs, List.mem_cons, List.mem_nil_iff, or_false] at h
  rcases h with h | h | h | h | h | h | h | h | h | h | h | h | h | h | h | h | h | h | h | h <;> subst h <;> rfl

theorem internal_mem {a : Act} (h : a.isInternal = true) : a ∈ internalActs := by
  cases a <;> (try rename_i d; cases d) <;> first | decide | (cases h)

/-- nothing in `internalActs` is enabled ⇔ quiescent -/
theorem quiescent_of_firstEnabled_none {σ : State} (h : firstEnabled σ internalActs = none) : Quiescent σ :=
  fun a ha => firstEnabled_none h a (internal_mem ha)

/-! ### `recvResult` -/

theorem recvResult_some {σ : State} {d : D} {v : Ev} {q : List Ev} (h : recvResult σ d = some (v, q)) :
    (v.sticky = true ∧ q = (σ.dir d).queue) ∨ (v.sticky = false ∧ (σ.dir d).queue = v :: q) := by
  unfold recvResult at h
  split at h
  · simp only [Option.some.injEq, Prod.mk.injEq] at h
    obtain ⟨rfl, rfl⟩ := h
    exact Or.inl ⟨rfl, rfl⟩
  · split at h
    · cases h
    · rename_i w r hq
      split at h
      · rename_i hst
        simp only [Option.some.injEq, Prod.mk.injEq] at h
        obtain ⟨rfl, rfl⟩ := h
        exact Or.inl ⟨hst, hq.symm⟩
      · rename_i hst
        simp only [Option.some.injEq, Prod.mk.injEq] at h
        obtain ⟨rfl, rfl⟩ := h
        exact Or.inr ⟨by simpa using hst, hq⟩

theorem recvResult_none {σ : State} {d : D} (h : recvResult σ d = none) : cut σ d = false ∧ (σ.dir d).queue = [] := by
  unfold recvResult at h
  split at h
  · cases h
  · rename_i hc
    split at h
    · rename_i hq; exact ⟨by simpa using hc, hq⟩
    · split at h <;> cases h

theorem sticky_not_data {v : Ev} (h : v.sticky = true) : v.isData = false := by
  cases v <;> simp_all [Ev.sticky, Ev.isData]

theorem sticky_ids {v : Ev} (h : v.sticky = true) : v.ids = [] := by
  cases v <;> simp_all [Ev.sticky, Ev.ids]

end S2S.Forwarder
