import S2S.Proofs.ObserverConcMain
/-!
Concurrency clause of C20, top-level lemmas (restated in `S2S/Props/C20C.lean`).
CORE LEAN ONLY.
-/
namespace S2S.Observer
open S2S.Shard

theorem counters_order_independent (o : Obs) (l₁ l₂ : List (Int × Int))
    (hfree : o.locked = false) (hwf : o.WF) (hv : ValsInt32 l₁) (hp : l₁.Perm l₂) :
    ∃ o₁ o₂, reports o l₁ = some o₁ ∧ reports o l₂ = some o₂ ∧
      o₁.locked = false ∧ o₂.locked = false ∧ o₁.WF ∧ o₂.WF ∧ o₁.counters = o₂.counters := by
  obtain ⟨o₁, h₁, hf₁, hwf₁, _, hval₁⟩ := reports_spec l₁ o hfree hwf hv
  obtain ⟨o₂, h₂, hf₂, hwf₂, _, hval₂⟩ := reports_spec l₂ o hfree hwf (valsInt32_perm hp hv)
  refine ⟨o₁, o₂, h₁, h₂, hf₁, hf₂, hwf₁, hwf₂, cwf_ext _ _ hwf₁.1 hwf₂.1 ?_⟩
  intro k
  rw [hval₁ k, hval₂ k, sumAt_perm k hp]

theorem counter_closed_form (o : Obs) (l : List (Int × Int))
    (hfree : o.locked = false) (hwf : o.WF) (hv : ValsInt32 l) :
    ∃ o', reports o l = some o' ∧ ∀ i : Nat,
      o'.counters.lookup i =
        if (i : Int) ≤ maxObservedStreamIndex then
          (if wrap32 (val o.counters i + sumAt i l) = 0 then none
           else some (wrap32 (val o.counters i + sumAt i l)))
        else o.counters.lookup i := by
  obtain ⟨o', h, _, hwf', _, hval⟩ := reports_spec l o hfree hwf hv
  refine ⟨o', h, ?_⟩
  intro i
  rw [lookup_of_val _ hwf'.1, hval i]
  split
  · rfl
  · exact (lookup_of_val _ hwf.1 i).symm

theorem per_stream_view (o o' : Obs) (l l' : List (Int × Int)) (i : Nat)
    (hfree : o.locked = false) (hfree' : o'.locked = false) (hwf : o.WF) (hwf' : o'.WF)
    (hv : ValsInt32 l) (hv' : ValsInt32 l')
    (hagree : o.counters.lookup i = o'.counters.lookup i)
    (hsub : l.filter (fun p => p.1 = (i : Int)) = l'.filter (fun p => p.1 = (i : Int))) :
    ∃ o₁ o₂, reports o l = some o₁ ∧ reports o' l' = some o₂ ∧
      o₁.counters.lookup i = o₂.counters.lookup i := by
  obtain ⟨o₁, h₁, hc₁⟩ := counter_closed_form o l hfree hwf hv
  obtain ⟨o₂, h₂, hc₂⟩ := counter_closed_form o' l' hfree' hwf' hv'
  refine ⟨o₁, o₂, h₁, h₂, ?_⟩
  have hval : val o.counters i = val o'.counters i := by unfold val; rw [hagree]
  rw [hc₁ i, hc₂ i, hval, sumAt_of_filter_eq i hsub, hagree]

theorem per_stream_projection (o : Obs) (l : List (Int × Int)) (i : Nat)
    (hfree : o.locked = false) (hwf : o.WF) (hv : ValsInt32 l) :
    ∃ o₁ o₂, reports o l = some o₁ ∧
      reports o (l.filter (fun p => p.1 = (i : Int))) = some o₂ ∧
      o₁.counters.lookup i = o₂.counters.lookup i :=
  per_stream_view o o l _ i hfree hfree hwf hwf hv (valsInt32_filter _ hv) rfl
    (by rw [List.filter_filter]; simp)

theorem balanced_general (l : List (Int × Int)) (hv : ValsInt32 l)
    (hbal : ∀ i : Nat, (i : Int) ≤ maxObservedStreamIndex → wrap32 (sumAt i l) = 0) :
    ∃ o', reports {} l = some o' ∧ o'.locked = false ∧ o'.counters = [] := by
  obtain ⟨o', h, hf, hwf', _, hval⟩ := reports_spec l {} rfl wf_init hv
  refine ⟨o', h, hf, cwf_nil_of_val _ hwf'.1 ?_⟩
  intro k
  rw [hval k]
  have h0 : val ({} : Obs).counters k = 0 := rfl
  rw [h0, Int.zero_add]
  split
  · rename_i hk; exact hbal k hk
  · rfl

theorem balanced_ends_empty (streams : List Int) (junk l : List (Int × Int))
    (hjunk : ∀ p ∈ junk, ¬ Accepted p.1)
    (hp : l.Perm ((streams.flatMap fun i => [(i, (1 : Int)), (i, (-1 : Int))]) ++ junk)) :
    ∃ o', reports {} l = some o' ∧ o'.locked = false ∧ o'.counters = [] := by
  have hvc := valsInt32_canonical streams junk hjunk
  obtain ⟨o₁, o₂, h₁, h₂, hf₁, _, _, _, hc⟩ :=
    counters_order_independent {} _ _ rfl wf_init (valsInt32_perm hp.symm hvc) hp
  obtain ⟨o₃, h₃, _, hc₃⟩ := balanced_general _ hvc (by
    intro i hi
    rw [sumAt_append, sumAt_pairs, sumAt_rejected i hi junk hjunk]
    rfl)
  rw [h₂] at h₃
  cases h₃
  exact ⟨o₁, h₁, hf₁, hc.trans hc₃⟩

end S2S.Observer
