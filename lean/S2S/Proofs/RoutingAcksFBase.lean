import S2S.Proofs.RoutingFaultMain
import S2S.Proofs.RoutingLateBase
import S2S.Spec.RoutingAcksF
/-!
C03's safety half WITH faults, part 1: what ONE step (faults included) does to the acknowledgement-relevant fields of a
source — `acksSent`, `lastHigh`, `lastSentMin`, `lastSentAck`, `active`, `inc` — as a relation indexed by the action
(`AF.SrcRel`, `AF.step_src`), and the look-ups of the two ghosts (`Ghost.maxHighOf`, `AckGhost.baseOf`) after a step.

No invariant is needed here; every name lives under `S2S.Routing.AF.*`.
-/
namespace S2S.Routing

/-- source stream `s` is never broken in `acts` (target streams and OTHER source streams may break at any position) -/
def NoSrcBreak (s : SId) (acts : List Act) : Prop := ∀ a ∈ acts, a ≠ Act.breakSrc s

instance (s : SId) (acts : List Act) : Decidable (NoSrcBreak s acts) := by unfold NoSrcBreak; exact inferInstance

/-! ### the relation -/

/-- nothing acknowledgement-relevant changes -/
structure AF.Quiet (x x' : Source) : Prop where
  acks : x'.acksSent = x.acksSent
  high : x'.lastHigh = x.lastHigh
  lsm : x'.lastSentMin = x.lastSentMin
  lsa : x'.lastSentAck = x.lastSentAck
  active : x'.active = x.active
  inc : x'.inc = x.inc

theorem AF.Quiet.rfl' (x : Source) : AF.Quiet x x := ⟨rfl, rfl, rfl, rfl, rfl, rfl⟩

/-- a batch with exclusive high watermark `high` is received -/
def AF.RecvRel (high : Int) (x x' : Source) : Prop :=
  x.active = true ∧ x'.acksSent = x.acksSent ∧ x'.lastHigh = high ∧ x'.lastSentMin = x.lastSentMin ∧
    x'.lastSentAck = x.lastSentAck ∧ x'.active = x.active ∧ x'.inc = x.inc

/-- the acknowledgement `m` is sent upstream -/
def AF.SendRel (m : Int) (x x' : Source) : Prop :=
  x.active = true ∧ x'.acksSent = x.acksSent ++ [m] ∧ x'.lastHigh = x.lastHigh ∧ x'.active = x.active ∧ x'.inc = x.inc

/-- `sendAck` sends: the minimum passed the guard `≥ lastSentMin`, then either went out as it is (which needs
    `m ≤ lastHigh` unless `lastHigh ≤ 0`) or was clamped to `lastHigh > 0` -/
def AF.RackRel (x x' : Source) : Prop :=
  ∃ m, AF.SendRel m x x' ∧ x'.lastSentMin = m ∧ x'.lastSentAck = some m ∧
    ((x.lastSentMin ≤ m ∧ (0 < x.lastHigh → m ≤ x.lastHigh)) ∨ (m = x.lastHigh ∧ 0 < x.lastHigh))

/-- the keep-alive re-sends `lastSentAck` -/
def AF.TickRel (x x' : Source) : Prop :=
  ∃ m, x.lastSentAck = some m ∧ AF.SendRel m x x' ∧ x'.lastSentMin = x.lastSentMin ∧ x'.lastSentAck = x.lastSentAck

def AF.OpenRel (x x' : Source) : Prop :=
  x.active = false ∧ x'.acksSent = x.acksSent ∧ x'.lastHigh = 0 ∧ x'.lastSentMin = 0 ∧ x'.lastSentAck = none ∧
    x'.active = true ∧ x'.inc = x.inc + 1

def AF.BreakRel (x x' : Source) : Prop :=
  x.active = true ∧ x'.acksSent = x.acksSent ∧ x'.lastHigh = 0 ∧ x'.lastSentMin = 0 ∧ x'.lastSentAck = none ∧
    x'.active = false ∧ x'.inc = x.inc

/-- what action `a` can do to source `s` (`x` before, `x'` after) -/
def AF.SrcRel (a : Act) (s : SId) (x x' : Source) : Prop :=
  match a with
  | .recv s0 _ high => if s = s0 then AF.RecvRel high x x' else AF.Quiet x x'
  | .rack s0 => if s = s0 then (AF.Quiet x x' ∨ AF.RackRel x x') else AF.Quiet x x'
  | .tick => AF.Quiet x x' ∨ AF.TickRel x x'
  | .openSrc s0 => if s = s0 then AF.OpenRel x x' else AF.Quiet x x'
  | .breakSrc s0 => if s = s0 then AF.BreakRel x x' else AF.Quiet x x'
  | _ => AF.Quiet x x'

theorem AF.quiet_setTgt (σ : State) (t : TId) (tg : Target) (s : SId) :
    AF.Quiet (σ.src s) ((σ.setTgt t tg).src s) := AF.Quiet.rfl' _

theorem AF.quiet_setSrc (σ : State) (s0 : SId) (x' : Source) (h : AF.Quiet (σ.src s0) x') (s : SId) :
    AF.Quiet (σ.src s) ((σ.setSrc s0 x').src s) := by
  rw [src_setSrc]
  split
  · rename_i e; rw [e.1]; exact h
  · exact AF.Quiet.rfl' _

theorem AF.quiet_setBoth (σ : State) (s0 : SId) (x' : Source) (t : TId) (tg : Target)
    (h : AF.Quiet (σ.src s0) x') (s : SId) : AF.Quiet (σ.src s) (((σ.setSrc s0 x').setTgt t tg).src s) :=
  AF.quiet_setSrc σ s0 x' h s

theorem AF.quiet_setBoth' (σ : State) (s0 : SId) (x' : Source) (t : TId) (tg : Target)
    (h : AF.Quiet ((σ.setTgt t tg).src s0) x') (s : SId) : AF.Quiet (σ.src s) (((σ.setTgt t tg).setSrc s0 x').src s) :=
  AF.quiet_setSrc (σ.setTgt t tg) s0 x' h s

/-- a `setSrc s0 x'` with `s0` in range: `P` for `s0`, quiet elsewhere -/
theorem AF.rel_setSrc (σ : State) (s0 : SId) (x' : Source) (hlt : s0 < σ.sources.length)
    (P : Source → Source → Prop) (h : P (σ.src s0) x') (s : SId) :
    if s = s0 then P (σ.src s) ((σ.setSrc s0 x').src s) else AF.Quiet (σ.src s) ((σ.setSrc s0 x').src s) := by
  rw [src_setSrc]
  by_cases e : s = s0
  · subst e; simp only [if_true, true_and, hlt]; exact h
  · simp only [e, if_false, false_and]; exact AF.Quiet.rfl' _

theorem AF.srcRel_tick (x : Source) : AF.Quiet x (Late.tickSrc x) ∨ AF.TickRel x (Late.tickSrc x) := by
  unfold Late.tickSrc
  split
  · rename_i hact
    split
    · rename_i m hm
      exact Or.inr ⟨m, hm, ⟨hact, rfl, rfl, rfl, rfl⟩, rfl, rfl⟩
    · exact Or.inl (AF.Quiet.rfl' _)
  · exact Or.inl (AF.Quiet.rfl' _)

/-- **one step, one source** (every configuration, every action, faults included) -/
theorem AF.step_src {c : Cfg} {σ σ' : State} {a : Act} (h : step c σ a = some σ') (s : SId) :
    AF.SrcRel a s (σ.src s) (σ'.src s) := by
  cases a with
  | tick =>
    rw [Late.step_tick] at h
    simp only [Option.some.injEq] at h
    subst h
    rw [Late.tick_src]
    exact AF.srcRel_tick _
  | recv s0 tasks high =>
    simp only [step] at h
    split at h
    · cases h
    · rename_i hc
      have hact : (σ.src s0).active = true := by
        cases ha : (σ.src s0).active with
        | true => rfl
        | false => simp [ha] at hc
      have hlt := src_active_lt σ hact
      simp only [AF.SrcRel]
      split at h
      · simp only [Option.some.injEq] at h
        subst h
        refine AF.rel_setSrc σ s0 _ hlt (AF.RecvRel high) ?_ s
        exact ⟨hact, rfl, rfl, rfl, rfl, rfl, rfl⟩
      · simp only [Option.some.injEq] at h
        subst h
        refine AF.rel_setSrc σ s0 _ hlt (AF.RecvRel high) ?_ s
        exact ⟨hact, rfl, rfl, rfl, rfl, rfl, rfl⟩
  | rack s0 =>
    simp only [step] at h
    split at h
    · cases h
    · rename_i hc
      have hact : (σ.src s0).active = true := by
        cases ha : (σ.src s0).active with
        | true => rfl
        | false => simp [ha] at hc
      have hlt := src_active_lt σ hact
      simp only [AF.SrcRel]
      split at h
      · cases h
      · split at h
        · simp only [Option.some.injEq] at h
          subst h
          refine AF.rel_setSrc σ s0 _ hlt (fun x x' => AF.Quiet x x' ∨ AF.RackRel x x') ?_ s
          exact Or.inl ⟨rfl, rfl, rfl, rfl, rfl, rfl⟩
        · split at h
          · rename_i m _ hge
            simp only [Option.some.injEq] at h
            subst h
            refine AF.rel_setSrc σ s0 _ hlt (fun x x' => AF.Quiet x x' ∨ AF.RackRel x x') (Or.inr ?_) s
            refine ⟨_, ⟨hact, rfl, rfl, rfl, rfl⟩, rfl, rfl, ?_⟩
            simp only [ge_iff_le] at hge
            split
            · rename_i hcl
              simp only [Bool.and_eq_true, decide_eq_true_eq, gt_iff_lt] at hcl
              exact Or.inr ⟨rfl, hcl.1⟩
            · rename_i hcl
              simp only [Bool.and_eq_true, decide_eq_true_eq, gt_iff_lt, not_and, Int.not_lt] at hcl
              exact Or.inl ⟨hge, hcl⟩
          · simp only [Option.some.injEq] at h
            subst h
            refine AF.rel_setSrc σ s0 _ hlt (fun x x' => AF.Quiet x x' ∨ AF.RackRel x x') ?_ s
            exact Or.inl ⟨rfl, rfl, rfl, rfl, rfl, rfl⟩
  | openSrc s0 =>
    simp only [step] at h
    split at h
    · cases h
    · rename_i hc
      simp only [Option.some.injEq] at h
      subst h
      have hact : (σ.src s0).active = false := by
        cases ha : (σ.src s0).active with
        | false => rfl
        | true => simp [ha] at hc
      have hlt : s0 < σ.sources.length := by
        apply Classical.byContradiction; intro hn
        have : σ.sources.length ≤ s0 := Nat.le_of_not_lt hn
        simp [hact, this] at hc
      simp only [AF.SrcRel]
      refine AF.rel_setSrc σ s0 _ hlt AF.OpenRel ?_ s
      exact ⟨hact, rfl, rfl, rfl, rfl, rfl, rfl⟩
  | breakSrc s0 =>
    simp only [step] at h
    split at h
    · cases h
    · rename_i hc
      simp only [Option.some.injEq] at h
      subst h
      have hact : (σ.src s0).active = true := by
        cases ha : (σ.src s0).active with
        | true => rfl
        | false => simp [ha] at hc
      have hlt := src_active_lt σ hact
      simp only [AF.SrcRel]
      refine AF.rel_setSrc σ s0 _ hlt AF.BreakRel ?_ s
      exact ⟨hact, rfl, rfl, rfl, rfl, rfl, rfl⟩
  | _ =>
    simp only [step] at h
    simp only [AF.SrcRel]
    repeat' split at h
    all_goals first
      | (cases h; done)
      | (simp only [Option.some.injEq] at h
         subst h
         first
          | exact AF.quiet_setTgt _ _ _ s
          | (refine AF.quiet_setSrc _ _ _ ?_ s; exact ⟨rfl, rfl, rfl, rfl, rfl, rfl⟩)
          | (refine AF.quiet_setBoth _ _ _ _ _ ?_ s; exact ⟨rfl, rfl, rfl, rfl, rfl, rfl⟩)
          | (refine AF.quiet_setBoth' _ _ _ _ _ ?_ s; exact ⟨rfl, rfl, rfl, rfl, rfl, rfl⟩))

/-! ### the ghosts after a step -/

/-- `AckGhost.next` when the action is enabled -/
def AckGhost.upd (σ : State) (α : AckGhost) : Act → AckGhost
  | .openSrc s => { ackBase := aset α.ackBase s (σ.src s).acksSent.length }
  | _ => α

theorem ackGhost_next_of_step {c : Cfg} {σ σ' : State} (α : AckGhost) {a : Act} (h : step c σ a = some σ') :
    α.next c σ a = α.upd σ a := by
  unfold AckGhost.next; rw [h]; cases a <;> rfl

theorem ackGhost_next_none {c : Cfg} {σ : State} (α : AckGhost) {a : Act} (h : step c σ a = none) :
    α.next c σ a = α := by
  unfold AckGhost.next; rw [h]

theorem AF.baseOf_upd_open (σ : State) (α : AckGhost) (s0 s : SId) :
    (α.upd σ (.openSrc s0)).baseOf s = if s = s0 then (σ.src s0).acksSent.length else α.baseOf s :=
  getD_aget_aset _ _ _ _ _

theorem AF.maxHighOf_upd_recv (σ : State) (γ : Ghost) (s0 : SId) (tasks : List (Int × TId)) (high : Int) (s : SId) :
    (γ.upd σ (.recv s0 tasks high)).maxHighOf s =
      if s = s0 then (if high > γ.maxHighOf s0 then high else γ.maxHighOf s0) else γ.maxHighOf s :=
  getD_aget_aset _ _ _ _ _

theorem AF.baseOf_init (s : SId) : ({} : AckGhost).baseOf s = 0 := rfl

theorem AF.maxHighOf_init (s : SId) : ({} : Ghost).maxHighOf s = 0 := rfl

/-! ### runs -/

/-- the state component of `runAG` is `run` -/
theorem runAG_state (c : Cfg) (σ : State) (α : AckGhost) (acts : List Act) : (runAG c σ α acts).1 = run c σ acts := by
  induction acts generalizing σ α with
  | nil => rfl
  | cons a rest ih => exact ih _ _

/-- the `Ghost` threaded along a run (the second component of `runG` in `S2S/Props/C04.lean`) -/
def AF.ghostRun (c : Cfg) : State → Ghost → List Act → Ghost
  | _, γ, [] => γ
  | σ, γ, a :: rest => AF.ghostRun c ((step c σ a).getD σ) (γ.next c σ a) rest

end S2S.Routing
