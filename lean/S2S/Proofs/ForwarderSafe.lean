import S2S.Proofs.ForwarderBasic
/-!
C06 faithfulness: the history-accounting invariant `Acc` of one direction (nothing is lost,
duplicated or reordered between the peer's stream, the listener, the relay loop and the other
peer) is preserved by every action; the prefix and exact-accounting theorems follow.
-/
namespace S2S.Forwarder

theorem dataIds_append (a b : List Ev) : dataIds (a ++ b) = dataIds a ++ dataIds b := by
  induction a with
  | nil => rfl
  | cons v r ih => simp [dataIds, ih]

/-- history accounting of one direction -/
structure Acc (x : Dir) : Prop where
  /-- everything the peer sent is either delivered to the listener or still queued, in order -/
  s1 : x.sent = x.delivered ++ dataIds x.queue
  /-- what the other peer received plus what the loop holds is a prefix of what was delivered -/
  s2 : ∃ t, x.delivered = x.out ++ x.loop.hand ++ t
  /-- while the direction is relaying, nothing else is missing: exactly the two values in hand -/
  s3 : x.running = true → x.delivered = x.out ++ x.loop.hand ++ x.lis.hand

theorem acc_init : Acc ({} : Dir) := by
  constructor <;> simp [dataIds, RPc.hand, LPc.hand]

def AccAll (σ : State) : Prop := ∀ d, Acc (σ.dir d)

theorem accAll_setDir {σ : State} {d : D} {x : Dir} (h : AccAll σ) (hx : Acc x) : AccAll (σ.setDir d x) := by
  intro d'
  cases d <;> cases d' <;> first | exact hx | exact h .s | exact h .i

theorem acc_step {σ σ' : State} {a : Act} (h : AccAll σ) (hs : step σ a = some σ') : AccAll σ' := by
  cases a with
  | push d v =>
    have e := step_push hs; subst e
    obtain ⟨s1, s2, s3⟩ := h d
    apply accAll_setDir h
    constructor
    · simp only [dataIds_append, dataIds, List.append_nil]; rw [s1]; simp
    · exact s2
    · exact s3
  | sendFail d =>
    have e := step_sendFail hs; subst e
    obtain ⟨s1, s2, s3⟩ := h d
    exact accAll_setDir h ⟨s1, s2, s3⟩
  | stall d =>
    have e := step_stall hs; subst e
    obtain ⟨s1, s2, s3⟩ := h d
    exact accAll_setDir h ⟨s1, s2, s3⟩
  | unstall d =>
    have e := step_unstall hs; subst e
    obtain ⟨s1, s2, s3⟩ := h d
    exact accAll_setDir h ⟨s1, s2, s3⟩
  | iniCancel => have e := step_iniCancel hs; subst e; intro d; cases d <;> first | exact h .s | exact h .i
  | shutdown => have e := step_shutdown hs; subst e; intro d; cases d <;> first | exact h .s | exact h .i
  | tick =>
    obtain ⟨h1, h2, h3, h4, e⟩ := step_tick hs; subst e
    obtain ⟨s1, s2, s3⟩ := h .i
    simp only [State.dir] at s1 s2 s3
    intro d; cases d
    · exact h .s
    · constructor
      · exact s1
      · simpa [State.dir, h1, RPc.hand] using s2
      · simp [State.dir, Dir.running, RPc.alive]
  | lCheck d =>
    obtain ⟨h1, e⟩ := step_lCheck hs; subst e
    obtain ⟨s1, s2, s3⟩ := h d
    apply accAll_setDir h
    refine ⟨s1, s2, ?_⟩
    simp only [Dir.running, h1, LPc.hand] at s3 ⊢
    split <;> simp_all
  | lRecv d =>
    obtain ⟨h1, v, q, h2, e⟩ := step_lRecv hs; subst e
    obtain ⟨s1, s2, s3⟩ := h d
    apply accAll_setDir h
    refine ⟨?_, ?_, ?_⟩
    · rcases recvResult_some h2 with ⟨h3, h4⟩ | ⟨h3, h4⟩
      · simp [sticky_ids h3, h4, s1]
      · simp only [s1, h4, dataIds]; simp
    · obtain ⟨t, ht⟩ := s2
      exact ⟨t ++ v.ids, by simp [ht]⟩
    · simp only [Dir.running, h1, LPc.hand] at s3 ⊢
      intro hr
      have := s3 (by simpa using hr)
      simp [this]
  | lHand d =>
    obtain ⟨v, h1, h2, e⟩ := step_lHand hs; subst e
    obtain ⟨s1, s2, s3⟩ := h d
    have hd := s3 (by simp [Dir.running, h1, h2, RPc.alive])
    simp only [h1, h2, RPc.hand, LPc.hand, List.append_nil] at hd
    apply accAll_setDir h
    refine ⟨s1, ⟨[], by simp [RPc.hand, hd]⟩, ?_⟩
    intro _
    simp [RPc.hand, LPc.hand, hd]
  | lQuit d =>
    obtain ⟨v, h1, h2, e⟩ := step_lQuit hs; subst e
    obtain ⟨s1, s2, s3⟩ := h d
    apply accAll_setDir h
    exact ⟨s1, s2, by simp [Dir.running]⟩
  | rLatch d =>
    obtain ⟨h1, h2, e⟩ := step_rLatch hs; subst e
    obtain ⟨s1, s2, s3⟩ := h d
    apply accAll_setDir h
    refine ⟨s1, ?_, by simp [Dir.running, RPc.alive]⟩
    simpa [h1, RPc.hand] using s2
  | rClosed d =>
    obtain ⟨h1, h2, e⟩ := step_rClosed hs; subst e
    obtain ⟨s1, s2, s3⟩ := h d
    apply accAll_setDir h
    refine ⟨s1, ?_, by simp [Dir.running, RPc.alive]⟩
    simpa [h1, RPc.hand] using s2
  | rProc d =>
    obtain ⟨s1, s2, s3⟩ := h d
    rcases step_rProc hs with ⟨i, h1, h2, e⟩ | ⟨v, h1, h2, e⟩ <;> subst e <;> apply accAll_setDir h
    · refine ⟨s1, ?_, ?_⟩
      · simpa [h1, RPc.hand, Ev.ids] using s2
      · simp only [Dir.running, h1, RPc.alive, Ev.isData, RPc.hand, Ev.ids] at s3 ⊢
        intro hr
        have := s3 (by simpa using hr)
        simp [this]
    · refine ⟨s1, ?_, by simp [Dir.running, RPc.alive]⟩
      obtain ⟨t, ht⟩ := s2
      exact ⟨(σ.dir d).loop.hand ++ t, by simp [ht, RPc.hand]⟩
  | rDefer d =>
    cases d with
    | s =>
      obtain ⟨h1, e⟩ := step_rDefer_s hs; subst e
      obtain ⟨s1, s2, s3⟩ := h .s
      simp only [State.dir] at s1 s2 s3
      intro d; cases d
      · exact ⟨s1, by simpa [State.dir, h1, RPc.hand] using s2, by simp [State.dir, Dir.running, RPc.alive]⟩
      · exact h .i
    | i =>
      obtain ⟨h1, e⟩ := step_rDefer_i hs; subst e
      obtain ⟨s1, s2, s3⟩ := h .i
      simp only [State.dir] at s1 s2 s3
      intro d; cases d
      · exact h .s
      · exact ⟨s1, by simpa [State.dir, h1, RPc.hand] using s2, by simp [State.dir, Dir.running, RPc.alive]⟩
  | csReturn =>
    obtain ⟨h1, h2⟩ := step_csReturn hs
    rcases h2 with ⟨h3, h4, e⟩ | ⟨h3, e⟩ <;> subst e
    · intro d; cases d <;> first | exact h .s | exact h .i
    · obtain ⟨s1, s2, s3⟩ := h .s
      simp only [State.dir] at s1 s2 s3
      intro d; cases d
      · refine ⟨?_, by simpa [State.dir] using s2, ?_⟩
        · rcases halfClosed_queue σ with hq | hq
          · simp [State.dir, hq, s1]
          · simp [State.dir, hq, s1, dataIds_append, dataIds, Ev.ids]
        · simpa [State.dir, Dir.running] using s3
      · exact h .i
  | guardRecv =>
    obtain ⟨h1, h2, e⟩ := step_guardRecv hs; subst e
    obtain ⟨s1, s2, s3⟩ := h .i
    simp only [State.dir] at s1 s2 s3
    intro d; cases d
    · exact h .s
    · exact ⟨s1, by simpa [State.dir, h2, RPc.hand] using s2, by simp [State.dir, Dir.running, RPc.alive]⟩
  | hCancel => obtain ⟨h1, h2, h3, e⟩ := step_hCancel hs; subst e; intro d; cases d <;> first | exact h .s | exact h .i
  | hReturn => obtain ⟨h1, e⟩ := step_hReturn hs; subst e; intro d; cases d <;> first | exact h .s | exact h .i



theorem accAll_init (e : Env) : AccAll (State.init e) := by
  intro d; cases d <;> exact acc_init

theorem accAll_run (e : Env) (acts : List Act) : AccAll (run (State.init e) acts) :=
  run_induct (accAll_init e) (fun _ _ _ h hs => acc_step h hs) acts

/-- (a) what the other peer received is a prefix of what this peer sent -/
theorem relay_prefix (e : Env) (acts : List Act) (d : D) :
    ((run (State.init e) acts).dir d).out <+: ((run (State.init e) acts).dir d).sent := by
  obtain ⟨s1, ⟨t, ht⟩, _⟩ := accAll_run e acts d
  refine ⟨((run (State.init e) acts).dir d).loop.hand ++ t ++ dataIds ((run (State.init e) acts).dir d).queue, ?_⟩
  rw [s1, ht]; simp

/-- (b) while a direction is relaying, nothing is missing: sent = received ++ the (at most two) values in hand ++ what is still queued -/
theorem relay_exact (e : Env) (acts : List Act) (d : D)
    (hr : ((run (State.init e) acts).dir d).running = true) :
    ((run (State.init e) acts).dir d).sent =
      ((run (State.init e) acts).dir d).out ++ ((run (State.init e) acts).dir d).loop.hand ++
      ((run (State.init e) acts).dir d).lis.hand ++ dataIds ((run (State.init e) acts).dir d).queue := by
  obtain ⟨s1, _, s3⟩ := accAll_run e acts d
  rw [s1, s3 hr]

theorem ids_length_le (v : Ev) : v.ids.length ≤ 1 := by cases v <;> simp [Ev.ids]

/-- at most two messages are ever in the proxy's hands per direction -/
theorem hand_length_le (x : Dir) : x.loop.hand.length + x.lis.hand.length ≤ 2 := by
  have h1 : x.loop.hand.length ≤ 1 := by
    cases x.loop <;> simp [RPc.hand, ids_length_le]
  have h2 : x.lis.hand.length ≤ 1 := by
    cases x.lis <;> simp [LPc.hand, ids_length_le]
  omega

end S2S.Forwarder
