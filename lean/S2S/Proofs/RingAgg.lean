import S2S.Proofs.RingRel
/-!
`AggregateUpTo`: the loop as a fold over the logical contents, its key-uniqueness, and the
value it yields per key (the maximum of the matching tasks).
-/
namespace S2S.Ring

/-! ### `wrap64` is the identity inside the int64 range -/

theorem wrap64_eq {x : Int} (h1 : x < two63) (h2 : -two63 ≤ x) : wrap64 x = x := by
  unfold wrap64
  unfold two63 at *
  unfold two64
  omega

/-! ### the loop as a fold -/

def aggStep (acc : List (Key × Int)) (m : Entry) : List (Key × Int) :=
  if m.isHole then acc else aggInsert acc m.key m.task

theorem aggLoop_eq (b : Buf) (count : Nat) (h : count ≤ b.size) :
    b.aggLoop count = (b.items.take count).foldl aggStep [] := by
  unfold Buf.aggLoop Buf.items
  rw [← List.map_take, List.take_range, Nat.min_eq_left h, List.foldl_map]
  rfl

/-- with no wrap-around, the result map is the fold over the first `w - start + 1` slots and the
    count is that number capped by `size` -/
theorem aggregate_eq (b : Buf) (w : Int) (hw : wrap64 (w - b.start + 1) = w - b.start + 1) :
    (b.aggregate w).1 = (b.items.take (w - b.start + 1).toNat).foldl aggStep [] ∧
    (b.aggregate w).2 = min (w - b.start + 1).toNat b.size := by
  unfold Buf.aggregate
  rw [hw]
  by_cases h0 : b.size = 0
  · rw [if_pos h0, (size_eq_zero_iff_items b).1 h0, h0]
    simp
  · rw [if_neg h0]
    by_cases h1 : w < b.start
    · rw [if_pos h1]
      have : (w - b.start + 1).toNat = 0 := by omega
      rw [this]; simp
    · rw [if_neg h1]
      have h2 : ¬ (w - b.start + 1 ≤ 0) := by omega
      simp only [if_neg h2]
      have hc : (if (w - b.start + 1).toNat > b.size then b.size else (w - b.start + 1).toNat)
          = min (w - b.start + 1).toNat b.size := by
        split <;> omega
      rw [hc]
      refine ⟨?_, rfl⟩
      rw [aggLoop_eq b _ (Nat.min_le_right _ _)]
      congr 1
      rw [List.take_eq_take_iff]
      simp

/-! ### keys are unique (no hypotheses) -/

theorem aggInsert_keys_mem {acc : List (Key × Int)} {k : Key} {v : Int} {x : Key}
    (h : x ∈ (aggInsert acc k v).map (·.1)) : x ∈ acc.map (·.1) ∨ x = k := by
  induction acc with
  | nil => simpa [aggInsert] using h
  | cons a rest ih =>
    obtain ⟨k', v'⟩ := a
    unfold aggInsert at h
    split at h
    · left; simpa using h
    · simp only [List.map_cons, List.mem_cons] at h ⊢
      rcases h with h | h
      · left; left; exact h
      · rcases ih h with h | h
        · left; right; exact h
        · right; exact h

theorem aggInsert_nodup {acc : List (Key × Int)} (k : Key) (v : Int)
    (h : (acc.map (·.1)).Nodup) : ((aggInsert acc k v).map (·.1)).Nodup := by
  induction acc with
  | nil => simp [aggInsert]
  | cons a rest ih =>
    obtain ⟨k', v'⟩ := a
    simp only [List.map_cons, List.nodup_cons] at h
    unfold aggInsert
    split
    · simpa [List.nodup_cons] using h
    · rename_i hne
      simp only [List.map_cons, List.nodup_cons]
      refine ⟨?_, ih h.2⟩
      intro hmem
      rcases aggInsert_keys_mem hmem with h' | h'
      · exact h.1 h'
      · exact hne h'

theorem aggStep_nodup {acc : List (Key × Int)} (m : Entry)
    (h : (acc.map (·.1)).Nodup) : ((aggStep acc m).map (·.1)).Nodup := by
  unfold aggStep
  split
  · exact h
  · exact aggInsert_nodup _ _ h

theorem aggLoop_nodup (b : Buf) (count : Nat) : ((b.aggLoop count).map (·.1)).Nodup := by
  have hl : b.aggLoop count = ((List.range count).map b.at).foldl aggStep [] := by
    unfold Buf.aggLoop; rw [List.foldl_map]; rfl
  rw [hl]
  generalize (List.range count).map b.at = l
  have : ∀ (acc : List (Key × Int)), (acc.map (·.1)).Nodup →
      ((l.foldl aggStep acc).map (·.1)).Nodup := by
    induction l with
    | nil => intro acc h; exact h
    | cons m ms ih => intro acc h; exact ih _ (aggStep_nodup m h)
  exact this [] (by simp)

theorem aggregate_nodup_gen (b : Buf) (w : Int) : ((b.aggregate w).1.map (·.1)).Nodup := by
  unfold Buf.aggregate
  split
  · simp
  · split
    · simp
    · simp only
      split
      · simp
      · exact aggLoop_nodup b _

/-! ### the value per key -/

def omax (o : Option Int) (v : Int) : Int :=
  match o with
  | none => v
  | some v' => max v' v

theorem lookup_aggInsert (acc : List (Key × Int)) (k' : Key) (v : Int) (k : Key) :
    (aggInsert acc k' v).lookup k =
      if k' = k then some (omax (acc.lookup k) v) else acc.lookup k := by
  induction acc with
  | nil =>
    simp only [aggInsert, List.lookup_cons, List.lookup_nil, omax]
    by_cases h : k' = k
    · subst h; simp
    · have : (k == k') = false := by simp; exact fun h' => h h'.symm
      rw [this, if_neg h]
  | cons a rest ih =>
    obtain ⟨k'', v''⟩ := a
    unfold aggInsert
    by_cases h1 : k'' = k'
    · subst h1
      rw [if_pos rfl]
      simp only [List.lookup_cons]
      by_cases h : k'' = k
      · subst h
        simp only [beq_self_eq_true, if_true, omax]
        congr 1
        simp only [Int.max_def]
        split <;> split <;> omega
      · have : (k == k'') = false := by simp; exact fun h' => h h'.symm
        rw [this, if_neg h]
    · rw [if_neg h1]
      simp only [List.lookup_cons]
      rw [ih]
      by_cases h : k' = k
      · subst h
        have : (k' == k'') = false := by simp; exact fun h' => h1 h'.symm
        rw [this]
      · rw [if_neg h, if_neg h]

/-- the original ids (tasks) of the non-hole entries with key `k` -/
def tasksOf (k : Key) (ys : List Entry) : List Int :=
  (ys.filter (fun e => !e.isHole && decide (e.key = k))).map (·.task)

theorem tasksOf_cons (k : Key) (e : Entry) (es : List Entry) :
    tasksOf k (e :: es) =
      if (!e.isHole && decide (e.key = k)) = true then e.task :: tasksOf k es else tasksOf k es := by
  unfold tasksOf
  rw [List.filter_cons]
  split <;> rfl

theorem lookup_aggStep (acc : List (Key × Int)) (m : Entry) (k : Key) :
    (aggStep acc m).lookup k =
      if (!m.isHole && decide (m.key = k)) = true then some (omax (acc.lookup k) m.task)
      else acc.lookup k := by
  unfold aggStep
  by_cases hh : m.isHole = true
  · simp [hh]
  · rw [if_neg hh, lookup_aggInsert]
    simp [hh]

theorem lookup_foldl (k : Key) (ys : List Entry) (acc : List (Key × Int)) :
    (ys.foldl aggStep acc).lookup k =
      (tasksOf k ys).foldl (fun o v => some (omax o v)) (acc.lookup k) := by
  induction ys generalizing acc with
  | nil => rfl
  | cons e es ih =>
    rw [List.foldl_cons, ih, lookup_aggStep, tasksOf_cons]
    by_cases hc : (!e.isHole && decide (e.key = k)) = true
    · rw [if_pos hc, if_pos hc]
      rfl
    · rw [if_neg hc, if_neg hc]

theorem foldl_omax_some (l : List Int) (a : Int) :
    l.foldl (fun o v => some (omax o v)) (some a) = some (l.foldl max a) := by
  induction l generalizing a with
  | nil => rfl
  | cons x xs ih => rw [List.foldl_cons, List.foldl_cons]; exact ih _

theorem foldl_omax_none (l : List Int) :
    l.foldl (fun o v => some (omax o v)) none = l.max? := by
  cases l with
  | nil => rfl
  | cons a l => rw [List.foldl_cons, List.max?_cons']; exact foldl_omax_some l a

theorem lookup_fold_eq_max (k : Key) (ys : List Entry) :
    (ys.foldl aggStep []).lookup k = (tasksOf k ys).max? := by
  rw [lookup_foldl, List.lookup_nil, foldl_omax_none]

/-! ### the reference's `expected` in terms of the logical contents -/

theorem pairsOf_filter_le (s w : Int) (xs : List Entry) :
    (pairsOf s xs).filter (fun x => decide (x.1 ≤ w)) = pairsOf s (xs.take (w - s + 1).toNat) := by
  induction xs generalizing s with
  | nil => simp
  | cons e es ih =>
    by_cases hw : w < s
    · have h0 : (w - s + 1).toNat = 0 := by omega
      rw [h0, List.take_zero, pairsOf_nil, List.filter_eq_nil_iff]
      intro x hx
      have := (pairsOf_mem_bounds hx).1
      simp only [decide_eq_true_eq]; omega
    · have h1 : (w - s + 1).toNat = (w - (s + 1) + 1).toNat + 1 := by omega
      rw [h1, List.take_succ_cons, pairsOf_cons, pairsOf_cons, List.filter_append, ih]
      congr 1
      split
      · rfl
      · rw [List.filter_cons_of_pos]
        · rfl
        · simp only [decide_eq_true_eq]; omega

theorem pairsOf_filter_key (s : Int) (k : Key) (ys : List Entry) :
    ((pairsOf s ys).filter (fun x => decide (x.2.key = k))).map (fun x => x.2.task) = tasksOf k ys := by
  induction ys generalizing s with
  | nil => rfl
  | cons e es ih =>
    rw [pairsOf_cons, List.filter_append, List.map_append, ih, tasksOf_cons]
    by_cases hh : e.isHole = true
    · rw [if_pos hh, if_neg (by simp [hh])]
      rfl
    · rw [if_neg hh]
      by_cases hk : e.key = k
      · rw [List.filter_cons_of_pos (by simp [hk]), if_pos (by simp [hh, hk])]
        rfl
      · rw [List.filter_cons_of_neg (by simp [hk]), if_neg (by simp [hk])]
        rfl

theorem expected_eq {b : Buf} {r : Ref} (h : Rel b r) (w : Int) (k : Key) :
    r.expected w k = (tasksOf k (b.items.take (w - b.start + 1).toNat)).max? := by
  unfold Ref.expected
  have hf : r.out.filter (fun x => decide (x.1 ≤ w) && decide (x.2.key = k)) =
      (r.out.filter (fun x => decide (x.1 ≤ w))).filter (fun x => decide (x.2.key = k)) := by
    rw [List.filter_filter]
    congr 1
    funext x
    exact Bool.and_comm _ _
  rw [hf, ← h.out, pairsOf_filter_le, pairsOf_filter_key]

end S2S.Ring
