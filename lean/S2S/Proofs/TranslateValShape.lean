import S2S.Proofs.TranslateValEq
/-! The skip shortcut sees names only as "empty / non-empty": its decisions are the same before and after a
    translation that keeps empty names empty and non-empty names non-empty. -/
set_option linter.unusedSectionVars false
namespace S2S.TranslateVal
open S2S.Translate S2S.NameMap
variable {α : Type} [DecidableEq α] (g : Graph) (tb : Tables) (X : Ext α) (mt : α → α × Bool)

theorem shapeL_cons (e : α) (v : Val α) (vs : List (Val α)) : shapeL e (v :: vs) = shape e v :: shapeL e vs := rfl

theorem shape_str (e s : α) : shape e (.str s) = .str (shapeStr e s) := rfl
theorem fieldVal_cons {β : Type} (name : Nat) (f : FieldD) (fds : List FieldD) (v : Val β) (vs : List (Val β)) :
    fieldVal name (f :: fds) (v :: vs) = if f.go == name then some v else fieldVal name fds vs := rfl

theorem shaped_variantField : X.shaped.variantField = X.variantField := rfl
theorem shaped_workflowEventField : X.shaped.workflowEventField = X.workflowEventField := rfl
theorem shaped_namespaceField : X.shaped.namespaceField = X.namespaceField := rfl
theorem shaped_eventTypeField : X.shaped.eventTypeField = X.eventTypeField := rfl
theorem shaped_empty : X.shaped.empty = none := rfl
theorem shaped_evAttr (t : α) : X.shaped.evAttr (some t) = X.evAttr t := rfl

theorem fieldVal_shape (e : α) (name : Nat) :
    ∀ (fds : List FieldD) (fs : List (Val α)),
      fieldVal name fds (shapeL e fs) = (fieldVal name fds fs).map (shape e) := by
  intro fds
  induction fds with
  | nil => intro fs; cases fs <;> rfl
  | cons f fds ih =>
    intro fs
    cases fs with
    | nil => rfl
    | cons v vs =>
      rw [shapeL_cons, fieldVal_cons, fieldVal_cons]
      split
      · rfl
      · exact ih vs

theorem sub_shape (e : α) (name : Nat) (v : Val α) : sub g name (shape e v) = (sub g name v).map (shape e) := by
  cases v <;> try rfl
  case msg ty fs => exact fieldVal_shape e name _ fs

theorem bind_sub_shape (e : α) (name : Nat) (o : Option (Val α)) :
    (o.map (shape e)).bind (sub g name) = (o.bind (sub g name)).map (shape e) := by
  cases o with
  | none => rfl
  | some v => exact sub_shape g e name v

theorem linkHasNs_shape (l : Val α) : linkHasNs g X.shaped (shape X.empty l) = linkHasNs g X l := by
  unfold linkHasNs
  rw [shaped_variantField, shaped_workflowEventField, shaped_namespaceField, shaped_empty]
  rw [sub_shape, bind_sub_shape, bind_sub_shape]
  cases h : ((sub g X.variantField l).bind (sub g X.workflowEventField)).bind (sub g X.namespaceField) with
  | none => rfl
  | some w =>
    cases w <;> try rfl
    case str s =>
      rw [Option.map_some, shape_str]
      dsimp only
      unfold shapeStr
      by_cases hs : s = X.empty
      · simp [hs]
      · rw [if_neg hs]
        have h1 : (s != X.empty) = true := bne_iff_ne.2 hs
        rw [h1]
        show (!decide ((some X.empty : Option α) = none)) = true
        simp

theorem any_linkHasNs_shape (links : List (Val α)) :
    (shapeL X.empty links).any (linkHasNs g X.shaped) = links.any (linkHasNs g X) := by
  induction links with
  | nil => rfl
  | cons l ls ih =>
    rw [shapeL_cons, List.any_cons, List.any_cons, linkHasNs_shape, ih]

theorem evLinked_shape (v : Val α) : evLinked g X.shaped (shape X.empty v) = evLinked g X v := by
  unfold evLinked
  rw [sub_shape]
  cases h : sub g g.linksField v with
  | none => rfl
  | some w =>
    cases w <;> try rfl
    case list links => exact any_linkHasNs_shape g X links

theorem evSkipTy_shape (v : Val α) : evSkipTy g tb X.shaped (shape X.empty v) = evSkipTy g tb X v := by
  unfold evSkipTy
  rw [shaped_eventTypeField, sub_shape]
  cases h : sub g X.eventTypeField v with
  | none => rfl
  | some w => cases w <;> rfl

theorem evSkippable_shape (v : Val α) : evSkippable g tb X.shaped (shape X.empty v) = evSkippable g tb X v := by
  unfold evSkippable
  rw [evLinked_shape, evSkipTy_shape]

theorem listSkippable_shape (l : List (Val α)) : listSkippable g tb X.shaped (shapeL X.empty l) = listSkippable g tb X l := by
  unfold listSkippable
  induction l with
  | nil => rfl
  | cons v vs ih => rw [shapeL_cons, List.all_cons, List.all_cons, evSkippable_shape, ih]

/-- the visitor keeps the shape, provided the matcher keeps emptiness -/
theorem shape_visit (e : α) (hE : ∀ s, shapeStr e (app mt s).1 = shapeStr e s) :
    (∀ v : Val α, ∀ fc, shape e (visitNs g tb X mt fc v).1 = shape e v) ∧
    (∀ l : List (Val α),
      (∀ mode fds, shapeL e (visitNsFields g tb X mt mode fds l).1 = shapeL e l) ∧
      (∀ mode, shapeL e (visitNsItems g tb X mt mode l).1 = shapeL e l)) := by
  have hstr : ∀ ni f s, shapeStr e (nsStrStep g tb mt ni f s).1 = shapeStr e s := by
    intro ni f s
    unfold nsStrStep
    by_cases h1 : (ni && f.go == g.nameField && f.goString) = true <;>
      by_cases h2 : isNsLeafField tb f = true <;> simp [h1, h2, hE]
  have hblob : ∀ re evs, shapeL e (visitNsItems g tb X mt .plain evs).1 = shapeL e evs →
      shape e (nsBlobStep g tb X mt re evs).1 = shape e (.blobEv re evs) := by
    intro re evs h
    unfold nsBlobStep
    rcases blobResult_cases re evs (listSkippable g tb X evs) (visitNsItems g tb X mt .plain evs) with ⟨h1, _⟩ | ⟨h1, _⟩
    · rw [h1]
    · rw [h1]; show Val.blobEv false (shapeL e _) = Val.blobEv false (shapeL e _); rw [h]
  apply Val.ind2
  · intro s fc
    cases fc with
    | none => rfl
    | some f =>
      rw [visitNs_str_some]
      show Val.str (shapeStr e _) = Val.str (shapeStr e s)
      rw [hstr]
  · intro t fc; rfl
  · intro t fc; rfl
  · intro k fc; rfl
  · intro ty fs ih fc
    rw [visitNs_msg]
    show Val.msg ty (shapeL e _) = Val.msg ty (shapeL e fs)
    rw [ih.1]
  · intro l ih fc
    rw [visitNs_list]
    show Val.list (shapeL e _) = Val.list (shapeL e l)
    rw [ih.2]
  · intro l ih fc
    rw [visitNs_map]
    show Val.map (shapeL e _) = Val.map (shapeL e l)
    rw [ih.2]
  · intro k v ih fc
    rw [visitNs_kv]
    show Val.kv (some k) (shape e _) = Val.kv (some k) (shape e v)
    rw [ih none]
  · intro b t fc; rfl
  · intro re evs ih fc
    rw [visitNs_blobEv]
    split
    · exact hblob re evs (ih.2 .plain)
    · rfl
  · refine ⟨fun mode fds => ?_, fun mode => rfl⟩
    cases fds with
    | nil => rw [visitNsFields_nil]
    | cons f fds => rw [visitNsFields_nil']
  · intro v vs ihv ihk ihvs
    refine ⟨?_, ?_⟩
    · intro mode fds
      cases fds with
      | nil => rw [visitNsFields_nil]
      | cons f fds =>
        rw [visitNsFields_cons, shapeL_cons, shapeL_cons, ihvs.1 mode fds]
        congr 1
        cases mode with
        | plain => exact ihv (some f)
        | nsInfo =>
          cases v with
          | str s =>
            rw [nsFieldStep_nsInfo_str]
            show Val.str (shapeStr e _) = Val.str (shapeStr e s)
            rw [hstr]
          | _ => exact ihv (some f)
        | hist =>
          cases v with
          | list items =>
            rw [nsFieldStep_hist_list]
            split
            · show Val.list (shapeL e _) = Val.list (shapeL e items)
              congr 1
              exact ihk.2 .events
            · rfl
          | _ => rfl
    · intro mode
      rw [visitNsItems_cons, shapeL_cons, shapeL_cons, ihvs.2 mode]
      congr 1
      cases mode with
      | plain => exact ihv none
      | events =>
        rw [nsItemStep_events]
        split
        · rfl
        · exact ihv none
      | blobs =>
        cases v with
        | blobEv re evs => exact hblob re evs (ihk.2 .plain)
        | _ => exact ihv none

/-- a matcher keeps emptiness -/
def KeepsEmpty (e : α) : Prop := ∀ s, ((app mt s).1 = e ↔ s = e)

theorem shapeStr_of_keepsEmpty (e : α) (h : KeepsEmpty mt e) (s : α) : shapeStr e (app mt s).1 = shapeStr e s := by
  unfold shapeStr
  by_cases hs : s = e
  · rw [if_pos hs, if_pos ((h s).2 hs)]
  · rw [if_neg hs, if_neg (fun h' => hs ((h s).1 h'))]

theorem evSkippable_visit (h : KeepsEmpty mt X.empty) (v : Val α) (fc : Option FieldD) :
    evSkippable g tb X (visitNs g tb X mt fc v).1 = evSkippable g tb X v := by
  rw [← evSkippable_shape, ← evSkippable_shape g tb X v,
    (shape_visit g tb X mt X.empty (shapeStr_of_keepsEmpty mt X.empty h)).1 v fc]

theorem listSkippable_visit (h : KeepsEmpty mt X.empty) (l : List (Val α)) (mode : IMode) :
    listSkippable g tb X (visitNsItems g tb X mt mode l).1 = listSkippable g tb X l := by
  rw [← listSkippable_shape, ← listSkippable_shape g tb X l,
    ((shape_visit g tb X mt X.empty (shapeStr_of_keepsEmpty mt X.empty h)).2 l).2 mode]

end S2S.TranslateVal
