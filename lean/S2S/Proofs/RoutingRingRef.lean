import S2S.Proofs.RoutingRingSpec
import S2S.Proofs.RingAgg
/-!
Pure lemmas for C05R: the relation `RRel` between the routing model's abstract ring (plus
`nextProxyId`) and the C05 reference `Ref` computed from the ghost op history, its preservation by
`append` / `aggregate` / `discard`, and the two read-outs (`expected`, `expectedCount`).
-/
namespace S2S.Routing

open S2S.Ring (Op Entry Key Ref Good)

abbrev ARing := List (Int × SId × Int)

/-! ### look-ups and state frames (local copies: this development imports no other routing proof, so it
    can be loaded next to any of them) -/

theorem rr_aget_nil {α} (k : Nat) : aget ([] : List (Nat × α)) k = none := rfl

theorem rr_aget_cons {α} (k' : Nat) (v' : α) (l : List (Nat × α)) (k : Nat) :
    aget ((k', v') :: l) k = if k' = k then some v' else aget l k := by
  unfold aget
  by_cases h : k' = k
  · simp [h]
  · simp [h]

theorem rr_tgt_setTgt (σ : State) (t : TId) (x : Target) (t' : TId) :
    (σ.setTgt t x).tgt t' = if t' = t ∧ t < σ.targets.length then x else σ.tgt t' := by
  simp only [State.tgt, State.setTgt, List.getD_eq_getElem?_getD, List.getElem?_set]
  by_cases h : t = t'
  · subst h
    by_cases h2 : t < σ.targets.length
    · simp [h2]
    · simp [h2]
  · have : ¬ t' = t := fun e => h e.symm
    simp [h, this]

theorem rr_tgt_default_of_ge (σ : State) {t : TId} (h : σ.targets.length ≤ t) : σ.tgt t = {} := by
  simp [State.tgt, List.getD_eq_getElem?_getD, List.getElem?_eq_none h]

theorem rr_tgt_init (ns nt : Nat) (t : TId) : (State.init ns nt).tgt t = {} := by
  simp only [State.tgt, State.init, List.getD_eq_getElem?_getD, List.getElem?_replicate]
  split <;> rfl

/-- the ring's proxy ids are `lo, lo+1, lo+2, …` -/
def Contig : Int → ARing → Prop
  | _, [] => True
  | lo, e :: r => e.1 = lo ∧ Contig (lo + 1) r

theorem contig_append {lo : Int} {l : ARing} {e : Int × SId × Int} :
    Contig lo (l ++ [e]) ↔ Contig lo l ∧ e.1 = lo + (l.length : Int) := by
  induction l generalizing lo with
  | nil => simp [Contig]
  | cons a r ih =>
    simp only [List.cons_append, Contig, ih, List.length_cons, Int.natCast_succ]
    constructor
    · rintro ⟨h1, h2, h3⟩; exact ⟨⟨h1, h2⟩, by omega⟩
    · rintro ⟨⟨h1, h2⟩, h3⟩; exact ⟨h1, h2, by omega⟩

theorem contig_mem_ge {lo : Int} {l : ARing} (h : Contig lo l) : ∀ e ∈ l, lo ≤ e.1 := by
  induction l generalizing lo with
  | nil => intro e he; cases he
  | cons a r ih =>
    intro e he
    rcases List.mem_cons.1 he with he | he
    · subst he; have := h.1; omega
    · have := ih h.2 e he; omega

/-- on a contiguous ring, "proxy id ≥ lo + d" is "not among the first d" -/
theorem contig_filter_ge {lo : Int} {l : ARing} (h : Contig lo l) (d : Nat) :
    l.filter (fun e => decide (lo + (d : Int) ≤ e.1)) = l.drop d := by
  induction l generalizing lo d with
  | nil => simp
  | cons a r ih =>
    cases d with
    | zero =>
      simp only [List.drop_zero]
      rw [List.filter_eq_self]
      intro e he
      have := contig_mem_ge h e he
      simp only [decide_eq_true_eq]; omega
    | succ d =>
      have h1 := h.1
      rw [List.filter_cons_of_neg (by simp only [decide_eq_true_eq]; omega), List.drop_succ_cons]
      have := ih h.2 d
      rw [← this]
      congr 1; funext e; congr 1
      apply propext; constructor <;> intro <;> omega

theorem contig_drop {lo : Int} {l : ARing} (h : Contig lo l) (d : Nat) (hd : d ≤ l.length) :
    Contig (lo + (d : Int)) (l.drop d) := by
  induction l generalizing lo d with
  | nil => simp [Contig]
  | cons a r ih =>
    cases d with
    | zero => simpa using h
    | succ d =>
      simp only [List.drop_succ_cons]
      have := ih h.2 d (by simpa using hd)
      have e : lo + ((d + 1 : Nat) : Int) = lo + 1 + (d : Int) := by omega
      rw [e]; exact this

/-- on a contiguous ring, the prefix scan of `aggregate` is a filter, and a `take` -/
theorem contig_takeWhile {lo : Int} {l : ARing} (h : Contig lo l) (w : Int) :
    l.takeWhile (fun e => decide (e.1 ≤ w)) = l.filter (fun e => decide (e.1 ≤ w)) := by
  induction l generalizing lo with
  | nil => rfl
  | cons a r ih =>
    by_cases ha : a.1 ≤ w
    · rw [List.takeWhile_cons_of_pos (by simpa using ha), List.filter_cons_of_pos (by simpa using ha),
        ih h.2]
    · rw [List.takeWhile_cons_of_neg (by simpa using ha), List.filter_cons_of_neg (by simpa using ha)]
      symm
      rw [List.filter_eq_nil_iff]
      intro e he
      have := contig_mem_ge h.2 e he
      have := h.1
      simp only [decide_eq_true_eq]; omega

theorem contig_takeWhile_length {lo : Int} {l : ARing} (h : Contig lo l) (w : Int) :
    (l.takeWhile (fun e => decide (e.1 ≤ w))).length =
      if w < lo then 0 else if w - lo + 1 > (l.length : Int) then l.length else (w - lo + 1).toNat := by
  induction l generalizing lo with
  | nil =>
    simp only [List.takeWhile_nil, List.length_nil]
    split
    · rfl
    · split <;> omega
  | cons a r ih =>
    have h1 := h.1
    by_cases ha : a.1 ≤ w
    · rw [List.takeWhile_cons_of_pos (by simpa using ha), List.length_cons, ih h.2]
      simp only [List.length_cons, Int.natCast_succ]
      split <;> split <;> (try split) <;> (try split) <;> omega
    · rw [List.takeWhile_cons_of_neg (by simpa using ha)]
      rw [if_pos (by omega)]; rfl

/-! ### the relation -/

/-- abstract ring + `nextProxyId` of one target  vs  the C05 reference of its op history -/
structure RRel (ring : ARing) (npid : Int) (r : Ref) : Prop where
  out    : ring.map ringPair = r.out
  contig : Contig r.lo ring
  hi     : r.hi = r.lo + (ring.length : Int)
  le     : r.hi ≤ npid + 1
  eq     : ring ≠ [] → r.hi = npid + 1
  lo0    : 0 ≤ r.lo
  np0    : 0 ≤ npid
  lo1    : ring ≠ [] → 1 ≤ r.lo

theorem rrel_init : RRel [] 0 {} :=
  ⟨rfl, trivial, rfl, by decide, fun h => absurd rfl h, by decide, by decide, fun h => absurd rfl h⟩

theorem ringEntry_not_hole (s : SId) (o : Int) : (ringEntry s o).isHole = false := by
  simp [ringEntry, Entry.isHole]

/-- one `Append` of the sender: id `npid + 1` -/
theorem rrel_append {ring : ARing} {npid : Int} {r : Ref} (h : RRel ring npid r) (s : SId) (o : Int) :
    (r.hi = r.lo ∨ r.hi ≤ npid + 1) ∧
    RRel (ring ++ [(npid + 1, s, o)]) (npid + 1) (r.step (.append (npid + 1) (ringEntry s o))) := by
  refine ⟨Or.inr h.le, ?_⟩
  have hhi := h.hi
  have hnp := h.np0
  have hlo := h.lo0
  by_cases hr : ring = []
  · subst hr
    have e : r.hi = r.lo := by simpa using hhi
    refine ⟨?_, ?_, ?_, ?_, ?_, ?_, ?_, ?_⟩
    · simp only [Ref.step, List.map_append, h.out]; rfl
    · simp [Ref.step, e, Contig]
    · simp [Ref.step, e]
    · simp [Ref.step]
    · intro _; simp [Ref.step]
    · simp only [Ref.step, e, if_true]; omega
    · omega
    · intro _; simp only [Ref.step, e, if_true]; omega
  · have e := h.eq hr
    have hne : ¬ r.hi = r.lo := by
      have : 0 < ring.length := List.length_pos_iff.2 hr
      omega
    refine ⟨?_, ?_, ?_, ?_, ?_, ?_, ?_, ?_⟩
    · simp only [Ref.step, List.map_append, h.out]; rfl
    · simp only [Ref.step, if_neg hne]
      rw [contig_append]; exact ⟨h.contig, by simp only; omega⟩
    · simp only [Ref.step, if_neg hne, List.length_append, List.length_cons, List.length_nil]
      omega
    · simp [Ref.step]
    · intro _; simp [Ref.step]
    · simp only [Ref.step, if_neg hne]; exact hlo
    · omega
    · intro _; simp only [Ref.step, if_neg hne]; exact h.lo1 hr

/-- the entries `process` appends for a `.tasks s ids` message -/
def taskEntries (npid : Int) (s : SId) : List Int → ARing
  | [] => []
  | o :: rest => (npid + 1, s, o) :: taskEntries (npid + 1) s rest

theorem taskEntries_length (npid : Int) (s : SId) (ids : List Int) :
    (taskEntries npid s ids).length = ids.length := by
  induction ids generalizing npid with
  | nil => rfl
  | cons o rest ih => simp [taskEntries, ih]

theorem process_entries_eq (npid : Int) (s : SId) (ids : List Int) :
    (ids.zip ((List.range ids.length).map (fun (i : Nat) => npid + 1 + (i : Int)))).map
        (fun (o, p) => (p, s, o)) = taskEntries npid s ids := by
  induction ids generalizing npid with
  | nil => rfl
  | cons o rest ih =>
    rw [List.length_cons, List.range_succ_eq_map, List.map_cons, List.zip_cons_cons, List.map_cons,
      taskEntries, List.map_map]
    congr 1
    · simp
    · rw [← ih (npid + 1)]
      congr 2
      apply List.map_congr_left
      intro i _
      simp only [Function.comp, Int.natCast_succ]; omega

/-! ### histories grow at the end -/

theorem refRun_append (ops ops' : List Op) : Ref.run (ops ++ ops') = ops'.foldl Ref.step (Ref.run ops) := by
  simp [Ref.run, List.foldl_append]

theorem refRun_snoc (ops : List Op) (op : Op) : Ref.run (ops ++ [op]) = (Ref.run ops).step op := by
  simp [Ref.run, List.foldl_append]

theorem refGood_append (r : Ref) (ops ops' : List Op) :
    Good r (ops ++ ops') ↔ Good r ops ∧ Good (ops.foldl Ref.step r) ops' := by
  induction ops generalizing r with
  | nil => simp [Good]
  | cons op rest ih =>
    cases op with
    | append p e => simp only [List.cons_append, Good, ih, List.foldl_cons, and_assoc]
    | aggregate w => simp only [List.cons_append, Good, ih, List.foldl_cons]
    | discard n => simp only [List.cons_append, Good, ih, List.foldl_cons]

/-- the invariant: the history is inside C05's hypotheses and its reference matches the ring -/
def RInv (ring : ARing) (npid : Int) (ops : List Op) : Prop :=
  Good {} ops ∧ RRel ring npid (Ref.run ops)

theorem rinv_init : RInv [] 0 [] := ⟨trivial, rrel_init⟩

theorem rinv_append {ring : ARing} {npid : Int} {ops : List Op} (h : RInv ring npid ops) (s : SId) (o : Int) :
    RInv (ring ++ [(npid + 1, s, o)]) (npid + 1) (ops ++ [.append (npid + 1) (ringEntry s o)]) := by
  obtain ⟨h1, h2⟩ := rrel_append h.2 s o
  refine ⟨?_, ?_⟩
  · rw [refGood_append]
    refine ⟨h.1, ?_⟩
    show Good (Ref.run ops) _
    exact ⟨h1, ringEntry_not_hole s o, trivial⟩
  · rw [refRun_snoc]; exact h2

theorem rinv_tasks {ring : ARing} {npid : Int} {ops : List Op} (h : RInv ring npid ops) (s : SId)
    (ids : List Int) :
    RInv (ring ++ taskEntries npid s ids) (npid + (ids.length : Int)) (ops ++ taskOps npid s ids) := by
  induction ids generalizing ring npid ops with
  | nil => simpa [taskEntries, taskOps] using h
  | cons o rest ih =>
    have := ih (rinv_append h s o)
    simp only [taskEntries, taskOps, List.length_cons, Int.natCast_succ]
    rw [List.append_assoc, List.append_assoc] at this
    have e : npid + ((rest.length : Int) + 1) = npid + 1 + (rest.length : Int) := by omega
    rw [e]; exact this

theorem rinv_aggregate {ring : ARing} {npid : Int} {ops : List Op} (h : RInv ring npid ops) (w : Int) :
    RInv ring npid (ops ++ [.aggregate w]) := by
  refine ⟨?_, ?_⟩
  · rw [refGood_append]; exact ⟨h.1, trivial⟩
  · rw [refRun_snoc]; exact h.2

/-- `ring.drop d` is `Discard(d)` on the reference — for EVERY `d` (both sides clamp alike) -/
theorem rrel_discard {ring : ARing} {npid : Int} {r : Ref} (h : RRel ring npid r) (d : Nat) :
    RRel (ring.drop d) npid (r.step (.discard (d : Int))) := by
  have hhi := h.hi
  by_cases hd0 : d = 0
  · subst hd0; simpa [Ref.step] using h
  have hpos : ¬ ((d : Int) ≤ 0) := by omega
  by_cases hd : d ≤ ring.length
  · have hc : ¬ ((d : Int) > r.hi - r.lo) := by omega
    simp only [Ref.step, if_neg hpos, if_neg hc]
    refine ⟨?_, ?_, ?_, ?_, ?_, ?_, h.np0, ?_⟩
    · simp only
      rw [← h.out, ← contig_filter_ge h.contig d, List.filter_map]
      rfl
    · exact contig_drop h.contig d hd
    · simp only [List.length_drop]; omega
    · exact h.le
    · intro hne
      apply h.eq
      intro e; subst e; simp at hne
    · simp only; have := h.lo0; omega
    · intro hne
      have : 1 ≤ r.lo := h.lo1 (by intro e; subst e; simp at hne)
      simp only; omega
  · have hc : (d : Int) > r.hi - r.lo := by omega
    have hdrop : ring.drop d = [] := List.drop_eq_nil_of_le (by omega)
    simp only [Ref.step, if_neg hpos, if_pos hc, hdrop]
    refine ⟨?_, trivial, ?_, h.le, fun hne => absurd rfl hne, ?_, h.np0, fun hne => absurd rfl hne⟩
    · simp only [List.map_nil]
      symm
      rw [← h.out, List.filter_eq_nil_iff]
      intro x hx
      obtain ⟨e, he, rfl⟩ := List.mem_map.1 hx
      have hlt : e.1 < r.lo + (ring.length : Int) := by
        have := contig_filter_ge h.contig ring.length
        rw [List.drop_length, List.filter_eq_nil_iff] at this
        have := this e he
        simp only [decide_eq_true_eq] at this; omega
      intro hh
      have hh := of_decide_eq_true hh
      simp only [ringPair] at hh
      omega
    · simp only [List.length_nil]; omega
    · simp only; have := h.lo0; omega

theorem rinv_discard {ring : ARing} {npid : Int} {ops : List Op} (h : RInv ring npid ops) (d : Nat) :
    RInv (ring.drop d) npid (ops ++ [.discard (d : Int)]) := by
  refine ⟨?_, ?_⟩
  · rw [refGood_append]; exact ⟨h.1, trivial⟩
  · rw [refRun_snoc]; exact rrel_discard h.2 d

end S2S.Routing
