import S2S.Proofs.RoutingC03Safe
/-! Uniform frame facts about `step`: lengths, `started`, `lastHigh`/`active`. -/
namespace S2S.Routing

theorem started_setTgt {σ : State} {t : TId} {y : Target} (h : (σ.tgt t).started = true → y.started = true)
    (t0 : TId) (h0 : (σ.tgt t0).started = true) : ((σ.setTgt t y).tgt t0).started = true := by
  rw [tgt_setTgt]; split
  · rename_i h'; rw [h'.1] at h0; exact h h0
  · exact h0

theorem step_len {c : Cfg} {σ σ' : State} {a : Act} (h : step c σ a = some σ') :
    σ'.sources.length = σ.sources.length ∧ σ'.targets.length = σ.targets.length := by
  cases a <;> simp only [step] at h <;>
    (repeat' split at h) <;>
    first
    | (cases h; done)
    | (cases h; simp)

def Act.keepsStarted : Act → Bool
  | .openTgt _ | .breakTgt _ => false
  | _ => true

theorem started_tick (σ : State) (t0 : TId) (h0 : (σ.tgt t0).started = true) :
    ((State.mk (σ.sources.map tickSrc) (σ.targets.map tickTgt)).tgt t0).started = true := by
  rw [tgt_tick]; unfold tickTgt; split
  · exact h0
  · exact h0

theorem step_started {c : Cfg} {σ σ' : State} {a : Act} (ha : a.keepsStarted = true)
    (h : step c σ a = some σ') (t0 : TId) (h0 : (σ.tgt t0).started = true) :
    (σ'.tgt t0).started = true := by
  cases a
  case tick => rw [step_tick] at h; cases h; exact started_tick σ t0 h0
  case openTgt => cases ha
  case breakTgt => cases ha
  all_goals
    simp only [step] at h
    (repeat' split at h)
    all_goals first
      | (cases h; done)
      | (cases h; exact h0)
      | (cases h; exact started_setTgt (by exact fun h => h) t0 h0)
      | (cases h; exact started_setTgt (by exact fun _ => rfl) t0 h0)
      | (cases h; rw [tgt_setSrc]; exact started_setTgt (by exact fun h => h) t0 h0)
      | (cases h; rename_i m _ _; cases m <;> exact started_setTgt (by exact fun h => h) t0 h0)

/-- actions that leave every source's `lastHigh` and `active` alone -/
def Act.keepsHigh : Act → Bool
  | .recv _ _ _ | .openSrc _ | .breakSrc _ => false
  | _ => true

theorem frame_setSrc {σ : State} {s : SId} {x : Source} (h1 : x.lastHigh = (σ.src s).lastHigh)
    (h2 : x.active = (σ.src s).active) (s0 : SId) :
    ((σ.setSrc s x).src s0).lastHigh = (σ.src s0).lastHigh ∧ ((σ.setSrc s x).src s0).active = (σ.src s0).active := by
  rw [src_setSrc]; split
  · rename_i h'; rw [h'.1]; exact ⟨h1, h2⟩
  · exact ⟨rfl, rfl⟩

theorem step_src_frame {c : Cfg} {σ σ' : State} {a : Act} (ha : a.keepsHigh = true)
    (h : step c σ a = some σ') (s0 : SId) :
    (σ'.src s0).lastHigh = (σ.src s0).lastHigh ∧ (σ'.src s0).active = (σ.src s0).active := by
  cases a
  case tick =>
    rw [step_tick] at h; cases h
    rw [src_tick]; unfold tickSrc
    split
    · split <;> exact ⟨rfl, rfl⟩
    · exact ⟨rfl, rfl⟩
  case recv => cases ha
  case openSrc => cases ha
  case breakSrc => cases ha
  all_goals
    simp only [step] at h
    (repeat' split at h)
    all_goals first
      | (cases h; done)
      | (cases h; exact ⟨rfl, rfl⟩)
      | (cases h; exact frame_setSrc (by rfl) (by rfl) s0)
      | (cases h; rw [src_setTgt]; exact frame_setSrc (by rfl) (by rfl) s0)
      | (cases h; exact frame_setSrc (σ := σ.setTgt _ _) (by rfl) (by rfl) s0)

end S2S.Routing
