import S2S.Proofs.TranslateValEq
/-! C13 (value level): the namespace visitor changes nothing but namespace-name leaves (and re-encoded marks). -/
set_option linter.unusedSectionVars false
namespace S2S.TranslateVal
open S2S.Translate S2S.NameMap
variable {α : Type} [DecidableEq α] (g : Graph) (tb : Tables) (X : Ext α) (mt : α → α × Bool) (c : α → α)

def eraseFieldStep (ni : Bool) (f : FieldD) (v : Val α) : Val α :=
  match v with
  | .str s => if nsLeafOf g tb ni f then Val.str (c s) else .str s
  | w => eraseV g tb c (some f) w

theorem eraseFields_cons (ni : Bool) (f : FieldD) (fds : List FieldD) (v : Val α) (vs : List (Val α)) :
    eraseFields g tb c ni (f :: fds) (v :: vs) = eraseFieldStep g tb c ni f v :: eraseFields g tb c ni fds vs := by
  cases v <;> rfl
theorem eraseFields_nil (ni : Bool) (vs : List (Val α)) : eraseFields g tb c ni [] vs = vs := by cases vs <;> rfl
theorem eraseItems_cons (v : Val α) (vs : List (Val α)) :
    eraseItems g tb c (v :: vs) = eraseV g tb c none v :: eraseItems g tb c vs := rfl
theorem eraseV_str_some (f : FieldD) (s : α) :
    eraseV g tb c (some f) (.str s) = if isNsLeafField tb f then .str (c s) else .str s := rfl
theorem eraseV_msg (fc : Option FieldD) (ty : Nat) (fs : List (Val α)) :
    eraseV g tb c fc (.msg ty fs) = .msg ty (eraseFields g tb c (ty == g.namespaceInfo) (g.typeD ty).fields fs) := rfl
theorem eraseV_list (fc : Option FieldD) (l : List (Val α)) : eraseV g tb c fc (.list l) = .list (eraseItems g tb c l) := rfl
theorem eraseV_map (fc : Option FieldD) (l : List (Val α)) : eraseV g tb c fc (.map l) = .map (eraseItems g tb c l) := rfl
theorem eraseV_kv (fc : Option FieldD) (k : α) (v : Val α) : eraseV g tb c fc (.kv k v) = .kv k (eraseV g tb c none v) := rfl
theorem eraseV_blobEv (fc : Option FieldD) (re : Bool) (l : List (Val α)) :
    eraseV g tb c fc (.blobEv re l) = .blobEv false (eraseItems g tb c l) := rfl

/-- a string field after the visitor's step erases to the same thing -/
theorem erase_strStep (hc : ∀ s, c (app mt s).1 = c s) (ni ni' : Bool) (hn : ni = true → ni' = true) (f : FieldD) (s : α) :
    eraseFieldStep g tb c ni' f (.str (nsStrStep g tb mt ni f s).1) = eraseFieldStep g tb c ni' f (.str s) := by
  unfold eraseFieldStep nsStrStep nsLeafOf
  by_cases h1 : (ni && f.go == g.nameField && f.goString) = true
  · have h1' : (ni' && f.go == g.nameField && f.goString) = true := by
      simp only [Bool.and_eq_true] at h1 ⊢
      exact ⟨⟨hn h1.1.1, h1.1.2⟩, h1.2⟩
    by_cases h2 : isNsLeafField tb f = true <;> simp [h1, h1', h2, hc]
  · by_cases h2 : isNsLeafField tb f = true
    · simp [h1, h2, hc]
    · simp only [h1, h2]
      simp

theorem eraseFieldStep_blob (ni : Bool) (f : FieldD) (re : Bool) (evs : List (Val α)) :
    eraseFieldStep g tb c ni f (visitNs g tb X mt (some f) (.blobEv re evs)).1 =
      eraseV g tb c (some f) (visitNs g tb X mt (some f) (.blobEv re evs)).1 := by
  rw [visitNs_blobEv]
  split
  · unfold nsBlobStep
    rcases blobResult_cases re evs (listSkippable g tb X evs) (visitNsItems g tb X mt .plain evs) with ⟨h, _⟩ | ⟨h, _⟩ <;> rw [h] <;> rfl
  · rfl

theorem erase_visit (hc : ∀ s, c (app mt s).1 = c s) :
    (∀ v : Val α, ∀ fc, eraseV g tb c fc (visitNs g tb X mt fc v).1 = eraseV g tb c fc v) ∧
    (∀ l : List (Val α),
      (∀ mode fds ni, (mode = FMode.nsInfo → ni = true) →
        eraseFields g tb c ni fds (visitNsFields g tb X mt mode fds l).1 = eraseFields g tb c ni fds l) ∧
      (∀ mode, eraseItems g tb c (visitNsItems g tb X mt mode l).1 = eraseItems g tb c l)) := by
  apply Val.ind2
  · intro s fc
    cases fc with
    | none => rfl
    | some f =>
      rw [visitNs_str]
      by_cases h : isNsLeafField tb f = true <;> simp [eraseV_str_some, h, hc]
  · intro t fc; rfl
  · intro t fc; rfl
  · intro k fc; rfl
  · intro ty fs ih fc
    rw [visitNs_msg, eraseV_msg, eraseV_msg]
    congr 1
    apply ih.1
    intro h
    unfold nsMode at h
    split at h
    · cases h
    · split at h
      · assumption
      · cases h
  · intro l ih fc
    rw [visitNs_list, eraseV_list, eraseV_list]
    congr 1
    exact ih.2 _
  · intro l ih fc
    rw [visitNs_map, eraseV_map, eraseV_map]
    congr 1
    exact ih.2 _
  · intro k v ih fc
    rw [visitNs_kv, eraseV_kv, eraseV_kv]
    congr 1
    exact ih none
  · intro e t fc; rfl
  · intro re evs ih fc
    rw [visitNs_blobEv]
    split
    · unfold nsBlobStep
      rcases blobResult_cases re evs (listSkippable g tb X evs) (visitNsItems g tb X mt .plain evs) with ⟨h, _⟩ | ⟨h, _⟩
      · rw [h]
      · rw [h, eraseV_blobEv, eraseV_blobEv]; congr 1; exact ih.2 _
    · rfl
  · refine ⟨fun mode fds ni _ => ?_, fun mode => rfl⟩
    cases fds with
    | nil => rw [visitNsFields_nil]
    | cons f fds => rw [visitNsFields_nil']
  · intro v vs ihv ihk ihvs
    refine ⟨?_, ?_⟩
    · intro mode fds ni hni
      cases fds with
      | nil => rw [visitNsFields_nil]
      | cons f fds =>
        rw [visitNsFields_cons, eraseFields_cons, eraseFields_cons]
        congr 1
        · cases mode with
          | plain =>
            show eraseFieldStep g tb c ni f (visitNs g tb X mt (some f) v).1 = _
            cases v with
            | str s =>
              rw [visitNs_str_some]
              exact erase_strStep g tb mt c hc false ni (by intro h; cases h) f s
            | blobEv re evs => rw [eraseFieldStep_blob]; exact ihv (some f)
            | _ => exact ihv (some f)
          | nsInfo =>
            have hni' := hni rfl
            cases v with
            | str s => exact erase_strStep g tb mt c hc true ni (fun _ => hni') f s
            | blobEv re evs =>
              show eraseFieldStep g tb c ni f (visitNs g tb X mt (some f) (.blobEv re evs)).1 = _
              rw [eraseFieldStep_blob]; exact ihv (some f)
            | _ => exact ihv (some f)
          | hist =>
            cases v with
            | list items =>
              rw [nsFieldStep_hist_list]
              split
              · show Val.list (eraseItems g tb c _) = Val.list (eraseItems g tb c _)
                congr 1
                exact ihk.2 _
              · rfl
            | _ => rfl
        · exact ihvs.1 mode fds ni hni
    · intro mode
      rw [visitNsItems_cons, eraseItems_cons, eraseItems_cons]
      congr 1
      · cases mode with
        | plain => exact ihv none
        | events =>
          rw [nsItemStep_events]
          split
          · rfl
          · exact ihv none
        | blobs =>
          cases v with
          | blobEv re evs =>
            show eraseV g tb c none (nsBlobStep g tb X mt re evs).1 = _
            unfold nsBlobStep
            rcases blobResult_cases re evs (listSkippable g tb X evs) (visitNsItems g tb X mt .plain evs) with ⟨h, _⟩ | ⟨h, _⟩
            · rw [h]
            · rw [h, eraseV_blobEv, eraseV_blobEv]; congr 1; exact ihk.2 _
          | _ => exact ihv none
      · exact ihvs.2 mode

end S2S.TranslateVal
