import S2S.Spec.Routing
/-!
Helper lemmas for the C01 invariant proof: association lists, `minVal`, `aggregate`,
`groupByOwner`, `seed`, `StrictInc`, and frame lemmas for `State.src/tgt/setSrc/setTgt`.
-/
namespace S2S.Routing

/-! ### aget / aset -/

theorem aget_nil {α} (k : Nat) : aget ([] : List (Nat × α)) k = none := rfl

theorem aget_cons {α} (k' : Nat) (v' : α) (l : List (Nat × α)) (k : Nat) :
    aget ((k', v') :: l) k = if k' = k then some v' else aget l k := by
  unfold aget
  by_cases h : k' = k
  · simp [h]
  · simp [h]

theorem aget_some_mem {α} {l : List (Nat × α)} {k : Nat} {v : α} (h : aget l k = some v) :
    (k, v) ∈ l := by
  induction l with
  | nil => simp [aget_nil] at h
  | cons p r ih =>
    obtain ⟨k', v'⟩ := p
    rw [aget_cons] at h
    by_cases hk : k' = k
    · simp [hk] at h; subst hk; subst h; exact List.mem_cons_self
    · simp [hk] at h; exact List.mem_cons_of_mem _ (ih h)

theorem aget_aset {α} (l : List (Nat × α)) (k : Nat) (v : α) (k' : Nat) :
    aget (aset l k v) k' = if k' = k then some v else aget l k' := by
  induction l with
  | nil =>
    simp only [aset, aget_cons, aget_nil]
    by_cases h : k = k' <;> simp [h, eq_comm]
  | cons p r ih =>
    obtain ⟨k0, v0⟩ := p
    simp only [aset]
    by_cases h0 : k0 = k
    · subst h0
      simp only [beq_self_eq_true, if_true, aget_cons]
      by_cases h1 : k0 = k'
      · subst h1; simp
      · have : ¬ k' = k0 := fun e => h1 e.symm
        simp [h1, this]
    · have : (k0 == k) = false := by simp [h0]
      simp only [this, Bool.false_eq_true, if_false, aget_cons, ih]
      by_cases h1 : k0 = k'
      · subst h1; simp [h0]
      · simp [h1]

theorem mem_aset {α} {l : List (Nat × α)} {k : Nat} {v : α} {k' : Nat} {v' : α}
    (h : (k', v') ∈ aset l k v) : (k', v') ∈ l ∨ (k' = k ∧ v' = v) := by
  induction l with
  | nil => simp [aset] at h; exact Or.inr h
  | cons p r ih =>
    obtain ⟨k0, v0⟩ := p
    simp only [aset] at h
    by_cases h0 : k0 = k
    · subst h0
      simp only [beq_self_eq_true, if_true, List.mem_cons] at h
      rcases h with h | h
      · right; simpa using h
      · left; exact List.mem_cons_of_mem _ h
    · have : (k0 == k) = false := by simp [h0]
      simp only [this, Bool.false_eq_true, if_false, List.mem_cons] at h
      rcases h with h | h
      · left; rw [h]; exact List.mem_cons_self
      · rcases ih h with h | h
        · left; exact List.mem_cons_of_mem _ h
        · right; exact h

theorem mem_aset_self {α} (l : List (Nat × α)) (k : Nat) (v : α) : (k, v) ∈ aset l k v := by
  apply aget_some_mem
  rw [aget_aset]; simp

theorem aget_filter_ne {α} (l : List (Nat × α)) (k k' : Nat) :
    aget (l.filter (fun p => p.1 != k)) k' = if k' = k then none else aget l k' := by
  induction l with
  | nil => simp [aget_nil]
  | cons p r ih =>
    obtain ⟨k0, v0⟩ := p
    by_cases h0 : k0 = k
    · subst h0
      simp only [List.filter_cons, bne_self_eq_false, Bool.false_eq_true, if_false, ih, aget_cons]
      by_cases h1 : k' = k0
      · simp [h1]
      · have : ¬ k0 = k' := fun e => h1 e.symm
        simp [h1, this]
    · have : (k0 != k) = true := by simp [h0]
      simp only [List.filter_cons, this, if_true, aget_cons, ih]
      by_cases h1 : k0 = k'
      · subst h1; simp [h0]
      · simp [h1]

theorem aget_of_isEmpty {α} {l : List (Nat × α)} (h : l.isEmpty = true) (k : Nat) : aget l k = none := by
  cases l with
  | nil => rfl
  | cons _ _ => simp at h

/-! ### minVal -/

theorem minVal_le {l : List (TId × Int)} {m : Int} (h : minVal l = some m) :
    ∀ p ∈ l, m ≤ p.2 := by
  induction l generalizing m with
  | nil => simp [minVal] at h
  | cons q r ih =>
    obtain ⟨t, v⟩ := q
    simp only [minVal] at h
    intro p hp
    cases hr : minVal r with
    | none =>
      rw [hr] at h
      simp only [Option.some.injEq] at h
      cases r with
      | nil =>
        simp only [List.mem_cons, List.not_mem_nil, or_false] at hp
        subst hp; subst h; exact Int.le_refl _
      | cons q' r' =>
        obtain ⟨t', v'⟩ := q'
        simp only [minVal] at hr
        cases h' : minVal r' <;> rw [h'] at hr <;> simp at hr
    | some m0 =>
      rw [hr] at h
      simp only [Option.some.injEq] at h
      have ih' := ih hr
      rcases List.mem_cons.1 hp with hp | hp
      · subst hp; subst h; simp only; split <;> omega
      · have := ih' p hp
        subst h; split <;> omega

/-! ### aggInsert / aggregate -/

theorem mem_aggInsert {acc : List (SId × Int)} {s0 : SId} {v0 : Int} {s : SId} {v : Int}
    (h : (s, v) ∈ aggInsert acc s0 v0) : (s, v) ∈ acc ∨ (s = s0 ∧ v = v0) := by
  induction acc with
  | nil => simp [aggInsert] at h; exact Or.inr h
  | cons q r ih =>
    obtain ⟨s', v'⟩ := q
    simp only [aggInsert] at h
    by_cases h0 : s' = s0
    · subst h0
      simp only [beq_self_eq_true, if_true, List.mem_cons, Prod.mk.injEq] at h
      rcases h with ⟨h1, h2⟩ | h
      · by_cases hv : v0 > v'
        · simp only [hv, if_true] at h2; right; exact ⟨h1, h2⟩
        · simp only [hv, if_false] at h2; left; rw [h1, h2]; exact List.mem_cons_self
      · left; exact List.mem_cons_of_mem _ h
    · have : (s' == s0) = false := by simp [h0]
      simp only [this, Bool.false_eq_true, if_false, List.mem_cons] at h
      rcases h with h | h
      · left; rw [h]; exact List.mem_cons_self
      · rcases ih h with h | h
        · left; exact List.mem_cons_of_mem _ h
        · right; exact h

theorem mem_foldl_aggInsert {l : List (Int × SId × Int)} {acc : List (SId × Int)} {s : SId} {v : Int}
    (h : (s, v) ∈ l.foldl (fun acc e => aggInsert acc e.2.1 e.2.2) acc) :
    (s, v) ∈ acc ∨ ∃ p, (p, s, v) ∈ l := by
  induction l generalizing acc with
  | nil => left; simpa using h
  | cons e r ih =>
    simp only [List.foldl_cons] at h
    rcases ih h with h | ⟨p, hp⟩
    · rcases mem_aggInsert h with h | ⟨h1, h2⟩
      · left; exact h
      · right; refine ⟨e.1, ?_⟩
        rw [h1, h2]; exact List.mem_cons_self
    · right; exact ⟨p, List.mem_cons_of_mem _ hp⟩

theorem mem_aggregate {ring : List (Int × SId × Int)} {w : Int} {s : SId} {v : Int}
    (h : (s, v) ∈ (aggregate ring w).1) : ∃ p, p ≤ w ∧ (p, s, v) ∈ ring := by
  simp only [aggregate] at h
  rcases mem_foldl_aggInsert h with h | ⟨p, hp⟩
  · simp at h
  · have h1 := List.all_eq_true.1 (List.all_takeWhile (l := ring) (p := fun e => decide (e.1 ≤ w))) _ hp
    have h2 := (List.takeWhile_sublist _).subset hp
    exact ⟨p, by simpa using h1, h2⟩

/-! ### groupByOwner -/

def ownedIds (tasks : List (Int × TId)) (t : TId) : List Int :=
  (tasks.filter (fun p => p.2 == t)).map (·.1)

theorem ownedIds_cons (id : Int) (t0 : TId) (rest : List (Int × TId)) (t : TId) :
    ownedIds ((id, t0) :: rest) t = if t0 = t then id :: ownedIds rest t else ownedIds rest t := by
  unfold ownedIds
  by_cases h : t0 = t <;> simp [h]

theorem mem_ownedIds {tasks : List (Int × TId)} {t : TId} {id : Int} :
    id ∈ ownedIds tasks t ↔ (id, t) ∈ tasks := by
  unfold ownedIds
  simp only [List.mem_map, List.mem_filter, beq_iff_eq]
  constructor
  · rintro ⟨⟨a, b⟩, ⟨h1, h2⟩, h3⟩
    simp only at h2 h3; subst h2; subst h3; exact h1
  · intro h; exact ⟨(id, t), ⟨h, rfl⟩, rfl⟩

theorem aget_groupByOwner (tasks : List (Int × TId)) (t : TId) :
    aget (groupByOwner tasks) t = if ownedIds tasks t = [] then none else some (ownedIds tasks t) := by
  induction tasks generalizing t with
  | nil => simp [groupByOwner, ownedIds, aget_nil]
  | cons p rest ih =>
    obtain ⟨id, t0⟩ := p
    simp only [groupByOwner]
    rw [ownedIds_cons]
    cases hg : aget (groupByOwner rest) t0 with
    | some ids =>
      simp only
      rw [aget_aset]
      have ih0 := ih t0
      rw [hg] at ih0
      by_cases h : t = t0
      · subst h
        simp only [if_true]
        by_cases he : ownedIds rest t = []
        · simp [he] at ih0
        · simp only [he, if_false, Option.some.injEq] at ih0
          simp [ih0]
      · have h' : ¬ t0 = t := fun e => h e.symm
        simp only [h, h', if_false]
        exact ih t
    | none =>
      simp only
      rw [aget_cons]
      have ih0 := ih t0
      rw [hg] at ih0
      by_cases h : t0 = t
      · subst h
        simp only [if_true]
        by_cases he : ownedIds rest t0 = []
        · simp [he]
        · simp [he] at ih0
      · simp only [h, if_false]
        exact ih t

/-! ### seed -/

theorem aget_seed (m : List (TId × Int)) (g : List (TId × List Int)) (t : TId) :
    aget (seed m g) t = match aget m t with
      | some v => some v
      | none => (aget g t).map (fun ids => ids.headD 0) := by
  induction g generalizing m with
  | nil => simp only [seed, aget_nil, Option.map_none]; cases aget m t <;> rfl
  | cons p rest ih =>
    obtain ⟨t0, ids⟩ := p
    simp only [seed]
    rw [ih, aget_cons]
    cases h0 : aget m t0 with
    | some v0 =>
      simp only
      by_cases h : t0 = t
      · subst h; simp [h0]
      · simp only [h, if_false]
    | none =>
      simp only
      rw [aget_aset]
      by_cases h : t0 = t
      · subst h; simp [h0]
      · have h' : ¬ t = t0 := fun e => h e.symm
        simp only [h, h', if_false]

theorem mem_seed {m : List (TId × Int)} {g : List (TId × List Int)} {t : TId} {v : Int}
    (h : (t, v) ∈ seed m g) :
    (t, v) ∈ m ∨ (aget m t = none ∧ ∃ ids, aget g t = some ids ∧ v = ids.headD 0) := by
  induction g generalizing m with
  | nil => left; simpa [seed] using h
  | cons p rest ih =>
    obtain ⟨t0, ids⟩ := p
    simp only [seed] at h
    cases h0 : aget m t0 with
    | some v0 =>
      rw [h0] at h
      simp only at h
      rcases ih h with h | ⟨h1, ids', h2, h3⟩
      · left; exact h
      · right
        refine ⟨h1, ids', ?_, h3⟩
        rw [aget_cons]
        by_cases e : t0 = t
        · subst e; rw [h0] at h1; cases h1
        · simp [e, h2]
    | none =>
      rw [h0] at h
      simp only at h
      rcases ih h with h | ⟨h1, ids', h2, h3⟩
      · rcases mem_aset h with h | ⟨e1, e2⟩
        · left; exact h
        · right; subst e1
          refine ⟨h0, ids, ?_, e2⟩
          rw [aget_cons]; simp
      · rw [aget_aset] at h1
        by_cases e : t = t0
        · simp [e] at h1
        · simp only [e, if_false] at h1
          right
          refine ⟨h1, ids', ?_, h3⟩
          rw [aget_cons]
          have e' : ¬ t0 = t := fun x => e x.symm
          simp [e', h2]

/-! ### StrictInc -/

theorem StrictInc.head_lt {a : Int} {l : List Int} (h : StrictInc (a :: l)) : ∀ x ∈ l, a < x := by
  induction l generalizing a with
  | nil => intro x hx; cases hx
  | cons b r ih =>
    obtain ⟨h1, h2⟩ := h
    intro x hx
    rcases List.mem_cons.1 hx with hx | hx
    · subst hx; exact h1
    · have := ih h2 x hx; omega

theorem StrictInc.tail {a : Int} {l : List Int} (h : StrictInc (a :: l)) : StrictInc l := by
  cases l with
  | nil => trivial
  | cons b r => exact h.2

theorem StrictInc.pairwise {l : List Int} (h : StrictInc l) : l.Pairwise (· < ·) := by
  induction l with
  | nil => exact List.Pairwise.nil
  | cons a r ih => exact List.Pairwise.cons h.head_lt (ih h.tail)

theorem ownedIds_pairwise {tasks : List (Int × TId)} (h : StrictInc (tasks.map (·.1))) (t : TId) :
    (ownedIds tasks t).Pairwise (· < ·) := by
  unfold ownedIds
  exact List.Pairwise.sublist (List.Sublist.map _ List.filter_sublist) h.pairwise

theorem ownedIds_head_le {tasks : List (Int × TId)} (h : StrictInc (tasks.map (·.1))) (t : TId)
    {id : Int} (hid : id ∈ ownedIds tasks t) : (ownedIds tasks t).headD 0 ≤ id := by
  have hp := ownedIds_pairwise h t
  cases ho : ownedIds tasks t with
  | nil => rw [ho] at hid; cases hid
  | cons a r =>
    rw [ho] at hid hp
    simp only [List.headD_cons]
    rcases List.mem_cons.1 hid with e | e
    · omega
    · have := (List.pairwise_cons.1 hp).1 id e; omega

/-! ### State frames -/

theorem src_setSrc (σ : State) (s : SId) (x : Source) (s' : SId) :
    (σ.setSrc s x).src s' = if s' = s ∧ s < σ.sources.length then x else σ.src s' := by
  simp only [State.src, State.setSrc, List.getD_eq_getElem?_getD, List.getElem?_set]
  by_cases h : s = s'
  · subst h
    by_cases h2 : s < σ.sources.length
    · simp [h2]
    · simp [h2]
  · have : ¬ s' = s := fun e => h e.symm
    simp [h, this]

theorem tgt_setTgt (σ : State) (t : TId) (x : Target) (t' : TId) :
    (σ.setTgt t x).tgt t' = if t' = t ∧ t < σ.targets.length then x else σ.tgt t' := by
  simp only [State.tgt, State.setTgt, List.getD_eq_getElem?_getD, List.getElem?_set]
  by_cases h : t = t'
  · subst h
    by_cases h2 : t < σ.targets.length
    · simp [h2]
    · simp [h2]
  · have : ¬ t' = t := fun e => h e.symm
    simp [h, this]

@[simp] theorem tgt_setSrc (σ : State) (s : SId) (x : Source) (t : TId) :
    (σ.setSrc s x).tgt t = σ.tgt t := rfl

@[simp] theorem src_setTgt (σ : State) (t : TId) (x : Target) (s : SId) :
    (σ.setTgt t x).src s = σ.src s := rfl

@[simp] theorem sources_length_setSrc (σ : State) (s : SId) (x : Source) :
    (σ.setSrc s x).sources.length = σ.sources.length := by simp [State.setSrc]

@[simp] theorem targets_length_setSrc (σ : State) (s : SId) (x : Source) :
    (σ.setSrc s x).targets.length = σ.targets.length := rfl

@[simp] theorem sources_length_setTgt (σ : State) (t : TId) (x : Target) :
    (σ.setTgt t x).sources.length = σ.sources.length := rfl

@[simp] theorem targets_length_setTgt (σ : State) (t : TId) (x : Target) :
    (σ.setTgt t x).targets.length = σ.targets.length := by simp [State.setTgt]

theorem src_default_of_ge (σ : State) {s : SId} (h : σ.sources.length ≤ s) : σ.src s = {} := by
  simp [State.src, List.getD_eq_getElem?_getD, List.getElem?_eq_none h]

theorem tgt_default_of_ge (σ : State) {t : TId} (h : σ.targets.length ≤ t) : σ.tgt t = {} := by
  simp [State.tgt, List.getD_eq_getElem?_getD, List.getElem?_eq_none h]

theorem src_lt_of_ne (σ : State) {s : SId} (h : σ.src s ≠ {}) : s < σ.sources.length := by
  apply Classical.byContradiction; intro hn
  exact h (src_default_of_ge σ (Nat.le_of_not_lt hn))

theorem tgt_lt_of_ne (σ : State) {t : TId} (h : σ.tgt t ≠ {}) : t < σ.targets.length := by
  apply Classical.byContradiction; intro hn
  exact h (tgt_default_of_ge σ (Nat.le_of_not_lt hn))

theorem src_init (ns nt : Nat) (s : SId) : (State.init ns nt).src s = {} := by
  simp only [State.src, State.init, List.getD_eq_getElem?_getD, List.getElem?_replicate]
  split <;> rfl

theorem tgt_init (ns nt : Nat) (t : TId) : (State.init ns nt).tgt t = {} := by
  simp only [State.tgt, State.init, List.getD_eq_getElem?_getD, List.getElem?_replicate]
  split <;> rfl

end S2S.Routing
