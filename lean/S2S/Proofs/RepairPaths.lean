import S2S.Model.RepairPaths
import S2S.Proofs.Utf8Chain
/-! Generic part of C18: a pattern-driven visitor repairs every failure whose pattern it knows. -/
namespace S2S.RepairPaths
open S2S.Utf8

/-- the tree visitor is the flat visitor on the occurrences: positions, order and every failure the
    visitor has no pattern for are untouched -/
theorem occsFrom_visitFrom (paths : List (List Step)) (pre : List Step) (v : Val) :
    occsFrom pre (visitFrom paths id pre v) = runFlat paths (occsFrom pre v) := by
  induction v generalizing pre with
  | fail c =>
    simp only [visitFrom, id]
    by_cases h : pre ∈ paths <;> simp [h, occsFrom, runFlat]
  | nil => simp [visitFrom, occsFrom, runFlat]
  | child s v rest ihv ihr =>
    simp only [visitFrom, occsFrom, ihv, ihr]
    simp [runFlat]

theorem occs_runVisitor (paths : List (List Step)) (v : Val) :
    occs (runVisitor paths v) = runFlat paths (occs v) :=
  occsFrom_visitFrom paths [] v

theorem repairChain_valid (c : List Bytes) (h : c.length ≤ maxFailureDepth) : chainValid (repairChain c) = true := by
  have h1 : maxFailureDepth ≤ c.length → c.length = maxFailureDepth := by omega
  simp only [repairChain, repairFull_eq, chainValid, List.take_of_length_le h, List.drop_of_length_le h,
    List.append_nil, List.all_map, List.all_eq_true]
  intro m _
  exact validUtf8_toValidUtf8 m

theorem repairChain_length (c : List Bytes) : (repairChain c).length = c.length := by
  simp only [repairChain, repairFull_eq, List.length_append, List.length_map, List.length_take, List.length_drop]
  omega

/-- flat visitor: every occurrence keeps its label (nothing is added, dropped or reordered) -/
theorem runFlat_labels [DecidableEq P] (paths : List P) (v : List (Occ P)) :
    (runFlat paths v).map Prod.fst = v.map Prod.fst := by
  simp only [runFlat, List.map_map]
  apply List.map_congr_left
  intro o _
  simp only [Function.comp]
  split <;> rfl

/-- every occurrence whose label the visitor knows (chain within the supported depth) ends valid -/
theorem runFlat_valid [DecidableEq P] (paths : List P) (v : List (Occ P))
    (hd : ∀ o ∈ v, o.2.length ≤ maxFailureDepth) :
    ∀ o ∈ runFlat paths v, o.1 ∈ paths → chainValid o.2 = true := by
  intro o ho hp
  simp only [runFlat, List.mem_map] at ho
  obtain ⟨o', ho', rfl⟩ := ho
  by_cases h : o'.1 ∈ paths
  · simp only [h, if_true]
    exact repairChain_valid _ (hd o' ho')
  · simp only [h, if_false] at hp

theorem runFlat_untouched [DecidableEq P] (paths : List P) (v : List (Occ P)) :
    ∀ o ∈ v, o.1 ∉ paths → o ∈ runFlat paths v := by
  intro o ho hp
  simp only [runFlat, List.mem_map]
  exact ⟨o, ho, by simp [hp]⟩


/-! ### lifting the per-chunk `decide` checks -/

theorem covered_of_chunks (cs : List Chunk) (h : cs.all Chunk.ok = true) :
    ∀ rp ∈ oracleOf cs, rp ∈ measuredOf cs ∨ rp ∈ knownOf cs := by
  intro rp hrp
  simp only [oracleOf, List.mem_flatMap] at hrp
  obtain ⟨c, hc, hin⟩ := hrp
  have hok := List.all_eq_true.mp h c hc
  simp only [Chunk.ok, Bool.and_eq_true, List.all_eq_true] at hok
  have := hok.1 rp hin
  simp only [Bool.or_eq_true, List.contains_iff_mem] at this
  rcases this with h1 | h1
  · exact Or.inl (by simp only [measuredOf, List.mem_flatMap]; exact ⟨c, hc, h1⟩)
  · exact Or.inr (by simp only [knownOf, List.mem_flatMap]; exact ⟨c, hc, h1⟩)

theorem known_in_oracle_of_chunks (cs : List Chunk) (h : cs.all Chunk.ok = true) :
    ∀ rp ∈ knownOf cs, rp ∈ oracleOf cs := by
  intro rp hrp
  simp only [knownOf, List.mem_flatMap] at hrp
  obtain ⟨c, hc, hin⟩ := hrp
  have hok := List.all_eq_true.mp h c hc
  simp only [Chunk.ok, Bool.and_eq_true, List.all_eq_true] at hok
  have := hok.2 rp hin
  simp only [List.contains_iff_mem] at this
  simp only [oracleOf, List.mem_flatMap]
  exact ⟨c, hc, this.1⟩

theorem known_not_measured_of (cs : List Chunk)
    (h : (knownOf cs).all (fun p => !(measuredOf cs).contains p) = true) :
    ∀ rp ∈ knownOf cs, rp ∉ measuredOf cs := by
  intro rp hrp hm
  have := List.all_eq_true.mp h rp hrp
  simp [hm] at this

end S2S.RepairPaths
