import S2S.Proofs.RoutingRingAgg
/-!
C05R, the inductive step: every action of the routing machine (faults included) preserves the
relation between target `t`'s abstract ring and the C05 reference of its ghost op history.
-/
namespace S2S.Routing

open S2S.Ring (Op Entry Key Ref Good)

/-- per-target invariant: ring/history relation, and the discard count carried by `recvAck` never
    exceeds the ring's length -/
def TInv (tg : Target) (ops : List Op) : Prop :=
  RInv tg.ring tg.nextProxyId ops ∧
  ∀ todo d rec, tg.ackPc = .forwarding todo d rec → d ≤ tg.ring.length

theorem tinv_default : TInv {} [] := ⟨rinv_init, fun _ _ _ h => by cases h⟩

theorem TInv.frame {tg tg' : Target} {ops : List Op} (h : TInv tg ops) (h1 : tg'.ring = tg.ring)
    (h2 : tg'.nextProxyId = tg.nextProxyId) (h3 : tg'.ackPc = tg.ackPc) : TInv tg' ops := by
  unfold TInv; rw [h1, h2, h3]; exact h

theorem tinv_setTgt {σ : State} {t : TId} {ops' : List Op} (t' : TId) (x : Target)
    (hx : t' = t → TInv x ops') (hne : t' ≠ t → TInv (σ.tgt t) ops') (hge : σ.targets.length ≤ t' → TInv (σ.tgt t) ops') :
    TInv ((σ.setTgt t' x).tgt t) ops' := by
  rw [rr_tgt_setTgt]
  split
  · rename_i h; exact hx h.1.symm
  · rename_i h
    by_cases e : t' = t
    · apply hge; subst e
      apply Nat.le_of_not_lt; intro hl; exact h ⟨rfl, hl⟩
    · exact hne e

theorem tinv_step_recv (c : Cfg) (σ σ' : State) (t : TId) (ops : List Op) (s : SId) (tasks : List (Int × TId))
    (high : Int) (h : TInv (σ.tgt t) ops) (hs : step c σ (.recv s tasks high) = some σ') :
    TInv (σ'.tgt t) ops := by
  simp only [step] at hs
  split at hs
  · cases hs
  · split at hs <;> (cases hs; exact h)

/-- a `setTgt` that leaves ring, nextProxyId and ackPc of the written target alone -/
theorem tinv_setTgt_frame {σ : State} {t : TId} {ops : List Op} (h : TInv (σ.tgt t) ops) (t' : TId) (x : Target)
    (h1 : x.ring = (σ.tgt t').ring) (h2 : x.nextProxyId = (σ.tgt t').nextProxyId)
    (h3 : x.ackPc = (σ.tgt t').ackPc) : TInv ((σ.setTgt t' x).tgt t) ops := by
  apply tinv_setTgt t' x
  · intro e; subst e; exact h.frame h1 h2 h3
  · intro _; exact h
  · intro _; exact h

theorem tinv_step_bcastStep (c : Cfg) (σ σ' : State) (t : TId) (ops : List Op) (s : SId) (t' : TId)
    (h : TInv (σ.tgt t) ops) (hs : step c σ (.bcastStep s t') = some σ') :
    TInv (σ'.tgt t) ops := by
  simp only [step] at hs
  split at hs
  · split at hs
    · cases hs
    · split at hs
      · cases hs
        exact tinv_setTgt_frame (σ := σ.setSrc s _) h t' _ rfl rfl rfl
      · cases hs; exact h
  · cases hs

theorem tinv_step_deliver (c : Cfg) (σ σ' : State) (t : TId) (ops : List Op) (s : SId) (t' : TId)
    (h : TInv (σ.tgt t) ops) (hs : step c σ (.deliver s t') = some σ') :
    TInv (σ'.tgt t) ops := by
  simp only [step] at hs
  split at hs
  · split at hs
    · cases hs
    · split at hs
      · cases hs
      · cases hs
        exact tinv_setTgt_frame (σ := σ.setSrc s _) h t' _ rfl rfl rfl
  · cases hs

theorem tinv_step_emit (c : Cfg) (σ σ' : State) (t : TId) (ops : List Op) (t' : TId)
    (h : TInv (σ.tgt t) ops) (hs : step c σ (.emit t') = some σ') :
    TInv (σ'.tgt t) ops := by
  simp only [step] at hs
  split at hs
  · cases hs
  · cases hs
    exact tinv_setTgt_frame h t' _ rfl rfl rfl

theorem tinv_step_rack (c : Cfg) (σ σ' : State) (t : TId) (ops : List Op) (s : SId)
    (h : TInv (σ.tgt t) ops) (hs : step c σ (.rack s) = some σ') :
    TInv (σ'.tgt t) ops := by
  simp only [step] at hs
  split at hs
  · cases hs
  · split at hs
    · cases hs
    · split at hs
      · cases hs; exact h
      · split at hs <;> (cases hs; exact h)

theorem tinv_step_openSrc (c : Cfg) (σ σ' : State) (t : TId) (ops : List Op) (s : SId)
    (h : TInv (σ.tgt t) ops) (hs : step c σ (.openSrc s) = some σ') :
    TInv (σ'.tgt t) ops := by
  simp only [step] at hs
  split at hs
  · cases hs
  · cases hs; exact h

theorem tinv_step_breakSrc (c : Cfg) (σ σ' : State) (t : TId) (ops : List Op) (s : SId)
    (h : TInv (σ.tgt t) ops) (hs : step c σ (.breakSrc s) = some σ') :
    TInv (σ'.tgt t) ops := by
  simp only [step] at hs
  split at hs
  · cases hs
  · cases hs; exact h

theorem tinv_step_startTgt (c : Cfg) (σ σ' : State) (t : TId) (ops : List Op) (t' : TId)
    (h : TInv (σ.tgt t) ops) (hs : step c σ (.startTgt t') = some σ') :
    TInv (σ'.tgt t) ops := by
  simp only [step] at hs
  split at hs
  · cases hs
  · cases hs
    exact tinv_setTgt_frame h t' _ rfl rfl rfl

theorem tinv_step_replayStep (c : Cfg) (σ σ' : State) (t : TId) (ops : List Op) (t' : TId) (s : SId)
    (h : TInv (σ.tgt t) ops) (hs : step c σ (.replayStep t' s) = some σ') :
    TInv (σ'.tgt t) ops := by
  simp only [step] at hs
  split at hs
  · cases hs
  · split at hs
    · cases hs
    · split at hs
      · split at hs <;> (cases hs; exact tinv_setTgt_frame h t' _ rfl rfl rfl)
      · cases hs; exact tinv_setTgt_frame h t' _ rfl rfl rfl

theorem tinv_step_replayDone (c : Cfg) (σ σ' : State) (t : TId) (ops : List Op) (t' : TId)
    (h : TInv (σ.tgt t) ops) (hs : step c σ (.replayDone t') = some σ') :
    TInv (σ'.tgt t) ops := by
  simp only [step] at hs
  split at hs
  · cases hs
    exact tinv_setTgt_frame h t' _ rfl rfl rfl
  · cases hs

theorem tinv_step_tick (c : Cfg) (σ σ' : State) (t : TId) (ops : List Op)
    (h : TInv (σ.tgt t) ops) (hs : step c σ .tick = some σ') :
    TInv (σ'.tgt t) ops := by
  simp only [step] at hs
  cases hs
  simp only [State.tgt, List.getD_eq_getElem?_getD, List.getElem?_map]
  cases hg : σ.targets[t]? with
  | none =>
    have : σ.tgt t = {} := by simp [State.tgt, List.getD_eq_getElem?_getD, hg]
    rw [this] at h; simpa using h
  | some tg =>
    have : σ.tgt t = tg := by simp [State.tgt, List.getD_eq_getElem?_getD, hg]
    rw [this] at h
    simp only [Option.map_some, Option.getD_some]
    split
    · exact h.frame rfl rfl rfl
    · exact h

theorem tinv_step_ackFwd (c : Cfg) (σ σ' : State) (t : TId) (ops : List Op) (t' : TId) (s : SId)
    (h : TInv (σ.tgt t) ops) (hs : step c σ (.ackFwd t' s) = some σ') :
    TInv (σ'.tgt t) ops := by
  simp only [step] at hs
  split at hs
  · rename_i todo d rec hpc
    split at hs
    · cases hs
    · split at hs
      · cases hs
      · cases hs
        show TInv ((σ.setTgt t' _).tgt t) ops
        apply tinv_setTgt t' _
        · intro e; subst e
          refine ⟨h.1, ?_⟩
          intro todo' d' rec' e
          simp only [AckPc.forwarding.injEq] at e
          obtain ⟨_, e2, _⟩ := e
          subst e2
          exact h.2 _ _ _ hpc
        · intro _; exact h
        · intro _; exact h
  · cases hs

/-! ### the actions that operate on the ring -/

theorem process_ring (tg : Target) (m : Msg) :
    (process tg m).ring = tg.ring ++ (match m with
      | .tasks s ids => taskEntries tg.nextProxyId s ids
      | .wm s hv => [(tg.nextProxyId + 1, s, hv)]) ∧
    (process tg m).nextProxyId = (match m with
      | .tasks _ ids => tg.nextProxyId + (ids.length : Int)
      | .wm _ _ => tg.nextProxyId + 1) ∧
    (process tg m).ackPc = tg.ackPc := by
  cases m with
  | tasks s ids => exact ⟨by simp only [process]; rw [process_entries_eq], rfl, rfl⟩
  | wm s hv => exact ⟨rfl, rfl, rfl⟩

theorem tinv_process {tg : Target} {ops : List Op} (h : TInv tg ops) (m : Msg) (rest : List Msg) :
    TInv (process { tg with sendChan := rest } m) (ops ++ appendOps tg.nextProxyId m) := by
  obtain ⟨h1, h2, h3⟩ := process_ring { tg with sendChan := rest } m
  unfold TInv
  rw [h1, h2, h3]
  cases m with
  | tasks s ids =>
    refine ⟨rinv_tasks h.1 s ids, ?_⟩
    intro todo d rec e
    have := h.2 todo d rec e
    simp only [List.length_append]; omega
  | wm s hv =>
    refine ⟨rinv_append h.1 s hv, ?_⟩
    intro todo d rec e
    have := h.2 todo d rec e
    simp only [List.length_append]; omega

theorem tinv_step_take (c : Cfg) (σ σ' : State) (t : TId) (ops : List Op) (t' : TId)
    (h : TInv (σ.tgt t) ops) (hs : step c σ (.take t') = some σ') :
    TInv (σ'.tgt t) (ringOpsNext c σ t ops (.take t')) := by
  simp only [ringOpsNext, hs]
  simp only [step] at hs
  split at hs
  · cases hs
  · split at hs
    · cases hs
    · rename_i m rest hch
      cases hs
      apply tinv_setTgt t' _
      · intro e; subst e
        simp only [if_true, hch]
        exact tinv_process h m rest
      · intro e; rw [if_neg e]; exact h
      · intro hge
        have hd := rr_tgt_default_of_ge σ hge
        rw [hd] at hch; cases hch

theorem tinv_step_tack (c : Cfg) (σ σ' : State) (t : TId) (ops : List Op) (t' : TId) (w : Int)
    (h : TInv (σ.tgt t) ops) (hs : step c σ (.tack t' w) = some σ') :
    TInv (σ'.tgt t) (ringOpsNext c σ t ops (.tack t' w)) := by
  have hops : ringOpsNext c σ t ops (.tack t' w) = if t' = t then ops ++ [.aggregate w] else ops := by
    simp only [ringOpsNext, hs]
  rw [hops]
  have hlen : (aggregate (σ.tgt t').ring w).2 ≤ (σ.tgt t').ring.length := by
    simp only [aggregate]
    exact (List.takeWhile_sublist _).length_le
  simp only [step] at hs
  split at hs
  · cases hs
  · rename_i hen
    split at hs
    · cases hs
      apply tinv_setTgt t' _
      · intro e; subst e
        rw [if_pos rfl]
        refine ⟨rinv_aggregate h.1 w, ?_⟩
        intro todo d rec e
        simp only at e
        split at e
        · cases e
        · simp only [AckPc.forwarding.injEq] at e
          obtain ⟨_, e2, _⟩ := e
          subst e2; exact hlen
      · intro e; rw [if_neg e]; exact h
      · intro hge
        have hd := rr_tgt_default_of_ge σ hge
        rw [hd] at hen; simp at hen
    · cases hs
      apply tinv_setTgt t' _
      · intro e; subst e
        rw [if_pos rfl]
        refine ⟨rinv_aggregate h.1 w, ?_⟩
        intro todo d rec e
        simp only [AckPc.forwarding.injEq] at e
        obtain ⟨_, e2, _⟩ := e
        subst e2; exact hlen
      · intro e; rw [if_neg e]; exact h
      · intro hge
        have hd := rr_tgt_default_of_ge σ hge
        rw [hd] at hen; simp at hen

theorem tinv_step_ackFin (c : Cfg) (σ σ' : State) (t : TId) (ops : List Op) (t' : TId)
    (h : TInv (σ.tgt t) ops) (hs : step c σ (.ackFin t') = some σ') :
    TInv (σ'.tgt t) (ringOpsNext c σ t ops (.ackFin t')) := by
  simp only [ringOpsNext, hs]
  simp only [step] at hs
  split at hs
  · rename_i d rec hpc
    cases hs
    apply tinv_setTgt t' _
    · intro e; subst e
      simp only [if_true, hpc]
      refine ⟨rinv_discard h.1 d, ?_⟩
      intro todo d' rec' e; cases e
    · intro e; rw [if_neg e]; exact h
    · intro hge
      have hd := rr_tgt_default_of_ge σ hge
      rw [hd] at hpc; cases hpc
  · cases hs

theorem tinv_step_openTgt (c : Cfg) (σ σ' : State) (t : TId) (ops : List Op) (t' : TId)
    (h : TInv (σ.tgt t) ops) (hs : step c σ (.openTgt t') = some σ') :
    TInv (σ'.tgt t) (ringOpsNext c σ t ops (.openTgt t')) := by
  simp only [ringOpsNext, hs]
  simp only [step] at hs
  split at hs
  · cases hs
  · rename_i hen
    cases hs
    apply tinv_setTgt t' _
    · intro e; subst e
      rw [if_pos rfl]
      exact tinv_default.frame rfl rfl rfl
    · intro e; rw [if_neg e]; exact h
    · intro hge
      exfalso; apply hen
      simp only [Bool.or_eq_true, decide_eq_true_eq]
      exact Or.inr hge

theorem tinv_step_breakTgt (c : Cfg) (σ σ' : State) (t : TId) (ops : List Op) (t' : TId)
    (h : TInv (σ.tgt t) ops) (hs : step c σ (.breakTgt t') = some σ') :
    TInv (σ'.tgt t) (ringOpsNext c σ t ops (.breakTgt t')) := by
  simp only [ringOpsNext, hs]
  simp only [step] at hs
  split at hs
  · cases hs
  · rename_i hen
    cases hs
    apply tinv_setTgt t' _
    · intro e; subst e
      rw [if_pos rfl]
      exact tinv_default.frame rfl rfl rfl
    · intro e; rw [if_neg e]; exact h
    · intro hge
      have hd := rr_tgt_default_of_ge σ hge
      rw [hd] at hen; simp at hen

/-- **the step**: every action, enabled or not, preserves the per-target invariant -/
theorem tinv_step (c : Cfg) (σ : State) (t : TId) (ops : List Op) (a : Act) (h : TInv (σ.tgt t) ops) :
    TInv (((step c σ a).getD σ).tgt t) (ringOpsNext c σ t ops a) := by
  cases hs : step c σ a with
  | none => simp only [ringOpsNext, hs, Option.getD_none]; exact h
  | some σ' =>
    simp only [Option.getD_some]
    cases a with
    | recv s tasks high => simp only [ringOpsNext, hs]; exact tinv_step_recv c σ σ' t ops s tasks high h hs
    | bcastStep s t' => simp only [ringOpsNext, hs]; exact tinv_step_bcastStep c σ σ' t ops s t' h hs
    | deliver s t' => simp only [ringOpsNext, hs]; exact tinv_step_deliver c σ σ' t ops s t' h hs
    | take t' => exact tinv_step_take c σ σ' t ops t' h hs
    | emit t' => simp only [ringOpsNext, hs]; exact tinv_step_emit c σ σ' t ops t' h hs
    | tack t' w => exact tinv_step_tack c σ σ' t ops t' w h hs
    | ackFwd t' s => simp only [ringOpsNext, hs]; exact tinv_step_ackFwd c σ σ' t ops t' s h hs
    | ackFin t' => exact tinv_step_ackFin c σ σ' t ops t' h hs
    | rack s => simp only [ringOpsNext, hs]; exact tinv_step_rack c σ σ' t ops s h hs
    | openSrc s => simp only [ringOpsNext, hs]; exact tinv_step_openSrc c σ σ' t ops s h hs
    | openTgt t' => exact tinv_step_openTgt c σ σ' t ops t' h hs
    | startTgt t' => simp only [ringOpsNext, hs]; exact tinv_step_startTgt c σ σ' t ops t' h hs
    | replayStep t' s => simp only [ringOpsNext, hs]; exact tinv_step_replayStep c σ σ' t ops t' s h hs
    | replayDone t' => simp only [ringOpsNext, hs]; exact tinv_step_replayDone c σ σ' t ops t' h hs
    | tick => simp only [ringOpsNext, hs]; exact tinv_step_tick c σ σ' t ops h hs
    | breakTgt t' => exact tinv_step_breakTgt c σ σ' t ops t' h hs
    | breakSrc s => simp only [ringOpsNext, hs]; exact tinv_step_breakSrc c σ σ' t ops s h hs

theorem ringRun_cons (c : Cfg) (σ : State) (a : Act) (rest : List Act) :
    run c σ (a :: rest) = run c ((step c σ a).getD σ) rest := rfl

theorem tinv_run (c : Cfg) (t : TId) (acts : List Act) : ∀ (σ : State) (ops : List Op),
    TInv (σ.tgt t) ops → TInv ((run c σ acts).tgt t) (ringOpsFrom c t σ ops acts) := by
  induction acts with
  | nil => intro σ ops h; exact h
  | cons a rest ih =>
    intro σ ops h
    rw [ringRun_cons]
    exact ih _ _ (tinv_step c σ t ops a h)

/-- the invariant holds along every run from the initial state -/
theorem tinv_init_run (c : Cfg) (ns nt : Nat) (acts : List Act) (t : TId) :
    TInv ((run c (State.init ns nt) acts).tgt t) (ringOps c (State.init ns nt) acts t) := by
  apply tinv_run
  rw [rr_tgt_init]; exact tinv_default

end S2S.Routing
