import S2S.Proofs.RoutingC02Inv
/-!
Preservation of the C02 invariant by every non-fault action.
-/
namespace S2S.Routing

theorem Inv.updBoth {σ : State} (h : Inv σ) (s : SId) (t : TId)
    (hs : s < σ.sources.length) (ht : t < σ.targets.length) (x' : Source) (tg' : Target)
    (hx : SrcInv x') (htg : TgtInv tg')
    (hp1 : Pipe s t x' tg')
    (hp2 : ∀ t', t' ≠ t → Pipe s t' x' (σ.tgt t'))
    (hp3 : ∀ s', s' ≠ s → Pipe s' t (σ.src s') tg') :
    Inv ((σ.setSrc s x').setTgt t tg') := by
  have ht' : t < (σ.setSrc s x').targets.length := ht
  constructor
  · intro s'
    rw [src_setTgt, src_setSrc _ _ _ _ hs]
    split
    · exact hx
    · exact h.src s'
  · intro t'
    rw [tgt_setTgt _ _ _ _ ht', tgt_setSrc]
    split
    · exact htg
    · exact h.tgt t'
  · intro s' t'
    rw [src_setTgt, src_setSrc _ _ _ _ hs, tgt_setTgt _ _ _ _ ht', tgt_setSrc]
    by_cases h1 : s' = s <;> by_cases h2 : t' = t
    · subst h1; subst h2; simpa using hp1
    · subst h1; simpa [h2] using hp2 t' h2
    · subst h2; simpa [h1] using hp3 s' h1
    · simpa [h1, h2] using h.pipe s' t'

theorem Inv.updSrc {σ : State} (h : Inv σ) (s : SId)
    (hs : s < σ.sources.length) (x' : Source)
    (hx : SrcInv x') (hp : ∀ t, Pipe s t x' (σ.tgt t)) :
    Inv (σ.setSrc s x') := by
  constructor
  · intro s'
    rw [src_setSrc _ _ _ _ hs]
    split
    · exact hx
    · exact h.src s'
  · intro t'
    exact h.tgt t'
  · intro s' t'
    rw [src_setSrc _ _ _ _ hs, tgt_setSrc]
    by_cases h1 : s' = s
    · subst h1; simpa using hp t'
    · simpa [h1] using h.pipe s' t'

theorem Inv.updTgt {σ : State} (h : Inv σ) (t : TId)
    (ht : t < σ.targets.length) (tg' : Target)
    (htg : TgtInv tg') (hp : ∀ s, Pipe s t (σ.src s) tg') :
    Inv (σ.setTgt t tg') := by
  constructor
  · intro s'
    exact h.src s'
  · intro t'
    rw [tgt_setTgt _ _ _ _ ht]
    split
    · exact htg
    · exact h.tgt t'
  · intro s' t'
    rw [src_setTgt, tgt_setTgt _ _ _ _ ht]
    by_cases h2 : t' = t
    · subst h2; simpa using hp s'
    · simpa [h2] using h.pipe s' t'

theorem srcInv_recv {x x' : Source} {nt : Nat} {tasks : List (Int × TId)} {high : Int}
    (hx : SrcInv x) (hok : RecvOK nt x tasks high)
    (ha : x'.active = true) (hl : x'.lastHigh = high) (hr : x'.received = x.received ++ tasks) :
    SrcInv x' := by
  obtain ⟨hinc, hall, _, hle⟩ := hok
  constructor
  · intro h; rw [ha] at h; cases h
  · intro p hp
    rw [hr] at hp
    rw [hl]
    rcases List.mem_append.1 hp with hp | hp
    · exact Int.lt_of_lt_of_le (hx.lt p hp) hle
    · exact (hall p hp).2.2.1
  · rw [hr, List.map_append, List.pairwise_append]
    refine ⟨hx.pw, (strictInc_iff_pairwise _).1 hinc, ?_⟩
    intro a ha b hb
    obtain ⟨p, hp, rfl⟩ := List.mem_map.1 ha
    obtain ⟨q, hq, rfl⟩ := List.mem_map.1 hb
    exact Int.lt_of_lt_of_le (hx.lt p hp) (hall q hq).2.1

theorem pipe_recv {s : SId} {t : TId} {x x' : Source} {tg : Target} {tasks : List (Int × TId)}
    (hp : Pipe s t x tg) (hpc : x.pc = .idle) (hr : x'.received = x.received ++ tasks)
    (hpend : pendSeg x'.pc t = (tasks.filter (fun p => p.2 == t)).map (·.1)) : Pipe s t x' tg := by
  unfold Pipe Source.sentTo at *
  rw [hpc] at hp
  rw [hr, hpend, List.filter_append, List.map_append, hp]
  simp [pendSeg]

theorem inv_recv {σ σ' : State} {s : SId} {tasks : List (Int × TId)} {high : Int} (h : Inv σ)
    (hok : RecvOK σ.targets.length (σ.src s) tasks high)
    (hstep : step Cfg.cur σ (.recv s tasks high) = some σ') : Inv σ' := by
  simp only [step] at hstep
  split at hstep
  · cases hstep
  · rename_i hen
    simp only [Bool.or_eq_true, Bool.not_eq_true', bne_iff_ne, ne_eq, not_or, Bool.not_eq_false,
      Decidable.not_not] at hen
    obtain ⟨hact, hpc⟩ := hen
    have hs := src_lt_of_active σ s hact
    split at hstep
    · rename_i hemp
      have hemp : tasks = [] := List.isEmpty_iff.1 hemp
      subst hemp
      cases hstep
      apply h.updSrc s hs
      · exact srcInv_recv (h.src s) hok hact rfl rfl
      · intro t
        apply pipe_recv (h.pipe s t) hpc rfl
        simp only [List.filter_nil, List.map_nil]
        split <;> rfl
    · cases hstep
      apply h.updSrc s hs
      · exact srcInv_recv (h.src s) hok hact rfl rfl
      · intro t
        apply pipe_recv (h.pipe s t) hpc rfl
        exact aget_groupByOwner tasks t

theorem pendSeg_bcast_ite (c : Prop) [Decidable c] (h : Int) (l : List (TId × Nat)) (t : TId) :
    pendSeg (if c then .idle else .bcast h l) t = [] := by split <;> rfl

theorem ofS_append_wm (s' : SId) (ch : List Msg) (s : SId) (h : Int) :
    ofS s' (ch ++ [.wm s h]) = ofS s' ch := by
  rw [ofS_append]; simp [ofS]

theorem inv_bcastStep {σ σ' : State} {s : SId} {t : TId} (h : Inv σ)
    (hstep : step Cfg.cur σ (.bcastStep s t) = some σ') : Inv σ' := by
  simp only [step] at hstep
  split at hstep
  · rename_i high todo hpc
    have hne : (σ.src s).pc ≠ .idle := by rw [hpc]; intro hc; cases hc
    have hs := src_lt_of_pc σ s hne
    have hact := (h.src s).active_of_pc hne
    split at hstep
    · cases hstep
    · rename_i inc hag
      have h1 := h.updSrc s hs
        { (σ.src s) with pc := if (List.filter (fun p => p.fst != t) todo).isEmpty = true then RecvPc.idle
                else RecvPc.bcast high (List.filter (fun p => p.fst != t) todo) }
        ((h.src s).congrActive hact rfl rfl)
        (fun t' => (h.pipe s t').congr rfl (by rw [hpc, pendSeg_bcast_ite]; rfl) rfl rfl)
      split at hstep
      · rename_i hc
        simp only [Bool.and_eq_true] at hc
        have hreg := hc.1.1
        cases hstep
        refine Inv.updTgt h1 t (tgt_lt_of_registered σ t hreg) _ ?_ ?_
        · exact (h.tgt t).congrReg hreg rfl rfl rfl
        · intro s'
          exact (h1.pipe s' t).congr rfl rfl rfl (ofS_append_wm _ _ _ _)
      · cases hstep
        exact h1
  · cases hstep

theorem inv_deliver {σ σ' : State} {s : SId} {t : TId} (h : Inv σ)
    (hstep : step Cfg.cur σ (.deliver s t) = some σ') : Inv σ' := by
  simp only [step] at hstep
  split at hstep
  · rename_i pending hpc
    have hne : (σ.src s).pc ≠ .idle := by rw [hpc]; intro hc; cases hc
    have hs := src_lt_of_pc σ s hne
    have hact := (h.src s).active_of_pc hne
    split at hstep
    · cases hstep
    · rename_i ids hag
      split at hstep
      · cases hstep
      · rename_i hc
        rw [Bool.not_eq_true, Bool.not_eq_false', Bool.and_eq_true] at hc
        have hreg := hc.1
        cases hstep
        refine h.updBoth s t hs (tgt_lt_of_registered σ t hreg) _ _ ?_ ?_ ?_ ?_ ?_
        · exact (h.src s).congrActive hact rfl rfl
        · exact (h.tgt t).congrReg hreg rfl rfl rfl
        · have hp := h.pipe s t
          unfold Pipe at hp ⊢
          rw [hpc] at hp
          show (σ.src s).sentTo t = delOf s (σ.tgt t).full ++
            ofS s ((σ.tgt t).sendChan ++ [Msg.tasks s ids]) ++ pendSeg (if _ then _ else _) t
          rw [pendSeg_filter, if_pos rfl, ofS_append, hp]
          simp [pendSeg, hag, ofS]
        · intro t' ht'
          refine (h.pipe s t').congr rfl ?_ rfl rfl
          rw [hpc]
          show pendSeg (if _ then _ else _) t' = _
          rw [pendSeg_filter, if_neg ht']
        · intro s' hs'
          refine (h.pipe s' t).congr rfl rfl rfl ?_
          show ofS s' (_ ++ [Msg.tasks s ids]) = _
          rw [ofS_append]
          simp [ofS, Ne.symm hs']
  · cases hstep

theorem full_process (tg : Target) (m : Msg) (hh : tg.holding = none) :
    (process tg m).full = tg.full ++ [emitOf tg.nextProxyId m] := by
  simp [Target.full, process_stream, process_holding, hh]

theorem tgtInv_process {tg : Target} (htg : TgtInv tg) (hreg : tg.registered = true)
    (hh : tg.holding = none) (m : Msg) : TgtInv (process tg m) := by
  have hf := full_process tg m hh
  obtain ⟨hwf, hL, hM⟩ := emitOf_wf tg.nextProxyId m _ _ htg.endL htg.endM
  constructor
  · intro hc; rw [process_registered, hreg] at hc; cases hc
  · intro e he
    rw [process_holding] at he
    cases he
    exact emitOf_keepalive _ _
  · intro e he
    rw [hf] at he
    rcases List.mem_append.1 he with he | he
    · exact htg.lens e he
    · rw [List.mem_singleton.1 he]; exact emitOf_lens _ _
  · rw [hf, streamWF_append]
    exact ⟨htg.wf, hwf⟩
  · rw [hf, endState_append, process_nextProxyId]; exact hL
  · rw [hf, endState_append, process_nextProxyId]; exact hM

theorem pipe_process {s : SId} {t : TId} {x : Source} {tg tg0 : Target} {m : Msg} {rest : List Msg}
    (hp : Pipe s t x tg) (hh : tg.holding = none) (hch : tg.sendChan = m :: rest)
    (h0h : tg0.holding = tg.holding) (h0s : tg0.stream = tg.stream) (h0c : tg0.sendChan = rest)
    :
    Pipe s t x (process tg0 m) := by
  unfold Pipe at *
  rw [full_process tg0 m (by rw [h0h, hh]), process_sendChan, h0c, Target.full_congr h0h h0s,
    delOf_append, delOf_emitOf, hp, hch]
  have : ofS s (m :: rest) = ofS s [m] ++ ofS s rest := ofS_append s [m] rest
  rw [this]
  simp only [List.append_assoc]

theorem inv_take {σ σ' : State} {t : TId} (h : Inv σ)
    (hstep : step Cfg.cur σ (.take t) = some σ') : Inv σ' := by
  simp only [step] at hstep
  split at hstep
  · cases hstep
  · rename_i hen
    simp only [Bool.or_eq_true, Bool.not_eq_true', not_or, Bool.not_eq_false, Option.isSome_iff_ne_none,
      ne_eq, Decidable.not_not] at hen
    obtain ⟨hst, hh⟩ := hen
    have hreg := (h.tgt t).reg_of_started hst
    split at hstep
    · cases hstep
    · rename_i m rest hch
      cases hstep
      refine h.updTgt t (tgt_lt_of_registered σ t hreg) _ ?_ ?_
      · refine tgtInv_process ?_ ?_ ?_ m
        · exact (h.tgt t).congrReg hreg rfl rfl rfl
        · exact hreg
        · exact hh
      · intro s
        exact pipe_process (h.pipe s t) hh hch rfl rfl rfl

theorem inv_emit {σ σ' : State} {t : TId} (h : Inv σ)
    (hstep : step Cfg.cur σ (.emit t) = some σ') : Inv σ' := by
  simp only [step] at hstep
  split at hstep
  · cases hstep
  · rename_i e he
    cases hstep
    have hne : (σ.tgt t).holding ≠ none := by rw [he]; intro hc; cases hc
    have hreg := (h.tgt t).reg_of_holding hne
    have hka := (h.tgt t).hold_ka e he
    have hf : ({ (σ.tgt t) with holding := none, emitted := (σ.tgt t).emitted ++ [e], lastSentWm := e.high } : Target).full
        = (σ.tgt t).full := by
      simp [Target.full, Target.stream, he, List.filter_append, hka]
    refine h.updTgt t (tgt_lt_of_registered σ t hreg) _ ?_ ?_
    · exact (h.tgt t).congrFull (fun hc => by rw [hreg] at hc; cases hc) (fun e' he' => by cases he') hf rfl
    · intro s
      exact (h.pipe s t).congr rfl rfl hf rfl

theorem Inv.tgtIrrel {σ : State} (h : Inv σ) (t : TId) (ht : t < σ.targets.length) (tg' : Target)
    (hr : tg'.registered = (σ.tgt t).registered) (hst : tg'.started = (σ.tgt t).started)
    (hrt : tg'.replayTodo = (σ.tgt t).replayTodo) (hc : tg'.sendChan = (σ.tgt t).sendChan)
    (hh : tg'.holding = (σ.tgt t).holding) (hs : tg'.stream = (σ.tgt t).stream)
    (hn : tg'.nextProxyId = (σ.tgt t).nextProxyId) : Inv (σ.setTgt t tg') := by
  refine h.updTgt t ht _ ?_ ?_
  · refine (h.tgt t).congr ?_ hh hs hn
    rw [hr, hst, hrt, hc, hh, hs]
    exact (h.tgt t).unreg
  · intro s
    exact (h.pipe s t).congr rfl rfl (Target.full_congr hh hs) (by rw [hc])

theorem Inv.srcIrrel {σ : State} (h : Inv σ) (s : SId) (hs : s < σ.sources.length) (x' : Source)
    (ha : x'.active = (σ.src s).active) (hp : x'.pc = (σ.src s).pc)
    (hl : x'.lastHigh = (σ.src s).lastHigh) (hr : x'.received = (σ.src s).received) :
    Inv (σ.setSrc s x') := by
  refine h.updSrc s hs _ ?_ ?_
  · exact (h.src s).congr ha hp hl hr
  · intro t
    exact (h.pipe s t).congr hr (by rw [hp]) rfl rfl

theorem inv_tack {σ σ' : State} {t : TId} {w : Int} (h : Inv σ)
    (hstep : step Cfg.cur σ (.tack t w) = some σ') : Inv σ' := by
  simp only [step] at hstep
  split at hstep
  · cases hstep
  · rename_i hen
    simp only [Bool.or_eq_true, Bool.not_eq_true', not_or, Bool.not_eq_false] at hen
    have ht := tgt_lt_of_started σ t hen.1
    split at hstep <;> cases hstep <;> exact h.tgtIrrel t ht _ rfl rfl rfl rfl rfl rfl rfl

theorem inv_ackFwd {σ σ' : State} {t : TId} {s : SId} (h : Inv σ)
    (hstep : step Cfg.cur σ (.ackFwd t s) = some σ') : Inv σ' := by
  simp only [step] at hstep
  split at hstep
  · rename_i todo discard rec hpc
    have ht := tgt_lt_of_ackPc σ t (by rw [hpc]; intro hc; cases hc)
    split at hstep
    · cases hstep
    · split at hstep
      · cases hstep
      · rename_i hc
        rw [Bool.not_eq_true, Bool.not_eq_false', Bool.and_eq_true] at hc
        have hs := src_lt_of_active σ s hc.1
        cases hstep
        have h1 := h.tgtIrrel t ht
          { (σ.tgt t) with ackPc := .forwarding (todo.filter (fun p => p.1 != s)) discard rec,
                           prevAck := if rec then aset (σ.tgt t).prevAck s ‹_› else (σ.tgt t).prevAck }
          rfl rfl rfl rfl rfl rfl rfl
        exact h1.srcIrrel s hs _ rfl rfl rfl rfl
  · cases hstep

theorem inv_ackFin {σ σ' : State} {t : TId} (h : Inv σ)
    (hstep : step Cfg.cur σ (.ackFin t) = some σ') : Inv σ' := by
  simp only [step] at hstep
  split at hstep
  · rename_i discard rec hpc
    have ht := tgt_lt_of_ackPc σ t (by rw [hpc]; intro hc; cases hc)
    cases hstep
    exact h.tgtIrrel t ht _ rfl rfl rfl rfl rfl rfl rfl
  · cases hstep

theorem inv_rack {σ σ' : State} {s : SId} (h : Inv σ)
    (hstep : step Cfg.cur σ (.rack s) = some σ') : Inv σ' := by
  simp only [step] at hstep
  split at hstep
  · cases hstep
  · rename_i hen
    rw [Bool.not_eq_true, Bool.not_eq_false'] at hen
    have hs := src_lt_of_active σ s hen
    split at hstep
    · cases hstep
    · split at hstep
      · cases hstep; exact h.srcIrrel s hs _ rfl rfl rfl rfl
      · split at hstep <;> cases hstep <;> exact h.srcIrrel s hs _ rfl rfl rfl rfl

theorem inv_openSrc {σ σ' : State} {s : SId} (h : Inv σ)
    (hstep : step Cfg.cur σ (.openSrc s) = some σ') : Inv σ' := by
  simp only [step] at hstep
  split at hstep
  · cases hstep
  · rename_i hen
    simp only [Bool.or_eq_true, decide_eq_true_eq, not_or, Bool.not_eq_true, Nat.not_le, ge_iff_le] at hen
    obtain ⟨hact, hs⟩ := hen
    obtain ⟨hrec, hpc⟩ := (h.src s).inact hact
    cases hstep
    refine h.updSrc s hs _ ?_ ?_
    · constructor
      · intro hc; cases hc
      · intro p hp
        have hp' : p ∈ (σ.src s).received := hp
        rw [hrec] at hp'
        cases hp'
      · show List.Pairwise _ (List.map _ (σ.src s).received)
        rw [hrec]
        exact List.Pairwise.nil
    · intro t
      exact (h.pipe s t).congr rfl (by rw [hpc]) rfl rfl

theorem inv_openTgt {σ σ' : State} {t : TId} (h : Inv σ)
    (hstep : step Cfg.cur σ (.openTgt t) = some σ') : Inv σ' := by
  simp only [step] at hstep
  split at hstep
  · cases hstep
  · rename_i hen
    simp only [Bool.or_eq_true, decide_eq_true_eq, not_or, Bool.not_eq_true, Nat.not_le, ge_iff_le] at hen
    obtain ⟨hreg, ht⟩ := hen
    obtain ⟨hst, hrt, hch, hh, hstr⟩ := (h.tgt t).unreg hreg
    cases hstep
    have hf : ({ registered := true, started := false, inc := (σ.tgt t).inc + 1, emitted := (σ.tgt t).emitted, confirmed := (σ.tgt t).confirmed } : Target).full = (σ.tgt t).full := by
      show (σ.tgt t).stream ++ [] = (σ.tgt t).stream ++ (σ.tgt t).holding.toList
      rw [hh]; rfl
    have hf0 : (σ.tgt t).full = [] := by simp [Target.full, hstr, hh]
    refine h.updTgt t ht _ ?_ ?_
    · constructor
      · intro hc; cases hc
      · intro e he; cases he
      · rw [hf, hf0]; intro e he; cases he
      · rw [hf, hf0]; trivial
      · rw [hf, hf0]; exact Int.le_refl 0
      · rw [hf, hf0]; show (0 : Int) ≤ 0 + 1; decide
    · intro s
      exact (h.pipe s t).congr rfl rfl hf (by rw [hch])

theorem inv_startTgt {σ σ' : State} {t : TId} (h : Inv σ)
    (hstep : step Cfg.cur σ (.startTgt t) = some σ') : Inv σ' := by
  simp only [step] at hstep
  split at hstep
  · cases hstep
  · rename_i hen
    simp only [Bool.or_eq_true, Bool.not_eq_true', not_or, Bool.not_eq_false] at hen
    have hreg := hen.1.1
    cases hstep
    refine h.updTgt t (tgt_lt_of_registered σ t hreg) _ ?_ ?_
    · exact (h.tgt t).congrReg hreg rfl rfl rfl
    · intro s
      exact (h.pipe s t).congr rfl rfl rfl rfl

theorem inv_replayStep {σ σ' : State} {t : TId} {s : SId} (h : Inv σ)
    (hstep : step Cfg.cur σ (.replayStep t s) = some σ') : Inv σ' := by
  simp only [step] at hstep
  split at hstep
  · cases hstep
  · rename_i todo hrt
    have hreg := (h.tgt t).reg_of_replayTodo (by rw [hrt]; intro hc; cases hc)
    have ht := tgt_lt_of_registered σ t hreg
    split at hstep
    · cases hstep
    · split at hstep
      · split at hstep
        · cases hstep
          refine h.updTgt t ht _ ?_ ?_
          · exact (h.tgt t).congrReg hreg rfl rfl rfl
          · intro s'
            exact (h.pipe s' t).congr rfl rfl rfl (ofS_append_wm _ _ _ _)
        · cases hstep
          refine h.updTgt t ht _ ?_ ?_
          · exact (h.tgt t).congrReg hreg rfl rfl rfl
          · intro s'
            exact (h.pipe s' t).congr rfl rfl rfl rfl
      · cases hstep
        refine h.updTgt t ht _ ?_ ?_
        · exact (h.tgt t).congrReg hreg rfl rfl rfl
        · intro s'
          exact (h.pipe s' t).congr rfl rfl rfl rfl

theorem inv_replayDone {σ σ' : State} {t : TId} (h : Inv σ)
    (hstep : step Cfg.cur σ (.replayDone t) = some σ') : Inv σ' := by
  simp only [step] at hstep
  split at hstep
  · rename_i hrt
    have hreg := (h.tgt t).reg_of_replayTodo (by rw [hrt]; intro hc; cases hc)
    have ht := tgt_lt_of_registered σ t hreg
    cases hstep
    refine h.updTgt t ht _ ?_ ?_
    · exact (h.tgt t).congrReg hreg rfl rfl rfl
    · intro s'
      exact (h.pipe s' t).congr rfl rfl rfl rfl
  · cases hstep

theorem getD_map_of_fix {α} (f : α → α) (d : α) (hd : f d = d) (l : List α) (i : Nat) :
    (l.map f).getD i d = f (l.getD i d) := by
  simp only [List.getD_eq_getElem?_getD, List.getElem?_map]
  cases l[i]? <;> simp [hd]

theorem Inv.map {σ : State} (h : Inv σ) (f : Source → Source) (g : Target → Target)
    (hf : f {} = {}) (hg : g {} = {})
    (hfs : ∀ x, SrcInv x → SrcInv (f x)) (hgt : ∀ tg, TgtInv tg → TgtInv (g tg))
    (hp : ∀ s t x tg, TgtInv tg → Pipe s t x tg → Pipe s t (f x) (g tg)) :
    Inv { sources := σ.sources.map f, targets := σ.targets.map g } := by
  have hs : ∀ s, State.src { sources := σ.sources.map f, targets := σ.targets.map g } s = f (σ.src s) :=
    fun s => getD_map_of_fix f {} hf σ.sources s
  have ht : ∀ t, State.tgt { sources := σ.sources.map f, targets := σ.targets.map g } t = g (σ.tgt t) :=
    fun t => getD_map_of_fix g {} hg σ.targets t
  constructor
  · intro s; rw [hs]; exact hfs _ (h.src s)
  · intro t; rw [ht]; exact hgt _ (h.tgt t)
  · intro s t; rw [hs, ht]; exact hp s t _ _ (h.tgt t) (h.pipe s t)

theorem inv_tick {σ σ' : State} (h : Inv σ)
    (hstep : step Cfg.cur σ .tick = some σ') : Inv σ' := by
  simp only [step] at hstep
  cases hstep
  apply h.map
  · rfl
  · rfl
  · intro x hx
    refine hx.congr ?_ ?_ ?_ ?_ <;> (split; (split <;> rfl); rfl)
  · intro tg htg
    split
    · rename_i hc
      simp only [Bool.and_eq_true] at hc
      exact htg.congrReg (htg.reg_of_started hc.1.1) rfl (stream_append_keepalive tg _ rfl) rfl
    · exact htg
  · intro s t x tg htg hp
    refine hp.congr ?_ ?_ ?_ ?_
    · (split; (split <;> rfl); rfl)
    · (split; (split <;> rfl); rfl)
    · split
      · exact Target.full_congr rfl (stream_append_keepalive tg _ rfl)
      · rfl
    · split <;> rfl

end S2S.Routing
