import S2S.Proofs.RoutingRingPhys
import S2S.Props.C05
/-!
# C05R — the routing model's abstract per-target ring IS the C05 log

`Model/Routing.lean` keeps, per target stream, an ABSTRACT ring `ring : List (Int × SId × Int)` and says
this is "justified by the C05 refinement theorems".  This file makes that justification a theorem.

`ringOps Cfg.cur (State.init ns nt) acts t` (`Proofs/RoutingRingSpec.lean`, ghost fold over the action
list, machine untouched) is the list of PHYSICAL ring operations (`S2S.Ring.Op`) that target `t`'s
current sender incarnation has performed: the `Append`s of every enabled `take t`, `AggregateUpTo w` of
every enabled `tack t w`, `Discard d` of every enabled `ackFin t`; reset by `openTgt t` AND by
`breakTgt t` (the model's ring is already `[]` between a break and the re-open).  For EVERY run
(faults at any position) and every target:

1. the history is inside C05's hypotheses (`Good`);
2. the abstract ring is exactly the C05 outstanding log of that history;
3. the abstract `aggregate` is exactly C05's `expected` / `expectedCount` — NO side condition
   (the abstract model does no int64 arithmetic);
4. hence (composition with `C05_aggregate_exact` / `C05_aggregate_count` / `C05_contents_exact`) the
   PHYSICAL ring buffer of any initial capacity, driven by the same history, answers `AggregateUpTo w`
   exactly like the abstract ring, under C05's `NoOverflow` — and `NoOverflow` is automatic for
   every `w` that is an int64 (`C05R_physical_ring_agrees_int64`: `w < 2^63` suffices).

No statement of the task had to be weakened.  The one place where a discrepancy was conceivable —
`ackFin` does `ring.drop d` with `d` computed at `tack` time while `take`s may have appended since, and
C05's `Discard` clamps `d` to the window — is not one: `d ≤ ring.length` always (`C05R_discard_le`), and
`drop` and the reference clamp alike anyway.
-/
namespace S2S.Routing

open S2S.Ring (Op Entry Key Ref Good NoOverflow two63)

/-- `ringKey` is an injective embedding of sources into real shard keys -/
theorem C05R_ringKey_injective (s s' : SId) (h : ringKey s = ringKey s') : s = s' := ringKey_inj h

/-- … and `ringEntry s o` is a real (non-hole) mapping with that key and original id `o` -/
theorem C05R_ringEntry_real (s : SId) (o : Int) :
    (ringEntry s o).isHole = false ∧ (ringEntry s o).key = ringKey s ∧ (ringEntry s o).task = o :=
  ⟨ringEntry_not_hole s o, rfl, rfl⟩

/-- **C05R.1**: the routing machine uses its ring inside C05's hypotheses. -/
theorem C05R_ops_are_good (ns nt : Nat) (acts : List Act) (t : TId) :
    Good {} (ringOps Cfg.cur (State.init ns nt) acts t) :=
  (tinv_init_run Cfg.cur ns nt acts t).1.1

/-- **C05R.2**: the abstract ring is exactly the C05 outstanding log. -/
theorem C05R_ring_is_log (ns nt : Nat) (acts : List Act) (t : TId) :
    ((run Cfg.cur (State.init ns nt) acts).tgt t).ring.map (fun e => (e.1, ringEntry e.2.1 e.2.2)) =
      (Ref.run (ringOps Cfg.cur (State.init ns nt) acts t)).out :=
  (tinv_init_run Cfg.cur ns nt acts t).1.2.out

/-- **C05R.3**: the abstract `aggregate` is C05's `expected` and `expectedCount` (no side condition). -/
theorem C05R_aggregate_is_expected (ns nt : Nat) (acts : List Act) (t : TId) (w : Int) :
    (∀ s, aget (aggregate ((run Cfg.cur (State.init ns nt) acts).tgt t).ring w).1 s =
        (Ref.run (ringOps Cfg.cur (State.init ns nt) acts t)).expected w (ringKey s)) ∧
    (aggregate ((run Cfg.cur (State.init ns nt) acts).tgt t).ring w).2 =
        (Ref.run (ringOps Cfg.cur (State.init ns nt) acts t)).expectedCount w :=
  have h := (tinv_init_run Cfg.cur ns nt acts t).1.2
  ⟨fun s => rrel_expected h w s, rrel_expectedCount h w⟩

/-- the count `ackFin` hands to `Discard` never exceeds the ring's length: it IS the number dropped -/
theorem C05R_discard_le (ns nt : Nat) (acts : List Act) (t : TId) (todo : List (SId × Int)) (d : Nat) (rec : Bool)
    (h : ((run Cfg.cur (State.init ns nt) acts).tgt t).ackPc = .forwarding todo d rec) :
    d ≤ ((run Cfg.cur (State.init ns nt) acts).tgt t).ring.length :=
  (tinv_init_run Cfg.cur ns nt acts t).2 todo d rec h

/-- **C05R.4 (composition)**: for EVERY initial capacity, the physical `proxyIDRingBuffer` driven by the
    routing machine's history answers `AggregateUpTo w` with the same per-source values, no other keys,
    and the same count as the routing model's abstract `aggregate`. -/
theorem C05R_physical_ring_agrees (ns nt : Nat) (acts : List Act) (t : TId) (cap : Int) (w : Int)
    (hno : NoOverflow (Ref.run (ringOps Cfg.cur (State.init ns nt) acts t)) w) :
    (∀ s, (((S2S.Ring.new cap).run true (ringOps Cfg.cur (State.init ns nt) acts t)).aggregate w).1.lookup (ringKey s) =
        aget (aggregate ((run Cfg.cur (State.init ns nt) acts).tgt t).ring w).1 s) ∧
    (∀ k, (∀ s, k ≠ ringKey s) →
        (((S2S.Ring.new cap).run true (ringOps Cfg.cur (State.init ns nt) acts t)).aggregate w).1.lookup k = none) ∧
    (((S2S.Ring.new cap).run true (ringOps Cfg.cur (State.init ns nt) acts t)).aggregate w).2 =
        (aggregate ((run Cfg.cur (State.init ns nt) acts).tgt t).ring w).2 := by
  have hg := C05R_ops_are_good ns nt acts t
  have h := (tinv_init_run Cfg.cur ns nt acts t).1.2
  refine ⟨?_, ?_, ?_⟩
  · intro s
    rw [S2S.Ring.C05_aggregate_exact cap _ hg w hno, rrel_expected h w s]
  · intro k hk
    rw [S2S.Ring.C05_aggregate_exact cap _ hg w hno]
    exact expected_other _ _ h.out w k hk
  · rw [S2S.Ring.C05_aggregate_count cap _ hg w hno, rrel_expectedCount h w]

/-- the physical ring's non-hole contents, tagged with their slot ids, are the abstract ring -/
theorem C05R_physical_contents (ns nt : Nat) (acts : List Act) (t : TId) (cap : Int) :
    ((S2S.Ring.new cap).run true (ringOps Cfg.cur (State.init ns nt) acts t)).pairs =
      ((run Cfg.cur (State.init ns nt) acts).tgt t).ring.map (fun e => (e.1, ringEntry e.2.1 e.2.2)) := by
  rw [S2S.Ring.C05_contents_exact cap _ (C05R_ops_are_good ns nt acts t)]
  exact (C05R_ring_is_log ns nt acts t).symm

/-- in the routing machine C05's `NoOverflow` is automatic whenever the acknowledged watermark can matter:
    the window starts at `lo ≥ 1` once anything was appended, so `lo ≤ w < 2^63` never wraps -/
theorem C05R_no_overflow (ns nt : Nat) (acts : List Act) (t : TId) (w : Int) (hw : w < two63)
    (hne : ((run Cfg.cur (State.init ns nt) acts).tgt t).ring ≠ [])
    (hlo : (Ref.run (ringOps Cfg.cur (State.init ns nt) acts t)).lo ≤ w) :
    NoOverflow (Ref.run (ringOps Cfg.cur (State.init ns nt) acts t)) w := by
  have h := (tinv_init_run Cfg.cur ns nt acts t).1.2
  have := h.lo1 hne
  have h63 : two63 = 9223372036854775808 := rfl
  unfold NoOverflow
  omega

/-- **C05R.4 for every int64 watermark**: `w < 2^63` is the ONLY hypothesis (no lower bound, nothing about
    the history): below the window / on an empty window both sides return `(∅, 0)` before any int64
    arithmetic, otherwise `NoOverflow` holds by `C05R_no_overflow`. -/
theorem C05R_physical_ring_agrees_int64 (ns nt : Nat) (acts : List Act) (t : TId) (cap : Int) (w : Int)
    (hw : w < two63) :
    (∀ s, (((S2S.Ring.new cap).run true (ringOps Cfg.cur (State.init ns nt) acts t)).aggregate w).1.lookup (ringKey s) =
        aget (aggregate ((run Cfg.cur (State.init ns nt) acts).tgt t).ring w).1 s) ∧
    (∀ k, (∀ s, k ≠ ringKey s) →
        (((S2S.Ring.new cap).run true (ringOps Cfg.cur (State.init ns nt) acts t)).aggregate w).1.lookup k = none) ∧
    (((S2S.Ring.new cap).run true (ringOps Cfg.cur (State.init ns nt) acts t)).aggregate w).2 =
        (aggregate ((run Cfg.cur (State.init ns nt) acts).tgt t).ring w).2 := by
  have hg := C05R_ops_are_good ns nt acts t
  have h := (tinv_init_run Cfg.cur ns nt acts t).1.2
  by_cases hb : w < (Ref.run (ringOps Cfg.cur (State.init ns nt) acts t)).lo ∨
      (Ref.run (ringOps Cfg.cur (State.init ns nt) acts t)).hi = (Ref.run (ringOps Cfg.cur (State.init ns nt) acts t)).lo
  · rw [phys_aggregate_below (S2S.Ring.rel_run cap _ hg) w hb, abs_aggregate_below h w hb]
    exact ⟨fun _ => rfl, fun _ _ => rfl, rfl⟩
  · apply C05R_physical_ring_agrees
    apply C05R_no_overflow ns nt acts t w hw
    · intro he
      apply hb; right
      have := h.hi; rw [he] at this; simpa using this
    · apply Int.not_lt.1; intro hlt; exact hb (Or.inl hlt)

/-! ## the bound is needed in the model (unbounded `Int`), never in the code (`w` is an int64) -/

/-- one watermark taken, then the target "acknowledges" `2^63` (not an int64): the physical count wraps
    to `-2^63` and the ring answers `(∅, 0)`, the abstract ring answers `({0 ↦ 7}, 1)`. -/
theorem C05R_bound_needed :
    let acts : List Act := [.openTgt 0, .startTgt 0, .replayDone 0, .openSrc 0, .recv 0 [] 7, .bcastStep 0 0, .take 0]
    let ops := ringOps Cfg.cur (State.init 1 1) acts 0
    ops = [.append 1 (ringEntry 0 7)] ∧
    ((S2S.Ring.new 4).run true ops).aggregate two63 = ([], 0) ∧
    aggregate ((run Cfg.cur (State.init 1 1) acts).tgt 0).ring two63 = ([(0, 7)], 1) ∧
    ¬ NoOverflow (Ref.run ops) two63 := by decide

/-! ## non-vacuity -/

/-- two sources, one target: a `.tasks` and a `.wm` message taken, a partial `tack`, `ackFin`, another `take` -/
def c05rDemo : List Act :=
  [.openTgt 0, .startTgt 0, .replayDone 0, .openSrc 0, .openSrc 1,
   .recv 0 [(10, 0), (11, 0)] 12, .deliver 0 0, .recv 1 [] 7, .bcastStep 1 0,
   .take 0, .emit 0, .take 0, .emit 0,
   .tack 0 2, .ackFwd 0 0, .ackFin 0,
   .recv 1 [(20, 0)] 21, .deliver 1 0, .take 0]

/-- just before the `ackFin` (the partial `tack 0 2` is in flight, `recvAck` carries `discard = 2`) -/
example :
    let acts := c05rDemo.take 15
    let σ := run Cfg.cur (State.init 2 1) acts
    let ops := ringOps Cfg.cur (State.init 2 1) acts 0
    ops = [.append 1 (ringEntry 0 10), .append 2 (ringEntry 0 11), .append 3 (ringEntry 1 7), .aggregate 2] ∧
    (σ.tgt 0).ring = [(1, 0, 10), (2, 0, 11), (3, 1, 7)] ∧
    (σ.tgt 0).ackPc = .forwarding [] 2 true ∧
    Good {} ops ∧
    (Ref.run ops).out = [(1, ringEntry 0 10), (2, ringEntry 0 11), (3, ringEntry 1 7)] ∧
    aggregate (σ.tgt 0).ring 2 = ([(0, 11)], 2) ∧
    (Ref.run ops).expected 2 (ringKey 0) = some 11 ∧ (Ref.run ops).expected 2 (ringKey 1) = none ∧
    (Ref.run ops).expectedCount 2 = 2 ∧
    ((S2S.Ring.new 1).run true ops).aggregate 2 = ([(ringKey 0, 11)], 2) := by decide

/-- the whole run: the discard dropped two entries, the next `take` appended id 4 -/
example :
    let σ := run Cfg.cur (State.init 2 1) c05rDemo
    let ops := ringOps Cfg.cur (State.init 2 1) c05rDemo 0
    ops = [.append 1 (ringEntry 0 10), .append 2 (ringEntry 0 11), .append 3 (ringEntry 1 7), .aggregate 2,
           .discard 2, .append 4 (ringEntry 1 20)] ∧
    (σ.tgt 0).ring = [(3, 1, 7), (4, 1, 20)] ∧
    Good {} ops ∧
    (Ref.run ops).out = [(3, ringEntry 1 7), (4, ringEntry 1 20)] ∧
    aggregate (σ.tgt 0).ring 4 = ([(1, 20)], 2) ∧
    (Ref.run ops).expected 4 (ringKey 1) = some 20 ∧ (Ref.run ops).expected 4 (ringKey 0) = none ∧
    (Ref.run ops).expectedCount 4 = 2 ∧ (Ref.run ops).expectedCount 3 = 1 ∧
    NoOverflow (Ref.run ops) 4 ∧
    ((S2S.Ring.new 1).run true ops).aggregate 4 = ([(ringKey 1, 20)], 2) ∧
    ((S2S.Ring.new 1).run true ops).pairs = [(3, ringEntry 1 7), (4, ringEntry 1 20)] := by decide

/-- a `breakTgt` / `openTgt` in the middle: the history restarts with the new incarnation (proxy ids from 1) -/
def c05rDemoBreak : List Act :=
  [.openTgt 0, .startTgt 0, .replayDone 0, .openSrc 0, .openSrc 1,
   .recv 0 [(10, 0), (11, 0)] 12, .deliver 0 0, .take 0, .emit 0, .tack 0 1,
   .breakTgt 0, .openTgt 0, .startTgt 0, .replayStep 0 0, .replayStep 0 1, .replayDone 0,
   .recv 1 [(20, 0)] 21, .deliver 1 0, .recv 0 [(12, 0)] 13, .deliver 0 0, .take 0, .emit 0, .take 0, .emit 0,
   .tack 0 1, .ackFwd 0 1, .ackFin 0]

/-- before the break: the first incarnation's history -/
example :
    let σ := run Cfg.cur (State.init 2 1) (c05rDemoBreak.take 10)
    let ops := ringOps Cfg.cur (State.init 2 1) (c05rDemoBreak.take 10) 0
    ops = [.append 1 (ringEntry 0 10), .append 2 (ringEntry 0 11), .aggregate 1] ∧
    (σ.tgt 0).ring = [(1, 0, 10), (2, 0, 11)] := by decide

/-- right after `breakTgt 0`: ring and history are both empty -/
example :
    let σ := run Cfg.cur (State.init 2 1) (c05rDemoBreak.take 11)
    let ops := ringOps Cfg.cur (State.init 2 1) (c05rDemoBreak.take 11) 0
    ops = [] ∧ (σ.tgt 0).ring = [] := by decide

/-- the second incarnation: ids restart at 1, one entry acknowledged and discarded -/
example :
    let σ := run Cfg.cur (State.init 2 1) c05rDemoBreak
    let ops := ringOps Cfg.cur (State.init 2 1) c05rDemoBreak 0
    ops = [.append 1 (ringEntry 1 20), .append 2 (ringEntry 0 12), .aggregate 1, .discard 1] ∧
    (σ.tgt 0).ring = [(2, 0, 12)] ∧
    Good {} ops ∧
    (Ref.run ops).out = [(2, ringEntry 0 12)] ∧
    aggregate (σ.tgt 0).ring 2 = ([(0, 12)], 1) ∧
    (Ref.run ops).expected 2 (ringKey 0) = some 12 ∧ (Ref.run ops).expectedCount 2 = 1 ∧
    ((S2S.Ring.new 1).run true ops).aggregate 2 = ([(ringKey 0, 12)], 1) := by
  decide +kernel   -- 27 machine steps: evaluated by the kernel directly (plain `decide` exceeds the elaborator's limits)

end S2S.Routing
