import S2S.Proofs.RoutingC02
/-!
# C02 — routing delivers each task once, to the owning shard, in a well-formed stream

Same machine and hypotheses as C01 (fault-free, `EnvOK`).  For every reachable state `σ`, every
source `s` and every target `t`:

* `C02_delivery_prefix`: what target stream `t` has received of source `s` (original ids, in
  stream order) is a prefix of the tasks of `s` owned by `t`, in the order the source sent them —
  so nothing is duplicated, reordered, or delivered to a shard that does not own it;
* `C02_delivery_complete`: once nothing of `s` for `t` is in flight (`Drained`) the two lists
  are equal — every task is delivered exactly once (ids on a source stream are distinct);
* `C02_stream_wellformed`: on every target stream proxy task ids strictly increase across the
  whole stream, every task-bearing message has an exclusive high watermark above its last id and
  above every earlier watermark — exactly what Temporal's `TrackTasks` needs to accept every task;
* `C02_payload_positions`: the proxy rewrites ids position by position (`ids` and the carried
  original tasks have the same length); payload bytes are compared on the real code by the harness.

Owner = `farmhash(namespace id ++ "_" ++ workflow id) % n + 1` is an input of the model (`recv`
carries each task's owner); the harness checks the real code routes by the real hash.
-/
namespace S2S.Routing

theorem C02_delivery_prefix (ns nt : Nat) (acts : List Act)
    (henv : EnvOK Cfg.cur (State.init ns nt) acts) (hnf : NoFaults acts) (s : SId) (t : TId) :
    ((run Cfg.cur (State.init ns nt) acts).tgt t).deliveredOf s <+:
      ((run Cfg.cur (State.init ns nt) acts).src s).sentTo t :=
  delivery_prefix ns nt acts henv hnf s t

theorem C02_delivery_complete (ns nt : Nat) (acts : List Act)
    (henv : EnvOK Cfg.cur (State.init ns nt) acts) (hnf : NoFaults acts) (s : SId) (t : TId)
    (hd : Drained (run Cfg.cur (State.init ns nt) acts) s t) :
    ((run Cfg.cur (State.init ns nt) acts).tgt t).deliveredOf s =
      ((run Cfg.cur (State.init ns nt) acts).src s).sentTo t :=
  delivery_complete ns nt acts henv hnf s t hd

theorem C02_sent_ids_distinct (ns nt : Nat) (acts : List Act)
    (henv : EnvOK Cfg.cur (State.init ns nt) acts) (hnf : NoFaults acts) (s : SId) (t : TId) :
    StrictInc (((run Cfg.cur (State.init ns nt) acts).src s).sentTo t) :=
  sent_ids_increasing ns nt acts henv hnf s t

theorem C02_stream_wellformed (ns nt : Nat) (acts : List Act)
    (henv : EnvOK Cfg.cur (State.init ns nt) acts) (hnf : NoFaults acts) (t : TId) :
    StreamWF 0 0 ((run Cfg.cur (State.init ns nt) acts).tgt t).stream :=
  stream_wellformed ns nt acts henv hnf t

theorem C02_payload_positions (ns nt : Nat) (acts : List Act)
    (henv : EnvOK Cfg.cur (State.init ns nt) acts) (hnf : NoFaults acts) (t : TId) :
    ∀ e ∈ ((run Cfg.cur (State.init ns nt) acts).tgt t).stream, e.ids.length = e.orig.length :=
  payload_positions ns nt acts henv hnf t

/-- non-vacuity: two sources feed one target that connected after tasks for it had arrived. -/
example :
    let acts : List Act := [.openSrc 0, .openSrc 1, .recv 0 [(5, 0), (6, 0)] 7, .recv 1 [(3, 0)] 4,
      .openTgt 0, .startTgt 0, .replayStep 0 0, .replayStep 0 1, .replayDone 0, .deliver 1 0, .deliver 0 0, .take 0, .emit 0, .take 0, .emit 0]
    let σ := run Cfg.cur (State.init 2 1) acts
    EnvOK Cfg.cur (State.init 2 1) acts ∧ NoFaults acts ∧
    (σ.tgt 0).deliveredOf 0 = [5, 6] ∧ (σ.tgt 0).deliveredOf 1 = [3] ∧ Drained σ 0 0 := by
  decide

end S2S.Routing
