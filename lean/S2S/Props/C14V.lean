import S2S.Proofs.TranslateValTop
import S2S.Props.C13V
/-!
# C14 at the level of VALUES — search-attribute keys renamed, values untouched, nothing else changes

* `C14_keys_renamed_values_untouched`: when no rebuilt map receives two entries under one key (`saCollision = false`, the
  explicit hypothesis under which Go's rebuilt map IS the model's entry list), the translated object is — up to the
  re-encoded marks — `saSpecV (translateName m)`: the object in which the entries of every search-attribute container the
  visitor reaches (typed `*SearchAttributes` in a search-attribute field, bare `map[string]*Payload`, also inside
  recognised history blobs) have their key `k` replaced by `translateName m k` (unmapped keys: `translateName m k = k`,
  `C13_unmapped_untouched`), every entry keeps its value, and nothing else in the tree differs.
* `C14_container_keys` / `C14_container_values`: what `saSpecV` does to one container, spelled out.
* `C14_unmatched_is_unchanged`: no key matched ⇒ the object itself is returned.
* collisions, separately: `C14_collision_means_two_entries_one_key` (the flag is raised exactly when two entries of one
  container get the same new key — Go then keeps only one of them, which one depends on map iteration order),
  `C14_no_collision_for_bimap` (a one-to-one mapping and distinct keys avoiding the unmapped targets never collide).
-/
set_option linter.unusedSectionVars false
namespace S2S.TranslateVal
open S2S.Translate S2S.NameMap

variable {α : Type} [DecidableEq α]

theorem C14_keys_renamed_values_untouched (g : Graph) (tb : Tables) (X : Ext α) (m : List (α × α)) (v : Val α)
    (_hcol : saCollision g tb X m v = false) :
    unflag (translateSA g tb X m v).1 = unflag (saSpecV g tb X (translateName m) none v) := by
  unfold translateSA
  exact (sa_is_renaming g tb X (look m) (translateName m) (fun k => by rw [app_look, look_fst])).1 v none

/-- the values of the entries of a map -/
def valsOf : List (Val α) → List (Val α)
  | [] => []
  | .kv _ v :: es => v :: valsOf es
  | _ :: es => valsOf es

/-- one rebuilt container: the new keys are the old keys through the renaming, in the same order -/
theorem C14_container_keys (g : Graph) (tb : Tables) (X : Ext α) (ρ : α → α) (es : List (Val α)) :
    keysOf (saSpecItems g tb X ρ .ren es) = (keysOf es).map ρ := by
  induction es with
  | nil => rfl
  | cons e es ih =>
    rw [saSpecItems_cons]
    cases e <;> first
      | (show keysOf (_ :: _) = _; simp only [keysOf]; exact ih)
      | (show keysOf (Val.kv _ _ :: _) = _; simp only [keysOf, List.map_cons]; rw [ih])

/-- … and the values are the old values (a payload is returned as it is: `saSpecV` does not touch payloads) -/
theorem C14_container_values (g : Graph) (tb : Tables) (X : Ext α) (ρ : α → α) (es : List (Val α)) :
    valsOf (saSpecItems g tb X ρ .ren es) = (valsOf es).map (saSpecV g tb X ρ none) := by
  induction es with
  | nil => rfl
  | cons e es ih =>
    rw [saSpecItems_cons]
    cases e <;> first
      | (show valsOf (_ :: _) = _; simp only [valsOf]; exact ih)
      | (show valsOf (Val.kv _ _ :: _) = _; simp only [valsOf, List.map_cons]; rw [ih])

theorem C14_payload_untouched (g : Graph) (tb : Tables) (X : Ext α) (ρ : α → α) (fc : Option FieldD) (t : α) :
    saSpecV g tb X ρ fc (.payload t) = .payload t := rfl

theorem C14_unmatched_is_unchanged (g : Graph) (tb : Tables) (X : Ext α) (m : List (α × α)) (v : Val α)
    (h : (translateSA g tb X m v).2 = false) : (translateSA g tb X m v).1 = v :=
  (sa_unmatched_unchanged g tb X (look m)).1 v none h

theorem C14_collision_means_two_entries_one_key (m : List (α × α)) (es : List (Val α))
    (h : renCollide (look m) es = true) :
    ∃ k1 k2, [k1, k2].Sublist (keysOf es) ∧ translateName m k1 = translateName m k2 := by
  obtain ⟨k1, k2, hs, he⟩ := collide_witness (look m) es h
  rw [app_look, app_look, look_fst, look_fst] at he
  exact ⟨k1, k2, hs, he⟩

theorem C14_no_collision_for_bimap (m : List (α × α)) (hbi : newBiMap m = some m) (es : List (Val α))
    (hd : (keysOf es).Nodup) (hk : ∀ k ∈ keysOf es, (∃ p ∈ m, p.1 = k) ∨ (∀ p ∈ m, p.2 ≠ k)) :
    renCollide (look m) es = false :=
  no_collide_of_bimap m hbi es hd hk

/-! non-vacuity (graph of `C13V`): keys renamed inside a blob, value tokens untouched; a collision is flagged -/
example : saCollision Ex.g Ex.tb Ex.X Ex.chain Ex.saMsg = false := by rfl
example : unflag (translateSA Ex.g Ex.tb Ex.X Ex.chain Ex.saMsg).1 = unflag (saSpecV Ex.g Ex.tb Ex.X (translateName Ex.chain) none Ex.saMsg) := by rfl
/-- two sources, one target: flagged -/
example : saCollision Ex.g Ex.tb Ex.X [(10, 12), (11, 12)] Ex.saMsg = true := by rfl
/-- a target equal to an unmapped key that is present: flagged -/
example : saCollision Ex.g Ex.tb Ex.X [(10, 13)] Ex.saMsg = true := by rfl

end S2S.TranslateVal
