import S2S.Proofs.RoutingC04
import S2S.Proofs.RoutingFaultMain
/-!
# C04 — stream failures never turn unconfirmed tasks into acknowledged ones

Same machine as C01 plus the fault actions `breakTgt`, `breakSrc` and re-opening, at **any**
position of the action list (the crash-point quantifier is the universally quantified list).
`Confirmed` counts an acknowledgement by *any* incarnation of the target stream.

The full statement `C04_full` is FALSE of the current tree.  Two independent counterexamples are
kernel-checked below and replayed on the real code by the harness on every run (known findings
`C04-target-break-loses-inflight` and `C04-source-restart-forgets-targets`, see DESIGN.md §4);
neither has a small repair.  What is proved: (1) `C04_modulo_known_findings` — for runs with breaks and
re-opens at ANY position, every acknowledgement sent upstream covers only tasks that are confirmed or
out of reach in exactly one of the two recorded ways, i.e. the two findings are the ONLY ways a stream
failure turns an unconfirmed task into an acknowledged one (so any other violation the harness ever
observes is a new defect, not an instance of a known one); (2) all fault-free runs (`C04_partial_fault_free`, C01).
-/
namespace S2S.Routing

/-- the full property: for every configuration and every run with faults anywhere -/
def C04_full (c : Cfg) : Prop :=
  ∀ ns nt acts, EnvOK c (State.init ns nt) acts → AcksSafeAlong c (State.init ns nt) acts

/-- finding (a): task 10 is sent to the target, the target stream breaks before acknowledging it and
    reconnects; the source's next watermark is broadcast, the new incarnation acknowledges it, and
    the proxy acknowledges 12 upstream although no incarnation ever confirmed task 10. -/
def witnessTargetBreak : List Act :=
  [.openTgt 0, .startTgt 0, .replayDone 0, .openSrc 0,
   .recv 0 [] 10, .bcastStep 0 0, .take 0, .emit 0,
   .recv 0 [(10, 0)] 12, .deliver 0 0, .take 0, .emit 0,
   .breakTgt 0, .openTgt 0, .startTgt 0, .replayStep 0 0, .replayDone 0, .take 0, .emit 0,
   .recv 0 [] 12, .bcastStep 0 0, .take 0, .emit 0,
   .tack 0 2, .ackFwd 0 0, .ackFin 0, .rack 0]

/-- finding (b): task 16 sits unconfirmed on target 1; the *source* stream restarts, so the new
    receiver incarnation knows of no target; target 0 repeats an old acknowledgement, whose fallback
    value 18 is then the minimum over a one-element map and goes upstream. -/
def witnessSourceRestart : List Act :=
  [.openTgt 0, .startTgt 0, .replayDone 0, .openTgt 1, .startTgt 1, .replayDone 1, .openSrc 0,
   .recv 0 [(16, 1), (18, 0)] 19, .deliver 0 1, .deliver 0 0, .take 0, .emit 0, .take 1, .emit 1,
   .tack 0 2, .ackFwd 0 0, .ackFin 0, .rack 0,
   .breakSrc 0, .openSrc 0,
   .tack 0 2, .ackFwd 0 0, .ackFin 0, .rack 0]

theorem C04_refuted_target_break :
    EnvOK Cfg.cur (State.init 1 1) witnessTargetBreak ∧
    ¬ AcksSafeAlong Cfg.cur (State.init 1 1) witnessTargetBreak := by decide

theorem C04_refuted_source_restart :
    EnvOK Cfg.cur (State.init 1 2) witnessSourceRestart ∧
    ¬ AcksSafeAlong Cfg.cur (State.init 1 2) witnessSourceRestart := by decide

theorem C04_refuted : ¬ C04_full Cfg.cur := fun h =>
  C04_refuted_target_break.2 (h 1 1 witnessTargetBreak C04_refuted_target_break.1)

/-- partial: fault-free runs (this is C01). -/
theorem C04_partial_fault_free (ns nt : Nat) (acts : List Act)
    (henv : EnvOK Cfg.cur (State.init ns nt) acts) (hnf : NoFaults acts) :
    AcksSafeAlong Cfg.cur (State.init ns nt) acts :=
  acks_safe_fault_free ns nt acts henv hnf

/-! ## C04 modulo the recorded findings

What IS true of the current tree with faults anywhere (proved in `S2S/Proofs/RoutingFault*.lean`, statement in
`S2S/Spec/RoutingFaults.lean`): under the environment hypothesis `EnvOKF` (`RecvOK` for every batch, plus
`RecvFresh`: a restarted source stream re-sends tasks it sent before or sends tasks at/above every watermark it
has announced), every acknowledgement the proxy sends upstream covers only tasks that are `Confirmed` by their
target stream or `Excused` in one of the two recorded ways — (b) the task was (also) received by an earlier
incarnation of the source stream (`C04-source-restart-forgets-targets`), or (a) it was handed to an
incarnation of its target stream that has broken since (`C04-target-break-loses-inflight`).  In other words the
two recorded findings are the ONLY ways a stream failure turns an unconfirmed task into an acknowledged one. -/

/-- **C04 modulo the recorded findings**: for every run (breaks and re-opens at any position) satisfying
    `EnvOKF`, every acknowledgement sent upstream covers only confirmed or excused tasks. -/
theorem C04_modulo_known_findings (ns nt : Nat) (acts : List Act)
    (henv : EnvOKF Cfg.cur (State.init ns nt) {} acts) :
    AcksSafeFAlong Cfg.cur (State.init ns nt) {} acts :=
  acks_safe_modulo_known ns nt acts henv

/-- a third trace: a stale ring entry of the previous source incarnation (watermark 20) acknowledges a task
    (10) that the restarted source re-sent; excused as (b). -/
def witnessStaleRing : List Act :=
  [.openTgt 0, .startTgt 0, .replayDone 0, .openSrc 0,
   .recv 0 [(10, 0)] 12, .deliver 0 0, .take 0, .emit 0,
   .breakTgt 0, .openTgt 0, .startTgt 0, .replayStep 0 0, .replayDone 0,
   .recv 0 [] 20, .bcastStep 0 0, .take 0, .emit 0,
   .breakSrc 0, .openSrc 0,
   .recv 0 [(10, 0)] 12, .deliver 0 0, .take 0, .emit 0,
   .tack 0 1, .ackFwd 0 0, .ackFin 0, .rack 0]

/-- a faulty run (target and source stream both break and re-open) in which an acknowledgement is sent and
    the task it covers is really confirmed -/
def witnessFaultyConfirmed : List Act :=
  [.openTgt 0, .startTgt 0, .replayDone 0, .openSrc 0,
   .recv 0 [] 5, .bcastStep 0 0, .take 0, .emit 0,
   .breakTgt 0, .breakSrc 0, .openTgt 0, .startTgt 0, .replayDone 0, .openSrc 0,
   .recv 0 [(10, 0)] 12, .deliver 0 0, .take 0, .emit 0,
   .recv 0 [] 12, .bcastStep 0 0, .take 0, .emit 0,
   .tack 0 3, .ackFwd 0 0, .ackFin 0, .rack 0]

/-- final state and ghost of a run -/
def runG (c : Cfg) : State → Ghost → List Act → State × Ghost
  | σ, γ, [] => (σ, γ)
  | σ, γ, a :: rest => runG c ((step c σ a).getD σ) (γ.next c σ a) rest

/-- non-vacuity (a): the recorded witness satisfies the stronger environment, hence the modulo statement,
    while it violates the plain one — the excuse is really used -/
example : EnvOKF Cfg.cur (State.init 1 1) {} witnessTargetBreak ∧
    AcksSafeFAlong Cfg.cur (State.init 1 1) {} witnessTargetBreak ∧
    ¬ AcksSafeAlong Cfg.cur (State.init 1 1) witnessTargetBreak :=
  have h : EnvOKF Cfg.cur (State.init 1 1) {} witnessTargetBreak := by decide
  ⟨h, C04_modulo_known_findings 1 1 _ h, C04_refuted_target_break.2⟩

/-- non-vacuity (b) -/
example : EnvOKF Cfg.cur (State.init 1 2) {} witnessSourceRestart ∧
    AcksSafeFAlong Cfg.cur (State.init 1 2) {} witnessSourceRestart ∧
    ¬ AcksSafeAlong Cfg.cur (State.init 1 2) witnessSourceRestart :=
  have h : EnvOKF Cfg.cur (State.init 1 2) {} witnessSourceRestart := by decide
  ⟨h, C04_modulo_known_findings 1 2 _ h, C04_refuted_source_restart.2⟩

/-- non-vacuity, third trace (stale ring entry after a source restart) -/
example : EnvOKF Cfg.cur (State.init 1 1) {} witnessStaleRing ∧
    AcksSafeFAlong Cfg.cur (State.init 1 1) {} witnessStaleRing ∧
    ¬ AcksSafeAlong Cfg.cur (State.init 1 1) witnessStaleRing :=
  have h : EnvOKF Cfg.cur (State.init 1 1) {} witnessStaleRing := by decide
  ⟨h, C04_modulo_known_findings 1 1 _ h, by decide⟩

/-- the modulo statement is also directly checkable on the three traces (independent of the proof) -/
example : AcksSafeFAlong Cfg.cur (State.init 1 1) {} witnessTargetBreak ∧
    AcksSafeFAlong Cfg.cur (State.init 1 2) {} witnessSourceRestart ∧
    AcksSafeFAlong Cfg.cur (State.init 1 1) {} witnessStaleRing := by decide

/-- a faulty run where an acknowledgement IS sent (12) and the task it covers (10, owned by target 0) is
    `Confirmed`, not merely excused: the conclusion is not satisfied by excuses alone -/
example :
    ¬ NoFaults witnessFaultyConfirmed ∧
    EnvOKF Cfg.cur (State.init 1 1) {} witnessFaultyConfirmed ∧
    AcksSafeFAlong Cfg.cur (State.init 1 1) {} witnessFaultyConfirmed ∧
    AcksSafeAlong Cfg.cur (State.init 1 1) witnessFaultyConfirmed ∧
    (let r := runG Cfg.cur (State.init 1 1) {} witnessFaultyConfirmed
     (r.1.src 0).acksSent = [12] ∧ (r.1.src 0).received = [(10, 0)] ∧
     Confirmed r.1 0 10 0 ∧ ¬ Excused r.1 r.2 0 (10, 0)) := by decide

end S2S.Routing
