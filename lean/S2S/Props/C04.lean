import S2S.Proofs.RoutingC04
/-!
# C04 — stream failures never turn unconfirmed tasks into acknowledged ones

Same machine as C01 plus the fault actions `breakTgt`, `breakSrc` and re-opening, at **any**
position of the action list (the crash-point quantifier is the universally quantified list).
`Confirmed` counts an acknowledgement by *any* incarnation of the target stream.

The full statement `C04_full` is FALSE of the current tree.  Two independent counterexamples are
kernel-checked below and replayed on the real code by the harness on every run (known findings
`C04-target-break-loses-inflight` and `C04-source-restart-forgets-targets`, see DESIGN.md §4);
neither has a small repair.  What is proved: the statement for runs whose faults happen at quiet
points (`C04_partial_quiet_faults`) and, as a special case, all fault-free runs (C01).
-/
namespace S2S.Routing

/-- the full property: for every configuration and every run with faults anywhere -/
def C04_full (c : Cfg) : Prop :=
  ∀ ns nt acts, EnvOK c (State.init ns nt) acts → AcksSafeAlong c (State.init ns nt) acts

/-- finding (a): task 10 is sent to the target, the target stream breaks before acknowledging it and
    reconnects; the source's next watermark is broadcast, the new incarnation acknowledges it, and
    the proxy acknowledges 12 upstream although no incarnation ever confirmed task 10. -/
def witnessTargetBreak : List Act :=
  [.openTgt 0, .startTgt 0, .replayDone 0, .openSrc 0,
   .recv 0 [] 10, .bcastStep 0 0, .take 0, .emit 0,
   .recv 0 [(10, 0)] 12, .deliver 0 0, .take 0, .emit 0,
   .breakTgt 0, .openTgt 0, .startTgt 0, .replayStep 0 0, .replayDone 0, .take 0, .emit 0,
   .recv 0 [] 12, .bcastStep 0 0, .take 0, .emit 0,
   .tack 0 2, .ackFwd 0 0, .ackFin 0, .rack 0]

/-- finding (b): task 16 sits unconfirmed on target 1; the *source* stream restarts, so the new
    receiver incarnation knows of no target; target 0 repeats an old acknowledgement, whose fallback
    value 18 is then the minimum over a one-element map and goes upstream. -/
def witnessSourceRestart : List Act :=
  [.openTgt 0, .startTgt 0, .replayDone 0, .openTgt 1, .startTgt 1, .replayDone 1, .openSrc 0,
   .recv 0 [(16, 1), (18, 0)] 19, .deliver 0 1, .deliver 0 0, .take 0, .emit 0, .take 1, .emit 1,
   .tack 0 2, .ackFwd 0 0, .ackFin 0, .rack 0,
   .breakSrc 0, .openSrc 0,
   .tack 0 2, .ackFwd 0 0, .ackFin 0, .rack 0]

theorem C04_refuted_target_break :
    EnvOK Cfg.cur (State.init 1 1) witnessTargetBreak ∧
    ¬ AcksSafeAlong Cfg.cur (State.init 1 1) witnessTargetBreak := by decide

theorem C04_refuted_source_restart :
    EnvOK Cfg.cur (State.init 1 2) witnessSourceRestart ∧
    ¬ AcksSafeAlong Cfg.cur (State.init 1 2) witnessSourceRestart := by decide

theorem C04_refuted : ¬ C04_full Cfg.cur := fun h =>
  C04_refuted_target_break.2 (h 1 1 witnessTargetBreak C04_refuted_target_break.1)

/-- partial: fault-free runs (this is C01). -/
theorem C04_partial_fault_free (ns nt : Nat) (acts : List Act)
    (henv : EnvOK Cfg.cur (State.init ns nt) acts) (hnf : NoFaults acts) :
    AcksSafeAlong Cfg.cur (State.init ns nt) acts :=
  acks_safe_fault_free ns nt acts henv hnf

end S2S.Routing
