import S2S.Proofs.Shard
/-!
# C07 — LCM mode presents one consistent shard space to both clusters

Property theorems only (lemmas in `S2S/Proofs/Shard.lean`).  The model (`S2S/Model/Shard.lean`)
reproduces Go's int32 arithmetic exactly; the theorems hold for **every** pair of shard counts
`a, b ≥ 1` whose product fits in int32 (`a * b < 2^31`; the supported range is up to 16384, where
`a * b ≤ 2^28`) and every LCM shard id — no enumeration.
-/
namespace S2S.Shard

/-- The proxy's `LCM` is the mathematical least common multiple. -/
theorem C07_lcm_correct (a b : Nat) (ha : 1 ≤ a) (hb : 1 ≤ b) (h : a * b < 2147483648) :
    lcm32 (a : Int) (b : Int) = ((Nat.lcm a b : Nat) : Int) :=
  lcm32_correct a b ha hb h

/-- Both directions compute the same count (inbound uses `(local, remote)`, as does outbound;
    and the function itself is symmetric). -/
theorem C07_lcm_symmetric (a b : Nat) (ha : 1 ≤ a) (hb : 1 ≤ b) (h : a * b < 2147483648) :
    lcm32 (a : Int) (b : Int) = lcm32 (b : Int) (a : Int) :=
  lcm32_symm a b ha hb h

/-- Every LCM shard id `s ∈ [1, L]` is forwarded to exactly one real shard of the serving cluster
    (count `n ∈ {a, b}`): no panic, single-valued, and inside `1..n`. -/
theorem C07_map_single_owner (a b n s : Nat) (ha : 1 ≤ a) (hb : 1 ≤ b) (h : a * b < 2147483648)
    (hn : n = a ∨ n = b) (hs1 : 1 ≤ s) (hs : s ≤ Nat.lcm a b) :
    mapShardIDUnique (lcm32 (a : Int) (b : Int)) (n : Int) (s : Int) = some ((((s - 1) % n + 1 : Nat)) : Int)
    ∧ 1 ≤ (s - 1) % n + 1 ∧ (s - 1) % n + 1 ≤ n :=
  map_single_owner a b n s ha hb h hn hs1 hs

/-- Hash consistency: a workflow whose 32-bit hash is `hash` lives in LCM shard `hash % L + 1`;
    the proxy forwards that shard to `hash % n + 1`, i.e. to the shard that owns the workflow under
    the serving cluster's own count — for every hash value. -/
theorem C07_hash_consistent (a b n hash : Nat) (ha : 1 ≤ a) (hb : 1 ≤ b) (h : a * b < 2147483648)
    (hn : n = a ∨ n = b) :
    mapShardIDUnique (lcm32 (a : Int) (b : Int)) (n : Int) ((hash % Nat.lcm a b + 1 : Nat) : Int)
      = some ((hash % n + 1 : Nat) : Int) :=
  hash_consistent a b n hash ha hb h hn

/-- The stream the proxy opens towards the serving cluster: the initiator's shard id is the LCM
    shard `s` itself, the server shard is the single owner, cluster ids are untouched — for the
    inbound server (`inverse = true`, serving count = local) and the outbound one (remote). -/
theorem C07_forward_metadata (lc rc : Nat) (inverse : Bool) (md : StreamMD) (s : Nat)
    (hl : 1 ≤ lc) (hr : 1 ≤ rc) (h : lc * rc < 2147483648)
    (hs : md.serverShard = (s : Int)) (hs1 : 1 ≤ s) (hsL : s ≤ Nat.lcm lc rc) :
    lcmForward (lcmParams .lcm (lc : Int) (rc : Int) inverse) md = some
      { clientCluster := md.clientCluster
        clientShard := (s : Int)
        serverCluster := md.serverCluster
        serverShard := (((s - 1) % (if inverse then lc else rc) + 1 : Nat) : Int) } :=
  forward_metadata lc rc inverse md s hl hr h hs hs1 hsL

/-- `DescribeCluster` reports the LCM as the peer's shard count on both servers, whatever the
    real count the serving cluster returned; the bypass header is the only way to see the raw count. -/
theorem C07_describe_both_directions (lc rc : Nat) (inverse : Bool) (backend ov : Int)
    (hl : 1 ≤ lc) (hr : 1 ≤ rc) (h : lc * rc < 2147483648) :
    describeShardCount .lcm (lcmParams .lcm (lc : Int) (rc : Int) inverse) ov false backend
      = ((Nat.lcm lc rc : Nat) : Int)
    ∧ describeShardCount .lcm (lcmParams .lcm (lc : Int) (rc : Int) inverse) ov true backend = backend :=
  describe_both lc rc inverse backend ov hl hr h

/-- The int32 product really does leave the claim outside the hypothesis: 65536 × 32768. -/
theorem C07_outside_supported_range : lcm32 65536 32768 = -65536 := by decide

/-- non-vacuity: 12 and 16384 (lcm 49152), shard 49152 ↦ 16384 / 12. -/
example : mapShardIDUnique (lcm32 12 16384) 12 49152 = some 12 ∧
    mapShardIDUnique (lcm32 12 16384) 16384 49152 = some 16384 ∧ (12 * 16384 < 2147483648) := by decide

end S2S.Shard
