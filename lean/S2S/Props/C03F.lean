import S2S.Proofs.RoutingAcksFMain
import S2S.Props.C04
/-!
# C03F — C03's safety half (acknowledgements monotone and bounded) in runs WITH faults

Same machine as C01–C04, faults (`breakTgt`, `breakSrc`, re-opening) at ANY position of the action list, environment
`EnvOKF` (`RecvOK` ∧ `RecvFresh` for every batch).  Vocabulary: `S2S/Spec/RoutingAcksF.lean` — `curAcks σ γ s` = the
acknowledgements the CURRENT incarnation of source stream `s` has sent (`γ : AckGhost` threaded by `runAG`).

## What is FALSE of the current tree (kernel-checked below)

"Within one incarnation of the source stream the acknowledgements are non-decreasing and bounded by `lastHigh`" is FALSE
for a RESTARTED incarnation (`C03F_refuted_after_source_restart`): a fresh incarnation has `lastHigh = 0` until its first
batch, and `sendAck` clamps only when `lastHigh > 0`; a target that still holds values of the previous incarnation
(`prevAck` fall-back, ring entries) makes the fresh incarnation acknowledge 50 upstream while `lastHigh = 0` (unbounded);
the restarted source then (legitimately: `RecvOK` is relative to the fresh `lastHigh = 0`) sends a batch with a lower high
watermark 1, and the next acknowledgement passes the guard `min ≥ lastSentMin` and is CLAMPED DOWN to 1: the incarnation
sent 50, then 1.  This is a consequence of the recorded finding `C04-source-restart-forgets-targets`.

## What is TRUE (proved, `S2S/Proofs/RoutingAcksF*.lean`)

* `C03F_history_bounded_maxHigh` — every acknowledgement ever sent on `s` (any incarnation) is `≤ maxHigh s`, the largest
  high watermark any incarnation of `s` has announced (the `Ghost` of C04, threaded by `runG` along the same run);
* `C03F_incarnation_one_descent` — EXACTLY what survives of monotonicity in general: `curAcks` is the concatenation of two
  non-decreasing segments (at most ONE descent per incarnation, the one described above), the second one bounded by
  `lastHigh` while the stream is active; no descent in a first incarnation;
* `C03F_incarnation_monotone` / `C03F_incarnation_bounded` — the statements of the task, under the side condition
  `NoSrcBreak s acts` (source stream `s` itself is never broken; target streams and OTHER source streams may break and
  reconnect at any position, targets may re-acknowledge lower levels): then `curAcks` is the whole history `acksSent`, it is
  non-decreasing and every element is `≤ lastHigh`;
* `C03F_first_incarnation` — the same, state-based: for a stream with `inc ≤ 1` (also after it broke, until it re-opens).
-/
namespace S2S.Routing

/-- `runAG` computes the same state as `run` -/
theorem C03F_runAG_state (c : Cfg) (σ : State) (γ : AckGhost) (acts : List Act) :
    (runAG c σ γ acts).1 = run c σ acts := runAG_state c σ γ acts

/-- `runG` (C04) computes the same state as `run` and the ghost `AF.ghostRun` of the proof -/
theorem C03F_runG_eq (c : Cfg) (σ : State) (γ : Ghost) (acts : List Act) :
    runG c σ γ acts = (run c σ acts, AF.ghostRun c σ γ acts) := by
  induction acts generalizing σ γ with
  | nil => rfl
  | cons a rest ih => exact ih _ _

/-- the invariant at the end of a run, in the vocabulary of the statements below -/
theorem C03F_hist (ns nt : Nat) (acts : List Act) (henv : EnvOKF Cfg.cur (State.init ns nt) {} acts)
    {σ σ' : State} {γ : AckGhost} {γG : Ghost}
    (hr : runAG Cfg.cur (State.init ns nt) {} acts = (σ, γ))
    (hg : runG Cfg.cur (State.init ns nt) {} acts = (σ', γG)) (s : SId) :
    AF.Hist (γG.maxHighOf s) (σ.src s) (γ.baseOf s) := by
  have h := AF.hinv_cur ns nt acts henv s
  rw [C03F_runG_eq] at hg
  have e1 : σ = run Cfg.cur (State.init ns nt) acts := by rw [← runAG_state Cfg.cur _ {} acts, hr]
  have e2 : γ = (runAG Cfg.cur (State.init ns nt) {} acts).2 := by rw [hr]
  have e3 : γG = AF.ghostRun Cfg.cur (State.init ns nt) {} acts := (congrArg Prod.snd hg).symm
  rw [e1, e2, e3]; exact h

/-! ## true in general -/

/-- **bounded, `maxHigh` form**: every acknowledgement EVER sent on source stream `s` — a fortiori every acknowledgement
    of the current incarnation — is at most the largest high watermark any incarnation of `s` has announced -/
theorem C03F_history_bounded_maxHigh (ns nt : Nat) (acts : List Act)
    (henv : EnvOKF Cfg.cur (State.init ns nt) {} acts) (σ σ' : State) (γ : AckGhost) (γG : Ghost)
    (hr : runAG Cfg.cur (State.init ns nt) {} acts = (σ, γ))
    (hg : runG Cfg.cur (State.init ns nt) {} acts = (σ', γG)) (s : SId) :
    (∀ v ∈ (σ.src s).acksSent, v ≤ γG.maxHighOf s) ∧ (∀ v ∈ curAcks σ γ s, v ≤ γG.maxHighOf s) := by
  have h := C03F_hist ns nt acts henv hr hg s
  exact ⟨h.all_le, fun v hv => h.all_le v (List.mem_of_mem_drop hv)⟩

/-- **monotone, exact form**: the acknowledgements of the current incarnation are two non-decreasing segments
    `pre ++ post` — at most one descent per incarnation; if there is one (`pre ≠ []`) the incarnation is a restarted one
    and, while the stream is active, everything after the descent is bounded by `lastHigh` -/
theorem C03F_incarnation_one_descent (ns nt : Nat) (acts : List Act)
    (henv : EnvOKF Cfg.cur (State.init ns nt) {} acts) (σ : State) (γ : AckGhost)
    (hr : runAG Cfg.cur (State.init ns nt) {} acts = (σ, γ)) (s : SId) :
    ∃ pre post, curAcks σ γ s = pre ++ post ∧ pre.Pairwise (· ≤ ·) ∧ post.Pairwise (· ≤ ·) ∧
      (pre ≠ [] → (σ.src s).active = true → ∀ v ∈ post, v ≤ (σ.src s).lastHigh) ∧
      (pre ≠ [] → 1 < (σ.src s).inc) := by
  have hg : runG Cfg.cur (State.init ns nt) {} acts = (_, _) := C03F_runG_eq _ _ _ _
  obtain ⟨pre, post, h1, h2, h3, h4, h5⟩ := (C03F_hist ns nt acts henv hr hg s).one_descent
  refine ⟨pre, post, h1, h2, h3, h4, fun hp => ?_⟩
  apply Classical.byContradiction; intro hn
  exact hp (h5 (Nat.le_of_not_lt hn))

/-- **first incarnation** (`inc ≤ 1`: the stream was opened at most once; it may have broken since): the current
    incarnation's acknowledgements are the whole history, non-decreasing, and bounded by `lastHigh` while active -/
theorem C03F_first_incarnation (ns nt : Nat) (acts : List Act)
    (henv : EnvOKF Cfg.cur (State.init ns nt) {} acts) (σ : State) (γ : AckGhost)
    (hr : runAG Cfg.cur (State.init ns nt) {} acts = (σ, γ)) (s : SId) (hinc : (σ.src s).inc ≤ 1) :
    curAcks σ γ s = (σ.src s).acksSent ∧ (curAcks σ γ s).Pairwise (· ≤ ·) ∧
      ((σ.src s).active = true → ∀ v ∈ curAcks σ γ s, v ≤ (σ.src s).lastHigh) := by
  have hg : runG Cfg.cur (State.init ns nt) {} acts = (_, _) := C03F_runG_eq _ _ _ _
  obtain ⟨h1, h2, h3⟩ := (C03F_hist ns nt acts henv hr hg s).first_mono hinc
  have hc : curAcks σ γ s = (σ.src s).acksSent := h1
  rw [hc]; exact ⟨rfl, h2, h3⟩

/-! ## the statements of the task, under `NoSrcBreak s acts` -/

theorem C03F_noSrcBreak_aux (ns nt : Nat) (acts : List Act)
    (henv : EnvOKF Cfg.cur (State.init ns nt) {} acts) (σ : State) (γ : AckGhost)
    (hr : runAG Cfg.cur (State.init ns nt) {} acts = (σ, γ)) (s : SId) (hnb : NoSrcBreak s acts) :
    curAcks σ γ s = (σ.src s).acksSent ∧ (curAcks σ γ s).Pairwise (· ≤ ·) ∧
      (∀ v ∈ curAcks σ γ s, v ≤ (σ.src s).lastHigh) := by
  have hF : AF.FirstInc (σ.src s) := by
    have := AF.firstInc_cur Cfg.cur ns nt acts s hnb
    rw [← runAG_state Cfg.cur _ {} acts, hr] at this; exact this
  obtain ⟨h1, h2, h3⟩ := C03F_first_incarnation ns nt acts henv σ γ hr s hF.1
  refine ⟨h1, h2, ?_⟩
  cases hact : (σ.src s).active with
  | true => exact h3 hact
  | false =>
    have hg : runG Cfg.cur (State.init ns nt) {} acts = (_, _) := C03F_runG_eq _ _ _ _
    have := (C03F_hist ns nt acts henv hr hg s).acks_nil_of_inactive hF hact
    rw [h1, this]; intro v hv; cases hv

/-- **C03F, monotone**: if source stream `s` itself is never broken — whatever the target streams and the other source
    streams do: break, reconnect, re-acknowledge lower levels — its acknowledgement sequence is non-decreasing -/
theorem C03F_incarnation_monotone (ns nt : Nat) (acts : List Act)
    (henv : EnvOKF Cfg.cur (State.init ns nt) {} acts) (σ : State) (γ : AckGhost)
    (hr : runAG Cfg.cur (State.init ns nt) {} acts = (σ, γ)) (s : SId) (hnb : NoSrcBreak s acts) :
    (curAcks σ γ s).Pairwise (· ≤ ·) :=
  (C03F_noSrcBreak_aux ns nt acts henv σ γ hr s hnb).2.1

/-- **C03F, bounded**: under the same side condition every acknowledgement is at most the last exclusive high watermark
    the source announced (active or not: a stream that was never opened has sent nothing) -/
theorem C03F_incarnation_bounded (ns nt : Nat) (acts : List Act)
    (henv : EnvOKF Cfg.cur (State.init ns nt) {} acts) (σ : State) (γ : AckGhost)
    (hr : runAG Cfg.cur (State.init ns nt) {} acts = (σ, γ)) (s : SId) (hnb : NoSrcBreak s acts) :
    ∀ v ∈ curAcks σ γ s, v ≤ (σ.src s).lastHigh :=
  (C03F_noSrcBreak_aux ns nt acts henv σ γ hr s hnb).2.2

/-- under the side condition the current incarnation's acknowledgements are the whole history -/
theorem C03F_curAcks_eq_acksSent (ns nt : Nat) (acts : List Act)
    (henv : EnvOKF Cfg.cur (State.init ns nt) {} acts) (σ : State) (γ : AckGhost)
    (hr : runAG Cfg.cur (State.init ns nt) {} acts = (σ, γ)) (s : SId) (hnb : NoSrcBreak s acts) :
    curAcks σ γ s = (σ.src s).acksSent :=
  (C03F_noSrcBreak_aux ns nt acts henv σ γ hr s hnb).1

/-! ## the side condition cannot be dropped -/

set_option maxRecDepth 8000   -- the witnesses are evaluated by `decide`

/-- incarnation 1 of source 0 sends task 50, target 0 confirms it (`prevAck 0 = 50`); the source stream restarts; the
    target repeats its acknowledgement: the fall-back value 50 reaches the fresh incarnation, whose `lastHigh` is 0, and
    goes upstream unclamped; the restarted source announces high watermark 1; the target repeats its acknowledgement
    once more: 50 passes the guard `≥ lastSentMin = 50` and is clamped to `lastHigh = 1` -/
def witnessRestartDescent : List Act :=
  [.openTgt 0, .startTgt 0, .replayDone 0, .openSrc 0,
   .recv 0 [(50, 0)] 51, .deliver 0 0, .take 0, .emit 0,
   .tack 0 2, .ackFwd 0 0, .ackFin 0, .rack 0,
   .breakSrc 0, .openSrc 0,
   .tack 0 2, .ackFwd 0 0, .ackFin 0, .rack 0,
   .recv 0 [] 1,
   .tack 0 2, .ackFwd 0 0, .ackFin 0, .rack 0]

/-- the unrestricted statements 1 and 2 (`lastHigh` form) are FALSE: the restarted incarnation sent `[50, 1]`, and its
    `lastHigh` is 1 (already after its first acknowledgement, 50, it was 0) -/
theorem C03F_refuted_after_source_restart :
    EnvOKF Cfg.cur (State.init 1 1) {} witnessRestartDescent ∧
    curAcks (runAG Cfg.cur (State.init 1 1) {} witnessRestartDescent).1
      (runAG Cfg.cur (State.init 1 1) {} witnessRestartDescent).2 0 = [50, 1] ∧
    ¬ (curAcks (runAG Cfg.cur (State.init 1 1) {} witnessRestartDescent).1
      (runAG Cfg.cur (State.init 1 1) {} witnessRestartDescent).2 0).Pairwise (· ≤ ·) ∧
    ((runAG Cfg.cur (State.init 1 1) {} witnessRestartDescent).1.src 0).active = true ∧
    ¬ (∀ v ∈ curAcks (runAG Cfg.cur (State.init 1 1) {} witnessRestartDescent).1
      (runAG Cfg.cur (State.init 1 1) {} witnessRestartDescent).2 0,
        v ≤ ((runAG Cfg.cur (State.init 1 1) {} witnessRestartDescent).1.src 0).lastHigh) := by decide

/-- already the prefix up to the first acknowledgement of the restarted incarnation violates boundedness: `[50]` with
    `lastHigh = 0`, stream active -/
theorem C03F_refuted_bounded_before_first_batch :
    EnvOKF Cfg.cur (State.init 1 1) {} (witnessRestartDescent.take 18) ∧
    curAcks (runAG Cfg.cur (State.init 1 1) {} (witnessRestartDescent.take 18)).1
      (runAG Cfg.cur (State.init 1 1) {} (witnessRestartDescent.take 18)).2 0 = [50] ∧
    ((runAG Cfg.cur (State.init 1 1) {} (witnessRestartDescent.take 18)).1.src 0).active = true ∧
    ((runAG Cfg.cur (State.init 1 1) {} (witnessRestartDescent.take 18)).1.src 0).lastHigh = 0 := by decide

/-- the general theorems do apply to the refuting run: it is bounded by `maxHigh = 51`, and `[50] ++ [1]` is its
    one descent -/
example : (runG Cfg.cur (State.init 1 1) {} witnessRestartDescent).2.maxHighOf 0 = 51 ∧
    ((runAG Cfg.cur (State.init 1 1) {} witnessRestartDescent).1.src 0).inc = 2 ∧
    ¬ NoSrcBreak 0 witnessRestartDescent := by decide

/-! ## non-vacuity -/

/-- a target break: target 0 confirmed everything up to 11 and 11 went upstream; the target stream breaks and reconnects;
    the watermark 5 is replayed to the new incarnation, which acknowledges it — a LOWER level (`ackByTarget 0 = 5`);
    `sendAck` holds it back (5 < `lastSentMin` = 11) and the keep-alive repeats 11 -/
def witnessTargetReackLower : List Act :=
  [.openTgt 0, .startTgt 0, .replayDone 0, .openSrc 0,
   .recv 0 [] 5, .bcastStep 0 0, .take 0, .emit 0,
   .recv 0 [(10, 0), (11, 0)] 12, .deliver 0 0, .take 0, .emit 0,
   .tack 0 3, .ackFwd 0 0, .ackFin 0, .rack 0,
   .breakTgt 0, .openTgt 0, .startTgt 0, .replayStep 0 0, .replayDone 0, .take 0, .emit 0,
   .tack 0 1, .ackFwd 0 0, .ackFin 0, .rack 0, .tick]

example : EnvOKF Cfg.cur (State.init 1 1) {} witnessTargetReackLower ∧
    NoSrcBreak 0 witnessTargetReackLower ∧ ¬ NoFaults witnessTargetReackLower ∧
    ((runAG Cfg.cur (State.init 1 1) {} witnessTargetReackLower).1.src 0).ackByTarget = [(0, 5)] ∧
    ((runAG Cfg.cur (State.init 1 1) {} witnessTargetReackLower).1.src 0).acksSent = [11, 11] ∧
    curAcks (runAG Cfg.cur (State.init 1 1) {} witnessTargetReackLower).1
      (runAG Cfg.cur (State.init 1 1) {} witnessTargetReackLower).2 0 = [11, 11] ∧
    ((runAG Cfg.cur (State.init 1 1) {} witnessTargetReackLower).1.src 0).lastHigh = 12 := by decide

/-- … and the theorems apply to it -/
example : (curAcks (runAG Cfg.cur (State.init 1 1) {} witnessTargetReackLower).1
      (runAG Cfg.cur (State.init 1 1) {} witnessTargetReackLower).2 0).Pairwise (· ≤ ·) ∧
    ∀ v ∈ curAcks (runAG Cfg.cur (State.init 1 1) {} witnessTargetReackLower).1
      (runAG Cfg.cur (State.init 1 1) {} witnessTargetReackLower).2 0,
      v ≤ ((runAG Cfg.cur (State.init 1 1) {} witnessTargetReackLower).1.src 0).lastHigh :=
  have henv : EnvOKF Cfg.cur (State.init 1 1) {} witnessTargetReackLower := by decide
  have hnb : NoSrcBreak 0 witnessTargetReackLower := by decide
  ⟨C03F_incarnation_monotone 1 1 _ henv (runAG Cfg.cur (State.init 1 1) {} witnessTargetReackLower).1
      (runAG Cfg.cur (State.init 1 1) {} witnessTargetReackLower).2 rfl 0 hnb,
    C03F_incarnation_bounded 1 1 _ henv (runAG Cfg.cur (State.init 1 1) {} witnessTargetReackLower).1
      (runAG Cfg.cur (State.init 1 1) {} witnessTargetReackLower).2 rfl 0 hnb⟩

/-- a source restart: incarnation 1 acknowledged 11; the restarted stream re-sends task 10 (high 11), the target confirms
    it, incarnation 2 acknowledges 10: the whole history `[11, 10, 10]` is NOT monotone — the restart begins lower —
    while the current incarnation's `[10, 10]` is, and is bounded by its `lastHigh = 11` -/
def witnessSourceRestartLower : List Act :=
  [.openTgt 0, .startTgt 0, .replayDone 0, .openSrc 0,
   .recv 0 [(10, 0), (11, 0)] 12, .deliver 0 0, .take 0, .emit 0,
   .tack 0 2, .ackFwd 0 0, .ackFin 0, .rack 0,
   .breakSrc 0, .openSrc 0,
   .recv 0 [(10, 0)] 11, .deliver 0 0, .take 0, .emit 0,
   .tack 0 3, .ackFwd 0 0, .ackFin 0, .rack 0, .tick]

example : EnvOKF Cfg.cur (State.init 1 1) {} witnessSourceRestartLower ∧
    ((runAG Cfg.cur (State.init 1 1) {} witnessSourceRestartLower).1.src 0).acksSent = [11, 10, 10] ∧
    ¬ ((runAG Cfg.cur (State.init 1 1) {} witnessSourceRestartLower).1.src 0).acksSent.Pairwise (· ≤ ·) ∧
    curAcks (runAG Cfg.cur (State.init 1 1) {} witnessSourceRestartLower).1
      (runAG Cfg.cur (State.init 1 1) {} witnessSourceRestartLower).2 0 = [10, 10] ∧
    (curAcks (runAG Cfg.cur (State.init 1 1) {} witnessSourceRestartLower).1
      (runAG Cfg.cur (State.init 1 1) {} witnessSourceRestartLower).2 0).Pairwise (· ≤ ·) ∧
    ((runAG Cfg.cur (State.init 1 1) {} witnessSourceRestartLower).1.src 0).lastHigh = 11 ∧
    (runG Cfg.cur (State.init 1 1) {} witnessSourceRestartLower).2.maxHighOf 0 = 12 := by decide

/-- … and the general theorems apply to it (restarted incarnation, no descent: `pre = []`) -/
example : ∃ pre post, curAcks (runAG Cfg.cur (State.init 1 1) {} witnessSourceRestartLower).1
      (runAG Cfg.cur (State.init 1 1) {} witnessSourceRestartLower).2 0 = pre ++ post ∧
    pre.Pairwise (· ≤ ·) ∧ post.Pairwise (· ≤ ·) :=
  have henv : EnvOKF Cfg.cur (State.init 1 1) {} witnessSourceRestartLower := by decide
  let ⟨pre, post, h1, h2, h3, _⟩ := C03F_incarnation_one_descent 1 1 _ henv
    (runAG Cfg.cur (State.init 1 1) {} witnessSourceRestartLower).1
    (runAG Cfg.cur (State.init 1 1) {} witnessSourceRestartLower).2 rfl 0
  ⟨pre, post, h1, h2, h3⟩

end S2S.Routing
