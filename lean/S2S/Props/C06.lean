import S2S.Proofs.ForwarderSafe
import S2S.Proofs.ForwarderLive
/-!
# C06 — pass-through streams relay both directions faithfully and end together

Model: `S2S/Model/Forwarder.lean` — `StreamForwarder.Run` with its six goroutines (handler, two
relay loops, two `startListener` goroutines, the `CloseSend` goroutine), the shutdown latch, the
outgoing context, the 1 s `CloseSend` guard; one `Act` = one atomic step of one goroutine or of
the environment (peers, operator, clock).  Every theorem quantifies over **every** environment
`e : Env` it does not constrain and **every** list of actions from the initial state: all message
sequences in both directions, every ending kind (`push d .eof/.err/.unknown`, `sendFail d`,
`iniCancel`, `shutdown`) at every position, every interleaving of the two directions.

Faithfulness (any environment, no hypothesis):
* `C06_relay_prefix` — what a peer received is a prefix of what the other peer sent (payloads are
  carried by identity: in order, nothing duplicated, nothing invented).
* `C06_relay_exact_while_running`, `C06_relay_exact_until_latch` — while a direction relays
  (its loop alive, latch not set) the account is exact: sent = received ++ (≤ 2 messages in the
  proxy's hands) ++ still queued on the stream.  Nothing is skipped or reordered.

Ending together (under `GrpcStreamEnv`: context cancellation unblocks a client `Recv`, handler
return cancels the server stream, `CloseSend` returns; a source that ignores the half-close is
ALLOWED):
* `C06_every_schedule_terminates` — every internal action strictly decreases `mu`: whatever the Go
  scheduler and `select` do, the proxy side runs out of steps (needs no hypothesis on gRPC).
* `C06_quiescent_ended_is_done` — a reachable state in which either side has ended (`Ending`) and
  in which no goroutine can move is `Done`: both loops finished, latch set, `CloseSend`
  attempted, outgoing context cancelled, handler returned, all six goroutines gone.
* `C06_every_schedule_ends_together` — hence every maximal internal run from any reachable state
  with an ending finishes `Done`.
* `C06_ends_together` — in particular the deterministic scheduler `settle` with fuel `mu σ`.

Excluded environments (each hypothesis of `GrpcStreamEnv` is needed; kernel-checked witnesses):
`C06_stuck_without_handler_return_cancel`, `C06_stuck_without_ctx_cancel`,
`C06_closeSend_guard_leak` (the `CloseSend` goroutine is leaked for good when the 1 s guard
fires — the send on the unbuffered `closeSent` channel has no receiver any more), and
`C06_shutdown_needs_conn_close` (the handler never looks at `lifetime`).
-/
namespace S2S.Forwarder

/-! ## faithfulness -/

/-- **(a)** in every reachable state, what each peer received is a prefix of what the other peer sent. -/
theorem C06_relay_prefix (e : Env) (acts : List Act) (d : D) :
    ((run (State.init e) acts).dir d).out <+: ((run (State.init e) acts).dir d).sent :=
  relay_prefix e acts d

/-- **(b)** while direction `d` is relaying (loop alive, listener not told to stop) the account is exact:
    everything sent = everything received ++ the values in the loop's and the listener's hand
    (at most two) ++ what the stream has not delivered yet. -/
theorem C06_relay_exact_while_running (e : Env) (acts : List Act) (d : D)
    (hr : ((run (State.init e) acts).dir d).running = true) :
    ((run (State.init e) acts).dir d).sent =
      ((run (State.init e) acts).dir d).out ++ ((run (State.init e) acts).dir d).loop.hand ++
      ((run (State.init e) acts).dir d).lis.hand ++ dataIds ((run (State.init e) acts).dir d).queue ∧
    ((run (State.init e) acts).dir d).loop.hand.length + ((run (State.init e) acts).dir d).lis.hand.length ≤ 2 :=
  ⟨relay_exact e acts d hr, hand_length_le _⟩

/-- **(b′)** the same, phrased with the latch: as long as the latch is not set, a loop that has not
    stopped loses nothing. -/
theorem C06_relay_exact_until_latch (e : Env) (acts : List Act) (d : D)
    (hl : (run (State.init e) acts).latch = false)
    (ha : ((run (State.init e) acts).dir d).loop.alive = true) :
    ((run (State.init e) acts).dir d).sent =
      ((run (State.init e) acts).dir d).out ++ ((run (State.init e) acts).dir d).loop.hand ++
      ((run (State.init e) acts).dir d).lis.hand ++ dataIds ((run (State.init e) acts).dir d).queue := by
  apply relay_exact e acts d
  have hc := ctl_run e acts
  simp only [Dir.running, ha, Bool.true_and, bne_iff_ne, ne_eq]
  intro hx
  have : (run (State.init e) acts).latch = true := by
    cases d
    · exact hc.c6s hx
    · exact hc.c6i hx
  rw [hl] at this; cases this

/-! ## ending together -/

/-- every internal action (any goroutine of the proxy, any gRPC reaction) strictly decreases `mu`:
    every schedule terminates. -/
theorem C06_every_schedule_terminates (e : Env) (acts : List Act) (a : Act) (σ' : State)
    (ha : a.isInternal = true) (hs : step (run (State.init e) acts) a = some σ') :
    mu σ' < mu (run (State.init e) acts) :=
  mu_decreases_ctl (ctl_run e acts) ha hs

/-- a reachable state with an ending in which nothing can move is `Done`. -/
theorem C06_quiescent_ended_is_done (e : Env) (acts : List Act) (henv : GrpcStreamEnv e)
    (he : Ending (run (State.init e) acts)) (hq : Quiescent (run (State.init e) acts)) :
    Done (run (State.init e) acts) :=
  quiescent_ending_done (ctl_run e acts) (by rw [run_env]; exact henv) he hq

/-- **(c), all schedules**: from EVERY reachable state in which either side has ended, every
    maximal run of internal actions (`sched`, any order) finishes `Done`. -/
theorem C06_every_schedule_ends_together (e : Env) (acts sched : List Act) (henv : GrpcStreamEnv e)
    (he : Ending (run (State.init e) acts))
    (hq : Quiescent (run (State.init e) (acts ++ sched))) :
    Done (run (State.init e) (acts ++ sched)) := by
  refine C06_quiescent_ended_is_done e (acts ++ sched) henv ?_ hq
  rw [run_append]
  exact ending_run he sched

/-- **(c), the scheduler**: `settle` with fuel `mu σ` reaches `Done` from every reachable state with an ending. -/
theorem C06_ends_together (e : Env) (acts : List Act) (henv : GrpcStreamEnv e)
    (he : Ending (run (State.init e) acts)) :
    Done (settle (mu (run (State.init e) acts)) (run (State.init e) acts)) :=
  settle_done _ _ (ctl_run e acts) (by rw [run_env]; exact henv) he (Nat.le_refl _)

/-- `settle` is a composition of internal fine steps (so everything above applies to the driver's big steps). -/
theorem C06_settle_is_run (fuel : Nat) (σ : State) :
    ∃ sched : List Act, (∀ a ∈ sched, a.isInternal = true) ∧ settle fuel σ = run σ sched :=
  settle_is_run fuel σ

/-! ## the hypotheses are needed: kernel-checked witnesses for the excluded environments -/

/-- the stream after start-up: both listeners parked in `Recv` -/
def started (e : Env) : State := settle 50 (State.init e)

/-- gRPC that does NOT cancel the server stream when the handler returns: after a source EOF the
    handler returns but the target listener stays blocked in `targetStreamServer.Recv` forever. -/
theorem C06_stuck_without_handler_return_cancel :
    let σ := settle 100 (run (started { returnCancelsSrv := false }) [.push .s .eof])
    Ending σ ∧ firstEnabled σ internalActs = none ∧ σ.h = .returned ∧ σ.i.lis = .inRecv ∧ aliveCount σ = 1 ∧ ¬ Done σ := by
  decide

/-- a client stream whose `Recv` ignores context cancellation, and a source that ignores the
    half-close: after an initiator EOF the source listener stays blocked in `sourceStreamClient.Recv`. -/
theorem C06_stuck_without_ctx_cancel :
    let σ := settle 100 (run (started { cancelUnblocksRecv := false, answersCloseSend := false }) [.push .i .eof])
    Ending σ ∧ firstEnabled σ internalActs = none ∧ σ.h = .returned ∧ σ.s.lis = .inRecv ∧ aliveCount σ = 1 ∧ ¬ Done σ := by
  decide

/-- **latent leak**: a `CloseSend` that blocks longer than the 1 s guard.  The guard fires, the handler
    returns and cancels the context, `CloseSend` returns — and its goroutine blocks for ever on the
    unbuffered `closeSent` channel nobody reads any more. -/
theorem C06_closeSend_guard_leak :
    let σ₁ := settle 100 (run (started { closeSendHangs := true }) [.push .i .eof])
    let σ₂ := settle 100 (run σ₁ [.tick])
    σ₁.i.loop = .guard ∧ σ₁.cs = .calling ∧ σ₁.h = .waiting ∧
    Ending σ₂ ∧ firstEnabled σ₂ internalActs = none ∧ step σ₂ .tick = none ∧
    σ₂.h = .returned ∧ σ₂.cs = .signalling ∧ aliveCount σ₂ = 1 ∧ ¬ Done σ₂ := by
  decide

/-- the handler never looks at `lifetime`: proxy shutdown ends a pass-through stream only because
    `ClusterConnection` closes the client connection; without that nothing happens at all. -/
theorem C06_shutdown_needs_conn_close :
    let σ := settle 100 (run (started { shutdownClosesConn := false }) [.shutdown])
    σ = started { shutdownClosesConn := false } ∧ ¬ Ending σ ∧ σ.h = .waiting ∧ aliveCount σ = 5 := by
  decide

/-! ## non-vacuity -/

/-- three replication messages and two sync-states relayed, then the source fails: the hypotheses
    hold, the ending is recognised, and `settle` ends everything (message 3, queued before the
    error, is still relayed; sync-state 8 of the other direction is legitimately dropped — prefix,
    not equality); a source that ignores the half-close changes nothing. -/
example :
    let e : Env := { answersCloseSend := false }
    let acts : List Act := [.lCheck .s, .lCheck .i, .push .s (.data 1), .lRecv .s, .lHand .s, .rProc .s,
      .push .i (.data 7), .push .s (.data 2), .lCheck .s, .lRecv .s, .lCheck .i, .lRecv .i, .lHand .i, .lHand .s,
      .rProc .i, .rProc .s, .push .s (.data 3), .push .i (.data 8), .push .s .err]
    let σ := run (State.init e) acts
    GrpcStreamEnv e ∧ Ending σ ∧ ¬ Done σ ∧ σ.s.out = [1, 2] ∧ σ.i.out = [7] ∧
    Done (settle (mu σ) σ) ∧ (settle (mu σ) σ).s.out = [1, 2, 3] ∧ (settle (mu σ) σ).i.out = [7] := by
  decide

/-- every ending kind, from the parked state, ends together (default environment) -/
example :
    (∀ acts ∈ ([[.push .s .eof], [.push .s .err], [.push .s .unknown], [.push .i .eof], [.push .i .err],
        [.push .i .unknown], [.iniCancel], [.shutdown], [.sendFail .s, .push .s (.data 1)],
        [.sendFail .i, .push .i (.data 1)]] : List (List Act)),
      let σ := run (started {}) acts
      Ending σ ∧ ¬ Done σ ∧ Done (settle (mu σ) σ)) := by
  decide

/-- a send-failure switch alone is not yet an ending (nothing hits it): the stream keeps relaying -/
example :
    let σ := settle 100 (run (started {}) [.sendFail .s, .push .i (.data 4)])
    ¬ Ending σ ∧ σ.i.out = [4] ∧ aliveCount σ = 5 := by
  decide

end S2S.Forwarder
