import S2S.Proofs.ForwarderSafe
import S2S.Proofs.ForwarderLive
/-!
# C06 — pass-through streams relay both directions faithfully and end together

Model: `S2S/Model/Forwarder.lean` — `StreamForwarder.Run` with its six goroutines (handler, two
relay loops, two `startListener` goroutines, the `CloseSend` goroutine), the shutdown latch, the
outgoing context, the 1 s `CloseSend` guard; one `Act` = one atomic step of one goroutine or of
the environment (peers, operator, clock).  Every theorem quantifies over **every** environment
`e : Env` it does not constrain and **every** list of actions from the initial state: all message
sequences in both directions, every ending kind (`push d .eof/.err/.unknown`, `sendFail d`,
`iniCancel`, `shutdown`) at every position, every interleaving of the two directions.

Faithfulness (any environment, no hypothesis):
* `C06_relay_prefix` — what a peer received is a prefix of what the other peer sent (payloads are
  carried by identity: in order, nothing duplicated, nothing invented).
* `C06_relay_exact_while_running`, `C06_relay_exact_until_latch` — while a direction relays
  (its loop alive, latch not set) the account is exact: sent = received ++ (≤ 2 messages in the
  proxy's hands) ++ still queued on the stream.  Nothing is skipped or reordered.

Ending together (under `GrpcStreamEnv`: context cancellation unblocks a client `Recv`, handler
return cancels the server stream, `CloseSend` returns; a source that ignores the half-close is
ALLOWED) — and only while NO PEER IS STALLED (`Unstalled`): a gRPC `Send` blocks while the
receiving peer does not read (`Act.stall d` / `Act.unstall d`, flag `Dir.stalled`), and a relay
loop blocked in `Send` looks neither at its channel nor at the latch:
* `C06_every_schedule_terminates` — every internal action strictly decreases `mu`: whatever the Go
  scheduler and `select` do, the proxy side runs out of steps (needs no hypothesis on gRPC, and
  none on stalls: a blocked `Send` only removes steps).
* `C06_quiescent_ended_is_done` — a reachable state in which either side has ended (`Ending`), in
  which no goroutine can move and in which no peer is stalled is `Done`: both loops finished, latch
  set, `CloseSend` attempted, outgoing context cancelled, handler returned, all six goroutines gone.
  The hypothesis is about THAT state only (peers may have been stalled and unstalled before).
* `C06_quiescent_ended_done_iff_not_blocked` — exactly: such a state (stalled or not) is `Done` iff
  no relay loop sits in a blocked `Send` (`blockedInSend`); a blocked `Send` is the ONLY way a
  pass-through stream with an ending fails to end.
* `C06_every_schedule_ends_together` — hence every maximal run without a `stall` from any
  reachable state with an ending and no stalled peer finishes `Done`.
* `C06_ends_together` — in particular the deterministic scheduler `settle` with fuel `mu σ`.
* `C06_*_no_send_can_block` — the same under the weaker `NoSendCanBlock` (a stalled peer whose stream
  is already done / broken / cancelled cannot block a `Send`); `C06_cancel_ends_together_even_stalled`:
  the initiator going away ends every stream together, whoever is stalled.
* `C06_stuck_behind_blocked_send`, `C06_stuck_behind_blocked_send_i` — the hypothesis is needed: the
  source ends (EOF) while `forwardReplicationMessages` is blocked in `targetStreamServer.Send` to an
  initiator that does not read (resp. the initiator half-closes while `forwardAcks` is blocked in
  `sourceStreamClient.Send`): the listener picks the EOF up and then nothing moves, latch not set,
  handler not returned.  `C06_unstall_resumes`: as soon as the peer reads again the message goes
  through and everything ends together.  `C06_cancel_unblocks_blocked_send`: a cancelled context
  makes the blocked `Send` return an error; the stream ends together with the peer still stalled.

Excluded environments (each hypothesis of `GrpcStreamEnv` is needed; kernel-checked witnesses):
`C06_stuck_without_handler_return_cancel`, `C06_stuck_without_ctx_cancel`,
`C06_closeSend_guard_leak` (the `CloseSend` goroutine is leaked for good when the 1 s guard
fires — the send on the unbuffered `closeSent` channel has no receiver any more), and
`C06_shutdown_needs_conn_close` (the handler never looks at `lifetime`).
-/
namespace S2S.Forwarder

/-! ## faithfulness -/

/-- **(a)** in every reachable state, what each peer received is a prefix of what the other peer sent. -/
theorem C06_relay_prefix (e : Env) (acts : List Act) (d : D) :
    ((run (State.init e) acts).dir d).out <+: ((run (State.init e) acts).dir d).sent :=
  relay_prefix e acts d

/-- **(b)** while direction `d` is relaying (loop alive, listener not told to stop) the account is exact:
    everything sent = everything received ++ the values in the loop's and the listener's hand
    (at most two) ++ what the stream has not delivered yet. -/
theorem C06_relay_exact_while_running (e : Env) (acts : List Act) (d : D)
    (hr : ((run (State.init e) acts).dir d).running = true) :
    ((run (State.init e) acts).dir d).sent =
      ((run (State.init e) acts).dir d).out ++ ((run (State.init e) acts).dir d).loop.hand ++
      ((run (State.init e) acts).dir d).lis.hand ++ dataIds ((run (State.init e) acts).dir d).queue ∧
    ((run (State.init e) acts).dir d).loop.hand.length + ((run (State.init e) acts).dir d).lis.hand.length ≤ 2 :=
  ⟨relay_exact e acts d hr, hand_length_le _⟩

/-- **(b′)** the same, phrased with the latch: as long as the latch is not set, a loop that has not
    stopped loses nothing. -/
theorem C06_relay_exact_until_latch (e : Env) (acts : List Act) (d : D)
    (hl : (run (State.init e) acts).latch = false)
    (ha : ((run (State.init e) acts).dir d).loop.alive = true) :
    ((run (State.init e) acts).dir d).sent =
      ((run (State.init e) acts).dir d).out ++ ((run (State.init e) acts).dir d).loop.hand ++
      ((run (State.init e) acts).dir d).lis.hand ++ dataIds ((run (State.init e) acts).dir d).queue := by
  apply relay_exact e acts d
  have hc := ctl_run e acts
  simp only [Dir.running, ha, Bool.true_and, bne_iff_ne, ne_eq]
  intro hx
  have : (run (State.init e) acts).latch = true := by
    cases d
    · exact hc.c6s hx
    · exact hc.c6i hx
  rw [hl] at this; cases this

/-! ## ending together -/

/-- every internal action (any goroutine of the proxy, any gRPC reaction) strictly decreases `mu`:
    every schedule terminates. -/
theorem C06_every_schedule_terminates (e : Env) (acts : List Act) (a : Act) (σ' : State)
    (ha : a.isInternal = true) (hs : step (run (State.init e) acts) a = some σ') :
    mu σ' < mu (run (State.init e) acts) :=
  mu_decreases_ctl (ctl_run e acts) ha hs

/-- a reachable state with an ending in which nothing can move is `Done`. -/
theorem C06_quiescent_ended_is_done (e : Env) (acts : List Act) (henv : GrpcStreamEnv e)
    (he : Ending (run (State.init e) acts)) (hq : Quiescent (run (State.init e) acts))
    (hu : Unstalled (run (State.init e) acts)) :
    Done (run (State.init e) acts) :=
  quiescent_ending_done (ctl_run e acts) (by rw [run_env]; exact henv) he hq (unstalled_noSendCanBlock hu)

/-- exactly: a reachable state with an ending in which nothing can move (peers stalled or not) is
    `Done` iff no relay loop is blocked in `Send`. -/
theorem C06_quiescent_ended_done_iff_not_blocked (e : Env) (acts : List Act) (henv : GrpcStreamEnv e)
    (he : Ending (run (State.init e) acts)) (hq : Quiescent (run (State.init e) acts)) :
    Done (run (State.init e) acts) ↔ ∀ d, blockedInSend (run (State.init e) acts) d = false :=
  quiescent_ending_done_iff (ctl_run e acts) (by rw [run_env]; exact henv) he hq

/-- **(c), all schedules**: from EVERY reachable state in which either side has ended and no peer is
    stalled (whatever happened before: `acts` may stall and unstall), every maximal run (`sched`, any
    order) in which no peer stalls finishes `Done`. -/
theorem C06_every_schedule_ends_together (e : Env) (acts sched : List Act) (henv : GrpcStreamEnv e)
    (he : Ending (run (State.init e) acts))
    (hu : Unstalled (run (State.init e) acts)) (hns : ∀ d, Act.stall d ∉ sched)
    (hq : Quiescent (run (State.init e) (acts ++ sched))) :
    Done (run (State.init e) (acts ++ sched)) := by
  refine C06_quiescent_ended_is_done e (acts ++ sched) henv ?_ hq ?_
  · rw [run_append]
    exact ending_run he sched
  · rw [run_append]
    exact unstalled_run hu sched hns

/-- **(c), the scheduler**: `settle` with fuel `mu σ` reaches `Done` from every reachable state with an
    ending in which no peer is stalled. -/
theorem C06_ends_together (e : Env) (acts : List Act) (henv : GrpcStreamEnv e)
    (he : Ending (run (State.init e) acts)) (hu : Unstalled (run (State.init e) acts)) :
    Done (settle (mu (run (State.init e) acts)) (run (State.init e) acts)) :=
  settle_done _ _ (ctl_run e acts) (by rw [run_env]; exact henv) he (unstalled_noSendCanBlock hu) (Nat.le_refl _)

/-- sharper than `Unstalled`: it is enough that no `Send` CAN block (`NoSendCanBlock`: every stalled
    peer's stream is already done / broken / cancelled, so a `Send` to it returns an error). -/
theorem C06_every_schedule_ends_together_no_send_can_block (e : Env) (acts sched : List Act) (henv : GrpcStreamEnv e)
    (he : Ending (run (State.init e) acts))
    (hu : NoSendCanBlock (run (State.init e) acts)) (hns : ∀ d, Act.stall d ∉ sched)
    (hq : Quiescent (run (State.init e) (acts ++ sched))) :
    Done (run (State.init e) (acts ++ sched)) := by
  refine quiescent_ending_done (ctl_run e _) (by rw [run_env]; exact henv) ?_ hq ?_
  · rw [run_append]
    exact ending_run he sched
  · rw [run_append]
    exact noSendCanBlock_run hu sched hns

theorem C06_ends_together_no_send_can_block (e : Env) (acts : List Act) (henv : GrpcStreamEnv e)
    (he : Ending (run (State.init e) acts)) (hu : NoSendCanBlock (run (State.init e) acts)) :
    Done (settle (mu (run (State.init e) acts)) (run (State.init e) acts)) :=
  settle_done _ _ (ctl_run e acts) (by rw [run_env]; exact henv) he hu (Nat.le_refl _)

/-- in particular the initiator going away (its stream's context cancelled; the outgoing context
    derives from it) ends EVERY pass-through stream together, whoever is stalled: both `Send`s fail. -/
theorem C06_cancel_ends_together_even_stalled (e : Env) (acts : List Act) (henv : GrpcStreamEnv e) :
    Done (settle (mu (run (State.init e) (acts ++ [.iniCancel]))) (run (State.init e) (acts ++ [.iniCancel]))) := by
  have hσ : run (State.init e) (acts ++ [.iniCancel]) = { run (State.init e) acts with srvCtx := true } := by
    rw [run_snoc]; rfl
  refine C06_ends_together_no_send_can_block e _ henv ?_ ?_
  · rw [hσ]; simp [Ending, ending]
  · rw [hσ]; constructor <;> intro _ <;> simp [sendOk]

/-- `settle` is a composition of internal fine steps (so everything above applies to the driver's big steps). -/
theorem C06_settle_is_run (fuel : Nat) (σ : State) :
    ∃ sched : List Act, (∀ a ∈ sched, a.isInternal = true) ∧ settle fuel σ = run σ sched :=
  settle_is_run fuel σ

/-! ## the hypotheses are needed: kernel-checked witnesses for the excluded environments -/

/-- the stream after start-up: both listeners parked in `Recv` -/
def started (e : Env) : State := settle 50 (State.init e)

/-- gRPC that does NOT cancel the server stream when the handler returns: after a source EOF the
    handler returns but the target listener stays blocked in `targetStreamServer.Recv` forever. -/
theorem C06_stuck_without_handler_return_cancel :
    let σ := settle 100 (run (started { returnCancelsSrv := false }) [.push .s .eof])
    Ending σ ∧ firstEnabled σ internalActs = none ∧ σ.h = .returned ∧ σ.i.lis = .inRecv ∧ aliveCount σ = 1 ∧ ¬ Done σ := by
  decide

/-- a client stream whose `Recv` ignores context cancellation, and a source that ignores the
    half-close: after an initiator EOF the source listener stays blocked in `sourceStreamClient.Recv`. -/
theorem C06_stuck_without_ctx_cancel :
    let σ := settle 100 (run (started { cancelUnblocksRecv := false, answersCloseSend := false }) [.push .i .eof])
    Ending σ ∧ firstEnabled σ internalActs = none ∧ σ.h = .returned ∧ σ.s.lis = .inRecv ∧ aliveCount σ = 1 ∧ ¬ Done σ := by
  decide

/-- **latent leak**: a `CloseSend` that blocks longer than the 1 s guard.  The guard fires, the handler
    returns and cancels the context, `CloseSend` returns — and its goroutine blocks for ever on the
    unbuffered `closeSent` channel nobody reads any more. -/
theorem C06_closeSend_guard_leak :
    let σ₁ := settle 100 (run (started { closeSendHangs := true }) [.push .i .eof])
    let σ₂ := settle 100 (run σ₁ [.tick])
    σ₁.i.loop = .guard ∧ σ₁.cs = .calling ∧ σ₁.h = .waiting ∧
    Ending σ₂ ∧ firstEnabled σ₂ internalActs = none ∧ step σ₂ .tick = none ∧
    σ₂.h = .returned ∧ σ₂.cs = .signalling ∧ aliveCount σ₂ = 1 ∧ ¬ Done σ₂ := by
  decide

/-- the handler never looks at `lifetime`: proxy shutdown ends a pass-through stream only because
    `ClusterConnection` closes the client connection; without that nothing happens at all. -/
theorem C06_shutdown_needs_conn_close :
    let σ := settle 100 (run (started { shutdownClosesConn := false }) [.shutdown])
    σ = started { shutdownClosesConn := false } ∧ ¬ Ending σ ∧ σ.h = .waiting ∧ aliveCount σ = 5 := by
  decide

/-! ## a peer that stops reading: the `Unstalled` hypothesis is needed -/

/-- start-up is the two listeners entering `Recv` -/
theorem started_eq_run (e : Env) : started e = run (State.init e) [.lCheck .s, .lCheck .i] := by
  cases e with | mk a b c d f => cases a <;> cases b <;> cases c <;> cases d <;> cases f <;> decide

/-- the source sends message 1, the initiator stops reading, the listener hands the message to
    `forwardReplicationMessages` (which calls `targetStreamServer.Send` and blocks), the source ends -/
def sendBlockedS : List Act := [.push .s (.data 1), .stall .s, .lRecv .s, .lHand .s, .push .s .eof]

/-- the initiator sends ack 7, the source stops reading, the listener hands the ack to `forwardAcks`
    (which calls `sourceStreamClient.Send` and blocks), the initiator half-closes (clean EOF) -/
def sendBlockedI : List Act := [.push .i (.data 7), .stall .i, .lRecv .i, .lHand .i, .push .i .eof]

/-- where the stream of `sendBlockedS` / `sendBlockedI` comes to rest -/
def stuckS : State := settle 100 (run (started {}) sendBlockedS)
def stuckI : State := settle 100 (run (started {}) sendBlockedI)

/-- **the stream does not end although the source has ended**: `forwardReplicationMessages` is blocked
    in `Send` to an initiator that does not read.  After the source's EOF the only internal action
    enabled is the source listener's (it enters `Recv`, gets the EOF, and then waits for ever at its
    `select`: the loop is not receiving and the latch is not set); then nothing at all is enabled.
    The latch is false, the handler has not returned, five goroutines are alive, the message is not
    delivered — in a `GrpcStreamEnv` environment. -/
theorem C06_stuck_behind_blocked_send :
    let σ := run (started {}) sendBlockedS
    GrpcStreamEnv σ.env ∧ Ending σ ∧ blockedInSend σ .s = true ∧ step σ (.rProc .s) = none ∧
    (∀ a ∈ internalActs, (step σ a).isSome = true → a = .lCheck .s) ∧
    stuckS = run σ [.lCheck .s, .lRecv .s] ∧ stuckS.s.lis = .has .eof ∧ stuckS.s.loop = .holding (.data 1) ∧
    Ending stuckS ∧ firstEnabled stuckS internalActs = none ∧ stuckS.latch = false ∧ stuckS.h = .waiting ∧
    stuckS.s.out = [] ∧ aliveCount stuckS = 5 ∧ ¬ Done stuckS := by
  decide

/-- symmetric: the initiator half-closes while `forwardAcks` is blocked in `sourceStreamClient.Send`
    to a source that does not read: no `CloseSend`, no latch, nothing ends. -/
theorem C06_stuck_behind_blocked_send_i :
    let σ := run (started {}) sendBlockedI
    GrpcStreamEnv σ.env ∧ Ending σ ∧ blockedInSend σ .i = true ∧ step σ (.rProc .i) = none ∧
    (∀ a ∈ internalActs, (step σ a).isSome = true → a = .lCheck .i) ∧
    stuckI = run σ [.lCheck .i, .lRecv .i] ∧ stuckI.i.lis = .has .eof ∧ stuckI.i.loop = .holding (.data 7) ∧
    Ending stuckI ∧ firstEnabled stuckI internalActs = none ∧ stuckI.latch = false ∧ stuckI.cs = .idle ∧
    stuckI.h = .waiting ∧ stuckI.i.out = [] ∧ aliveCount stuckI = 5 ∧ ¬ Done stuckI := by
  decide

theorem stuckS_reachable :
    stuckS = run (State.init {}) ([.lCheck .s, .lCheck .i] ++ sendBlockedS ++ [.lCheck .s, .lRecv .s]) := by
  decide

theorem stuckI_reachable :
    stuckI = run (State.init {}) ([.lCheck .s, .lCheck .i] ++ sendBlockedI ++ [.lCheck .i, .lRecv .i]) := by
  decide

/-- **the peer reads again**: from the two stuck states, `unstall` followed by the fair schedule ends
    together (by the re-stated `C06_ends_together`), and the message that was blocked is delivered. -/
theorem C06_unstall_resumes :
    (let σ := run stuckS [.unstall .s]
     Done (settle (mu σ) σ) ∧ (settle (mu σ) σ).s.out = [1]) ∧
    (let σ := run stuckI [.unstall .i]
     Done (settle (mu σ) σ) ∧ (settle (mu σ) σ).i.out = [7]) := by
  refine ⟨⟨?_, by decide⟩, ⟨?_, by decide⟩⟩
  · rw [stuckS_reachable, ← run_append]
    exact C06_ends_together {} _ (by decide) (by decide) (by decide)
  · rw [stuckI_reachable, ← run_append]
    exact C06_ends_together {} _ (by decide) (by decide) (by decide)

/-- **a cancelled context unblocks**: in the `.i` stuck state (`forwardAcks` blocked in
    `sourceStreamClient.Send`), the initiator going away (server stream's context cancelled, the
    outgoing context derives from it) makes the blocked `Send` return an error: `rProc .i` is
    enabled again, and the stream ends together although the source is still not reading (the ack
    is lost with the stream). -/
theorem C06_cancel_unblocks_blocked_send :
    let σ := run stuckI [.iniCancel]
    step stuckI (.rProc .i) = none ∧ (step σ (.rProc .i)).isSome = true ∧ blockedInSend σ .i = false ∧
    Done (settle (mu σ) σ) ∧ (settle (mu σ) σ).i.stalled = true ∧ (settle (mu σ) σ).i.out = [] := by
  decide

/-! ## non-vacuity -/

/-- three replication messages and two sync-states relayed, then the source fails: the hypotheses
    hold, the ending is recognised, and `settle` ends everything (message 3, queued before the
    error, is still relayed; sync-state 8 of the other direction is legitimately dropped — prefix,
    not equality); a source that ignores the half-close changes nothing. -/
example :
    let e : Env := { answersCloseSend := false }
    let acts : List Act := [.lCheck .s, .lCheck .i, .push .s (.data 1), .lRecv .s, .lHand .s, .rProc .s,
      .push .i (.data 7), .push .s (.data 2), .lCheck .s, .lRecv .s, .lCheck .i, .lRecv .i, .lHand .i, .lHand .s,
      .rProc .i, .rProc .s, .push .s (.data 3), .push .i (.data 8), .push .s .err]
    let σ := run (State.init e) acts
    GrpcStreamEnv e ∧ Ending σ ∧ ¬ Done σ ∧ σ.s.out = [1, 2] ∧ σ.i.out = [7] ∧
    Done (settle (mu σ) σ) ∧ (settle (mu σ) σ).s.out = [1, 2, 3] ∧ (settle (mu σ) σ).i.out = [7] := by
  decide

/-- every ending kind, from the parked state, ends together (default environment) -/
example :
    (∀ acts ∈ ([[.push .s .eof], [.push .s .err], [.push .s .unknown], [.push .i .eof], [.push .i .err],
        [.push .i .unknown], [.iniCancel], [.shutdown], [.sendFail .s, .push .s (.data 1)],
        [.sendFail .i, .push .i (.data 1)]] : List (List Act)),
      let σ := run (started {}) acts
      Ending σ ∧ ¬ Done σ ∧ Done (settle (mu σ) σ)) := by
  decide

/-- a send-failure switch alone is not yet an ending (nothing hits it): the stream keeps relaying -/
example :
    let σ := settle 100 (run (started {}) [.sendFail .s, .push .i (.data 4)])
    ¬ Ending σ ∧ σ.i.out = [4] ∧ aliveCount σ = 5 := by
  decide

end S2S.Forwarder
