import S2S.Proofs.RepairPaths
import S2S.Gen.RepairPaths
/-!
# C18 — UTF-8 repair reaches every failure message in every supported RPC type

Two layers.

* Generic (all values): `S2S/Model/RepairPaths.lean` models the generated visitor as a visitor
  driven by a set of structural path patterns.  `C18_visitor_*` say that after the visitor every
  failure whose pattern the visitor knows is valid — for any value: any list lengths, any number of
  failures at once, chains up to the supported depth — and nothing else moves.
* This tree (regenerated on every check): `S2S/Gen/RepairPaths*.lean` holds, for every root type the
  proxy can down-convert to the legacy schema (measured through the real codec) plus `HistoryEvent`
  and every other type with a case in the generated switch: the ORACLE (every structural path from
  the root to a `failure.v1.Failure`, by Go reflection over the legacy structs: fields, repeated
  fields, maps, every oneof wrapper; `Failure.Cause` is the chain) and the MEASURED set (the real
  `compat.RepairInvalidUTF8` was run on a message with invalid UTF-8 at exactly that path and repaired
  it).  `C18_oracle_covered` is the finite obligation `oracle ⊆ measured ∪ knownMissed`, checked by
  `decide +kernel` per chunk and lifted; `knownMissed` comes from `known_findings.json` and is empty
  when nothing is recorded, in which case `C18_full` holds (`C18_full_iff_no_findings`).
-/
namespace S2S.RepairPaths
open S2S.Utf8 S2S.Gen.RepairPaths

/-! ## generic: the pattern-driven visitor -/

/-- the visitor never adds, drops, moves or relabels a failure: the occurrences after the run are the
    occurrences before, each repaired iff its pattern is in the visitor's set -/
theorem C18_visitor_is_pointwise (paths : List (List Step)) (v : Val) :
    occs (runVisitor paths v) = runFlat paths (occs v) :=
  occs_runVisitor paths v

/-- **completeness of a visitor whose pattern set covers the value**: if every failure position of
    `v` has its pattern in `paths` and no chain exceeds the supported depth, then after the visitor
    every failure message reachable in `v` is valid UTF-8 — for every value `v`. -/
theorem C18_visitor_repairs_everything (paths : List (List Step)) (v : Val)
    (hcover : ∀ o ∈ occs v, o.1 ∈ paths) (hdepth : ∀ o ∈ occs v, o.2.length ≤ maxFailureDepth) :
    ∀ o ∈ occs (runVisitor paths v), chainValid o.2 = true := by
  intro o ho
  rw [occs_runVisitor] at ho
  have hl : o.1 ∈ (runFlat paths (occs v)).map Prod.fst := List.mem_map_of_mem ho
  rw [runFlat_labels] at hl
  obtain ⟨o', ho', he⟩ := List.mem_map.mp hl
  exact runFlat_valid paths (occs v) hdepth o ho (he ▸ hcover o' ho')

/-- a failure at a position the visitor has no pattern for is left exactly as it was (so a missing
    pattern is a missed repair: the converse of the theorem above) -/
theorem C18_visitor_misses_unknown_patterns (paths : List (List Step)) (v : Val) :
    ∀ o ∈ occs v, o.1 ∉ paths → o ∈ occs (runVisitor paths v) := by
  intro o ho hp
  rw [occs_runVisitor]
  exact runFlat_untouched paths (occs v) o ho hp

/-! ## this tree: oracle ⊆ measured ∪ knownMissed -/

/-- all oracle / measured / recorded-missed (root, path) pairs of the current tree -/
def oracleAll : List PathId := oracleOf chunks
def measuredAll : List PathId := measuredOf chunks
def knownMissedAll : List PathId := knownOf chunks

/-- **every structural path from every supported root to a failure is repaired by the real code**,
    or is a finding recorded in `known_findings.json` -/
theorem C18_oracle_covered : ∀ rp ∈ oracleAll, rp ∈ measuredAll ∨ rp ∈ knownMissedAll :=
  covered_of_chunks chunks chunks_ok

/-- recorded findings are genuine on this tree: oracle paths the real code does not repair
    (a stale record breaks the build instead of hiding behind KNOWN-FINDING) -/
theorem C18_known_missed_genuine : ∀ rp ∈ knownMissedAll, rp ∈ oracleAll ∧ rp ∉ measuredAll :=
  fun rp h => ⟨known_in_oracle_of_chunks chunks chunks_ok rp h, known_not_measured_of chunks known_not_measured rp h⟩

/-- the oracle enumerates ALL structural paths: apart from `Failure.Cause` (the chain, C17 (ii)) the
    legacy struct graph below the roots has no type recursion, so the bound of 2 unrollings never cut a path -/
theorem C18_oracle_exhaustive : typeRecursionCuts = 0 := oracle_exhaustive

/-- the property as stated, without the escape hatch -/
def C18_full : Prop := ∀ rp ∈ oracleAll, rp ∈ measuredAll

/-- the full statement holds exactly when no finding is recorded (and then by `C18_oracle_covered`) -/
theorem C18_full_iff_no_findings : C18_full ↔ knownMissedAll = [] := by
  constructor
  · intro hfull
    cases hk : knownMissedAll with
    | nil => rfl
    | cons rp rest =>
      have hm : rp ∈ knownMissedAll := by rw [hk]; simp
      have := C18_known_missed_genuine rp hm
      exact absurd (hfull rp this.1) this.2
  · intro hnil rp h
    rcases C18_oracle_covered rp h with h1 | h1
    · exact h1
    · rw [hnil] at h1; cases h1

/-- every root the property quantifies over (convertible request/response types that can hold a
    failure, and HistoryEvent) reaches a failure and — unless all its paths are recorded findings —
    has a case in the generated visitor -/
theorem C18_every_root_reaches_and_is_handled :
    ∀ r ∈ propertyRoots, ∃ rp ∈ oracleAll, rp.1 = r ∧ (rp ∈ measuredAll ∨ rp ∈ knownMissedAll) := by
  intro r hr
  have := List.all_eq_true.mp property_roots_reach r hr
  obtain ⟨rp, hrp, he⟩ := List.any_eq_true.mp this
  exact ⟨rp, hrp, by simpa using he, C18_oracle_covered rp hrp⟩

/-- end to end, on the flat view of ANY value whose failures sit on oracle paths (labelled by their
    (root, path) id; any list lengths, all paths at once, chains within the supported depth): after a
    visitor that handles the measured paths, every failure is valid or sits on a recorded finding -/
theorem C18_all_at_once (v : List (Occ PathId))
    (hconf : ∀ o ∈ v, o.1 ∈ oracleAll) (hdepth : ∀ o ∈ v, o.2.length ≤ maxFailureDepth) :
    ∀ o ∈ runFlat measuredAll v, chainValid o.2 = true ∨ o.1 ∈ knownMissedAll := by
  intro o ho
  have hl : o.1 ∈ (runFlat measuredAll v).map Prod.fst := List.mem_map_of_mem ho
  rw [runFlat_labels] at hl
  obtain ⟨o', ho', he⟩ := List.mem_map.mp hl
  rcases C18_oracle_covered o.1 (he ▸ hconf o' ho') with h | h
  · exact Or.inl (runFlat_valid measuredAll v hdepth o ho h)
  · exact Or.inr h

/-! ## non-vacuity -/

-- the regenerated facts are not empty and the property's roots exist
example : oracleAll ≠ [] := by decide +kernel
example : propertyRoots ≠ [] := by decide +kernel
-- a value with two list elements, both failures invalid, one chain of depth 2: the visitor with the
-- right pattern repairs all three messages; with no pattern it repairs nothing
example :
    let v : Val := .child (.field 3) (.child .elem (.fail [[0xFF], [0x61, 0xFE]]) (.child .elem (.fail [[0xC0]]) .nil)) .nil
    occs (runVisitor [[.field 3, .elem]] v) = [([.field 3, .elem], [repl, [0x61, 0xEF, 0xBF, 0xBD]]), ([.field 3, .elem], [repl])] ∧
    occs (runVisitor [] v) = occs v := by decide

end S2S.RepairPaths
