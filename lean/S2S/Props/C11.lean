import S2S.Proofs.ConnMap
/-!
# C11 — RPCs travel only over live mux sessions and fail over between them

Model: `S2S/Model/ConnMap.lean` — the manager's session table with `notifyChange` inside the table
lock on every add/remove, `MultiClientConn.OnConnectionListUpdate/UpdateState` (nil map for the empty
table, else a copy), the resolver state derived from the map, and the map dialer.  The theorems
`C11_sync` … `C11_can_make_calls` are about the repository's code and hold for **every** sequence of
additions, deaths, removals and cancellation (same slot re-used, rapid add/remove, the empty set).

The call-level clauses (fail-over, unavailable, resume) additionally need gRPC's balancer.  It is
**modelled, not verified**: `Balancer` states the assumption "a ready endpoint of the current resolver
state is picked iff one exists" as an explicit hypothesis structure, and the theorems that use it are
named `…_partial`.  What they do establish is that the repository's part (table, map, resolver state,
dialer) gives the balancer exactly the live registered sessions to choose from.
-/
namespace S2S.ConnMap

/-- after every applied update (in fact in every reachable state): the client connection's map is
    exactly the table — same keys, same session objects — the resolver's endpoints are exactly the
    table's keys, and the map is nil iff the table is empty -/
theorem C11_sync (n : Nat) (acts : List Act) :
    let σ := run (St.init n) acts
    σ.connMap.getD [] = σ.muxes.map (fun s => (s.key, s.obj)) ∧ σ.endpoints = σ.keys ∧
    (σ.connMap = none ↔ σ.muxes = []) := by
  have hi := inv_reach n acts
  exact ⟨hi.map, hi.eps, hi.nil⟩

/-- keys are never reused: the table's keys are pairwise distinct (strictly increasing), so a key
    identifies one session object for ever -/
theorem C11_keys_distinct (n : Nat) (acts : List Act) :
    (run (St.init n) acts).muxes.Pairwise (fun a b => a.key < b.key) ∧ (run (St.init n) acts).keys.Nodup := by
  have hi := inv_reach n acts
  refine ⟨hi.keysPw, ?_⟩
  simp only [St.keys, List.Nodup, List.pairwise_map]
  exact hi.keysPw.imp (fun h => Nat.ne_of_lt h)

/-- the dialer resolves exactly the registered keys: it opens a stream on object `o` for address `k`
    iff `o` is the live session currently registered under `k` — never a stale or foreign session -/
theorem C11_dialer_exact (n : Nat) (acts : List Act) (k o : Nat) :
    dial (run (St.init n) acts) k = .stream o ↔
      ∃ s ∈ (run (St.init n) acts).muxes, s.key = k ∧ s.obj = o ∧ s.alive = true :=
  dial_stream_iff _ (inv_reach n acts) k o

/-- an address that is not a registered key is refused with an error -/
theorem C11_dialer_unknown_key (n : Nat) (acts : List Act) (k : Nat) :
    dial (run (St.init n) acts) k = .noKey ↔ k ∉ (run (St.init n) acts).keys :=
  dial_noKey_iff _ (inv_reach n acts) k

/-- `CanMakeCalls()` ⇔ the lifetime is live and at least one session is registered -/
theorem C11_can_make_calls (n : Nat) (acts : List Act) :
    (run (St.init n) acts).canMakeCalls = true ↔
      (run (St.init n) acts).live = true ∧ (run (St.init n) acts).muxes ≠ [] := by
  have hi := inv_reach n acts
  simp only [St.canMakeCalls, Bool.and_eq_true, Bool.not_eq_true', hi.map, pairs, List.isEmpty_eq_false_iff,
    ne_eq, List.map_eq_nil_iff]

/-! ## call-level clauses — under the stated balancer assumption -/

/-- a call is served only by a session that is registered and alive -/
theorem C11_served_only_by_registered_partial (B : Balancer) (n : Nat) (acts : List Act) (i o : Nat)
    (h : rpc B (run (St.init n) acts) i = .served o) :
    ∃ s ∈ (run (St.init n) acts).muxes, s.obj = o ∧ s.alive = true :=
  served_inv B _ (inv_reach n acts) i o h

/-- fail-over: as long as some registered session is alive, a call (on a live, resolved client
    connection) is served — by one of the registered live sessions, whichever died before -/
theorem C11_failover_partial (B : Balancer) (n : Nat) (acts : List Act) (i : Nat)
    (hl : (run (St.init n) acts).live = true) (ha : (run (St.init n) acts).applied = true)
    (hs : ∃ s ∈ (run (St.init n) acts).muxes, s.alive = true) :
    ∃ o, rpc B (run (St.init n) acts) i = .served o :=
  failover_inv B _ (inv_reach n acts) i hl ha hs

/-- no live session registered ⇒ the call reports unavailability (it does not hang, it is not served) -/
theorem C11_unavailable_partial (B : Balancer) (n : Nat) (acts : List Act) (i : Nat)
    (hl : (run (St.init n) acts).live = true) (ha : (run (St.init n) acts).applied = true)
    (hs : ∀ s ∈ (run (St.init n) acts).muxes, s.alive = false) :
    rpc B (run (St.init n) acts) i = .unavailable :=
  unavailable_inv B _ (inv_reach n acts) i hl ha hs

/-- resume: once a new session has been added (pool not full, lifetime live), calls are served again -/
theorem C11_resume_partial (B : Balancer) (n : Nat) (acts : List Act) (i : Nat)
    (hl : (run (St.init n) acts).live = true) (hroom : (run (St.init n) acts).muxes.length < n) :
    ∃ o, rpc B (run (St.init n) (acts ++ [.add])) i = .served o := by
  have hcap : (run (St.init n) acts).cap = n := run_cap acts _
  obtain ⟨σ', h1, h2, h3, h4⟩ := add_spec (run (St.init n) acts) hl (by rw [hcap]; exact hroom)
  have hrun : run (St.init n) (acts ++ [.add]) = σ' := by rw [run_snoc, h1]; rfl
  rw [hrun]
  exact failover_inv B σ' (inv_step _ _ _ (inv_reach n acts) h1) i h2 h3 h4

/-! ## non-vacuity -/

/-- two sessions; the first dies and is unregistered; rapid add/remove; then the empty set -/
def nvHistory : List Act := [.add, .add, .kill 0, .unregister 0, .add, .kill 2, .unregister 2]

example : (run (St.init 2) nvHistory).keys = [1] ∧ (run (St.init 2) nvHistory).connMap = some [(1, 1)] ∧
    rpc firstBalancer (run (St.init 2) nvHistory) 0 = .served 1 ∧
    rpc firstBalancer (run (St.init 2) (nvHistory ++ [.kill 1])) 0 = .unavailable ∧
    (run (St.init 2) (nvHistory ++ [.kill 1, .unregister 1])).connMap = none ∧
    (run (St.init 2) (nvHistory ++ [.kill 1, .unregister 1])).canMakeCalls = false ∧
    rpc firstBalancer (run (St.init 2) (nvHistory ++ [.kill 1, .unregister 1, .add])) 0 = .served 3 := by decide

end S2S.ConnMap
