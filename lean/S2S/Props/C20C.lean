import S2S.Proofs.ObserverConcTop
/-!
# C20 (concurrency clause) — bookkeeping for one stream never blocks or corrupts bookkeeping for others

Property theorems only.  In the real code every `ReportStreamValue` runs under `streamGrowLock`,
so the reports of concurrently opening/closing streams are a *sequence* of atomic `report` steps in
a scheduler-chosen order: `reports o l` (definition in `S2S/Proofs/ObserverConc.lean`, `none` iff a
step blocks on a held lock).  "Whatever the scheduler does" is `∀` over permutations of `l`.

Side conditions (all stated in the theorems, none hidden):
* `Obs.WF o` — `counters` strictly sorted by index, no zero values, every value an int32, every
  index `< len`.  It holds for the initial `{}` and is preserved by `report` (`C20C_wf_init`,
  `C20C_wf_preserved`), i.e. it is an invariant of every reachable state.
* `ValsInt32 l` — every report that passes the index guard carries an int32 `value`.  The Go
  signature is `ReportStreamValue(idx int32, value int32)`, so this is always true of the real
  code; the model's `value : Int` is wider, and for such non-int32 values order independence is
  FALSE in the model (`C20C_order_dependent_beyond_int32`): a fresh entry stores `value` unwrapped,
  an existing one stores `wrap32 (x + value)`.
-/
namespace S2S.Observer
open S2S.Shard

/-- the initial observer state is well-formed -/
theorem C20C_wf_init : Obs.WF {} := wf_init

/-- `report` preserves well-formedness -/
theorem C20C_wf_preserved (o o' : Obs) (idx v : Int) (r : ReportOutcome) (hwf : o.WF)
    (hv : Accepted idx → IsInt32 v) (h : report o idx v = some (o', r)) : o'.WF :=
  report_preserves_wf o o' idx v r hwf hv h

/-- **1.** From any unlocked state every list of reports — any indexes, any values, any order —
    runs to completion and ends unlocked: no stream's report ever blocks another's. -/
theorem C20C_never_blocks (o : Obs) (l : List (Int × Int)) (hfree : o.locked = false) :
    ∃ o', reports o l = some o' ∧ o'.locked = false :=
  reports_never_blocks l o hfree

/-- **2.** The final `counters` (what `PrintActiveStreams` shows) do not depend on the order in
    which the scheduler runs the reports. -/
theorem C20C_counters_order_independent (o : Obs) (l₁ l₂ : List (Int × Int))
    (hfree : o.locked = false) (hwf : o.WF) (hv : ValsInt32 l₁) (hp : l₁.Perm l₂) :
    ∃ o₁ o₂, reports o l₁ = some o₁ ∧ reports o l₂ = some o₂ ∧
      o₁.locked = false ∧ o₂.locked = false ∧ o₁.WF ∧ o₂.WF ∧ o₁.counters = o₂.counters :=
  counters_order_independent o l₁ l₂ hfree hwf hv hp

/-- **2, corollary** for the initial state. -/
theorem C20C_counters_order_independent_init (l₁ l₂ : List (Int × Int))
    (hv : ValsInt32 l₁) (hp : l₁.Perm l₂) :
    ∃ o₁ o₂, reports {} l₁ = some o₁ ∧ reports {} l₂ = some o₂ ∧ o₁.counters = o₂.counters := by
  obtain ⟨o₁, o₂, h₁, h₂, _, _, _, _, hc⟩ :=
    counters_order_independent {} l₁ l₂ rfl wf_init hv hp
  exact ⟨o₁, o₂, h₁, h₂, hc⟩

/-- The int32 side condition of (2) is exact for the model: with a non-int32 `value` (which the Go
    types exclude) the two orders of the same two reports give different counters. -/
theorem C20C_order_dependent_beyond_int32 :
    (reports {} [(7, 4294967296), (7, 0)]).map (·.counters) = some [] ∧
    (reports {} [(7, 0), (7, 4294967296)]).map (·.counters) = some [(7, 4294967296)] := by
  decide

/-- The slice length, unlike the counters, CAN depend on the order (growth is to `(idx+1)*9/8`,
    so growing to 2000 first and then finding 2100 already covered differs from growing to 2100). -/
theorem C20C_len_order_dependent :
    (reports {} [(2000, 1), (2100, 1)]).map (·.len) = some 2251 ∧
    (reports {} [(2100, 1), (2000, 1)]).map (·.len) = some 2363 := by
  decide

/-- **3, general form.** If the values reported for every tracked index sum to 0 in int32
    arithmetic, then from the initial state no stream is shown as active at the end. -/
theorem C20C_balanced_general (l : List (Int × Int)) (hv : ValsInt32 l)
    (hbal : ∀ i : Nat, (i : Int) ≤ maxObservedStreamIndex → wrap32 (sumAt i l) = 0) :
    ∃ o', reports {} l = some o' ∧ o'.locked = false ∧ o'.counters = [] :=
  balanced_general l hv hbal

/-- **3.** `streams` lists the shard index of every stream that was opened and closed (repeats and
    rejected indexes allowed); each contributes a `+1` and a `-1`.  `junk` is any list of reports
    whose index the guard rejects (`idx < 0` or `idx > 2^20`), with arbitrary values.  Whatever
    order `l` the scheduler runs all of these in, the run completes and ends with `counters = []`. -/
theorem C20C_balanced_ends_empty (streams : List Int) (junk l : List (Int × Int))
    (hjunk : ∀ p ∈ junk, ¬ Accepted p.1)
    (hp : l.Perm ((streams.flatMap fun i => [(i, (1 : Int)), (i, (-1 : Int))]) ++ junk)) :
    ∃ o', reports {} l = some o' ∧ o'.locked = false ∧ o'.counters = [] :=
  balanced_ends_empty streams junk l hjunk hp

/-- **4, closed form.** After any sequence of reports the entry of a tracked index `i` is the int32
    wrap of (old value + sum of the values reported *for `i`*), dropped when zero; untracked
    indexes (`> 2^20`) keep their entry. -/
theorem C20C_counter_closed_form (o : Obs) (l : List (Int × Int))
    (hfree : o.locked = false) (hwf : o.WF) (hv : ValsInt32 l) :
    ∃ o', reports o l = some o' ∧ ∀ i : Nat,
      o'.counters.lookup i =
        if (i : Int) ≤ maxObservedStreamIndex then
          (if wrap32 (val o.counters i + sumAt i l) = 0 then none
           else some (wrap32 (val o.counters i + sumAt i l)))
        else o.counters.lookup i :=
  counter_closed_form o l hfree hwf hv

/-- **4.** One stream's bookkeeping is a function of that stream's reports alone: two runs — from
    possibly different states, with possibly different reports for all other indexes, interleaved in
    any way — that agree on index `i`'s initial entry and on the sub-list of reports with index `i`
    end with the same entry for `i`. -/
theorem C20C_per_stream_view (o o' : Obs) (l l' : List (Int × Int)) (i : Nat)
    (hfree : o.locked = false) (hfree' : o'.locked = false) (hwf : o.WF) (hwf' : o'.WF)
    (hv : ValsInt32 l) (hv' : ValsInt32 l')
    (hagree : o.counters.lookup i = o'.counters.lookup i)
    (hsub : l.filter (fun p => p.1 = (i : Int)) = l'.filter (fun p => p.1 = (i : Int))) :
    ∃ o₁ o₂, reports o l = some o₁ ∧ reports o' l' = some o₂ ∧
      o₁.counters.lookup i = o₂.counters.lookup i :=
  per_stream_view o o' l l' i hfree hfree' hwf hwf' hv hv' hagree hsub

/-- **4, projection form.** Deleting every report of every other stream does not change `i`'s entry. -/
theorem C20C_per_stream_projection (o : Obs) (l : List (Int × Int)) (i : Nat)
    (hfree : o.locked = false) (hwf : o.WF) (hv : ValsInt32 l) :
    ∃ o₁ o₂, reports o l = some o₁ ∧
      reports o (l.filter (fun p => p.1 = (i : Int))) = some o₂ ∧
      o₁.counters.lookup i = o₂.counters.lookup i :=
  per_stream_projection o l i hfree hwf hv

/-! ### 5. non-vacuity -/

/-- two orders of the same six reports, with a growth beyond 1024 in the middle: same counters
    (two streams still open: 2000 and 5), different slice length. -/
example :
    let l₁ : List (Int × Int) := [(1, 1), (2000, 1), (1, -1), (2100, 1), (2100, -1), (5, 1)]
    let l₂ : List (Int × Int) := [(5, 1), (2100, 1), (1, 1), (2000, 1), (2100, -1), (1, -1)]
    l₁.Perm l₂ ∧ ValsInt32 l₁ ∧
    (reports {} l₁).map (·.counters) = some [(5, 1), (2000, 1)] ∧
    (reports {} l₂).map (·.counters) = some [(5, 1), (2000, 1)] ∧
    (reports {} l₁).map (·.len) = some 2251 ∧
    (reports {} l₂).map (·.len) = some 2363 := by
  decide

/-- a balanced run with a close scheduled before "its" open of another stream on the same index, a
    rejected report mixed in, and a growth: ends empty and unlocked. -/
example :
    (reports {} [(3, 1), (3, 1), (-4, 1), (3, -1), (3000, 1), (1048577, -1), (3, -1), (3000, -1)]) =
      some { len := 3376, counters := [], locked := false } := by
  decide

/-- a locked observer does block (so `hfree` in (1) is not vacuous) -/
example : reports { locked := true } [(1, 1)] = none := by decide

/-- int32 wrap-around is part of the closed form: `maxInt32 + 1` wraps to `minInt32` -/
example : (reports {} [(9, 2147483647), (9, 1)]).map (·.counters) = some [(9, -2147483648)] := by
  decide

end S2S.Observer
