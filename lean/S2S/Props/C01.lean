import S2S.Proofs.RoutingC01
/-!
# C01 — routing mode never acknowledges a task the target has not confirmed

Model: `S2S/Model/Routing.lean` (fine-grained: one `Act` = one atomic step of one goroutine or of
a cluster).  The theorem quantifies over **every** number of source and target shards, **every**
list of actions — hence every batch shape, every interleaving of deliveries, sends and
acknowledgements across the independent target streams, targets that acknowledge late, out of
order with respect to each other, or never — under `EnvOK` (what Temporal's stream sender
guarantees on a source stream) and `NoFaults` (stream failures are C04).

`AcksSafeAlong` says: at every step, every acknowledgement `a` the proxy sends on a source
stream covers only tasks of that source (received so far, id `< a`) that the target stream
they were forwarded on has already acknowledged.
-/
namespace S2S.Routing

/-- **C01** for the current tree. -/
theorem C01_never_acks_unconfirmed (ns nt : Nat) (acts : List Act)
    (henv : EnvOK Cfg.cur (State.init ns nt) acts) (hnf : NoFaults acts) :
    AcksSafeAlong Cfg.cur (State.init ns nt) acts :=
  acks_safe_cur ns nt acts henv hnf

/-- the witness of the finding repaired by the `fix:` commit 86baac2: task 5 → target 1 (silent),
    task 6 → target 0, target 0 acknowledges ⇒ the pre-fix receiver sent 6 upstream. -/
def witnessPreFix : List Act :=
  [.openTgt 0, .startTgt 0, .replayDone 0, .openTgt 1, .startTgt 1, .replayDone 1, .openSrc 0,
   .recv 0 [(5, 1)] 6, .deliver 0 1, .take 1, .emit 1,
   .recv 0 [(6, 0)] 7, .deliver 0 0, .take 0, .emit 0,
   .tack 0 2, .ackFwd 0 0, .ackFin 0, .rack 0]

/-- The pre-fix receiver (no seeding of `ackByTarget`) violated the property. (Fixed finding.) -/
theorem C01_refuted_before_fix :
    EnvOK Cfg.preFix (State.init 1 2) witnessPreFix ∧ NoFaults witnessPreFix ∧
    ¬ AcksSafeAlong Cfg.preFix (State.init 1 2) witnessPreFix := by decide

/-- non-vacuity: the same run is admitted by the hypotheses on the current tree, and an
    acknowledgement (5: nothing below the silent target's first task) really is sent. -/
example : EnvOK Cfg.cur (State.init 1 2) witnessPreFix ∧ NoFaults witnessPreFix ∧
    ((run Cfg.cur (State.init 1 2) witnessPreFix).src 0).acksSent = [5] := by decide

end S2S.Routing
