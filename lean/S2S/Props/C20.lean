import S2S.Proofs.Observer
/-!
# C20 — no stream-open metadata can wedge or crash replication-stream service

Property theorems only.  Model: `S2S/Model/Observer.lean` (`parseInt32`, `ReportStreamValue`
with its lock, the handler prologue/epilogue with panic capture).  The quantifier "all int32
ids and non-numeric values" is a plain ∀ over header *strings* here.
-/
namespace S2S.Observer
open S2S.Shard

/-- `ReportStreamValue` of the current tree never panics, never blocks when the lock is free,
    and always leaves the lock free — for every `idx` and `value` (all of `Int`, hence all int32). -/
theorem C20_report_total (o : Obs) (idx value : Int) (hfree : o.locked = false) :
    ∃ o' r, report o idx value = some (o', r) ∧ o'.locked = false ∧ r ≠ .panicLocked :=
  report_total o idx value hfree

/-- Bookkeeping for one stream never corrupts another's: a report for `idx` changes no counter
    of any other index. -/
theorem C20_others_unchanged (o o' : Obs) (idx value : Int) (r : ReportOutcome)
    (h : report o idx value = some (o', r)) (j : Nat) (hj : (j : Int) ≠ idx) :
    o'.counters.lookup j = o.counters.lookup j :=
  report_others_unchanged o o' idx value r h j hj

/-- **C20**: for every four header strings (negative, zero, huge, malformed, absent …), every
    stream mode and every LCM parameter pair, an open on an un-wedged observer ends as *served*
    or *rejected with an error* — never wedged — and leaves the observer un-wedged, so (by
    induction over any sequence of opens, `C20_sequence`) streams opened afterwards are served
    normally. -/
theorem C20_open_never_wedges (o : Obs) (mode : Mode) (p : LCMParams) (cc cs sc ss : String)
    (hfree : o.locked = false) :
    (openStream report o mode p cc cs sc ss).2 ≠ .wedged ∧
    (openStream report o mode p cc cs sc ss).1.locked = false :=
  open_never_wedges o mode p cc cs sc ss hfree

/-- Any sequence of opens, whatever their metadata, keeps the observer un-wedged. -/
theorem C20_sequence (opens : List (Mode × LCMParams × String × String × String × String)) (o : Obs)
    (hfree : o.locked = false) :
    (opens.foldl (fun o x => (openStream report o x.1 x.2.1 x.2.2.1 x.2.2.2.1 x.2.2.2.2.1 x.2.2.2.2.2).1) o).locked = false :=
  open_sequence opens o hfree

/-- A well-formed open (default or routing mode, decimal ids, shard id within the tracked range)
    after any such sequence is served, and is counted while it is open. -/
theorem C20_wellformed_served (o : Obs) (mode : Mode) (p : LCMParams) (cc cs sc ss : String) (md : StreamMD)
    (hfree : o.locked = false) (hmode : mode ≠ .lcm) (hdec : decodeMD cc cs sc ss = .ok md) :
    (openStream report o mode p cc cs sc ss).2 = .served :=
  wellformed_served o mode p cc cs sc ss md hfree hmode hdec

/-- The pinned tree before the `fix:` commit violated the property: shard id 238609294 makes
    `(idx+1)*9` wrap negative, the observer panics with the lock held, and the next, perfectly
    well-formed, open is wedged.  (Fixed finding; `reportOld` mirrors the old code.) -/
theorem C20_refuted_before_fix :
    let o1 := (openStream reportOld {} .default ⟨0, 0⟩ "1" "1" "2" "238609294").1
    o1.locked = true ∧ (openStream reportOld o1 .default ⟨0, 0⟩ "1" "1" "2" "1").2 = .wedged := by
  decide

/-- non-vacuity: the same two opens on the current code are rejected-or-served and then served. -/
example :
    let r1 := openStream report {} .default ⟨0, 0⟩ "1" "1" "2" "238609294"
    r1.2 = .served ∧ (openStream report r1.1 .default ⟨0, 0⟩ "1" "1" "2" "1").2 = .served := by
  decide

end S2S.Observer
