import S2S.Proofs.TranslatePaths
import S2S.Proofs.TranslateCover
import S2S.Gen.TGCovers
/-!
# C12 — namespace names are translated wherever they occur

`S2S/Gen/TG*.lean` is REGENERATED from /repo on every run: the Go type graph of every request /
response type of WorkflowService and AdminService exactly as the reflective visitor walks it
(981 struct types at the pinned versions), the descriptor-side oracle bit on every field that
carries a namespace name, and the code's own tables read from the running binary
(`namespaceFieldNames`, `dataBlobFieldNames`, the skippable-event list).

* `C12_paths_translated_of_covers` (generic, by induction over paths of ANY length and nesting):
  if the finite coverage obligations `Covers` hold for a type graph and tables, then the visitor
  translates the namespace name at the end of EVERY well-formed structural path — through repeated
  fields, maps, oneof wrappers, failure chains, links and serialized history-event blobs.
* `C12_current_tree_covers`: the obligations hold for the regenerated facts of the current tree
  (kernel evaluation, one chunk of types per module, no axioms).
* `C12_every_path_translated`: hence every path of the current tree is translated.
* `C12_shortcuts_never_change_the_result`: with the skip shortcut switched off the result is the same.
-/
namespace S2S.Translate

theorem C12_paths_translated_of_covers (g : Graph) (tb : Tables) (mask : Nat) (hc : Covers g tb mask = true)
    (root : Nat) (p : Path) (hw : WellFormed g tb root p) : translates g tb p = true :=
  translates_of_covers g tb mask hc root p hw

theorem C12_current_tree_covers :
    Covers S2S.Gen.TG.graph S2S.Gen.TG.tables S2S.Gen.TG.skipMask = true :=
  S2S.Gen.TG.covers

theorem C12_every_path_translated (root : Nat) (p : Path)
    (hw : WellFormed S2S.Gen.TG.graph S2S.Gen.TG.tables root p) :
    translates S2S.Gen.TG.graph S2S.Gen.TG.tables p = true :=
  translates_of_covers _ _ _ C12_current_tree_covers root p hw

/-- the tables with the skip shortcut disabled -/
def noShortcut (tb : Tables) : Tables := { tb with skipAttr := [] }

theorem C12_shortcuts_never_change_the_result (g : Graph) (tb : Tables) (mask : Nat) (hc : Covers g tb mask = true)
    (root : Nat) (p : Path) (hw : WellFormed g tb root p) :
    translates g tb p = translates g (noShortcut tb) p := by
  have h1 := translates_of_covers g tb mask hc root p hw
  have hc' : Covers g (noShortcut tb) mask = true := by
    unfold Covers at hc ⊢
    simp only [Bool.and_eq_true] at hc ⊢
    exact ⟨⟨hc.1.1, by simp [noShortcut]⟩, hc.2⟩
  have hw' : WellFormed g (noShortcut tb) root p :=
    ⟨(chain_congr g (noShortcut tb) tb rfl p.steps root p.leafTy).trans hw.1, hw.2⟩   -- `chain`/`isNsLeaf` do not read `skipAttr`
  have h2 := translates_of_covers g (noShortcut tb) mask hc' root p hw'
  rw [h1, h2]

/-- The obligations are not vacuous: a skip list naming an event whose attributes reach a namespace
    name (the shape of the finding repaired by the `fix:` commit 47b8cca) makes `Covers` false for every
    certificate that contains it, and the path-level visitor model indeed misses that namespace. -/
example :
    let g : Graph := { types := [⟨0, [⟨10, false, false, false, false, [1]⟩]⟩,          -- event: Attributes -> wrapper 1
                                  ⟨1, [⟨11, false, false, false, false, [2]⟩]⟩,          -- wrapper -> attrs 2
                                  ⟨2, [⟨12, false, false, false, false, [3]⟩]⟩,          -- attrs: Failure -> 3
                                  ⟨3, [⟨13, true, true, false, false, []⟩]⟩],            -- child failure info: Namespace
                       eventType := 0, historyType := 9, namespaceInfo := 8, nameField := 14, attributesField := 10, linksField := 15 }
    let tb : Tables := { ns := [13], blob := [], sa := [], skipAttr := [2], reviewedNonEventBlob := [] }
    let p : Path := ⟨[.field 0 0 1, .field 1 0 2, .field 2 0 3], 3, 0⟩
    Covers g tb 0b1100 = false ∧ walk g tb p.steps true = false ∧
    Covers g { tb with skipAttr := [] } 0 = true ∧ walk g { tb with skipAttr := [] } p.steps true = true := by
  decide

end S2S.Translate
