import S2S.Props.C04
import S2S.Proofs.RoutingTightLoose
/-!
# C04T — C04 modulo the recorded findings, TIGHT form

`C04_modulo_known_findings` (S2S/Props/C04.lean) excuses every task that was handed to an incarnation of its target
stream that has broken since: finding `C04-target-break-loses-inflight` is identified by the CATEGORY of the task only.
The statement here (`S2S/Spec/RoutingFaultsTight.lean`) identifies it by its MECHANISM: a lost task is excused only
once a later incarnation of the same target stream has TAKEN a message of the same source stream lying above it
(`passedOf`).  A lost task that is acknowledged upstream in any other way — for example without any later message of
that source stream on that target stream — is NOT excused, so such an acknowledgement would be a new defect.

Proved for every run (breaks and re-opens at any position) under the same environment hypothesis as the loose form.
-/
namespace S2S.Routing

/-- **C04 modulo the recorded findings, tight form.**  For every run from the initial state (stream breaks and
    re-opens at any position) whose `recv`s satisfy `RecvOK` and `RecvFresh` (`EnvOKT` = `EnvOKF`), every
    acknowledgement `v` the proxy sends upstream on a source stream `s` covers only tasks `(id, t)`, `id < v`, received
    so far on `s` that are

    * `Confirmed`: acknowledged by some incarnation of their target stream `t`; or
    * EXCUSED (b) — `C04-source-restart-forgets-targets`: the task was (also) received by an earlier incarnation of the
      source stream `s` (it is among the first `baseOf s` received tasks); or
    * EXCUSED (a) — `C04-target-break-loses-inflight`, by its mechanism: the task was handed to an incarnation of `t`
      that broke (`lostOf t`) AND, after that, an incarnation of `t` took (`Act.take`) a message of source `s` whose
      largest id / watermark (`msgHigh`) is greater than `id` (`passedOf t`).

    What is NOT excused (unlike in `C04_modulo_known_findings`): a task lost with a broken incarnation of `t` that no
    later incarnation of `t` has passed.  Every acknowledgement covering such a task must find it `Confirmed`. -/
theorem C04T_modulo_known_findings_tight (ns nt : Nat) (acts : List Act)
    (henv : EnvOKT Cfg.cur (State.init ns nt) {} acts) :
    AcksSafeTAlong Cfg.cur (State.init ns nt) {} acts :=
  acks_safe_tight ns nt acts henv

/-! ## the tight form is at least as strong as the loose form -/

/-- the ghosts are related by `PassedSubLost γ` (`∀ t, passedOf t ⊆ lostOf t`); it holds initially … -/
theorem C04T_rel_init : PassedSubLost {} := passedSubLost_init

/-- … and is preserved by the ghost update of every action, in every state -/
theorem C04T_rel_next (c : Cfg) (σ : State) (γ : GhostT) (a : Act) (h : PassedSubLost γ) :
    PassedSubLost (γ.next c σ a) := passedSubLost_next h c σ a

/-- the `Ghost` part of the tight ghost is the loose ghost -/
theorem C04T_ghost_proj (c : Cfg) (σ : State) (γ : GhostT) (a : Act) : (γ.next c σ a).g = γ.g.next c σ a :=
  ghostT_next_g c σ γ a

/-- tight ⟹ loose, for every configuration, state, action list, and related ghosts -/
theorem C04T_tight_implies_loose (c : Cfg) (σ : State) (γ : GhostT) (acts : List Act)
    (hrel : PassedSubLost γ) (h : AcksSafeTAlong c σ γ acts) : AcksSafeFAlong c σ γ.g acts :=
  acksSafeT_F c σ γ acts hrel h

/-- the environment hypotheses coincide -/
theorem C04T_env_iff (c : Cfg) (σ : State) (γ : GhostT) (acts : List Act) :
    EnvOKT c σ γ acts ↔ EnvOKF c σ γ.g acts :=
  envOKT_iff_F c σ γ acts

/-- hence the loose theorem is a corollary of the tight one -/
theorem C04T_loose_corollary (ns nt : Nat) (acts : List Act)
    (henv : EnvOKF Cfg.cur (State.init ns nt) {} acts) :
    AcksSafeFAlong Cfg.cur (State.init ns nt) {} acts :=
  C04T_tight_implies_loose Cfg.cur (State.init ns nt) {} acts C04T_rel_init
    (C04T_modulo_known_findings_tight ns nt acts ((C04T_env_iff Cfg.cur (State.init ns nt) {} acts).2 henv))

/-! ## non-vacuity -/

set_option maxRecDepth 8000   -- the witnesses are evaluated by `decide`

/-- final state and tight ghost of a run -/
def runT (c : Cfg) : State → GhostT → List Act → State × GhostT
  | σ, γ, [] => (σ, γ)
  | σ, γ, a :: rest => runT c ((step c σ a).getD σ) (γ.next c σ a) rest

/-- (1) the recorded witness of finding (a) satisfies the environment hypothesis, hence the tight statement, and
    violates the plain one; its last action sends the acknowledgement 12, which covers the received task `(10, 0)`;
    that task is not confirmed, is not excused by (b), and IS in `passedOf 0` at that point: the tight excuse (a) is
    really used -/
example : EnvOKT Cfg.cur (State.init 1 1) {} witnessTargetBreak ∧
    AcksSafeTAlong Cfg.cur (State.init 1 1) {} witnessTargetBreak ∧
    ¬ AcksSafeAlong Cfg.cur (State.init 1 1) witnessTargetBreak :=
  have h : EnvOKT Cfg.cur (State.init 1 1) {} witnessTargetBreak := by decide
  ⟨h, C04T_modulo_known_findings_tight 1 1 _ h, C04_refuted_target_break.2⟩

example :
    (let r := runT Cfg.cur (State.init 1 1) {} witnessTargetBreak
     (r.1.src 0).acksSent = [12] ∧ (r.1.src 0).received = [(10, 0)] ∧
     ¬ Confirmed r.1 0 10 0 ∧
     (10, 0) ∉ (r.1.src 0).received.take (r.2.g.baseOf 0) ∧
     (0, 10) ∈ r.2.passedOf 0 ∧ ExcusedT r.1 r.2 0 (10, 0)) := by decide

/-- before the new incarnation takes the watermark 12 (prefix of the witness up to the second `recv 0 [] 12`, i.e.
    it has only taken the replayed watermark 10, which does not lie above task 10), the lost task is NOT yet passed -/
example :
    (let r := runT Cfg.cur (State.init 1 1) {} (witnessTargetBreak.take 21)
     (0, 10) ∈ r.2.g.lostOf 0 ∧ (0, 10) ∉ r.2.passedOf 0 ∧ (r.1.src 0).acksSent = []) := by decide

/-- (2) a faulty run in which the tight excuse is really narrower: task 10 is delivered, confirmed by the target
    cluster and acknowledged upstream (12); then the target stream breaks and re-opens, and the replayed watermark is
    queued but not taken.  At the end task 10 is in `lostOf 0` (loosely excused) but NOT in `passedOf 0` (not tightly
    excused); every acknowledgement sent covers only confirmed tasks. -/
def witnessLostNotPassed : List Act :=
  [.openTgt 0, .startTgt 0, .replayDone 0, .openSrc 0,
   .recv 0 [(10, 0)] 12, .deliver 0 0, .take 0, .emit 0,
   .recv 0 [] 12, .bcastStep 0 0, .take 0, .emit 0,
   .tack 0 3, .ackFwd 0 0, .ackFin 0, .rack 0,
   .breakTgt 0, .openTgt 0, .startTgt 0, .replayStep 0 0, .replayDone 0]

example :
    ¬ NoFaults witnessLostNotPassed ∧
    EnvOKT Cfg.cur (State.init 1 1) {} witnessLostNotPassed ∧
    AcksSafeTAlong Cfg.cur (State.init 1 1) {} witnessLostNotPassed ∧
    AcksSafeAlong Cfg.cur (State.init 1 1) witnessLostNotPassed ∧
    (let r := runT Cfg.cur (State.init 1 1) {} witnessLostNotPassed
     (r.1.src 0).acksSent = [12] ∧ (r.1.src 0).received = [(10, 0)] ∧
     (0, 10) ∈ r.2.g.lostOf 0 ∧ (0, 10) ∉ r.2.passedOf 0 ∧
     Confirmed r.1 0 10 0 ∧ Excused r.1 r.2.g 0 (10, 0) ∧ ¬ ExcusedT r.1 r.2 0 (10, 0)) := by decide

/-- the tight statement is also directly checkable on the three recorded traces (independent of the proof), and the
    ghost relation holds at their ends -/
example : AcksSafeTAlong Cfg.cur (State.init 1 1) {} witnessTargetBreak ∧
    AcksSafeTAlong Cfg.cur (State.init 1 2) {} witnessSourceRestart ∧
    AcksSafeTAlong Cfg.cur (State.init 1 1) {} witnessStaleRing := by decide

end S2S.Routing
