import S2S.Proofs.AclValTop
import S2S.Props.C13V
import S2S.Props.C16
/-!
# C16 at the level of VALUES — translation followed by the namespace access check

The inbound server runs the translation interceptor (remote names → local names, unless the
`s2s-request-translation: false` header switches it off) and then the access-control interceptor, whose matcher is the
SAME reflective visitor (`visitNamespace`) with a predicate instead of a mapping.  Here the two are composed on the
value-level model of the visitor (`S2S/Model/TranslateVal.lean`, validated against the real code by the `valns` ops):

* `aclOnValue`      the access-control interceptor's decision on a request VALUE: the names it checks are
                    `visitedNames` of that value; when the visitor fails (`nsErr`: a non-empty blob in a recognised blob
                    field that does not decode) the request is refused;
* `inboundOnValue`  translation (or not: the bypass header) and then `aclOnValue` on what translation produced.

Theorems — every graph, tables, `Ext`, mapping, policy, method, value tree (well typed or not):

* `C16V_forbidden_name_refused`   a forbidden name among the names the visitor finds in the tree the access check sees
                                  ⇒ `.denied`, for BOTH values of the bypass header (it changes WHICH names are checked —
                                  the untranslated ones — never WHETHER they are checked);
* `C16V_names_checked_are_translated_names`  the names checked after translation are, as a LIST (same order, same length),
                                  `translateName m` of the names found in the original request — provided the mapping
                                  never translates a non-empty name to the empty name (the skip shortcut looks at the
                                  emptiness of link namespaces; translating the empty name to a non-empty one is
                                  harmless: `Ex16.empty_key_is_fine`) and `Name` is not a namespace field name
                                  (`NamespaceInfo.Name` would go through the matcher twice).  Both hypotheses are needed:
                                  `Ex16.names_need_nonempty`, `Ex16.names_need_nameOnce`.
                                  Every configuration accepted at start-up satisfies the first one
                                  (`C16V_names_checked_of_accepted_config`), the current tree's tables the second.
* `C16V_visitor_failure_unchanged_by_translation`  translation neither creates nor hides a visitor failure;
* `C16V_decision_on_original_request`  hence the whole pipeline as a function of the ORIGINAL request;
  `C16V_forbidden_translated_name_refused`: a name of the original request whose translation is forbidden ⇒ `.denied`;
* `C16V_all_allowed_forwarded`, `C16V_unreadable_refused`.
-/
namespace S2S.TranslateVal
open S2S.Translate S2S.NameMap S2S.Acl

/-- the access-control interceptor on a request value -/
def aclOnValue (p : Policy) (svc : Service) (method : String) (g : Graph) (tb : Tables) (X : Ext String)
    (v : Val String) : Decision :=
  aclUnaryOnV p svc method (if nsErr g tb X v then none else some (visitedNames g tb X v))

/-- what the access check sees: the translated request, or (bypass header, `translate = false`) the request itself -/
def seenByAcl (translate : Bool) (m : List (String × String)) (g : Graph) (tb : Tables) (X : Ext String)
    (v : Val String) : Val String :=
  if translate then (translateNs g tb X m v).1 else v

/-- the inbound pipeline: translation interceptor, then access-control interceptor -/
def inboundOnValue (translate : Bool) (m : List (String × String)) (p : Policy) (svc : Service) (method : String)
    (g : Graph) (tb : Tables) (X : Ext String) (v : Val String) : Decision :=
  let v' := if translate then (translateNs g tb X m v).1 else v
  aclOnValue p svc method g tb X v'

theorem inboundOnValue_eq (translate : Bool) (m : List (String × String)) (p : Policy) (svc : Service) (method : String)
    (g : Graph) (tb : Tables) (X : Ext String) (v : Val String) :
    inboundOnValue translate m p svc method g tb X v = aclOnValue p svc method g tb X (seenByAcl translate m g tb X v) := rfl

/-- **1.** a forbidden name among the names the visitor finds in what the access check sees ⇒ refused; the bypass header
    (`translate = false`) only changes which tree that is -/
theorem C16V_forbidden_name_refused (translate : Bool) (m : List (String × String)) (p : Policy) (svc : Service)
    (method : String) (g : Graph) (tb : Tables) (X : Ext String) (v : Val String)
    (hsvc : svc = .workflow ∨ svc = .admin) (n : String)
    (hn : n ∈ visitedNames g tb X (if translate then (translateNs g tb X m v).1 else v))
    (hf : isAllowed p.namespaces n = false) :
    inboundOnValue translate m p svc method g tb X v = .denied := by
  unfold inboundOnValue aclOnValue
  simp only
  generalize (if translate = true then (translateNs g tb X m v).1 else v) = v' at hn ⊢
  cases nsErr g tb X v' with
  | true => exact unreadable_denied p svc method hsvc
  | false => exact forbidden_namespace_denied p svc method _ n hsvc hn hf

/-- **2.** the names checked after translation are exactly the translations of the names of the original request, in
    order.  `hE`: the mapping never translates a non-empty name to the empty name; `hN`: `Name` is not one of
    `namespaceFieldNames`. -/
theorem C16V_names_checked_are_translated_names (g : Graph) (tb : Tables) (X : Ext String) (m : List (String × String))
    (hE : ∀ s, translateName m s = X.empty → s = X.empty) (hN : tb.ns.contains g.nameField = false) (v : Val String) :
    visitedNames g tb X (translateNs g tb X m v).1 = (visitedNames g tb X v).map (translateName m) :=
  visitedNames_translate g tb X m hE hN v

/-- the side condition on the mapping, entry by entry: no entry maps a non-empty name to the empty name (in particular:
    no entry involves the empty name, the hypothesis of `C13_round_trip`) -/
theorem C16V_names_checked_nonempty_mapping (g : Graph) (tb : Tables) (X : Ext String) (m : List (String × String))
    (hne : ∀ p ∈ m, p.2 = X.empty → p.1 = X.empty) (hN : tb.ns.contains g.nameField = false) (v : Val String) :
    visitedNames g tb X (translateNs g tb X m v).1 = (visitedNames g tb X v).map (translateName m) :=
  visitedNames_translate g tb X m (mapNoNewEmpty_of_entries m X.empty hne) hN v

/-- every configuration the proxy accepts at start-up (`configAccepts`: no empty name, one-to-one) satisfies it -/
theorem C16V_names_checked_of_accepted_config (g : Graph) (tb : Tables) (X : Ext String) (m : List (String × String))
    (hacc : configAccepts X.empty m = true) (hN : tb.ns.contains g.nameField = false) (v : Val String) :
    visitedNames g tb X (translateNs g tb X m v).1 = (visitedNames g tb X v).map (translateName m) :=
  C16V_names_checked_nonempty_mapping g tb X m
    (fun p hp h => absurd h (nonempty_of_configAccepts m X.empty hacc p hp).2) hN v

/-- translation neither creates nor hides a visitor failure -/
theorem C16V_visitor_failure_unchanged_by_translation (g : Graph) (tb : Tables) (X : Ext String)
    (m : List (String × String)) (hE : ∀ s, translateName m s = X.empty → s = X.empty) (v : Val String) :
    nsErr g tb X (translateNs g tb X m v).1 = nsErr g tb X v :=
  nsErr_translate g tb X m hE v

/-- the pipeline as a function of the ORIGINAL request: the access decision on the translated names of the request
    (translation on), on its own names (bypass header) -/
theorem C16V_decision_on_original_request (translate : Bool) (m : List (String × String)) (p : Policy) (svc : Service)
    (method : String) (g : Graph) (tb : Tables) (X : Ext String) (v : Val String)
    (hE : ∀ s, translateName m s = X.empty → s = X.empty) (hN : tb.ns.contains g.nameField = false) :
    inboundOnValue translate m p svc method g tb X v =
      aclUnaryOnV p svc method
        (if nsErr g tb X v then none
         else some (if translate then (visitedNames g tb X v).map (translateName m) else visitedNames g tb X v)) := by
  unfold inboundOnValue aclOnValue
  cases translate with
  | false => rfl
  | true =>
    simp only [if_true]
    rw [nsErr_translate g tb X m hE v, visitedNames_translate g tb X m hE hN v]

/-- a name of the original request whose TRANSLATION is forbidden ⇒ refused -/
theorem C16V_forbidden_translated_name_refused (m : List (String × String)) (p : Policy) (svc : Service)
    (method : String) (g : Graph) (tb : Tables) (X : Ext String) (v : Val String)
    (hE : ∀ s, translateName m s = X.empty → s = X.empty) (hN : tb.ns.contains g.nameField = false)
    (hsvc : svc = .workflow ∨ svc = .admin) (n : String) (hn : n ∈ visitedNames g tb X v)
    (hf : isAllowed p.namespaces (translateName m n) = false) :
    inboundOnValue true m p svc method g tb X v = .denied := by
  apply C16V_forbidden_name_refused true m p svc method g tb X v hsvc (translateName m n) _ hf
  simp only [if_true]
  rw [visitedNames_translate g tb X m hE hN v]
  exact List.mem_map_of_mem hn

/-- **3.** the visitor does not fail on what the access check sees, the method passes the method-level checks (not on the
    deny list / allowed admin method) and every name found is allowed ⇒ forwarded -/
theorem C16V_all_allowed_forwarded (translate : Bool) (m : List (String × String)) (p : Policy) (svc : Service)
    (method : String) (g : Graph) (tb : Tables) (X : Ext String) (v : Val String)
    (herr : nsErr g tb X (if translate then (translateNs g tb X m v).1 else v) = false)
    (hdeny : svc = .workflow → denyList.contains method = false)
    (hadm : svc = .admin → isAllowed p.adminMethods method = true)
    (hall : ∀ n ∈ visitedNames g tb X (if translate then (translateNs g tb X m v).1 else v),
      isAllowed p.namespaces n = true) :
    inboundOnValue translate m p svc method g tb X v = .forward := by
  unfold inboundOnValue aclOnValue
  simp only
  rw [herr]
  exact all_allowed_forward p svc method _ hdeny hadm hall

/-- **4.** the visitor fails on what the access check sees ⇒ refused, never passed on unchecked -/
theorem C16V_unreadable_refused (translate : Bool) (m : List (String × String)) (p : Policy) (svc : Service)
    (method : String) (g : Graph) (tb : Tables) (X : Ext String) (v : Val String)
    (hsvc : svc = .workflow ∨ svc = .admin)
    (herr : nsErr g tb X (if translate then (translateNs g tb X m v).1 else v) = true) :
    inboundOnValue translate m p svc method g tb X v = .denied := by
  unfold inboundOnValue aclOnValue
  simp only
  rw [herr]
  exact unreadable_denied p svc method hsvc

/-- the tables of the current tree satisfy `hN` -/
example : S2S.Gen.TG.tables.ns.contains S2S.Gen.TG.graph.nameField = false := by decide

/-! ### non-vacuity: the graph and tables of `C13V` (`Ex.g`, `Ex.tb`), names as strings -/
namespace Ex16
/-- event-type tokens: "started" (attributes type 2, carries a namespace), "signaled" (type 7, skippable) -/
def X : Ext String :=
  { empty := "", evAttr := fun t => if t = "started" then some 2 else if t = "signaled" then some 7 else none,
    eventTypeField := 4, variantField := 8, workflowEventField := 9, namespaceField := 1,
    eventsField := 15, indexedFieldsField := 16, lwerType := 30 }
def ev (ty : String) (links attrs : Val String) : Val String := .msg 1 [.tok ty, links, attrs]
def started (ns : String) : Val String := ev "started" (.nil .slice) (.msg 2 [.str ns, .nil .ptr])
/-- a skippable event with one link naming namespace `ns` -/
def linked (ns : String) : Val String :=
  ev "signaled" (.list [.msg 3 [.msg 4 [.msg 5 [.str ns]]]]) (.msg 7 [.str "someone"])
/-- a request: top-level `Namespace`, one history blob with one started event naming `inner`, an identity -/
def req (top inner : String) : Val String := .msg 0 [.str top, .list [.blobEv false [started inner]], .str "me"]
def policy : Policy := ⟨[], ["local-a", "local-b"]⟩
def toLocal : List (String × String) := [("remote-b", "local-b")]
example : visitedNames Ex.g Ex.tb X (req "local-a" "remote-b") = ["local-a", "remote-b"] := by decide
example : nsErr Ex.g Ex.tb X (req "local-a" "remote-b") = false := by decide

/-- allowed top-level name, forbidden name inside the blob event, nothing maps it: refused, header or not -/
example : ∀ translate, inboundOnValue translate [] policy .workflow "StartWorkflowExecution" Ex.g Ex.tb X
    (req "local-a" "remote-b") = .denied := by decide
/-- the hypothesis of `C16V_forbidden_name_refused` on this request -/
example : "remote-b" ∈ visitedNames Ex.g Ex.tb X (req "local-a" "remote-b") ∧ isAllowed policy.namespaces "remote-b" = false := by
  decide
/-- the forbidden name is mapped to an allowed one: forwarded when translation runs … -/
example : inboundOnValue true toLocal policy .workflow "StartWorkflowExecution" Ex.g Ex.tb X (req "local-a" "remote-b") = .forward := by
  decide
/-- … refused under the bypass header: the untranslated names are checked -/
example : inboundOnValue false toLocal policy .workflow "StartWorkflowExecution" Ex.g Ex.tb X (req "local-a" "remote-b") = .denied := by
  decide
/-- the names checked are the translated names -/
example : visitedNames Ex.g Ex.tb X (translateNs Ex.g Ex.tb X toLocal (req "local-a" "remote-b")).1 = ["local-a", "local-b"] := by
  decide
/-- translation can also turn an allowed request into a refused one (an allowed name mapped to a forbidden one) -/
example : inboundOnValue true [("local-b", "elsewhere")] policy .workflow "StartWorkflowExecution" Ex.g Ex.tb X (req "local-a" "local-b") = .denied
    ∧ inboundOnValue false [("local-b", "elsewhere")] policy .workflow "StartWorkflowExecution" Ex.g Ex.tb X (req "local-a" "local-b") = .forward := by
  decide
/-- the admin service: same check; a method outside the allowed admin methods is refused whatever the names -/
example : inboundOnValue true toLocal ⟨["AddOrUpdateRemoteCluster"], ["local-a", "local-b"]⟩ .admin "AddOrUpdateRemoteCluster" Ex.g Ex.tb X (req "local-a" "remote-b") = .forward
    ∧ inboundOnValue true toLocal ⟨["AddOrUpdateRemoteCluster"], ["local-a", "local-b"]⟩ .admin "DeleteWorkflowExecution" Ex.g Ex.tb X (req "local-a" "remote-b") = .denied := by
  decide
/-- a blob that does not decode: the visitor fails, the request is refused although every name it could read is allowed -/
def unreadable : Val String := .msg 0 [.str "local-a", .list [.blobRaw false "garbage"], .str "me"]
example : nsErr Ex.g Ex.tb X unreadable = true ∧ visitedNames Ex.g Ex.tb X unreadable = ["local-a"] := by decide
example : ∀ translate, inboundOnValue translate toLocal policy .workflow "StartWorkflowExecution" Ex.g Ex.tb X unreadable = .denied := by
  decide

/-! `C16V_names_checked_are_translated_names` needs its hypotheses -/

/-- a name mapped TO the empty name: the link namespace `a` stops the skip shortcut before translation, the empty name
    it becomes does not — the event is not walked by the access check, one name fewer is checked -/
theorem names_need_nonempty :
    visitedNames Ex.g Ex.tb X (translateNs Ex.g Ex.tb X [("a", "")] (.msg 0 [.str "top", .list [.blobEv false [linked "a"]], .str ""])).1
      = ["top"] ∧
    (visitedNames Ex.g Ex.tb X (.msg 0 [.str "top", .list [.blobEv false [linked "a"]], .str ""])).map (translateName [("a", "")])
      = ["top", ""] := by decide
/-- so with `a ↦ ""` the request is forwarded although the translation of one of its names (the empty name) is forbidden -/
example : inboundOnValue true [("a", "")] ⟨[], ["top"]⟩ .workflow "StartWorkflowExecution" Ex.g Ex.tb X
      (.msg 0 [.str "top", .list [.blobEv false [linked "a"]], .str ""]) = .forward
    ∧ isAllowed ["top"] (translateName [("a", "")] "a") = false := by decide
/-- the other direction is harmless (and covered by the theorem): the empty name mapped to a non-empty one.  A blob with a
    started event and a signaled event whose link namespace is empty: the blob is walked before and after -/
theorem empty_key_is_fine :
    visitedNames Ex.g Ex.tb X (.msg 0 [.str "top", .list [.blobEv false [started "b", linked ""]], .str ""]) = ["top", "b", ""] ∧
    visitedNames Ex.g Ex.tb X (translateNs Ex.g Ex.tb X [("", "x")] (.msg 0 [.str "top", .list [.blobEv false [started "b", linked ""]], .str ""])).1
      = ["top", "b", "x"] := by decide
example : ∀ s, translateName [("", "x")] s = X.empty → s = X.empty :=
  mapNoNewEmpty_of_entries _ _ (by decide)

/-- `Name` among the namespace field names: `NamespaceInfo.Name` goes through the matcher twice (by type, then by name),
    so a chain mapping a→b→c leaves `c` where the access check expects `b` -/
def gN : Graph := { Ex.g with types := Ex.g.types ++ [⟨8, [⟨14, true, true, false, false, []⟩]⟩], namespaceInfo := 8 }
def tbN : Tables := { Ex.tb with ns := [1, 7, 14] }
theorem names_need_nameOnce :
    visitedNames gN tbN X (translateNs gN tbN X [("a", "b"), ("b", "c")] (.msg 8 [.str "a"])).1 = ["c"] ∧
    (visitedNames gN tbN X (.msg 8 [.str "a"])).map (translateName [("a", "b"), ("b", "c")]) = ["b"] := by decide
end Ex16

end S2S.TranslateVal
